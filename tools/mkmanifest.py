#!/usr/bin/env python3
"""Regenerate MANIFEST.json from lib/props.py (claimed checks) and properties.jsonl."""
import json, sys, os
ROOT = os.path.dirname(os.path.dirname(os.path.abspath(__file__)))
sys.path.insert(0, os.path.join(ROOT, 'lib'))
import props
allp = [json.loads(l) for l in open(os.path.join(ROOT, 'properties.jsonl'))]
hooks_commits = [l.strip() for l in open(os.path.join(ROOT, 'hooks_commits.txt'))] if os.path.exists(os.path.join(ROOT, 'hooks_commits.txt')) else []
m = {
 "version": 1,
 "setup_cmd": "./check --setup",
 "hooks": {"guard": "verif",
           "enable": "go build -tags verif -overlay build/overlay.json ./internal/verifharness (cwd /repo; the harness sources in /verif/go are injected with -overlay, nothing is written to /repo)",
           "baseline_off_cmd": "cd /repo && go test -vet=off -count=1 ./...",
           "source_commits": hooks_commits, "add_only": True},
 "engines": [{"name": "coq-model", "path": "coq/", "serves_properties": sorted(props.PROPS), "kind_free_text": "Coq 8.16.1 model + theorems; extracted to OCaml and run against the implementation by go/harness (built into /repo with -overlay)"}],
 "checks": [], "not_applicable": [],
 "notes": "All checks share ./check (lib/vcheck.py): regenerate coq/Gen from /repo, full make, Print Assumptions per theorem, extraction, harness build against the working tree, corpus + seeded correspondence run, verdict (DESIGN.md 2.5).",
}

def technique_of(pid, c):
    """Name the deciding method per property: always theorems in Coq about the executable model; the tie
    to the code is the differential run of the extracted model, the acceptance of observed histories by
    the model, a table or skeleton regenerated from the source by a translator, or several of these."""
    mods = [m for m, _ in c['theorems']]
    nm = c.get('no_model') or {}
    ties = []
    if any(d not in nm for d in c['domains'] if d != 'conc'):
        ties.append('differential correspondence (extracted OCaml model vs implementation on the same generated inputs)')
    if 'conc' in c['domains']:
        ties.append('acceptance of the observed call/return histories of the concurrent writer by the extracted protocol model')
    gen = []
    if pid == 'C17' or any(d == 'validate' for d in c['domains']):
        gen.append('field table (Gen/FieldTable.v)')
    if 'Properties.SyncSkeleton' in mods:
        gen.append('synchronisation skeleton of warcfile.go (Gen/SyncSkeleton.v)')
    if 'Properties.AccessTable' in mods:
        gen.append('shared-state access table (Gen/AccessTable.v)')
    if 'Properties.SerialTable' in mods:
        gen.append('uses of the name generator serial (Gen/AccessTable.v)')
    if gen:
        ties.append('model parts regenerated from the source on every run by the translator go/gen with tie theorems re-checked: ' + ', '.join(gen))
    if pid == 'C12':
        ties.append('the writer model whose effect trace the theorems speak about is the one tied to warcfile.go by the differential runs of C04 and C13')
    if any(d in nm for d in c['domains']):
        ties.append('executable statement of the property evaluated on the implementation by the harness (domains ' + ', '.join(d for d in c['domains'] if d in nm) + ')')
    return 'machine-checked proof in Coq (theorems about an executable Gallina model, no axioms); model tied to the code by ' + '; '.join(ties)

for p in allp:
    pid = p['id']
    if pid in props.PROPS and props.PROPS[pid].get('level_text', 'TODO') != 'TODO':
        c = props.PROPS[pid]
        m["checks"].append({
            "property_id": pid,
            "quick_cmd": "./check %s --tier quick" % pid,
            "thorough_cmd": "./check %s --tier thorough" % pid,
            "evidence_file": "evidence/%s.json" % pid,
            "replay_cmd_template": "./check %s --replay {path}" % pid,
            "engine": "coq-model",
            "level_claimed": {"category": "proof", "text": c['level_text'], "design_ref": c.get('design_ref', 'DESIGN.md section 4, ' + pid)},
            "level_note": c['level_note'],
            "technique": c.get('technique', technique_of(pid, c)),
        })
    else:
        m["not_applicable"].append({"property_id": pid, "reason": "check not built yet in this session (work in progress; planned, see DESIGN.md section 4)"})
json.dump(m, open(os.path.join(ROOT, 'MANIFEST.json'), 'w'), indent=1)
print('checks:', len(m['checks']), 'not_applicable:', len(m['not_applicable']))
