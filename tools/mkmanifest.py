#!/usr/bin/env python3
"""Regenerate MANIFEST.json from lib/props.py (claimed checks) and properties.jsonl."""
import json, sys, os
ROOT = os.path.dirname(os.path.dirname(os.path.abspath(__file__)))
sys.path.insert(0, os.path.join(ROOT, 'lib'))
import props
allp = [json.loads(l) for l in open(os.path.join(ROOT, 'properties.jsonl'))]
hooks_commits = [l.strip() for l in open(os.path.join(ROOT, 'hooks_commits.txt'))] if os.path.exists(os.path.join(ROOT, 'hooks_commits.txt')) else []
m = {
 "version": 1,
 "setup_cmd": "./check --setup",
 "hooks": {"guard": "verif",
           "enable": "go build -tags verif -overlay build/overlay.json ./internal/verifharness (cwd /repo; the harness sources in /verif/go are injected with -overlay, nothing is written to /repo)",
           "baseline_off_cmd": "cd /repo && go test -vet=off -count=1 ./...",
           "source_commits": hooks_commits, "add_only": True},
 "engines": [{"name": "coq-model", "path": "coq/", "serves_properties": sorted(props.PROPS), "kind_free_text": "Coq 8.16.1 model + theorems; extracted to OCaml and run against the implementation by go/harness (built into /repo with -overlay)"}],
 "checks": [], "not_applicable": [],
 "notes": "All checks share ./check (lib/vcheck.py): regenerate coq/Gen from /repo, full make, Print Assumptions per theorem, extraction, harness build against the working tree, corpus + seeded correspondence run, verdict (DESIGN.md 2.5).",
}
for p in allp:
    pid = p['id']
    if pid in props.PROPS and props.PROPS[pid].get('level_text', 'TODO') != 'TODO':
        c = props.PROPS[pid]
        m["checks"].append({
            "property_id": pid,
            "quick_cmd": "./check %s --tier quick" % pid,
            "thorough_cmd": "./check %s --tier thorough" % pid,
            "evidence_file": "evidence/%s.json" % pid,
            "replay_cmd_template": "./check %s --replay {path}" % pid,
            "engine": "coq-model",
            "level_claimed": {"category": "proof", "text": c['level_text'], "design_ref": c.get('design_ref', 'DESIGN.md section 4, ' + pid)},
            "level_note": c['level_note'],
            "technique": c.get('technique', 'machine-checked proof in Coq about an executable model; model tied to the code by differential correspondence (extracted OCaml vs implementation)'),
        })
    else:
        m["not_applicable"].append({"property_id": pid, "reason": "check not built yet in this session (work in progress; planned, see DESIGN.md section 4)"})
json.dump(m, open(os.path.join(ROOT, 'MANIFEST.json'), 'w'), indent=1)
print('checks:', len(m['checks']), 'not_applicable:', len(m['not_applicable']))
