#!/bin/bash
# Re-check every compiled file of the development with Coq's independent checker and print the
# axioms they rely on (takes 5-10 minutes).  Run after ./check --setup (or any check) has built coq/.
cd "$(dirname "$0")/../coq" || exit 2
mods=$(ls Properties/*.v | sed 's#/#.#; s#\.v$##' | tr '\n' ' ')
exec timeout 7200 coqchk -silent -o -Q Model Model -Q Gen Gen -Q Proofs Proofs -Q Properties Properties $mods
