#!/usr/bin/env python3
import json,sys
for f in sys.argv[1:]:
    d=json.load(open(f)); print(f, d.get('kind'), d.get('n_violating_cases'))
    c=d.get('case','')
    print('  C', c[:600]); 
    i,m,s=d.get('impl','').split(';'),d.get('model','').split(';'),d.get('spec','').split(';')
    for k in range(max(len(i),len(m),len(s))):
        a=i[k] if k<len(i) else '';b=m[k] if k<len(m) else '';c_=s[k] if k<len(s) else ''
        mark='' if a==b==c_ else '   <<<<'
        print('   %d I=%s M=%s S=%s%s'%(k,a[:80],b[:80],c_[:80],mark))
