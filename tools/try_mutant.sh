#!/bin/bash
# usage: tools/try_mutant.sh <patch.diff> <property id> [tier]   — apply to /repo (3-way if needed), run the check, always revert
set -u
patch="$1"; id="$2"; tier="${3:-quick}"
cd /repo || exit 2
if git apply --check "$patch" 2>/dev/null; then git apply "$patch"
elif git apply --3way "$patch" >/dev/null 2>&1 && ! git diff --name-only --diff-filter=U | grep -q .; then echo "(applied with 3-way merge)"
else git reset -q --hard HEAD; echo "PATCH DOES NOT APPLY: $patch"; exit 3; fi
export GOFLAGS=-mod=mod GOPROXY=off GOSUMDB=off GOTOOLCHAIN=local
if ! go build ./... 2>/dev/null; then echo "PATCHED TREE DOES NOT COMPILE"; git reset -q --hard HEAD; exit 4; fi
git diff HEAD > /tmp/last_mutant_rebased.diff
cd /verif
./check "$id" --tier "$tier" 2>&1 | grep -E "VIOLATION|KNOWN-FINDING|\[check\] C|violation kinds|Error|error" | head -8
rc=${PIPESTATUS[0]}
git -C /repo reset -q --hard HEAD
git -C /repo status --short | head -3
echo "exit=$rc"
