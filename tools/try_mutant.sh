#!/bin/bash
# usage: tools/try_mutant.sh <patch.diff> <property id> [tier]   — apply to /repo, run the check, always revert
set -u
patch="$1"; id="$2"; tier="${3:-quick}"
cd /repo || exit 2
if ! git apply --check "$patch" 2>/dev/null; then echo "PATCH DOES NOT APPLY: $patch"; exit 3; fi
git apply "$patch"
cd /verif
./check "$id" --tier "$tier" 2>&1 | grep -E "VIOLATION|KNOWN-FINDING|\[check\] C|violation kinds|Error|error" | head -8
rc=${PIPESTATUS[0]}
git -C /repo checkout -- . 
git -C /repo status --short | head -3
echo "exit=$rc"
