#!/usr/bin/env python3
"""(round 8: /tmp/mut8/<id>/out -> seeded/<id>-I) Confirm every seeded change in a scratch worktree of /repo's HEAD and store it under seeded/.
For each: demo passes on the clean tree; with the change the existing suite passes and the demo fails."""
import os, re, sys, json, subprocess, shutil, glob
ENV=dict(os.environ, GOFLAGS='-mod=mod', GOPROXY='off', GOSUMDB='off', GOTOOLCHAIN='local')
ROOT='/verif'
def sh(cmd, cwd, timeout=900):
    p=subprocess.run(cmd, cwd=cwd, env=ENV, shell=True, stdout=subprocess.PIPE, stderr=subprocess.STDOUT, text=True, timeout=timeout)
    return p.returncode, p.stdout
only=sys.argv[1:] 
results={}
for d in sorted(glob.glob('/tmp/mut8/C*/out')):
    pid=d.split('/')[3]; letter='I'
    if not os.path.exists(os.path.join(d,'patch.diff')): continue
    tag='%s-%s'%(pid,letter)
    if only and pid not in only and tag not in only: continue
    patch=os.path.join(d,'patch.rebased.diff')
    if not os.path.exists(patch): patch=os.path.join(d,'patch.diff')
    demos=glob.glob(os.path.join(d,'demo_test.go'))+glob.glob(os.path.join(d,'*_test.go'))
    if not demos:
        results[tag]='no demo'; continue
    demo=demos[0]
    src=open(demo).read()
    pkg=re.search(r'^package (\w+)', src, re.M).group(1)
    target='internal/diskbuffer' if pkg=='diskbuffer' else '.'
    m=re.search(r"func (TestDemo\w+)", src)
    run=m.group(1) if m else 'Test'
    race='-race ' if pid=='C11' else ''
    wt='/tmp/confirm_wt8'
    subprocess.run('git -C /repo worktree remove --force %s'%wt, shell=True, stdout=subprocess.DEVNULL, stderr=subprocess.DEVNULL)
    shutil.rmtree(wt, ignore_errors=True)
    sh('git -C /repo worktree add --detach %s HEAD -q'%wt, '/')
    try:
        demofile=os.path.join(wt,target,'zz_seeded_demo_test.go')
        shutil.copy(demo, demofile)
        cmd='go test %s-vet=off -count=1 -run "%s" ./%s'%(race,run,target)
        rc1,o1=sh(cmd, wt)
        os.remove(demofile)
        rc,o=sh('git apply --3way %s'%patch, wt)
        if rc!=0:
            results[tag]='patch does not apply: '+o[-200:]; continue
        rc2,o2=sh('go build ./... && go test -vet=off -count=1 ./...', wt)
        shutil.copy(demo, demofile)
        rc3,o3=sh(cmd, wt)
        ok = rc1==0 and rc2==0 and rc3!=0
        results[tag]='OK' if ok else 'demo-clean=%d suite=%d demo-mut=%d'%(rc1,rc2,rc3)
        if ok:
            out=os.path.join(ROOT,'seeded',tag); os.makedirs(out, exist_ok=True)
            shutil.copy(patch, os.path.join(out,'patch.diff'))
            shutil.copy(demo, os.path.join(out,'demo_test.go'))
            meta=json.load(open(os.path.join(d,'meta.json'))) if os.path.exists(os.path.join(d,'meta.json')) else {}
            head=subprocess.check_output('git -C /repo rev-parse --short HEAD',shell=True,text=True).strip()
            json.dump(dict(property=pid, breaks=meta.get('breaks'), needs_to_manifest=meta.get('needs_to_manifest'), files_changed=meta.get('files_changed'),
                           applies_to_repo_commit=head, demo_dir=target, demo_cmd=cmd,
                           confirmed=['demo on the clean tree: pass', 'existing suite with the change: pass', 'demo with the change: fail'],
                           rebased=patch.endswith('rebased.diff')), open(os.path.join(out,'meta.json'),'w'), indent=1)
        else:
            open('/tmp/confirm_%s.log'%tag,'w').write(o1[-2000:]+'\n=====\n'+o2[-2000:]+'\n=====\n'+o3[-2000:])
    finally:
        subprocess.run('git -C /repo worktree remove --force %s'%wt, shell=True, stdout=subprocess.DEVNULL, stderr=subprocess.DEVNULL)
    print(tag, results[tag], flush=True)
