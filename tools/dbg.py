#!/usr/bin/env python3
"""summarise build/debug_<id>.txt: group by (kind, differing observation fields)"""
import sys,re,collections
pid=sys.argv[1]; lim=int(sys.argv[2]) if len(sys.argv)>2 else 12
txt=open('/verif/build/debug_%s.txt'%pid).read().split('\n')
c=collections.Counter(); ex={}
i=0
def fields(o):
    d={}
    for part in o.split(';'):
        if '=' in part:
            k,v=part.split('=',1); d[k]=v
        else: d.setdefault('_',[]).append(part)
    return d
while i<len(txt)-3:
    head=txt[i];I=txt[i+1][4:];M=txt[i+2][4:];S=txt[i+3][4:]
    kind=head.split('|')[0].strip()
    fi,fm=fields(I),fields(M)
    diff=tuple(sorted(k for k in set(fi)|set(fm) if fi.get(k)!=fm.get(k)))
    key=(kind,diff,str(fi.get('_')),str(fm.get('_')))
    c[key]+=1; ex.setdefault(key,(head,I,M,S))
    i+=4
def dec(h):
    try: return bytes.fromhex(h[1:])
    except Exception: return h
for k,v in c.most_common(lim):
    print(v,k)
    head,I,M,S=ex[k]
    print('   CASE',head.split('|',1)[1][:400])
    fi,fm=fields(I),fields(M)
    for d in k[1]:
        a,b=fi.get(d),fm.get(d)
        if isinstance(a,str) and a.startswith('h'): a=dec(a)
        if isinstance(b,str) and b.startswith('h'): b=dec(b)
        print('     ',d,'I=',str(a)[:300]); print('     ',d,'M=',str(b)[:300])
