#!/usr/bin/env python3
"""Apply every seeded change under seeded/ to /repo in turn, run the quick check of its property,
revert, and record what the check reported in seeded/RESULTS.json (+ RESULTS.md).
usage: tools/mutant_matrix.py [ids...]"""
import os, re, sys, json, subprocess, glob, time
ROOT = '/verif'; REPO = '/repo'
ENV = dict(os.environ, GOFLAGS='-mod=mod', GOPROXY='off', GOSUMDB='off', GOTOOLCHAIN='local')
def sh(cmd, cwd, timeout=2400):
    p = subprocess.run(cmd, cwd=cwd, env=ENV, shell=True, stdout=subprocess.PIPE, stderr=subprocess.STDOUT, text=True, timeout=timeout)
    return p.returncode, p.stdout
only = sys.argv[1:]
resf = os.path.join(ROOT, 'seeded/RESULTS.json')
results = json.load(open(resf)) if os.path.exists(resf) else {}
assert sh('git status --porcelain', REPO)[1].strip() == '', '/repo is not clean'
for d in sorted(glob.glob(os.path.join(ROOT, 'seeded/C*-*'))):
    tag = os.path.basename(d); pid = tag.split('-')[0]
    if only and tag not in only and pid not in only:
        continue
    patch = os.path.join(d, 'patch.rebased.diff')
    if not os.path.exists(patch):
        patch = os.path.join(d, 'patch.diff')
    rc, o = sh('git apply --check %s' % patch, REPO)
    if rc == 0:
        sh('git apply %s' % patch, REPO)
    else:
        rc, o = sh('git apply --3way %s' % patch, REPO)
        if rc != 0:
            sh('git reset -q --hard HEAD', REPO)
            results[tag] = dict(status='patch does not apply'); continue
    t0 = time.time()
    try:
        rc, out = sh('./check %s' % pid, ROOT)
    finally:
        sh('git reset -q --hard HEAD', REPO)
    viol = re.findall(r'^VIOLATION property=(\S+) replay=(\S+)( no-failing-input-found)?', out, re.M)
    kinds = re.search(r'violation kinds: (\{.*\})', out)
    summ = re.search(r'\[check\] %s quick: (.*)' % pid, out)
    obl = re.search(r'obligations (\d+)/(\d+)', out)
    replay_kind = ''
    if viol:
        try:
            replay_kind = json.load(open(viol[0][1])).get('kind', '')
        except Exception:
            pass
    results[tag] = dict(exit=rc, detected=bool(viol) and rc == 1,
                        with_failing_input=bool(viol) and not viol[0][2],
                        replay_kind=replay_kind,
                        kinds=kinds.group(1) if kinds else '',
                        obligations='%s/%s' % obl.groups() if obl else '',
                        summary=summ.group(1) if summ else out[-300:], wall_s=round(time.time() - t0, 1))
    print(tag, results[tag]['detected'], results[tag]['replay_kind'], results[tag]['obligations'], flush=True)
    json.dump(results, open(resf, 'w'), indent=1, sort_keys=True)
assert sh('git status --porcelain', REPO)[1].strip() == '', '/repo is not clean after the run'
with open(os.path.join(ROOT, 'seeded/RESULTS.md'), 'w') as f:
    f.write('| seeded change | what it breaks (files) | detected by `./check <id>` quick | how | theorems still checked |\n|---|---|---|---|---|\n')
    for tag in sorted(results):
        r = results[tag]
        meta = json.load(open(os.path.join(ROOT, 'seeded', tag, 'meta.json')))
        how = ('failing input, kind `%s`' % r.get('replay_kind')) if r.get('with_failing_input') else ('tie broken, no failing input found' if r.get('detected') else 'NOT DETECTED')
        f.write('| %s | %s | %s | %s | %s |\n' % (tag, ', '.join(meta.get('files_changed', [])), 'yes' if r.get('detected') else 'NO', how, r.get('obligations', '')))
