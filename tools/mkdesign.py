#!/usr/bin/env python3
"""Fill the generated tables of DESIGN.md (between <!-- BEGIN:x --> / <!-- END:x --> markers)
from lib/props.py, known_findings.json and seeded/RESULTS.json."""
import os, sys, json, re
ROOT = os.path.dirname(os.path.dirname(os.path.abspath(__file__)))
sys.path.insert(0, os.path.join(ROOT, 'lib'))
import props
def fill(s, name, body):
    a = s.index('<!-- BEGIN:%s -->' % name) + len('<!-- BEGIN:%s -->' % name)
    b = s.index('<!-- END:%s -->' % name)
    return s[:a] + '\n' + body.rstrip('\n') + '\n' + s[b:]
s = open(os.path.join(ROOT, 'DESIGN.md')).read()
titles = {}
for l in open(os.path.join(ROOT, 'properties.jsonl')):
    d = json.loads(l); titles[d['id']] = d['title']
known = json.load(open(os.path.join(ROOT, 'known_findings.json')))['findings']
rows = ['| id | strength | theorems (coq/Properties) | tie to the code | harness domains | known findings |', '|---|---|---|---|---|---|']
for pid in sorted(props.PROPS):
    p = props.PROPS[pid]
    lt = p['level_text']
    strength = 'partial' if lt.upper().startswith('PARTIAL') else 'full'
    if re.search(r'(?<![A-Za-z0-9_])REFUTED(?![A-Za-z0-9_])', lt.upper()): strength += ', one part refuted'
    nthm = sum(len(t[1]) for t in p['theorems'])
    mods = ', '.join(sorted({t[0].split('.')[-1] for t in p['theorems']}))
    tie = []
    if p.get('feed_impl'): tie.append('history acceptance by the extracted model')
    nomodel = p.get('no_model', {})
    if any(not nomodel.get(d) and d not in p.get('feed_impl', ()) for d in p['domains']): tie.append('differential run of the extracted model')
    if any(nomodel.get(d) for d in p['domains']): tie.append('executable statement / observer in the harness')
    if pid == 'C17': tie.append('generated field table')
    if pid in ('C09', 'C10'): tie.append('generated sync skeleton')
    if pid == 'C11': tie.append('generated access table')
    kf = ', '.join(k['kind'] for k in known if k['property'] == pid and k['status'] == 'known') or '-'
    rows.append('| %s %s | %s | %d in %s | %s | %s | %s |' % (pid, titles[pid], strength, nthm, mods, '; '.join(tie), ', '.join(p['domains']), kf))
s = fill(s, 'status', '\n'.join(rows))
fx = ['| property | commit | what failed |', '|---|---|---|']
for k in known:
    if k['status'] == 'fixed':
        d = re.sub(r'^fixed: property=\S+ \S+ ', '', k['description'])
        fx.append('| %s | %s | %s |' % (k['property'], k.get('commit', ''), d))
s = fill(s, 'fixed', '\n'.join(fx))
kn = ['| property | kind | what fails | witness |', '|---|---|---|---|']
for k in known:
    if k['status'] == 'known':
        kn.append('| %s | %s | %s | `%s` |' % (k['property'], k['kind'], k['description'], k.get('witness', '')[:120]))
s = fill(s, 'known', '\n'.join(kn))
inv = []
for pid in sorted(props.PROPS):
    p = props.PROPS[pid]
    inv.append('* **%s** - ' % pid + '; '.join('`%s`' % n for t in p['theorems'] for n in t[1]))
if '<!-- BEGIN:inventory -->' in s:
    s = fill(s, 'inventory', '\n'.join(inv))
rp = os.path.join(ROOT, 'seeded/RESULTS.md')
s = fill(s, 'seeded', open(rp).read() if os.path.exists(rp) else '(run tools/mutant_matrix.py)')
open(os.path.join(ROOT, 'DESIGN.md'), 'w').write(s)
print('DESIGN.md tables regenerated')
