#!/bin/bash
export GOFLAGS=-mod=mod GOPROXY=off GOSUMDB=off GOTOOLCHAIN=local
cd /verif
for i in "$@"; do
  s=$(date +%s)
  timeout 5400 ./check C$i --tier thorough 2>&1 | grep -E "VIOLATION|KNOWN|\[check\] C$i|exceeded" | cut -c1-300
  echo "C$i rc=${PIPESTATUS[0]} wall=$(( $(date +%s) - s ))s"
done
