(** RoundTripProofs.v — the stages of C01 composed: parsing the marshalled form of a valid record
    returns that record, no finding, and the rest of the stream untouched. *)
Require Import Model.Bytes Model.FieldDef Model.Fields Model.Policy Model.Validate Model.Spill
               Model.Stream Model.HeaderParse Model.Digest Model.Record.
Require Import Proofs.HeaderProofs Proofs.RecordProofs.
From Coq Require Import Lia.
Local Open Scope N_scope.

Definition v10 : bytes := [49;46;48].
Definition v11 : bytes := [49;46;49].

Section RoundTrip.
Variable tbl : list fielddef.
Variable req : list bytes.
Variable uni_lower uni_upper : bytes -> bytes.
Variables time_ok ip_ok uri_ok wid_ok : bytes -> bool.
Variable mime_dec : bytes -> option bytes.
Variable H : alg -> bytes -> bytes.
Variables b32_decode b64_decode : bytes -> option bytes.
Variables http_req_ok http_resp_ok : bytes -> bool.

Notation parse_record := (parse_record tbl req uni_lower uni_upper time_ok ip_ok uri_ok wid_ok mime_dec H b32_decode b64_decode http_req_ok http_resp_ok).
Notation parse_block := (parse_block tbl uni_lower uni_upper mime_dec http_req_ok http_resp_ok).
Notation validate_digest := (validate_digest tbl uni_lower H b32_decode b64_decode).
Notation validate_header := (validate_header tbl req uni_lower time_ok ip_ok uri_ok wid_ok).
Notation cl_value := (cl_value tbl uni_lower).
Notation wf_field := (wf_field tbl uni_lower).

(* what Unmarshal passes as "the block is cached" to ValidateDigest *)
Definition cached_kind (b : rblock) : bool :=
  match bk b with BWarcFields | BRevisit => true | _ => false end.

(** a record the reader accepts as it is: version known, header well formed and valid with no
    finding, Content-Length truthful, block parses to itself, digests absent-or-valid *)
Record valid_record (o : opts) (r : record) (bd : digest) (pd : option digest) : Prop := {
  vr_version : (r_vtxt r = v10 /\ r_vid r = 1) \/ (r_vtxt r = v11 /\ r_vid r = 2);
  vr_wf : forall f, In f (r_fields r) -> wf_field f;
  vr_nonempty : r_fields r <> [];
  vr_header : validate_header (o_spec o) (o_unknown o) (r_vid r) (r_fields r) [] = Ok (r_type r, r_fields r) [];
  vr_length : cl_value (r_fields r) = Z.of_nat (length (raw_bytes (r_block r)));
  vr_block : parse_block o (r_type r) (r_fields r) (raw_bytes (r_block r)) [] = Ok (r_fields r, r_block r, bd, pd) [];
  vr_digest : validate_digest o (r_type r) (r_fields r) (r_block r) bd pd (cached_kind (r_block r)) [] = Ok (r_fields r) []
}.

Lemma framing (raw rest : bytes) :
  let avail := raw ++ CRLFCRLF ++ rest in
  let len := Z.of_nat (length raw) in
  ((len <? 0)%Z || (Z.of_nat (length avail) <=? len)%Z) = false /\
  ((len <? 0)%Z || (Z.of_nat (length avail) <? len)%Z) = false /\
  firstn (Z.to_nat len) avail = raw /\ skipn (length raw) avail = CRLFCRLF ++ rest.
Proof.
  cbv zeta. rewrite !app_length. unfold CRLFCRLF at 1 2. cbn [length].
  repeat split.
  - apply Bool.orb_false_iff; split; [apply Z.ltb_ge|apply Z.leb_gt]; lia.
  - apply Bool.orb_false_iff; split; [apply Z.ltb_ge|apply Z.ltb_ge]; lia.
  - rewrite Nat2Z.id, firstn_app, firstn_all, Nat.sub_diag, firstn_O, app_nil_r. reflexivity.
  - rewrite skipn_app, skipn_all, Nat.sub_diag. reflexivity.
Qed.

Lemma version_line vt X tl : vt = v10 \/ vt = v11 ->
  read_bytes LF (discard 5 (mkst (s_WARC ++ vt ++ CRLF ++ X) tl)) = (vt ++ CRLF, None, mkst X tl).
Proof. intros [->| ->]; reflexivity. Qed.

Lemma version_checks vt : vt = v10 \/ vt = v11 ->
  ((length (vt ++ CRLF) <? 2)%nat || negb (nth (length (vt ++ CRLF) - 2) (vt ++ CRLF) 0 =? CR)) = false /\
  trim is_sphtcrlf (vt ++ CRLF) = vt.
Proof. intros [->| ->]; split; reflexivity. Qed.

Theorem marshal_then_parse o r bd pd rest tl :
  valid_record o r bd pd ->
  parse_record o (mkst (marshal r ++ rest) tl) [] = URec r None [] (mkst rest tl).
Proof.
  intros [Hver Hwf Hne Hhdr Hlen Hblk Hdig].
  destruct r as [vt vid rt hs blk]. cbn [r_vtxt r_vid r_type r_fields r_block] in *.
  assert (Hs1 : parse_fields tbl uni_lower mime_dec (o_syntax o)
                 (mkst (m_write hs ++ CRLF ++ raw_bytes blk ++ CRLFCRLF ++ rest) tl) []
               = Ok (hs, mkst (raw_bytes blk ++ CRLFCRLF ++ rest) tl) []).
  { pose proof (parse_serialize tbl uni_lower mime_dec (o_syntax o) hs (raw_bytes blk ++ CRLFCRLF ++ rest) tl [] Hwf Hne) as P.
    unfold serialize in P. rewrite <- app_assoc in P. exact P. }
  destruct (framing (raw_bytes blk) rest) as (F1 & F2 & F3 & F4).
  assert (Hv : vt = v10 \/ vt = v11) by (destruct Hver as [[? _]|[? _]]; auto).
  assert (Hvid : (if bytes_eqb vt [49;46;48] then 1 else if bytes_eqb vt [49;46;49] then 2 else 0) = vid).
  { destruct Hver as [[-> ->]|[-> ->]]; reflexivity. }
  assert (Hvid0 : (vid =? 0) = false) by (destruct Hver as [[_ ->]|[_ ->]]; reflexivity).
  assert (Hm : marshal (mkrec vt vid rt hs blk) ++ rest
               = s_WARC ++ vt ++ CRLF ++ (m_write hs ++ CRLF ++ raw_bytes blk ++ CRLFCRLF ++ rest)).
  { unfold marshal. cbn [r_vtxt r_fields r_block]. rewrite <- !app_assoc. reflexivity. }
  rewrite Hm. unfold Record.parse_record. cbv zeta.
  rewrite (version_line vt _ tl Hv).
  destruct (version_checks vt Hv) as [Hb Ht]. rewrite Hb, Ht, Hvid, Hvid0.
  rewrite Hs1, Hhdr. cbn [sdata stail].
  rewrite Hlen, F1, F2, F3, F4.
  destruct tl; rewrite Hblk; unfold cached_kind in Hdig; rewrite Hdig, trailer_ok; reflexivity.
Qed.


(** * a file: complete records followed by anything (a cut record, junk, nothing) *)
Notation unmarshal_plain := (unmarshal_plain tbl req uni_lower uni_upper time_ok ip_ok uri_ok wid_ok mime_dec H b32_decode b64_decode http_req_ok http_resp_ok).
Notation read_all_plain := (read_all_plain tbl req uni_lower uni_upper time_ok ip_ok uri_ok wid_ok mime_dec H b32_decode b64_decode http_req_ok http_resp_ok).

Lemma marshal_starts_with_magic r X : exists Y, marshal r ++ X = s_WARC ++ Y.
Proof. unfold marshal. exists (r_vtxt r ++ CRLF ++ m_write (r_fields r) ++ CRLF ++ raw_bytes (r_block r) ++ CRLFCRLF ++ X).
  rewrite <- !app_assoc. reflexivity. Qed.

Lemma unmarshal_marshal o r bd pd rest tl :
  valid_record o r bd pd ->
  unmarshal_plain o (mkst (marshal r ++ rest) tl) = (0%nat, URec r None [] (mkst rest tl)).
Proof.
  intros Hv. unfold Record.unmarshal_plain.
  destruct (marshal_starts_with_magic r rest) as [Y HY].
  assert (Hf : forall fuel p off, find_start (S fuel) p (mkst (marshal r ++ rest) tl) off
                 = (FoundWarc, off, mkst (marshal r ++ rest) tl)).
  { intros fuel p off. rewrite HY. reflexivity. }
  rewrite Hf. cbn [Nat.eqb negb andb].
  replace (if policy_gt_ignore (o_syntax o) && false then [(KOffset, [])] else []) with (@nil finding)
    by (destruct (policy_gt_ignore (o_syntax o)); reflexivity).
  rewrite (marshal_then_parse o r bd pd rest tl Hv). reflexivity.
Qed.

Fixpoint expected (rs : list record) (rest : bytes) (tl : tailk) (base : nat) : list (nat * uresult) :=
  match rs with
  | [] => []
  | r :: t => (base, URec r None [] (mkst (flat_map marshal t ++ rest) tl))
              :: expected t rest tl (base + length (marshal r))
  end.

Theorem complete_records_survive o rs rest tl : forall k base,
  (forall r, In r rs -> exists bd pd, valid_record o r bd pd) ->
  read_all_plain (length rs + k) o (mkst (flat_map marshal rs ++ rest) tl) base
  = expected rs rest tl base ++ read_all_plain k o (mkst rest tl) (base + length (flat_map marshal rs)).
Proof.
  induction rs as [|r t IH]; intros k base Hv.
  - cbn [flat_map app length expected Nat.add]. rewrite Nat.add_0_r. reflexivity.
  - destruct (Hv r (or_introl eq_refl)) as (bd & pd & Hr).
    cbn [length Nat.add flat_map expected]. cbn [Record.read_all_plain].
    rewrite <- app_assoc, (unmarshal_marshal o r bd pd _ tl Hr).
    cbn [sdata]. rewrite Nat.add_0_r.
    replace (length (marshal r ++ flat_map marshal t ++ rest) - length (flat_map marshal t ++ rest))%nat
      with (length (marshal r)) by (rewrite (app_length (marshal r)); lia).
    rewrite IH by (intros r' Hr'; apply Hv; right; exact Hr').
    rewrite app_length, Nat.add_assoc. reflexivity.
Qed.


(** * a cut after the header section is visible *)
Definition clean_and_silent (u : uresult) : Prop := exists r' s', u = URec r' None [] s'.

Lemma trailer_incomplete o z tl fnd : (length z < 4)%nat -> policy_gt_ignore (o_spec o) = true ->
  match trailer o (mkst z tl) fnd with
  | Ok _ fnd' => exists e, fnd' = fnd ++ [e]
  | Err _ _ => True
  end.
Proof.
  intros Hz Hgt. unfold trailer, peek. cbn [sdata stail].
  rewrite firstn_all2 by lia.
  assert (Hne : bytes_eqb z CRLFCRLF = false).
  { destruct (bytes_eqb z CRLFCRLF) eqn:E; [|reflexivity].
    apply BytesProofs.bytes_eqb_eq in E. subst. cbn in Hz. lia. }
  rewrite Hne. destruct (o_spec o); [discriminate| |exact I]. cbn [site].
  eexists; reflexivity.
Qed.

Theorem cut_after_header_is_visible o r bd pd x y :
  valid_record o r bd pd -> policy_gt_ignore (o_spec o) = true ->
  raw_bytes (r_block r) ++ CRLFCRLF = x ++ y -> y <> [] ->
  ~ clean_and_silent
      (parse_record o (mkst (s_WARC ++ r_vtxt r ++ CRLF ++ serialize (r_fields r) ++ x) TEOF) []).
Proof.
  intros [Hver Hwf Hne Hhdr Hlen Hblk Hdig] Hgt Hxy Hy.
  destruct r as [vt vid rt hs blk]. cbn [r_vtxt r_vid r_type r_fields r_block] in *.
  assert (Hs1 : parse_fields tbl uni_lower mime_dec (o_syntax o) (mkst (serialize hs ++ x) TEOF) []
               = Ok (hs, mkst x TEOF) []).
  { apply (parse_serialize tbl uni_lower mime_dec); assumption. }
  assert (Hv : vt = v10 \/ vt = v11) by (destruct Hver as [[? _]|[? _]]; auto).
  assert (Hvid : (if bytes_eqb vt [49;46;48] then 1 else if bytes_eqb vt [49;46;49] then 2 else 0) = vid).
  { destruct Hver as [[-> ->]|[-> ->]]; reflexivity. }
  assert (Hvid0 : (vid =? 0) = false) by (destruct Hver as [[_ ->]|[_ ->]]; reflexivity).
  unfold Record.parse_record. cbv zeta.
  rewrite (version_line vt _ TEOF Hv).
  destruct (version_checks vt Hv) as [Hb Ht]. rewrite Hb, Ht, Hvid, Hvid0.
  rewrite Hs1, Hhdr. cbn [sdata stail]. rewrite Hlen.
  set (raw := raw_bytes blk) in *.
  assert (Hlenxy : (length raw + 4 = length x + length y)%nat).
  { apply (f_equal (@length byte)) in Hxy. rewrite !app_length in Hxy. exact Hxy. }
  assert (Hylen : (0 < length y)%nat) by (destruct y; [contradiction Hy; reflexivity|cbn; lia]).
  intros (r' & s' & Hclean).
  destruct (Nat.lt_ge_cases (length x) (length raw)) as [Hshort|Hlong].
  - (* the cut lies inside the block: the stream is exhausted before the marker *)
    assert (Hc1 : ((Z.of_nat (length raw) <? 0)%Z || (Z.of_nat (length x) <=? Z.of_nat (length raw))%Z) = true).
    { apply Bool.orb_true_iff. right. apply Z.leb_le. lia. }
    rewrite Hc1 in Hclean. rewrite skipn_all in Hclean.
    destruct (parse_block o rt hs x []) as [[[[hs2 b2] bd2] pd2] fnd5|e5 fnd5]; [|discriminate].
    destruct (validate_digest o rt hs2 b2 bd2 pd2 _ fnd5) as [hs3 fnd6|e6 fnd6]; [|discriminate].
    pose proof (trailer_incomplete o [] TEOF fnd6 ltac:(cbn; lia) Hgt) as Ht6.
    destruct (trailer o (mkst [] TEOF) fnd6) as [s4 fnd7|e7 fnd7].
    + inversion Hclean; subst. destruct Ht6 as [e Ht6]. symmetry in Ht6. apply app_eq_nil in Ht6 as [_ Ht6]. discriminate.
    + discriminate.
  - (* the block is complete: the cut lies inside the end-of-record marker *)
    assert (Hx : exists z, x = raw ++ z /\ (length z < 4)%nat).
    { exists (skipn (length raw) x). split.
      - rewrite <- (firstn_skipn (length raw) x) at 1. f_equal.
        assert (E : firstn (length raw) (x ++ y) = raw).
        { rewrite <- Hxy. rewrite firstn_app, firstn_all, Nat.sub_diag, firstn_O, app_nil_r. reflexivity. }
        rewrite firstn_app in E. replace (length raw - length x)%nat with 0%nat in E by lia.
        rewrite firstn_O, app_nil_r in E. exact E.
      - rewrite skipn_length. lia. }
    destruct Hx as (z & -> & Hz).
    assert (Hc1 : ((Z.of_nat (length raw) <? 0)%Z || (Z.of_nat (length (raw ++ z)) <=? Z.of_nat (length raw))%Z)
                  = (length z =? 0)%nat).
    { rewrite app_length. destruct z; cbn [length].
      - rewrite Nat.add_0_r. apply Bool.orb_true_iff. right. apply Z.leb_le. lia.
      - apply Bool.orb_false_iff. split; [apply Z.ltb_ge; lia|apply Z.leb_gt; lia]. }
    rewrite Hc1 in Hclean.
    assert (Hcontent : (if (length z =? 0)%nat then raw ++ z else firstn (Z.to_nat (Z.of_nat (length raw))) (raw ++ z)) = raw).
    { destruct z; cbn [length Nat.eqb]; [apply app_nil_r|].
      rewrite Nat2Z.id, firstn_app, firstn_all, Nat.sub_diag, firstn_O, app_nil_r. reflexivity. }
    match type of Hclean with context [Record.parse_block _ _ _ _ _ _ o rt hs ?c []] =>
      replace c with raw in Hclean by (symmetry; exact Hcontent) end.
    rewrite skipn_app, skipn_all, Nat.sub_diag in Hclean. cbn [skipn app] in Hclean.
    rewrite Hblk in Hclean. unfold cached_kind in Hdig. rewrite Hdig in Hclean.
    pose proof (trailer_incomplete o z TEOF [] Hz Hgt) as Ht6.
    destruct (trailer o (mkst z TEOF) []) as [s4 fnd7|e7 fnd7].
    + inversion Hclean; subst. destruct Ht6 as [e Ht6]. symmetry in Ht6. apply app_eq_nil in Ht6 as [_ Ht6]. discriminate.
    + discriminate.
Qed.

End RoundTrip.
