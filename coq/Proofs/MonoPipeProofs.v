(** MonoPipeProofs.v — C08, last sentence, for the whole parser off the syntax axis: with the
    syntax policy and every option flag held fixed, a stream rejected under one setting of the
    spec, unknown-type and block axes is rejected under every setting that is at least as strict
    on each of them.

    Method: erase the findings.  [val r] is the result without its findings; every stage is
    blind to the findings it is handed ([*_val] lemmas), so the pipeline is a composition of
    functions of the erased values, and each policy-dependent stage is monotone on them. *)
Require Import Model.Bytes Model.FieldDef Model.Fields Model.Policy Model.Validate Model.Stream Model.HeaderParse
               Model.Digest Model.Record.
Require Import Proofs.BytesProofs Proofs.FieldsProofs Proofs.NormalizeProofs Proofs.ValidateProofs Proofs.RecordProofs
               Proofs.PolicyProofs Proofs.SyncProofs Proofs.SyncPipeProofs Proofs.MonoProofs.
From Coq Require Import Lia.
Local Open Scope N_scope.

Definition val {A} (r : res A) : A + finding := match r with Ok a _ => inl a | Err e _ => inr e end.

Lemma site_val {A} p e f1 f2 (k1 k2 : list finding -> res A) :
  (forall g1 g2, val (k1 g1) = val (k2 g2)) -> val (site p e f1 k1) = val (site p e f2 k2).
Proof. intros Hk. destruct p; cbn [site val]; [apply Hk|apply Hk|reflexivity]. Qed.

(* rejected on the left: rejected on the right; accepted on both sides: the same value *)
Definition vmono {A} (a b : A + finding) : Prop :=
  match a, b with
  | inr _, inr _ => True
  | inr _, inl _ => False
  | inl x, inl y => x = y
  | inl _, inr _ => True
  end.
Lemma vmono_refl {A} (a : A + finding) : vmono a a.
Proof. destruct a; cbn; auto. Qed.
Lemma vmono_eq {A} (a b : A + finding) : a = b -> vmono a b.
Proof. intros ->. apply vmono_refl. Qed.

Section Blind.
Variable tbl : list fielddef.
Variable req : list bytes.
Variable uni_lower uni_upper : bytes -> bytes.
Variables time_ok ip_ok uri_ok wid_ok : bytes -> bool.
Variable mime_dec : bytes -> option bytes.
Variable H : alg -> bytes -> bytes.
Variables b32_decode b64_decode : bytes -> option bytes.
Variables http_req_ok http_resp_ok : bytes -> bool.
Notation parse_loop := (parse_loop tbl uni_lower mime_dec).
Notation parse_fields := (parse_fields tbl uni_lower mime_dec).
Notation parse_line := (parse_line tbl uni_lower mime_dec).
Notation after_body := (after_body tbl uni_lower mime_dec).
Notation finish_body := (finish_body tbl uni_lower mime_dec).
Notation validate_header := (validate_header tbl req uni_lower time_ok ip_ok uri_ok wid_ok).
Notation parse_block := (parse_block tbl uni_lower uni_upper mime_dec http_req_ok http_resp_ok).
Notation validate_digest := (validate_digest tbl uni_lower H b32_decode b64_decode).
Notation check_digest := (check_digest tbl uni_lower H b32_decode b64_decode).
Notation canonical := (canonical tbl uni_lower).

(** ** the header parser is blind to the findings it is handed *)
Lemma cont_loop_val p : forall fuel line nc s f1 f2,
  val (cont_loop fuel p line nc s f1) = val (cont_loop fuel p line nc s f2).
Proof.
  induction fuel as [|f IH]; intros line nc s f1 f2; cbn [HeaderParse.cont_loop].
  - destruct (_ || _); reflexivity.
  - destruct (_ || _); [|reflexivity].
    destruct (read_line p s) as [[[l nc'] e] s'].
    destruct e; [apply IH| | |]; (destruct l; [reflexivity|]); try reflexivity; apply site_val; intros; apply IH.
Qed.

Lemma finish_body_val p f eoh nc2 s2 fsx f1 f2 :
  (forall fs s g1 g2, val (parse_loop f p fs s g1) = val (parse_loop f p fs s g2)) ->
  val (finish_body p f eoh nc2 s2 fsx f1) = val (finish_body p f eoh nc2 s2 fsx f2).
Proof.
  intros IH. unfold SyncProofs.finish_body. destruct eoh; [reflexivity|].
  destruct (nc2 =? CR).
  - destruct (read_bytes LF s2) as [[l e2] s3]. destruct e2; [reflexivity|]. destruct (_ =? _)%nat; reflexivity.
  - destruct (nc2 =? LF); [|apply IH].
    destruct (read_bytes LF s2) as [[l e2] s3]. destruct e2; [reflexivity|]. destruct (_ <? _)%nat; reflexivity.
Qed.

Lemma after_body_val p f fs line nc s1 eoh f1 f2 :
  (forall fs s g1 g2, val (parse_loop f p fs s g1) = val (parse_loop f p fs s g2)) ->
  val (after_body p f fs line nc s1 eoh f1) = val (after_body p f fs line nc s1 eoh f2).
Proof.
  intros IH. unfold SyncProofs.after_body.
  pose proof (cont_loop_val p f line nc s1 f1 f2) as Hc.
  destruct (cont_loop f p line nc s1 f1) as [[[l1 n1] t1] g1|k1 g1];
    destruct (cont_loop f p line nc s1 f2) as [[[l2 n2] t2] g2|k2 g2]; cbn [val] in Hc; try discriminate.
  - inversion Hc; subst. destruct (parse_line l2 fs); [apply finish_body_val; exact IH|].
    apply site_val. intros; apply finish_body_val; exact IH.
  - inversion Hc; subst. reflexivity.
Qed.

Lemma parse_loop_val p : forall fuel fs s f1 f2,
  val (parse_loop fuel p fs s f1) = val (parse_loop fuel p fs s f2).
Proof.
  induction fuel as [|f IH]; intros fs s f1 f2; [reflexivity|]. rewrite !parse_loop_unfold.
  destruct (read_line p s) as [[[line nc] e] s1].
  destruct e.
  - apply after_body_val; exact IH.
  - destruct line; [reflexivity|apply site_val; intros; apply after_body_val; exact IH].
  - reflexivity.
  - apply site_val; intros; apply after_body_val; exact IH.
Qed.

Lemma parse_fields_val p s f1 f2 : val (parse_fields p s f1) = val (parse_fields p s f2).
Proof. apply parse_loop_val. Qed.

(** the header parser along the syntax axis *)
Lemma parse_loop_vmono_iw fuel fs s f1 f2 :
  vmono (val (parse_loop fuel Ignore fs s f1)) (val (parse_loop fuel Warn fs s f2)).
Proof.
  pose proof (parse_loop_irel tbl uni_lower mime_dec fuel fs s f1 f2) as Hr.
  destruct (parse_loop fuel Warn fs s f2) as [b g|e g].
  - destruct (Hr _ _ eq_refl) as [g' ->]. cbn. reflexivity.
  - destruct (parse_loop fuel Ignore fs s f1); cbn; exact I.
Qed.

Lemma parse_loop_vmono_wf fuel fs s f1 f2 :
  vmono (val (parse_loop fuel Warn fs s f1)) (val (parse_loop fuel Fail fs s f2)).
Proof.
  pose proof (parse_loop_val Fail fuel fs s f1 f2) as Hb.
  destruct (parse_loop_sync tbl uni_lower mime_dec fuel fs s f1) as [[_ E]|[_ [e E]]].
  - rewrite <- Hb, E. apply vmono_refl.
  - rewrite <- Hb, E. destruct (parse_loop fuel Warn fs s f1); cbn; exact I.
Qed.

Lemma vmono_trans {A} (a b c : A + finding) : vmono a b -> vmono b c -> (forall x, b = inr x -> exists y, c = inr y) -> vmono a c.
Proof.
  destruct a, b, c; cbn; intros H1 H2 H3; auto; try congruence; try contradiction.
Qed.

Theorem parse_fields_vmono p q s f1 f2 : stricter p q ->
  vmono (val (parse_fields p s f1)) (val (parse_fields q s f2)).
Proof.
  unfold HeaderParse.parse_fields. set (n := S (S (length (sdata s)))).
  destruct p, q; cbn [stricter]; intros Hpq; try contradiction.
  - apply vmono_eq. apply parse_loop_val.
  - apply parse_loop_vmono_iw.
  - (* ignore -> fail, through warn *)
    pose proof (parse_loop_vmono_iw n [] s f1 f1) as H1.
    pose proof (parse_loop_vmono_wf n [] s f1 f2) as H2.
    destruct (val (parse_loop n Ignore [] s f1)) as [a|ea] eqn:Ea;
      destruct (val (parse_loop n Warn [] s f1)) as [b|eb] eqn:Eb;
      destruct (val (parse_loop n Fail [] s f2)) as [c|ec] eqn:Ec; cbn [vmono] in *; try contradiction; auto; congruence.
  - apply vmono_eq. apply parse_loop_val.
  - apply parse_loop_vmono_wf.
  - apply vmono_eq. apply parse_loop_val.
Qed.

(** ** header validation *)
Lemma emit_val {A} p es : forall f1 f2 (k : list finding -> res A),
  (forall g1 g2, val (k g1) = val (k g2)) -> val (emit p es f1 k) = val (emit p es f2 k).
Proof.
  induction es as [|e t IH]; intros f1 f2 k Hk; cbn [emit]; [apply Hk|].
  apply site_val. intros g1 g2. apply IH. exact Hk.
Qed.

Lemma validate_header_val ps pu vid hs f1 f2 : canonical hs ->
  val (validate_header ps pu vid hs f1) = val (validate_header ps pu vid hs f2).
Proof.
  intros HC. rewrite !validate_header_unfold. unfold resolve_rt.
  assert (Hb : forall rt g1 g2,
    val (if policy_gt_ignore ps then body tbl req uni_lower time_ok ip_ok uri_ok wid_ok ps vid rt hs g1 else Ok (rt, hs) g1) =
    val (if policy_gt_ignore ps then body tbl req uni_lower time_ok ip_ok uri_ok wid_ok ps vid rt hs g2 else Ok (rt, hs) g2)).
  { intros rt g1 g2. destruct (policy_gt_ignore ps) eqn:Eg; [|reflexivity].
    rewrite !body_emit by assumption. apply emit_val. intros; reflexivity. }
  assert (Hk1 : forall g1 g2,
    val (if string_to_rt (lower uni_lower (type_field uni_lower hs)) =? 0
         then site pu (KUnknownType, type_field uni_lower hs) g1
                (fun f0 => if policy_gt_ignore ps then body tbl req uni_lower time_ok ip_ok uri_ok wid_ok ps vid (string_to_rt (lower uni_lower (type_field uni_lower hs))) hs f0 else Ok (string_to_rt (lower uni_lower (type_field uni_lower hs)), hs) f0)
         else (if policy_gt_ignore ps then body tbl req uni_lower time_ok ip_ok uri_ok wid_ok ps vid (string_to_rt (lower uni_lower (type_field uni_lower hs))) hs g1 else Ok (string_to_rt (lower uni_lower (type_field uni_lower hs)), hs) g1)) =
    val (if string_to_rt (lower uni_lower (type_field uni_lower hs)) =? 0
         then site pu (KUnknownType, type_field uni_lower hs) g2
                (fun f0 => if policy_gt_ignore ps then body tbl req uni_lower time_ok ip_ok uri_ok wid_ok ps vid (string_to_rt (lower uni_lower (type_field uni_lower hs))) hs f0 else Ok (string_to_rt (lower uni_lower (type_field uni_lower hs)), hs) f0)
         else (if policy_gt_ignore ps then body tbl req uni_lower time_ok ip_ok uri_ok wid_ok ps vid (string_to_rt (lower uni_lower (type_field uni_lower hs))) hs g2 else Ok (string_to_rt (lower uni_lower (type_field uni_lower hs)), hs) g2))).
  { intros g1 g2. destruct (_ =? 0); [apply site_val; intros; apply Hb|apply Hb]. }
  destruct (type_field uni_lower hs) as [|c tf] eqn:ET; [apply site_val; intros; apply Hk1|apply Hk1].
Qed.

Lemma validate_header_ok_inv ps pu vid hs f rt hs' g : canonical hs ->
  validate_header ps pu vid hs f = Ok (rt, hs') g -> rt = rt_of uni_lower hs /\ hs' = hs.
Proof.
  intros HC Hv. rewrite validate_header_unfold in Hv. unfold resolve_rt in Hv. fold (rt_of uni_lower hs) in Hv.
  assert (Hbody : forall fs0 rt1 h1 f1,
            (if policy_gt_ignore ps then body tbl req uni_lower time_ok ip_ok uri_ok wid_ok ps vid (rt_of uni_lower hs) hs fs0 else Ok (rt_of uni_lower hs, hs) fs0)
            = Ok (rt1, h1) f1 -> rt1 = rt_of uni_lower hs /\ h1 = hs).
  { intros fs0 rt1 h1 f1 Hb. destruct (policy_gt_ignore ps) eqn:Eg.
    - rewrite body_emit in Hb by assumption.
      assert (Hx : forall es fsx, emit ps es fsx (fun fs' => Ok (rt_of uni_lower hs, hs) fs') = Ok (rt1, h1) f1 -> rt1 = rt_of uni_lower hs /\ h1 = hs).
      { induction es as [|e t IH]; intros fsx Hx; cbn [emit] in Hx.
        - inversion Hx; split; reflexivity.
        - destruct ps; cbn [site] in Hx; try discriminate; eapply IH; exact Hx. }
      eapply Hx; exact Hb.
    - inversion Hb; split; reflexivity. }
  assert (Hk : forall fs0,
    (if rt_of uni_lower hs =? 0
     then site pu (KUnknownType, type_field uni_lower hs) fs0
            (fun f0 => if policy_gt_ignore ps then body tbl req uni_lower time_ok ip_ok uri_ok wid_ok ps vid (rt_of uni_lower hs) hs f0 else Ok (rt_of uni_lower hs, hs) f0)
     else (if policy_gt_ignore ps then body tbl req uni_lower time_ok ip_ok uri_ok wid_ok ps vid (rt_of uni_lower hs) hs fs0 else Ok (rt_of uni_lower hs, hs) fs0))
    = Ok (rt, hs') g -> rt = rt_of uni_lower hs /\ hs' = hs).
  { intros fs0 Hk. destruct (rt_of uni_lower hs =? 0); [|eapply Hbody; exact Hk].
    destruct pu; cbn [site] in Hk; try discriminate; eapply Hbody; exact Hk. }
  destruct (type_field uni_lower hs) as [|c tf]; [|eapply Hk; exact Hv].
  destruct ps; cbn [site] in Hv; try discriminate; eapply Hk; exact Hv.
Qed.

Theorem validate_header_vmono ps pu ps' pu' vid hs f1 f2 :
  canonical hs -> stricter ps ps' -> stricter pu pu' ->
  vmono (val (validate_header ps pu vid hs f1)) (val (validate_header ps' pu' vid hs f2)).
Proof.
  intros HC Hs Hu.
  pose proof (validate_header_rejection_is_monotone tbl req uni_lower time_ok ip_ok uri_ok wid_ok ps pu ps' pu' vid hs f1 f2 HC Hs Hu) as Hm.
  destruct (validate_header ps pu vid hs f1) as [[rt1 h1] g1|e1 g1] eqn:E1;
    destruct (validate_header ps' pu' vid hs f2) as [[rt2 h2] g2|e2 g2] eqn:E2; cbn [val vmono]; auto.
  - destruct (validate_header_ok_inv _ _ _ _ _ _ _ _ HC E1) as [-> ->].
    destruct (validate_header_ok_inv _ _ _ _ _ _ _ _ HC E2) as [-> ->]. reflexivity.
  - specialize (Hm eq_refl). discriminate.
Qed.

(** ** the same options at other levels of the spec, unknown-type and block axes *)
Definition relevel (o : opts) (ps pu pb : policy) : opts :=
  mkopts (o_syntax o) ps pu pb (o_skip_parse o) (o_add_id o) (o_add_cl o) (o_add_digest o)
         (o_fix_cl o) (o_fix_digest o) (o_fix_syntax o) (o_fix_wfblock o) (o_alg o) (o_enc o).

(** parseBlock: blind to the findings and to the spec and unknown-type axes, monotone along the
    block axis *)
Lemma parse_block_vmono o ps pu pb ps' pu' pb' rt hs content f1 f2 : stricter pb pb' ->
  vmono (val (parse_block (relevel o ps pu pb) rt hs content f1))
        (val (parse_block (relevel o ps' pu' pb') rt hs content f2)).
Proof.
  intros Hb. unfold Record.parse_block, Record.digest_from_field.
  cbn [relevel o_syntax o_spec o_unknown o_block o_skip_parse o_fix_syntax o_fix_wfblock o_alg o_enc].
  destruct (if m_has tbl uni_lower n_block_digest hs then _ else _) as [bd|]; [|apply vmono_refl].
  destruct (if m_has tbl uni_lower n_payload_digest hs then _ else _) as [pd|]; [|apply vmono_refl].
  cbv zeta.
  destruct (o_skip_parse o); [apply vmono_refl|].
  destruct (negb (N.land rt 206 =? 0) && _).
  - destruct (length content <? 4)%nat; [apply vmono_refl|].
    destruct (http_header content) as [hb found].
    assert (Hk1 : forall g1 g2, vmono
      (val (if if has_prefix s_HTTP hb
         then http_resp_ok (if negb found && negb (o_fix_syntax o) then hb ++ CRLF else if negb found && o_fix_syntax o then hb ++ CRLF else hb)
         else http_req_ok (if negb found && negb (o_fix_syntax o) then hb ++ CRLF else if negb found && o_fix_syntax o then hb ++ CRLF else hb)
      then Ok (if negb found && o_fix_syntax o then m_set tbl uni_lower n_content_length (itoa (wrap64 (cl_value tbl uni_lower hs + 2))) hs else hs,
               mkblk (if has_prefix s_HTTP hb then BHttpResp else BHttpReq)
                     (if negb found && o_fix_syntax o then hb ++ CRLF else hb) (skipn (length hb) content),
               feed bd ((if negb found && o_fix_syntax o then hb ++ CRLF else hb) ++ skipn (length hb) content),
               Some (feed pd (skipn (length hb) content))) g1
      else site pb (KBlock, []) g1 (fun fnd2 =>
             Ok (if negb found && o_fix_syntax o then m_set tbl uni_lower n_content_length (itoa (wrap64 (cl_value tbl uni_lower hs + 2))) hs else hs,
                 mkblk (if has_prefix s_HTTP hb then BHttpResp else BHttpReq)
                       (if negb found && o_fix_syntax o then hb ++ CRLF else hb) (skipn (length hb) content),
                 feed bd ((if negb found && o_fix_syntax o then hb ++ CRLF else hb) ++ skipn (length hb) content),
                 Some (feed pd (skipn (length hb) content))) fnd2)))
      (val (if if has_prefix s_HTTP hb
         then http_resp_ok (if negb found && negb (o_fix_syntax o) then hb ++ CRLF else if negb found && o_fix_syntax o then hb ++ CRLF else hb)
         else http_req_ok (if negb found && negb (o_fix_syntax o) then hb ++ CRLF else if negb found && o_fix_syntax o then hb ++ CRLF else hb)
      then Ok (if negb found && o_fix_syntax o then m_set tbl uni_lower n_content_length (itoa (wrap64 (cl_value tbl uni_lower hs + 2))) hs else hs,
               mkblk (if has_prefix s_HTTP hb then BHttpResp else BHttpReq)
                     (if negb found && o_fix_syntax o then hb ++ CRLF else hb) (skipn (length hb) content),
               feed bd ((if negb found && o_fix_syntax o then hb ++ CRLF else hb) ++ skipn (length hb) content),
               Some (feed pd (skipn (length hb) content))) g2
      else site pb' (KBlock, []) g2 (fun fnd2 =>
             Ok (if negb found && o_fix_syntax o then m_set tbl uni_lower n_content_length (itoa (wrap64 (cl_value tbl uni_lower hs + 2))) hs else hs,
                 mkblk (if has_prefix s_HTTP hb then BHttpResp else BHttpReq)
                       (if negb found && o_fix_syntax o then hb ++ CRLF else hb) (skipn (length hb) content),
                 feed bd ((if negb found && o_fix_syntax o then hb ++ CRLF else hb) ++ skipn (length hb) content),
                 Some (feed pd (skipn (length hb) content))) fnd2)))).
    { intros g1 g2. destruct (if has_prefix s_HTTP hb then _ else _); [cbn; reflexivity|].
      destruct pb, pb'; cbn [stricter site val vmono] in *; try contradiction; auto. }
    destruct found; [apply Hk1|].
    destruct (o_syntax o); cbn [site]; [apply Hk1|apply Hk1|cbn; exact I].
  - destruct (rt =? 32); [cbn; reflexivity|].
    destruct (has_prefix s_app_warcfields _); [|cbn; reflexivity].
    destruct (HeaderParse.parse_fields tbl uni_lower mime_dec (o_syntax o) (mkst content TEOF) []) as [[wf s'] bv|e bv]; cbn [findings_of].
    + destruct bv; [cbn; reflexivity|].
      destruct pb, pb'; cbn [stricter val vmono] in *; try contradiction; auto.
    + destruct bv; [cbn; exact I|].
      destruct pb, pb'; cbn [stricter val vmono] in *; try contradiction; auto.
Qed.

(** ** all four axes: the syntax axis joins when the warc-fields block repair is off *)
Definition relevel4 (o : opts) (py ps pu pb : policy) : opts :=
  mkopts py ps pu pb (o_skip_parse o) (o_add_id o) (o_add_cl o) (o_add_digest o)
         (o_fix_cl o) (o_fix_digest o) (o_fix_syntax o) (o_fix_wfblock o) (o_alg o) (o_enc o).

(* the warc-fields branch of parseBlock as a function of the inner parse and the block policy *)
Definition wf_branch (fixb : bool) (hs : fields) (content : bytes) (bd : digest)
           (inner : res (fields * stream)) (pb : policy) (fnd : list finding)
  : res (fields * rblock * digest * option digest) :=
  let bv := findings_of inner in
  let k2 fnd1 :=
    match inner with
    | Err e _ => Err e fnd1
    | Ok (wf, _) _ =>
        let content' := match bv with [] => content | _ => if fixb then m_write wf else content end in
        Ok (hs, mkblk BWarcFields [] content', feed bd content', None) fnd1
    end in
  match bv with
  | [] => k2 fnd
  | _ => match pb with
         | Ignore => k2 fnd
         | Warn => k2 (fnd ++ map (fun _ => (KBlock, [])) bv)
         | Fail => Err (KBlock, []) fnd
         end
  end.

Lemma wf_branch_vmono fixb hs content bd py py' pb pb' st f1 f2 :
  stricter py py' -> stricter pb pb' -> (py = py' \/ fixb = false) ->
  vmono (val (wf_branch fixb hs content bd (parse_fields py st []) pb f1))
        (val (wf_branch fixb hs content bd (parse_fields py' st []) pb' f2)).
Proof.
  intros Hy Hb Hor.
  pose proof (parse_fields_vmono py py' st [] [] Hy) as Hin.
  assert (Hq1 : py <> Warn -> findings_of (parse_fields py st []) = []) by (intros; apply parse_fields_quiet; assumption).
  assert (Hq2 : py' <> Warn -> findings_of (parse_fields py' st []) = []) by (intros; apply parse_fields_quiet; assumption).
  assert (Hwf : py = Warn -> py' = Fail -> is_ok (parse_fields py' st []) = true -> findings_of (parse_fields py st []) = []).
  { intros -> -> Hok. unfold HeaderParse.parse_fields in *.
    destruct (parse_loop_sync tbl uni_lower mime_dec (S (S (length (sdata st)))) [] st []) as [[E _]|[_ [e E]]]; [exact E|].
    rewrite E in Hok. discriminate. }
  unfold wf_branch. cbv zeta.
  destruct (parse_fields py' st []) as [[wfq sq] bvq|eq bvq] eqn:Eq; cbn [findings_of val] in *.
  2: { (* the stricter run's inner parse fails: it rejects *)
       assert (Hr : forall g pbx, exists e, val (match bvq with
                     | [] => Err eq g
                     | _ :: _ => match pbx with Ignore => Err eq g | Warn => Err eq (g ++ map (fun _ => (KBlock, [])) bvq) | Fail => Err (KBlock, []) g end
                     end : res (fields * rblock * digest * option digest)) = inr e).
       { intros g pbx. destruct bvq; [eexists; reflexivity|]. destruct pbx; eexists; reflexivity. }
       destruct (Hr f2 pb') as [e ->].
       match goal with |- vmono ?a _ => destruct a; cbn; exact I end. }
  destruct (parse_fields py st []) as [[wfp sp] bvp|ep bvp] eqn:Ep; cbn [findings_of val vmono] in *; [|contradiction].
  inversion Hin; subst wfp sp.
  destruct Hor as [Hsame|Hfix].
  - (* the same syntax level: the same inner parse *)
    subst py'. rewrite Ep in Eq. inversion Eq; subst bvq.
    destruct bvp; [cbn; reflexivity|].
    destruct pb, pb'; cbn [stricter val vmono] in *; try contradiction; auto.
  - subst fixb.
    assert (Hc : forall (bv : list finding) (wfx : fields), match bv with [] => content | _ => content end = content) by (intros [] ?; reflexivity).
    destruct bvp as [|b1 bvp'].
    + (* the lenient run found nothing in the block *)
      destruct bvq as [|b2 bvq']; [cbn; reflexivity|].
      destruct pb'; cbn [val vmono]; auto.
    + (* it found something: it runs at warn, and so does the stricter run (a successful run at fail finds nothing at warn) *)
      assert (Epy : py = Warn). { destruct py; try reflexivity; exfalso; specialize (Hq1 ltac:(discriminate)); discriminate. }
      assert (Epy' : py' = Warn).
      { destruct py'; subst py; cbn [stricter] in Hy; try contradiction; [reflexivity|].
        exfalso. specialize (Hwf eq_refl eq_refl eq_refl). discriminate. }
      subst py py'. rewrite Ep in Eq. inversion Eq; subst bvq.
      destruct pb, pb'; cbn [stricter val vmono] in *; try contradiction; auto.
Qed.

Lemma parse_block_vmono4 o py ps pu pb py' ps' pu' pb' rt hs content f1 f2 :
  stricter py py' -> stricter pb pb' -> (py = py' \/ o_fix_wfblock o = false) ->
  vmono (val (parse_block (relevel4 o py ps pu pb) rt hs content f1))
        (val (parse_block (relevel4 o py' ps' pu' pb') rt hs content f2)).
Proof.
  intros Hy Hb Hor. unfold Record.parse_block, Record.digest_from_field.
  cbn [relevel4 o_syntax o_spec o_unknown o_block o_skip_parse o_fix_syntax o_fix_wfblock o_alg o_enc].
  destruct (if m_has tbl uni_lower n_block_digest hs then _ else _) as [bd|]; [|apply vmono_refl].
  destruct (if m_has tbl uni_lower n_payload_digest hs then _ else _) as [pd|]; [|apply vmono_refl].
  cbv zeta.
  destruct (o_skip_parse o); [apply vmono_refl|].
  destruct (negb (N.land rt 206 =? 0) && _).
  - destruct (length content <? 4)%nat; [apply vmono_refl|].
    destruct (http_header content) as [hb found].
    assert (Hk1 : forall g1 g2, vmono
      (val (if if has_prefix s_HTTP hb
         then http_resp_ok (if negb found && negb (o_fix_syntax o) then hb ++ CRLF else if negb found && o_fix_syntax o then hb ++ CRLF else hb)
         else http_req_ok (if negb found && negb (o_fix_syntax o) then hb ++ CRLF else if negb found && o_fix_syntax o then hb ++ CRLF else hb)
      then Ok (if negb found && o_fix_syntax o then m_set tbl uni_lower n_content_length (itoa (wrap64 (cl_value tbl uni_lower hs + 2))) hs else hs,
               mkblk (if has_prefix s_HTTP hb then BHttpResp else BHttpReq)
                     (if negb found && o_fix_syntax o then hb ++ CRLF else hb) (skipn (length hb) content),
               feed bd ((if negb found && o_fix_syntax o then hb ++ CRLF else hb) ++ skipn (length hb) content),
               Some (feed pd (skipn (length hb) content))) g1
      else site pb (KBlock, []) g1 (fun fnd2 =>
             Ok (if negb found && o_fix_syntax o then m_set tbl uni_lower n_content_length (itoa (wrap64 (cl_value tbl uni_lower hs + 2))) hs else hs,
                 mkblk (if has_prefix s_HTTP hb then BHttpResp else BHttpReq)
                       (if negb found && o_fix_syntax o then hb ++ CRLF else hb) (skipn (length hb) content),
                 feed bd ((if negb found && o_fix_syntax o then hb ++ CRLF else hb) ++ skipn (length hb) content),
                 Some (feed pd (skipn (length hb) content))) fnd2)))
      (val (if if has_prefix s_HTTP hb
         then http_resp_ok (if negb found && negb (o_fix_syntax o) then hb ++ CRLF else if negb found && o_fix_syntax o then hb ++ CRLF else hb)
         else http_req_ok (if negb found && negb (o_fix_syntax o) then hb ++ CRLF else if negb found && o_fix_syntax o then hb ++ CRLF else hb)
      then Ok (if negb found && o_fix_syntax o then m_set tbl uni_lower n_content_length (itoa (wrap64 (cl_value tbl uni_lower hs + 2))) hs else hs,
               mkblk (if has_prefix s_HTTP hb then BHttpResp else BHttpReq)
                     (if negb found && o_fix_syntax o then hb ++ CRLF else hb) (skipn (length hb) content),
               feed bd ((if negb found && o_fix_syntax o then hb ++ CRLF else hb) ++ skipn (length hb) content),
               Some (feed pd (skipn (length hb) content))) g2
      else site pb' (KBlock, []) g2 (fun fnd2 =>
             Ok (if negb found && o_fix_syntax o then m_set tbl uni_lower n_content_length (itoa (wrap64 (cl_value tbl uni_lower hs + 2))) hs else hs,
                 mkblk (if has_prefix s_HTTP hb then BHttpResp else BHttpReq)
                       (if negb found && o_fix_syntax o then hb ++ CRLF else hb) (skipn (length hb) content),
                 feed bd ((if negb found && o_fix_syntax o then hb ++ CRLF else hb) ++ skipn (length hb) content),
                 Some (feed pd (skipn (length hb) content))) fnd2)))).
    { intros g1 g2. destruct (if has_prefix s_HTTP hb then _ else _); [cbn; reflexivity|].
      destruct pb, pb'; cbn [stricter site val vmono] in *; try contradiction; auto. }
    destruct found; [apply Hk1|].
    destruct py, py'; cbn [stricter site] in *; try contradiction; try apply Hk1.
    all: match goal with |- vmono ?a (val (Err _ _)) => destruct a; cbn; exact I end.
  - destruct (rt =? 32); [cbn; reflexivity|].
    destruct (has_prefix s_app_warcfields _); [|cbn; reflexivity].
    change (vmono (val (wf_branch (o_fix_wfblock o) hs content bd (parse_fields py (mkst content TEOF) []) pb f1))
                  (val (wf_branch (o_fix_wfblock o) hs content bd (parse_fields py' (mkst content TEOF) []) pb' f2))).
    apply wf_branch_vmono; assumption.
Qed.

(** ** length and digest verification, end-of-record marker: only the spec axis matters, and
    only fail rejects *)
Lemma check_digest_val o field d cached hs f1 f2 k :
  (forall hs' d' g1 g2, val (k hs' d' g1) = val (k hs' d' g2)) ->
  val (check_digest o field d cached hs f1 k) = val (check_digest o field d cached hs f2 k).
Proof.
  intros Hk. unfold Record.check_digest.
  destruct (d_hash d).
  - destruct (_ && _); apply Hk.
  - destruct (_ && _); [|apply Hk]. destruct (o_spec o); try reflexivity; try apply Hk.
    destruct (o_fix_digest o); apply Hk.
Qed.

Lemma check_digest_ok_unless_fail o field d cached hs f k : o_spec o <> Fail ->
  (forall hs' d' g, is_ok (k hs' d' g) = true) ->
  is_ok (check_digest o field d cached hs f k) = true.
Proof.
  intros Hs Hk. unfold Record.check_digest.
  destruct (d_hash d).
  - destruct (_ && _); apply Hk.
  - destruct (_ && _); [|apply Hk]. destruct (o_spec o); try congruence; try apply Hk.
    destruct (o_fix_digest o); apply Hk.
Qed.

Definition vd_k1 (o : opts) (rt : N) (b : rblock) (bd : digest) (pd : option digest) (cached : bool) (hs1 : fields) (fnd1 : list finding) : res fields :=
  check_digest o n_block_digest bd cached hs1 fnd1 (fun hs2 bd2 fnd2 =>
    if (rt =? 32) || m_has tbl uni_lower n_segment_number hs2 then Ok hs2 fnd2
    else match match bk b with
               | BGeneric => if rt =? 4 then pd else None
               | BHttpReq | BHttpResp => pd
               | _ => None
               end with
         | None => Ok hs2 fnd2
         | Some p => check_digest o n_payload_digest p cached hs2 fnd2 (fun hs3 _ fnd3 => Ok hs3 fnd3)
         end).

Lemma validate_digest_k1 o rt hs b bd pd cached fnd :
  validate_digest o rt hs b bd pd cached fnd =
  if policy_gt_ignore (o_spec o) && m_has tbl uni_lower n_content_length hs
     && negb (bytes_eqb (itoa (Z.of_nat (length (raw_bytes b)))) (m_get tbl uni_lower n_content_length hs)) then
    match o_spec o with
    | Warn => vd_k1 o rt b bd pd cached (if o_fix_cl o then m_set tbl uni_lower n_content_length (itoa (Z.of_nat (length (raw_bytes b)))) hs else hs) (fnd ++ [(KLength, [])])
    | Fail => Err (KLength, []) fnd
    | Ignore => vd_k1 o rt b bd pd cached hs fnd
    end
  else vd_k1 o rt b bd pd cached hs fnd.
Proof. reflexivity. Qed.

Lemma vd_k1_val o rt b bd pd cached hs1 hs1' f1 f2 : hs1 = hs1' ->
  val (vd_k1 o rt b bd pd cached hs1 f1) = val (vd_k1 o rt b bd pd cached hs1' f2).
Proof.
  intros <-. unfold vd_k1. apply check_digest_val. intros hs2 bd2 g1 g2.
  destruct (_ || _); [reflexivity|].
  destruct (match bk b with BGeneric => _ | _ => _ end); [|reflexivity].
  apply check_digest_val. intros; reflexivity.
Qed.

Lemma validate_digest_val o rt hs b bd pd cached f1 f2 :
  val (validate_digest o rt hs b bd pd cached f1) = val (validate_digest o rt hs b bd pd cached f2).
Proof.
  rewrite !validate_digest_k1. destruct (_ && _ && _); [|apply vd_k1_val; reflexivity].
  destruct (o_spec o); [apply vd_k1_val; reflexivity|apply vd_k1_val; reflexivity|reflexivity].
Qed.

Lemma validate_digest_ok_unless_fail o rt hs b bd pd cached f : o_spec o <> Fail ->
  is_ok (validate_digest o rt hs b bd pd cached f) = true.
Proof.
  intros Hs. rewrite validate_digest_k1.
  assert (Hk : forall hs1 g, is_ok (vd_k1 o rt b bd pd cached hs1 g) = true).
  { intros hs1 g. unfold vd_k1. apply check_digest_ok_unless_fail; [exact Hs|]. intros hs2 d2 g2.
    destruct (_ || _); [reflexivity|].
    destruct (match bk b with BGeneric => _ | _ => _ end); [|reflexivity].
    apply check_digest_ok_unless_fail; [exact Hs|]. intros; reflexivity. }
  destruct (_ && _ && _); [|apply Hk]. destruct (o_spec o); try congruence; apply Hk.
Qed.

Lemma validate_digest_relevel o ps pu pb pu' pb' rt hs b bd pd cached f :
  validate_digest (relevel o ps pu pb) rt hs b bd pd cached f = validate_digest (relevel o ps pu' pb') rt hs b bd pd cached f.
Proof. reflexivity. Qed.

(* rejected at one level of the spec axis: rejected at every stricter one *)
Lemma validate_digest_err_mono o ps pu pb ps' pu' pb' rt hs b bd pd cached f1 f2 : stricter ps ps' ->
  is_ok (validate_digest (relevel o ps pu pb) rt hs b bd pd cached f1) = false ->
  is_ok (validate_digest (relevel o ps' pu' pb') rt hs b bd pd cached f2) = false.
Proof.
  intros Hs He.
  destruct ps.
  - rewrite validate_digest_ok_unless_fail in He by (cbn; discriminate). discriminate.
  - rewrite validate_digest_ok_unless_fail in He by (cbn; discriminate). discriminate.
  - destruct ps'; cbn [stricter] in Hs; try contradiction.
    rewrite (validate_digest_relevel o Fail pu' pb' pu pb).
    pose proof (validate_digest_val (relevel o Fail pu pb) rt hs b bd pd cached f1 f2) as Hv.
    destruct (validate_digest (relevel o Fail pu pb) rt hs b bd pd cached f1); [discriminate|].
    destruct (validate_digest (relevel o Fail pu pb) rt hs b bd pd cached f2); [discriminate|reflexivity].
Qed.

Lemma trailer_err_mono o ps pu pb ps' pu' pb' s f1 f2 : stricter ps ps' ->
  is_ok (trailer (relevel o ps pu pb) s f1) = false -> is_ok (trailer (relevel o ps' pu' pb') s f2) = false.
Proof.
  unfold trailer. cbn [relevel o_spec]. destruct (peek 4 s) as [buf e].
  destruct (bytes_eqb buf CRLFCRLF); [intros _ H0; discriminate|].
  destruct ps, ps'; cbn [stricter site is_ok]; intros Hs He; try contradiction; try discriminate; reflexivity.
Qed.

Lemma validate_digest_relevel4 o py py' ps pu pb pu' pb' rt hs b bd pd cached f :
  validate_digest (relevel4 o py ps pu pb) rt hs b bd pd cached f = validate_digest (relevel4 o py' ps pu' pb') rt hs b bd pd cached f.
Proof. reflexivity. Qed.

(* rejected at one level of the spec axis: rejected at every stricter one *)
Lemma validate_digest_err_mono4 o py ps pu pb py' ps' pu' pb' rt hs b bd pd cached f1 f2 : stricter ps ps' ->
  is_ok (validate_digest (relevel4 o py ps pu pb) rt hs b bd pd cached f1) = false ->
  is_ok (validate_digest (relevel4 o py' ps' pu' pb') rt hs b bd pd cached f2) = false.
Proof.
  intros Hs He.
  destruct ps.
  - rewrite validate_digest_ok_unless_fail in He by (cbn; discriminate). discriminate.
  - rewrite validate_digest_ok_unless_fail in He by (cbn; discriminate). discriminate.
  - destruct ps'; cbn [stricter] in Hs; try contradiction.
    rewrite (validate_digest_relevel4 o py' py Fail pu' pb' pu pb).
    pose proof (validate_digest_val (relevel4 o py Fail pu pb) rt hs b bd pd cached f1 f2) as Hv.
    destruct (validate_digest (relevel4 o py Fail pu pb) rt hs b bd pd cached f1); [discriminate|].
    destruct (validate_digest (relevel4 o py Fail pu pb) rt hs b bd pd cached f2); [discriminate|reflexivity].
Qed.

Lemma trailer_err_mono4 o py ps pu pb py' ps' pu' pb' s f1 f2 : stricter ps ps' ->
  is_ok (trailer (relevel4 o py ps pu pb) s f1) = false -> is_ok (trailer (relevel4 o py' ps' pu' pb') s f2) = false.
Proof.
  unfold trailer. cbn [relevel4 o_spec]. destruct (peek 4 s) as [buf e].
  destruct (bytes_eqb buf CRLFCRLF); [intros _ H0; discriminate|].
  destruct ps, ps'; cbn [stricter site is_ok]; intros Hs He; try contradiction; try discriminate; reflexivity.
Qed.

Ltac split_magic4 :=
  repeat match goal with
         | |- context [match ?x with _ => _ end] =>
             match type of x with
             | bytes => destruct x
             | list N => destruct x
             | list byte => destruct x
             | N => destruct x
             | byte => destruct x
             | positive => destruct x
             end
         end.

Lemma find_start_ignore_warn : forall fuel s off, find_start fuel Ignore s off = find_start fuel Warn s off.
Proof.
  induction fuel as [|f IH]; intros s off; cbn [find_start]; destruct (peek 5 s) as [magic e]; destruct e; try reflexivity;
    destruct (bytes_eqb magic s_WARC); try reflexivity; split_magic4; try reflexivity; apply IH.
Qed.

Lemma find_start_cases p q fuel s off : stricter p q ->
  let '(fp, offp, sp) := find_start (S fuel) p s off in
  let '(fq, offq, sq) := find_start (S fuel) q s off in
  (fp = fq /\ offp = offq /\ sp = sq) \/ fq = FoundJunkFail.
Proof.
  intros Hpq.
  assert (Hlf : forall p0, p0 <> Fail ->
    let '(fp, offp, sp) := find_start (S fuel) p0 s off in
    let '(fq, offq, sq) := find_start (S fuel) Fail s off in
    (fp = fq /\ offp = offq /\ sp = sq) \/ fq = FoundJunkFail).
  { intros p0 Hp0. cbn [find_start]. destruct (peek 5 s) as [magic e]. destruct e; [left; repeat split; reflexivity|].
    destruct (bytes_eqb magic s_WARC); [left; repeat split; reflexivity|].
    destruct p0; try congruence;
      match goal with |- context [find_start fuel ?pp ?ss ?oo] => destruct (find_start fuel pp ss oo) as [[? ?] ?] end;
      split_magic4; first [left; repeat split; reflexivity | right; reflexivity]. }
  destruct p, q; cbn [stricter] in Hpq; try contradiction.
  - destruct (find_start (S fuel) Ignore s off) as [[? ?] ?]. left; repeat split; reflexivity.
  - rewrite (find_start_ignore_warn (S fuel) s off). destruct (find_start (S fuel) Warn s off) as [[? ?] ?]. left; repeat split; reflexivity.
  - apply Hlf. discriminate.
  - destruct (find_start (S fuel) Warn s off) as [[? ?] ?]. left; repeat split; reflexivity.
  - apply Hlf. discriminate.
  - destruct (find_start (S fuel) Fail s off) as [[? ?] ?]. left; repeat split; reflexivity.
Qed.

(** ** the pipeline *)
Hypothesis Htbl : table_ok tbl = true.
Notation stage_block := (stage_block tbl uni_lower uni_upper mime_dec H b32_decode b64_decode http_req_ok http_resp_ok).
Notation stage_fields := (stage_fields tbl req uni_lower uni_upper time_ok ip_ok uri_ok wid_ok mime_dec H b32_decode b64_decode http_req_ok http_resp_ok).
Notation stage_ver := (stage_ver tbl req uni_lower uni_upper time_ok ip_ok uri_ok wid_ok mime_dec H b32_decode b64_decode http_req_ok http_resp_ok).
Notation parse_record := (parse_record tbl req uni_lower uni_upper time_ok ip_ok uri_ok wid_ok mime_dec H b32_decode b64_decode http_req_ok http_resp_ok).

Lemma spec_site_mono p q (Fp Fq : list finding -> uresult) f1 f2 e :
  stricter p q -> (forall g1 g2, uerr (Fp g1) = true -> uerr (Fq g2) = true) ->
  uerr (match p with Warn => Fp (f1 ++ [e]) | Fail => UNone e f1 | Ignore => Fp f1 end) = true ->
  uerr (match q with Warn => Fq (f2 ++ [e]) | Fail => UNone e f2 | Ignore => Fq f2 end) = true.
Proof. intros Hpq HF. destruct p, q; cbn [stricter] in Hpq; try contradiction; first [apply HF | intros _; reflexivity]. Qed.

Section Levels.
Variable o : opts.
Variables ps pu pb ps' pu' pb' : policy.
Hypothesis Hs : stricter ps ps'.
Hypothesis Hu : stricter pu pu'.
Hypothesis Hb : stricter pb pb'.
Let op := relevel o ps pu pb.
Let oq := relevel o ps' pu' pb'.

Definition block_tail_stage (oo : opts) (vt : bytes) (vid rt : N) (hs1 : fields) (content : bytes) (s3 : stream) (f : list finding) : uresult :=
  match parse_block oo rt hs1 content f with
  | Err e5 fnd5 => URec (mkrec vt vid rt hs1 (mkblk BGeneric [] content)) (Some e5) fnd5 s3
  | Ok (hs2, blk, bd, pd) fnd5 =>
      match validate_digest oo rt hs2 blk bd pd (match bk blk with BWarcFields | BRevisit => true | _ => false end) fnd5 with
      | Err e6 fnd6 => URec (mkrec vt vid rt hs2 blk) (Some e6) fnd6 s3
      | Ok hs3 fnd6 =>
          match trailer oo s3 fnd6 with
          | Err e7 fnd7 => URec (mkrec vt vid rt hs3 blk) (Some e7) fnd7 s3
          | Ok s4 fnd7 => URec (mkrec vt vid rt hs3 blk) None fnd7 s4
          end
      end
  end.

Lemma block_tail_stage_mono vt vid rt hs1 content s3 f1 f2 :
  uerr (block_tail_stage op vt vid rt hs1 content s3 f1) = true ->
  uerr (block_tail_stage oq vt vid rt hs1 content s3 f2) = true.
Proof.
  unfold block_tail_stage.
  pose proof (parse_block_vmono o ps pu pb ps' pu' pb' rt hs1 content f1 f2 Hb) as Hpb.
  fold op oq in Hpb.
  destruct (parse_block op rt hs1 content f1) as [[[[hs2 blk] bd] pd] g1|e1 g1];
    destruct (parse_block oq rt hs1 content f2) as [[[[hs2' blk'] bd'] pd'] g2|e2 g2]; cbn [val vmono] in Hpb;
    try contradiction; try (intros _; reflexivity).
  inversion Hpb; subst hs2' blk' bd' pd'.
  pose proof (validate_digest_err_mono o ps pu pb ps' pu' pb' rt hs2 blk bd pd
                (match bk blk with BWarcFields | BRevisit => true | _ => false end) g1 g2 Hs) as Hvd.
  fold op oq in Hvd.
  destruct (validate_digest op rt hs2 blk bd pd _ g1) as [hs3 h1|e6 h1];
    destruct (validate_digest oq rt hs2 blk bd pd _ g2) as [hs3' h2|e6' h2];
    try (intros _; reflexivity); [|specialize (Hvd eq_refl); discriminate].
  pose proof (trailer_err_mono o ps pu pb ps' pu' pb' s3 h1 h2 Hs) as Htr. fold op oq in Htr.
  destruct (trailer op s3 h1) as [s4 k1|e7 k1]; destruct (trailer oq s3 h2) as [s4' k2|e7' k2];
    try (intros _; reflexivity); [intros He; discriminate|specialize (Htr eq_refl); discriminate].
Qed.

Lemma stage_block_mono vt vid rt hs1 s2 f1 f2 :
  uerr (stage_block op vt vid rt hs1 s2 f1) = true -> uerr (stage_block oq vt vid rt hs1 s2 f2) = true.
Proof.
  unfold PolicyProofs.stage_block. cbv zeta.
  destruct (stail s2);
    destruct ((cl_value tbl uni_lower hs1 <? 0)%Z || (Z.of_nat (length (sdata s2)) <? cl_value tbl uni_lower hs1)%Z);
    try (intros _; reflexivity); apply block_tail_stage_mono.
Qed.

Lemma stage_fields_mono vt vid s1 f1 f2 :
  uerr (stage_fields op vt vid s1 f1) = true -> uerr (stage_fields oq vt vid s1 f2) = true.
Proof.
  unfold PolicyProofs.stage_fields. unfold op at 1 2 3, oq at 1 2 3. cbn [relevel o_syntax o_spec o_unknown].
  pose proof (parse_fields_val (o_syntax o) s1 f1 f2) as Hpf.
  destruct (HeaderParse.parse_fields tbl uni_lower mime_dec (o_syntax o) s1 f1) as [[hs s2] g1|e1 g1] eqn:E1;
    destruct (HeaderParse.parse_fields tbl uni_lower mime_dec (o_syntax o) s1 f2) as [[hs' s2'] g2|e2 g2] eqn:E2;
    cbn [val] in Hpf; try discriminate; [|intros _; reflexivity].
  inversion Hpf; subst hs' s2'.
  assert (HC : canonical hs) by (eapply (parse_fields_canonical tbl uni_lower mime_dec Htbl); exact E1).
  pose proof (validate_header_vmono ps pu ps' pu' vid hs g1 g2 HC Hs Hu) as Hvh.
  destruct (validate_header ps pu vid hs g1) as [[rt h1] k1|e3 k1];
    destruct (validate_header ps' pu' vid hs g2) as [[rt' h1'] k2|e3' k2]; cbn [val vmono] in Hvh;
    try contradiction; try (intros _; reflexivity).
  inversion Hvh; subst rt' h1'. apply stage_block_mono.
Qed.

Lemma stage_ver_mono l s1 f1 f2 :
  uerr (stage_ver op l s1 f1) = true -> uerr (stage_ver oq l s1 f2) = true.
Proof.
  unfold PolicyProofs.stage_ver. cbv zeta.
  destruct (_ =? 0); [|apply stage_fields_mono].
  assert (Hop : o_spec op = ps) by reflexivity. assert (Hoq : o_spec oq = ps') by reflexivity.
  rewrite Hop, Hoq.
  apply spec_site_mono; [exact Hs|]. intros g1 g2. apply stage_fields_mono.
Qed.

Theorem parse_record_rejection_is_monotone s f1 f2 :
  uerr (parse_record op s f1) = true -> uerr (parse_record oq s f2) = true.
Proof.
  rewrite !parse_record_stages.
  destruct (read_bytes LF (discard 5 s)) as [[l e] s1].
  destruct e as [[|]|]; [intros _; reflexivity|intros _; reflexivity|].
  destruct (_ || _); [|apply stage_ver_mono].
  assert (Hop : o_syntax op = o_syntax o) by reflexivity. assert (Hoq : o_syntax oq = o_syntax o) by reflexivity.
  rewrite Hop, Hoq.
  destruct (o_syntax o); [apply stage_ver_mono|apply stage_ver_mono|intros _; reflexivity].
Qed.

Notation unmarshal_plain := (unmarshal_plain tbl req uni_lower uni_upper time_ok ip_ok uri_ok wid_ok mime_dec H b32_decode b64_decode http_req_ok http_resp_ok).

(** Unmarshal on a plain stream: the search for the record start only looks at the syntax axis *)
Theorem unmarshal_rejection_is_monotone s :
  uerr (snd (unmarshal_plain op s)) = true -> uerr (snd (unmarshal_plain oq s)) = true.
Proof.
  unfold Record.unmarshal_plain.
  assert (Hop : o_syntax op = o_syntax o) by reflexivity. assert (Hoq : o_syntax oq = o_syntax o) by reflexivity.
  rewrite Hop, Hoq.
  destruct (find_start (S (length (sdata s))) (o_syntax o) s 0) as [[f off] s1].
  destruct f as [| |[|]|]; cbn [snd]; try (intros _; reflexivity).
  apply parse_record_rejection_is_monotone.
Qed.

Notation build := (build tbl req uni_lower uni_upper time_ok ip_ok uri_ok wid_ok mime_dec H b32_decode b64_decode http_req_ok http_resp_ok).

(** the builder *)
Theorem build_rejection_is_monotone vid rt0 hs content new_id : canonical hs ->
  is_ok (fst (build op vid rt0 hs content new_id)) = false ->
  is_ok (fst (build oq vid rt0 hs content new_id)) = false.
Proof.
  intros HC. unfold Record.build. cbv zeta.
  assert (E1 : o_add_id op = o_add_id o) by reflexivity. assert (E2 : o_add_id oq = o_add_id o) by reflexivity.
  assert (E3 : o_add_cl op = o_add_cl o) by reflexivity. assert (E4 : o_add_cl oq = o_add_cl o) by reflexivity.
  assert (E5 : o_spec op = ps) by reflexivity. assert (E6 : o_spec oq = ps') by reflexivity.
  assert (E7 : o_unknown op = pu) by reflexivity. assert (E8 : o_unknown oq = pu') by reflexivity.
  rewrite E1, E2, E3, E4, E5, E6, E7, E8.
  set (hs1 := if o_add_id o && negb (m_has tbl uni_lower n_record_id hs)
              then match id_value new_id with Some v => m_set tbl uni_lower n_record_id v hs | None => hs end else hs).
  set (hs2 := if o_add_cl o && negb (m_has tbl uni_lower n_content_length hs1)
              then m_set tbl uni_lower n_content_length (itoa (Z.of_nat (length content))) hs1 else hs1).
  assert (HC2 : canonical hs2).
  { unfold hs2, hs1. destruct (o_add_cl o && _); [apply (canonical_set_gen tbl uni_lower uni_upper time_ok ip_ok uri_ok wid_ok mime_dec b32_decode b64_decode http_req_ok http_resp_ok Htbl)|];
      (destruct (o_add_id o && _); [destruct (id_value new_id); [apply (canonical_set_gen tbl uni_lower uni_upper time_ok ip_ok uri_ok wid_ok mime_dec b32_decode b64_decode http_req_ok http_resp_ok Htbl)|]|]; exact HC). }
  pose proof (validate_header_vmono ps pu ps' pu' vid hs2 [] [] HC2 Hs Hu) as Hvh.
  destruct (validate_header ps pu vid hs2 []) as [[rt h1] k1|e3 k1];
    destruct (validate_header ps' pu' vid hs2 []) as [[rt' h1'] k2|e3' k2]; cbn [val vmono] in Hvh;
    try contradiction; try (intros _; reflexivity).
  inversion Hvh; subst rt' h1'.
  set (rtb := if rt0 =? 0 then rt else rt0).
  pose proof (parse_block_vmono o ps pu pb ps' pu' pb' rtb h1 content k1 k2 Hb) as Hpb. fold op oq in Hpb.
  destruct (parse_block op rtb h1 content k1) as [[[[hs4 blk] bd] pd] g1|e1 g1];
    destruct (parse_block oq rtb h1 content k2) as [[[[hs4' blk'] bd'] pd'] g2|e2 g2]; cbn [val vmono] in Hpb;
    try contradiction; try (intros _; reflexivity).
  inversion Hpb; subst hs4' blk' bd' pd'.
  pose proof (validate_digest_err_mono o ps pu pb ps' pu' pb' rtb hs4 blk bd pd true g1 g2 Hs) as Hvd. fold op oq in Hvd.
  destruct (validate_digest op rtb hs4 blk bd pd true g1) as [hs5 h5|e6 h5];
    destruct (validate_digest oq rtb hs4 blk bd pd true g2) as [hs5' h5'|e6' h5'];
    cbn [fst is_ok]; try (intros _; reflexivity); [intros He; discriminate|specialize (Hvd eq_refl); discriminate].
Qed.

End Levels.

Section Levels4.
Variable o : opts.
Variables py ps pu pb py' ps' pu' pb' : policy.
Hypothesis Hy : stricter py py'.
Hypothesis Hor : py = py' \/ o_fix_wfblock o = false.
Hypothesis Hs : stricter ps ps'.
Hypothesis Hu : stricter pu pu'.
Hypothesis Hb : stricter pb pb'.
Let op := relevel4 o py ps pu pb.
Let oq := relevel4 o py' ps' pu' pb'.

Lemma block_tail_stage_mono4 vt vid rt hs1 content s3 f1 f2 :
  uerr (block_tail_stage op vt vid rt hs1 content s3 f1) = true ->
  uerr (block_tail_stage oq vt vid rt hs1 content s3 f2) = true.
Proof.
  unfold block_tail_stage.
  pose proof (parse_block_vmono4 o py ps pu pb py' ps' pu' pb' rt hs1 content f1 f2 Hy Hb Hor) as Hpb.
  fold op oq in Hpb.
  destruct (parse_block op rt hs1 content f1) as [[[[hs2 blk] bd] pd] g1|e1 g1];
    destruct (parse_block oq rt hs1 content f2) as [[[[hs2' blk'] bd'] pd'] g2|e2 g2]; cbn [val vmono] in Hpb;
    try contradiction; try (intros _; reflexivity).
  inversion Hpb; subst hs2' blk' bd' pd'.
  pose proof (validate_digest_err_mono4 o py ps pu pb py' ps' pu' pb' rt hs2 blk bd pd
                (match bk blk with BWarcFields | BRevisit => true | _ => false end) g1 g2 Hs) as Hvd.
  fold op oq in Hvd.
  destruct (validate_digest op rt hs2 blk bd pd _ g1) as [hs3 h1|e6 h1];
    destruct (validate_digest oq rt hs2 blk bd pd _ g2) as [hs3' h2|e6' h2];
    try (intros _; reflexivity); [|specialize (Hvd eq_refl); discriminate].
  pose proof (trailer_err_mono4 o py ps pu pb py' ps' pu' pb' s3 h1 h2 Hs) as Htr. fold op oq in Htr.
  destruct (trailer op s3 h1) as [s4 k1|e7 k1]; destruct (trailer oq s3 h2) as [s4' k2|e7' k2];
    try (intros _; reflexivity); [intros He; discriminate|specialize (Htr eq_refl); discriminate].
Qed.

Lemma stage_block_mono4 vt vid rt hs1 s2 f1 f2 :
  uerr (stage_block op vt vid rt hs1 s2 f1) = true -> uerr (stage_block oq vt vid rt hs1 s2 f2) = true.
Proof.
  unfold PolicyProofs.stage_block. cbv zeta.
  destruct (stail s2);
    destruct ((cl_value tbl uni_lower hs1 <? 0)%Z || (Z.of_nat (length (sdata s2)) <? cl_value tbl uni_lower hs1)%Z);
    try (intros _; reflexivity); apply block_tail_stage_mono4.
Qed.

Lemma stage_fields_mono4 vt vid s1 f1 f2 :
  uerr (stage_fields op vt vid s1 f1) = true -> uerr (stage_fields oq vt vid s1 f2) = true.
Proof.
  unfold PolicyProofs.stage_fields.
  assert (A1 : o_syntax op = py) by reflexivity. assert (A2 : o_syntax oq = py') by reflexivity.
  assert (A3 : o_spec op = ps) by reflexivity. assert (A4 : o_spec oq = ps') by reflexivity.
  assert (A5 : o_unknown op = pu) by reflexivity. assert (A6 : o_unknown oq = pu') by reflexivity.
  rewrite A1, A2, A3, A4, A5, A6.
  pose proof (parse_fields_vmono py py' s1 f1 f2 Hy) as Hpf.
  destruct (HeaderParse.parse_fields tbl uni_lower mime_dec py s1 f1) as [[hs s2] g1|e1 g1] eqn:E1;
    destruct (HeaderParse.parse_fields tbl uni_lower mime_dec py' s1 f2) as [[hs' s2'] g2|e2 g2] eqn:E2;
    cbn [val vmono] in Hpf; try contradiction; try (intros _; reflexivity).
  inversion Hpf; subst hs' s2'.
  assert (HC : canonical hs) by (eapply (parse_fields_canonical tbl uni_lower mime_dec Htbl); exact E1).
  pose proof (validate_header_vmono ps pu ps' pu' vid hs g1 g2 HC Hs Hu) as Hvh.
  destruct (validate_header ps pu vid hs g1) as [[rt h1] k1|e3 k1];
    destruct (validate_header ps' pu' vid hs g2) as [[rt' h1'] k2|e3' k2]; cbn [val vmono] in Hvh;
    try contradiction; try (intros _; reflexivity).
  inversion Hvh; subst rt' h1'. apply stage_block_mono4.
Qed.

Lemma stage_ver_mono4 l s1 f1 f2 :
  uerr (stage_ver op l s1 f1) = true -> uerr (stage_ver oq l s1 f2) = true.
Proof.
  unfold PolicyProofs.stage_ver. cbv zeta.
  destruct (_ =? 0); [|apply stage_fields_mono4].
  assert (Hop : o_spec op = ps) by reflexivity. assert (Hoq : o_spec oq = ps') by reflexivity.
  rewrite Hop, Hoq.
  apply spec_site_mono; [exact Hs|]. intros g1 g2. apply stage_fields_mono4.
Qed.

Theorem parse_record_rejection_is_monotone4 s f1 f2 :
  uerr (parse_record op s f1) = true -> uerr (parse_record oq s f2) = true.
Proof.
  rewrite !parse_record_stages.
  destruct (read_bytes LF (discard 5 s)) as [[l e] s1].
  destruct e as [[|]|]; [intros _; reflexivity|intros _; reflexivity|].
  destruct (_ || _); [|apply stage_ver_mono4].
  assert (Hop : o_syntax op = py) by reflexivity. assert (Hoq : o_syntax oq = py') by reflexivity.
  rewrite Hop, Hoq.
  apply spec_site_mono; [exact Hy|]. intros g1 g2. apply stage_ver_mono4.
Qed.

Notation unmarshal_plain := (unmarshal_plain tbl req uni_lower uni_upper time_ok ip_ok uri_ok wid_ok mime_dec H b32_decode b64_decode http_req_ok http_resp_ok).

Theorem unmarshal_rejection_is_monotone4 s :
  uerr (snd (unmarshal_plain op s)) = true -> uerr (snd (unmarshal_plain oq s)) = true.
Proof.
  unfold Record.unmarshal_plain.
  assert (Hop : o_syntax op = py) by reflexivity. assert (Hoq : o_syntax oq = py') by reflexivity.
  rewrite Hop, Hoq.
  pose proof (find_start_cases py py' (length (sdata s)) s 0 Hy) as Hc.
  destruct (find_start (S (length (sdata s))) py s 0) as [[fp offp] sp].
  destruct (find_start (S (length (sdata s))) py' s 0) as [[fq offq] sq].
  destruct Hc as [(-> & -> & ->)| ->]; [|intros _; reflexivity].
  destruct fq as [| |[|]|]; cbn [snd]; try (intros _; reflexivity).
  apply parse_record_rejection_is_monotone4.
Qed.

Notation build := (build tbl req uni_lower uni_upper time_ok ip_ok uri_ok wid_ok mime_dec H b32_decode b64_decode http_req_ok http_resp_ok).

Theorem build_rejection_is_monotone4 vid rt0 hs content new_id : canonical hs ->
  is_ok (fst (build op vid rt0 hs content new_id)) = false ->
  is_ok (fst (build oq vid rt0 hs content new_id)) = false.
Proof.
  intros HC. unfold Record.build. cbv zeta.
  assert (E1 : o_add_id op = o_add_id o) by reflexivity. assert (E2 : o_add_id oq = o_add_id o) by reflexivity.
  assert (E3 : o_add_cl op = o_add_cl o) by reflexivity. assert (E4 : o_add_cl oq = o_add_cl o) by reflexivity.
  assert (E5 : o_spec op = ps) by reflexivity. assert (E6 : o_spec oq = ps') by reflexivity.
  assert (E7 : o_unknown op = pu) by reflexivity. assert (E8 : o_unknown oq = pu') by reflexivity.
  rewrite E1, E2, E3, E4, E5, E6, E7, E8.
  set (hs1 := if o_add_id o && negb (m_has tbl uni_lower n_record_id hs)
              then match id_value new_id with Some v => m_set tbl uni_lower n_record_id v hs | None => hs end else hs).
  set (hs2 := if o_add_cl o && negb (m_has tbl uni_lower n_content_length hs1)
              then m_set tbl uni_lower n_content_length (itoa (Z.of_nat (length content))) hs1 else hs1).
  assert (HC2 : canonical hs2).
  { unfold hs2, hs1. destruct (o_add_cl o && _); [apply (canonical_set_gen tbl uni_lower uni_upper time_ok ip_ok uri_ok wid_ok mime_dec b32_decode b64_decode http_req_ok http_resp_ok Htbl)|];
      (destruct (o_add_id o && _); [destruct (id_value new_id); [apply (canonical_set_gen tbl uni_lower uni_upper time_ok ip_ok uri_ok wid_ok mime_dec b32_decode b64_decode http_req_ok http_resp_ok Htbl)|]|]; exact HC). }
  pose proof (validate_header_vmono ps pu ps' pu' vid hs2 [] [] HC2 Hs Hu) as Hvh.
  destruct (validate_header ps pu vid hs2 []) as [[rt h1] k1|e3 k1];
    destruct (validate_header ps' pu' vid hs2 []) as [[rt' h1'] k2|e3' k2]; cbn [val vmono] in Hvh;
    try contradiction; try (intros _; reflexivity).
  inversion Hvh; subst rt' h1'.
  set (rtb := if rt0 =? 0 then rt else rt0).
  pose proof (parse_block_vmono4 o py ps pu pb py' ps' pu' pb' rtb h1 content k1 k2 Hy Hb Hor) as Hpb. fold op oq in Hpb.
  destruct (parse_block op rtb h1 content k1) as [[[[hs4 blk] bd] pd] g1|e1 g1];
    destruct (parse_block oq rtb h1 content k2) as [[[[hs4' blk'] bd'] pd'] g2|e2 g2]; cbn [val vmono] in Hpb;
    try contradiction; try (intros _; reflexivity).
  inversion Hpb; subst hs4' blk' bd' pd'.
  pose proof (validate_digest_err_mono4 o py ps pu pb py' ps' pu' pb' rtb hs4 blk bd pd true g1 g2 Hs) as Hvd. fold op oq in Hvd.
  destruct (validate_digest op rtb hs4 blk bd pd true g1) as [hs5 h5|e6 h5];
    destruct (validate_digest oq rtb hs4 blk bd pd true g2) as [hs5' h5'|e6' h5'];
    cbn [fst is_ok]; try (intros _; reflexivity); [intros He; discriminate|specialize (Hvd eq_refl); discriminate].
Qed.

End Levels4.

End Blind.
