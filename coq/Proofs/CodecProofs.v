(** CodecProofs.v — the digest text codec contract of Proofs/BuiltValidProofs.v holds for the
    base16 encoding: what the builder writes as "algorithm:hex" is read back by newDigest, under
    whatever default encoding the reader has, as a base16 digest whose declared hash validates
    against the same bytes; and it is a clean header value.  The hash oracle is only asked to
    return [alg_size a] bytes (each below 256). *)
Require Import Model.Bytes Model.FieldDef Gen.FieldTable Model.Fields Model.Policy Model.Validate Model.Stream
               Model.HeaderParse Model.Digest Model.Record.
Require Import Proofs.BytesProofs Proofs.FieldsProofs Proofs.NormalizeProofs Proofs.DigestProofs Proofs.TrimProofs
               Proofs.HeaderProofs Proofs.BuiltValidProofs.
From Coq Require Import Lia.
Local Open Scope N_scope.

Definition is_hexlow (c : byte) : bool := is_digit c || ((97 <=? c) && (c <=? 102)).

Lemma hexdigit_hexlow n : n < 16 -> is_hexlow (hexdigit n) = true.
Proof.
  intros Hn. unfold is_hexlow, hexdigit, is_digit. destruct (n <? 10) eqn:E.
  - apply N.ltb_lt in E. apply orb_true_iff. left. apply andb_true_iff. split; apply N.leb_le; lia.
  - apply N.ltb_ge in E. apply orb_true_iff. right. apply andb_true_iff. split; apply N.leb_le; lia.
Qed.

Lemma hex_encode_chars s : Forall is_byte s -> forallb is_hexlow (hex_encode s) = true.
Proof.
  induction 1 as [|b t Hb Ht IH]; [reflexivity|]. cbn [hex_encode flat_map app forallb].
  unfold is_byte in Hb.
  assert (H1 : b / 16 < 16) by (apply N.div_lt_upper_bound; lia).
  assert (H2 : b mod 16 < 16) by (apply N.mod_lt; lia).
  rewrite (hexdigit_hexlow _ H1), (hexdigit_hexlow _ H2). exact IH.
Qed.

Lemma hexlow_facts c : is_hexlow c = true ->
  is_ascii c = true /\ lower_byte c = c /\ (c =? 61) = false /\ (c =? 10) = false /\ is_sphtcrlf c = false /\ (c =? 58) = false.
Proof.
  unfold is_hexlow, is_digit, is_ascii, lower_byte, is_upper, is_sphtcrlf. intros Hc.
  assert (Hr : (48 <= c /\ c <= 57) \/ (97 <= c /\ c <= 102)).
  { apply orb_true_iff in Hc as [Hc|Hc]; apply andb_true_iff in Hc as [A B]; apply N.leb_le in A; apply N.leb_le in B; [left|right]; split; assumption. }
  assert (Hup : (65 <=? c) && (c <=? 90) = false).
  { apply andb_false_iff. destruct Hr as [[A B]|[A B]]; [left; apply N.leb_gt; lia|right; apply N.leb_gt; lia]. }
  rewrite Hup. repeat split.
  - apply N.ltb_lt. lia.
  - apply N.eqb_neq. lia.
  - apply N.eqb_neq. lia.
  - repeat (apply orb_false_iff; split); apply N.eqb_neq; lia.
  - apply N.eqb_neq. lia.
Qed.

Lemma forallb_impl {A} (P Q : A -> bool) l : (forall x, P x = true -> Q x = true) -> forallb P l = true -> forallb Q l = true.
Proof. intros HPQ. induction l as [|a t IH]; [reflexivity|]. cbn [forallb]. intros Hf. apply andb_true_iff in Hf as [Ha Ht]. rewrite (HPQ a Ha), (IH Ht). reflexivity. Qed.

Lemma hexlow_all_ascii s : forallb is_hexlow s = true -> all_ascii s = true.
Proof. apply forallb_impl. intros c Hc. apply hexlow_facts in Hc. tauto. Qed.

Lemma hexlow_lower s : forallb is_hexlow s = true -> ascii_lower s = s.
Proof.
  unfold ascii_lower. induction s as [|c t IH]; [reflexivity|]. cbn [forallb map]. intros Hf.
  apply andb_true_iff in Hf as [Hc Ht]. apply hexlow_facts in Hc as (_ & -> & _). rewrite (IH Ht). reflexivity.
Qed.

Lemma hexlow_no_suffix_eq s : forallb is_hexlow s = true -> has_suffix [61] s = false.
Proof.
  intros Hf. unfold has_suffix. cbn [rev app].
  assert (Hr : forallb is_hexlow (rev s) = true).
  { apply forallb_forall. intros c Hc. apply in_rev in Hc. rewrite forallb_forall in Hf. apply Hf. exact Hc. }
  destruct (rev s) as [|c t]; [reflexivity|]. cbn [has_prefix forallb] in *. apply andb_true_iff in Hr as [Hc _].
  apply hexlow_facts in Hc as (_ & _ & Hc & _). rewrite N.eqb_sym, Hc. reflexivity.
Qed.

Section Codec.
Variable uni_lower uni_upper : bytes -> bytes.
Variable H : alg -> bytes -> bytes.
Variables b32_decode b64_decode : bytes -> option bytes.
Hypothesis H_size : forall a x, length (H a x) = alg_size a /\ Forall is_byte (H a x).
Notation new_digest := (new_digest uni_lower uni_upper).
Notation format := (format H).

Definition fresh16 (al : alg) : digest := mkdig al (alg_name al) [] Base16 [].

Lemma to_lower_hex s : forallb is_hexlow s = true -> to_lower uni_lower s = s.
Proof. intros Hs. unfold to_lower. rewrite (hexlow_all_ascii s Hs). apply hexlow_lower. exact Hs. Qed.

(** newDigest on "algorithm:hex" *)
Lemma new_digest_of_hex al x e :
  new_digest (format (feed (fresh16 al) x)) e = Some (mkdig al (alg_name al) (hex_encode (H al x)) Base16 []).
Proof.
  destruct (H_size al x) as [Hlen Hby].
  pose proof (hex_encode_chars _ Hby) as Hch.
  pose proof (hex_encode_length (H al x)) as Hhl. rewrite Hlen in Hhl.
  assert (Hfmt : format (feed (fresh16 al) x) = alg_name al ++ [COLON] ++ hex_encode (H al x)) by reflexivity.
  rewrite Hfmt. clear Hfmt.
  set (hx := hex_encode (H al x)) in *.
  unfold Digest.new_digest.
  assert (Hsplit : split_colon (alg_name al ++ [COLON] ++ hx) = (alg_name al, Some hx)).
  { unfold split_colon. destruct al; cbn; reflexivity. }
  rewrite Hsplit.
  assert (Hnorm : normalize_alg uni_lower (alg_name al) = alg_name al) by (destruct al; vm_compute; reflexivity).
  rewrite Hnorm.
  assert (Hdet : detect_encoding (alg_name al) hx e = Base16).
  { unfold detect_encoding. rewrite (hexlow_no_suffix_eq hx Hch).
    destruct al; cbn [alg_name alg_size bytes_eqb] in *; rewrite Hhl; cbn; reflexivity. }
  rewrite Hdet. rewrite (to_lower_hex hx Hch).
  destruct al; cbn; reflexivity.
Qed.

Theorem codec_ok_base16 al e : codec_ok uni_lower uni_upper H b32_decode b64_decode e (fresh16 al).
Proof.
  intros x. destruct (H_size al x) as [Hlen Hby].
  eexists. split; [apply new_digest_of_hex|]. cbn [d_fed d_hash]. repeat split.
  - pose proof (hex_encode_length (H al x)) as Hhl. rewrite Hlen in Hhl.
    intros E. rewrite E in Hhl. destruct al; cbn in Hhl; discriminate.
  - unfold dvalidate, feed, dsum, decode. cbn [d_enc d_hash d_alg d_fed app].
    rewrite (hex_decode_encode _ Hby). apply bytes_eqb_refl.
Qed.

Lemma hexlow_no_byte c s : (forall x, is_hexlow x = true -> (x =? c) = false) -> forallb is_hexlow s = true -> no_byte c s.
Proof.
  intros Hc Hs. unfold no_byte. revert Hs. apply forallb_impl. intros x Hx. rewrite (Hc x Hx). reflexivity.
Qed.

Lemma last_app_nonempty {A} (a b : list A) d : b <> [] -> last (a ++ b) d = last b d.
Proof.
  intros Hb. induction a as [|x t IH]; [reflexivity|]. cbn [app].
  destruct (t ++ b) as [|y l] eqn:E; [apply app_eq_nil in E as [_ E]; congruence|].
  cbn [last]. exact IH.
Qed.

Theorem digest_text_clean_base16 al : digest_text_clean uni_lower H (fresh16 al).
Proof.
  intros x n Hn. destruct (H_size al x) as [Hlen Hby].
  pose proof (hex_encode_chars _ Hby) as Hch.
  assert (Hfmt : format (feed (fresh16 al) x) = alg_name al ++ [COLON] ++ hex_encode (H al x)) by reflexivity.
  rewrite Hfmt. set (hx := hex_encode (H al x)) in *.
  assert (H10 : no_byte LF hx) by (apply hexlow_no_byte; [intros c Hc; apply hexlow_facts in Hc; tauto|exact Hch]).
  assert (H61 : no_byte 61 hx) by (apply hexlow_no_byte; [intros c Hc; apply hexlow_facts in Hc; tauto|exact Hch]).
  constructor; cbn [fst snd].
  - apply (normalize_idem field_table gen_table_ok).
  - destruct Hn as [->| ->]; vm_compute; reflexivity.
  - destruct Hn as [->| ->]; vm_compute; reflexivity.
  - apply no_byte_app. split; [destruct al; vm_compute; reflexivity|]. apply no_byte_app. split; [vm_compute; reflexivity|exact H10].
  - destruct Hn as [->| ->]; vm_compute; reflexivity.
  - (* the value starts with a letter and ends with a hex digit (or the colon) *)
    assert (Hlast : is_sphtcrlf (last (alg_name al ++ [COLON] ++ hx) 0) = false).
    { destruct hx as [|c t] eqn:Ehx.
      - destruct al; vm_compute; reflexivity.
      - rewrite app_assoc. rewrite last_app_nonempty by discriminate.
        assert (Hl : is_hexlow (last (c :: t) 0) = true) by (apply forallb_last; [exact Hch|discriminate]).
        apply hexlow_facts in Hl. tauto. }
    unfold edge_ok. destruct (alg_name al ++ [COLON] ++ hx) as [|c0 t0] eqn:E0; [reflexivity|].
    rewrite Hlast.
    assert (Hc0 : is_sphtcrlf c0 = false) by (destruct al; cbn [alg_name app] in E0; inversion E0; reflexivity).
    rewrite Hc0. reflexivity.
  - apply no_byte_no_marker. apply no_byte_app. split; [destruct Hn as [->| ->]; vm_compute; reflexivity|].
    apply no_byte_app. split; [vm_compute; reflexivity|].
    apply no_byte_app. split; [destruct al; vm_compute; reflexivity|]. apply no_byte_app. split; [vm_compute; reflexivity|exact H61].
Qed.

End Codec.
