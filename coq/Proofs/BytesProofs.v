(** Lemmas about Bytes.v *)
Require Import Model.Bytes.
From Coq Require Import Lia.
Local Open Scope N_scope.

Lemma bytes_eqb_refl a : bytes_eqb a a = true.
Proof. induction a as [|x a IH]; cbn; [reflexivity|]. rewrite N.eqb_refl, IH. reflexivity. Qed.

Lemma bytes_eqb_eq a b : bytes_eqb a b = true <-> a = b.
Proof.
  split.
  - revert b; induction a as [|x a IH]; intros [|y b] H; cbn in H; try discriminate; [reflexivity|].
    apply andb_true_iff in H as [H1 H2]. apply N.eqb_eq in H1. apply IH in H2. subst. reflexivity.
  - intros ->. apply bytes_eqb_refl.
Qed.

Lemma bytes_eqb_neq a b : bytes_eqb a b = false <-> a <> b.
Proof.
  split.
  - intros H E. apply bytes_eqb_eq in E. congruence.
  - intros H. destruct (bytes_eqb a b) eqn:E; [|reflexivity]. apply bytes_eqb_eq in E. contradiction.
Qed.

Lemma bytes_eqb_sym a b : bytes_eqb a b = bytes_eqb b a.
Proof.
  destruct (bytes_eqb a b) eqn:E.
  - apply bytes_eqb_eq in E. subst. symmetry. apply bytes_eqb_refl.
  - symmetry. apply bytes_eqb_neq. apply bytes_eqb_neq in E. congruence.
Qed.

Lemma bytes_ltb_irrefl a : bytes_ltb a a = false.
Proof. induction a as [|x a IH]; cbn; [reflexivity|]. rewrite N.ltb_irrefl. exact IH. Qed.

Lemma bytes_ltb_asym a b : bytes_ltb a b = true -> bytes_ltb b a = false.
Proof.
  revert b; induction a as [|x a IH]; intros [|y b] H; cbn in *; try discriminate; try reflexivity.
  destruct (x <? y) eqn:E1.
  - apply N.ltb_lt in E1. destruct (y <? x) eqn:E2; [apply N.ltb_lt in E2; lia|]. reflexivity.
  - destruct (y <? x) eqn:E2; [discriminate|]. apply IH. exact H.
Qed.
