(** GzPolicyProofs.v — C08 for per-record gzip streams: the member wrapper around parse_record
    keeps all four sentences.  A stream is a list of items (junk bytes, members given by their
    payload, members cut inside the gzip header), Model/Record.v [unmarshal_gz]. *)
Require Import Model.Bytes Model.FieldDef Model.Fields Model.Policy Model.Validate Model.Stream Model.HeaderParse
               Model.Digest Model.Record.
Require Import Proofs.BytesProofs Proofs.FieldsProofs Proofs.NormalizeProofs Proofs.ValidateProofs Proofs.RecordProofs
               Proofs.PolicyProofs Proofs.SyncProofs Proofs.SyncPipeProofs Proofs.MonoProofs Proofs.MonoPipeProofs Proofs.RoundTripProofs.
From Coq Require Import Lia.
Local Open Scope N_scope.

Definition gres {A B C} (x : A * uresult * B * C) : uresult := snd (fst (fst x)).

Section GzPolicy.
Variable tbl : list fielddef.
Variable req : list bytes.
Variable uni_lower uni_upper : bytes -> bytes.
Variables time_ok ip_ok uri_ok wid_ok : bytes -> bool.
Variable mime_dec : bytes -> option bytes.
Variable H : alg -> bytes -> bytes.
Variables b32_decode b64_decode : bytes -> option bytes.
Variables http_req_ok http_resp_ok : bytes -> bool.
Hypothesis Htbl : table_ok tbl = true.
Notation parse_record := (parse_record tbl req uni_lower uni_upper time_ok ip_ok uri_ok wid_ok mime_dec H b32_decode b64_decode http_req_ok http_resp_ok).
Notation unmarshal_gz := (unmarshal_gz tbl req uni_lower uni_upper time_ok ip_ok uri_ok wid_ok mime_dec H b32_decode b64_decode http_req_ok http_resp_ok).

(* the result for one member, as a function of the options, the findings so far and the member *)
Definition member_res (o : opts) (fnd0 : list finding) (payload : bytes) (complete : bool) : uresult :=
  let inner := mkst payload (if complete then TEOF else TErr) in
  let '(m5, e5) := peek 5 inner in
  match e5 with
  | Some TEOF => match m5 with [] => UNone (KEOH, []) fnd0 | _ => UNone (KRead, []) fnd0 end
  | Some TErr => UNone (KRead, []) fnd0
  | None =>
      if bytes_eqb m5 s_WARC then
        match parse_record o inner fnd0 with
        | URec rc None fnd s' => if complete then URec rc None fnd s' else URec rc (Some (KRead, [])) fnd s'
        | other => other
        end
      else UNone (KSyntax, []) fnd0
  end.

Lemma unmarshal_gz_member o items :
  gres (unmarshal_gz o items) =
  match items with
  | [] => UNone (KEOH, []) []
  | GMember payload complete csize :: rest => member_res o [] payload complete
  | GBadMember csize :: rest => UNone (KRead, []) []
  | GJunk j :: rest =>
      match o_syntax o, rest with
      | Fail, [] => if (length j <? 5)%nat then UNone (KEOH, []) [] else UNone (KSyntax, []) []
      | _, [] => UNone (KEOH, []) []
      | Fail, _ => UNone (KSyntax, []) []
      | _, GMember payload complete csize :: rest' =>
          member_res o (if policy_gt_ignore (o_syntax o) && negb (length j =? 0)%nat then [(KOffset, [])] else []) payload complete
      | _, GBadMember csize :: rest' => UNone (KRead, []) (if policy_gt_ignore (o_syntax o) then [(KOffset, [])] else [])
      | _, GJunk _ :: _ => UNone (KOther, []) []
      end
  end.
Proof.
  unfold Record.unmarshal_gz, gres, member_res. cbv zeta.
  destruct items as [|[j|payload complete csize|csize] rest]; try reflexivity.
  - destruct (o_syntax o); destruct rest as [|[j2|p2 c2 z2|z2] rest']; try reflexivity;
      try (destruct (length j <? 5)%nat; reflexivity);
      destruct (peek 5 (mkst p2 (if c2 then TEOF else TErr))) as [m5 e5]; reflexivity.
  - cbn [Nat.eqb negb andb]. rewrite Bool.andb_false_r.
    destruct (peek 5 (mkst payload (if complete then TEOF else TErr))) as [m5 e5]. reflexivity.
Qed.

(** ** sentence 4: rejection is monotone *)
Section Levels.
Variable o : opts.
Variables py ps pu pb py' ps' pu' pb' : policy.
Hypothesis Hy : stricter py py'.
Hypothesis Hs : stricter ps ps'.
Hypothesis Hu : stricter pu pu'.
Hypothesis Hb : stricter pb pb'.
Hypothesis Hor : py = py' \/ o_fix_wfblock o = false.
Let op := relevel4 o py ps pu pb.
Let oq := relevel4 o py' ps' pu' pb'.

Lemma member_res_mono f1 f2 payload complete :
  uerr (member_res op f1 payload complete) = true -> uerr (member_res oq f2 payload complete) = true.
Proof.
  unfold member_res. cbv zeta.
  destruct (peek 5 (mkst payload (if complete then TEOF else TErr))) as [m5 e5].
  destruct e5 as [[|]|]; try (intros _; destruct m5; reflexivity).
  destruct (bytes_eqb m5 s_WARC); [|intros _; reflexivity].
  pose proof (parse_record_rejection_is_monotone4 tbl req uni_lower uni_upper time_ok ip_ok uri_ok wid_ok mime_dec H
                b32_decode b64_decode http_req_ok http_resp_ok Htbl o py ps pu pb py' ps' pu' pb' Hy Hor Hs Hu Hb
                (mkst payload (if complete then TEOF else TErr)) f1 f2) as Hm.
  fold op oq in Hm.
  destruct (parse_record op _ f1) as [e g|rc [e|] g s'] eqn:E1;
    destruct (parse_record oq _ f2) as [e' g'|rc' [e'|] g' s''] eqn:E2; cbn [uerr] in *;
    try (intros _; reflexivity); try (specialize (Hm eq_refl); discriminate).
  destruct complete; cbn [uerr]; [intros He; discriminate|intros _; reflexivity].
Qed.

Theorem unmarshal_gz_rejection_is_monotone items :
  uerr (gres (unmarshal_gz op items)) = true -> uerr (gres (unmarshal_gz oq items)) = true.
Proof.
  rewrite !unmarshal_gz_member.
  assert (Hop : o_syntax op = py) by reflexivity. assert (Hoq : o_syntax oq = py') by reflexivity.
  rewrite Hop, Hoq.
  destruct items as [|[j|payload complete csize|csize] rest]; try (intros _; reflexivity).
  - assert (Hcase : forall p q, stricter p q ->
      (forall f1 f2 pl c, uerr (member_res op f1 pl c) = true -> uerr (member_res oq f2 pl c) = true) ->
      uerr (match p, rest with
            | Fail, [] => if (length j <? 5)%nat then UNone (KEOH, []) [] else UNone (KSyntax, []) []
            | _, [] => UNone (KEOH, []) []
            | Fail, _ => UNone (KSyntax, []) []
            | _, GMember payload complete csize :: rest' =>
                member_res op (if policy_gt_ignore p && negb (length j =? 0)%nat then [(KOffset, [])] else []) payload complete
            | _, GBadMember csize :: rest' => UNone (KRead, []) (if policy_gt_ignore p then [(KOffset, [])] else [])
            | _, GJunk _ :: _ => UNone (KOther, []) []
            end) = true ->
      uerr (match q, rest with
            | Fail, [] => if (length j <? 5)%nat then UNone (KEOH, []) [] else UNone (KSyntax, []) []
            | _, [] => UNone (KEOH, []) []
            | Fail, _ => UNone (KSyntax, []) []
            | _, GMember payload complete csize :: rest' =>
                member_res oq (if policy_gt_ignore q && negb (length j =? 0)%nat then [(KOffset, [])] else []) payload complete
            | _, GBadMember csize :: rest' => UNone (KRead, []) (if policy_gt_ignore q then [(KOffset, [])] else [])
            | _, GJunk _ :: _ => UNone (KOther, []) []
            end) = true).
    { intros p q Hpq HM. destruct p, q; cbn [stricter] in Hpq; try contradiction;
        destruct rest as [|[j2|p2 c2 z2|z2] rest']; try (intros _; reflexivity);
        try (destruct (length j <? 5)%nat; intros _; reflexivity); apply HM. }
    apply Hcase; [exact Hy|]. intros. eapply member_res_mono; eassumption.
  - apply member_res_mono.
Qed.

End Levels.

(** ** sentences 1 and 2: no axis at warn, no finding *)
Lemma member_res_quiet o f payload complete : no_warn o -> ufindings (member_res o f payload complete) = f.
Proof.
  intros Hn. unfold member_res. cbv zeta.
  destruct (peek 5 (mkst payload (if complete then TEOF else TErr))) as [m5 e5].
  destruct e5 as [[|]|]; try (destruct m5; reflexivity).
  destruct (bytes_eqb m5 s_WARC); [|reflexivity].
  pose proof (parse_record_quiet tbl req uni_lower uni_upper time_ok ip_ok uri_ok wid_ok mime_dec H b32_decode b64_decode
                http_req_ok http_resp_ok o (mkst payload (if complete then TEOF else TErr)) f Hn) as Hq.
  destruct (parse_record o _ f) as [e g|rc [e|] g s']; cbn [ufindings] in *; try exact Hq.
  destruct complete; exact Hq.
Qed.

Theorem unmarshal_gz_quiet o items : no_warn o -> ufindings (gres (unmarshal_gz o items)) = [].
Proof.
  intros Hn. rewrite unmarshal_gz_member. destruct Hn as (Hsy & Hsp & Hun & Hbl).
  assert (Hn : no_warn o) by (repeat split; assumption).
  destruct items as [|[j|payload complete csize|csize] rest]; try reflexivity; [|apply member_res_quiet; exact Hn].
  destruct (o_syntax o) eqn:Es; try congruence; destruct rest as [|[j2|p2 c2 z2|z2] rest']; try reflexivity;
    try (destruct (length j <? 5)%nat; reflexivity).
  cbn [policy_gt_ignore andb]. apply member_res_quiet; exact Hn.
Qed.

(** ** sentence 3: fail errs exactly when warn finds or errs *)
Lemma member_res_le o f payload complete : le f (ufindings (member_res o f payload complete)).
Proof.
  unfold member_res. cbv zeta.
  destruct (peek 5 (mkst payload (if complete then TEOF else TErr))) as [m5 e5].
  destruct e5 as [[|]|]; try (destruct m5; apply le_refl).
  destruct (bytes_eqb m5 s_WARC); [|apply le_refl].
  pose proof (parse_record_le tbl req uni_lower uni_upper time_ok ip_ok uri_ok wid_ok mime_dec H b32_decode b64_decode
                http_req_ok http_resp_ok Htbl o (mkst payload (if complete then TEOF else TErr)) f) as Hq.
  destruct (parse_record o _ f) as [e g|rc [e|] g s']; cbn [ufindings] in *; try exact Hq.
  destruct complete; exact Hq.
Qed.

Lemma member_res_sync o f payload complete :
  usync (member_res (uni o Warn) f payload complete) (member_res (uni o Fail) f payload complete) f.
Proof.
  unfold member_res. cbv zeta.
  destruct (peek 5 (mkst payload (if complete then TEOF else TErr))) as [m5 e5].
  destruct e5 as [[|]|]; try (destruct m5; apply usync_same; reflexivity).
  destruct (bytes_eqb m5 s_WARC); [|apply usync_same; reflexivity].
  destruct (parse_record_sync tbl req uni_lower uni_upper time_ok ip_ok uri_ok wid_ok mime_dec H b32_decode b64_decode
              http_req_ok http_resp_ok Htbl o (mkst payload (if complete then TEOF else TErr)) f) as [[Hf ->]|(Hnf & He & Hff)].
  - left. destruct (parse_record (uni o Warn) _ f) as [e g|rc [e|] g s']; cbn [ufindings] in *; split; try exact Hf; try reflexivity.
    destruct complete; exact Hf.
  - right.
    assert (Hw : ufindings match parse_record (uni o Warn) (mkst payload (if complete then TEOF else TErr)) f with
                           | URec rc None fnd s' => if complete then URec rc None fnd s' else URec rc (Some (KRead, [])) fnd s'
                           | other => other end <> f).
    { destruct (parse_record (uni o Warn) _ f) as [e g|rc [e|] g s']; cbn [ufindings] in *; try exact Hnf. destruct complete; exact Hnf. }
    split; [exact Hw|].
    destruct (parse_record (uni o Fail) _ f) as [e g|rc [e|] g s']; cbn [uerr ufindings] in *; try (split; [reflexivity|exact Hff]).
    discriminate.
Qed.

Theorem unmarshal_gz_fail_errs_iff_warn_finds_or_errs o items :
  (forall j rest, items = GJunk j :: rest -> j <> []) ->
  uerr (gres (unmarshal_gz (uni o Fail) items)) = true <->
  (ufindings (gres (unmarshal_gz (uni o Warn) items)) <> [] \/ uerr (gres (unmarshal_gz (uni o Warn) items)) = true).
Proof.
  intros Hj. rewrite !unmarshal_gz_member. cbn [o_syntax uni policy_gt_ignore andb].
  destruct items as [|[j|payload complete csize|csize] rest].
  - split; [intros _; right; reflexivity|reflexivity].
  - assert (Hne : j <> []) by (eapply Hj; reflexivity).
    destruct rest as [|[j2|p2 c2 z2|z2] rest'].
    + split; [intros _; right; reflexivity|intros _; destruct (length j <? 5)%nat; reflexivity].
    + split; [intros _; right; reflexivity|reflexivity].
    + split; [intros _|reflexivity]. left.
      assert (Hl : (length j =? 0)%nat = false) by (destruct j; [congruence|reflexivity]).
      rewrite Hl. cbn [negb].
      pose proof (member_res_le (uni o Warn) [(KOffset, [])] p2 c2) as [r Hr]. rewrite Hr. discriminate.
    + split; [intros _; left; discriminate|reflexivity].
  - apply iff_from_usync. apply member_res_sync.
  - split; [intros _; right; reflexivity|reflexivity].
Qed.

(** ** C01 through the gzip container: a whole member holding the serialized record *)
Notation valid_record := (valid_record tbl req uni_lower uni_upper time_ok ip_ok uri_ok wid_ok mime_dec H b32_decode b64_decode http_req_ok http_resp_ok).
Theorem gzip_member_round_trip o r bd pd csize rest :
  valid_record o r bd pd ->
  gres (unmarshal_gz o (GMember (marshal r) true csize :: rest)) = URec r None [] (mkst [] TEOF).
Proof.
  intros Hv. rewrite unmarshal_gz_member. unfold member_res. cbv zeta.
  pose proof (marshal_then_parse tbl req uni_lower uni_upper time_ok ip_ok uri_ok wid_ok mime_dec H b32_decode b64_decode
                http_req_ok http_resp_ok o r bd pd [] TEOF Hv) as Hp.
  rewrite app_nil_r in Hp.
  assert (Hpk : peek 5 (mkst (marshal r) TEOF) = (s_WARC, None)).
  { unfold marshal. unfold peek. cbn [sdata stail]. unfold s_WARC. cbn. reflexivity. }
  rewrite Hpk, bytes_eqb_refl, Hp. reflexivity.
Qed.

End GzPolicy.
