(** WarnReturnsProofs.v — C17, "... under warn exactly the header sets that strict rejects produce
    findings and the record is still returned", for the parser as a whole: with the spec policy at
    warn (and the unknown-type policy not at fail) the parser withholds a record only when the
    version line or the header section cannot be READ (end of input, read error, a syntax error
    the syntax policy rejects); whatever header validation finds, a record comes back. *)
Require Import Model.Bytes Model.FieldDef Model.Fields Model.Policy Model.Validate Model.Stream Model.HeaderParse
               Model.Digest Model.Record.
Require Import Proofs.NormalizeProofs Proofs.ValidateProofs Proofs.MonoPipeProofs Proofs.SyncPipeProofs.
From Coq Require Import Lia.
Local Open Scope N_scope.

Section Warn.
Variable tbl : list fielddef.
Variable req : list bytes.
Variable uni_lower uni_upper : bytes -> bytes.
Variables time_ok ip_ok uri_ok wid_ok : bytes -> bool.
Variable mime_dec : bytes -> option bytes.
Variable H : alg -> bytes -> bytes.
Variables b32_decode b64_decode : bytes -> option bytes.
Variables http_req_ok http_resp_ok : bytes -> bool.
Hypothesis Htbl : table_ok tbl = true.
Notation parse_record := (parse_record tbl req uni_lower uni_upper time_ok ip_ok uri_ok wid_ok mime_dec H b32_decode b64_decode http_req_ok http_resp_ok).
Notation parse_fields := (parse_fields tbl uni_lower mime_dec).
Notation validate_header := (validate_header tbl req uni_lower time_ok ip_ok uri_ok wid_ok).

Definition is_rec (u : uresult) : Prop := match u with URec _ _ _ _ => True | UNone _ _ => False end.

(* the version line is terminated properly or the syntax policy lets it pass; the header section
   parses (under the same syntax policy; the findings handed in do not matter) *)
Definition header_readable (o : opts) (s : stream) : Prop :=
  exists l s1 hs s2 f0 f1,
    read_bytes LF (discard 5 s) = (l, None, s1) /\
    (((length l <? 2)%nat || negb (nth (length l - 2) l 0 =? CR) = false) \/ o_syntax o <> Fail) /\
    parse_fields (o_syntax o) s1 f0 = Ok (hs, s2) f1.

Lemma parse_fields_ok_any p s f0 hs s2 f1 f : parse_fields p s f0 = Ok (hs, s2) f1 ->
  exists f', parse_fields p s f = Ok (hs, s2) f'.
Proof.
  intros E. pose proof (parse_fields_val tbl uni_lower mime_dec p s f0 f) as Hv. rewrite E in Hv. cbn [val] in Hv.
  destruct (parse_fields p s f) as [[hs' s2'] f'|e f']; cbn [val] in Hv; [inversion Hv; subst; eexists; reflexivity|discriminate].
Qed.

Lemma validate_header_warn_ok pu vid hs f : canonical tbl uni_lower hs -> pu <> Fail ->
  exists rt hs1 f', validate_header Warn pu vid hs f = Ok (rt, hs1) f'.
Proof.
  intros HC HU. pose proof (validate_header_val tbl req uni_lower time_ok ip_ok uri_ok wid_ok Warn pu vid hs f [] HC) as Hv.
  rewrite (warn_result tbl req uni_lower time_ok ip_ok uri_ok wid_ok pu vid hs HC HU) in Hv. cbn [val] in Hv.
  destruct (validate_header Warn pu vid hs f) as [[rt hs1] f'|e f']; cbn [val] in Hv; [do 3 eexists; reflexivity|discriminate].
Qed.

Theorem warn_returns_a_record o s fnd :
  o_spec o = Warn -> o_unknown o <> Fail -> header_readable o s -> is_rec (parse_record o s fnd).
Proof.
  intros Hs Hu (l & s1 & hs & s2 & f0 & f1 & Hread & Hcr & Hpf).
  pose proof (parse_fields_canonical tbl uni_lower mime_dec Htbl _ _ _ _ _ _ Hpf) as HC.
  unfold Record.parse_record. rewrite Hread. cbv zeta.
  (* after the version line: the header parses whatever findings come in, validation under warn
     returns, and every later outcome carries a record *)
  Ltac after Hpf Hs HC Hu :=
    match goal with |- context [HeaderParse.parse_fields _ _ _ _ _ ?g] =>
      let f' := fresh "f'" in let E := fresh "E" in
      destruct (parse_fields_ok_any _ _ _ _ _ _ g Hpf) as [f' E]; rewrite E end;
    rewrite ?Hs;
    match goal with |- context [Validate.validate_header _ _ _ _ _ _ _ Warn ?pu ?vid ?hs ?f] =>
      let rt := fresh "rt" in let hs1 := fresh "hs1" in let f'' := fresh "f''" in let E := fresh "E" in
      destruct (validate_header_warn_ok pu vid hs f HC Hu) as (rt & hs1 & f'' & E); rewrite E end;
    repeat match goal with |- is_rec (match ?x with _ => _ end) => destruct x end; exact I.
  destruct ((length l <? 2)%nat || negb (nth (length l - 2) l 0 =? CR)) eqn:Eb.
  - destruct Hcr as [Hcr|Hcr]; [discriminate|].
    destruct (o_syntax o) eqn:Ey; [| |congruence];
      (destruct (_ =? 0); [rewrite Hs|]; after Hpf Hs HC Hu).
  - destruct (_ =? 0); [rewrite Hs|]; after Hpf Hs HC Hu.
Qed.
End Warn.
