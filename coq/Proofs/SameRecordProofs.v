(** SameRecordProofs.v — C07, first sentence, for the whole parser on plain streams: with the
    add-missing and repair options off, two policy settings that both return a record without
    error return the SAME record (version, type, header fields, block) and leave the same rest of
    the stream.  Findings may differ; nothing else does. *)
Require Import Model.Bytes Model.FieldDef Model.Fields Model.Policy Model.Validate Model.Stream Model.HeaderParse
               Model.Digest Model.Record.
Require Import Proofs.BytesProofs Proofs.FieldsProofs Proofs.NormalizeProofs Proofs.ValidateProofs Proofs.RecordProofs
               Proofs.PolicyProofs Proofs.SyncProofs Proofs.SyncPipeProofs Proofs.MonoProofs Proofs.MonoPipeProofs.
From Coq Require Import Lia.
Local Open Scope N_scope.

(* both return a record without error: the same record, the same rest *)
Definition same_when_clean (u v : uresult) : Prop :=
  forall r s' g r' s'' g', u = URec r None g s' -> v = URec r' None g' s'' -> r = r' /\ s' = s''.

Section SameRecord.
Variable tbl : list fielddef.
Variable req : list bytes.
Variable uni_lower uni_upper : bytes -> bytes.
Variables time_ok ip_ok uri_ok wid_ok : bytes -> bool.
Variable mime_dec : bytes -> option bytes.
Variable H : alg -> bytes -> bytes.
Variables b32_decode b64_decode : bytes -> option bytes.
Variables http_req_ok http_resp_ok : bytes -> bool.
Hypothesis Htbl : table_ok tbl = true.
Notation parse_fields := (parse_fields tbl uni_lower mime_dec).
Notation validate_header := (validate_header tbl req uni_lower time_ok ip_ok uri_ok wid_ok).
Notation parse_block := (parse_block tbl uni_lower uni_upper mime_dec http_req_ok http_resp_ok).
Notation validate_digest := (validate_digest tbl uni_lower H b32_decode b64_decode).
Notation canonical := (canonical tbl uni_lower).
Notation stage_block := (stage_block tbl uni_lower uni_upper mime_dec H b32_decode b64_decode http_req_ok http_resp_ok).
Notation stage_fields := (stage_fields tbl req uni_lower uni_upper time_ok ip_ok uri_ok wid_ok mime_dec H b32_decode b64_decode http_req_ok http_resp_ok).
Notation stage_ver := (stage_ver tbl req uni_lower uni_upper time_ok ip_ok uri_ok wid_ok mime_dec H b32_decode b64_decode http_req_ok http_resp_ok).
Notation parse_record := (parse_record tbl req uni_lower uni_upper time_ok ip_ok uri_ok wid_ok mime_dec H b32_decode b64_decode http_req_ok http_resp_ok).

Lemma trailer_ok_value o o' s f1 f2 s4 g1 s4' g2 :
  trailer o s f1 = Ok s4 g1 -> trailer o' s f2 = Ok s4' g2 -> s4 = s4'.
Proof.
  unfold trailer. destruct (peek 4 s) as [buf e]. destruct (bytes_eqb buf CRLFCRLF).
  - intros E1 E2. inversion E1; inversion E2; subst. reflexivity.
  - destruct (o_spec o), (o_spec o'); cbn [site]; intros E1 E2; try discriminate; inversion E1; inversion E2; subst; reflexivity.
Qed.

Lemma site_same p q (Fp Fq : list finding -> uresult) f1 f2 e :
  (forall g1 g2, same_when_clean (Fp g1) (Fq g2)) ->
  same_when_clean (match p with Warn => Fp (f1 ++ [e]) | Fail => UNone e f1 | Ignore => Fp f1 end)
                  (match q with Warn => Fq (f2 ++ [e]) | Fail => UNone e f2 | Ignore => Fq f2 end).
Proof.
  intros HF. destruct p, q; try apply HF; unfold same_when_clean; intros r s' g r' s'' g' A B; discriminate.
Qed.

Section Levels.
Variable o : opts.
Variables py ps pu pb py' ps' pu' pb' : policy.
Hypothesis Hy : stricter py py'.
Hypothesis Hs : stricter ps ps'.
Hypothesis Hu : stricter pu pu'.
Hypothesis Hb : stricter pb pb'.
Hypothesis Hor : py = py' \/ o_fix_wfblock o = false.
Hypothesis Hadd : o_add_digest o = false.
Hypothesis Hfcl : o_fix_cl o = false.
Hypothesis Hfdg : o_fix_digest o = false.
Let op := relevel4 o py ps pu pb.
Let oq := relevel4 o py' ps' pu' pb'.

Lemma block_tail_stage_same vt vid rt hs1 content s3 f1 f2 :
  same_when_clean (block_tail_stage tbl uni_lower uni_upper mime_dec H b32_decode b64_decode http_req_ok http_resp_ok op vt vid rt hs1 content s3 f1)
                  (block_tail_stage tbl uni_lower uni_upper mime_dec H b32_decode b64_decode http_req_ok http_resp_ok oq vt vid rt hs1 content s3 f2).
Proof.
  unfold block_tail_stage, same_when_clean.
  pose proof (parse_block_vmono4 tbl uni_lower uni_upper mime_dec http_req_ok http_resp_ok o py ps pu pb py' ps' pu' pb' rt hs1 content f1 f2 Hy Hb Hor) as Hpb.
  fold op oq in Hpb.
  destruct (parse_block op rt hs1 content f1) as [[[[hs2 blk] bd] pd] g1|e1 g1];
    destruct (parse_block oq rt hs1 content f2) as [[[[hs2' blk'] bd'] pd'] g2|e2 g2]; cbn [val vmono] in Hpb;
    try contradiction; try (intros; discriminate).
  inversion Hpb; subst hs2' blk' bd' pd'.
  destruct (validate_digest op rt hs2 blk bd pd _ g1) as [hs3 h1|e6 h1] eqn:E1; [|intros; discriminate].
  destruct (validate_digest oq rt hs2 blk bd pd _ g2) as [hs3' h2|e6' h2] eqn:E2; [|intros; discriminate].
  apply (validate_digest_repairs_off tbl uni_lower H b32_decode b64_decode) in E1; [|exact Hadd|exact Hfcl|exact Hfdg].
  apply (validate_digest_repairs_off tbl uni_lower H b32_decode b64_decode) in E2; [|exact Hadd|exact Hfcl|exact Hfdg].
  subst hs3 hs3'.
  destruct (trailer op s3 h1) as [s4 k1|e7 k1] eqn:T1; [|intros; discriminate].
  destruct (trailer oq s3 h2) as [s4' k2|e7' k2] eqn:T2; [|intros; discriminate].
  pose proof (trailer_ok_value _ _ _ _ _ _ _ _ _ T1 T2) as ->.
  intros r s' g r' s'' g' A B. inversion A; inversion B; subst. split; reflexivity.
Qed.

Lemma stage_block_same vt vid rt hs1 s2 f1 f2 :
  same_when_clean (stage_block op vt vid rt hs1 s2 f1) (stage_block oq vt vid rt hs1 s2 f2).
Proof.
  unfold PolicyProofs.stage_block. cbv zeta.
  destruct (stail s2);
    destruct ((cl_value tbl uni_lower hs1 <? 0)%Z || (Z.of_nat (length (sdata s2)) <? cl_value tbl uni_lower hs1)%Z);
    try (unfold same_when_clean; intros r s' g r' s'' g' A B; discriminate); apply block_tail_stage_same.
Qed.

Lemma stage_fields_same vt vid s1 f1 f2 :
  same_when_clean (stage_fields op vt vid s1 f1) (stage_fields oq vt vid s1 f2).
Proof.
  unfold PolicyProofs.stage_fields.
  assert (A1 : o_syntax op = py) by reflexivity. assert (A2 : o_syntax oq = py') by reflexivity.
  assert (A3 : o_spec op = ps) by reflexivity. assert (A4 : o_spec oq = ps') by reflexivity.
  assert (A5 : o_unknown op = pu) by reflexivity. assert (A6 : o_unknown oq = pu') by reflexivity.
  rewrite A1, A2, A3, A4, A5, A6.
  pose proof (parse_fields_vmono tbl uni_lower mime_dec py py' s1 f1 f2 Hy) as Hpf.
  destruct (HeaderParse.parse_fields tbl uni_lower mime_dec py s1 f1) as [[hs s2] g1|e1 g1] eqn:E1;
    destruct (HeaderParse.parse_fields tbl uni_lower mime_dec py' s1 f2) as [[hs' s2'] g2|e2 g2] eqn:E2;
    cbn [val vmono] in Hpf; try contradiction; try (unfold same_when_clean; intros r s' g r' s'' g' A B; discriminate).
  inversion Hpf; subst hs' s2'.
  assert (HC : canonical hs) by (eapply (parse_fields_canonical tbl uni_lower mime_dec Htbl); exact E1).
  pose proof (validate_header_vmono tbl req uni_lower time_ok ip_ok uri_ok wid_ok ps pu ps' pu' vid hs g1 g2 HC Hs Hu) as Hvh.
  destruct (validate_header ps pu vid hs g1) as [[rt h1] k1|e3 k1];
    destruct (validate_header ps' pu' vid hs g2) as [[rt' h1'] k2|e3' k2]; cbn [val vmono] in Hvh;
    try contradiction; try (unfold same_when_clean; intros r s' g r' s'' g' A B; discriminate).
  inversion Hvh; subst rt' h1'. apply stage_block_same.
Qed.

Lemma stage_ver_same l s1 f1 f2 : same_when_clean (stage_ver op l s1 f1) (stage_ver oq l s1 f2).
Proof.
  unfold PolicyProofs.stage_ver. cbv zeta.
  destruct (_ =? 0); [|apply stage_fields_same].
  assert (Hop : o_spec op = ps) by reflexivity. assert (Hoq : o_spec oq = ps') by reflexivity.
  rewrite Hop, Hoq.
  apply site_same. intros g1 g2. apply stage_fields_same.
Qed.

Theorem parse_record_same_record s f1 f2 :
  same_when_clean (parse_record op s f1) (parse_record oq s f2).
Proof.
  rewrite !parse_record_stages.
  destruct (read_bytes LF (discard 5 s)) as [[l e] s1].
  destruct e as [[|]|]; try (unfold same_when_clean; intros r s' g r' s'' g' A B; discriminate).
  destruct (_ || _)%bool; [|apply stage_ver_same].
  assert (Hop : o_syntax op = py) by reflexivity. assert (Hoq : o_syntax oq = py') by reflexivity.
  rewrite Hop, Hoq.
  apply site_same. intros g1 g2. apply stage_ver_same.
Qed.

End Levels.

(** any two settings that both return a record without error return the same record: both agree
    with the all-ignore run, which cannot be the one that errs (rejection is monotone) *)
Theorem same_record_under_any_two_settings o pyA psA puA pbA pyB psB puB pbB s r1 g1 s1 r2 g2 s2 :
  o_add_digest o = false -> o_fix_cl o = false -> o_fix_digest o = false -> o_fix_wfblock o = false ->
  parse_record (relevel4 o pyA psA puA pbA) s [] = URec r1 None g1 s1 ->
  parse_record (relevel4 o pyB psB puB pbB) s [] = URec r2 None g2 s2 ->
  r1 = r2 /\ s1 = s2.
Proof.
  intros Hadd Hfcl Hfdg Hfwf EA EB.
  assert (HI : forall p, stricter Ignore p) by (intros p; destruct p; exact I).
  destruct (parse_record (relevel4 o Ignore Ignore Ignore Ignore) s []) as [e0 g0|r0 [e0|] g0 s0] eqn:E0.
  - exfalso.
    pose proof (parse_record_rejection_is_monotone4 tbl req uni_lower uni_upper time_ok ip_ok uri_ok wid_ok mime_dec H
                  b32_decode b64_decode http_req_ok http_resp_ok Htbl o Ignore Ignore Ignore Ignore pyA psA puA pbA
                  (HI _) (or_intror Hfwf) (HI _) (HI _) (HI _) s [] []) as Hm.
    rewrite E0, EA in Hm. specialize (Hm eq_refl). discriminate.
  - exfalso.
    pose proof (parse_record_rejection_is_monotone4 tbl req uni_lower uni_upper time_ok ip_ok uri_ok wid_ok mime_dec H
                  b32_decode b64_decode http_req_ok http_resp_ok Htbl o Ignore Ignore Ignore Ignore pyA psA puA pbA
                  (HI _) (or_intror Hfwf) (HI _) (HI _) (HI _) s [] []) as Hm.
    rewrite E0, EA in Hm. specialize (Hm eq_refl). discriminate.
  - destruct (parse_record_same_record o Ignore Ignore Ignore Ignore pyA psA puA pbA (HI _) (HI _) (HI _) (HI _) (or_intror Hfwf)
                Hadd Hfcl Hfdg s [] [] _ _ _ _ _ _ E0 EA) as [<- <-].
    destruct (parse_record_same_record o Ignore Ignore Ignore Ignore pyB psB puB pbB (HI _) (HI _) (HI _) (HI _) (or_intror Hfwf)
                Hadd Hfcl Hfdg s [] [] _ _ _ _ _ _ E0 EB) as [<- <-].
    split; reflexivity.
Qed.

End SameRecord.
