(** Get after Set / Delete on WarcFields, through the reference multimap (used by C02, C20). *)
Require Import Model.Bytes Model.FieldDef Model.Fields Proofs.BytesProofs Proofs.FieldsProofs Proofs.NormalizeProofs.
Local Open Scope N_scope.

Section GetSet.
Variable tbl : list fielddef.
Variable uni_lower : bytes -> bytes.
Notation key := (normalize_name tbl uni_lower).
Notation m_get := (m_get tbl uni_lower).
Notation m_set := (m_set tbl uni_lower).
Notation m_has := (m_has tbl uni_lower).
Notation m_delete := (m_delete tbl uni_lower).
Notation m_getall := (m_getall tbl uni_lower).

Lemma s_values_set_other k k' v l : k' <> k -> s_values k' (s_set k v l) = s_values k' l.
Proof.
  intros H. destruct (set_one_value_at_first_position k v l) as (_ & HD & _).
  unfold s_values.
  rewrite <- (filter_other_delete k k' (s_set k v l) H), HD, (filter_other_delete k k' l H). reflexivity.
Qed.

Theorem get_set_same n v hs : m_get n (m_set n v hs) = v.
Proof.
  rewrite m_get_spec, m_set_spec. unfold s_get, Fields.key.
  destruct (set_one_value_at_first_position (key n) v hs) as (HV & _). rewrite HV. reflexivity.
Qed.

Theorem get_set_other a b v hs : key a <> key b -> m_get a (m_set b v hs) = m_get a hs.
Proof.
  intros H. rewrite !m_get_spec, m_set_spec. unfold s_get, Fields.key.
  rewrite (s_values_set_other (key b) (key a) v hs H). reflexivity.
Qed.

Theorem has_set_same n v hs : m_has n (m_set n v hs) = true.
Proof.
  unfold Fields.m_has. rewrite m_has_loop_spec, m_set_spec. unfold Fields.key.
  destruct (set_one_value_at_first_position (key n) v hs) as (HV & _).
  unfold s_has, s_values in *. destruct (filter (name_is (key n)) (s_set (key n) v hs)) as [|p t] eqn:E; [discriminate|].
  assert (Hin : In p (filter (name_is (key n)) (s_set (key n) v hs))) by (rewrite E; left; reflexivity).
  apply filter_In in Hin as [Hin Hp]. apply existsb_exists. exists p. split; assumption.
Qed.

Theorem get_delete_other a b hs : key a <> key b -> m_get a (m_delete b hs) = m_get a hs.
Proof.
  intros H. rewrite !m_get_spec. unfold Fields.m_delete. rewrite m_delete_loop_spec. unfold s_get, s_values, Fields.key.
  rewrite (filter_other_delete (key b) (key a) hs H). reflexivity.
Qed.

End GetSet.
