(** SerialProofs.v - callers sharing a generator get pairwise different serials under every
    schedule when the serial is taken by one atomic add; not so with load-then-store. *)
Require Import Model.Serial.
From Coq Require Import List ZArith Lia Bool.
Import ListNotations.
Local Open Scope Z_scope.

Lemma run_add_length c s : length (run_add c s) = length s.
Proof. revert c. induction s as [|t r IH]; intros c; cbn [run_add length]; [reflexivity|]. rewrite IH. reflexivity. Qed.

Lemma run_add_threads c s : map fst (run_add c s) = s.
Proof. revert c. induction s as [|t r IH]; intros c; cbn [run_add map fst]; [reflexivity|]. rewrite IH. reflexivity. Qed.

Lemma run_add_lower c s x : In x (map snd (run_add c s)) -> c < x.
Proof.
  revert c. induction s as [|t r IH]; intros c; cbn [run_add map snd In]; [tauto|].
  intros [E|Hin]; [lia|]. apply IH in Hin. lia.
Qed.

Lemma run_add_nodup c s : NoDup (map snd (run_add c s)).
Proof.
  revert c. induction s as [|t r IH]; intros c; cbn [run_add map snd]; constructor.
  - intros Hin. apply run_add_lower in Hin. lia.
  - apply IH.
Qed.

(** the serials handed out are exactly c+1, c+2, ..., in the order the adds took effect *)
Lemma run_add_values c s : map snd (run_add c s) = map (fun i => c + 1 + Z.of_nat i) (seq 0 (length s)).
Proof.
  revert c. induction s as [|t r IH]; intros c; cbn [run_add map snd length seq]; [reflexivity|].
  f_equal; [lia|]. rewrite IH. rewrite <- seq_shift, map_map. apply map_ext. intros i. lia.
Qed.

Lemma injective_map_nodup {A B} (f : A -> B) l : (forall a b, f a = f b -> a = b) -> NoDup l -> NoDup (map f l).
Proof.
  intros Hinj. induction 1 as [|x l Hx Hnd IH]; cbn [map]; constructor; [|exact IH].
  intros Hin. apply in_map_iff in Hin as (y & Hy & Hin). apply Hinj in Hy. subst y. exact (Hx Hin).
Qed.

Theorem names_distinct_under_every_schedule {N} (name_of : Z -> N) c s :
  (forall a b, name_of a = name_of b -> a = b) ->
  NoDup (map (fun r => name_of (snd r)) (run_add c s)).
Proof.
  intros Hinj. rewrite <- (map_map snd name_of). apply injective_map_nodup; [exact Hinj|apply run_add_nodup].
Qed.

Theorem load_then_store_hands_out_a_serial_twice :
  exists s, ~ NoDup (map snd (run_ls 0 (fun _ => None) s)).
Proof.
  exists [0%nat; 1%nat; 0%nat; 1%nat]. vm_compute. intros Hnd. inversion Hnd as [|x l Hx _]. apply Hx. left. reflexivity.
Qed.

(** ---- the int32 counter: no repetition within 2^32 calls, whatever the start value *)
Lemma wrap32_succ x : wrap32 (wrap32 x + 1) = wrap32 (x + 1).
Proof.
  unfold wrap32.
  replace ((x + 2147483648) mod 4294967296 - 2147483648 + 1 + 2147483648) with ((x + 2147483648) mod 4294967296 + 1) by lia.
  replace (x + 1 + 2147483648) with ((x + 2147483648) + 1) by lia.
  rewrite (Z.add_mod (x + 2147483648) 1 4294967296) by lia.
  rewrite (Z.add_mod ((x + 2147483648) mod 4294967296) 1 4294967296) by lia.
  rewrite Z.mod_mod by lia. reflexivity.
Qed.

Lemma wrap32_idem x : wrap32 (wrap32 x) = wrap32 x.
Proof.
  unfold wrap32.
  replace ((x + 2147483648) mod 4294967296 - 2147483648 + 2147483648) with ((x + 2147483648) mod 4294967296) by lia.
  rewrite Z.mod_mod by lia. reflexivity.
Qed.

Lemma wrap32_succ_cong a b : wrap32 a = wrap32 b -> wrap32 (a + 1) = wrap32 (b + 1).
Proof. intros E. rewrite <- (wrap32_succ a), <- (wrap32_succ b), E. reflexivity. Qed.

Lemma run_add32_cong s a b : wrap32 a = wrap32 b -> map snd (run_add32 a s) = map snd (run_add32 b s).
Proof.
  intros E. destruct s as [|t r]; cbn [run_add32 map snd]; [reflexivity|].
  rewrite (wrap32_succ_cong a b E). reflexivity.
Qed.

Lemma run_add32_as_wrap c s : map snd (run_add32 c s) = map wrap32 (map snd (run_add c s)).
Proof.
  revert c. induction s as [|t r IH]; intros c; cbn [run_add32 run_add map snd]; [reflexivity|].
  f_equal. rewrite <- (IH (c + 1)). apply run_add32_cong. apply wrap32_idem.
Qed.

Lemma wrap32_inj_close a b : wrap32 a = wrap32 b -> Z.abs (a - b) < 4294967296 -> a = b.
Proof.
  unfold wrap32. intros E Hd.
  assert (E' : (a + 2147483648) mod 4294967296 = (b + 2147483648) mod 4294967296) by lia.
  pose proof (Z.div_mod (a + 2147483648) 4294967296 ltac:(lia)) as Ha.
  pose proof (Z.div_mod (b + 2147483648) 4294967296 ltac:(lia)) as Hb.
  rewrite E' in Ha. nia.
Qed.

Lemma nodup_map_inj_in {A B} (f : A -> B) l : (forall a b, In a l -> In b l -> f a = f b -> a = b) -> NoDup l -> NoDup (map f l).
Proof.
  intros Hinj Hnd. induction Hnd as [|x l Hx Hnd IH]; cbn [map]; constructor.
  - intros Hin. apply in_map_iff in Hin as (y & Hy & Hin). assert (y = x) by (apply Hinj; [right; exact Hin|left; reflexivity|exact Hy]). subst y. exact (Hx Hin).
  - apply IH. intros a b Ha Hb. apply Hinj; right; assumption.
Qed.

Lemma run_add_range c s x : In x (map snd (run_add c s)) -> c < x <= c + Z.of_nat (length s).
Proof.
  rewrite run_add_values. intros Hin. apply in_map_iff in Hin as (i & <- & Hi). apply in_seq in Hi. lia.
Qed.

Theorem int32_serials_distinct_within_2_32_calls c s :
  Z.of_nat (length s) <= 4294967296 -> NoDup (map snd (run_add32 c s)).
Proof.
  intros Hlen. rewrite run_add32_as_wrap. apply nodup_map_inj_in; [|apply run_add_nodup].
  intros a b Ha Hb E. apply run_add_range in Ha. apply run_add_range in Hb.
  apply wrap32_inj_close; [exact E|lia].
Qed.
