(** RaceProofs.v — a trace that follows the disciplines has no data race. *)
Require Import Model.Race.
From Coq Require Import List Arith Lia Bool.
Import ListNotations.
Local Open Scope nat_scope.

Lemma event_eq_dec (a b : event) : {a = b} + {a <> b}.
Proof. decide equality; apply Nat.eq_dec. Qed.

Lemma opt_event_eq_dec (a b : option event) : {a = b} + {a <> b}.
Proof. decide equality; apply event_eq_dec. Qed.

(* bounded search for an event in an open interval *)
Lemma find_in_interval (tr : trace) (e : event) lo hi :
  (forall r, lo < r -> r < hi -> nth_error tr r <> Some e) \/
  (exists r, lo < r /\ r < hi /\ nth_error tr r = Some e).
Proof.
  induction hi as [|hi IH].
  - left; intros r _ H; lia.
  - destruct IH as [Hn|(r & H1 & H2 & H3)].
    + destruct (opt_event_eq_dec (nth_error tr hi) (Some e)) as [He|He].
      * destruct (Nat.lt_ge_cases lo hi) as [Hlt|Hge].
        -- right; exists hi; repeat split; auto.
        -- left; intros r Hr1 Hr2; lia.
      * left; intros r Hr1 Hr2. destruct (Nat.eq_dec r hi) as [->|Hne]; auto. apply Hn; lia.
    + right; exists r; repeat split; auto.
Qed.

Lemma holds_earlier tr t s a i i' :
  a < i' -> i' <= i -> nth_error tr a = Some (Acq t s) ->
  (forall r, a < r -> r < i -> nth_error tr r <> Some (Rel t s)) -> holds tr t s i'.
Proof. intros H1 H2 Ha Hn. exists a; repeat split; auto. intros r Hr1 Hr2; apply Hn; lia. Qed.

Theorem guarded_accesses_are_ordered tr l s i j ei ej t1 w1 t2 w2 :
  exclusive tr s -> guarded tr l s -> i < j ->
  nth_error tr i = Some ei -> nth_error tr j = Some ej ->
  access_of ei = Some (t1, l, w1) -> access_of ej = Some (t2, l, w2) -> t1 <> t2 ->
  hb tr i j.
Proof.
  intros Hex Hg Hij Hi Hj Hai Haj Hne.
  destruct (Hg _ _ _ _ Hi Hai) as (a1 & Ha1i & Ha1 & Hn1).
  destruct (Hg _ _ _ _ Hj Haj) as (a2 & Ha2j & Ha2 & Hn2).
  assert (Htid1 : tid ei = t1) by (destruct ei; cbn in Hai; inversion Hai; auto).
  assert (Htid2 : tid ej = t2) by (destruct ej; cbn in Haj; inversion Haj; auto).
  assert (Ha2i : a2 <> i).
  { intros ->. rewrite Hi in Ha2. inversion Ha2 as [He]. rewrite He in Hai. cbn in Hai. discriminate Hai. }
  assert (Ha12 : a1 <> a2).
  { intros ->. rewrite Ha1 in Ha2. inversion Ha2; subst. auto. }
  destruct (Nat.lt_ge_cases a2 i) as [Hlt|Hge].
  - (* t2 acquired before position i: both would hold s at once *)
    exfalso. destruct (Nat.lt_ge_cases a1 a2) as [H12|H21].
    + apply (Hex _ _ Ha2 t1 Hne). eapply (holds_earlier tr t1 s a1 i a2); eauto; lia.
    + assert (a2 < a1) by lia.
      apply (Hex _ _ Ha1 t2 (not_eq_sym Hne)). eapply (holds_earlier tr t2 s a2 j a1); eauto; lia.
  - (* t2 acquired after position i: t1 must have released in between *)
    assert (Hia2 : i < a2) by lia.
    destruct (find_in_interval tr (Rel t1 s) a1 a2) as [Hnone|(r & Hr1 & Hr2 & Hr)].
    + exfalso. apply (Hex _ _ Ha2 t1 Hne). exists a1; repeat split; auto; lia.
    + assert (Hir : i < r).
      { destruct (Nat.lt_ge_cases i r) as [|Hle]; auto.
        destruct (Nat.eq_dec r i) as [->|Hri].
        - rewrite Hi in Hr. inversion Hr as [He]. rewrite He in Hai. cbn in Hai. discriminate Hai.
        - exfalso. apply (Hn1 r); auto; lia. }
      eapply hb_trans; [eapply (hb_po tr i r); eauto|].
      eapply hb_trans; [eapply (hb_sync tr r a2); eauto|].
      eapply (hb_po tr a2 j); eauto.
Qed.

Theorem disciplined_trace_has_no_race tr :
  (forall l, read_only tr l \/ exists s, exclusive tr s /\ guarded tr l s) -> ~ race tr.
Proof.
  intros Hd (i & j & ei & ej & Hij & Hi & Hj & Hc & Hnhb).
  unfold conflict in Hc.
  destruct (access_of ei) as [[[t1 l1] w1]|] eqn:E1; [|contradiction].
  destruct (access_of ej) as [[[t2 l2] w2]|] eqn:E2; [|contradiction].
  destruct Hc as (Hne & <- & Hw).
  destruct (Hd l1) as [Hro|(s & Hex & Hg)].
  - destruct Hw as [->| ->].
    + destruct ei; cbn in E1; inversion E1; subst. eapply Hro; eauto.
    + destruct ej; cbn in E2; inversion E2; subst. eapply Hro; eauto.
  - apply Hnhb. eapply guarded_accesses_are_ordered; eauto.
Qed.

(** non-vacuity: the hypotheses are satisfiable by a trace with two threads, and without the
    mutex the definitions do report a race *)
Definition locked_trace : trace := [Acq 1 0; Write 1 7; Rel 1 0; Acq 2 0; Write 2 7].

Lemma locked_trace_disciplined : exclusive locked_trace 0 /\ guarded locked_trace 7 0.
Proof.
  split.
  - intros a t Ha t' Hne (a' & Hlt & Ha' & Hn). unfold locked_trace in *.
    destruct a as [|[|[|[|[|a]]]]]; cbn in Ha; try discriminate.
    + lia.
    + inversion Ha; subst.
      destruct a' as [|[|[|a']]]; cbn in Ha'; try discriminate; try lia.
      apply (Hn 2); [lia|lia|]. inversion Ha'; subst. reflexivity.
    + destruct a; discriminate.
  - intros i e t w Hi Ha. unfold locked_trace in *.
    destruct i as [|[|[|[|[|i]]]]]; cbn in Hi.
    6: (destruct i; discriminate).
    all: inversion Hi; subst; cbn in Ha; try discriminate; inversion Ha; subst.
    + exists 0; repeat split; [lia|]. intros r H1 H2; lia.
    + exists 3; repeat split; [lia|]. intros r H1 H2; lia.
Qed.

Lemma hb_lt tr i j : hb tr i j -> i < j.
Proof. induction 1; lia. Qed.

Lemma no_hb_in_unlocked i j : ~ hb [Write 1 7; Write 2 7] i j.
Proof.
  intros H. induction H as [i j ei ej Hlt Hi Hj Ht|i j t t' s Hlt Hi Hj|i j k H1 IH1 H2 IH2]; auto.
  - destruct i as [|[|i]]; destruct j as [|[|j]]; cbn in Hi, Hj; try lia; try discriminate;
      try (destruct i; discriminate); try (destruct j; discriminate).
    inversion Hi; inversion Hj; subst. cbn in Ht. discriminate.
  - destruct i as [|[|i]]; cbn in Hi; try discriminate. destruct i; discriminate.
Qed.

Lemma unlocked_trace_races : race [Write 1 7; Write 2 7].
Proof.
  exists 0, 1, (Write 1 7), (Write 2 7). split; [lia|]. split; [reflexivity|]. split; [reflexivity|].
  split; [cbn; repeat split; auto|apply no_hb_in_unlocked].
Qed.
