(** normalizeName: idempotent, and case-insensitive on token names and known fields (C18). *)
Require Import Model.Bytes Model.FieldDef Gen.FieldTable Model.Fields Proofs.BytesProofs.
From Coq Require Import Lia ZifyBool ZifyN.
Local Open Scope N_scope.

(** byte-level facts *)
Lemma tchar_ascii c : is_tchar c = true -> is_ascii c = true.
Proof. unfold is_tchar, is_digit, is_lower, is_upper, is_ascii. cbn [existsb]. lia. Qed.

Lemma cstep_tchar b c : is_tchar c = true -> is_tchar (cstep b c) = true.
Proof.
  unfold cstep, is_tchar, is_digit, is_lower, is_upper. cbn [existsb].
  destruct b; cbn [andb negb]; intros H.
  - destruct ((97 <=? c) && (c <=? 122)) eqn:E; lia.
  - destruct ((65 <=? c) && (c <=? 90)) eqn:E; lia.
Qed.

Lemma cstep_lower b c : lower_byte (cstep b c) = lower_byte c.
Proof.
  unfold cstep, lower_byte, is_lower, is_upper.
  destruct b; cbn [andb negb].
  - destruct ((97 <=? c) && (c <=? 122)) eqn:E.
    + destruct ((65 <=? c - 32) && (c - 32 <=? 90)) eqn:E1; destruct ((65 <=? c) && (c <=? 90)) eqn:E2; lia.
    + reflexivity.
  - destruct ((65 <=? c) && (c <=? 90)) eqn:E.
    + destruct ((65 <=? c + 32) && (c + 32 <=? 90)) eqn:E1; lia.
    + rewrite E. reflexivity.
Qed.

Lemma cstep_idem b c : cstep b (cstep b c) = cstep b c.
Proof.
  unfold cstep, is_lower, is_upper.
  destruct b; cbn [andb negb].
  - destruct ((97 <=? c) && (c <=? 122)) eqn:E.
    + destruct ((97 <=? c - 32) && (c - 32 <=? 122)) eqn:E1; lia.
    + rewrite E. reflexivity.
  - destruct ((65 <=? c) && (c <=? 90)) eqn:E.
    + destruct ((65 <=? c + 32) && (c + 32 <=? 90)) eqn:E1; lia.
    + rewrite E. reflexivity.
Qed.

Lemma cstep_same_lower b x y : lower_byte x = lower_byte y -> cstep b x = cstep b y.
Proof.
  unfold cstep, lower_byte, is_lower, is_upper.
  destruct b; cbn [andb negb]; intros H;
    destruct ((65 <=? x) && (x <=? 90)) eqn:E1; destruct ((65 <=? y) && (y <=? 90)) eqn:E2;
    destruct ((97 <=? x) && (x <=? 122)) eqn:E3; destruct ((97 <=? y) && (y <=? 122)) eqn:E4; lia.
Qed.

Lemma tchar_same_lower x y : lower_byte x = lower_byte y -> is_tchar x = is_tchar y.
Proof.
  unfold lower_byte, is_tchar, is_digit, is_lower, is_upper. cbn [existsb]. intros H.
  destruct ((65 <=? x) && (x <=? 90)) eqn:E1; destruct ((65 <=? y) && (y <=? 90)) eqn:E2; lia.
Qed.

(** string-level facts *)
Lemma tchars_ascii s : forallb is_tchar s = true -> all_ascii s = true.
Proof.
  unfold all_ascii. induction s as [|c t IH]; cbn; [reflexivity|]. intros H.
  apply andb_true_iff in H as [H1 H2]. rewrite (tchar_ascii _ H1), (IH H2). reflexivity.
Qed.

Lemma canon_tchars s : forall b, forallb is_tchar s = true -> forallb is_tchar (canon_loop b s) = true.
Proof.
  induction s as [|c t IH]; intros b H; cbn in *; [reflexivity|].
  apply andb_true_iff in H as [H1 H2]. rewrite (cstep_tchar b _ H1), (IH _ H2). reflexivity.
Qed.

Lemma canon_lower s : forall b, ascii_lower (canon_loop b s) = ascii_lower s.
Proof.
  unfold ascii_lower. induction s as [|c t IH]; intros b; cbn; [reflexivity|].
  rewrite cstep_lower, IH. reflexivity.
Qed.

Lemma canon_idem s : forall b, canon_loop b (canon_loop b s) = canon_loop b s.
Proof.
  induction s as [|c t IH]; intros b; cbn; [reflexivity|].
  rewrite cstep_idem, IH. reflexivity.
Qed.

Lemma canon_same_lower a : forall b f, ascii_lower a = ascii_lower b -> canon_loop f a = canon_loop f b.
Proof.
  unfold ascii_lower. induction a as [|x a IH]; intros [|y b] f H; cbn in H; try discriminate; [reflexivity|].
  inversion H as [[H1 H2]]. cbn. rewrite (cstep_same_lower f x y H1), (IH b _ H2). reflexivity.
Qed.

Lemma tchars_same_lower a : forall b, ascii_lower a = ascii_lower b -> forallb is_tchar a = forallb is_tchar b.
Proof.
  unfold ascii_lower. induction a as [|x a IH]; intros [|y b] H; cbn in H; try discriminate; [reflexivity|].
  inversion H as [[H1 H2]]. cbn. rewrite (tchar_same_lower x y H1), (IH b H2). reflexivity.
Qed.

(** the table: every canonical spelling is ASCII and is found again under its own lower-case key.
    A finite check (vm_compute) on the table regenerated from /repo (tie T-A). *)
Definition table_ok (tbl : list fielddef) : bool :=
  forallb (fun d => all_ascii (fd_name d) &&
                    match lookup_def tbl (ascii_lower (fd_name d)) with
                    | Some d' => bytes_eqb (fd_name d') (fd_name d)
                    | None => false
                    end) tbl.

Lemma lookup_in tbl lc d : lookup_def tbl lc = Some d -> In d tbl.
Proof. unfold lookup_def. intros H. apply find_some in H as [H _]. apply in_rev. exact H. Qed.

Section Normalize.
Variable tbl : list fielddef.
Hypothesis Htbl : table_ok tbl = true.
Variable uni_lower : bytes -> bytes.
Notation normalize_name := (normalize_name tbl uni_lower).
Notation lower := (lower uni_lower).

Theorem normalize_idem n : normalize_name (normalize_name n) = normalize_name n.
Proof.
  unfold Fields.normalize_name, normalize_def.
  destruct (lookup_def tbl (lower n)) as [d|] eqn:E; cbn [fst].
  - pose proof (lookup_in _ _ _ E) as Hin.
    pose proof Htbl as T. unfold table_ok in T. rewrite forallb_forall in T.
    specialize (T d Hin). apply andb_true_iff in T as [T1 T2].
    unfold Fields.lower. rewrite T1.
    destruct (lookup_def tbl (ascii_lower (fd_name d))) as [d'|]; [|discriminate].
    cbn [fst]. apply bytes_eqb_eq. exact T2.
  - unfold canonical_mime. destruct (forallb is_tchar n) eqn:T.
    + assert (HL : lower (canon_loop true n) = lower n).
      { unfold Fields.lower. rewrite (tchars_ascii _ T), (tchars_ascii _ (canon_tchars _ true T)).
        apply canon_lower. }
      rewrite HL, E. cbn [fst]. rewrite (canon_tchars _ true T). apply canon_idem.
    + rewrite E. cbn [fst]. rewrite T. reflexivity.
Qed.

Theorem normalize_case_insensitive a b :
  all_ascii a = true -> all_ascii b = true -> ascii_lower a = ascii_lower b ->
  (forallb is_tchar a = true \/ lookup_def tbl (ascii_lower a) <> None) ->
  normalize_name a = normalize_name b.
Proof.
  intros Ha Hb Hl Hk. unfold Fields.normalize_name, normalize_def, Fields.lower.
  rewrite Ha, Hb, <- Hl.
  destruct (lookup_def tbl (ascii_lower a)) as [d|] eqn:E; cbn [fst]; [reflexivity|].
  destruct Hk as [Hk|Hk]; [|congruence].
  unfold canonical_mime. rewrite <- (tchars_same_lower a b Hl), Hk.
  apply canon_same_lower. exact Hl.
Qed.

End Normalize.

(* the table read from /repo on this run satisfies the check *)
Lemma gen_table_ok : table_ok field_table = true.
Proof. vm_compute. reflexivity. Qed.

(* names outside the token alphabet are returned unchanged by Go's canonicaliser, so
   they are NOT case-insensitive keys: "a b" and "A B" are different fields. *)
Example non_token_names_are_case_sensitive :
  normalize_name field_table (fun s => s) [97; 32; 98] <> normalize_name field_table (fun s => s) [65; 32; 66].
Proof. vm_compute. discriminate. Qed.
