(** RevisitRefProofs.v — C20, "the original's payload digest and the reference fields of the
    RevisitRef": what ToRevisitRecord puts into the remaining header fields of the revisit. *)
Require Import Model.Bytes Model.FieldDef Gen.FieldTable Model.Fields Model.Validate Model.Digest Model.Record Model.Revisit.
Require Import Proofs.BytesProofs Proofs.FieldsProofs Proofs.NormalizeProofs Proofs.GetSetProofs Proofs.RevisitProofs Proofs.TrimProofs.
From Coq Require Import Lia.
Local Open Scope N_scope.

Section Proofs.
Variable uni_lower uni_upper : bytes -> bytes.
Variable H : alg -> bytes -> bytes.
Variable profile_of : bytes -> profile_kind.
Notation key := (normalize_name field_table uni_lower).
Notation m_get := (m_get field_table uni_lower).
Notation m_set := (m_set field_table uni_lower).
Notation m_delete := (m_delete field_table uni_lower).
Notation m_has := (m_has field_table uni_lower).
Notation to_revisit := (to_revisit field_table uni_lower uni_upper H profile_of).

Ltac in_names := unfold names; cbn [In]; tauto.
Ltac other := apply (key_neq uni_lower); [in_names|in_names|discriminate].
Ltac gso := repeat first [ rewrite get_set_other by other | rewrite get_delete_other by other ].
Ltac gsif := rewrite ?(get_set_if_other uni_lower) by (first [in_names|discriminate]).
Ltac gsid := rewrite ?(get_set_id_other uni_lower) by (first [in_names|discriminate]).

(** the payload digest the revisit must carry: the original's; for a resource record without one,
    under the identical-payload profile, the original's block digest (its payload is its block) *)
Definition expected_payload_digest (r : record) (ref : revref) : bytes :=
  let h := r_fields r in
  match profile_of (rf_profile ref) with
  | PIdentical => if negb (m_has n_payload_digest h) && (r_type r =? 4) && m_has n_block_digest h
                  then m_get n_block_digest h else m_get n_payload_digest h
  | _ => m_get n_payload_digest h
  end.

Theorem revisit_carries_reference o r ref rev : to_revisit o r ref = Some rev ->
  m_get n_payload_digest (r_fields rev) = expected_payload_digest r ref /\
  (forall v, id_value (rf_id ref) = Some v -> m_get n_refers_to (r_fields rev) = v) /\
  (rf_uri ref <> [] -> m_get n_refers_to_uri (r_fields rev) = rf_uri ref) /\
  (rf_date ref <> [] -> m_get n_refers_to_date (r_fields rev) = rf_date ref) /\
  m_get n_truncated (r_fields rev) = s_length.
Proof.
  unfold Revisit.to_revisit, expected_payload_digest. intros HH.
  set (h := r_fields r) in *.
  set (cond := negb (m_has n_payload_digest h) && (r_type r =? 4) && m_has n_block_digest h) in *.
  assert (Hpd : forall h1,
    match profile_of (rf_profile ref) with
    | PIdentical => let h' := if cond then m_set n_payload_digest (m_get n_block_digest h) h else h in
                    if m_has n_payload_digest h' then Some h' else None
    | PNotModified => Some h
    | PUnknownProfile => None
    end = Some h1 ->
    m_get n_payload_digest h1 = match profile_of (rf_profile ref) with
                                | PIdentical => if cond then m_get n_block_digest h else m_get n_payload_digest h
                                | _ => m_get n_payload_digest h end).
  { intros h1 E. destruct (profile_of (rf_profile ref)); [|inversion E; reflexivity|discriminate].
    cbv zeta in E. destruct cond.
    - destruct (m_has n_payload_digest (m_set n_payload_digest (m_get n_block_digest h) h)); [|discriminate].
      inversion E; subst. apply get_set_same.
    - destruct (m_has n_payload_digest h); [|discriminate]. inversion E; subst. reflexivity. }
  destruct (match profile_of (rf_profile ref) with PIdentical => _ | PNotModified => _ | PUnknownProfile => _ end) as [h1|] eqn:E1; [|discriminate].
  specialize (Hpd h1 eq_refl).
  destruct (protocol_header (r_block r)) as [head|]; [|discriminate].
  destruct (new_digest uni_lower uni_upper (o_alg o) (o_enc o)) as [d|]; [|discriminate].
  inversion HH; subst; clear HH. cbn [r_fields].
  split; [|split; [|split; [|split]]].
  - gso. gsif. destruct (rf_id ref); [|gsid]; gso; exact Hpd.
  - intros v Hv. gso. gsif. unfold set_id. destruct (rf_id ref) as [|c t] eqn:Eid; [discriminate|]. rewrite Hv. apply get_set_same.
  - intros Hne. gso. gsif. unfold set_if at 1. destruct (rf_uri ref); [congruence|]. apply get_set_same.
  - intros Hne. gso. unfold set_if at 1. destruct (rf_date ref); [congruence|]. apply get_set_same.
  - gso. apply get_set_same.
Qed.

(** an id given without angle brackets is written with them and read back without *)
Lemma trim_angle_wrapped id : id <> [] -> edge_ok is_angle id = true ->
  id_value id = Some (60 :: id ++ [62]) /\ trim is_angle (60 :: id ++ [62]) = id.
Proof.
  intros Hne He. destruct id as [|c t] eqn:Eid; [congruence|].
  pose proof (edge_ok_head _ _ _ He) as Hc. pose proof (edge_ok_last _ _ c t eq_refl He) as Hl.
  assert (Hc60 : (c =? 60) = false) by (unfold is_angle in Hc; apply orb_false_iff in Hc; tauto).
  assert (Hl62 : (last (c :: t) 0 =? 62) = false) by (unfold is_angle in Hl; apply orb_false_iff in Hl; tauto).
  split.
  - unfold id_value. rewrite Hc60, Hl62. reflexivity.
  - unfold trim. cbn [trim_left]. replace (is_angle 60) with true by reflexivity.
    cbn [app]. rewrite (trim_left_keep _ _ _ Hc).
    change (c :: t ++ [62]) with ((c :: t) ++ [62]).
    rewrite trim_right_snoc_drop by reflexivity.
    destruct (nonempty_snoc (c :: t) ltac:(discriminate)) as (a & x & Ea). rewrite Ea in *.
    rewrite last_snoc in Hl. apply trim_right_snoc_keep. exact Hl.
Qed.

(** RevisitRef of the derived revisit is the reference it was made from *)
Theorem revisit_ref_reads_back o r ref rev : to_revisit o r ref = Some rev ->
  rf_id ref <> [] -> edge_ok is_angle (rf_id ref) = true -> rf_uri ref <> [] -> rf_date ref <> [] ->
  revisit_ref field_table uni_lower rev = Some ref.
Proof.
  intros HR Hid He Hu Hd.
  destruct (revisit_truthful uni_lower uni_upper H profile_of _ _ _ _ HR) as (head & d & _ & _ & _ & HT & _ & _ & _ & HP).
  destruct (revisit_carries_reference _ _ _ _ HR) as (_ & HI & HU & HD & _).
  destruct (trim_angle_wrapped _ Hid He) as [Hv Ht].
  unfold revisit_ref. rewrite HT. cbn [N.eqb Pos.eqb].
  rewrite HP, (HI _ Hv), Ht, (HU Hu), (HD Hd). destruct ref; reflexivity.
Qed.
End Proofs.
