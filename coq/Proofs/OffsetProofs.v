(** OffsetProofs.v — C04, last sentence, for plain streams: whatever offset Unmarshal reports for a
    record - also after skipping junk - is a position from which a fresh reader returns that same
    record (same record, same error state, same rest of the stream; only the finding about the
    skipped bytes is gone).  The record parser is blind to the findings it is handed. *)
Require Import Model.Bytes Model.FieldDef Model.Fields Model.Policy Model.Validate Model.Stream Model.HeaderParse
               Model.Digest Model.Record.
Require Import Proofs.BytesProofs Proofs.FieldsProofs Proofs.NormalizeProofs Proofs.ValidateProofs Proofs.RecordProofs
               Proofs.PolicyProofs Proofs.SyncProofs Proofs.SyncPipeProofs Proofs.MonoProofs Proofs.MonoPipeProofs.
From Coq Require Import Lia.
Local Open Scope N_scope.

Ltac split_magic4 :=
  repeat match goal with
         | |- context [match ?x with _ => _ end] =>
             match type of x with
             | bytes => destruct x
             | list N => destruct x
             | list byte => destruct x
             | N => destruct x
             | byte => destruct x
             | positive => destruct x
             end
         end.

(* a result without its findings *)
Definition ushape (u : uresult) : finding + (record * option finding * stream) :=
  match u with UNone e _ => inl e | URec r e _ s' => inr (r, e, s') end.

Section Offset.
Variable tbl : list fielddef.
Variable req : list bytes.
Variable uni_lower uni_upper : bytes -> bytes.
Variables time_ok ip_ok uri_ok wid_ok : bytes -> bool.
Variable mime_dec : bytes -> option bytes.
Variable H : alg -> bytes -> bytes.
Variables b32_decode b64_decode : bytes -> option bytes.
Variables http_req_ok http_resp_ok : bytes -> bool.
Hypothesis Htbl : table_ok tbl = true.
Notation parse_fields := (parse_fields tbl uni_lower mime_dec).
Notation validate_header := (validate_header tbl req uni_lower time_ok ip_ok uri_ok wid_ok).
Notation parse_block := (parse_block tbl uni_lower uni_upper mime_dec http_req_ok http_resp_ok).
Notation validate_digest := (validate_digest tbl uni_lower H b32_decode b64_decode).
Notation canonical := (canonical tbl uni_lower).
Notation stage_block := (stage_block tbl uni_lower uni_upper mime_dec H b32_decode b64_decode http_req_ok http_resp_ok).
Notation stage_fields := (stage_fields tbl req uni_lower uni_upper time_ok ip_ok uri_ok wid_ok mime_dec H b32_decode b64_decode http_req_ok http_resp_ok).
Notation stage_ver := (stage_ver tbl req uni_lower uni_upper time_ok ip_ok uri_ok wid_ok mime_dec H b32_decode b64_decode http_req_ok http_resp_ok).
Notation parse_record := (parse_record tbl req uni_lower uni_upper time_ok ip_ok uri_ok wid_ok mime_dec H b32_decode b64_decode http_req_ok http_resp_ok).
Notation unmarshal_plain := (unmarshal_plain tbl req uni_lower uni_upper time_ok ip_ok uri_ok wid_ok mime_dec H b32_decode b64_decode http_req_ok http_resp_ok).

Lemma parse_block_val o rt hs content f1 f2 :
  val (parse_block o rt hs content f1) = val (parse_block o rt hs content f2).
Proof.
  unfold Record.parse_block.
  destruct (digest_from_field _ _ _ _ _ n_block_digest) as [bd|]; [|reflexivity].
  destruct (digest_from_field _ _ _ _ _ n_payload_digest) as [pd|]; [|reflexivity].
  cbv zeta.
  destruct (o_skip_parse o); [reflexivity|].
  destruct (negb (N.land rt 206 =? 0) && _).
  - destruct (length content <? 4)%nat; [reflexivity|].
    destruct (http_header content) as [hb found].
    assert (Hk1 : forall g1 g2,
      val (if if has_prefix s_HTTP hb
         then http_resp_ok (if negb found && negb (o_fix_syntax o) then hb ++ CRLF else if negb found && o_fix_syntax o then hb ++ CRLF else hb)
         else http_req_ok (if negb found && negb (o_fix_syntax o) then hb ++ CRLF else if negb found && o_fix_syntax o then hb ++ CRLF else hb)
      then Ok (if negb found && o_fix_syntax o then m_set tbl uni_lower n_content_length (itoa (wrap64 (cl_value tbl uni_lower hs + 2))) hs else hs,
               mkblk (if has_prefix s_HTTP hb then BHttpResp else BHttpReq)
                     (if negb found && o_fix_syntax o then hb ++ CRLF else hb) (skipn (length hb) content),
               feed bd ((if negb found && o_fix_syntax o then hb ++ CRLF else hb) ++ skipn (length hb) content),
               Some (feed pd (skipn (length hb) content))) g1
      else site (o_block o) (KBlock, []) g1 (fun fnd2 =>
             Ok (if negb found && o_fix_syntax o then m_set tbl uni_lower n_content_length (itoa (wrap64 (cl_value tbl uni_lower hs + 2))) hs else hs,
                 mkblk (if has_prefix s_HTTP hb then BHttpResp else BHttpReq)
                       (if negb found && o_fix_syntax o then hb ++ CRLF else hb) (skipn (length hb) content),
                 feed bd ((if negb found && o_fix_syntax o then hb ++ CRLF else hb) ++ skipn (length hb) content),
                 Some (feed pd (skipn (length hb) content))) fnd2)) =
      val (if if has_prefix s_HTTP hb
         then http_resp_ok (if negb found && negb (o_fix_syntax o) then hb ++ CRLF else if negb found && o_fix_syntax o then hb ++ CRLF else hb)
         else http_req_ok (if negb found && negb (o_fix_syntax o) then hb ++ CRLF else if negb found && o_fix_syntax o then hb ++ CRLF else hb)
      then Ok (if negb found && o_fix_syntax o then m_set tbl uni_lower n_content_length (itoa (wrap64 (cl_value tbl uni_lower hs + 2))) hs else hs,
               mkblk (if has_prefix s_HTTP hb then BHttpResp else BHttpReq)
                     (if negb found && o_fix_syntax o then hb ++ CRLF else hb) (skipn (length hb) content),
               feed bd ((if negb found && o_fix_syntax o then hb ++ CRLF else hb) ++ skipn (length hb) content),
               Some (feed pd (skipn (length hb) content))) g2
      else site (o_block o) (KBlock, []) g2 (fun fnd2 =>
             Ok (if negb found && o_fix_syntax o then m_set tbl uni_lower n_content_length (itoa (wrap64 (cl_value tbl uni_lower hs + 2))) hs else hs,
                 mkblk (if has_prefix s_HTTP hb then BHttpResp else BHttpReq)
                       (if negb found && o_fix_syntax o then hb ++ CRLF else hb) (skipn (length hb) content),
                 feed bd ((if negb found && o_fix_syntax o then hb ++ CRLF else hb) ++ skipn (length hb) content),
                 Some (feed pd (skipn (length hb) content))) fnd2))).
    { intros g1 g2. destruct (if has_prefix s_HTTP hb then _ else _); [reflexivity|]. apply site_val. intros; reflexivity. }
    destruct found; [apply Hk1|apply site_val; intros; apply Hk1].
  - destruct (rt =? 32); [reflexivity|].
    destruct (has_prefix s_app_warcfields _); [|reflexivity].
    destruct (HeaderParse.parse_fields tbl uni_lower mime_dec (o_syntax o) (mkst content TEOF) []) as [[wf s'] bv|e bv]; cbn [findings_of].
    + destruct bv; [reflexivity|]. destruct (o_block o); reflexivity.
    + destruct bv; [reflexivity|]. destruct (o_block o); reflexivity.
Qed.

Lemma trailer_val o s f1 f2 : val (trailer o s f1) = val (trailer o s f2).
Proof.
  unfold trailer. destruct (peek 4 s) as [buf e]. destruct (bytes_eqb buf CRLFCRLF); [reflexivity|].
  apply site_val. intros; reflexivity.
Qed.

Lemma stage_block_blind o vt vid rt hs1 s2 f1 f2 :
  ushape (stage_block o vt vid rt hs1 s2 f1) = ushape (stage_block o vt vid rt hs1 s2 f2).
Proof.
  unfold PolicyProofs.stage_block. cbv zeta.
  assert (Hmain : forall content s3,
    ushape match parse_block o rt hs1 content f1 with
           | Err e5 fnd5 => URec (mkrec vt vid rt hs1 (mkblk BGeneric [] content)) (Some e5) fnd5 s3
           | Ok (hs2, blk, bd, pd) fnd5 =>
               match validate_digest o rt hs2 blk bd pd (match bk blk with BWarcFields | BRevisit => true | _ => false end) fnd5 with
               | Err e6 fnd6 => URec (mkrec vt vid rt hs2 blk) (Some e6) fnd6 s3
               | Ok hs3 fnd6 =>
                   match trailer o s3 fnd6 with
                   | Err e7 fnd7 => URec (mkrec vt vid rt hs3 blk) (Some e7) fnd7 s3
                   | Ok s4 fnd7 => URec (mkrec vt vid rt hs3 blk) None fnd7 s4
                   end
               end
           end =
    ushape match parse_block o rt hs1 content f2 with
           | Err e5 fnd5 => URec (mkrec vt vid rt hs1 (mkblk BGeneric [] content)) (Some e5) fnd5 s3
           | Ok (hs2, blk, bd, pd) fnd5 =>
               match validate_digest o rt hs2 blk bd pd (match bk blk with BWarcFields | BRevisit => true | _ => false end) fnd5 with
               | Err e6 fnd6 => URec (mkrec vt vid rt hs2 blk) (Some e6) fnd6 s3
               | Ok hs3 fnd6 =>
                   match trailer o s3 fnd6 with
                   | Err e7 fnd7 => URec (mkrec vt vid rt hs3 blk) (Some e7) fnd7 s3
                   | Ok s4 fnd7 => URec (mkrec vt vid rt hs3 blk) None fnd7 s4
                   end
               end
           end).
  { intros content s3. pose proof (parse_block_val o rt hs1 content f1 f2) as Hpb.
    destruct (parse_block o rt hs1 content f1) as [[[[hs2 blk] bd] pd] g1|e1 g1];
      destruct (parse_block o rt hs1 content f2) as [[[[hs2' blk'] bd'] pd'] g2|e2 g2]; cbn [val] in Hpb; try discriminate.
    - inversion Hpb; subst hs2' blk' bd' pd'.
      pose proof (validate_digest_val tbl uni_lower H b32_decode b64_decode o rt hs2 blk bd pd
                    (match bk blk with BWarcFields | BRevisit => true | _ => false end) g1 g2) as Hvd.
      destruct (validate_digest o rt hs2 blk bd pd _ g1) as [hs3 h1|e6 h1];
        destruct (validate_digest o rt hs2 blk bd pd _ g2) as [hs3' h2|e6' h2]; cbn [val] in Hvd; try discriminate.
      + inversion Hvd; subst hs3'.
        pose proof (trailer_val o s3 h1 h2) as Htr.
        destruct (trailer o s3 h1) as [s4 k1|e7 k1]; destruct (trailer o s3 h2) as [s4' k2|e7' k2]; cbn [val] in Htr; try discriminate;
          inversion Htr; subst; reflexivity.
      + inversion Hvd; subst; reflexivity.
    - inversion Hpb; subst; reflexivity. }
  destruct (stail s2); destruct (_ || _)%bool; try apply Hmain; reflexivity.
Qed.

Lemma stage_fields_blind o vt vid s1 f1 f2 :
  ushape (stage_fields o vt vid s1 f1) = ushape (stage_fields o vt vid s1 f2).
Proof.
  unfold PolicyProofs.stage_fields.
  pose proof (parse_fields_val tbl uni_lower mime_dec (o_syntax o) s1 f1 f2) as Hpf.
  destruct (HeaderParse.parse_fields tbl uni_lower mime_dec (o_syntax o) s1 f1) as [[hs s2] g1|e1 g1] eqn:E1;
    destruct (HeaderParse.parse_fields tbl uni_lower mime_dec (o_syntax o) s1 f2) as [[hs' s2'] g2|e2 g2] eqn:E2;
    cbn [val] in Hpf; try discriminate; [|inversion Hpf; subst; reflexivity].
  inversion Hpf; subst hs' s2'.
  assert (HC : canonical hs) by (eapply (parse_fields_canonical tbl uni_lower mime_dec Htbl); exact E1).
  pose proof (validate_header_val tbl req uni_lower time_ok ip_ok uri_ok wid_ok (o_spec o) (o_unknown o) vid hs g1 g2 HC) as Hvh.
  destruct (validate_header (o_spec o) (o_unknown o) vid hs g1) as [[rt h1] k1|e3 k1];
    destruct (validate_header (o_spec o) (o_unknown o) vid hs g2) as [[rt' h1'] k2|e3' k2]; cbn [val] in Hvh; try discriminate.
  - inversion Hvh; subst rt' h1'. apply stage_block_blind.
  - inversion Hvh; subst; reflexivity.
Qed.

Lemma stage_ver_blind o l s1 f1 f2 : ushape (stage_ver o l s1 f1) = ushape (stage_ver o l s1 f2).
Proof.
  unfold PolicyProofs.stage_ver. cbv zeta. destruct (_ =? 0); [|apply stage_fields_blind].
  destruct (o_spec o); [apply stage_fields_blind|apply stage_fields_blind|reflexivity].
Qed.

Theorem parse_record_blind o s f1 f2 : ushape (parse_record o s f1) = ushape (parse_record o s f2).
Proof.
  rewrite !parse_record_stages. destruct (read_bytes LF (discard 5 s)) as [[l e] s1].
  destruct e as [[|]|]; try reflexivity.
  destruct (_ || _)%bool; [|apply stage_ver_blind].
  destruct (o_syntax o); [apply stage_ver_blind|apply stage_ver_blind|reflexivity].
Qed.

(** ** the search for the record start stops on the magic bytes, at the offset it reports *)
Lemma discard_0 s : discard 0 s = s.
Proof. destruct s; reflexivity. Qed.

Lemma skipn_add {A} a : forall b (l : list A), skipn a (skipn b l) = skipn (b + a) l.
Proof.
  intros b. induction b as [|b IH]; intros l; [reflexivity|]. destruct l as [|x t]; [destruct a; reflexivity|].
  cbn [skipn Nat.add]. apply IH.
Qed.

Lemma discard_discard a b s : discard a (discard b s) = discard (b + a) s.
Proof. unfold discard. cbn [sdata stail]. rewrite skipn_add. reflexivity. Qed.

Lemma find_start_warc_inv p : forall fuel s off off' s1,
  find_start fuel p s off = (FoundWarc, off', s1) ->
  (off <= off')%nat /\ s1 = discard (off' - off) s /\ exists magic, peek 5 s1 = (magic, None) /\ bytes_eqb magic s_WARC = true.
Proof.
  induction fuel as [|f IH]; intros s off off' s1 Hf; cbn [find_start] in Hf;
    destruct (peek 5 s) as [magic e] eqn:Ep; destruct e as [t|]; try discriminate;
    destruct (bytes_eqb magic s_WARC) eqn:Em.
  - inversion Hf; subst. rewrite Nat.sub_diag, discard_0. split; [lia|]. split; [reflexivity|]. exists magic. split; assumption.
  - exfalso. revert Hf. split_magic4; destruct p; discriminate.
  - inversion Hf; subst. rewrite Nat.sub_diag, discard_0. split; [lia|]. split; [reflexivity|]. exists magic. split; assumption.
  - assert (Hrec : find_start f p (discard 1 s) (S off) = (FoundWarc, off', s1)).
    { revert Hf. split_magic4; destruct p; try discriminate; intros Hf; exact Hf. }
    destruct (IH _ _ _ _ Hrec) as (Hle & Hs1 & Hm). split; [lia|]. split; [|exact Hm].
    rewrite Hs1, discard_discard. f_equal. lia.
Qed.

(** * C04: a reported offset is a position from which a fresh reader returns that same record *)
Theorem reported_offset_is_a_record_position o s off r e fnd s' :
  unmarshal_plain o s = (off, URec r e fnd s') ->
  exists fnd', unmarshal_plain o (discard off s) = (0%nat, URec r e fnd' s').
Proof.
  unfold Record.unmarshal_plain.
  destruct (find_start (S (length (sdata s))) (o_syntax o) s 0) as [[f off0] s1] eqn:Ef.
  destruct f as [| |[|]|]; try (intros HH; discriminate).
  intros HH. inversion HH as [[Hoff Hu]]. subst off0. clear HH.
  destruct (find_start_warc_inv _ _ _ _ _ _ Ef) as (_ & Hs1 & magic & Hpk & Hm).
  rewrite Nat.sub_0_r in Hs1. rewrite <- Hs1.
  assert (Hf2 : find_start (S (length (sdata s1))) (o_syntax o) s1 0 = (FoundWarc, 0%nat, s1)).
  { cbn [find_start]. rewrite Hpk, Hm. reflexivity. }
  rewrite Hf2. cbn [Nat.eqb negb]. rewrite Bool.andb_false_r.
  match goal with |- exists _, (_, ?u) = _ =>
    assert (E : ushape (URec r e fnd s') = ushape u);
    [rewrite <- Hu; apply parse_record_blind|revert E; generalize u; intros u0 E] end.
  destruct u0 as [e0 g0|r0 e0 g0 s0]; cbn [ushape] in E; [discriminate|].
  inversion E; subst. eexists; reflexivity.
Qed.

End Offset.
