(** The sequential file writer: offsets are positions, records are never split, every file starts
    with its warcinfo record, the fit rule, callback arguments (C04, C13). *)
Require Import Model.Bytes Model.FieldDef Model.Fields Model.Validate Model.Record Model.Writer.
Require Import Proofs.BytesProofs.
From Coq Require Import Lia FinFun.
Local Open Scope Z_scope.

Section Proofs.
Variable tbl : list fielddef.
Variable uni_lower : bytes -> bytes.
Variable conf : wconf.
Variable name_of : nat -> bytes.
Hypothesis name_of_inj : forall a b, name_of a = name_of b -> a = b.
Variable scale : Z -> Z.
Variable zsize : bytes -> Z.
Variable info_rec : bytes -> record.

Notation esize := (esize conf zsize).
Notation fsize := (fsize conf zsize).
Notation w_write := (w_write tbl uni_lower conf name_of scale zsize info_rec).
Notation w_create := (w_create tbl uni_lower conf name_of zsize info_rec).
Notation w_close := (w_close).
Notation w_step := (w_step tbl uni_lower conf name_of scale zsize info_rec).
Notation w_run := (w_run tbl uni_lower conf name_of scale zsize info_rec).
Notation write_batch := (write_batch tbl uni_lower conf name_of scale zsize info_rec).
Notation stamp := (stamp tbl uni_lower).

Definition sizes (es : list bytes) : Z := fold_right (fun e acc => esize e + acc) 0 es.
Lemma sizes_app a b : sizes (a ++ b) = sizes a + sizes b.
Proof.
  induction a as [|e t IH]; [reflexivity|].
  change (sizes ((e :: t) ++ b)) with (esize e + sizes (t ++ b)). change (sizes (e :: t)) with (esize e + sizes t).
  rewrite IH. lia.
Qed.
Lemma fsize_sizes f : fsize f = sizes (f_entries f).
Proof. reflexivity. Qed.

Definition names (fs : list wfile) : list bytes := map f_name fs.
Definition closed (fs : list wfile) : Prop := Forall (fun g => f_open g = false) fs.

(* the file a record was written to, and where *)
Definition located (fs : list wfile) (name : bytes) (off : Z) (e : bytes) : Prop :=
  exists f before after, In f fs /\ f_name f = name /\ f_entries f = before ++ e :: after /\ off = sizes before.

Definition Inv (st : wstate) : Prop :=
  names (w_files st) = map name_of (seq 0 (w_serial st)) /\
  match w_cur st with
  | Some n => exists pre f, w_files st = pre ++ [f] /\ f_name f = n /\ f_open f = true /\
                            fsize f = w_size st /\ closed pre
  | None => closed (w_files st)
  end.

Lemma name_fresh st : names (w_files st) = map name_of (seq 0 (w_serial st)) ->
  find_file (name_of (w_serial st)) (w_files st) = None.
Proof.
  intros HN. unfold find_file. destruct (find _ (w_files st)) as [f|] eqn:E; [|reflexivity].
  apply find_some in E as [Hin Hn]. apply bytes_eqb_eq in Hn.
  assert (Hin' : In (f_name f) (names (w_files st))) by (apply in_map; exact Hin).
  rewrite HN, Hn in Hin'. apply in_map_iff in Hin' as (k & Hk & Hs). apply name_of_inj in Hk. subst k.
  apply in_seq in Hs. lia.
Qed.

Lemma names_nodup st : names (w_files st) = map name_of (seq 0 (w_serial st)) -> NoDup (names (w_files st)).
Proof.
  intros ->. apply Injective_map_NoDup; [exact name_of_inj|apply seq_NoDup].
Qed.

Lemma append_to_last n e pre f : f_name f = n -> ~ In n (names pre) ->
  append_to n e (pre ++ [f]) = pre ++ [mkfile (f_name f) (f_entries f ++ [e]) (f_open f)].
Proof.
  intros Hf. induction pre as [|g t IH]; intros Hn; cbn [append_to app].
  - rewrite Hf, bytes_eqb_refl. reflexivity.
  - destruct (bytes_eqb (f_name g) n) eqn:E.
    + apply bytes_eqb_eq in E. exfalso. apply Hn. left. exact E.
    + rewrite IH; [reflexivity|]. intros Hc. apply Hn. right. exact Hc.
Qed.

Lemma finalize_last n pre f : f_name f = n -> ~ In n (names pre) ->
  finalize n (pre ++ [f]) = pre ++ [mkfile (f_name f) (f_entries f) false].
Proof.
  intros Hf. induction pre as [|g t IH]; intros Hn; cbn [finalize app].
  - rewrite Hf, bytes_eqb_refl. reflexivity.
  - destruct (bytes_eqb (f_name g) n) eqn:E.
    + apply bytes_eqb_eq in E. exfalso. apply Hn. left. exact E.
    + rewrite IH; [reflexivity|]. intros Hc. apply Hn. right. exact Hc.
Qed.

Lemma last_not_in_pre fs pre f : NoDup (names fs) -> fs = pre ++ [f] -> ~ In (f_name f) (names pre).
Proof.
  intros HD ->. unfold names in *. rewrite map_app in HD. cbn in HD.
  apply NoDup_remove_2 in HD. rewrite app_nil_r in HD. exact HD.
Qed.

Lemma names_append_to n e fs : names (append_to n e fs) = names fs.
Proof.
  unfold names. induction fs as [|g t IH]; [reflexivity|]. cbn [append_to].
  destruct (bytes_eqb (f_name g) n); cbn [map f_name]; [reflexivity|rewrite IH; reflexivity].
Qed.
Lemma names_finalize n fs : names (finalize n fs) = names fs.
Proof.
  unfold names. induction fs as [|g t IH]; [reflexivity|]. cbn [finalize].
  destruct (bytes_eqb (f_name g) n); cbn [map f_name]; [reflexivity|rewrite IH; reflexivity].
Qed.

(** close *)
Lemma w_close_inv st : Inv st -> Inv (w_close st) /\ w_cur (w_close st) = None.
Proof.
  intros [HN HC]. unfold Writer.w_close. destruct (w_cur st) as [n|] eqn:EC; [|split; [split; [exact HN|rewrite EC; exact HC]|exact EC]].
  destruct HC as (pre & f & HF & Hn & Ho & Hs & Hp).
  split; [|reflexivity]. split; cbn [w_files w_serial w_cur].
  - rewrite names_finalize. exact HN.
  - rewrite HF, (finalize_last n pre f Hn).
    + unfold closed. apply Forall_app. split; [exact Hp|]. constructor; [reflexivity|constructor].
    + rewrite <- Hn. apply (last_not_in_pre (w_files st)); [apply names_nodup; exact HN|exact HF].
Qed.

(** the callback receives the final name, the true size and the warcinfo id *)
Lemma w_close_callback st n : Inv st -> w_cur st = Some n ->
  exists pre f, w_files st = pre ++ [f] /\ f_name f = n /\
    w_effects (w_close st) = w_effects st ++ [EClose n; ERename n; ECallback n (fsize f) (w_info st)].
Proof.
  intros [HN HC] EC. rewrite EC in HC. destruct HC as (pre & f & HF & Hn & Ho & Hs & Hp).
  exists pre, f. split; [exact HF|]. split; [exact Hn|]. unfold Writer.w_close. rewrite EC. cbn [w_effects]. rewrite Hs. reflexivity.
Qed.

Lemma fresh_not_in st : names (w_files st) = map name_of (seq 0 (w_serial st)) ->
  ~ In (name_of (w_serial st)) (names (w_files st)).
Proof.
  intros HN Hin. rewrite HN in Hin. apply in_map_iff in Hin as (k & Hk & Hs).
  apply name_of_inj in Hk. subst k. apply in_seq in Hs. lia.
Qed.

(** createFile (with its warcinfo record) *)
Lemma w_create_spec st : Inv st -> w_cur st = None ->
  exists st' f, w_create st = Some st' /\ Inv st' /\
    w_files st' = w_files st ++ [f] /\ f_name f = name_of (w_serial st) /\ w_cur st' = Some (f_name f) /\
    w_size st' = fsize f /\ w_serial st' = S (w_serial st) /\
    f_entries f = (if c_warcinfo conf then [marshal (info_rec (f_name f))] else []).
Proof.
  intros [HN HC] EC. rewrite EC in HC. unfold Writer.w_create. rewrite (name_fresh st HN).
  set (n := name_of (w_serial st)).
  assert (Hfresh : ~ In n (names (w_files st))) by (apply fresh_not_in; exact HN).
  assert (HN' : forall f, f_name f = n -> names (w_files st ++ [f]) = map name_of (seq 0 (S (w_serial st)))).
  { intros f Hf. unfold names in *. rewrite map_app, HN, seq_S, map_app. cbn. rewrite Hf. reflexivity. }
  destruct (c_warcinfo conf) eqn:EW.
  - set (e := marshal (info_rec n)).
    eexists. exists (mkfile n [e] true). split; [reflexivity|].
    assert (HA : append_to n e (w_files st ++ [mkfile n [] true]) = w_files st ++ [mkfile n [e] true]).
    { rewrite (append_to_last n e (w_files st) (mkfile n [] true) eq_refl Hfresh). reflexivity. }
    cbn [w_files w_cur w_size w_serial f_name f_entries]. rewrite HA.
    split.
    + split; cbn [w_files w_cur w_serial w_size].
      * apply HN'. reflexivity.
      * exists (w_files st), (mkfile n [e] true). repeat split; try reflexivity; try exact HC.
        unfold Writer.fsize. cbn. lia.
    + repeat split; try reflexivity. unfold Writer.fsize. cbn. lia.
  - eexists. exists (mkfile n [] true). split; [reflexivity|].
    cbn [w_files w_cur w_size w_serial f_name f_entries].
    split.
    + split; cbn [w_files w_cur w_serial w_size].
      * apply HN'. reflexivity.
      * exists (w_files st), (mkfile n [] true). repeat split; try reflexivity; exact HC.
    + repeat split; reflexivity.
Qed.

(** the fit test of Write: either the state itself or the state with the current file closed *)
Definition fit_state (st : wstate) (r : record) : option wstate :=
  match w_cur st with
  | Some _ =>
      if 0 <? c_max conf then
        match m_get tbl uni_lower n_content_length (r_fields r) with
        | [] => Some st
        | s => match atoi s with
               | None => None
               | Some size =>
                   let size' := if c_compress conf then scale size else size in
                   if (0 <? w_size st) && (c_max conf <? w_size st + size') then Some (w_close st) else Some st
               end
        end
      else Some st
  | None => Some st
  end.

Lemma fit_state_inv st r st1 : Inv st -> fit_state st r = Some st1 -> Inv st1 /\ (st1 = st \/ st1 = w_close st).
Proof.
  intros HI. unfold fit_state.
  destruct (w_cur st); [|intros HH; inversion HH; subst; split; [exact HI|left; reflexivity]].
  destruct (0 <? c_max conf); [|intros HH; inversion HH; subst; split; [exact HI|left; reflexivity]].
  destruct (m_get tbl uni_lower n_content_length (r_fields r)) as [|c0 t0]; [intros HH; inversion HH; subst; split; [exact HI|left; reflexivity]|].
  destruct (atoi (c0 :: t0)) as [size|]; [|discriminate].
  destruct ((0 <? w_size st) && _); intros HH; inversion HH; subst.
  - split; [apply w_close_inv; exact HI|right; reflexivity].
  - split; [exact HI|left; reflexivity].
Qed.

(** Write: where the record lands *)
Theorem w_write_spec st r st' resp r' : Inv st -> w_write st r = (st', resp, r') ->
  Inv st' /\
  (rs_err resp = false ->
   exists pre f before,
     w_files st' = pre ++ [f] /\ f_name f = rs_name resp /\ w_cur st' = Some (rs_name resp) /\
     f_entries f = before ++ [marshal r'] /\ rs_off resp = sizes before /\
     rs_n resp = Z.of_nat (length (marshal r')) /\ r' = stamp (w_info st') r).
Proof.
  intros HI. unfold Writer.w_write. fold (fit_state st r).
  destruct (fit_state st r) as [st1|] eqn:EF.
  2:{ intros HH; inversion HH; subst. split; [exact HI|]. cbn. discriminate. }
  destruct (fit_state_inv st r st1 HI EF) as [HI1 _].
  assert (Hst2 : exists st2, (match w_cur st1 with Some _ => Some st1 | None => w_create st1 end) = Some st2 /\ Inv st2 /\
                  exists n, w_cur st2 = Some n).
  { destruct (w_cur st1) as [n|] eqn:EC.
    - exists st1. split; [reflexivity|]. split; [exact HI1|]. exists n. exact EC.
    - destruct (w_create_spec st1 HI1 EC) as (st2 & f & E2 & HI2 & _ & _ & Hc & _).
      exists st2. split; [exact E2|]. split; [exact HI2|]. eexists. exact Hc. }
  destruct Hst2 as (st2 & E2 & HI2 & n & EC2). rewrite E2, EC2.
  intros HH; inversion HH; subst; clear HH.
  destruct HI2 as [HN2 HC2]. rewrite EC2 in HC2. destruct HC2 as (pre & f & HF & Hn & Ho & Hs & Hp).
  set (e := marshal (stamp (w_info st2) r)).
  assert (Hnotin : ~ In n (names pre)).
  { rewrite <- Hn. apply (last_not_in_pre (w_files st2)); [apply names_nodup; exact HN2|exact HF]. }
  assert (HA : append_to n e (w_files st2) = pre ++ [mkfile (f_name f) (f_entries f ++ [e]) (f_open f)]).
  { rewrite HF. apply append_to_last; assumption. }
  split.
  - split; cbn [w_files w_cur w_serial w_size].
    + rewrite names_append_to. exact HN2.
    + rewrite HA. exists pre, (mkfile (f_name f) (f_entries f ++ [e]) (f_open f)).
      repeat split; try assumption; cbn [f_name f_open f_entries]; try assumption.
      unfold Writer.fsize in *. cbn [f_entries]. fold (sizes (f_entries f ++ [e])) (sizes (f_entries f)) in *.
      rewrite sizes_app. cbn [sizes fold_right]. lia.
  - intros _. cbn [w_files w_cur w_info rs_name rs_off rs_n]. rewrite HA.
    exists pre, (mkfile (f_name f) (f_entries f ++ [e]) (f_open f)), (f_entries f).
    repeat split; try assumption; try reflexivity. rewrite <- Hs. reflexivity.
Qed.

(** the fit rule: a record is appended to a file that already holds data only if it fits *)
Theorem fit_rule st r st' resp r' size :
  w_write st r = (st', resp, r') -> rs_err resp = false ->
  w_serial st' = w_serial st ->                         (* no new file was started *)
  0 < c_max conf -> w_cur st <> None ->
  atoi (m_get tbl uni_lower n_content_length (r_fields r)) = Some size ->
  m_get tbl uni_lower n_content_length (r_fields r) <> [] ->
  Inv st ->
  w_size st <= 0 \/ w_size st + (if c_compress conf then scale size else size) <= c_max conf.
Proof.
  intros HW HE HS HM HC HA HNE HI. unfold Writer.w_write in HW.
  destruct (w_cur st) as [n|] eqn:EC; [|congruence].
  assert (E0 : (0 <? c_max conf) = true) by (apply Z.ltb_lt; exact HM). rewrite E0 in HW.
  destruct (m_get tbl uni_lower n_content_length (r_fields r)) as [|c0 t0] eqn:EG; [congruence|].
  rewrite HA in HW.
  destruct ((0 <? w_size st) && (c_max conf <? w_size st + (if c_compress conf then scale size else size))) eqn:EB.
  - (* the file was closed: a new one is created, so the serial grows *)
    exfalso. destruct (w_close_inv st HI) as [HIc ECc]. rewrite ECc in HW.
    destruct (w_create_spec (w_close st) HIc ECc) as (st2 & f & E2 & _ & _ & _ & Hc2 & _ & HS2 & _).
    rewrite E2, Hc2 in HW. inversion HW; subst. cbn [w_serial] in HS.
    unfold Writer.w_close in HS2. rewrite EC in HS2. cbn [w_serial] in HS2. lia.
  - apply andb_false_iff in EB as [EB|EB].
    + left. apply Z.ltb_ge in EB. exact EB.
    + right. apply Z.ltb_ge in EB. exact EB.
Qed.

(** once written, a record stays where it is: later operations only append at the end of the
    current file, finalize files or create new ones *)
Lemma located_append n e' fs name off e : located fs name off e -> located (append_to n e' fs) name off e.
Proof.
  intros (f & before & after & Hin & Hn & He & Ho).
  induction fs as [|g t IH]; [destruct Hin|]. cbn [append_to].
  destruct (bytes_eqb (f_name g) n) eqn:E.
  - destruct Hin as [<-|Hin].
    + exists (mkfile (f_name g) (f_entries g ++ [e']) (f_open g)), before, (after ++ [e']).
      split; [left; reflexivity|]. split; [exact Hn|]. split; [|exact Ho].
      cbn [f_entries]. rewrite He, <- app_assoc. reflexivity.
    + exists f, before, after. split; [right; exact Hin|]. repeat split; assumption.
  - destruct Hin as [<-|Hin].
    + exists g, before, after. split; [left; reflexivity|]. repeat split; assumption.
    + destruct (IH Hin) as (f2 & b2 & a2 & Hin2 & R). exists f2, b2, a2. split; [right; exact Hin2|exact R].
Qed.

Lemma located_finalize n fs name off e : located fs name off e -> located (finalize n fs) name off e.
Proof.
  intros (f & before & after & Hin & Hn & He & Ho).
  induction fs as [|g t IH]; [destruct Hin|]. cbn [finalize].
  destruct (bytes_eqb (f_name g) n) eqn:E.
  - destruct Hin as [<-|Hin].
    + exists (mkfile (f_name g) (f_entries g) false), before, after. split; [left; reflexivity|]. repeat split; assumption.
    + exists f, before, after. split; [right; exact Hin|]. repeat split; assumption.
  - destruct Hin as [<-|Hin].
    + exists g, before, after. split; [left; reflexivity|]. repeat split; assumption.
    + destruct (IH Hin) as (f2 & b2 & a2 & Hin2 & R). exists f2, b2, a2. split; [right; exact Hin2|exact R].
Qed.

Lemma located_more fs g name off e : located fs name off e -> located (fs ++ [g]) name off e.
Proof.
  intros (f & before & after & Hin & R). exists f, before, after. split; [apply in_or_app; left; exact Hin|exact R].
Qed.

Lemma w_close_located st name off e : located (w_files st) name off e -> located (w_files (w_close st)) name off e.
Proof.
  intros HL. unfold Writer.w_close. destruct (w_cur st); [|exact HL]. cbn [w_files]. apply located_finalize. exact HL.
Qed.

Lemma w_write_located st r st' resp r' name off e : Inv st -> w_write st r = (st', resp, r') ->
  located (w_files st) name off e -> located (w_files st') name off e.
Proof.
  intros HI HW HL. unfold Writer.w_write in HW. fold (fit_state st r) in HW.
  destruct (fit_state st r) as [st1|] eqn:EF; [|inversion HW; subst; exact HL].
  destruct (fit_state_inv st r st1 HI EF) as [HI1 Hst1].
  assert (HL1 : located (w_files st1) name off e).
  { destruct Hst1 as [->| ->]; [exact HL|apply w_close_located; exact HL]. }
  destruct (w_cur st1) as [n|] eqn:EC.
  - rewrite EC in HW. inversion HW; subst. cbn [w_files]. apply located_append. exact HL1.
  - destruct (w_create_spec st1 HI1 EC) as (st2 & f & E2 & HI2 & HF2 & _ & Hc2 & _).
    rewrite E2, Hc2 in HW. inversion HW; subst. cbn [w_files]. apply located_append. rewrite HF2. apply located_more. exact HL1.
Qed.

(** every reachable state satisfies the invariant, and every acknowledged record of a run is, in
    the end, exactly one entry of exactly one file, at the reported offset *)
Definition good_resp (fs : list wfile) (resp : response) : Prop :=
  rs_err resp = false -> exists e, located fs (rs_name resp) (rs_off resp) e /\ rs_n resp = Z.of_nat (length e).

Lemma good_resp_mono_write st r st' resp' r' resp : Inv st -> w_write st r = (st', resp', r') ->
  good_resp (w_files st) resp -> good_resp (w_files st') resp.
Proof.
  intros HI HW HG HE. destruct (HG HE) as (e & HL & Hn). exists e. split; [|exact Hn].
  apply (w_write_located st r st' resp' r'); assumption.
Qed.

Lemma write_batch_spec idxs : forall st recs st' recs' resps, Inv st ->
  write_batch st recs idxs = (st', recs', resps) ->
  Inv st' /\ Forall (good_resp (w_files st')) resps /\
  (forall resp, good_resp (w_files st) resp -> good_resp (w_files st') resp).
Proof.
  induction idxs as [|i t IH]; intros st recs st' recs' resps HI HB; cbn [Writer.write_batch] in HB.
  - inversion HB; subst. split; [exact HI|]. split; [constructor|auto].
  - destruct (nth_error recs i) as [r|]; [|apply (IH st recs st' recs' resps); assumption].
    destruct (w_write st r) as [[st1 resp] r1] eqn:EW.
    destruct (write_batch st1 (set_nth i r1 recs) t) as [[st2 recs2] resps2] eqn:EB.
    inversion HB; subst; clear HB.
    destruct (w_write_spec st r st1 resp r1 HI EW) as [HI1 HR].
    destruct (IH st1 _ _ _ _ HI1 EB) as (HI2 & HF & HM).
    split; [exact HI2|]. split.
    + constructor; [|exact HF]. apply HM. intros HE.
      destruct (HR HE) as (pre & f & before & HFl & Hn & _ & He & Ho & Hlen & _).
      exists (marshal r1). split; [|exact Hlen].
      exists f, before, []. split; [rewrite HFl; apply in_or_app; right; left; reflexivity|].
      repeat split; assumption.
    + intros resp0 HG. apply HM. apply (good_resp_mono_write st r st1 resp r1); assumption.
Qed.

Theorem w_run_spec ops : forall st recs stf all, Inv st -> w_run st recs ops = (stf, all) ->
  Inv stf /\ Forall (Forall (good_resp (w_files stf))) all /\
  (forall resp, good_resp (w_files st) resp -> good_resp (w_files stf) resp).
Proof.
  induction ops as [|o t IH]; intros st recs stf all HI HR; cbn [Writer.w_run] in HR.
  - inversion HR; subst. split; [exact HI|]. split; [constructor|auto].
  - destruct (w_step st recs o) as [[st1 recs1] resps] eqn:ES.
    destruct (w_run st1 recs1 t) as [st2 all2] eqn:ER. inversion HR; subst; clear HR.
    assert (H1 : Inv st1 /\ Forall (good_resp (w_files st1)) resps /\
                 (forall resp, good_resp (w_files st) resp -> good_resp (w_files st1) resp)).
    { destruct o as [idxs|]; cbn [Writer.w_step] in ES.
      - apply (write_batch_spec idxs st recs st1 recs1 resps); assumption.
      - inversion ES; subst. split; [apply w_close_inv; exact HI|]. split; [constructor|].
        intros resp HG HE. destruct (HG HE) as (e & HL & Hn). exists e. split; [apply w_close_located; exact HL|exact Hn]. }
    destruct H1 as (HI1 & HF1 & HM1).
    destruct (IH st1 recs1 _ _ HI1 ER) as (HI2 & HF2 & HM2).
    split; [exact HI2|]. split.
    + constructor; [|exact HF2]. eapply Forall_impl; [|exact HF1]. intros a Ha. apply HM2. exact Ha.
    + intros resp HG. apply HM2, HM1. exact HG.
Qed.

Lemma inv_init : Inv w_init.
Proof. split; cbn; [reflexivity|constructor]. Qed.

(** * warcinfo: every file begins with the warcinfo record built for its name, and every other
    record in it was stamped with that record's id *)
Definition info_id (n : bytes) : bytes := trim is_angle (m_get tbl uni_lower n_record_id (r_fields (info_rec n))).
Definition file_ok (f : wfile) : Prop :=
  exists rest, f_entries f = marshal (info_rec (f_name f)) :: rest /\
               Forall (fun e => exists r, e = marshal (stamp (info_id (f_name f)) r)) rest.
Definition InfoInv (st : wstate) : Prop :=
  Forall file_ok (w_files st) /\ (forall n, w_cur st = Some n -> w_info st = info_id n).

Lemma files_ok_finalize n fs : Forall file_ok fs -> Forall file_ok (finalize n fs).
Proof.
  induction 1 as [|g t Hg Ht IH]; cbn [finalize]; [constructor|].
  destruct (bytes_eqb (f_name g) n); constructor; assumption.
Qed.

Lemma files_ok_append n r fs : Forall file_ok fs ->
  Forall file_ok (append_to n (marshal (stamp (info_id n) r)) fs).
Proof.
  induction 1 as [|g t Hg Ht IH]; cbn [append_to]; [constructor|].
  destruct (bytes_eqb (f_name g) n) eqn:E; constructor; try assumption.
  apply bytes_eqb_eq in E. destruct Hg as (rest & He & Hr). exists (rest ++ [marshal (stamp (info_id n) r)]).
  cbn [f_entries f_name]. split; [rewrite He; reflexivity|]. apply Forall_app. split; [exact Hr|].
  constructor; [|constructor]. exists r. rewrite E. reflexivity.
Qed.

Lemma info_close st : InfoInv st -> InfoInv (w_close st).
Proof.
  intros [HF HW]. unfold Writer.w_close. destruct (w_cur st) eqn:EC; [|split; [exact HF|rewrite EC; exact HW]].
  split; cbn [w_files w_cur]; [apply files_ok_finalize; exact HF|intros n HH; discriminate].
Qed.

Theorem info_write st r st' resp r' : c_warcinfo conf = true -> Inv st -> InfoInv st ->
  w_write st r = (st', resp, r') -> InfoInv st'.
Proof.
  intros HWI HI HII HW. unfold Writer.w_write in HW. fold (fit_state st r) in HW.
  destruct (fit_state st r) as [st1|] eqn:EF; [|inversion HW; subst; exact HII].
  destruct (fit_state_inv st r st1 HI EF) as [HI1 Hst1].
  assert (HII1 : InfoInv st1) by (destruct Hst1 as [->| ->]; [exact HII|apply info_close; exact HII]).
  destruct (w_cur st1) as [n|] eqn:EC.
  - rewrite EC in HW. inversion HW; subst; clear HW. destruct HII1 as [HF HWc].
    split; cbn [w_files w_cur w_info]; [|intros n0 Hn0; inversion Hn0; subst; apply HWc; exact EC].
    rewrite (HWc n EC). apply files_ok_append. exact HF.
  - destruct (w_create_spec st1 HI1 EC) as (st2 & f & E2 & HI2 & HF2 & Hn2 & Hc2 & _ & _ & He2).
    rewrite E2, Hc2 in HW. inversion HW; subst; clear HW.
    assert (Hinfo2 : w_info st2 = info_id (f_name f)).
    { unfold Writer.w_create in E2. rewrite (name_fresh st1 (proj1 HI1)), HWI in E2. inversion E2; subst. cbn [w_info].
      rewrite Hn2. reflexivity. }
    split; cbn [w_files w_cur w_info].
    + rewrite Hinfo2. apply files_ok_append. rewrite HF2. apply Forall_app. split; [exact (proj1 HII1)|].
      constructor; [|constructor]. exists []. rewrite He2, HWI. split; [reflexivity|constructor].
    + intros n HH. inversion HH; subst. exact Hinfo2.
Qed.

(** * effects: once a file has its final name nothing is appended to it again (C12) *)
Definition NAR (effs : list effect) : Prop :=
  forall pre n post, effs = pre ++ ERename n :: post -> forall e, ~ In (EAppend n e) post.

Lemma NAR_app old new : NAR old ->
  (forall n, In (ERename n) old -> forall e, ~ In (EAppend n e) new) -> NAR new -> NAR (old ++ new).
Proof.
  intros HO HX HN pre n post HE e Hin.
  apply app_eq_app in HE as [l [[H1 H2]|[H1 H2]]].
  - destruct l as [|x l'].
    + rewrite app_nil_r in H1. subst pre. cbn in H2. apply (HN [] n post (eq_sym H2) e Hin).
    + cbn in H2. inversion H2; subst x post. subst old.
      apply in_app_or in Hin as [Hin|Hin].
      * apply (HO pre n l' eq_refl e Hin).
      * assert (Hr : In (ERename n) (pre ++ ERename n :: l')) by (apply in_or_app; right; left; reflexivity).
        apply (HX n Hr e Hin).
  - apply (HN l n post H2 e Hin).
Qed.

Definition EffInv (st : wstate) : Prop :=
  (forall n, In (ERename n) (w_effects st) -> In n (names (w_files st)) /\ w_cur st <> Some n) /\
  NAR (w_effects st).

Lemma NAR_no_rename new : (forall n, ~ In (ERename n) new) -> NAR new.
Proof. intros HH pre n post HE e _. apply (HH n). rewrite HE. apply in_or_app. right. left. reflexivity. Qed.

Lemma eff_close st : Inv st -> EffInv st -> EffInv (w_close st).
Proof.
  intros HI [HR HN]. unfold Writer.w_close. destruct (w_cur st) as [n|] eqn:EC; [|split; [rewrite EC; exact HR|exact HN]].
  destruct HI as [HNm HC]. rewrite EC in HC. destruct HC as (pre & f & HF & Hn & _).
  split; cbn [w_effects w_files w_cur].
  - intros m Hin. rewrite names_finalize. apply in_app_or in Hin as [Hin|Hin].
    + split; [apply HR; exact Hin|discriminate].
    + split; [|discriminate]. cbn in Hin. destruct Hin as [Hin|[Hin|[Hin|[]]]]; try discriminate.
      inversion Hin; subst m. unfold names. rewrite HF, map_app. apply in_or_app. right. left. exact Hn.
  - apply NAR_app; [exact HN| |].
    + intros m _ e Hin. cbn in Hin. destruct Hin as [Hin|[Hin|[Hin|[]]]]; discriminate.
    + intros p m post HE e Hin. destruct p as [|x p]; cbn in HE; inversion HE; subst.
      destruct p as [|y p]; cbn in *; [inversion H1; subst; cbn in Hin; destruct Hin as [Hin|[]]; discriminate|].
      inversion H1; subst. destruct p as [|z p]; cbn in *; [inversion H2|inversion H2; destruct p; discriminate].
Qed.

Lemma eff_append st n e extra : w_cur st = Some n -> (forall m, ~ In (ERename m) extra) ->
  (forall m x, In (EAppend m x) extra -> m = n) ->
  EffInv st -> NAR (w_effects st ++ [EAppend n e] ++ extra).
Proof.
  intros EC HX HA [HR HN]. apply NAR_app; [exact HN| |].
  - intros m Hin x Hx. destruct (HR m Hin) as [_ Hne]. cbn in Hx. destruct Hx as [Hx|Hx].
    + injection Hx as Hm _. congruence.
    + apply HA in Hx. congruence.
  - apply NAR_no_rename. intros m Hin. cbn in Hin. destruct Hin as [Hin|Hin]; [discriminate|apply (HX m Hin)].
Qed.

Lemma sync_no_rename n m : ~ In (ERename m) (sync_eff conf n).
Proof. unfold sync_eff. destruct (c_flush conf); cbn; [intros [HH|[]]; discriminate|intros []]. Qed.
Lemma sync_no_append n m x : ~ In (EAppend m x) (sync_eff conf n).
Proof. unfold sync_eff. destruct (c_flush conf); cbn; [intros [HH|[]]; discriminate|intros []]. Qed.

Theorem eff_write st r st' resp r' : Inv st -> EffInv st -> w_write st r = (st', resp, r') -> EffInv st'.
Proof.
  intros HI HE HW. unfold Writer.w_write in HW. fold (fit_state st r) in HW.
  destruct (fit_state st r) as [st1|] eqn:EF; [|inversion HW; subst; exact HE].
  destruct (fit_state_inv st r st1 HI EF) as [HI1 Hst1].
  assert (HE1 : EffInv st1) by (destruct Hst1 as [->| ->]; [exact HE|apply eff_close; assumption]).
  destruct (w_cur st1) as [n|] eqn:EC.
  - rewrite EC in HW. inversion HW; subst; clear HW. destruct HE1 as [HR HN].
    split; cbn [w_effects w_files w_cur].
    + intros m Hin. rewrite names_append_to. apply in_app_or in Hin as [Hin|Hin].
      * destruct (HR m Hin) as [A B]. split; [exact A|rewrite <- EC; exact B].
      * exfalso. cbn in Hin. destruct Hin as [Hin|Hin]; [discriminate|apply (sync_no_rename n m Hin)].
    + apply (eff_append st1 n); [exact EC|apply sync_no_rename| |split; assumption].
      intros m x Hx. exfalso. apply (sync_no_append n m x Hx).
  - destruct (w_create_spec st1 HI1 EC) as (st2 & f & E2 & HI2 & HF2 & Hn2 & Hc2 & _).
    rewrite E2, Hc2 in HW. inversion HW; subst; clear HW.
    (* the state after createFile *)
    assert (HE2 : EffInv st2).
    { destruct HE1 as [HR HN]. pose proof (fresh_not_in st1 (proj1 HI1)) as Hfresh.
      unfold Writer.w_create in E2. rewrite (name_fresh st1 (proj1 HI1)) in E2.
      set (n := name_of (w_serial st1)) in *.
      assert (Hren : forall m, In (ERename m) (w_effects st1) -> m <> n).
      { intros m Hin Hm. subst m. apply Hfresh. apply HR. exact Hin. }
      destruct (c_warcinfo conf); inversion E2; subst; clear E2; split; cbn [w_effects w_files w_cur].
      - intros m Hin. rewrite names_append_to. unfold names. rewrite map_app. cbn [map f_name].
        apply in_app_or in Hin as [Hin|Hin].
        + apply in_app_or in Hin as [Hin|Hin].
          * split; [apply in_or_app; left; apply HR; exact Hin|]. intros HH. inversion HH. apply (Hren m Hin). congruence.
          * cbn in Hin. destruct Hin as [Hin|[]]. discriminate.
        + exfalso. cbn in Hin. destruct Hin as [Hin|Hin]; [discriminate|apply (sync_no_rename n m Hin)].
      - rewrite <- app_assoc. apply NAR_app; [exact HN| |].
        + intros m Hin x Hx. cbn in Hx. destruct Hx as [Hx|[Hx|Hx]]; try discriminate.
          * injection Hx as Hm _. apply (Hren m Hin). congruence.
          * apply (sync_no_append n m x Hx).
        + apply NAR_no_rename. intros m Hin. cbn in Hin. destruct Hin as [Hin|[Hin|Hin]]; try discriminate. apply (sync_no_rename n m Hin).
      - intros m Hin. unfold names. rewrite map_app. cbn [map f_name].
        apply in_app_or in Hin as [Hin|Hin].
        + split; [apply in_or_app; left; apply HR; exact Hin|]. intros HH. inversion HH. apply (Hren m Hin). congruence.
        + cbn in Hin. destruct Hin as [Hin|[]]. discriminate.
      - apply NAR_app; [exact HN| |].
        + intros m Hin x Hx. cbn in Hx. destruct Hx as [Hx|[]]. discriminate.
        + apply NAR_no_rename. intros m Hin. cbn in Hin. destruct Hin as [Hin|[]]. discriminate. }
    destruct HE2 as [HR2 HN2].
    split; cbn [w_effects w_files w_cur].
    + intros m Hin. rewrite names_append_to. apply in_app_or in Hin as [Hin|Hin].
      * destruct (HR2 m Hin) as [A B]. split; [exact A|rewrite <- Hc2; exact B].
      * exfalso. cbn in Hin. destruct Hin as [Hin|Hin]; [discriminate|apply (sync_no_rename (f_name f) m Hin)].
    + apply (eff_append st2 (f_name f)); [exact Hc2|apply sync_no_rename| |split; assumption].
      intros m x Hx. exfalso. apply (sync_no_append (f_name f) m x Hx).
Qed.

Lemma eff_init : EffInv w_init.
Proof. split; cbn; [intros n []|]. intros pre n post HE. destruct pre; discriminate. Qed.

(** any state predicate kept by Write and by close holds in every reachable state *)
Section Reach.
Variable P : wstate -> Prop.
Hypothesis P_write : forall st r st' resp r', Inv st -> P st -> w_write st r = (st', resp, r') -> P st'.
Hypothesis P_close : forall st, Inv st -> P st -> P (w_close st).

Lemma batch_keeps idxs : forall st recs st' recs' resps, Inv st -> P st ->
  write_batch st recs idxs = (st', recs', resps) -> P st'.
Proof.
  induction idxs as [|i t IH]; intros st recs st' recs' resps HI HP HB; cbn [Writer.write_batch] in HB.
  - inversion HB; subst. exact HP.
  - destruct (nth_error recs i) as [r|]; [|apply (IH st recs st' recs' resps); assumption].
    destruct (w_write st r) as [[st1 resp] r1] eqn:EW.
    destruct (write_batch st1 (set_nth i r1 recs) t) as [[st2 recs2] resps2] eqn:EB.
    inversion HB; subst; clear HB.
    apply (IH st1 _ _ _ _ (proj1 (w_write_spec st r st1 resp r1 HI EW)) (P_write _ _ _ _ _ HI HP EW) EB).
Qed.

Theorem run_keeps ops : forall st recs stf all, Inv st -> P st -> w_run st recs ops = (stf, all) -> P stf.
Proof.
  induction ops as [|o t IH]; intros st recs stf all HI HP HR; cbn [Writer.w_run] in HR.
  - inversion HR; subst. exact HP.
  - destruct (w_step st recs o) as [[st1 recs1] resps] eqn:ES.
    destruct (w_run st1 recs1 t) as [st2 all2] eqn:ER. inversion HR; subst; clear HR.
    destruct o as [idxs|]; cbn [Writer.w_step] in ES.
    + apply (IH st1 recs1 _ _ (proj1 (write_batch_spec idxs st recs st1 recs1 resps HI ES)) (batch_keeps idxs _ _ _ _ _ HI HP ES) ER).
    + inversion ES; subst. apply (IH _ _ _ _ (proj1 (w_close_inv st HI)) (P_close st HI HP) ER).
Qed.
End Reach.

End Proofs.
