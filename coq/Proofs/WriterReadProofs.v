(** WriterReadProofs.v — the two halves of "a reported offset is a position at which a reader
    finds that record" put together for uncompressed files: the writer half (WriterProofs: the
    serialized, stamped record is one entry of the named file, starting at the reported offset,
    and stays there whatever is written afterwards) and the reader half (RoundTripProofs: parsing
    the serialized form of a valid record returns that record and leaves what follows). *)
Require Import Model.Bytes Model.FieldDef Gen.FieldTable Model.Fields Model.Policy Model.Stream Model.HeaderParse
               Model.Digest Model.Record Model.Validate Model.Writer.
Require Import Proofs.WriterProofs Proofs.RoundTripProofs.
From Coq Require Import List ZArith Lia.
Import ListNotations.

Lemma skipn_length_app {A} (a b : list A) : skipn (length a) (a ++ b) = b.
Proof. induction a as [|x t IH]; [reflexivity|]. cbn [length app skipn]. exact IH. Qed.

Lemma sizes_plain conf zsize es : c_compress conf = false -> sizes conf zsize es = Z.of_nat (length (concat es)).
Proof.
  intros Hc. induction es as [|e t IH]; [reflexivity|].
  unfold sizes in *. cbn [fold_right concat]. rewrite IH, app_length. unfold esize. rewrite Hc. lia.
Qed.

(** the bytes of an uncompressed file from a located entry on *)
Lemma located_bytes conf zsize fs name off e : c_compress conf = false -> located conf zsize fs name off e ->
  exists f after, In f fs /\ f_name f = name /\ (0 <= off)%Z /\
                  skipn (Z.to_nat off) (concat (f_entries f)) = e ++ concat after.
Proof.
  intros Hc (f & before & after & Hin & Hn & He & Ho). exists f, after.
  split; [exact Hin|]. split; [exact Hn|]. rewrite Ho, (sizes_plain conf zsize before Hc). split; [lia|].
  rewrite Nat2Z.id, He, concat_app. cbn [concat]. apply skipn_length_app.
Qed.

Section Run.
Variable tbl : list fielddef.
Variable uni_lower : bytes -> bytes.
Variable conf : wconf.
Variable name_of : nat -> bytes.
Hypothesis name_inj : forall a b, name_of a = name_of b -> a = b.
Variable scale : Z -> Z.
Variable zsize : bytes -> Z.
Variable info_rec : bytes -> record.
Notation w_write := (w_write tbl uni_lower conf name_of scale zsize info_rec).
Notation write_batch := (write_batch tbl uni_lower conf name_of scale zsize info_rec).
Notation w_run := (w_run tbl uni_lower conf name_of scale zsize info_rec).
Notation Inv := (Inv conf name_of zsize).
Notation located := (located conf zsize).

Lemma write_batch_located idxs : forall st recs st' recs' resps name off e, Inv st ->
  write_batch st recs idxs = (st', recs', resps) ->
  located (w_files st) name off e -> Inv st' /\ located (w_files st') name off e.
Proof.
  induction idxs as [|i t IH]; intros st recs st' recs' resps name off e HI HB HL; cbn [Writer.write_batch] in HB.
  - inversion HB; subst. split; assumption.
  - destruct (nth_error recs i) as [r|]; [|apply (IH st recs st' recs' resps); assumption].
    destruct (w_write st r) as [[st1 resp] r1] eqn:EW.
    destruct (write_batch st1 (set_nth i r1 recs) t) as [[st2 recs2] resps2] eqn:EB.
    inversion HB; subst; clear HB.
    destruct (w_write_spec tbl uni_lower conf name_of name_inj scale zsize info_rec st r st1 resp r1 HI EW) as [HI1 _].
    apply (IH st1 _ _ _ _ name off e HI1 EB).
    apply (w_write_located tbl uni_lower conf name_of name_inj scale zsize info_rec st r st1 resp r1); assumption.
Qed.

Lemma w_run_located ops : forall st recs stf all name off e, Inv st ->
  w_run st recs ops = (stf, all) -> located (w_files st) name off e -> located (w_files stf) name off e.
Proof.
  induction ops as [|o t IH]; intros st recs stf all name off e HI HR HL; cbn [Writer.w_run] in HR.
  - inversion HR; subst. exact HL.
  - destruct (w_step tbl uni_lower conf name_of scale zsize info_rec st recs o) as [[st1 recs1] resps] eqn:ES.
    destruct (w_run st1 recs1 t) as [st2 all2] eqn:ER. inversion HR; subst; clear HR.
    assert (H1 : Inv st1 /\ located (w_files st1) name off e).
    { destruct o as [idxs|]; cbn [Writer.w_step] in ES.
      - apply (write_batch_located idxs st recs st1 recs1 resps); assumption.
      - inversion ES; subst. split; [apply (w_close_inv conf name_of name_inj zsize st HI)|apply w_close_located; exact HL]. }
    destruct H1 as [HI1 HL1]. apply (IH st1 recs1 _ _ name off e HI1 ER HL1).
Qed.

(** a Write that reports no error, then any further Writes and Rotates: in the end, a reader placed
    at the reported offset of the named file returns exactly the stamped record that Write handed
    back - if that record is valid for the reader - and stands at the entry that follows *)
Theorem reader_at_reported_offset
  uni_upper time_ok ip_ok uri_ok wid_ok mime_dec H b32 b64 http_req_ok http_resp_ok o bd pd tl
  st r st1 resp r' recs ops stf all :
  c_compress conf = false -> Inv st ->
  w_write st r = (st1, resp, r') -> rs_err resp = false ->
  w_run st1 recs ops = (stf, all) ->
  valid_record tbl required_fields uni_lower uni_upper time_ok ip_ok uri_ok wid_ok mime_dec H b32 b64
               http_req_ok http_resp_ok o r' bd pd ->
  r' = stamp tbl uni_lower (w_info st1) r /\
  exists f after, In f (w_files stf) /\ f_name f = rs_name resp /\ (0 <= rs_off resp)%Z /\
    parse_record tbl required_fields uni_lower uni_upper time_ok ip_ok uri_ok wid_ok mime_dec H b32 b64
                 http_req_ok http_resp_ok o
                 (mkst (skipn (Z.to_nat (rs_off resp)) (concat (f_entries f))) tl) []
    = URec r' None [] (mkst (concat after) tl).
Proof.
  intros Hc HI EW HE ER HV.
  destruct (w_write_spec tbl uni_lower conf name_of name_inj scale zsize info_rec st r st1 resp r' HI EW) as [HI1 HR].
  destruct (HR HE) as (pre & f0 & before & HFl & Hn & _ & He & Ho & _ & Hst).
  split; [exact Hst|].
  assert (HL : located (w_files st1) (rs_name resp) (rs_off resp) (marshal r')).
  { exists f0, before, []. split; [rewrite HFl; apply in_or_app; right; left; reflexivity|]. repeat split; assumption. }
  pose proof (w_run_located ops st1 recs stf all _ _ _ HI1 ER HL) as HLf.
  destruct (located_bytes conf zsize _ _ _ _ Hc HLf) as (f & after & Hin & Hnf & Hoff & Hsk).
  exists f, after. split; [exact Hin|]. split; [exact Hnf|]. split; [exact Hoff|].
  rewrite Hsk. eapply (marshal_then_parse tbl required_fields). exact HV.
Qed.
End Run.
