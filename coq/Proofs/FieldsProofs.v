(** Proofs about Fields.v: the WarcFields methods refine the reference multimap (C18). *)
Require Import Model.Bytes Model.FieldDef Model.Fields Proofs.BytesProofs.
From Coq Require Import Lia Sorted.
Local Open Scope N_scope.

Section Proofs.
Variable tbl : list fielddef.
Variable uni_lower : bytes -> bytes.
Notation normalize_name := (normalize_name tbl uni_lower).
Notation key := (key tbl uni_lower).

(** ** getters *)
Lemma m_getall_loop_spec k l : m_getall_loop k l = s_values k l.
Proof.
  induction l as [|p t IH]; cbn; [reflexivity|].
  unfold name_is at 1. destruct (bytes_eqb (fst p) k); cbn; rewrite IH; reflexivity.
Qed.

Lemma m_has_loop_spec k l : m_has_loop k l = s_has k l.
Proof.
  induction l as [|p t IH]; cbn; [reflexivity|].
  unfold name_is at 1. destruct (bytes_eqb (fst p) k); cbn; [reflexivity|exact IH].
Qed.

Lemma m_get_spec n l : m_get tbl uni_lower n l = s_get (key n) l.
Proof.
  unfold m_get, s_get, s_values, key. induction l as [|p t IH]; cbn; [reflexivity|].
  destruct (name_is (normalize_name n) p); cbn; [reflexivity|exact IH].
Qed.

(** ** delete *)
Lemma m_delete_loop_spec k l : m_delete_loop k l = s_delete k l.
Proof.
  induction l as [|p t IH]; cbn; [reflexivity|].
  unfold name_is at 1. destruct (bytes_eqb (fst p) k); cbn; rewrite IH; reflexivity.
Qed.

(** ** set *)
Lemma m_set_loop_true k v l : m_set_loop k v true l = (s_delete k l, true).
Proof.
  induction l as [|p t IH]; cbn; [reflexivity|].
  unfold name_is. destruct (bytes_eqb (fst p) k); cbn; rewrite IH; reflexivity.
Qed.

Lemma m_set_loop_false k v l :
  m_set_loop k v false l =
  match s_set_first k v l with Some r => (r, true) | None => (l, false) end.
Proof.
  induction l as [|p t IH]; cbn; [reflexivity|].
  unfold name_is. destruct (bytes_eqb (fst p) k) eqn:E; cbn.
  - rewrite m_set_loop_true. apply bytes_eqb_eq in E. rewrite E. reflexivity.
  - rewrite IH. destruct (s_set_first k v t); reflexivity.
Qed.

Lemma m_set_spec n v l : m_set tbl uni_lower n v l = s_set (key n) v l.
Proof.
  unfold m_set, s_set, key, s_add. rewrite m_set_loop_false.
  destruct (s_set_first (normalize_name n) v l); reflexivity.
Qed.

(** ** write *)
Lemma m_write_spec l : m_write l = s_write l.
Proof.
  unfold m_write, s_write. rewrite flat_map_concat_map. reflexivity.
Qed.

(** ** one step, and whole histories *)
Lemma fstep_spec l o : fstep tbl uni_lower l o = sstep tbl uni_lower l o.
Proof.
  destruct o as [n v|n z|n v|n s|n v|n z|n v|n s|n| |n|n|n|n|n| ]; cbn [fstep sstep]; unfold m_getint; unfold m_add, s_add, m_getall, m_has, m_delete, m_sort, s_sort;
    rewrite ?m_set_spec, ?m_get_spec, ?m_getall_loop_spec, ?m_has_loop_spec, ?m_delete_loop_spec, ?m_write_spec;
    try reflexivity.
  match goal with |- context [id_value ?v] => destruct (id_value v) end; rewrite ?m_set_spec; reflexivity.
Qed.

Theorem fields_refine ops : forall l, frun tbl uni_lower l ops = srun tbl uni_lower l ops.
Proof.
  induction ops as [|o t IH]; intros l; cbn [frun srun]; [reflexivity|].
  rewrite fstep_spec. destruct (sstep tbl uni_lower l o) as [l' ob]. rewrite IH. reflexivity.
Qed.

(** ** what the reference multimap guarantees *)

Lemma name_is_eq k p : name_is k p = true <-> fst p = k.
Proof. unfold name_is. apply bytes_eqb_eq. Qed.

Lemma s_values_delete k l : s_values k (s_delete k l) = [].
Proof.
  unfold s_values, s_delete. induction l as [|p t IH]; cbn; [reflexivity|].
  destruct (name_is k p) eqn:E; cbn; [exact IH|]. rewrite E. exact IH.
Qed.

Lemma s_has_delete k l : s_has k (s_delete k l) = false.
Proof.
  unfold s_has, s_delete. induction l as [|p t IH]; cbn; [reflexivity|].
  destruct (name_is k p) eqn:E; cbn; [exact IH|]. rewrite E. exact IH.
Qed.

Lemma filter_other_delete k k' l : k' <> k ->
  filter (name_is k') (s_delete k l) = filter (name_is k') l.
Proof.
  intros H. unfold s_delete. induction l as [|p t IH]; cbn; [reflexivity|].
  destruct (name_is k p) eqn:E; cbn.
  - rewrite IH. destruct (name_is k' p) eqn:E'; [|reflexivity].
    apply name_is_eq in E. apply name_is_eq in E'. congruence.
  - rewrite IH. reflexivity.
Qed.

Lemma delete_delete k l : s_delete k (s_delete k l) = s_delete k l.
Proof.
  unfold s_delete. induction l as [|p t IH]; cbn; [reflexivity|].
  destruct (name_is k p) eqn:E; cbn; [exact IH|]. rewrite E. cbn. rewrite IH. reflexivity.
Qed.

(* Set: exactly one value, at the position of the first occurrence, everything else untouched *)
Lemma s_set_first_shape k v l r : s_set_first k v l = Some r ->
  exists pre old post, l = pre ++ (k, old) :: post /\ s_has k pre = false /\
                       r = pre ++ (k, v) :: s_delete k post.
Proof.
  revert r; induction l as [|p t IH]; intros r H; cbn in H; [discriminate|].
  destruct (name_is k p) eqn:E.
  - inversion H; subst. exists [], (snd p), t. apply name_is_eq in E.
    destruct p as [a b]; cbn in *; subst. repeat split.
  - destruct (s_set_first k v t) as [r'|] eqn:E'; [|discriminate]. inversion H; subst.
    destruct (IH r' eq_refl) as (pre & old & post & -> & Hpre & ->).
    exists (p :: pre), old, post. repeat split. cbn. unfold s_has in *. cbn. rewrite E. exact Hpre.
Qed.

Lemma s_set_first_none k v l : s_set_first k v l = None -> s_has k l = false.
Proof.
  induction l as [|p t IH]; cbn; intros H; [reflexivity|].
  destruct (name_is k p) eqn:E; [discriminate|]. cbn.
  destruct (s_set_first k v t); [discriminate|]. apply IH. reflexivity.
Qed.

Lemma s_values_no k l : s_has k l = false -> s_values k l = [].
Proof.
  unfold s_has, s_values. induction l as [|p t IH]; cbn; [reflexivity|].
  destruct (name_is k p); cbn; [discriminate|]. exact IH.
Qed.

Lemma s_values_app k a b : s_values k (a ++ b) = s_values k a ++ s_values k b.
Proof. unfold s_values. rewrite filter_app, map_app. reflexivity. Qed.

Lemma s_delete_app k a b : s_delete k (a ++ b) = s_delete k a ++ s_delete k b.
Proof. unfold s_delete. apply filter_app. Qed.

Lemma s_delete_no k l : s_has k l = false -> s_delete k l = l.
Proof.
  unfold s_has, s_delete. induction l as [|p t IH]; cbn; [reflexivity|].
  destruct (name_is k p); cbn; [discriminate|]. intros H. rewrite IH by exact H. reflexivity.
Qed.

Lemma s_values_cons_eq k v t : s_values k ((k, v) :: t) = v :: s_values k t.
Proof.
  unfold s_values. cbn. rewrite bytes_eqb_refl. reflexivity.
Qed.

Lemma s_delete_cons_eq k v t : s_delete k ((k, v) :: t) = s_delete k t.
Proof.
  unfold s_delete. cbn. rewrite bytes_eqb_refl. reflexivity.
Qed.

Lemma s_has_app_cons k a v b : s_has k (a ++ (k, v) :: b) = true.
Proof.
  unfold s_has. rewrite existsb_app. cbn. rewrite bytes_eqb_refl. cbn. rewrite orb_true_r. reflexivity.
Qed.

Theorem set_one_value_at_first_position k v l :
  s_values k (s_set k v l) = [v] /\
  s_delete k (s_set k v l) = s_delete k l /\
  (s_has k l = false -> s_set k v l = l ++ [(k, v)]) /\
  (s_has k l = true -> exists pre old post,
      l = pre ++ (k, old) :: post /\ s_has k pre = false /\
      s_set k v l = pre ++ (k, v) :: s_delete k post).
Proof.
  unfold s_set. destruct (s_set_first k v l) as [r|] eqn:E.
  - destruct (s_set_first_shape _ _ _ _ E) as (pre & old & post & -> & Hpre & ->).
    split; [|split; [|split]].
    + rewrite s_values_app, (s_values_no _ _ Hpre), s_values_cons_eq, s_values_delete. reflexivity.
    + rewrite !s_delete_app, !s_delete_cons_eq, delete_delete. reflexivity.
    + intros H. rewrite s_has_app_cons in H. discriminate.
    + intros _. exists pre, old, post. split; [reflexivity|]. split; [exact Hpre|reflexivity].
  - pose proof (s_set_first_none _ _ _ E) as Hno. unfold s_add.
    split; [|split; [|split]].
    + rewrite s_values_app, (s_values_no _ _ Hno), s_values_cons_eq. reflexivity.
    + rewrite s_delete_app, s_delete_cons_eq. cbn. rewrite app_nil_r. reflexivity.
    + intros _. reflexivity.
    + intros H. congruence.
Qed.

(** ** sort: sorted by name, and stable (the sub-list of every name is unchanged) *)
Definition name_le (p q : field) : Prop := bytes_ltb (fst q) (fst p) = false.

Lemma insert_sorted p l : Sorted name_le l -> Sorted name_le (insert_stable p l).
Proof.
  induction l as [|q t IH]; intros H; cbn.
  - constructor; constructor.
  - destruct (bytes_ltb (fst q) (fst p)) eqn:E.
    + inversion H as [|? ? Ht Hhd]; subst. constructor; [apply IH; exact Ht|].
      destruct t as [|q' t']; cbn.
      * constructor. unfold name_le. apply bytes_ltb_asym. exact E.
      * destruct (bytes_ltb (fst q') (fst p)) eqn:E'.
        -- constructor. inversion Hhd; subst. assumption.
        -- constructor. unfold name_le. apply bytes_ltb_asym. exact E.
    + constructor; [exact H|]. constructor. exact E.
Qed.

Lemma sort_sorted l : Sorted name_le (s_sort l).
Proof.
  unfold s_sort. induction l as [|p t IH]; cbn; [constructor|]. apply insert_sorted. exact IH.
Qed.

Lemma filter_insert k p l :
  filter (name_is k) (insert_stable p l) =
  if name_is k p then p :: filter (name_is k) l else filter (name_is k) l.
Proof.
  induction l as [|q t IH]; cbn; [reflexivity|].
  destruct (bytes_ltb (fst q) (fst p)) eqn:E; cbn.
  - rewrite IH. destruct (name_is k p) eqn:Ep; [|reflexivity].
    destruct (name_is k q) eqn:Eq; [|reflexivity].
    apply name_is_eq in Ep. apply name_is_eq in Eq. rewrite Ep, Eq in E.
    rewrite bytes_ltb_irrefl in E. discriminate.
  - reflexivity.
Qed.

Theorem sort_stable k l : filter (name_is k) (s_sort l) = filter (name_is k) l.
Proof.
  unfold s_sort. induction l as [|p t IH]; cbn; [reflexivity|].
  rewrite filter_insert, IH. reflexivity.
Qed.

Lemma insert_length p l : length (insert_stable p l) = S (length l).
Proof.
  induction l as [|q t IH]; cbn; [reflexivity|].
  destruct (bytes_ltb (fst q) (fst p)); cbn; [rewrite IH|]; reflexivity.
Qed.

Lemma sort_length l : length (s_sort l) = length l.
Proof.
  unfold s_sort. induction l as [|p t IH]; cbn; [reflexivity|]. rewrite insert_length, IH. reflexivity.
Qed.

End Proofs.
