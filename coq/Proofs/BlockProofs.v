(** The block accessors answer as a function of the complete block, in any call order (C16). *)
Require Import Model.Bytes Model.Block.
From Coq Require Import Arith Lia.
Local Open Scope nat_scope.

Section Proofs.
Variable fmt_block fmt_payload : bytes -> bytes.
Notation block_step := (block_step fmt_block fmt_payload).
Notation block_run := (block_run fmt_block fmt_payload).
Notation spec_step := (spec_step fmt_block fmt_payload).
Notation spec_run := (spec_run fmt_block fmt_payload).
Notation finish := (finish fmt_block fmt_payload).
Notation ensure_digest := (ensure_digest fmt_block fmt_payload).
Notation access := (access fmt_block fmt_payload).

Definition Rel (b : ablock) (s : sblock) : Prop :=
  b_head b = s_head s /\ b_body b = s_body s /\ b_cached b = s_cached s /\ b_filter b = s_used s /\
  (b_filter b = false -> b_pos b = 0 /\ b_fed b = [] /\ b_dstr b = None) /\
  match b_dstr b with
  | None => b_fed b = firstn (b_pos b) (b_body b) /\ b_pos b <= length (b_body b)
  | Some (x, y) => b_fed b = b_body b /\ x = fmt_block (b_head b ++ b_body b) /\ y = fmt_payload (b_body b)
                   /\ b_filter b = true
  end.

Lemma got_prefix (pre body : bytes) d :
  let want := take d (pre ++ body) in
  let got := skipn (length pre) want in
  got = firstn (length got) body /\ length got <= length body.
Proof.
  cbn zeta. destruct d as [k|]; cbn [take].
  - rewrite firstn_app. destruct (Nat.le_gt_cases (length pre) k) as [H|H].
    + rewrite firstn_all2 by exact H. rewrite skipn_app, skipn_all, Nat.sub_diag. cbn [skipn app].
      rewrite firstn_length. split; [|lia].
      destruct (Nat.le_gt_cases (k - length pre) (length body)) as [H2|H2].
      * rewrite Nat.min_l by exact H2. reflexivity.
      * rewrite Nat.min_r by lia. rewrite firstn_all, firstn_all2 by lia. reflexivity.
    + replace (k - length pre) with 0 by lia. rewrite firstn_O, app_nil_r.
      rewrite skipn_all2 by (rewrite firstn_length; lia). cbn. split; [reflexivity|lia].
  - rewrite skipn_app, skipn_all, Nat.sub_diag. cbn [skipn app]. rewrite firstn_all. split; [reflexivity|lia].
Qed.

Lemma finish_rel b s : Rel b s -> b_dstr b = None ->
  Rel (finish b) (mksb (s_head s) (s_body s) (s_cached s) true).
Proof.
  intros (H1 & H2 & H3 & H4 & H5 & H6) HN. rewrite HN in H6. destruct H6 as [H6 H7].
  unfold Rel, Block.finish. cbn [b_head b_body b_cached b_filter b_pos b_dstr b_fed s_head s_body s_cached s_used].
  assert (Hf : b_fed b ++ skipn (b_pos b) (b_body b) = b_body b) by (rewrite H6; apply firstn_skipn).
  rewrite Hf. repeat split; try assumption; try congruence.
Qed.

Lemma ensure_rel b s : Rel b s ->
  Rel (ensure_digest b) (mksb (s_head s) (s_body s) (s_cached s) true) /\
  exists x y, b_dstr (ensure_digest b) = Some (x, y).
Proof.
  intros HR. unfold Block.ensure_digest. destruct (b_dstr b) as [[x y]|] eqn:E.
  - split; [|exists x, y; exact E].
    destruct HR as (H1 & H2 & H3 & H4 & H5 & H6). rewrite E in H6. destruct H6 as (A & B & C & D).
    unfold Rel. cbn [s_head s_body s_cached s_used]. rewrite E. repeat split; try assumption; try congruence.
  - split; [apply finish_rel; assumption|]. unfold Block.finish. cbn [b_dstr]. eexists. eexists. reflexivity.
Qed.

Lemma access_spec b s pre d : Rel b s ->
  let '(b', r) := access b pre d in
  let '(s', r') :=
    (if s_cached s then (mksb (s_head s) (s_body s) true true, RData (take d (pre ++ s_body s)))
     else if s_used s then (s, RErr)
     else (mksb (s_head s) (s_body s) false true, RData (take d (pre ++ s_body s)))) in
  r = r' /\ Rel b' s'.
Proof.
  intros HR. pose proof HR as (H1 & H2 & H3 & H4 & H5 & H6). unfold Block.access.
  destruct (b_filter b) eqn:EF; cbn [negb].
  - (* a reader was handed out before *)
    destruct (ensure_rel b s HR) as [HR1 (x & y & HD)].
    set (b1 := ensure_digest b) in *.
    destruct HR1 as (A1 & A2 & A3 & A4 & A5 & A6). cbn [s_head s_body s_cached s_used] in *.
    rewrite A3. rewrite <- H4. destruct (s_cached s) eqn:EC; cbn [negb].
    + split; [rewrite A2; reflexivity|].
      rewrite HD in A6. destruct A6 as (B1 & B2 & B3 & B4).
      unfold Rel. cbn [b_head b_body b_cached b_filter b_pos b_dstr b_fed s_head s_body s_cached s_used].
      rewrite HD. repeat split; try assumption; try congruence; try discriminate.
    + split; [reflexivity|]. unfold Rel. cbn [s_head s_body s_cached s_used].
      rewrite A3. repeat split; try assumption; try congruence; try (rewrite H4 in *; congruence).
  - (* first access *)
    destruct (H5 eq_refl) as (P0 & F0 & D0). rewrite D0 in H6. rewrite P0, F0. cbn [skipn app Nat.add].
    rewrite <- H4. rewrite <- H3.
    destruct (got_prefix pre (b_body b) d) as [G1 G2]. cbn zeta in G1, G2.
    destruct (b_cached b) eqn:EC.
    + split; [rewrite H2; reflexivity|].
      unfold Rel. cbn [b_head b_body b_cached b_filter b_pos b_dstr b_fed s_head s_body s_cached s_used].
      rewrite D0. repeat split; try assumption; try congruence; try discriminate.
    + split; [rewrite H2; reflexivity|].
      unfold Rel. cbn [b_head b_body b_cached b_filter b_pos b_dstr b_fed s_head s_body s_cached s_used].
      rewrite D0. repeat split; try assumption; try congruence; try discriminate.
Qed.

Lemma block_step_spec b s o : Rel b s ->
  let '(b', r) := block_step b o in
  let '(s', r') := spec_step s o in
  r = r' /\ Rel b' s'.
Proof.
  intros HR. pose proof HR as (H1 & H2 & H3 & H4 & H5 & H6).
  destruct o as [d|d| | | | |]; cbn [Block.block_step Block.spec_step].
  - (* ARaw *) rewrite H1. exact (access_spec b s (s_head s) d HR).
  - (* APayload *) exact (access_spec b s [] d HR).
  - destruct (ensure_rel b s HR) as [HR1 (x & y & HD)]. rewrite HD.
    destruct HR1 as (A1 & A2 & A3 & A4 & A5 & A6). rewrite HD in A6. destruct A6 as (B1 & B2 & B3 & B4).
    cbn [s_head s_body s_cached s_used] in *. split; [rewrite B2, A1, A2; reflexivity|].
    unfold Rel. rewrite HD. cbn [s_head s_body s_cached s_used]. repeat split; try assumption; try congruence.
  - destruct (ensure_rel b s HR) as [HR1 (x & y & HD)]. rewrite HD.
    destruct HR1 as (A1 & A2 & A3 & A4 & A5 & A6). rewrite HD in A6. destruct A6 as (B1 & B2 & B3 & B4).
    cbn [s_head s_body s_cached s_used] in *. split; [rewrite B3, A2; reflexivity|].
    unfold Rel. rewrite HD. cbn [s_head s_body s_cached s_used]. repeat split; try assumption; try congruence.
  - destruct (ensure_rel b s HR) as [HR1 (x & y & HD)].
    destruct HR1 as (A1 & A2 & A3 & A4 & A5 & A6). rewrite HD in A6. destruct A6 as (B1 & B2 & B3 & B4).
    cbn [s_head s_body s_cached s_used] in *. split; [rewrite B1, A1, A2; reflexivity|].
    unfold Rel. rewrite HD. cbn [s_head s_body s_cached s_used]. repeat split; try assumption; try congruence.
  - (* ACache *)
    rewrite H3. pose proof (access_spec b s [] None HR) as HA.
    destruct (s_cached s) eqn:EC; [split; [reflexivity|exact HR]|].
    destruct (access b [] None) as [b1 r].
    destruct (s_used s) eqn:EU.
    + destruct HA as [-> HR1]. split; [reflexivity|exact HR1].
    + destruct HA as [-> HR1]. cbn iota.
      destruct (ensure_rel b1 _ HR1) as [HR2 (x & y & HD)].
      destruct HR2 as (A1 & A2 & A3 & A4 & A5 & A6). rewrite HD in A6. destruct A6 as (B1 & B2 & B3 & B4).
      cbn [s_head s_body s_cached s_used] in *. split; [reflexivity|].
      unfold Rel. cbn [b_head b_body b_cached b_filter b_pos b_dstr b_fed s_head s_body s_cached s_used].
      rewrite HD. repeat split; try assumption; try congruence; try discriminate.
  - (* AIsCached *) split; [rewrite H3; reflexivity|exact HR].
Qed.

Theorem accessors_refine ops : forall b s, Rel b s -> block_run b ops = spec_run s ops.
Proof.
  induction ops as [|o t IH]; intros b s HR; cbn [Block.block_run Block.spec_run]; [reflexivity|].
  pose proof (block_step_spec b s o HR) as H.
  destruct (block_step b o) as [b' r]. destruct (spec_step s o) as [s' r'].
  destruct H as [-> HR']. rewrite (IH _ _ HR'). reflexivity.
Qed.

Lemma fresh_rel head body cached : Rel (fresh head body cached) (mksb head body cached false).
Proof. unfold Rel, fresh. cbn. repeat split; try reflexivity. lia. Qed.

End Proofs.
