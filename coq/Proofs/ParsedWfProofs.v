(** ParsedWfProofs.v — C19: the fields the header parser returns are well formed (so that
    serialising and parsing them again is the identity, Proofs/HeaderProofs.v), provided the input
    contains no RFC 2047 encoded-word marker "=?" (the decoder is an oracle; with it the statement
    is refuted, Properties/C19.v). *)
Require Import Model.Bytes Model.FieldDef Model.Fields Model.Policy Model.Spill Model.Stream Model.HeaderParse.
Require Import Proofs.BytesProofs Proofs.TrimProofs Proofs.NormalizeProofs Proofs.HeaderProofs.
From Coq Require Import Lia Bool.
Local Open Scope N_scope.

(** * infixes *)
Definition infix (x y : bytes) : Prop := exists a b, y = a ++ x ++ b.

Lemma infix_refl x : infix x x.
Proof. exists [], []. rewrite app_nil_r. reflexivity. Qed.
Lemma infix_trans x y z : infix x y -> infix y z -> infix x z.
Proof. intros (a & b & ->) (c & d & ->). exists (c ++ a), (b ++ d). rewrite <- !app_assoc. reflexivity. Qed.
Lemma infix_firstn n x : infix (firstn n x) x.
Proof. exists [], (skipn n x). cbn. apply eq_sym, firstn_skipn. Qed.
Lemma infix_skipn n x : infix (skipn n x) x.
Proof. exists (firstn n x), []. rewrite app_nil_r. apply eq_sym, firstn_skipn. Qed.

Lemma trim_left_suffix cut x : exists a, x = a ++ trim_left cut x.
Proof.
  induction x as [|c t IH]; [exists []; reflexivity|]. cbn [trim_left].
  destruct (cut c); [|exists []; reflexivity]. destruct IH as [a Ha]. exists (c :: a). cbn. rewrite <- Ha. reflexivity.
Qed.
Lemma trim_right_prefix cut x : exists b, x = trim_right cut x ++ b.
Proof.
  unfold trim_right. destruct (trim_left_suffix cut (rev x)) as [a Ha].
  exists (rev a). apply (f_equal (@rev byte)) in Ha. rewrite rev_involutive, rev_app_distr in Ha. exact Ha.
Qed.
Lemma infix_trim cut x : infix (trim cut x) x.
Proof.
  unfold trim. destruct (trim_left_suffix cut x) as [a Ha]. destruct (trim_right_prefix cut (trim_left cut x)) as [b Hb].
  exists a, b. rewrite <- Hb. exact Ha.
Qed.
Lemma infix_trim_right cut x : infix (trim_right cut x) x.
Proof. destruct (trim_right_prefix cut x) as [b Hb]. exists [], b. exact Hb. Qed.

Lemma no_byte_infix c x y : infix x y -> no_byte c y -> no_byte c x.
Proof. intros (a & b & ->) H. apply no_byte_app in H as [_ H]. apply no_byte_app in H as [H _]. exact H. Qed.

(** * the marker "=?" *)
Notation mk := enc_marker.
Lemma contains_app_r sub : forall a b, contains sub (a ++ b) = false -> contains sub b = false.
Proof.
  induction a as [|c t IH]; intros b H; [exact H|]. cbn [app contains] in H.
  apply orb_false_iff in H as [_ H]. apply IH. exact H.
Qed.
Lemma contains_infix sub x y : infix x y -> contains sub y = false -> contains sub x = false.
Proof. intros (a & b & ->) H. apply contains_app_r in H. apply (contains_app_l sub x b). exact H. Qed.

Lemma contains2_cons x y c b : c <> x -> contains [x; y] (c :: b) = contains [x; y] b.
Proof.
  intros Hc. cbn [contains has_prefix]. destruct (x =? c) eqn:E; [apply N.eqb_eq in E; congruence|]. reflexivity.
Qed.
Lemma contains2_app x y c : c <> y -> forall a b,
  contains [x; y] (a ++ c :: b) = contains [x; y] a || contains [x; y] (c :: b).
Proof.
  intros Hc. induction a as [|d t IH]; intros b.
  - cbn [app]. destruct b; reflexivity.
  - cbn [app]. change (contains [x; y] (d :: t ++ c :: b)) with (has_prefix [x; y] (d :: t ++ c :: b) || contains [x; y] (t ++ c :: b)).
    change (contains [x; y] (d :: t)) with (has_prefix [x; y] (d :: t) || contains [x; y] t).
    rewrite IH, orb_assoc. f_equal.
    cbn [has_prefix]. destruct (x =? d); [|reflexivity]. cbn [andb].
    destruct t as [|e t']; cbn [app has_prefix].
    + destruct (y =? c) eqn:E; [apply N.eqb_eq in E; congruence|]. reflexivity.
    + reflexivity.
Qed.

Lemma marker_join a b : contains mk a = false -> contains mk b = false ->
  contains mk (a ++ [58; 32] ++ b) = false.
Proof.
  intros Ha Hb. unfold enc_marker in *. cbn [app].
  rewrite (contains2_app 61 63 58) by discriminate. apply orb_false_iff. split; [exact Ha|].
  rewrite contains2_cons by discriminate. rewrite contains2_cons by discriminate. exact Hb.
Qed.
Lemma marker_join_sp a b : contains mk a = false -> contains mk b = false ->
  contains mk (a ++ [SP] ++ b) = false.
Proof.
  intros Ha Hb. unfold enc_marker in *. cbn [app].
  rewrite (contains2_app 61 63 SP) by discriminate. apply orb_false_iff. split; [exact Ha|].
  rewrite contains2_cons by discriminate. exact Hb.
Qed.

(** * Trim leaves no blank at either edge *)
Lemma trim_left_head cut x c t : trim_left cut x = c :: t -> cut c = false.
Proof.
  induction x as [|d u IH]; cbn [trim_left]; [discriminate|].
  destruct (cut d) eqn:E; [exact IH|]. intros H; inversion H; subst. exact E.
Qed.
Lemma trim_left_snoc_keep cut c : cut c = false -> forall a, trim_left cut (a ++ [c]) = trim_left cut a ++ [c].
Proof.
  intros Hc. induction a as [|d u IH]; cbn [app trim_left]; [rewrite Hc; reflexivity|].
  destruct (cut d); [exact IH|reflexivity].
Qed.
Lemma trim_right_cons_keep cut c t : cut c = false -> trim_right cut (c :: t) = c :: trim_right cut t.
Proof.
  intros Hc. unfold trim_right. cbn [rev]. rewrite (trim_left_snoc_keep cut c Hc), rev_app_distr. reflexivity.
Qed.
Lemma trim_right_last cut x : trim_right cut x <> [] -> cut (last (trim_right cut x) 0) = false.
Proof.
  unfold trim_right. destruct (trim_left cut (rev x)) as [|c t] eqn:E; [intros H; contradiction H; reflexivity|].
  intros _. cbn [rev]. rewrite last_snoc. eapply trim_left_head; exact E.
Qed.
Lemma trim_edge_ok cut x : edge_ok cut (trim cut x) = true.
Proof.
  unfold trim. destruct (trim_left cut x) as [|c t] eqn:E; [reflexivity|].
  pose proof (trim_left_head _ _ _ _ E) as Hc.
  rewrite (trim_right_cons_keep cut c t Hc).
  pose proof (trim_right_last cut (c :: t)) as Hl. rewrite (trim_right_cons_keep cut c t Hc) in Hl.
  cbn [edge_ok]. rewrite Hc, Hl by discriminate. reflexivity.
Qed.

(** * normalised names *)
Section Names.
Variable tbl : list fielddef.
Variable uni_lower : bytes -> bytes.
Hypothesis Htbl : table_ok tbl = true.
Hypothesis Htchar : forallb (fun d => forallb is_tchar (fd_name d)) tbl = true.
Notation normalize_name := (normalize_name tbl uni_lower).

Lemma normalize_cases s : forallb is_tchar (normalize_name s) = true \/ normalize_name s = s.
Proof.
  unfold Fields.normalize_name, normalize_def.
  destruct (lookup_def tbl (lower uni_lower s)) as [d|] eqn:E; cbn [fst].
  - left. apply lookup_in in E. rewrite forallb_forall in Htchar. apply Htchar. exact E.
  - unfold canonical_mime. destruct (forallb is_tchar s) eqn:Et; [left; apply canon_tchars; exact Et|right; reflexivity].
Qed.

(* a byte predicate that holds for every tchar *)
Lemma tchars_forall (P : byte -> bool) s : (forall c, is_tchar c = true -> P c = true) ->
  forallb is_tchar s = true -> forallb P s = true.
Proof.
  intros HP H. rewrite forallb_forall in *. intros c Hc. apply HP, H, Hc.
Qed.

Lemma tchar_not c d : is_tchar d = false -> is_tchar c = true -> negb (c =? d) = true.
Proof. intros Hd Hc. destruct (c =? d) eqn:E; [apply N.eqb_eq in E; subst; congruence|reflexivity]. Qed.

Lemma normalize_no_byte d s : is_tchar d = false -> no_byte d s -> no_byte d (normalize_name s).
Proof.
  intros Hd Hs. destruct (normalize_cases s) as [Ht| ->]; [|exact Hs].
  unfold no_byte. apply (tchars_forall _ _ (fun c => tchar_not c d Hd)). exact Ht.
Qed.

Lemma tchars_edge_ok s : forallb is_tchar s = true -> edge_ok is_sphtcrlf s = true.
Proof.
  intros H. destruct s as [|c t]; [reflexivity|]. cbn [edge_ok].
  assert (Hall : forall x, In x (c :: t) -> is_sphtcrlf x = false).
  { rewrite forallb_forall in H. intros x Hx. specialize (H x Hx).
    unfold is_sphtcrlf. destruct (x =? 32) eqn:E1; [apply N.eqb_eq in E1; subst; discriminate|].
    destruct (x =? 9) eqn:E2; [apply N.eqb_eq in E2; subst; discriminate|].
    destruct (x =? 13) eqn:E3; [apply N.eqb_eq in E3; subst; discriminate|].
    destruct (x =? 10) eqn:E4; [apply N.eqb_eq in E4; subst; discriminate|]. reflexivity. }
  rewrite (Hall c (or_introl eq_refl)).
  assert (Hl : In (last (c :: t) 0) (c :: t)).
  { clear. revert c; induction t as [|d u IH]; intros c; [left; reflexivity|]. right. apply IH. }
  rewrite (Hall _ Hl). reflexivity.
Qed.

Lemma normalize_edge_ok s : edge_ok is_sphtcrlf s = true -> edge_ok is_sphtcrlf (normalize_name s) = true.
Proof. intros Hs. destruct (normalize_cases s) as [Ht| ->]; [apply tchars_edge_ok; exact Ht|exact Hs]. Qed.

Lemma tchars_no_marker s : forallb is_tchar s = true -> contains enc_marker s = false.
Proof.
  unfold enc_marker. induction s as [|c t IH]; intros H; [reflexivity|].
  cbn [forallb] in H. apply andb_true_iff in H as [Hc Ht].
  rewrite contains2_cons; [apply IH; exact Ht|]. intros ->. discriminate.
Qed.

Lemma normalize_no_marker s : contains enc_marker s = false -> contains enc_marker (normalize_name s) = false.
Proof. intros Hs. destruct (normalize_cases s) as [Ht| ->]; [apply tchars_no_marker; exact Ht|exact Hs]. Qed.

End Names.

Lemma index_byte_firstn c : forall s i, index_byte c s = Some i -> no_byte c (firstn i s).
Proof.
  induction s as [|x t IH]; intros i Hi; cbn [index_byte] in Hi; [discriminate|].
  destruct (x =? c) eqn:E.
  - inversion Hi; subst. reflexivity.
  - destruct (index_byte c t) as [j|] eqn:Ej; [|discriminate]. inversion Hi; subst.
    cbn [firstn]. unfold no_byte. cbn [forallb]. rewrite E. cbn [negb andb]. apply IH. reflexivity.
Qed.

Section Parsed.
Variable tbl : list fielddef.
Variable uni_lower : bytes -> bytes.
Variable mime_dec : bytes -> option bytes.
Hypothesis Htbl : table_ok tbl = true.
Hypothesis Htchar : forallb (fun d => forallb is_tchar (fd_name d)) tbl = true.
Notation normalize_name := (normalize_name tbl uni_lower).
Notation parse_line := (parse_line tbl uni_lower mime_dec).
Notation parse_loop := (parse_loop tbl uni_lower mime_dec).
Notation parse_fields := (parse_fields tbl uni_lower mime_dec).
Notation wf_field := (wf_field tbl uni_lower).

Definition all_wf (fs : fields) : Prop := forall f, In f fs -> wf_field f.
Definition clean (x : bytes) : Prop := contains enc_marker x = false.

Lemma parse_line_wf line fs fs' :
  no_byte LF line -> clean line -> all_wf fs -> parse_line line fs = Some fs' -> all_wf fs'.
Proof.
  intros Hlf Hcl Hwf. unfold HeaderParse.parse_line.
  set (l := trim_right is_sphtcrlf line).
  assert (Hinf : infix l line) by apply infix_trim_right.
  assert (Hl_cl : clean l) by (eapply contains_infix; eauto).
  assert (Hl_lf : no_byte LF l) by (eapply no_byte_infix; eauto).
  unfold decode_header. rewrite Hl_cl.
  destruct (index_byte COLON l) as [i|] eqn:Ei; [|discriminate].
  intros HH; inversion HH; subst fs'. unfold m_add.
  intros f Hin. apply in_app_or in Hin as [Hin|[<-|[]]]; [apply Hwf; exact Hin|].
  set (rawn := trim is_sphtcrlf (firstn i l)). set (v := trim is_sphtcrlf (skipn (S i) l)).
  assert (Hn_inf : infix rawn l) by (eapply infix_trans; [apply infix_trim|apply infix_firstn]).
  assert (Hv_inf : infix v l) by (eapply infix_trans; [apply infix_trim|apply infix_skipn]).
  constructor; cbn [fst snd].
  - apply (normalize_idem tbl Htbl).
  - apply (normalize_no_byte tbl uni_lower Htchar); [reflexivity|].
    eapply no_byte_infix; [apply infix_trim|]. apply index_byte_firstn. exact Ei.
  - apply (normalize_no_byte tbl uni_lower Htchar); [reflexivity|]. eapply no_byte_infix; eauto.
  - eapply no_byte_infix; eauto.
  - apply (normalize_edge_ok tbl uni_lower Htchar). apply trim_edge_ok.
  - apply trim_edge_ok.
  - apply marker_join; [apply (normalize_no_marker tbl uni_lower Htchar)|]; eapply contains_infix; eauto.
Qed.

(** lines *)
Lemma take_through_shape d : forall s l, take_through d s = Some l ->
  exists a, l = a ++ [d] /\ no_byte d a /\ s = l ++ skipn (length l) s.
Proof.
  induction s as [|c t IH]; intros l Hl; cbn [take_through] in Hl; [discriminate|].
  destruct (c =? d) eqn:E.
  - inversion Hl; subst. apply N.eqb_eq in E; subst. exists []. repeat split.
  - destruct (take_through d t) as [l'|] eqn:E'; [|discriminate]. inversion Hl; subst.
    destruct (IH l' eq_refl) as (a & -> & Ha & Hs). exists (c :: a). repeat split.
    + unfold no_byte in *. cbn [forallb]. rewrite E. exact Ha.
    + cbn [length skipn app]. f_equal. exact Hs.
Qed.
Lemma take_through_none d : forall s, take_through d s = None -> no_byte d s.
Proof.
  induction s as [|c t IH]; intros H; [reflexivity|]. cbn [take_through] in H.
  destruct (c =? d) eqn:E; [discriminate|]. destruct (take_through d t); [discriminate|].
  unfold no_byte in *. cbn [forallb]. rewrite E. apply IH. reflexivity.
Qed.

Lemma trim_left_app cut a b :
  trim_left cut (a ++ b) = if forallb cut a then trim_left cut b else trim_left cut a ++ b.
Proof.
  induction a as [|c t IH]; [reflexivity|]. cbn [app trim_left forallb].
  destruct (cut c); [exact IH|reflexivity].
Qed.
Lemma trim_left_all cut a : forallb cut a = true -> trim_left cut a = [].
Proof. induction a as [|c t IH]; [reflexivity|]. cbn. destruct (cut c); [exact IH|discriminate]. Qed.
Lemma trim_snoc_drop cut a c : cut c = true -> trim cut (a ++ [c]) = trim cut a.
Proof.
  intros Hc. unfold trim. rewrite trim_left_app. destruct (forallb cut a) eqn:E.
  - cbn [trim_left]. rewrite Hc. rewrite (trim_left_all cut a E). reflexivity.
  - apply trim_right_snoc_drop. exact Hc.
Qed.

Lemma read_line_props p s l nc e s1 : clean (sdata s) -> read_line p s = (l, nc, e, s1) ->
  no_byte LF l /\ clean l /\ clean (sdata s1).
Proof.
  intros Hc. unfold read_line, read_bytes.
  destruct (take_through LF (sdata s)) as [raw|] eqn:E.
  - destruct (take_through_shape _ _ _ E) as (a & -> & Ha & Hs).
    assert (Hl : no_byte LF (trim is_sphtcrlf (a ++ [LF])) /\ clean (trim is_sphtcrlf (a ++ [LF]))).
    { rewrite trim_snoc_drop by reflexivity. split.
      - eapply no_byte_infix; [apply infix_trim|exact Ha].
      - eapply contains_infix; [|exact Hc]. eapply infix_trans; [apply infix_trim|].
        exists [], ([LF] ++ skipn (length (a ++ [LF])) (sdata s)). cbn [app]. rewrite Hs at 1. rewrite <- app_assoc. reflexivity. }
    assert (Hs1 : clean (skipn (length (a ++ [LF])) (sdata s))).
    { eapply contains_infix; [apply infix_skipn|exact Hc]. }
    cbn [sdata stail].
    destruct p; cbn [policy_gt_ignore andb]; repeat match goal with |- context [if ?c then _ else _] => destruct c end;
      intros HH; inversion HH; subst; cbn [sdata]; tauto.
  - pose proof (take_through_none _ _ E) as Hn. cbn [sdata stail].
    destruct (stail s); intros HH; inversion HH; subst; cbn [sdata]; repeat split; try reflexivity;
      try (eapply no_byte_infix; [apply infix_trim|exact Hn]); try (eapply contains_infix; [apply infix_trim|exact Hc]).
Qed.

Definition okwf (r : res (fields * stream)) : Prop :=
  match r with Ok (fs', _) _ => all_wf fs' | Err _ _ => True end.
Lemma site_okwf p e fnd k : (forall f, okwf (k f)) -> okwf (site p e fnd k).
Proof. intros Hk. destruct p; cbn; auto. Qed.

Lemma cont_loop_props p : forall fuel line nc s fnd line2 nc2 s2 fnd2,
  no_byte LF line -> clean line -> clean (sdata s) ->
  cont_loop fuel p line nc s fnd = Ok (line2, nc2, s2) fnd2 ->
  no_byte LF line2 /\ clean line2 /\ clean (sdata s2).
Proof.
  induction fuel as [|f IH]; intros line nc s fnd line2 nc2 s2 fnd2 Hlf Hcl Hs; cbn [HeaderParse.cont_loop].
  - destruct (_ || _); intros HH; inversion HH; subst; tauto.
  - destruct (_ || _); [|intros HH; inversion HH; subst; tauto].
    destruct (read_line p s) as [[[l nc'] e] s'] eqn:Er.
    destruct (read_line_props _ _ _ _ _ _ Hs Er) as (Hl1 & Hl2 & Hs').
    assert (Hgo : forall fnd', cont_loop f p (line ++ [SP] ++ l) nc' s' fnd' = Ok (line2, nc2, s2) fnd2 ->
                    no_byte LF line2 /\ clean line2 /\ clean (sdata s2)).
    { intros fnd'. apply IH; [|apply marker_join_sp; assumption|exact Hs'].
      apply no_byte_app. split; [exact Hlf|]. apply no_byte_app. split; [reflexivity|exact Hl1]. }
    destruct e; [apply Hgo| | |]; (destruct l; [intros HH; discriminate|]); try (intros HH; discriminate);
      destruct p; cbn [site]; try (intros HH; discriminate); apply Hgo.
Qed.

Lemma parse_loop_wf p : forall fuel fs s fnd, all_wf fs -> clean (sdata s) ->
  okwf (parse_loop fuel p fs s fnd).
Proof.
  induction fuel as [|f IH]; intros fs s fnd Hwf Hs; cbn [HeaderParse.parse_loop]; [exact I|].
  destruct (read_line p s) as [[[line nc] e] s1] eqn:Er. cbv zeta.
  destruct (read_line_props _ _ _ _ _ _ Hs Er) as (Hl1 & Hl2 & Hs1).
  assert (Hafter : forall eoh fnd1, okwf
      match cont_loop f p line nc s1 fnd1 with
      | Err k fnd2 => Err k fnd2
      | Ok (line2, nc2, s2) fnd2 =>
          match parse_line line2 fs with
          | Some fs' =>
              if eoh : bool then Ok (fs', s2) fnd2
              else if nc2 =? CR then
                let '(l, e2, s3) := read_bytes LF s2 in
                match e2 with
                | None => if (length l =? 2)%nat then Ok (fs', s3) fnd2 else Err (KMarker, []) fnd2
                | Some _ => Err (KMarker, []) fnd2
                end
              else if nc2 =? LF then
                let '(l, e2, s3) := read_bytes LF s2 in
                match e2 with
                | None => if (2 <? length l)%nat then Err (KMarker, []) fnd2 else Ok (fs', s3) fnd2
                | Some _ => Err (KMarker, []) fnd2
                end
              else parse_loop f p fs' s2 fnd2
          | None =>
              site p syn fnd2 (fun fnd3 =>
                if eoh then Ok (fs, s2) fnd3
                else if nc2 =? CR then
                  let '(l, e2, s3) := read_bytes LF s2 in
                  match e2 with
                  | None => if (length l =? 2)%nat then Ok (fs, s3) fnd3 else Err (KMarker, []) fnd3
                  | Some _ => Err (KMarker, []) fnd3
                  end
                else if nc2 =? LF then
                  let '(l, e2, s3) := read_bytes LF s2 in
                  match e2 with
                  | None => if (2 <? length l)%nat then Err (KMarker, []) fnd3 else Ok (fs, s3) fnd3
                  | Some _ => Err (KMarker, []) fnd3
                  end
                else parse_loop f p fs s2 fnd3)
          end
      end).
  { intros eoh fnd1.
    destruct (cont_loop f p line nc s1 fnd1) as [[[line2 nc2] s2] fnd2|k fnd2] eqn:Ec; [|exact I].
    destruct (cont_loop_props _ _ _ _ _ _ _ _ _ _ Hl1 Hl2 Hs1 Ec) as (Hc1 & Hc2 & Hc3).
    assert (Hfin : forall fs' fnd3, all_wf fs' -> okwf
              (if eoh : bool then Ok (fs', s2) fnd3
               else if nc2 =? CR then
                 let '(l, e2, s3) := read_bytes LF s2 in
                 match e2 with
                 | None => if (length l =? 2)%nat then Ok (fs', s3) fnd3 else Err (KMarker, []) fnd3
                 | Some _ => Err (KMarker, []) fnd3
                 end
               else if nc2 =? LF then
                 let '(l, e2, s3) := read_bytes LF s2 in
                 match e2 with
                 | None => if (2 <? length l)%nat then Err (KMarker, []) fnd3 else Ok (fs', s3) fnd3
                 | Some _ => Err (KMarker, []) fnd3
                 end
               else parse_loop f p fs' s2 fnd3)).
    { intros fs' fnd3 Hwf'. destruct eoh; [exact Hwf'|].
      destruct (nc2 =? CR).
      - destruct (read_bytes LF s2) as [[l e2] s3]. destruct e2; [exact I|]. destruct (_ =? _)%nat; [exact Hwf'|exact I].
      - destruct (nc2 =? LF); [|apply IH; assumption].
        destruct (read_bytes LF s2) as [[l e2] s3]. destruct e2; [exact I|]. destruct (_ <? _)%nat; [exact I|exact Hwf']. }
    destruct (parse_line line2 fs) as [fs'|] eqn:Ep.
    - apply Hfin. eapply parse_line_wf; eauto.
    - apply site_okwf. intros fnd3. apply Hfin. exact Hwf. }
  destruct e.
  - exact (Hafter false fnd).
  - destruct line; [exact Hwf|apply site_okwf; intros fnd1; exact (Hafter true fnd1)].
  - exact I.
  - apply site_okwf. intros fnd1. exact (Hafter false fnd1).
Qed.

(** every field the header parser returns is well formed *)
Theorem parsed_fields_are_wf p s fnd fs s' fnd' :
  clean (sdata s) -> parse_fields p s fnd = Ok (fs, s') fnd' -> all_wf fs.
Proof.
  intros Hs Hp. pose proof (parse_loop_wf p (S (S (length (sdata s)))) [] s fnd) as Hw.
  unfold HeaderParse.parse_fields in Hp. rewrite Hp in Hw. apply Hw; [intros f []|exact Hs].
Qed.

(** hence one parse reaches the fixpoint *)
Theorem parse_is_a_fixpoint p q s fnd fs s' fnd' rest tl fnd2 :
  clean (sdata s) -> parse_fields p s fnd = Ok (fs, s') fnd' -> fs <> [] ->
  parse_fields q (mkst (serialize fs ++ rest) tl) fnd2 = Ok (fs, mkst rest tl) fnd2.
Proof.
  intros Hs Hp Hne. apply (parse_serialize tbl uni_lower mime_dec); [|exact Hne].
  eapply parsed_fields_are_wf; eauto.
Qed.

End Parsed.
