(** RepairProofs.v — C03, last sentence: with the repair options on under warn, the header values
    afterwards equal the true length and digests of the block. *)
Require Import Model.Bytes Model.FieldDef Gen.FieldTable Model.Fields Model.Policy Model.Validate Model.Spill
               Model.Stream Model.HeaderParse Model.Digest Model.Record.
Require Import Proofs.BytesProofs Proofs.FieldsProofs Proofs.NormalizeProofs Proofs.GetSetProofs Proofs.RecordProofs
               Proofs.BuildProofs.
From Coq Require Import Lia.
Local Open Scope N_scope.

Section Repair.
Variable uni_lower uni_upper : bytes -> bytes.
Variable H : alg -> bytes -> bytes.
Variables b32_decode b64_decode : bytes -> option bytes.
Notation tbl := field_table.
Notation key := (normalize_name tbl uni_lower).
Notation m_get := (m_get tbl uni_lower).
Notation m_set := (m_set tbl uni_lower).
Notation m_has := (m_has tbl uni_lower).
Notation validate_digest := (validate_digest tbl uni_lower H b32_decode b64_decode).
Notation check_digest := (check_digest tbl uni_lower H b32_decode b64_decode).
Notation disagrees := (disagrees H b32_decode b64_decode).
Notation format := (format H).

(* the text of the true digest of the bytes fed to d, in d's algorithm and encoding *)
Definition true_digest_text (d : digest) : bytes := format (update_digest H d).

Lemma kd : key n_content_length <> key n_block_digest /\ key n_content_length <> key n_payload_digest /\
           key n_block_digest <> key n_payload_digest /\ key n_segment_number <> key n_block_digest /\
           key n_segment_number <> key n_payload_digest /\ key n_segment_number <> key n_content_length.
Proof. repeat split; vm_compute; discriminate. Qed.

(* one digest check site under warn with the digest repair on *)
Lemma check_digest_warn_fix o field d cached hs fnd (k : fields -> digest -> list finding -> res fields) :
  o_spec o = Warn -> o_fix_digest o = true -> disagrees d = true ->
  check_digest o field d cached hs fnd k = k (m_set field (true_digest_text d) hs) (update_digest H d) (fnd ++ [(KDigest, field)]).
Proof.
  intros Hs Hf Hd. unfold Record.check_digest, RecordProofs.disagrees, declared in *.
  destruct (d_hash d); [discriminate|]. cbn [andb] in Hd. rewrite Hs, Hf. cbn [policy_gt_ignore andb]. rewrite Hd. reflexivity.
Qed.

Theorem validate_digest_warn_repairs o rt hs b bd pd cached fnd hs' fnd' :
  o_spec o = Warn -> o_fix_cl o = true -> o_fix_digest o = true ->
  validate_digest o rt hs b bd pd cached fnd = Ok hs' fnd' ->
  (m_has n_content_length hs = true -> m_get n_content_length hs' = itoa (Z.of_nat (length (raw_bytes b)))) /\
  (disagrees bd = true -> m_get n_block_digest hs' = true_digest_text bd).
Proof.
  intros Hs Hfc Hfd. destruct kd as (K1 & K2 & K3 & K4 & K5 & K6).
  unfold Record.validate_digest. cbv zeta. rewrite Hs, Hfc. cbn [policy_gt_ignore andb].
  set (size := itoa (Z.of_nat (length (raw_bytes b)))).
  (* whatever header the length step hands on has the true length when a length was declared *)
  assert (Hk : forall hs1 fnd1,
    (m_has n_content_length hs = true -> m_get n_content_length hs1 = size) ->
    check_digest o n_block_digest bd cached hs1 fnd1 (fun hs2 bd2 fnd2 =>
      if (rt =? 32) || m_has n_segment_number hs2 then Ok hs2 fnd2
      else match match bk b with
                 | BGeneric => if rt =? 4 then pd else None
                 | BHttpReq | BHttpResp => pd
                 | _ => None
                 end with
           | None => Ok hs2 fnd2
           | Some p => check_digest o n_payload_digest p cached hs2 fnd2 (fun hs3 _ fnd3 => Ok hs3 fnd3)
           end) = Ok hs' fnd' ->
    (m_has n_content_length hs = true -> m_get n_content_length hs' = size) /\
    (disagrees bd = true -> m_get n_block_digest hs' = true_digest_text bd)).
  { intros hs1 fnd1 Hcl1 Hrun.
    (* after the block digest site: the length field is untouched, the block digest repaired when it disagreed *)
    assert (Hpay : forall hs2 fnd2 hsx fndx,
      (if (rt =? 32) || m_has n_segment_number hs2 then Ok hs2 fnd2
       else match match bk b with
                  | BGeneric => if rt =? 4 then pd else None
                  | BHttpReq | BHttpResp => pd
                  | _ => None
                  end with
            | None => Ok hs2 fnd2
            | Some p => check_digest o n_payload_digest p cached hs2 fnd2 (fun hs3 _ fnd3 => Ok hs3 fnd3)
            end) = Ok hsx fndx ->
      m_get n_content_length hsx = m_get n_content_length hs2 /\ m_get n_block_digest hsx = m_get n_block_digest hs2).
    { intros hs2 fnd2 hsx fndx Hp.
      destruct ((rt =? 32) || m_has n_segment_number hs2); [inversion Hp; split; reflexivity|].
      destruct (match bk b with BGeneric => if rt =? 4 then pd else None | BHttpReq | BHttpResp => pd | _ => None end) as [p|];
        [|inversion Hp; split; reflexivity].
      unfold Record.check_digest in Hp.
      repeat match type of Hp with
             | context [match ?x with _ => _ end] =>
                 match type of x with
                 | bytes => destruct x eqn:?
                 | bool => destruct x eqn:?
                 | policy => destruct x eqn:?
                 end
             end; inversion Hp; subst; split; try reflexivity;
        rewrite (get_set_other tbl uni_lower); try reflexivity; assumption. }
    unfold Record.check_digest in Hrun at 1.
    destruct (d_hash bd) as [|c t] eqn:Eh.
    - (* no block digest declared *)
      assert (Hnd : disagrees bd = false) by (unfold RecordProofs.disagrees, declared; rewrite Eh; reflexivity).
      destruct (o_add_digest o && (policy_gt_ignore (o_spec o) || cached)).
      + apply Hpay in Hrun as [H1 H2]. split; [intros Hh; rewrite H1, (get_set_other tbl uni_lower) by exact K1; apply Hcl1; exact Hh|].
        intros Hd; congruence.
      + apply Hpay in Hrun as [H1 H2]. split; [intros Hh; rewrite H1; apply Hcl1; exact Hh|intros Hd; congruence].
    - rewrite Hs, Hfd in Hrun. cbn [policy_gt_ignore andb] in Hrun.
      destruct (dvalidate H b32_decode b64_decode bd) eqn:Ev; cbn [negb] in Hrun.
      + assert (Hnd : disagrees bd = false) by (unfold RecordProofs.disagrees; rewrite Ev; apply Bool.andb_false_r).
        apply Hpay in Hrun as [H1 H2]. split; [intros Hh; rewrite H1; apply Hcl1; exact Hh|intros Hd; congruence].
      + apply Hpay in Hrun as [H1 H2]. split.
        * intros Hh. rewrite H1, (get_set_other tbl uni_lower) by exact K1. apply Hcl1; exact Hh.
        * intros _. rewrite H2. apply get_set_same. }
  destruct (m_has n_content_length hs && negb (bytes_eqb size (m_get n_content_length hs))) eqn:EL.
  - apply Hk. intros _. apply get_set_same.
  - apply Hk. intros Hh. rewrite Hh in EL. cbn [andb] in EL. apply Bool.negb_false_iff in EL.
    apply bytes_eqb_eq in EL. symmetry. exact EL.
Qed.

Theorem validate_digest_warn_repairs_payload o rt hs b bd pd cached fnd hs' fnd' p :
  o_spec o = Warn -> o_fix_cl o = true -> o_fix_digest o = true ->
  (rt =? 32) = false -> m_has n_segment_number hs = false ->
  payload_obj rt b pd = Some p -> disagrees p = true ->
  validate_digest o rt hs b bd pd cached fnd = Ok hs' fnd' ->
  m_get n_payload_digest hs' = true_digest_text p.
Proof.
  intros Hs Hfc Hfd Hrt Hseg Hp Hdp. destruct kd as (K1 & K2 & K3 & K4 & K5 & K6).
  unfold Record.validate_digest. cbv zeta. rewrite Hs, Hfc. cbn [policy_gt_ignore andb].
  fold (payload_obj rt b pd). rewrite Hp, Hrt. cbn [orb].
  set (size := itoa (Z.of_nat (length (raw_bytes b)))).
  assert (Hk : forall hs1 fnd1, m_has n_segment_number hs1 = false ->
    check_digest o n_block_digest bd cached hs1 fnd1 (fun hs2 bd2 fnd2 =>
      if m_has n_segment_number hs2 then Ok hs2 fnd2
      else check_digest o n_payload_digest p cached hs2 fnd2 (fun hs3 _ fnd3 => Ok hs3 fnd3)) = Ok hs' fnd' ->
    m_get n_payload_digest hs' = true_digest_text p).
  { intros hs1 fnd1 Hseg1 Hrun.
    assert (Hpay : forall hs2 fnd2, m_has n_segment_number hs2 = false ->
      (if m_has n_segment_number hs2 then Ok hs2 fnd2
       else check_digest o n_payload_digest p cached hs2 fnd2 (fun hs3 _ fnd3 => Ok hs3 fnd3)) = Ok hs' fnd' ->
      m_get n_payload_digest hs' = true_digest_text p).
    { intros hs2 fnd2 Hseg2 Hx. rewrite Hseg2 in Hx. rewrite (check_digest_warn_fix _ _ _ _ _ _ _ Hs Hfd Hdp) in Hx.
      inversion Hx; subst. apply get_set_same. }
    unfold Record.check_digest in Hrun at 1.
    destruct (d_hash bd) as [|c t].
    - destruct (o_add_digest o && (policy_gt_ignore (o_spec o) || cached)); eapply Hpay; try exact Hrun.
      + rewrite (has_set_other uni_lower) by exact K4. exact Hseg1.
      + exact Hseg1.
    - rewrite Hs, Hfd in Hrun. cbn [policy_gt_ignore andb] in Hrun.
      destruct (dvalidate H b32_decode b64_decode bd); cbn [negb] in Hrun; eapply Hpay; try exact Hrun.
      + exact Hseg1.
      + rewrite (has_set_other uni_lower) by exact K4. exact Hseg1. }
  destruct (m_has n_content_length hs && negb (bytes_eqb size (m_get n_content_length hs))).
  - apply Hk. rewrite (has_set_other uni_lower) by exact K6. exact Hseg.
  - apply Hk. exact Hseg.
Qed.

End Repair.
