(** Codec3264Proofs.v — the digest text codec contract of Proofs/BuiltValidProofs.v for the base32
    and base64 encodings.  The encoders are modelled (Model/Digest.v); the decoders of the Go
    standard library are oracles, of which one thing is assumed: they invert the encoders on
    the hash values that occur (decode (encode (H a x)) = H a x).  Everything else - the length by which newDigest
    recognises the encoding for every supported algorithm, md5's '=' rule, the alphabets and
    hence that the written text is a clean header value that case mapping leaves alone - is
    proved of the modelled encoders. *)
Require Import Model.Bytes Model.FieldDef Gen.FieldTable Model.Fields Model.Policy Model.Validate Model.Stream
               Model.HeaderParse Model.Digest Model.Record.
Require Import Proofs.BytesProofs Proofs.FieldsProofs Proofs.NormalizeProofs Proofs.DigestProofs Proofs.TrimProofs
               Proofs.HeaderProofs Proofs.BuiltValidProofs Proofs.CodecProofs.
From Coq Require Import Lia Arith ZifyNat ZifyN ZifyBool.
Local Open Scope N_scope.
Ltac Zify.zify_post_hook ::= Z.div_mod_to_equations.

(** ** alphabets *)
Definition is_b32 (c : byte) : bool := is_upper c || ((50 <=? c) && (c <=? 55)) || (c =? 61).
Definition is_b64 (c : byte) : bool := is_upper c || is_lower c || is_digit c || (c =? 43) || (c =? 47) || (c =? 61).
(* what both have in common and the proofs below use *)
Definition is_txt (c : byte) : bool := (33 <=? c) && (c <? 127) && negb (c =? 63) && negb (c =? 58).

Lemma b32_txt c : is_b32 c = true -> is_txt c = true.
Proof. unfold is_b32, is_txt, is_upper. lia. Qed.
Lemma b64_txt c : is_b64 c = true -> is_txt c = true.
Proof. unfold is_b64, is_txt, is_upper, is_lower, is_digit. lia. Qed.
Lemma b32_upper c : is_b32 c = true -> upper_byte c = c.
Proof. unfold is_b32, upper_byte, is_upper, is_lower. intros Hc. destruct ((97 <=? c) && (c <=? 122)) eqn:E; [lia|reflexivity]. Qed.

Lemma b32char_alpha n : n < 32 -> is_b32 (b32char n) = true.
Proof. unfold is_b32, b32char, is_upper. intros Hn. destruct (n <? 26) eqn:E; lia. Qed.
Lemma b64char_alpha n : n < 64 -> is_b64 (b64char n) = true.
Proof.
  unfold is_b64, b64char, is_upper, is_lower, is_digit. intros Hn.
  destruct (n <? 26) eqn:E1; [lia|]. destruct (n <? 52) eqn:E2; [lia|]. destruct (n <? 62) eqn:E3; [lia|].
  destruct (n =? 62) eqn:E4; lia.
Qed.

Lemma digits_msb_length bits total cnt v : length (digits_msb bits total cnt v) = cnt.
Proof. revert total. induction cnt as [|c IH]; intros total; cbn [digits_msb length]; [reflexivity|]. rewrite IH. reflexivity. Qed.
Lemma digits_msb_bound bits total cnt v d : In d (digits_msb bits total cnt v) -> d < 2 ^ bits.
Proof.
  revert total. induction cnt as [|c IH]; intros total; cbn [digits_msb In]; [tauto|].
  intros [<-|Hin]; [apply N.mod_lt; apply N.pow_nonzero; discriminate|exact (IH _ Hin)].
Qed.

Lemma forallb_app {A} (P : A -> bool) a b : forallb P (a ++ b) = forallb P a && forallb P b.
Proof. induction a as [|x t IH]; [reflexivity|]. cbn [app forallb]. rewrite IH. apply andb_assoc. Qed.
Lemma forallb_pad P n : P 61 = true -> forallb P (pad n) = true.
Proof. intros HP. unfold pad. induction n as [|k IH]; [reflexivity|]. cbn [repeat forallb]. rewrite HP, IH. reflexivity. Qed.
Lemma forallb_map_digits (P : byte -> bool) (f : N -> byte) bits total cnt v :
  (forall n, n < 2 ^ bits -> P (f n) = true) -> forallb P (map f (digits_msb bits total cnt v)) = true.
Proof.
  intros Hf. apply forallb_forall. intros c Hc. apply in_map_iff in Hc as (d & <- & Hd). apply Hf.
  exact (digits_msb_bound _ _ _ _ _ Hd).
Qed.

Lemma pad_snoc n : pad (S n) = pad n ++ [61].
Proof. unfold pad. induction n as [|k IH]; [reflexivity|]. cbn [repeat app] in *. rewrite <- IH. reflexivity. Qed.

(** ** the encoders, one group at a time *)
Definition chars32 (n : nat) : nat := match n with 1 => 2 | 2 => 4 | 3 => 5 | 4 => 7 | _ => 8 end%nat.
Definition chunk32 (g : bytes) : bytes :=
  map b32char (digits_msb 5 40 (chars32 (length g)) (be_value 5 g)) ++ pad (8 - chars32 (length g)).
Definition chars64 (n : nat) : nat := match n with 1 => 2 | 2 => 3 | _ => 4 end%nat.
Definition chunk64 (g : bytes) : bytes :=
  map b64char (digits_msb 6 24 (chars64 (length g)) (be_value 3 g)) ++ pad (4 - chars64 (length g)).

Lemma b32_step f a t : b32_encode_fuel (S f) (a :: t) = chunk32 (firstn 5 (a :: t)) ++ b32_encode_fuel f (skipn 5 (a :: t)).
Proof. unfold chunk32. rewrite <- app_assoc. reflexivity. Qed.
Lemma b64_step f a t : b64_encode_fuel (S f) (a :: t) = chunk64 (firstn 3 (a :: t)) ++ b64_encode_fuel f (skipn 3 (a :: t)).
Proof. unfold chunk64. rewrite <- app_assoc. reflexivity. Qed.

Lemma chars32_le n : (chars32 n <= 8)%nat.
Proof. destruct n as [|[|[|[|[|n]]]]]; cbn; lia. Qed.
Lemma chars64_le n : (chars64 n <= 4)%nat.
Proof. destruct n as [|[|[|n]]]; cbn; lia. Qed.

Lemma chunk32_length g : length (chunk32 g) = 8%nat.
Proof. unfold chunk32, pad. rewrite app_length, map_length, digits_msb_length, repeat_length. pose proof (chars32_le (length g)). lia. Qed.
Lemma chunk64_length g : length (chunk64 g) = 4%nat.
Proof. unfold chunk64, pad. rewrite app_length, map_length, digits_msb_length, repeat_length. pose proof (chars64_le (length g)). lia. Qed.

Lemma chunk32_alpha g : forallb is_b32 (chunk32 g) = true.
Proof.
  unfold chunk32. rewrite forallb_app. apply andb_true_iff. split.
  - apply forallb_map_digits. intros n Hn. apply b32char_alpha. exact Hn.
  - apply forallb_pad. reflexivity.
Qed.
Lemma chunk64_alpha g : forallb is_b64 (chunk64 g) = true.
Proof.
  unfold chunk64. rewrite forallb_app. apply andb_true_iff. split.
  - apply forallb_map_digits. intros n Hn. apply b64char_alpha. exact Hn.
  - apply forallb_pad. reflexivity.
Qed.

Lemma b32_alpha f s : forallb is_b32 (b32_encode_fuel f s) = true.
Proof.
  revert s. induction f as [|f IH]; intros s; [reflexivity|]. destruct s as [|a t]; [reflexivity|].
  rewrite b32_step, forallb_app, chunk32_alpha, IH. reflexivity.
Qed.
Lemma b64_alpha f s : forallb is_b64 (b64_encode_fuel f s) = true.
Proof.
  revert s. induction f as [|f IH]; intros s; [reflexivity|]. destruct s as [|a t]; [reflexivity|].
  rewrite b64_step, forallb_app, chunk64_alpha, IH. reflexivity.
Qed.

Lemma b32_fuel_length f s : (length s < f)%nat -> length (b32_encode_fuel f s) = b32_len (length s).
Proof.
  revert s. induction f as [|f IH]; intros s Hf; [lia|]. destruct s as [|a t]; [reflexivity|].
  rewrite b32_step, app_length, chunk32_length, IH by (rewrite skipn_length; cbn [length] in *; lia).
  rewrite skipn_length. unfold b32_len. cbn [length]. lia.
Qed.
Lemma b64_fuel_length f s : (length s < f)%nat -> length (b64_encode_fuel f s) = b64_len (length s).
Proof.
  revert s. induction f as [|f IH]; intros s Hf; [lia|]. destruct s as [|a t]; [reflexivity|].
  rewrite b64_step, app_length, chunk64_length, IH by (rewrite skipn_length; cbn [length] in *; lia).
  rewrite skipn_length. unfold b64_len. cbn [length]. lia.
Qed.
Lemma b32_encode_length s : length (b32_encode s) = b32_len (length s).
Proof. apply b32_fuel_length. lia. Qed.
Lemma b64_encode_length s : length (b64_encode s) = b64_len (length s).
Proof. apply b64_fuel_length. lia. Qed.

(** a base32 text of a byte string whose length is no multiple of five ends with '=' (md5: 16) *)
Lemma chunk32_short_ends_pad g : (0 < length g < 5)%nat -> exists pre, chunk32 g = pre ++ [61].
Proof.
  intros Hg. unfold chunk32.
  assert (Hk : exists k, (8 - chars32 (length g))%nat = S k).
  { destruct (length g) as [|[|[|[|[|n]]]]]; cbn; try lia; eexists; reflexivity. }
  destruct Hk as [k ->]. rewrite pad_snoc. eexists. rewrite app_assoc. reflexivity.
Qed.
Lemma b32_fuel_ends_pad f s : (length s < f)%nat -> (length s mod 5 <> 0)%nat -> exists pre, b32_encode_fuel f s = pre ++ [61].
Proof.
  revert s. induction f as [|f IH]; intros s Hf Hm; [lia|]. destruct s as [|a t]; [cbn in Hm; congruence|].
  rewrite b32_step. destruct (skipn 5 (a :: t)) as [|b r] eqn:Es.
  - assert (Hl : (length (a :: t) <= 5)%nat).
    { pose proof (skipn_length 5 (a :: t)) as Hs. rewrite Es in Hs. cbn [length] in *. lia. }
    assert (Hg : (0 < length (firstn 5 (a :: t)) < 5)%nat).
    { rewrite firstn_length. cbn [length] in *. assert (S (length t) <> 5%nat) by (intros E; rewrite E in Hm; cbn in Hm; congruence). lia. }
    destruct (chunk32_short_ends_pad _ Hg) as [pre Hp]. exists pre. rewrite Hp.
    destruct f; cbn [b32_encode_fuel]; rewrite app_nil_r; reflexivity.
  - destruct (IH (b :: r)) as [pre Hp].
    + rewrite <- Es, skipn_length. cbn [length] in *. lia.
    + rewrite <- Es, skipn_length. pose proof (skipn_length 5 (a :: t)) as Hs. rewrite Es in Hs. cbn [length] in *. lia.
    + exists (chunk32 (firstn 5 (a :: t)) ++ pre). rewrite Hp, app_assoc. reflexivity.
Qed.
Lemma b32_encode_ends_pad s : (length s mod 5 <> 0)%nat -> has_suffix [61] (b32_encode s) = true.
Proof.
  intros Hm. destruct (b32_fuel_ends_pad (S (length s)) s ltac:(lia) Hm) as [pre Hp].
  unfold b32_encode. rewrite Hp. unfold has_suffix. rewrite rev_app_distr. reflexivity.
Qed.

(** ** text made of [is_txt] characters *)
Lemma txt_facts c : is_txt c = true ->
  is_ascii c = true /\ (c =? 10) = false /\ is_sphtcrlf c = false /\ (c =? 63) = false /\ (c =? 58) = false.
Proof. unfold is_txt, is_ascii, is_sphtcrlf. intros Hc. repeat split; lia. Qed.

Lemma txt_all_ascii s : forallb is_txt s = true -> all_ascii s = true.
Proof. apply forallb_impl. intros c Hc. apply txt_facts in Hc. tauto. Qed.

Lemma b32_text_upper s : forallb is_b32 s = true -> ascii_upper s = s.
Proof.
  unfold ascii_upper. induction s as [|c t IH]; [reflexivity|]. cbn [forallb map]. intros Hf.
  apply andb_true_iff in Hf as [Hc Ht]. rewrite (b32_upper c Hc), (IH Ht). reflexivity.
Qed.

(** the MIME encoded-word marker "=?" needs a '?' *)
Lemma no_qmark_no_marker s : no_byte 63 s -> contains enc_marker s = false.
Proof.
  unfold no_byte, enc_marker. induction s as [|c t IH]; intros Hn; [reflexivity|].
  cbn [forallb] in Hn. apply andb_true_iff in Hn as [Hc Ht]. cbn [contains]. rewrite (IH Ht), orb_false_r.
  destruct t as [|c2 t2]; cbn [has_prefix]; [apply andb_false_r|].
  cbn [forallb] in Ht. apply andb_true_iff in Ht as [Hc2 _]. apply negb_true_iff in Hc2.
  rewrite (N.eqb_sym 63 c2), Hc2. cbn [andb]. apply andb_false_r.
Qed.

Section Codec.
Variable uni_lower uni_upper : bytes -> bytes.
Variable H : alg -> bytes -> bytes.
Variables b32_decode b64_decode : bytes -> option bytes.
Hypothesis H_size : forall a x, length (H a x) = alg_size a /\ Forall is_byte (H a x).
(* what is assumed of the oracles: the decoders of the Go standard library invert its encoders on
   the hash values that occur *)
Hypothesis b32_inverts : forall a x, b32_decode (b32_encode (H a x)) = Some (H a x).
Hypothesis b64_inverts : forall a x, b64_decode (b64_encode (H a x)) = Some (H a x).
Notation new_digest := (new_digest uni_lower uni_upper).
Notation format := (format H).

Definition fresh_enc (al : alg) (e : enc) : digest := mkdig al (alg_name al) [] e [].

Lemma to_upper_b32 s : forallb is_b32 s = true -> to_upper uni_upper s = s.
Proof.
  intros Hs. unfold to_upper.
  rewrite (txt_all_ascii s (forallb_impl _ _ s b32_txt Hs)). apply b32_text_upper. exact Hs.
Qed.

Lemma new_digest_of_b32 al x e :
  new_digest (format (feed (fresh_enc al Base32) x)) e = Some (mkdig al (alg_name al) (b32_encode (H al x)) Base32 []).
Proof.
  destruct (H_size al x) as [Hlen Hby].
  pose proof (b32_alpha (S (length (H al x))) (H al x)) as Hch. fold (b32_encode (H al x)) in Hch.
  pose proof (b32_encode_length (H al x)) as Hhl. rewrite Hlen in Hhl.
  assert (Hfmt : format (feed (fresh_enc al Base32) x) = alg_name al ++ [COLON] ++ b32_encode (H al x)) by reflexivity.
  rewrite Hfmt. clear Hfmt.
  assert (Hsuf : al = MD5 -> has_suffix [61] (b32_encode (H al x)) = true).
  { intros ->. apply b32_encode_ends_pad. rewrite Hlen. cbn. discriminate. }
  set (tx := b32_encode (H al x)) in *.
  unfold Digest.new_digest.
  assert (Hsplit : split_colon (alg_name al ++ [COLON] ++ tx) = (alg_name al, Some tx)).
  { unfold split_colon. destruct al; cbn; reflexivity. }
  rewrite Hsplit.
  assert (Hnorm : normalize_alg uni_lower (alg_name al) = alg_name al) by (destruct al; vm_compute; reflexivity).
  rewrite Hnorm.
  assert (Hdet : detect_encoding (alg_name al) tx e = Base32).
  { unfold detect_encoding. destruct al; cbn [alg_name alg_size bytes_eqb] in *; rewrite Hhl.
    - rewrite (Hsuf eq_refl). reflexivity.
    - cbn; reflexivity.
    - cbn; reflexivity.
    - cbn; reflexivity. }
  rewrite Hdet. rewrite (to_upper_b32 tx Hch).
  destruct al; cbn; reflexivity.
Qed.

Lemma new_digest_of_b64 al x e :
  new_digest (format (feed (fresh_enc al Base64) x)) e = Some (mkdig al (alg_name al) (b64_encode (H al x)) Base64 []).
Proof.
  destruct (H_size al x) as [Hlen Hby].
  pose proof (b64_encode_length (H al x)) as Hhl. rewrite Hlen in Hhl.
  assert (Hfmt : format (feed (fresh_enc al Base64) x) = alg_name al ++ [COLON] ++ b64_encode (H al x)) by reflexivity.
  rewrite Hfmt. clear Hfmt.
  set (tx := b64_encode (H al x)) in *.
  unfold Digest.new_digest.
  assert (Hsplit : split_colon (alg_name al ++ [COLON] ++ tx) = (alg_name al, Some tx)).
  { unfold split_colon. destruct al; cbn; reflexivity. }
  rewrite Hsplit.
  assert (Hnorm : normalize_alg uni_lower (alg_name al) = alg_name al) by (destruct al; vm_compute; reflexivity).
  rewrite Hnorm.
  assert (Hdet : detect_encoding (alg_name al) tx e = Base64).
  { unfold detect_encoding. destruct al; cbn [alg_name alg_size bytes_eqb] in *; rewrite Hhl; cbn; reflexivity. }
  rewrite Hdet.
  destruct al; cbn; reflexivity.
Qed.

Lemma encoded_nonempty_32 al x : b32_encode (H al x) <> [].
Proof.
  destruct (H_size al x) as [Hlen _]. pose proof (b32_encode_length (H al x)) as Hhl. rewrite Hlen in Hhl.
  intros E. rewrite E in Hhl. destruct al; cbn in Hhl; discriminate.
Qed.
Lemma encoded_nonempty_64 al x : b64_encode (H al x) <> [].
Proof.
  destruct (H_size al x) as [Hlen _]. pose proof (b64_encode_length (H al x)) as Hhl. rewrite Hlen in Hhl.
  intros E. rewrite E in Hhl. destruct al; cbn in Hhl; discriminate.
Qed.

Theorem codec_ok_base32 al e : codec_ok uni_lower uni_upper H b32_decode b64_decode e (fresh_enc al Base32).
Proof.
  intros x. destruct (H_size al x) as [Hlen Hby].
  eexists. split; [apply new_digest_of_b32|]. cbn [d_fed d_hash]. repeat split.
  - apply encoded_nonempty_32.
  - unfold dvalidate, feed, dsum, decode. cbn [d_enc d_hash d_alg d_fed app].
    rewrite b32_inverts. apply bytes_eqb_refl.
Qed.
Theorem codec_ok_base64 al e : codec_ok uni_lower uni_upper H b32_decode b64_decode e (fresh_enc al Base64).
Proof.
  intros x. destruct (H_size al x) as [Hlen Hby].
  eexists. split; [apply new_digest_of_b64|]. cbn [d_fed d_hash]. repeat split.
  - apply encoded_nonempty_64.
  - unfold dvalidate, feed, dsum, decode. cbn [d_enc d_hash d_alg d_fed app].
    rewrite b64_inverts. apply bytes_eqb_refl.
Qed.

(** the written text is a clean header value, for any text of [is_txt] characters *)
Lemma txt_no_byte c s : (forall x, is_txt x = true -> (x =? c) = false) -> forallb is_txt s = true -> no_byte c s.
Proof. intros Hc Hs. unfold no_byte. revert Hs. apply forallb_impl. intros x Hx. rewrite (Hc x Hx). reflexivity. Qed.

Lemma digest_value_clean al tx n : is_digest_name n -> forallb is_txt tx = true ->
  wf_field field_table uni_lower (Fields.key field_table uni_lower n, alg_name al ++ [COLON] ++ tx).
Proof.
  intros Hn Hch.
  assert (H10 : no_byte LF tx) by (apply txt_no_byte; [intros c Hc; apply txt_facts in Hc; tauto|exact Hch]).
  assert (H63 : no_byte 63 tx) by (apply txt_no_byte; [intros c Hc; apply txt_facts in Hc; tauto|exact Hch]).
  constructor; cbn [fst snd].
  - apply (normalize_idem field_table gen_table_ok).
  - destruct Hn as [->| ->]; vm_compute; reflexivity.
  - destruct Hn as [->| ->]; vm_compute; reflexivity.
  - apply no_byte_app. split; [destruct al; vm_compute; reflexivity|]. apply no_byte_app. split; [vm_compute; reflexivity|exact H10].
  - destruct Hn as [->| ->]; vm_compute; reflexivity.
  - assert (Hlast : is_sphtcrlf (last (alg_name al ++ [COLON] ++ tx) 0) = false).
    { destruct tx as [|c t] eqn:Etx.
      - destruct al; vm_compute; reflexivity.
      - rewrite app_assoc. rewrite last_app_nonempty by discriminate.
        assert (Hl : is_txt (last (c :: t) 0) = true) by (apply forallb_last; [exact Hch|discriminate]).
        apply txt_facts in Hl. tauto. }
    unfold edge_ok. destruct (alg_name al ++ [COLON] ++ tx) as [|c0 t0] eqn:E0; [reflexivity|].
    rewrite Hlast.
    assert (Hc0 : is_sphtcrlf c0 = false) by (destruct al; cbn [alg_name app] in E0; inversion E0; reflexivity).
    rewrite Hc0. reflexivity.
  - apply no_qmark_no_marker. apply no_byte_app. split; [destruct Hn as [->| ->]; vm_compute; reflexivity|].
    apply no_byte_app. split; [vm_compute; reflexivity|].
    apply no_byte_app. split; [destruct al; vm_compute; reflexivity|]. apply no_byte_app. split; [vm_compute; reflexivity|exact H63].
Qed.

Theorem digest_text_clean_base32 al : digest_text_clean uni_lower H (fresh_enc al Base32).
Proof.
  intros x n Hn.
  assert (Hfmt : format (feed (fresh_enc al Base32) x) = alg_name al ++ [COLON] ++ b32_encode (H al x)) by reflexivity.
  rewrite Hfmt. apply digest_value_clean; [exact Hn|].
  apply (forallb_impl _ _ _ b32_txt). apply b32_alpha.
Qed.
Theorem digest_text_clean_base64 al : digest_text_clean uni_lower H (fresh_enc al Base64).
Proof.
  intros x n Hn.
  assert (Hfmt : format (feed (fresh_enc al Base64) x) = alg_name al ++ [COLON] ++ b64_encode (H al x)) by reflexivity.
  rewrite Hfmt. apply digest_value_clean; [exact Hn|].
  apply (forallb_impl _ _ _ b64_txt). apply b64_alpha.
Qed.

End Codec.
