(** GzProofs.v — C06 for per-record gzip files, at the model's level of abstraction: the
    decompressor is an oracle, a file is a list of members given by what they decompress to and
    whether they are whole (Model/Record.v, [gitem]). *)
Require Import Model.Bytes Model.FieldDef Model.Fields Model.Policy Model.Validate Model.Spill
               Model.Stream Model.HeaderParse Model.Digest Model.Record.
Require Import Proofs.RecordProofs Proofs.RoundTripProofs.
From Coq Require Import Lia.
Local Open Scope N_scope.

Section Gz.
Variable tbl : list fielddef.
Variable req : list bytes.
Variable uni_lower uni_upper : bytes -> bytes.
Variables time_ok ip_ok uri_ok wid_ok : bytes -> bool.
Variable mime_dec : bytes -> option bytes.
Variable H : alg -> bytes -> bytes.
Variables b32_decode b64_decode : bytes -> option bytes.
Variables http_req_ok http_resp_ok : bytes -> bool.
Notation unmarshal_gz := (unmarshal_gz tbl req uni_lower uni_upper time_ok ip_ok uri_ok wid_ok mime_dec H b32_decode b64_decode http_req_ok http_resp_ok).
Notation read_all_gz := (read_all_gz tbl req uni_lower uni_upper time_ok ip_ok uri_ok wid_ok mime_dec H b32_decode b64_decode http_req_ok http_resp_ok).
Notation parse_record := (parse_record tbl req uni_lower uni_upper time_ok ip_ok uri_ok wid_ok mime_dec H b32_decode b64_decode http_req_ok http_resp_ok).
Notation valid_record := (valid_record tbl req uni_lower uni_upper time_ok ip_ok uri_ok wid_ok mime_dec H b32_decode b64_decode http_req_ok http_resp_ok).

(** a member that was cut (anywhere: inside the compressed data or inside its checksum trailer)
    is never returned as a clean record *)
Theorem cut_member_is_not_clean o payload csize rest :
  let '(_, u, _, _) := unmarshal_gz o (GMember payload false csize :: rest) in is_clean u = false.
Proof.
  unfold Record.unmarshal_gz. cbv zeta.
  destruct (peek 5 (mkst payload TErr)) as [m5 e5].
  destruct e5 as [[|]|]; try reflexivity.
  - destruct m5; reflexivity.
  - destruct (bytes_eqb m5 s_WARC); [|reflexivity].
    destruct (parse_record o (mkst payload TErr) _) as [e f|rc [e|] f s']; reflexivity.
Qed.

(** a whole member holding a valid record is returned as that record, clean *)
Lemma whole_member o r bd pd csize rest : valid_record o r bd pd ->
  unmarshal_gz o (GMember (marshal r) true csize :: rest) = (0%nat, URec r None [] (mkst [] TEOF), csize, rest).
Proof.
  intros Hv. unfold Record.unmarshal_gz. cbv zeta.
  destruct (marshal_starts_with_magic r []) as [Y HY]. rewrite app_nil_r in HY.
  assert (Hpk : peek 5 (mkst (marshal r) TEOF) = (s_WARC, None)) by (rewrite HY; reflexivity).
  rewrite Hpk. change (bytes_eqb s_WARC s_WARC) with true. cbn iota.
  cbn [Nat.eqb negb]. rewrite Bool.andb_false_r.
  pose proof (marshal_then_parse tbl req uni_lower uni_upper time_ok ip_ok uri_ok wid_ok mime_dec H b32_decode b64_decode
                http_req_ok http_resp_ok o r bd pd [] TEOF Hv) as Hp.
  rewrite app_nil_r in Hp.
  match goal with |- (_, match ?X with _ => _ end, _, _) = _ =>
    replace X with (URec r None [] (mkst [] TEOF)) by (symmetry; exact Hp) end.
  reflexivity.
Qed.

Fixpoint members (rs : list (record * nat)) : list gitem :=
  match rs with [] => [] | (r, cs) :: t => GMember (marshal r) true cs :: members t end.
Fixpoint expected_gz (rs : list (record * nat)) (base : nat) : list (nat * uresult) :=
  match rs with
  | [] => []
  | (r, cs) :: t => (base, URec r None [] (mkst [] TEOF)) :: expected_gz t (base + cs)
  end.
Definition total_csize (rs : list (record * nat)) : nat := fold_right (fun x n => (snd x + n)%nat) 0%nat rs.

Theorem whole_members_survive o : forall rs rest k base,
  (forall r cs, In (r, cs) rs -> exists bd pd, valid_record o r bd pd) ->
  read_all_gz (length rs + k) o (members rs ++ rest) base
  = expected_gz rs base ++ read_all_gz k o rest (base + total_csize rs).
Proof.
  induction rs as [|[r cs] t IH]; intros rest k base Hv.
  - cbn. rewrite Nat.add_0_r. reflexivity.
  - destruct (Hv r cs (or_introl eq_refl)) as (bd & pd & Hr).
    cbn [length Nat.add members app expected_gz total_csize fold_right snd]. cbn [Record.read_all_gz].
    rewrite (whole_member o r bd pd cs (members t ++ rest) Hr). rewrite Nat.add_0_r.
    rewrite IH by (intros r' cs' Hin; eapply Hv; right; exact Hin).
    unfold total_csize. rewrite Nat.add_assoc. reflexivity.
Qed.

End Gz.
