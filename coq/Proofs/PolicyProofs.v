(** PolicyProofs.v — C08, first two sentences, for the WHOLE parser and builder pipeline:
    when no policy axis is at warn (all ignore, all fail, or any mix of the two) no stage ever
    adds a validation finding.  Hence: under ignore no finding is produced; under fail a nil error
    comes with an empty validation.  Every stage is built from the one policy switch [site], so the
    proof is the same induction everywhere. *)
Require Import Model.Bytes Model.FieldDef Model.Fields Model.Policy Model.Validate Model.Spill
               Model.Stream Model.HeaderParse Model.Digest Model.Record.
From Coq Require Import Lia.
Local Open Scope N_scope.

Definition quiet {A} (k : list finding -> res A) : Prop := forall fs, findings_of (k fs) = fs.

Lemma site_quiet {A} p e fs (k : list finding -> res A) :
  p <> Warn -> quiet k -> findings_of (site p e fs k) = fs.
Proof. intros Hp Hk. destruct p; cbn; auto. congruence. Qed.

Definition ufindings (u : uresult) : list finding :=
  match u with UNone _ f => f | URec _ _ f _ => f end.

Section Quiet.
Variable tbl : list fielddef.
Variable req : list bytes.
Variable uni_lower uni_upper : bytes -> bytes.
Variables time_ok ip_ok uri_ok wid_ok : bytes -> bool.
Variable mime_dec : bytes -> option bytes.
Variable H : alg -> bytes -> bytes.
Variables b32_decode b64_decode : bytes -> option bytes.
Variables http_req_ok http_resp_ok : bytes -> bool.

Notation vloop := (vloop tbl uni_lower time_ok ip_ok uri_ok wid_ok).
Notation validate_header := (validate_header tbl req uni_lower time_ok ip_ok uri_ok wid_ok).
Notation parse_loop := (parse_loop tbl uni_lower mime_dec).
Notation cont_loop := (cont_loop).
Notation parse_fields := (parse_fields tbl uni_lower mime_dec).
Notation parse_block := (parse_block tbl uni_lower uni_upper mime_dec http_req_ok http_resp_ok).
Notation check_digest := (check_digest tbl uni_lower H b32_decode b64_decode).
Notation validate_digest := (validate_digest tbl uni_lower H b32_decode b64_decode).
Notation parse_record := (parse_record tbl req uni_lower uni_upper time_ok ip_ok uri_ok wid_ok mime_dec H b32_decode b64_decode http_req_ok http_resp_ok).
Notation unmarshal_plain := (unmarshal_plain tbl req uni_lower uni_upper time_ok ip_ok uri_ok wid_ok mime_dec H b32_decode b64_decode http_req_ok http_resp_ok).
Notation build := (build tbl req uni_lower uni_upper time_ok ip_ok uri_ok wid_ok mime_dec H b32_decode b64_decode http_req_ok http_resp_ok).

(** header validation *)
Lemma vloop_quiet p vid rt : p <> Warn -> forall todo done fs, findings_of (vloop p vid rt done todo fs) = fs.
Proof.
  intros Hp. induction todo as [|[n v] t IH]; intros done fs; cbn [Validate.vloop]; [reflexivity|].
  destruct (def_of tbl uni_lower n) as [name d].
  assert (Hk1 : quiet (fun fs1 =>
            if negb (fd_rep d) && (1 <? N.of_nat (length (m_getall tbl uni_lower name (done ++ (name, v) :: t))))
            then site p (KDup, name) fs1 (fun fs2 => vloop p vid rt (done ++ [(name, v)]) t fs2)
            else vloop p vid rt (done ++ [(name, v)]) t fs1)).
  { intros fs1. destruct (_ && _); [apply site_quiet; auto; intros fs2; apply IH|apply IH]. }
  destruct (validate_value _ _ _ _ _ _ _ _ _); [apply site_quiet; auto|apply Hk1].
Qed.

Lemma required_loop_quiet {A} p hs : p <> Warn -> forall rq fs (k : list finding -> res A),
  quiet k -> findings_of (required_loop tbl uni_lower p hs rq fs k) = fs.
Proof.
  intros Hp. induction rq as [|f t IH]; intros fs k Hk; cbn [required_loop]; [apply Hk|].
  destruct (negb _); [apply site_quiet; auto; intros fs1; apply IH; auto|apply IH; auto].
Qed.

Lemma resolve_rt_quiet {A} p_spec p_unk hs fs (k : N -> list finding -> res A) :
  p_spec <> Warn -> p_unk <> Warn -> (forall rt, quiet (k rt)) ->
  findings_of (resolve_rt uni_lower p_spec p_unk hs fs k) = fs.
Proof.
  intros Hs Hu Hk. unfold resolve_rt.
  destruct (type_field _ hs); [apply site_quiet; auto; intros fs1|];
    (destruct (_ =? 0); [apply site_quiet; auto|apply Hk]).
Qed.

Lemma validate_header_quiet p_spec p_unk vid hs fs : p_spec <> Warn -> p_unk <> Warn ->
  findings_of (validate_header p_spec p_unk vid hs fs) = fs.
Proof.
  intros Hs Hu. unfold Validate.validate_header. apply resolve_rt_quiet; auto.
  intros rt fs0. destruct (policy_gt_ignore p_spec); [|reflexivity].
  pose proof (vloop_quiet p_spec vid rt Hs hs [] fs0) as Hv.
  destruct (vloop p_spec vid rt [] hs fs0) as [hs' fs1|e fs1]; cbn in Hv; subst; [|reflexivity].
  apply required_loop_quiet; auto. intros fs2.
  assert (Hk3 : quiet (fun fs3 =>
            if negb (N.land 193 rt =? 0) && m_has tbl uni_lower n_concurrent_to hs'
            then site p_spec (KConcurrent, n_concurrent_to) fs3 (fun fs4 => Ok (rt, hs') fs4)
            else Ok (rt, hs') fs3)).
  { intros fs3. destruct (negb (N.land 193 rt =? 0) && _); [apply site_quiet; auto; intros ?; reflexivity|reflexivity]. }
  destruct (negb (rt =? 128) && _ && _); [apply site_quiet; auto|apply Hk3].
Qed.

(** the header parser *)
Lemma cont_loop_quiet p : p <> Warn -> forall fuel line nc s fnd,
  findings_of (cont_loop fuel p line nc s fnd) = fnd.
Proof.
  intros Hp. induction fuel as [|f IH]; intros line nc s fnd; cbn [HeaderParse.cont_loop].
  - destruct (_ || _); reflexivity.
  - destruct (_ || _); [|reflexivity].
    destruct (read_line p s) as [[[l nc'] e] s'].
    destruct e; [apply IH| | |].
    all: destruct l; [reflexivity|]; try reflexivity; apply site_quiet; auto; intros ?; apply IH.
Qed.

Ltac split_ifs :=
  repeat match goal with
  | |- context [match ?x with (_, _) => _ end] => destruct x as [[? ?] ?]
  | |- context [match ?e with Some _ => _ | None => _ end] => destruct e
  | |- context [if ?c then _ else _] => destruct c
  end.

Lemma parse_loop_quiet p : p <> Warn -> forall fuel fs s fnd,
  findings_of (parse_loop fuel p fs s fnd) = fnd.
Proof.
  intros Hp. induction fuel as [|f IH]; intros fs s fnd; cbn [HeaderParse.parse_loop]; [reflexivity|].
  destruct (read_line p s) as [[[line nc] e] s1]. cbv zeta.
  assert (Hafter : forall eoh fnd1,
    findings_of
      match cont_loop f p line nc s1 fnd1 with
      | Err k fnd2 => Err k fnd2
      | Ok (line2, nc2, s2) fnd2 =>
          match parse_line tbl uni_lower mime_dec line2 fs with
          | Some fs' =>
              if eoh : bool then Ok (fs', s2) fnd2
              else if nc2 =? CR then
                let '(l, e2, s3) := read_bytes LF s2 in
                match e2 with
                | None => if (length l =? 2)%nat then Ok (fs', s3) fnd2 else Err (KMarker, []) fnd2
                | Some _ => Err (KMarker, []) fnd2
                end
              else if nc2 =? LF then
                let '(l, e2, s3) := read_bytes LF s2 in
                match e2 with
                | None => if (2 <? length l)%nat then Err (KMarker, []) fnd2 else Ok (fs', s3) fnd2
                | Some _ => Err (KMarker, []) fnd2
                end
              else parse_loop f p fs' s2 fnd2
          | None =>
              site p syn fnd2 (fun fnd3 =>
                if eoh then Ok (fs, s2) fnd3
                else if nc2 =? CR then
                  let '(l, e2, s3) := read_bytes LF s2 in
                  match e2 with
                  | None => if (length l =? 2)%nat then Ok (fs, s3) fnd3 else Err (KMarker, []) fnd3
                  | Some _ => Err (KMarker, []) fnd3
                  end
                else if nc2 =? LF then
                  let '(l, e2, s3) := read_bytes LF s2 in
                  match e2 with
                  | None => if (2 <? length l)%nat then Err (KMarker, []) fnd3 else Ok (fs, s3) fnd3
                  | Some _ => Err (KMarker, []) fnd3
                  end
                else parse_loop f p fs s2 fnd3)
          end
      end = fnd1).
  { intros eoh fnd1. pose proof (cont_loop_quiet p Hp f line nc s1 fnd1) as Hc.
    destruct (cont_loop f p line nc s1 fnd1) as [[[line2 nc2] s2] fnd2|k fnd2]; cbn in Hc; subst; [|reflexivity].
    destruct (parse_line _ _ _ _ _); [|apply site_quiet; auto; intros fnd3].
    all: split_ifs; try reflexivity; apply IH. }
  destruct e.
  - exact (Hafter false fnd).
  - destruct line; [reflexivity|apply site_quiet; auto; intros fnd1; exact (Hafter true fnd1)].
  - reflexivity.
  - apply site_quiet; auto. intros fnd1. exact (Hafter false fnd1).
Qed.

Lemma parse_fields_quiet p s fnd : p <> Warn -> findings_of (parse_fields p s fnd) = fnd.
Proof. intros Hp. apply parse_loop_quiet; auto. Qed.

(** parseBlock *)
Lemma parse_block_quiet o rt hs content fnd : o_syntax o <> Warn -> o_block o <> Warn ->
  findings_of (parse_block o rt hs content fnd) = fnd.
Proof.
  intros Hs Hb. unfold Record.parse_block.
  destruct (digest_from_field _ _ _ _ _ n_block_digest) as [bd|]; [|reflexivity].
  destruct (digest_from_field _ _ _ _ _ n_payload_digest) as [pd|]; [|reflexivity].
  cbv zeta.
  destruct (o_skip_parse o); [reflexivity|].
  destruct (negb (N.land rt 206 =? 0) && _).
  - destruct (length content <? 4)%nat; [reflexivity|].
    destruct (http_header content) as [hb found].
    assert (Hk1 : quiet (fun fnd1 =>
      if if has_prefix s_HTTP hb
         then http_resp_ok (if negb found && negb (o_fix_syntax o) then hb ++ CRLF else if negb found && o_fix_syntax o then hb ++ CRLF else hb)
         else http_req_ok (if negb found && negb (o_fix_syntax o) then hb ++ CRLF else if negb found && o_fix_syntax o then hb ++ CRLF else hb)
      then Ok (if negb found && o_fix_syntax o then m_set tbl uni_lower n_content_length (itoa (wrap64 (cl_value tbl uni_lower hs + 2))) hs else hs,
               mkblk (if has_prefix s_HTTP hb then BHttpResp else BHttpReq)
                     (if negb found && o_fix_syntax o then hb ++ CRLF else hb) (skipn (length hb) content),
               feed bd ((if negb found && o_fix_syntax o then hb ++ CRLF else hb) ++ skipn (length hb) content),
               Some (feed pd (skipn (length hb) content))) fnd1
      else site (o_block o) (KBlock, []) fnd1 (fun fnd2 =>
             Ok (if negb found && o_fix_syntax o then m_set tbl uni_lower n_content_length (itoa (wrap64 (cl_value tbl uni_lower hs + 2))) hs else hs,
                 mkblk (if has_prefix s_HTTP hb then BHttpResp else BHttpReq)
                       (if negb found && o_fix_syntax o then hb ++ CRLF else hb) (skipn (length hb) content),
                 feed bd ((if negb found && o_fix_syntax o then hb ++ CRLF else hb) ++ skipn (length hb) content),
                 Some (feed pd (skipn (length hb) content))) fnd2))).
    { intros fnd1. destruct (if has_prefix s_HTTP hb then _ else _); [reflexivity|apply site_quiet; auto; intros ?; reflexivity]. }
    destruct found; [apply Hk1|apply site_quiet; auto].
  - destruct (rt =? 32); [reflexivity|].
    destruct (has_prefix s_app_warcfields _); [|reflexivity].
    destruct (HeaderParse.parse_fields tbl uni_lower mime_dec (o_syntax o) (mkst content TEOF) []) as [[wf s'] bv|e bv]; cbn [findings_of].
    + destruct bv; [reflexivity|]. destruct (o_block o); try reflexivity. congruence.
    + destruct bv; [reflexivity|]. destruct (o_block o); try reflexivity. congruence.
Qed.

(** ValidateDigest *)
Lemma check_digest_quiet o field d cached hs fnd k : o_spec o <> Warn ->
  (forall hs' d', quiet (k hs' d')) ->
  findings_of (check_digest o field d cached hs fnd k) = fnd.
Proof.
  intros Hs Hk. unfold Record.check_digest.
  destruct (d_hash d).
  - destruct (_ && _); apply Hk.
  - destruct (_ && _); [|apply Hk]. destruct (o_spec o); try congruence; try reflexivity; try apply Hk.
Qed.

Lemma validate_digest_quiet o rt hs b bd pd cached fnd : o_spec o <> Warn ->
  findings_of (validate_digest o rt hs b bd pd cached fnd) = fnd.
Proof.
  intros Hs. unfold Record.validate_digest. cbv zeta.
  assert (Hk1 : forall hs1, quiet (fun fnd1 =>
    check_digest o n_block_digest bd cached hs1 fnd1 (fun hs2 bd2 fnd2 =>
      if (rt =? 32) || m_has tbl uni_lower n_segment_number hs2 then Ok hs2 fnd2
      else match match bk b with
                 | BGeneric => if rt =? 4 then pd else None
                 | BHttpReq | BHttpResp => pd
                 | _ => None
                 end with
           | None => Ok hs2 fnd2
           | Some p => check_digest o n_payload_digest p cached hs2 fnd2 (fun hs3 _ fnd3 => Ok hs3 fnd3)
           end))).
  { intros hs1 fnd1. apply check_digest_quiet; auto. intros hs2 bd2 fnd2.
    destruct (_ || _); [reflexivity|].
    destruct (match bk b with BGeneric => _ | _ => _ end); [|reflexivity].
    apply check_digest_quiet; auto. intros ? ? ?; reflexivity. }
  destruct (_ && _ && _); [|apply Hk1].
  destruct (o_spec o); try congruence; try reflexivity; try apply Hk1.
Qed.

Lemma trailer_quiet o s fnd : o_spec o <> Warn -> findings_of (trailer o s fnd) = fnd.
Proof.
  intros Hs. unfold trailer. destruct (peek 4 s) as [buf e].
  destruct (bytes_eqb buf CRLFCRLF); [reflexivity|]. apply site_quiet; auto. intros ?; reflexivity.
Qed.

(** no axis at warn *)
Definition no_warn (o : opts) : Prop :=
  o_syntax o <> Warn /\ o_spec o <> Warn /\ o_unknown o <> Warn /\ o_block o <> Warn.

Ltac nw := first [assumption | congruence | discriminate].
Ltac qstep :=
  match goal with
  | |- ufindings (UNone _ _) = _ => reflexivity
  | |- ufindings (URec _ _ _ _) = _ => reflexivity
  | |- context [match HeaderParse.parse_fields ?t ?u ?m ?p ?s ?f with _ => _ end] =>
      let Hq := fresh "Hq" in
      assert (Hq : findings_of (HeaderParse.parse_fields t u m p s f) = f) by (apply parse_fields_quiet; nw);
      destruct (HeaderParse.parse_fields t u m p s f) as [[? ?] ?|? ?]; cbn [findings_of] in Hq; subst
  | |- context [match Validate.validate_header ?a1 ?a2 ?a3 ?a4 ?a5 ?a6 ?a7 ?ps ?pu ?vid ?hs ?f with _ => _ end] =>
      let Hq := fresh "Hq" in
      assert (Hq : findings_of (Validate.validate_header a1 a2 a3 a4 a5 a6 a7 ps pu vid hs f) = f) by (apply validate_header_quiet; nw);
      destruct (Validate.validate_header a1 a2 a3 a4 a5 a6 a7 ps pu vid hs f) as [[? ?] ?|? ?]; cbn [findings_of] in Hq; subst
  | |- context [match Record.parse_block ?a1 ?a2 ?a3 ?a4 ?a5 ?a6 ?o ?rt ?hs ?c ?f with _ => _ end] =>
      let Hq := fresh "Hq" in
      assert (Hq : findings_of (Record.parse_block a1 a2 a3 a4 a5 a6 o rt hs c f) = f) by (apply parse_block_quiet; nw);
      destruct (Record.parse_block a1 a2 a3 a4 a5 a6 o rt hs c f) as [[[[? ?] ?] ?] ?|? ?]; cbn [findings_of] in Hq; subst
  | |- context [match Record.validate_digest ?a1 ?a2 ?a3 ?a4 ?a5 ?o ?rt ?hs ?b ?bd ?pd ?ca ?f with _ => _ end] =>
      let Hq := fresh "Hq" in
      assert (Hq : findings_of (Record.validate_digest a1 a2 a3 a4 a5 o rt hs b bd pd ca f) = f) by (apply validate_digest_quiet; nw);
      destruct (Record.validate_digest a1 a2 a3 a4 a5 o rt hs b bd pd ca f) as [? ?|? ?]; cbn [findings_of] in Hq; subst
  | |- context [match trailer ?o ?s ?f with _ => _ end] =>
      let Hq := fresh "Hq" in
      assert (Hq : findings_of (trailer o s f) = f) by (apply trailer_quiet; nw);
      destruct (trailer o s f) as [? ?|? ?]; cbn [findings_of] in Hq; subst
  | |- context [match o_syntax ?o with _ => _ end] => destruct (o_syntax o) eqn:?; try congruence
  | |- context [match o_spec ?o with _ => _ end] => destruct (o_spec o) eqn:?; try congruence
  | |- context [match stail ?s with _ => _ end] => destruct (stail s)
  | |- context [if ?c then _ else _] => destruct c
  end.

(* parse_record, with its nested continuations named (definitionally the same function) *)
Definition stage_block (o : opts) (vt : bytes) (vid rt : N) (hs1 : fields) (s2 : stream) (fnd4 : list finding) : uresult :=
  let len := cl_value tbl uni_lower hs1 in
  let avail := sdata s2 in
  let content := if (len <? 0)%Z || (Z.of_nat (length avail) <=? len)%Z
                 then avail else firstn (Z.to_nat len) avail in
  let s3 := mkst (skipn (length content) avail) (stail s2) in
  let short := (len <? 0)%Z || (Z.of_nat (length avail) <? len)%Z in
  match stail s2, short with
  | TErr, true => URec (mkrec vt vid rt hs1 (mkblk BGeneric [] [])) (Some (KRead, [])) fnd4 s3
  | _, _ =>
      match parse_block o rt hs1 content fnd4 with
      | Err e5 fnd5 => URec (mkrec vt vid rt hs1 (mkblk BGeneric [] content)) (Some e5) fnd5 s3
      | Ok (hs2, blk, bd, pd) fnd5 =>
          match validate_digest o rt hs2 blk bd pd (match bk blk with BWarcFields | BRevisit => true | _ => false end) fnd5 with
          | Err e6 fnd6 => URec (mkrec vt vid rt hs2 blk) (Some e6) fnd6 s3
          | Ok hs3 fnd6 =>
              match trailer o s3 fnd6 with
              | Err e7 fnd7 => URec (mkrec vt vid rt hs3 blk) (Some e7) fnd7 s3
              | Ok s4 fnd7 => URec (mkrec vt vid rt hs3 blk) None fnd7 s4
              end
          end
      end
  end.

Definition stage_fields (o : opts) (vt : bytes) (vid : N) (s1 : stream) (fnd2 : list finding) : uresult :=
  match parse_fields (o_syntax o) s1 fnd2 with
  | Err e2 fnd3 => UNone e2 fnd3
  | Ok (hs, s2) fnd3 =>
      match validate_header (o_spec o) (o_unknown o) vid hs fnd3 with
      | Err e3 fnd4 => UNone e3 fnd4
      | Ok (rt, hs1) fnd4 => stage_block o vt vid rt hs1 s2 fnd4
      end
  end.

Definition stage_ver (o : opts) (l : bytes) (s1 : stream) (fnd1 : list finding) : uresult :=
  let vt := trim is_sphtcrlf l in
  let vid := if bytes_eqb vt [49;46;48] then 1 else if bytes_eqb vt [49;46;49] then 2 else 0 in
  if (vid =? 0) then
    match o_spec o with
    | Warn => stage_fields o vt vid s1 (fnd1 ++ [(KVersion, [])])
    | Fail => UNone (KVersion, []) fnd1
    | Ignore => stage_fields o vt vid s1 fnd1
    end
  else stage_fields o vt vid s1 fnd1.

Lemma parse_record_stages o s fnd :
  parse_record o s fnd =
  let '(l, e, s1) := read_bytes LF (discard 5 s) in
  match e with
  | Some TEOF => UNone (KEOH, []) fnd
  | Some TErr => UNone (KRead, []) fnd
  | None =>
      if (length l <? 2)%nat || negb (nth (length l - 2) l 0 =? CR) then
        match o_syntax o with
        | Warn => stage_ver o l s1 (fnd ++ [(KSyntax, [])])
        | Fail => UNone (KSyntax, []) fnd
        | Ignore => stage_ver o l s1 fnd
        end
      else stage_ver o l s1 fnd
  end.
Proof. reflexivity. Qed.

Lemma stage_block_quiet o vt vid rt hs1 s2 fnd4 : no_warn o ->
  ufindings (stage_block o vt vid rt hs1 s2 fnd4) = fnd4.
Proof.
  intros (Hsy & Hsp & Hun & Hbl). unfold stage_block. cbv zeta.
  destruct ((cl_value tbl uni_lower hs1 <? 0)%Z || (Z.of_nat (length (sdata s2)) <=? cl_value tbl uni_lower hs1)%Z)%bool;
  destruct ((cl_value tbl uni_lower hs1 <? 0)%Z || (Z.of_nat (length (sdata s2)) <? cl_value tbl uni_lower hs1)%Z)%bool;
  destruct (stail s2); try reflexivity.
  all: repeat qstep.
Qed.

Lemma stage_fields_quiet o vt vid s1 fnd2 : no_warn o ->
  ufindings (stage_fields o vt vid s1 fnd2) = fnd2.
Proof.
  intros Hn. pose proof Hn as (Hsy & Hsp & Hun & Hbl). unfold stage_fields.
  qstep; [|reflexivity]. qstep; [|reflexivity]. apply stage_block_quiet; auto.
Qed.

Lemma stage_ver_quiet o l s1 fnd1 : no_warn o -> ufindings (stage_ver o l s1 fnd1) = fnd1.
Proof.
  intros Hn. pose proof Hn as (Hsy & Hsp & Hun & Hbl). unfold stage_ver. cbv zeta.
  destruct (_ =? 0); [|apply stage_fields_quiet; auto].
  destruct (o_spec o) eqn:E; try congruence; [apply stage_fields_quiet; auto|reflexivity].
Qed.

Theorem parse_record_quiet o s fnd : no_warn o -> ufindings (parse_record o s fnd) = fnd.
Proof.
  intros Hn. pose proof Hn as (Hsy & Hsp & Hun & Hbl). rewrite parse_record_stages.
  destruct (read_bytes LF (discard 5 s)) as [[l e] s1].
  destruct e as [[|]|]; [reflexivity|reflexivity|].
  destruct (_ || _)%bool; [|apply stage_ver_quiet; auto].
  destruct (o_syntax o) eqn:E; try congruence; [apply stage_ver_quiet; auto|reflexivity].
Qed.

Lemma find_start_fail : forall fuel s off f off' s',
  find_start fuel Fail s off = (f, off', s') -> off' = off.
Proof.
  intros fuel s off f off' s' Hf. destruct fuel; cbn [find_start] in Hf;
    destruct (peek 5 s) as [magic e]; destruct e; try (inversion Hf; reflexivity);
    destruct (bytes_eqb magic s_WARC); try (inversion Hf; reflexivity);
    repeat match type of Hf with context [match ?x with _ => _ end] => destruct x; try (inversion Hf; reflexivity) end.
Qed.

Theorem unmarshal_plain_quiet o s : no_warn o -> ufindings (snd (unmarshal_plain o s)) = [].
Proof.
  intros Hn. pose proof Hn as (Hsy & _). unfold Record.unmarshal_plain.
  destruct (find_start (S (length (sdata s))) (o_syntax o) s 0) as [[f off] s1] eqn:Ef.
  assert (Hf0 : (if policy_gt_ignore (o_syntax o) && negb (off =? 0)%nat then [(KOffset, @nil byte)] else []) = []).
  { destruct (o_syntax o) eqn:Es; try congruence; [reflexivity|].
    apply find_start_fail in Ef. subst. reflexivity. }
  rewrite Hf0. destruct f as [| |[|]|]; cbn [snd ufindings]; try reflexivity.
  apply parse_record_quiet; auto.
Qed.

Theorem build_quiet o vid rt0 hs content new_id : no_warn o ->
  findings_of (fst (build o vid rt0 hs content new_id)) = [].
Proof.
  intros (Hsy & Hsp & Hun & Hbl). unfold Record.build. cbv zeta.
  match goal with |- context [Validate.validate_header ?a1 ?a2 ?a3 ?a4 ?a5 ?a6 ?a7 ?ps ?pu ?v ?h []] =>
    assert (Hq : findings_of (Validate.validate_header a1 a2 a3 a4 a5 a6 a7 ps pu v h []) = []) by (apply validate_header_quiet; nw);
    destruct (Validate.validate_header a1 a2 a3 a4 a5 a6 a7 ps pu v h []) as [[? hs3] ?|? ?]; cbn [findings_of] in Hq; subst; [|reflexivity] end.
  match goal with |- context [Record.parse_block ?a1 ?a2 ?a3 ?a4 ?a5 ?a6 ?o ?rt ?h ?c []] =>
    assert (Hq : findings_of (Record.parse_block a1 a2 a3 a4 a5 a6 o rt h c []) = []) by (apply parse_block_quiet; nw);
    destruct (Record.parse_block a1 a2 a3 a4 a5 a6 o rt h c []) as [[[[? ?] ?] ?] ?|? ?]; cbn [findings_of] in Hq; subst; [|reflexivity] end.
  match goal with |- context [Record.validate_digest ?a1 ?a2 ?a3 ?a4 ?a5 ?o ?rt ?h ?b ?bd ?pd ?ca []] =>
    assert (Hq : findings_of (Record.validate_digest a1 a2 a3 a4 a5 o rt h b bd pd ca []) = []) by (apply validate_digest_quiet; nw);
    destruct (Record.validate_digest a1 a2 a3 a4 a5 o rt h b bd pd ca []) as [? ?|? ?]; cbn [findings_of] in Hq; subst; reflexivity end.
Qed.

End Quiet.
