(** DigestCaseProofs.v — C03, "a record whose declared values are correct is never reported, in any
    supported algorithm, in base16/base32/base64 and in either letter case": the text of the true
    digest - hex in lower or upper case, base32 in upper or lower case, base64 - is recognised by
    newDigest for every supported algorithm and every default encoding of the reader, and the
    digest so declared validates against the bytes.  The base32/base64 decoders are oracles
    assumed to invert the modelled encoders on the hash values that occur. *)
Require Import Model.Bytes Model.FieldDef Gen.FieldTable Model.Fields Model.Policy Model.Validate Model.Stream
               Model.HeaderParse Model.Digest Model.Record.
Require Import Proofs.BytesProofs Proofs.FieldsProofs Proofs.NormalizeProofs Proofs.DigestProofs Proofs.TrimProofs
               Proofs.HeaderProofs Proofs.BuiltValidProofs Proofs.CodecProofs Proofs.Codec3264Proofs.
From Coq Require Import Lia Arith ZifyNat ZifyN ZifyBool.
Local Open Scope N_scope.

(** upper-cased hex *)
Definition is_hexup (c : byte) : bool := is_digit c || ((65 <=? c) && (c <=? 70)).
Lemma hexlow_upper_facts c : is_hexlow c = true ->
  is_ascii (upper_byte c) = true /\ lower_byte (upper_byte c) = c /\ (upper_byte c =? 61) = false.
Proof.
  unfold is_hexlow, is_digit, is_ascii, upper_byte, lower_byte, is_lower, is_upper. intros Hc.
  destruct ((97 <=? c) && (c <=? 122)) eqn:E1.
  - assert (E2 : (65 <=? c - 32) && (c - 32 <=? 90) = true) by lia. rewrite E2. repeat split; lia.
  - assert (E2 : (65 <=? c) && (c <=? 90) = false) by lia. rewrite E2. repeat split; lia.
Qed.
Lemma upper_hex_all_ascii s : forallb is_hexlow s = true -> all_ascii (ascii_upper s) = true.
Proof.
  unfold all_ascii, ascii_upper. induction s as [|c t IH]; [reflexivity|]. cbn [forallb map]. intros Hf.
  apply andb_true_iff in Hf as [Hc Ht]. apply hexlow_upper_facts in Hc as (-> & _). rewrite (IH Ht). reflexivity.
Qed.
Lemma upper_hex_lower s : forallb is_hexlow s = true -> ascii_lower (ascii_upper s) = s.
Proof.
  unfold ascii_lower, ascii_upper. induction s as [|c t IH]; [reflexivity|]. cbn [forallb map]. intros Hf.
  apply andb_true_iff in Hf as [Hc Ht]. apply hexlow_upper_facts in Hc as (_ & -> & _). rewrite (IH Ht). reflexivity.
Qed.
Lemma upper_hex_no_suffix_eq s : forallb is_hexlow s = true -> has_suffix [61] (ascii_upper s) = false.
Proof.
  intros Hf. unfold has_suffix, ascii_upper. cbn [rev app]. rewrite <- map_rev.
  assert (Hr : forallb is_hexlow (rev s) = true).
  { apply forallb_forall. intros c Hc. apply in_rev in Hc. rewrite forallb_forall in Hf. apply Hf. exact Hc. }
  destruct (rev s) as [|c t]; [reflexivity|]. cbn [map has_prefix forallb] in *. apply andb_true_iff in Hr as [Hc _].
  apply hexlow_upper_facts in Hc as (_ & _ & Hc). rewrite N.eqb_sym, Hc. reflexivity.
Qed.

(** lower-cased base32 *)
Lemma b32_lower_facts c : is_b32 c = true ->
  is_ascii (lower_byte c) = true /\ upper_byte (lower_byte c) = c /\ ((c =? 61) = true -> lower_byte c = 61).
Proof.
  unfold is_b32, is_ascii, upper_byte, lower_byte, is_lower, is_upper. intros Hc.
  destruct ((65 <=? c) && (c <=? 90)) eqn:E1.
  - assert (E2 : (97 <=? c + 32) && (c + 32 <=? 122) = true) by lia. rewrite E2. repeat split; lia.
  - assert (E2 : (97 <=? c) && (c <=? 122) = false) by lia. rewrite E2. repeat split; lia.
Qed.
Lemma lower_b32_all_ascii s : forallb is_b32 s = true -> all_ascii (ascii_lower s) = true.
Proof.
  unfold all_ascii, ascii_lower. induction s as [|c t IH]; [reflexivity|]. cbn [forallb map]. intros Hf.
  apply andb_true_iff in Hf as [Hc Ht]. apply b32_lower_facts in Hc as (-> & _). rewrite (IH Ht). reflexivity.
Qed.
Lemma lower_b32_upper s : forallb is_b32 s = true -> ascii_upper (ascii_lower s) = s.
Proof.
  unfold ascii_lower, ascii_upper. induction s as [|c t IH]; [reflexivity|]. cbn [forallb map]. intros Hf.
  apply andb_true_iff in Hf as [Hc Ht]. apply b32_lower_facts in Hc as (_ & -> & _). rewrite (IH Ht). reflexivity.
Qed.
Lemma lower_keeps_suffix_eq s : has_suffix [61] s = true -> has_suffix [61] (ascii_lower s) = true.
Proof.
  unfold has_suffix, ascii_lower. cbn [rev app]. rewrite <- map_rev. destruct (rev s) as [|c t]; [discriminate|].
  cbn [map has_prefix]. rewrite !andb_true_r. intros E. apply N.eqb_eq in E. subst c. reflexivity.
Qed.

Section Case.
Variable uni_lower uni_upper : bytes -> bytes.
Variable H : alg -> bytes -> bytes.
Variables b32_decode b64_decode : bytes -> option bytes.
Hypothesis H_size : forall a x, length (H a x) = alg_size a /\ Forall is_byte (H a x).
Hypothesis b32_inverts : forall a x, b32_decode (b32_encode (H a x)) = Some (H a x).
Hypothesis b64_inverts : forall a x, b64_decode (b64_encode (H a x)) = Some (H a x).
Notation new_digest := (new_digest uni_lower uni_upper).

(* newDigest on "algorithm:text", given what detectEncoding answers and what case mapping leaves *)
Lemma new_digest_text al t e en t' :
  detect_encoding (alg_name al) t e = en ->
  match en with Base16 => to_lower uni_lower t | Base32 => to_upper uni_upper t | _ => t end = t' ->
  new_digest (alg_name al ++ [COLON] ++ t) e = Some (mkdig al (alg_name al) t' en []).
Proof.
  intros Hdet Hcase. unfold Digest.new_digest.
  assert (Hsplit : split_colon (alg_name al ++ [COLON] ++ t) = (alg_name al, Some t)).
  { unfold split_colon. destruct al; cbn; reflexivity. }
  rewrite Hsplit.
  assert (Hnorm : normalize_alg uni_lower (alg_name al) = alg_name al) by (destruct al; vm_compute; reflexivity).
  rewrite Hnorm, Hdet, Hcase. destruct al; cbn; reflexivity.
Qed.

Definition accepted (al : alg) (x t : bytes) (e : enc) : Prop :=
  exists d, new_digest (alg_name al ++ [COLON] ++ t) e = Some d /\ d_alg d = al /\ d_hash d <> [] /\
            dvalidate H b32_decode b64_decode (feed d x) = true.

Lemma hex_nonempty al x : hex_encode (H al x) <> [].
Proof.
  destruct (H_size al x) as [Hlen _]. pose proof (hex_encode_length (H al x)) as Hhl. rewrite Hlen in Hhl.
  intros E. rewrite E in Hhl. destruct al; cbn in Hhl; discriminate.
Qed.

Theorem upper_hex_accepted al x e : accepted al x (ascii_upper (hex_encode (H al x))) e.
Proof.
  destruct (H_size al x) as [Hlen Hby]. pose proof (hex_encode_chars _ Hby) as Hch.
  pose proof (hex_encode_length (H al x)) as Hhl. rewrite Hlen in Hhl.
  set (hx := hex_encode (H al x)) in *.
  eexists. split; [apply (new_digest_text al (ascii_upper hx) e Base16 hx)|].
  - unfold detect_encoding. rewrite (upper_hex_no_suffix_eq hx Hch). unfold ascii_upper. rewrite map_length.
    destruct al; cbn [alg_name alg_size bytes_eqb] in *; rewrite Hhl; cbn; reflexivity.
  - unfold to_lower. rewrite (upper_hex_all_ascii hx Hch). apply upper_hex_lower. exact Hch.
  - cbn [d_alg d_hash]. split; [reflexivity|]. split; [apply hex_nonempty|].
    unfold dvalidate, feed, dsum, decode. cbn [d_enc d_hash d_alg d_fed app].
    unfold hx. rewrite (hex_decode_encode _ Hby). apply bytes_eqb_refl.
Qed.

Theorem lower_b32_accepted al x e : accepted al x (ascii_lower (b32_encode (H al x))) e.
Proof.
  destruct (H_size al x) as [Hlen Hby].
  pose proof (b32_alpha (S (length (H al x))) (H al x)) as Hch. fold (b32_encode (H al x)) in Hch.
  pose proof (b32_encode_length (H al x)) as Hhl. rewrite Hlen in Hhl.
  assert (Hsuf : al = MD5 -> has_suffix [61] (b32_encode (H al x)) = true).
  { intros ->. apply b32_encode_ends_pad. rewrite Hlen. cbn. discriminate. }
  pose proof (encoded_nonempty_32 H H_size al x) as Hne.
  set (tx := b32_encode (H al x)) in *.
  eexists. split; [apply (new_digest_text al (ascii_lower tx) e Base32 tx)|].
  - assert (Hlen' : length (ascii_lower tx) = length tx) by (unfold ascii_lower; apply map_length).
    unfold detect_encoding. rewrite Hlen'.
    destruct al; cbn [alg_name alg_size bytes_eqb] in *; rewrite Hhl.
    + rewrite (lower_keeps_suffix_eq tx (Hsuf eq_refl)). reflexivity.
    + cbn; reflexivity.
    + cbn; reflexivity.
    + cbn; reflexivity.
  - unfold to_upper. rewrite (lower_b32_all_ascii tx Hch). apply lower_b32_upper. exact Hch.
  - cbn [d_alg d_hash]. split; [reflexivity|]. split; [exact Hne|].
    unfold dvalidate, feed, dsum, decode. cbn [d_enc d_hash d_alg d_fed app].
    unfold tx. rewrite b32_inverts. apply bytes_eqb_refl.
Qed.

(** the three spellings the builder itself writes are accepted: the codec contract *)
Lemma from_codec al x e en :
  codec_ok uni_lower uni_upper H b32_decode b64_decode e (fresh_enc al en) ->
  format H (feed (fresh_enc al en) x) = alg_name al ++ [COLON] ++ encode en (H al x) ->
  (forall d1, new_digest (alg_name al ++ [COLON] ++ encode en (H al x)) e = Some d1 -> d_alg d1 = al) ->
  accepted al x (encode en (H al x)) e.
Proof.
  intros Hc Hf Ha. destruct (Hc x) as (d1 & Hn & _ & Hh & Hv). rewrite Hf in Hn.
  exists d1. split; [exact Hn|]. split; [exact (Ha d1 Hn)|]. split; assumption.
Qed.

Theorem lower_hex_accepted al x e : accepted al x (hex_encode (H al x)) e.
Proof.
  apply (from_codec al x e Base16).
  - exact (codec_ok_base16 uni_lower uni_upper H b32_decode b64_decode H_size al e).
  - reflexivity.
  - intros d1 Hn. change (encode Base16 (H al x)) with (hex_encode (H al x)) in Hn.
    pose proof (new_digest_of_hex uni_lower uni_upper H H_size al x e) as Hk.
    change (format H (feed (fresh16 al) x)) with (alg_name al ++ [COLON] ++ hex_encode (H al x)) in Hk.
    rewrite Hk in Hn. inversion Hn. reflexivity.
Qed.
Theorem upper_b32_accepted al x e : accepted al x (b32_encode (H al x)) e.
Proof.
  apply (from_codec al x e Base32).
  - exact (codec_ok_base32 uni_lower uni_upper H b32_decode b64_decode H_size b32_inverts al e).
  - reflexivity.
  - intros d1 Hn. change (encode Base32 (H al x)) with (b32_encode (H al x)) in Hn.
    pose proof (new_digest_of_b32 uni_lower uni_upper H H_size al x e) as Hk.
    change (format H (feed (fresh_enc al Base32) x)) with (alg_name al ++ [COLON] ++ b32_encode (H al x)) in Hk.
    rewrite Hk in Hn. inversion Hn. reflexivity.
Qed.
Theorem b64_accepted al x e : accepted al x (b64_encode (H al x)) e.
Proof.
  apply (from_codec al x e Base64).
  - exact (codec_ok_base64 uni_lower uni_upper H b32_decode b64_decode H_size b64_inverts al e).
  - reflexivity.
  - intros d1 Hn. change (encode Base64 (H al x)) with (b64_encode (H al x)) in Hn.
    pose proof (new_digest_of_b64 uni_lower uni_upper H H_size al x e) as Hk.
    change (format H (feed (fresh_enc al Base64) x)) with (alg_name al ++ [COLON] ++ b64_encode (H al x)) in Hk.
    rewrite Hk in Hn. inversion Hn. reflexivity.
Qed.
End Case.
