(** MonoProofs.v — the header parser along its policy axis (C08, last sentence, for this stage;
    used by C01 for warc-fields blocks): whatever the parser returns under warn it returns under
    ignore too, and a run under fail that succeeds is the run under warn.  So an input rejected
    under a more lenient syntax policy is rejected under every stricter one, and an input
    accepted under fail is parsed to the same fields under every policy. *)
Require Import Model.Bytes Model.FieldDef Model.Fields Model.Policy Model.Stream Model.HeaderParse.
Require Import Proofs.SyncProofs Proofs.PolicyProofs.
From Coq Require Import Lia.
Local Open Scope N_scope.

(** the warn run returned [b]: the ignore run returns [b] as well *)
Definition irel {A} (ri rw : res A) : Prop := forall b f, rw = Ok b f -> exists f', ri = Ok b f'.

Lemma irel_err {A} (ri : res A) e f : irel ri (Err e f).
Proof. intros b f' Hb. discriminate. Qed.
Lemma irel_ok {A} (b : A) f f' : irel (Ok b f) (Ok b f').
Proof. intros b0 f0 Hb. inversion Hb; subst. eexists; reflexivity. Qed.

Section Mono.
Variable tbl : list fielddef.
Variable uni_lower : bytes -> bytes.
Variable mime_dec : bytes -> option bytes.
Notation parse_loop := (parse_loop tbl uni_lower mime_dec).
Notation parse_fields := (parse_fields tbl uni_lower mime_dec).
Notation parse_line := (parse_line tbl uni_lower mime_dec).
Notation after_body := (after_body tbl uni_lower mime_dec).
Notation finish_body := (finish_body tbl uni_lower mime_dec).

(* readLine under ignore and under warn: the same line, look-ahead byte and stream; warn flags a
   bad line end that ignore lets pass *)
Lemma read_line_ignore_warn s :
  let '(li, nci, ei, si) := read_line Ignore s in
  let '(lw, ncw, ew, sw) := read_line Warn s in
  li = lw /\ nci = ncw /\ si = sw /\ (ei = ew \/ (ei = RLNone /\ ew = RLSyntax)).
Proof.
  unfold read_line. destruct (read_bytes LF s) as [[raw e] s1].
  destruct e as [[|]|]; cbn [policy_gt_ignore andb]; try (repeat split; left; reflexivity).
  destruct (_ || _); repeat split; try reflexivity; [right; split; reflexivity|left; reflexivity].
Qed.

Lemma cont_loop_irel : forall fuel line nc s fi fw,
  irel (cont_loop fuel Ignore line nc s fi) (cont_loop fuel Warn line nc s fw).
Proof.
  induction fuel as [|f IH]; intros line nc s fi fw; cbn [HeaderParse.cont_loop].
  - destruct (_ || _); [apply irel_err|apply irel_ok].
  - destruct (_ || _); [|apply irel_ok].
    pose proof (read_line_ignore_warn s) as Hr.
    destruct (read_line Ignore s) as [[[li nci] ei] si]. destruct (read_line Warn s) as [[[lw ncw] ew] sw].
    destruct Hr as (<- & <- & <- & [<-|[-> ->]]).
    + destruct ei; [apply IH| | |]; (destruct li; [apply irel_err|]); try apply irel_err; cbn [site]; apply IH.
    + destruct li; [apply irel_err|]. cbn [site]. apply IH.
Qed.

Lemma finish_body_irel f eoh nc2 s2 fsx fi fw :
  (forall fs s fi fw, irel (parse_loop f Ignore fs s fi) (parse_loop f Warn fs s fw)) ->
  irel (finish_body Ignore f eoh nc2 s2 fsx fi) (finish_body Warn f eoh nc2 s2 fsx fw).
Proof.
  intros IH. unfold SyncProofs.finish_body. destruct eoh; [apply irel_ok|].
  destruct (nc2 =? CR).
  - destruct (read_bytes LF s2) as [[l e2] s3]. destruct e2; [apply irel_err|]. destruct (_ =? _)%nat; [apply irel_ok|apply irel_err].
  - destruct (nc2 =? LF); [|apply IH].
    destruct (read_bytes LF s2) as [[l e2] s3]. destruct e2; [apply irel_err|]. destruct (_ <? _)%nat; [apply irel_err|apply irel_ok].
Qed.

Lemma after_body_irel f fs line nc s1 eoh fi fw :
  (forall fs s fi fw, irel (parse_loop f Ignore fs s fi) (parse_loop f Warn fs s fw)) ->
  irel (after_body Ignore f fs line nc s1 eoh fi) (after_body Warn f fs line nc s1 eoh fw).
Proof.
  intros IH. unfold SyncProofs.after_body.
  pose proof (cont_loop_irel f line nc s1 fi fw) as Hc.
  destruct (cont_loop f Warn line nc s1 fw) as [[[line2 nc2] s2] fw2|k fw2]; [|apply irel_err].
  destruct (Hc _ _ eq_refl) as [fi2 ->].
  destruct (parse_line line2 fs); cbn [site]; apply finish_body_irel; exact IH.
Qed.

Theorem parse_loop_irel : forall fuel fs s fi fw,
  irel (parse_loop fuel Ignore fs s fi) (parse_loop fuel Warn fs s fw).
Proof.
  induction fuel as [|f IH]; intros fs s fi fw; [apply irel_err|]. rewrite !parse_loop_unfold.
  pose proof (read_line_ignore_warn s) as Hr.
  destruct (read_line Ignore s) as [[[li nci] ei] si]. destruct (read_line Warn s) as [[[lw ncw] ew] sw].
  destruct Hr as (<- & <- & <- & [<-|[-> ->]]).
  - destruct ei.
    + apply after_body_irel; exact IH.
    + destruct li; [apply irel_ok|]. cbn [site]. apply after_body_irel; exact IH.
    + apply irel_err.
    + cbn [site]. apply after_body_irel; exact IH.
  - cbn [site]. apply after_body_irel; exact IH.
Qed.

Definition stricter (p q : policy) : Prop :=
  match p, q with Ignore, _ | Warn, Warn | Warn, Fail | Fail, Fail => True | _, _ => False end.

(** C08, last sentence, for the header parser (record headers and warc-fields blocks) *)
Theorem parse_fields_rejection_is_monotone p q s :
  stricter p q -> is_ok (parse_fields p s []) = false -> is_ok (parse_fields q s []) = false.
Proof.
  assert (HIW : is_ok (parse_fields Ignore s []) = false -> is_ok (parse_fields Warn s []) = false).
  { unfold HeaderParse.parse_fields. intros Hi.
    pose proof (parse_loop_irel (S (S (length (sdata s)))) [] s [] []) as Hr.
    destruct (parse_loop _ Warn [] s []) as [b f|e f]; [|reflexivity].
    destruct (Hr _ _ eq_refl) as [f' E]. rewrite E in Hi. discriminate. }
  assert (HWF : is_ok (parse_fields Warn s []) = false -> is_ok (parse_fields Fail s []) = false).
  { intros Hw. apply (parse_fields_fail_iff_warn tbl uni_lower mime_dec). right. exact Hw. }
  destruct p, q; cbn [stricter]; intros Hs; try contradiction; auto.
Qed.

(** accepted under fail: the same fields, the same rest of the stream and no finding under
    every policy *)
Theorem parse_fields_strict_ok_everywhere p s b :
  parse_fields Fail s [] = Ok b [] -> parse_fields p s [] = Ok b [].
Proof.
  unfold HeaderParse.parse_fields. intros Hf.
  assert (Hw : parse_loop (S (S (length (sdata s)))) Warn [] s [] = Ok b []).
  { destruct (parse_loop_sync tbl uni_lower mime_dec (S (S (length (sdata s)))) [] s []) as [[_ E]|[_ [e E]]].
    - rewrite <- E. exact Hf.
    - rewrite E in Hf. discriminate. }
  destruct p; [|exact Hw|exact Hf].
  destruct (parse_loop_irel (S (S (length (sdata s)))) [] s [] [] _ _ Hw) as [f' E].
  pose proof (parse_loop_quiet tbl uni_lower mime_dec Ignore ltac:(discriminate) (S (S (length (sdata s)))) [] s []) as Hq.
  rewrite E in *. cbn [findings_of] in Hq. subst f'. reflexivity.
Qed.

End Mono.

(** ** header validation along its two axes *)
Require Import Model.Validate Proofs.ValidateProofs.
Section MonoHeader.
Variable tbl : list fielddef.
Variable req : list bytes.
Variable uni_lower : bytes -> bytes.
Variables time_ok ip_ok uri_ok wid_ok : bytes -> bool.
Notation validate_header := (validate_header tbl req uni_lower time_ok ip_ok uri_ok wid_ok).
Notation canonical := (canonical tbl uni_lower).
Notation header_defects := (header_defects tbl req uni_lower time_ok ip_ok uri_ok wid_ok).
Notation body := (body tbl req uni_lower time_ok ip_ok uri_ok wid_ok).

Lemma body_err_iff p vid rt hs fs : canonical hs ->
  is_ok (if policy_gt_ignore p then body p vid rt hs fs else Ok (rt, hs) fs) = false <->
  (p = Fail /\ header_defects vid rt hs <> []).
Proof.
  intros HC. destruct p; cbn [policy_gt_ignore].
  - split; [discriminate|intros [E _]; discriminate].
  - rewrite body_emit, emit_warn by (try exact HC; reflexivity). split; [discriminate|intros [E _]; discriminate].
  - rewrite body_emit, emit_fail by (try exact HC; reflexivity).
    destruct (header_defects vid rt hs); cbn [is_ok]; split; try discriminate.
    + intros [_ Hn]. contradiction Hn; reflexivity.
    + intros _. split; [reflexivity|discriminate].
    + reflexivity.
Qed.

(** C08, last sentence, for header validation: rejected under a setting, rejected under every
    setting that is at least as strict on both axes (in particular axis by axis) *)
Theorem validate_header_rejection_is_monotone ps pu ps' pu' vid hs fs fs' :
  canonical hs -> stricter ps ps' -> stricter pu pu' ->
  is_ok (validate_header ps pu vid hs fs) = false -> is_ok (validate_header ps' pu' vid hs fs') = false.
Proof.
  intros HC Hs Hu. rewrite !validate_header_unfold. unfold resolve_rt.
  set (rt := string_to_rt (lower uni_lower (type_field uni_lower hs))).
  assert (Hb : forall f f', is_ok (if policy_gt_ignore ps then body ps vid rt hs f else Ok (rt, hs) f) = false ->
                            is_ok (if policy_gt_ignore ps' then body ps' vid rt hs f' else Ok (rt, hs) f') = false).
  { intros f f' Hf. apply (body_err_iff ps vid rt hs f HC) in Hf as [-> Hd].
    destruct ps'; cbn [stricter] in Hs; try contradiction.
    apply (body_err_iff Fail vid rt hs f' HC). split; [reflexivity|exact Hd]. }
  assert (Hk1 : forall f f',
    is_ok (if rt =? 0 then site pu (KUnknownType, type_field uni_lower hs) f
             (fun f0 => if policy_gt_ignore ps then body ps vid rt hs f0 else Ok (rt, hs) f0)
           else (if policy_gt_ignore ps then body ps vid rt hs f else Ok (rt, hs) f)) = false ->
    is_ok (if rt =? 0 then site pu' (KUnknownType, type_field uni_lower hs) f'
             (fun f0 => if policy_gt_ignore ps' then body ps' vid rt hs f0 else Ok (rt, hs) f0)
           else (if policy_gt_ignore ps' then body ps' vid rt hs f' else Ok (rt, hs) f')) = false).
  { intros f f'. destruct (rt =? 0); [|apply Hb].
    destruct pu, pu'; cbn [stricter site] in *; try contradiction; try reflexivity; try apply Hb; try discriminate. }
  destruct (type_field uni_lower hs) as [|c tf].
  - destruct ps, ps'; cbn [stricter site] in *; try contradiction; try reflexivity; try apply Hk1; try discriminate.
  - apply Hk1.
Qed.

End MonoHeader.
