(** RepairScopeProofs.v — C07, "with repair options on, only the documented repairs
    (Content-Length, block and payload digest fields ...) may differ": whatever the options,
    the policy and the findings, length and digest verification leaves every header field other
    than Content-Length, WARC-Block-Digest and WARC-Payload-Digest as it was. *)
Require Import Model.Bytes Model.FieldDef Model.Fields Model.Policy Model.Validate Model.Digest Model.Record.
Require Import Proofs.GetSetProofs.
Local Open Scope N_scope.

Section Scope.
Variable tbl : list fielddef.
Variable uni_lower : bytes -> bytes.
Variable H : alg -> bytes -> bytes.
Variables b32_decode b64_decode : bytes -> option bytes.
Notation key := (normalize_name tbl uni_lower).
Notation m_get := (m_get tbl uni_lower).
Notation m_set := (m_set tbl uni_lower).
Notation validate_digest := (validate_digest tbl uni_lower H b32_decode b64_decode).
Notation check_digest := (check_digest tbl uni_lower H b32_decode b64_decode).

Definition repairable (a : bytes) : Prop :=
  key a = key n_content_length \/ key a = key n_block_digest \/ key a = key n_payload_digest.
Definition same_elsewhere (hs hs' : fields) : Prop :=
  forall a, ~ repairable a -> m_get a hs' = m_get a hs.

Lemma same_refl hs : same_elsewhere hs hs.
Proof. intros a _. reflexivity. Qed.
Lemma same_set hs hs1 n v : repairable n -> same_elsewhere hs hs1 -> same_elsewhere hs (m_set n v hs1).
Proof.
  intros Hn Hs a Ha. rewrite get_set_other; [apply Hs; exact Ha|].
  intros E. apply Ha. unfold repairable in *. rewrite E. exact Hn.
Qed.

Lemma check_digest_scope o field d cached hs0 hs1 fnd k r fnd' :
  repairable field -> same_elsewhere hs0 hs1 ->
  (forall hs2 d2 f2, same_elsewhere hs0 hs2 -> k hs2 d2 f2 = Ok r fnd' -> same_elsewhere hs0 r) ->
  check_digest o field d cached hs1 fnd k = Ok r fnd' -> same_elsewhere hs0 r.
Proof.
  intros Hf Hs Hk. unfold Record.check_digest.
  destruct (d_hash d).
  - destruct (o_add_digest o && (policy_gt_ignore (o_spec o) || cached)); intros E; eapply Hk; try exact E; [apply same_set; assumption|exact Hs].
  - destruct (policy_gt_ignore (o_spec o) && negb (dvalidate H b32_decode b64_decode d)).
    + destruct (o_spec o); [intros E; eapply Hk; [exact Hs|exact E]| |discriminate].
      destruct (o_fix_digest o); intros E; eapply Hk; try exact E; [apply same_set; assumption|exact Hs].
    + intros E. eapply Hk; [exact Hs|exact E].
Qed.

Theorem validate_digest_scope o rt hs b bd pd cached fnd hs' fnd' :
  validate_digest o rt hs b bd pd cached fnd = Ok hs' fnd' -> same_elsewhere hs hs'.
Proof.
  unfold Record.validate_digest.
  assert (Rc : repairable n_content_length) by (left; reflexivity).
  assert (Rb : repairable n_block_digest) by (right; left; reflexivity).
  assert (Rp : repairable n_payload_digest) by (right; right; reflexivity).
  assert (K1 : forall hs1 f1, same_elsewhere hs hs1 ->
    check_digest o n_block_digest bd cached hs1 f1 (fun hs2 bd2 fnd2 =>
      if (rt =? 32) || m_has tbl uni_lower n_segment_number hs2 then Ok hs2 fnd2
      else match (match bk b with
                  | BGeneric => if rt =? 4 then pd else None
                  | BHttpReq | BHttpResp => pd
                  | _ => None
                  end) with
           | None => Ok hs2 fnd2
           | Some p => check_digest o n_payload_digest p cached hs2 fnd2 (fun hs3 _ fnd3 => Ok hs3 fnd3)
           end) = Ok hs' fnd' -> same_elsewhere hs hs').
  { intros hs1 f1 Hs1 E. eapply (check_digest_scope o n_block_digest bd cached hs hs1 f1 _ hs' fnd' Rb Hs1); [|exact E].
    intros hs2 d2 f2 Hs2 E2. cbv beta in E2.
    destruct ((rt =? 32) || m_has tbl uni_lower n_segment_number hs2); [inversion E2; subst; exact Hs2|].
    destruct (match bk b with BGeneric => if rt =? 4 then pd else None | BHttpReq | BHttpResp => pd | _ => None end) as [p|];
      [|inversion E2; subst; exact Hs2].
    eapply (check_digest_scope o n_payload_digest p cached hs hs2 f2 _ hs' fnd' Rp Hs2); [|exact E2].
    intros hs3 d3 f3 Hs3 E3. inversion E3; subst. exact Hs3. }
  cbv zeta.
  destruct (policy_gt_ignore (o_spec o) && m_has tbl uni_lower n_content_length hs && negb (bytes_eqb _ _)).
  - destruct (o_spec o); [apply K1, same_refl| |discriminate].
    destruct (o_fix_cl o); apply K1; [apply same_set; [exact Rc|apply same_refl]|apply same_refl].
  - apply K1, same_refl.
Qed.
End Scope.
