(** ValidateDigest: what it reports, what it changes, and how its three policies relate
    (C03, C07, C08). *)
Require Import Model.Bytes Model.FieldDef Model.Fields Model.Policy Model.Validate Model.Spill
               Model.Stream Model.HeaderParse Model.Digest Model.Record.
From Coq Require Import Lia.
Local Open Scope N_scope.

Ltac split_all :=
  repeat match goal with
         | |- context [match ?x with _ => _ end] =>
             match type of x with
             | bytes => destruct x eqn:?
             | bool => destruct x eqn:?
             | bkind => destruct x eqn:?
             | option digest => destruct x eqn:?
             | policy => destruct x eqn:?
             end
         end.

Definition with_spec (o : opts) (p : policy) : opts :=
  mkopts (o_syntax o) p (o_unknown o) (o_block o) (o_skip_parse o) (o_add_id o) (o_add_cl o) (o_add_digest o)
         (o_fix_cl o) (o_fix_digest o) (o_fix_syntax o) (o_fix_wfblock o) (o_alg o) (o_enc o).

Section Proofs.
Variable tbl : list fielddef.
Variable uni_lower uni_upper : bytes -> bytes.
Variable H : alg -> bytes -> bytes.
Variables b32_decode b64_decode : bytes -> option bytes.
Notation check_digest := (check_digest tbl uni_lower H b32_decode b64_decode).
Notation validate_digest := (validate_digest tbl uni_lower H b32_decode b64_decode).
Notation dvalidate := (dvalidate H b32_decode b64_decode).
Notation m_has := (m_has tbl uni_lower).
Notation m_get := (m_get tbl uni_lower).

(** what a digest check site does, case by case *)
Definition declared (d : digest) : bool := match d_hash d with [] => false | _ => true end.
Definition disagrees (d : digest) : bool := declared d && negb (dvalidate d).

(* the defects ValidateDigest looks for, in order: length, block digest, payload digest *)
Definition length_defect (hs : fields) (b : rblock) : bool :=
  m_has n_content_length hs &&
  negb (bytes_eqb (itoa (Z.of_nat (length (raw_bytes b)))) (m_get n_content_length hs)).

(** under ignore ValidateDigest never reports anything *)
Theorem validate_digest_ignore o rt hs b bd pd cached fnd :
  o_spec o = Ignore ->
  exists hs', validate_digest o rt hs b bd pd cached fnd = Ok hs' fnd.
Proof.
  intros HS. unfold Record.validate_digest, Record.check_digest. rewrite HS. cbn [policy_gt_ignore andb orb].
  repeat match goal with
         | |- context [match ?x with _ => _ end] =>
             match type of x with
             | bytes => destruct x
             | bool => destruct x
             | bkind => destruct x
             | option digest => destruct x
             end
         end; cbn [policy_gt_ignore andb orb negb]; eexists; reflexivity.
Qed.

Ltac contra :=
  exfalso;
  repeat match goal with
         | H : forall p, Some ?q = Some p -> _ |- _ => specialize (H q eq_refl)
         | H : forall p, None = Some p -> _ |- _ => clear H
         end;
  unfold disagrees, declared in *;
  repeat match goal with
         | H : ?a = _ , H2 : context [match ?a with _ => _ end] |- _ => rewrite H in H2
         end;
  cbn [andb orb negb] in *;
  repeat match goal with
         | H : _ && _ = true |- _ => apply andb_true_iff in H; destruct H
         | H : negb _ = true |- _ => apply negb_true_iff in H
         | H : negb _ = false |- _ => apply negb_false_iff in H
         end;
  congruence.

(** a record without defects passes under every policy, with no finding *)
Theorem validate_digest_clean o rt hs b bd pd cached fnd :
  length_defect hs b = false -> disagrees bd = false ->
  (forall p, pd = Some p -> disagrees p = false) ->
  exists hs', validate_digest o rt hs b bd pd cached fnd = Ok hs' fnd.
Proof.
  intros HL HB HP. unfold Record.validate_digest. unfold length_defect in HL. rewrite <- andb_assoc, HL, andb_false_r.
  unfold Record.check_digest.
  destruct (bk b) eqn:?; destruct (rt =? 4) eqn:?; destruct pd as [pdd|] eqn:?;
    split_all; first [eexists; reflexivity | contra].
Qed.

(** under fail: a wrong length, then a disagreeing block digest, are errors *)
Theorem validate_digest_fail_length o rt hs b bd pd cached fnd :
  o_spec o = Fail -> length_defect hs b = true ->
  validate_digest o rt hs b bd pd cached fnd = Err (KLength, []) fnd.
Proof.
  intros HS HL. unfold Record.validate_digest. unfold length_defect in HL. rewrite HS. cbn [policy_gt_ignore andb].
  rewrite HL. reflexivity.
Qed.

Theorem validate_digest_fail_block o rt hs b bd pd cached fnd :
  o_spec o = Fail -> length_defect hs b = false -> disagrees bd = true ->
  validate_digest o rt hs b bd pd cached fnd = Err (KDigest, n_block_digest) fnd.
Proof.
  intros HS HL HB. unfold Record.validate_digest. unfold length_defect in HL. rewrite <- andb_assoc, HL, andb_false_r.
  unfold Record.check_digest. unfold disagrees, declared in HB. rewrite HS.
  destruct (d_hash bd); [discriminate|]. cbn [andb policy_gt_ignore] in *. rewrite HB. reflexivity.
Qed.

(** under warn: the same defects are findings, and the record is still returned *)
Theorem validate_digest_warn_reports o rt hs b bd pd cached fnd :
  o_spec o = Warn ->
  exists hs' fnd', validate_digest o rt hs b bd pd cached fnd = Ok hs' fnd' /\
    (length_defect hs b = true -> exists r, fnd' = fnd ++ (KLength, []) :: r) /\
    (length_defect hs b = false -> disagrees bd = true -> exists r, fnd' = fnd ++ (KDigest, n_block_digest) :: r).
Proof.
  intros HS. unfold Record.validate_digest, Record.check_digest, length_defect, disagrees, declared. rewrite HS.
  cbn [policy_gt_ignore andb orb].
  destruct (m_has n_content_length hs && negb (bytes_eqb _ (m_get n_content_length hs))) eqn:EL.
  - (* length finding *)
    repeat match goal with
           | |- context [match ?x with _ => _ end] =>
               match type of x with
               | bytes => destruct x eqn:?
               | bool => destruct x eqn:?
               | bkind => destruct x eqn:?
               | option digest => destruct x eqn:?
               end
           end; cbn [policy_gt_ignore andb orb negb];
    eexists; eexists; (split; [reflexivity|]); (split; [intros _; rewrite <- ?app_assoc; eexists; reflexivity|intros; discriminate]).
  - repeat match goal with
           | |- context [match ?x with _ => _ end] =>
               match type of x with
               | bytes => destruct x eqn:?
               | bool => destruct x eqn:?
               | bkind => destruct x eqn:?
               | option digest => destruct x eqn:?
               end
           end; cbn [policy_gt_ignore andb orb negb] in *;
    eexists; eexists; (split; [reflexivity|]);
    (split; [intros; discriminate|intros _ HD; try discriminate; rewrite <- ?app_assoc; eexists; reflexivity]).
Qed.

End Proofs.

(** the digests handed to ValidateDigest have been fed exactly the bytes of the block *)
Section Feeding.
Variable tbl : list fielddef.
Variable req : list bytes.
Variable uni_lower uni_upper : bytes -> bytes.
Variable mime_dec : bytes -> option bytes.
Variables http_req_ok http_resp_ok : bytes -> bool.
Notation parse_block := (parse_block tbl uni_lower uni_upper mime_dec http_req_ok http_resp_ok).
Notation digest_from_field := (digest_from_field tbl uni_lower uni_upper).

Lemma new_digest_unfed s e d : new_digest uni_lower uni_upper s e = Some d -> d_fed d = [].
Proof.
  unfold new_digest. destruct (split_colon s) as [a oh].
  destruct (alg_of_name (normalize_alg uni_lower a)); intros HH; inversion HH; reflexivity.
Qed.

Lemma digest_from_field_unfed o hs n d : digest_from_field o hs n = Some d -> d_fed d = [].
Proof. unfold Record.digest_from_field. destruct (m_has _ _ _ _); apply new_digest_unfed. Qed.

Theorem parse_block_feeds_the_block o rt hs content fnd hs' blk bd pd fnd' :
  parse_block o rt hs content fnd = Ok (hs', blk, bd, pd) fnd' ->
  d_fed bd = raw_bytes blk /\ (forall p, pd = Some p -> d_fed p = bb blk).
Proof.
  unfold Record.parse_block.
  destruct (digest_from_field o hs n_block_digest) as [b0|] eqn:E1; [|intros HH; discriminate].
  destruct (digest_from_field o hs n_payload_digest) as [p0|] eqn:E2; [|intros HH; discriminate].
  pose proof (digest_from_field_unfed _ _ _ _ E1) as F1. pose proof (digest_from_field_unfed _ _ _ _ E2) as F2.
  unfold site.
  repeat match goal with
         | |- context [match ?x with _ => _ end] =>
             match type of x with
             | bool => destruct x eqn:?
             | policy => destruct x eqn:?
             | list finding => destruct x eqn:?
             | res _ => destruct x eqn:?
             | prod _ _ => destruct x eqn:?
             end
         end;
    intros HH; inversion HH; subst; unfold raw_bytes, feed; cbn [d_fed bh bb app];
    rewrite ?F1, ?F2; cbn [app]; (split; [reflexivity|]); intros p Hp; inversion Hp; subst; cbn [d_fed]; rewrite ?F2; reflexivity.
Qed.

End Feeding.

(** with the add/repair options off ValidateDigest never touches the header (C07) *)
Section Untouched.
Variable tbl : list fielddef.
Variable uni_lower : bytes -> bytes.
Variable H : alg -> bytes -> bytes.
Variables b32_decode b64_decode : bytes -> option bytes.
Notation validate_digest := (validate_digest tbl uni_lower H b32_decode b64_decode).

Theorem validate_digest_repairs_off o rt hs b bd pd cached fnd hs' fnd' :
  o_add_digest o = false -> o_fix_cl o = false -> o_fix_digest o = false ->
  validate_digest o rt hs b bd pd cached fnd = Ok hs' fnd' -> hs' = hs.
Proof.
  intros A1 A2 A3. unfold Record.validate_digest, Record.check_digest. rewrite A1, A2, A3. cbn [andb].
  destruct (bk b) eqn:?; destruct (rt =? 4) eqn:?; destruct pd as [pdd|] eqn:?;
    split_all; intros HH; inversion HH; reflexivity.
Qed.

(* the end-of-record marker *)
Lemma trailer_ok o rest tl fnd : trailer o (mkst (CRLFCRLF ++ rest) tl) fnd = Ok (mkst rest tl) fnd.
Proof. reflexivity. Qed.

Lemma trailer_short o s fnd : (length (sdata s) < 4)%nat ->
  exists s', trailer o s fnd = site (o_spec o) (KTrailer, []) fnd (fun f => Ok s' f).
Proof.
  intros Hl. unfold trailer, peek. 
  destruct (sdata s) as [|a [|b [|c [|d t]]]] eqn:E; cbn [length] in Hl; try lia; cbn [firstn];
    match goal with |- context [bytes_eqb ?x CRLFCRLF] => replace (bytes_eqb x CRLFCRLF) with false by
        (unfold CRLFCRLF; cbn [bytes_eqb]; repeat match goal with |- context [?u =? ?v] => destruct (u =? v) end; reflexivity) end;
    eexists; reflexivity.
Qed.

End Untouched.
