(** ProtocolProofs.v — invariants of the writer protocol, termination measure, progress. *)
Require Import Model.Bytes Model.Protocol.
From Coq Require Import Arith Lia Bool.
Local Open Scope nat_scope.

(** * lists: update and sums *)
Section ListLemmas.
Context {A : Type}.
Lemma length_upd i (x : A) l : length (upd i x l) = length l.
Proof. revert i; induction l as [|a l IH]; intros [|i]; simpl; auto. Qed.
Lemma nth_upd_eq i (x : A) l : i < length l -> nth_error (upd i x l) i = Some x.
Proof. revert i; induction l as [|a l IH]; intros [|i] H; simpl in *; try lia; auto. apply IH; lia. Qed.
Lemma nth_upd_neq i j (x : A) l : i <> j -> nth_error (upd i x l) j = nth_error l j.
Proof. revert i j; induction l as [|a l IH]; intros [|i] [|j] H; simpl; auto; try congruence. Qed.
Lemma nth_some_lt i (l : list A) a : nth_error l i = Some a -> i < length l.
Proof. intros H; apply nth_error_Some; congruence. Qed.
Lemma nth_upd i j (x : A) l a : nth_error l i = Some a ->
  nth_error (upd i x l) j = if j =? i then Some x else nth_error l j.
Proof.
  intros H; destruct (Nat.eqb_spec j i) as [->|Hn].
  - apply nth_upd_eq; eapply nth_some_lt; eauto.
  - apply nth_upd_neq; auto.
Qed.
Definition sumf (f : A -> nat) (l : list A) : nat := fold_right (fun a n => f a + n) 0 l.
Lemma sumf_upd f i x a l : nth_error l i = Some a -> sumf f (upd i x l) + f a = sumf f l + f x.
Proof.
  revert i; induction l as [|a0 l IH]; intros [|i] H; simpl in *; try discriminate.
  - inversion H; subst; lia.
  - specialize (IH _ H); lia.
Qed.
Lemma sumf_nth f l i a : nth_error l i = Some a -> f a <= sumf f l.
Proof. revert i; induction l as [|a0 l IH]; intros [|i] H; simpl in *; try discriminate.
  - inversion H; subst; lia.
  - specialize (IH _ H); lia. Qed.
Lemma sumf_pos f l : 0 < sumf f l -> exists i a, nth_error l i = Some a /\ 0 < f a.
Proof.
  induction l as [|a0 l IH]; simpl; intros H; [lia|].
  destruct (f a0) eqn:E.
  - destruct IH as (i & a & Hi & Ha); [lia|]. exists (S i), a; auto.
  - exists 0, a0; simpl; split; auto; lia.
Qed.
Lemma sumf_zero f l : (forall a, In a l -> f a = 0) -> sumf f l = 0.
Proof. induction l as [|a0 l IH]; simpl; intros H; auto. rewrite (H a0), IH; auto. Qed.
End ListLemmas.

(** * counting *)
Definition djob (d : dstate) : option (nat * nat) :=
  match d with DHold j b => Some (j, b) | DX0 o | DX1 o => o | _ => None end.
Definition dcount (j : nat) (d : dstate) : nat :=
  match djob d with Some (j', _) => if j' =? j then 1 else 0 | None => 0 end.
Definition wcount (j : nat) (k : kstate) : nat :=
  match k with KBusy j' _ _ | KCrit j' _ _ | KRespond j' _ => if j' =? j then 1 else 0 | _ => 0 end.
Definition hc (j : nat) (s : pstate) : nat := dcount j (disp s) + sumf (wcount j) (workers s).
Definition cval (f : caller -> nat) (cs : list caller) (j : nat) : nat :=
  match nth_error cs j with Some c => f c | None => 0 end.
Definition is_cw3 (c : caller) : nat := match c_pc c with CW3 _ => 1 | _ => 0 end.
Definition at_cw3 (s : pstate) (j b : nat) : Prop :=
  exists c, nth_error (callers s) j = Some c /\ c_pc c = CW3 b.

Definition dclosed (d : dstate) : bool := match d with DX1 _ | DX2 | DEnd => true | _ => false end.
Definition djobsclosed (d : dstate) : bool := match d with DEnd => true | _ => false end.
Definition dexiting (d : dstate) : bool := match d with DIdle | DHold _ _ => false | _ => true end.
Definition kstopped (k : kstate) : bool := match k with KClosing | KClosingCrit | KEnd => true | _ => false end.

Fixpoint countp (j : nat) (l : list (nat * nat)) : nat :=
  match l with [] => 0 | (j', _) :: t => (if j' =? j then 1 else 0) + countp j t end.
Lemma countp_app j l1 l2 : countp j (l1 ++ l2) = countp j l1 + countp j l2.
Proof. induction l1 as [|[a b] l IH]; simpl; auto. rewrite IH; lia. Qed.

Fixpoint count_some (l : list (option nat)) : nat :=
  match l with [] => 0 | Some _ :: t => S (count_some t) | None :: t => count_some t end.
Fixpoint sum_some (l : list (option nat)) : nat :=
  match l with [] => 0 | Some b :: t => b + sum_some t | None :: t => sum_some t end.
Lemma count_some_app l1 l2 : count_some (l1 ++ l2) = count_some l1 + count_some l2.
Proof. induction l1 as [|[b|] l IH]; simpl; auto. Qed.
Lemma sum_some_app l1 l2 : sum_some (l1 ++ l2) = sum_some l1 + sum_some l2.
Proof. induction l1 as [|[b|] l IH]; simpl; auto. rewrite IH; lia. Qed.

Definition resp (j : nat) (k : kstate) : nat :=
  match k with KRespond j' _ => if j' =? j then 1 else 0 | _ => 0 end.
Definition inflight (j : nat) (k : kstate) : nat :=
  match k with
  | KBusy j' b n | KCrit j' b n => if j' =? j then b - n else 0
  | KRespond j' b => if j' =? j then b else 0
  | _ => 0
  end.

Lemma cval_upd f cs i c c' j : nth_error cs i = Some c ->
  cval f (upd i c' cs) j = if j =? i then f c' else cval f cs j.
Proof. intros H; unfold cval; rewrite (nth_upd _ _ _ _ _ H). destruct (j =? i); auto. Qed.

(** * the invariant *)
Record Inv (s : pstate) : Prop := {
  I_hc : forall j, hc j s = cval is_cw3 (callers s) j;
  I_dj : forall j b, djob (disp s) = Some (j, b) -> at_cw3 s j b;
  I_kb : forall w j b n, nth_error (workers s) w = Some (KBusy j b n) -> at_cw3 s j b /\ n <= b;
  I_kc : forall w j b n, nth_error (workers s) w = Some (KCrit j b n) -> at_cw3 s j b /\ n <= b /\ 0 < n;
  I_kr : forall w j b, nth_error (workers s) w = Some (KRespond j b) -> at_cw3 s j b;
  I_closed : closed s = dclosed (disp s);
  I_jobs : jobs_closed s = djobsclosed (disp s);
  I_wend : forall w k, nth_error (workers s) w = Some k -> kstopped k = true -> jobs_closed s = true;
  I_cc1 : forall i c, nth_error (callers s) i = Some c -> c_pc c = CC1 -> dexiting (disp s) = true;
  I_cc2 : forall i c, nth_error (callers s) i = Some c -> c_pc c = CC2 -> closed s = true;
  I_nw : 0 < length (workers s);
  I_crc : forall i c k, nth_error (callers s) i = Some c -> c_pc c = CRC k -> k < length (workers s);
  I_files : length (files s) = length (workers s) /\
            forall w, nth_error (workers s) w = Some KEnd -> nth_error (files s) w = Some false;
  I_proc : forall j, countp j (processed s) = cval (fun c => count_some (c_results c)) (callers s) j + sumf (resp j) (workers s);
  I_writ : forall j, countp j (written s) = cval (fun c => sum_some (c_results c)) (callers s) j + sumf (inflight j) (workers s)
}.

(** * the initial state *)
Lemma nth_repeat {A} (x : A) n w k : nth_error (repeat x n) w = Some k -> k = x.
Proof. revert w; induction n as [|n IH]; intros [|w]; simpl; try discriminate; [congruence|apply IH]. Qed.
Lemma sumf_repeat {A} (f : A -> nat) x n : f x = 0 -> sumf f (repeat x n) = 0.
Proof. intros H; induction n; simpl; auto; lia. Qed.

Lemma inv_init scripts n : 0 < n -> Inv (init scripts n).
Proof.
  intros Hn. unfold init.
  assert (Hc : forall j c, nth_error (map (fun sc => mkc CIdle sc []) scripts) j = Some c ->
                 c_pc c = CIdle /\ c_results c = []).
  { intros j c H. rewrite nth_error_map in H. destruct (nth_error scripts j); inversion H; subst; auto. }
  constructor; cbn [callers disp workers closed jobs_closed processed written files log].
  - intros j. unfold hc, cval, is_cw3; cbn [disp workers dcount djob].
    rewrite sumf_repeat by reflexivity.
    destruct (nth_error _ j) eqn:E; auto. destruct (Hc _ _ E) as [-> _]; auto.
  - intros j b H; discriminate.
  - intros w j b k H. apply nth_repeat in H; discriminate.
  - intros w j b k H. apply nth_repeat in H; discriminate.
  - intros w j b H. apply nth_repeat in H; discriminate.
  - reflexivity.
  - reflexivity.
  - intros w k H Hk. apply nth_repeat in H; subst; discriminate.
  - intros i c H Hp. destruct (Hc _ _ H); congruence.
  - intros i c H Hp. destruct (Hc _ _ H); congruence.
  - rewrite repeat_length; auto.
  - intros i c k H Hp. destruct (Hc _ _ H); congruence.
  - rewrite !repeat_length; split; auto. intros w H. apply nth_repeat in H; discriminate.
  - intros j. unfold cval. rewrite sumf_repeat by reflexivity.
    destruct (nth_error _ j) eqn:E; auto. destruct (Hc _ _ E) as [_ ->]; auto.
  - intros j. unfold cval. rewrite sumf_repeat by reflexivity.
    destruct (nth_error _ j) eqn:E; auto. destruct (Hc _ _ E) as [_ ->]; auto.
Qed.

(** * preservation *)
Ltac proj := cbn [callers disp workers closed jobs_closed processed written files log set_caller set_worker set_disp] in *.

(* rewrite the caller lookup at index j0 after an update, and expose the old caller's value *)
Ltac caller_at j0 :=
  match goal with
  | H : nth_error (callers ?s) ?i = Some ?c |- _ =>
      try rewrite !(cval_upd _ _ _ _ _ j0 H);
      destruct (Nat.eqb_spec j0 i);
      [ subst j0; unfold cval in *; try rewrite H in * | ]
  end.

Ltac worker_sums :=
  repeat match goal with
  | H : nth_error (workers ?s) ?w = Some ?k |- context [sumf ?f (upd ?w ?k' (workers ?s))] =>
      let E := fresh "E" in
      pose proof (sumf_upd f w k' k _ H) as E;
      let x := fresh "x" in
      set (x := sumf f (upd w k' (workers s))) in *; clearbody x
  end.

Ltac eqbs :=
  repeat match goal with
  | |- context [?a =? ?b] => destruct (Nat.eqb_spec a b); try subst
  | H : context [?a =? ?b] |- _ => destruct (Nat.eqb_spec a b); try subst
  end.

Lemma pres_hc s s' : Inv s -> step s s' -> forall j, hc j s' = cval is_cw3 (callers s') j.
Proof.
  intros Hinv Hstep j0. pose proof (I_hc _ Hinv j0) as Hh.
  inversion Hstep; subst; unfold hc in *; proj.
  all: try caller_at j0.
  all: worker_sums.
  all: unfold is_cw3, dcount, djob, wcount in *; cbn [c_pc] in *.
  all: repeat match goal with H : c_pc _ = _ |- _ => rewrite H in * end.
  all: repeat match goal with H : disp _ = _ |- _ => rewrite H in * end.
  all: try lia.
  all: eqbs; try lia.
Qed.

Lemma pres_proc s s' : Inv s -> step s s' ->
  forall j, countp j (processed s') = cval (fun c => count_some (c_results c)) (callers s') j + sumf (resp j) (workers s').
Proof.
  intros Hinv Hstep j0. pose proof (I_proc _ Hinv j0) as Hh.
  inversion Hstep; subst; proj.
  all: try rewrite countp_app; cbn [countp].
  all: try caller_at j0.
  all: worker_sums.
  all: unfold resp in *; cbn [c_results] in *; try rewrite count_some_app; cbn [count_some].
  all: try lia.
  all: eqbs; try lia.
Qed.

Lemma pres_writ s s' : Inv s -> step s s' ->
  forall j, countp j (written s') = cval (fun c => sum_some (c_results c)) (callers s') j + sumf (inflight j) (workers s').
Proof.
  intros Hinv Hstep j0. pose proof (I_writ _ Hinv j0) as Hh.
  inversion Hstep; subst; proj.
  all: try rewrite countp_app; cbn [countp].
  all: try caller_at j0.
  all: try match goal with H : nth_error (workers _) _ = Some (KBusy _ _ _) |- _ =>
         pose proof (proj2 (I_kb _ Hinv _ _ _ _ H)) end.
  all: try match goal with H : nth_error (workers _) _ = Some (KCrit _ _ _) |- _ =>
         pose proof (proj2 (I_kc _ Hinv _ _ _ _ H)) end.
  all: worker_sums.
  all: unfold inflight in *; cbn [c_results] in *; try rewrite sum_some_app; cbn [sum_some].
  all: try lia.
  all: eqbs; try lia.
Qed.

Lemma cw3_le1 s j : cval is_cw3 (callers s) j <= 1.
Proof. unfold cval, is_cw3. destruct (nth_error _ j) as [c|]; [destruct (c_pc c)|]; lia. Qed.

Lemma holder_unique s w k i : Inv s -> nth_error (workers s) w = Some k -> wcount i k = 1 ->
  dcount i (disp s) = 0 /\
  forall w' k', w' <> w -> nth_error (workers s) w' = Some k' -> wcount i k' = 0.
Proof.
  intros Hinv Hw Hk. pose proof (I_hc _ Hinv i) as Hh. pose proof (cw3_le1 s i) as Hle.
  unfold hc in Hh. pose proof (sumf_upd (wcount i) w KIdle k _ Hw) as E. cbn [wcount] in E.
  split; [lia|]. intros w' k' Hne Hw'.
  assert (Hn : nth_error (upd w KIdle (workers s)) w' = Some k') by (rewrite nth_upd_neq; auto).
  pose proof (sumf_nth (wcount i) _ _ _ Hn). lia.
Qed.

Lemma disp_holder_unique s i b : Inv s -> djob (disp s) = Some (i, b) ->
  forall w k, nth_error (workers s) w = Some k -> wcount i k = 0.
Proof.
  intros Hinv Hd w k Hw. pose proof (I_hc _ Hinv i) as Hh. pose proof (cw3_le1 s i) as Hle.
  unfold hc, dcount in Hh. rewrite Hd, Nat.eqb_refl in Hh.
  pose proof (sumf_nth (wcount i) _ _ _ Hw). lia.
Qed.

(* a holder's caller stays at CW3 across a step, unless the step is that caller's own result *)
Lemma at_cw3_keep s s' j b : step s s' -> at_cw3 s j b ->
  (forall c w b', nth_error (callers s) j = Some c -> nth_error (workers s) w = Some (KRespond j b') ->
     s' = set_worker (set_caller s j (mkc CIdle (c_script c) (c_results c ++ [Some b']))) w KIdle -> False) ->
  at_cw3 s' j b.
Proof.
  intros Hstep (c0 & Hc0 & Hp0) Hnot. unfold at_cw3.
  inversion Hstep; subst; proj; try (exists c0; split; assumption).
  all: match goal with H : nth_error (callers _) ?i = Some ?c |- exists _, nth_error (upd ?i _ _) _ = _ /\ _ =>
         rewrite (nth_upd _ j _ _ _ H); destruct (Nat.eqb_spec j i);
         [subst; rewrite H in Hc0; inversion Hc0; subst; try congruence | exists c0; split; assumption] end.
  exfalso. eapply Hnot; eauto.
Qed.

Lemma pres_dj s s' : Inv s -> step s s' -> forall j b, djob (disp s') = Some (j, b) -> at_cw3 s' j b.
Proof.
  intros Hinv Hstep j b Hd.
  assert (Hcase : djob (disp s) = Some (j, b) \/ at_cw3 s' j b).
  { unfold at_cw3. inversion Hstep; subst; proj; try (left; exact Hd); try discriminate.
    all: try (left; match goal with H : disp _ = _ |- _ => rewrite H end; exact Hd).
    right. cbn [djob] in Hd. inversion Hd; subst.
    match goal with H : nth_error (callers _) _ = Some _ |- _ =>
      rewrite (nth_upd _ j _ _ _ H), Nat.eqb_refl end.
    eexists; split; [reflexivity|reflexivity]. }
  destruct Hcase as [Hold|]; [|assumption].
  apply (at_cw3_keep s); auto. { apply (I_dj _ Hinv); auto. }
  intros c w b' Hc Hw _. pose proof (disp_holder_unique _ _ _ Hinv Hold _ _ Hw) as E.
  cbn [wcount] in E. rewrite Nat.eqb_refl in E. discriminate.
Qed.

Ltac worker_lookup w :=
  match goal with
  | Hw : nth_error (workers _) ?w0 = Some _, H : nth_error (upd ?w0 _ _) w = Some _ |- _ =>
      rewrite (nth_upd _ w _ _ _ Hw) in H; destruct (Nat.eqb_spec w w0); [subst w; inversion H; subst | ]
  end.

Definition kjob (k : kstate) : option (nat * nat * nat) :=
  match k with KBusy j b n | KCrit j b n => Some (j, b, n) | _ => None end.

Lemma pres_kjob s s' : Inv s -> step s s' ->
  forall w k j b n, nth_error (workers s') w = Some k -> kjob k = Some (j, b, n) -> at_cw3 s' j b /\ n <= b.
Proof.
  intros Hinv Hstep w k j b n Hk Hj.
  assert (Hcase : (exists w1 k1 n', nth_error (workers s) w1 = Some k1 /\ kjob k1 = Some (j, b, n') /\ n <= n')
                  \/ (djob (disp s) = Some (j, b) /\ n = b)).
  { inversion Hstep; subst; proj; try (left; exists w, k, n; split; [exact Hk|split; [exact Hj|lia]]).
    all: worker_lookup w; try (left; exists w, k, n; split; [assumption|split; [exact Hj|lia]]).
    all: try discriminate; cbn [kjob] in Hj; inversion Hj; subst.
    all: try (right; match goal with H : disp _ = _ |- _ => rewrite H end; auto; fail).
    all: left; eexists _, _, _; (split; [eassumption|split; [reflexivity|lia]]). }
  assert (Hat : at_cw3 s j b /\ n <= b).
  { destruct Hcase as [(w1 & k1 & n' & Hw1 & Hj1 & Hle)|[Hd ->]].
    - destruct k1; try discriminate; cbn [kjob] in Hj1; inversion Hj1; subst.
      + destruct (I_kb _ Hinv _ _ _ _ Hw1); split; auto; lia.
      + destruct (I_kc _ Hinv _ _ _ _ Hw1) as (? & ? & ?); split; auto; lia.
    - split; auto. apply (I_dj _ Hinv); auto. }
  destruct Hat as [Hat Hle]. split; auto.
  apply (at_cw3_keep s); auto.
  intros c w2 b' Hc Hw2 _.
  destruct Hcase as [(w1 & k1 & n' & Hw1 & Hj1 & _)|[Hd _]].
  - assert (E : wcount j (KRespond j b') = 1) by (cbn; rewrite Nat.eqb_refl; auto).
    destruct (holder_unique _ _ _ _ Hinv Hw2 E) as [_ Hu].
    destruct (Nat.eq_dec w1 w2) as [->|Hne]; [rewrite Hw2 in Hw1; inversion Hw1; subst; discriminate|].
    specialize (Hu _ _ Hne Hw1).
    destruct k1; try discriminate; cbn in Hu, Hj1; inversion Hj1; subst; rewrite Nat.eqb_refl in Hu; discriminate.
  - pose proof (disp_holder_unique _ _ _ Hinv Hd _ _ Hw2) as E.
    cbn [wcount] in E. rewrite Nat.eqb_refl in E. discriminate.
Qed.

Lemma pres_kcpos s s' : Inv s -> step s s' ->
  forall w j b n, nth_error (workers s') w = Some (KCrit j b n) -> 0 < n.
Proof.
  intros Hinv Hstep w j b n Hk.
  inversion Hstep; subst; proj; try (eapply (I_kc _ Hinv); eassumption).
  all: worker_lookup w; try (eapply (I_kc _ Hinv); eassumption); lia.
Qed.

Lemma pres_kr s s' : Inv s -> step s s' ->
  forall w j b, nth_error (workers s') w = Some (KRespond j b) -> at_cw3 s' j b.
Proof.
  intros Hinv Hstep w j b Hk.
  assert (Hcase : exists k, nth_error (workers s) w = Some k /\ (k = KRespond j b \/ k = KBusy j b 0)).
  { inversion Hstep; subst; proj; try (eexists; split; [exact Hk|auto]).
    all: worker_lookup w; try (eexists; split; [eassumption|auto]). }
  destruct Hcase as (k & Hw & Hkk).
  assert (Hat : at_cw3 s j b).
  { destruct Hkk as [->| ->]; [apply (I_kr _ Hinv _ _ _ Hw)|apply (I_kb _ Hinv _ _ _ _ Hw)]. }
  assert (Hc1 : wcount j k = 1) by (destruct Hkk as [->| ->]; cbn; rewrite Nat.eqb_refl; auto).
  apply (at_cw3_keep s); auto.
  intros c w2 b' Hc Hw2 Hs'.
  destruct (Nat.eq_dec w w2) as [->|Hne].
  - subst s'. proj. rewrite (nth_upd _ w2 _ _ _ Hw2), Nat.eqb_refl in Hk. discriminate.
  - assert (E : wcount j (KRespond j b') = 1) by (cbn; rewrite Nat.eqb_refl; auto).
    destruct (holder_unique _ _ _ _ Hinv Hw2 E) as [_ Hu].
    specialize (Hu _ _ Hne Hw). lia.
Qed.

Lemma pres_flags s s' : Inv s -> step s s' ->
  closed s' = dclosed (disp s') /\ jobs_closed s' = djobsclosed (disp s') /\ 0 < length (workers s').
Proof.
  intros Hinv Hstep. pose proof (I_closed _ Hinv). pose proof (I_jobs _ Hinv). pose proof (I_nw _ Hinv).
  inversion Hstep; subst; proj; rewrite ?length_upd;
    repeat match goal with H : disp _ = _ |- _ => rewrite H in * end; cbn [dclosed djobsclosed] in *; auto.
Qed.

Lemma pres_wend s s' : Inv s -> step s s' ->
  forall w k, nth_error (workers s') w = Some k -> kstopped k = true -> jobs_closed s' = true.
Proof.
  intros Hinv Hstep w k Hk Hst. pose proof (I_wend _ Hinv) as Hold.
  inversion Hstep; subst; proj; try (eapply Hold; eauto; fail); auto.
  all: worker_lookup w; try discriminate; try (eapply Hold; eauto; fail); auto.
  all: match goal with Hk : nth_error (workers _) _ = Some ?k, Hst : kstopped ?k = true |- _ => exact (Hold _ _ Hk Hst) end.
Qed.

Lemma pres_cc s s' : Inv s -> step s s' ->
  (forall i c, nth_error (callers s') i = Some c -> c_pc c = CC1 -> dexiting (disp s') = true) /\
  (forall i c, nth_error (callers s') i = Some c -> c_pc c = CC2 -> closed s' = true).
Proof.
  intros Hinv Hstep. pose proof (I_cc1 _ Hinv) as H1. pose proof (I_cc2 _ Hinv) as H2.
  pose proof (I_closed _ Hinv) as Hcl.
  split; intros i0 c0 Hc0 Hp0.
  - inversion Hstep; subst; proj; auto; try (eapply H1; eauto; fail).
    all: try (match goal with H : nth_error (callers _) ?i = Some _ |- _ =>
           rewrite (nth_upd _ i0 _ _ _ H) in Hc0; destruct (Nat.eqb_spec i0 i);
           [inversion Hc0; subst; cbn [c_pc] in Hp0; try discriminate | ] end).
    all: try (exact (H1 _ _ Hc0 Hp0)).
    all: repeat match goal with H : disp _ = _ |- _ => rewrite H in * end; cbn [dclosed dexiting] in *; try congruence.
    all: try (specialize (H1 _ _ Hc0 Hp0); repeat match goal with H : disp _ = _ |- _ => rewrite H in * end; cbn in H1; congruence).
    all: destruct (disp _); cbn in *; congruence.
  - inversion Hstep; subst; proj; auto; try (eapply H2; eauto; fail).
    all: try (match goal with H : nth_error (callers _) ?i = Some _ |- _ =>
           rewrite (nth_upd _ i0 _ _ _ H) in Hc0; destruct (Nat.eqb_spec i0 i);
           [inversion Hc0; subst; cbn [c_pc] in Hp0; try discriminate | ] end).
    all: try (exact (H2 _ _ Hc0 Hp0)); auto.
Qed.

Lemma pres_crc s s' : Inv s -> step s s' ->
  forall i c k, nth_error (callers s') i = Some c -> c_pc c = CRC k -> k < length (workers s').
Proof.
  intros Hinv Hstep i0 c0 k0 Hc0 Hp0. pose proof (I_crc _ Hinv) as Hold.
  inversion Hstep; subst; proj; rewrite ?length_upd; try (exact (Hold _ _ _ Hc0 Hp0)).
  all: match goal with H : nth_error (callers _) ?i = Some _ |- _ =>
         rewrite (nth_upd _ i0 _ _ _ H) in Hc0; destruct (Nat.eqb_spec i0 i);
         [inversion Hc0; subst; cbn [c_pc] in Hp0; try discriminate | exact (Hold _ _ _ Hc0 Hp0)] end.
  inversion Hp0; subst; auto.
Qed.

Lemma pres_files s s' : Inv s -> step s s' ->
  length (files s') = length (workers s') /\
  forall w, nth_error (workers s') w = Some KEnd -> nth_error (files s') w = Some false.
Proof.
  intros Hinv Hstep. destruct (I_files _ Hinv) as [Hlen Hold].
  inversion Hstep; subst; proj; rewrite ?length_upd; split; auto.
  all: intros w0 Hw0.
  all: try (worker_lookup w0; try discriminate).
  all: try (apply Hold; assumption).
  - (* Rotate closes the file of worker k *)
    destruct (Nat.eq_dec k w0) as [->|Hne]; [apply nth_upd_eq; lia|rewrite nth_upd_neq; auto].
  - (* a record write opens worker w's file; w0 <> w *)
    rewrite nth_upd_neq; auto.
  - apply nth_upd_eq. rewrite Hlen. eapply nth_some_lt; eauto.
  - rewrite nth_upd_neq; auto.
Qed.

Lemma inv_step s s' : Inv s -> step s s' -> Inv s'.
Proof.
  intros Hinv Hstep.
  destruct (pres_flags _ _ Hinv Hstep) as (? & ? & ?). destruct (pres_cc _ _ Hinv Hstep).
  constructor; auto.
  - apply pres_hc with s; auto.
  - apply pres_dj with s; auto.
  - intros w j b n Hk. exact (pres_kjob s _ Hinv Hstep _ _ j b n Hk eq_refl).
  - intros w j b n Hk. destruct (pres_kjob s _ Hinv Hstep _ _ j b n Hk eq_refl). repeat split; auto.
    eapply (pres_kcpos s); eauto.
  - apply pres_kr with s; auto.
  - apply pres_wend with s; auto.
  - apply pres_crc with s; auto.
  - apply pres_files with s; auto.
  - apply pres_proc with s; auto.
  - apply pres_writ with s; auto.
Qed.

Lemma inv_reach s0 s : Inv s0 -> reach s0 s -> Inv s.
Proof. intros H0 Hr; induction Hr; auto. eapply inv_step; eauto. Qed.

(** * termination: every step decreases a measure *)
Definition w_op (nw : nat) (o : cop) : nat := match o with CWrite b => 2 * b + 15 | CRotate => 2 * nw + 3 | CClose => 4 end.
Definition w_pc (nw : nat) (p : cpc) : nat :=
  match p with
  | CIdle => 0 | CW2 b => 2 * b + 14 | CW3 _ => 1 | CC1 => 3 | CC2 => 2
  | CR k => 2 * (nw - k) + 2 | CRC k => 2 * (nw - k) + 1
  end.
Definition w_caller (nw : nat) (c : caller) : nat := w_pc nw (c_pc c) + sumf (w_op nw) (c_script c).
Definition w_disp (d : dstate) : nat :=
  match d with
  | DIdle => 4 | DHold _ b => 2 * b + 12
  | DX0 None => 3 | DX0 (Some (_, b)) => 2 * b + 11
  | DX1 None => 2 | DX1 (Some (_, b)) => 2 * b + 10
  | DX2 => 1 | DEnd => 0
  end.
Definition w_worker (k : kstate) : nat :=
  match k with
  | KIdle => 3 | KBusy _ _ n => 2 * n + 5 | KCrit _ _ n => 2 * n + 4 | KRespond _ _ => 4
  | KClosing => 2 | KClosingCrit => 1 | KEnd => 0
  end.
Definition mu (s : pstate) : nat :=
  sumf (w_caller (length (workers s))) (callers s) + w_disp (disp s) + sumf w_worker (workers s).

Lemma sumf_cons {A} (f : A -> nat) a l : sumf f (a :: l) = f a + sumf f l.
Proof. reflexivity. Qed.

Lemma step_decreases s s' : step s s' -> mu s' < mu s.
Proof.
  intros Hstep. inversion Hstep; subst; unfold mu; proj; rewrite ?length_upd.
  all: repeat match goal with
       | H : nth_error (callers ?s) ?i = Some ?c |- context [sumf ?f (upd ?i ?c' (callers ?s))] =>
           pose proof (sumf_upd f i c' c _ H);
           let x := fresh "x" in set (x := sumf f (upd i c' (callers s))) in *; clearbody x
       end.
  all: worker_sums.
  all: unfold w_caller in *; cbn [c_pc c_script w_worker] in *.
  all: repeat match goal with H : c_pc _ = _ |- _ => rewrite H in * end.
  all: repeat match goal with H : c_script _ = _ |- _ => rewrite H in * end.
  all: repeat match goal with H : disp _ = _ |- _ => rewrite H in * end.
  all: rewrite ?sumf_cons in *; cbn [w_op w_pc w_disp] in *; try lia.
  all: try (destruct o as [[? ?]|]; cbn [w_disp]; lia).
Qed.

Theorem no_infinite_run : well_founded (fun s' s => step s s').
Proof.
  intros s. remember (mu s) as n eqn:E. revert s E.
  induction n as [n IH] using lt_wf_ind. intros s E. constructor. intros s' Hs.
  apply (IH (mu s')); auto. subst. apply step_decreases; auto.
Qed.

(** * progress: while a call is outstanding some thread can move *)
Lemma find_idle ws : (exists w, nth_error ws w = Some KIdle) \/ (forall w k, nth_error ws w = Some k -> k <> KIdle).
Proof.
  induction ws as [|k ws IH].
  - right; intros [|w] k H; discriminate.
  - destruct k; try (left; exists 0; reflexivity).
    all: destruct IH as [[w Hw]|Hn]; [left; exists (S w); exact Hw|].
    all: right; intros [|w] k' H; simpl in H; [inversion H; discriminate|eapply Hn; eauto].
Qed.

(* someone is inside a critical section of worker w: that thread can move *)
Lemma lock_progress s w : Inv s -> holders_of w s <> 0 -> exists s', step s s'.
Proof.
  intros Hinv Hh. unfold holders_of in Hh.
  destruct (nth_error (workers s) w) as [k|] eqn:Hw.
  - destruct k; cbn [wcrit] in Hh.
    all: try (destruct (sumf_pos (ccrit w) (callers s)) as (i & c & Hc & Hp); [unfold sumf; lia|];
              unfold ccrit in Hp; destruct (c_pc c) eqn:E; try lia;
              destruct (Nat.eqb_spec k w); [subst|lia];
              eexists; eapply SRotateClose; eauto; eapply (I_crc _ Hinv); eauto).
    + destruct (I_kc _ Hinv _ _ _ _ Hw) as (_ & _ & Hpos). destruct left; [lia|].
      eexists; eapply SWorkRecord; eauto.
    + eexists; eapply SWorkEnd; eauto.
  - destruct (sumf_pos (ccrit w) (callers s)) as (i & c & Hc & Hp); [unfold sumf; lia|].
    unfold ccrit in Hp. destruct (c_pc c) eqn:E; try lia.
    destruct (Nat.eqb_spec k w); [subst|lia].
    eexists; eapply SRotateClose; eauto. eapply (I_crc _ Hinv); eauto.
Qed.

Lemma busy_progress s w k : Inv s -> nth_error (workers s) w = Some k ->
  match k with KBusy _ _ _ | KCrit _ _ _ | KRespond _ _ | KClosing | KClosingCrit => True | _ => False end ->
  exists s', step s s'.
Proof.
  intros Hinv Hw Hk. destruct k as [|j b n|j b n|j b| | |]; try contradiction.
  - destruct n; [eexists; eapply SWorkDone; eauto|].
    destruct (Nat.eq_dec (holders_of w s) 0) as [Hf|Hf]; [eexists; eapply SWorkLock; eauto|].
    eapply lock_progress; eauto.
  - destruct (I_kc _ Hinv _ _ _ _ Hw) as (_ & _ & Hpos). destruct n; [lia|].
    eexists; eapply SWorkRecord; eauto.
  - destruct (I_kr _ Hinv _ _ _ Hw) as (c & Hc & Hp). eexists; eapply SWriteResult; eauto.
  - destruct (Nat.eq_dec (holders_of w s) 0) as [Hf|Hf]; [eexists; eapply SWorkCloseLock; eauto|].
    eapply lock_progress; eauto.
  - eexists; eapply SWorkEnd; eauto.
Qed.

Lemma need_idle s : Inv s -> jobs_closed s = false ->
  (forall w, nth_error (workers s) w = Some KIdle -> exists s', step s s') -> exists s', step s s'.
Proof.
  intros Hinv Hj Hidle. destruct (find_idle (workers s)) as [[w Hw]|Hn]; [eauto|].
  pose proof (I_nw _ Hinv) as Hlen.
  destruct (nth_error (workers s) 0) as [k|] eqn:E; [|apply nth_error_None in E; lia].
  pose proof (Hn _ _ E) as Hk.
  destruct k; try congruence; try (eapply busy_progress; eauto; exact I).
  all: pose proof (I_wend _ Hinv _ _ E eq_refl); congruence.
Qed.

Lemma not_ended ws : all_ended ws = false ->
  exists w k, nth_error ws w = Some k /\ k <> KEnd.
Proof.
  induction ws as [|k ws IH]; simpl; [discriminate|].
  destruct k; try (intros _; exists 0; eexists; split; [reflexivity|discriminate]).
  intros H; destruct (IH H) as (w & k & Hw & Hk). exists (S w), k; auto.
Qed.

Lemma not_done cs : forallb caller_done cs = false ->
  exists i c, nth_error cs i = Some c /\ caller_done c = false.
Proof.
  induction cs as [|c cs IH]; simpl; [discriminate|].
  destruct (caller_done c) eqn:E; simpl.
  - intros H; destruct (IH H) as (i & c' & Hi & Hc). exists (S i), c'; auto.
  - intros _; exists 0, c; auto.
Qed.

Lemma sum_pos_worker s i : 0 < sumf (wcount i) (workers s) ->
  exists w k, nth_error (workers s) w = Some k /\ wcount i k = 1.
Proof.
  intros H. destruct (sumf_pos _ _ H) as (w & k & Hw & Hk). exists w, k; split; auto.
  destruct k; cbn in *; try lia; destruct (_ =? _); lia.
Qed.

Theorem progress s : Inv s -> all_done s = false -> exists s', step s s'.
Proof.
  intros Hinv Hnd. destruct (not_done _ Hnd) as (i & c & Hc & Hcd).
  pose proof (I_closed _ Hinv) as Hcl. pose proof (I_jobs _ Hinv) as Hjc.
  unfold caller_done in Hcd. destruct (c_pc c) eqn:Hp.
  - (* between calls: the script is not empty *)
    destruct (c_script c) as [|[b| |] rest] eqn:Hs; [discriminate| | |].
    + destruct (closed s) eqn:E; eexists; [eapply SWriteClosed|eapply SWriteStart]; eauto.
    + eexists; eapply SRotateStart; eauto.
    + destruct (disp s) eqn:Hd; cbn in Hcl.
      * eexists; eapply SCloseSignalIdle; eauto.
      * eexists; eapply SCloseSignalHold; eauto.
      * eexists; eapply SExitClose; eauto.
      * eexists; eapply SCloseAlready; eauto.
      * eexists; eapply SCloseAlready; eauto.
      * eexists; eapply SCloseAlready; eauto.
  - (* Write at the second select *)
    destruct (disp s) eqn:Hd; cbn in Hcl, Hjc.
    + eexists; eapply SWrite2Send; eauto.
    + apply need_idle; auto. intros w Hw. eexists; eapply SDispatch; eauto.
    + eexists; eapply SExitClose; eauto.
    + eexists; eapply SWrite2Closed; eauto.
    + eexists; eapply SWrite2Closed; eauto.
    + eexists; eapply SWrite2Closed; eauto.
  - (* Write waiting for its result: the job is somewhere *)
    pose proof (I_hc _ Hinv i) as Hh. unfold hc, cval in Hh. rewrite Hc in Hh.
    unfold is_cw3 in Hh. rewrite Hp in Hh.
    destruct (dcount i (disp s)) eqn:Hdc.
    + destruct (sum_pos_worker s i) as (w & k & Hw & Hk); [lia|].
      eapply busy_progress; eauto. destruct k; cbn in Hk; try discriminate; exact I.
    + unfold dcount in Hdc. destruct (disp s) eqn:Hd; cbn in Hdc, Hcl, Hjc; try discriminate.
      * apply need_idle; auto. intros w Hw. eexists; eapply SDispatch; eauto.
      * eexists; eapply SExitClose; eauto.
      * destruct o as [[j b']|]; [|discriminate].
        apply need_idle; auto. intros w Hw. eexists; eapply SExitForward; eauto.
  - (* Close waiting for closed *)
    pose proof (I_cc1 _ Hinv _ _ Hc Hp) as Hex.
    destruct (disp s) eqn:Hd; cbn in Hex, Hcl; try discriminate.
    + eexists; eapply SExitClose; eauto.
    + eexists; eapply SCloseSeen; eauto.
    + eexists; eapply SCloseSeen; eauto.
    + eexists; eapply SCloseSeen; eauto.
  - (* Close waiting for the workers *)
    pose proof (I_cc2 _ Hinv _ _ Hc Hp) as Hclosed. rewrite Hclosed in Hcl.
    destruct (disp s) eqn:Hd; cbn in Hcl, Hjc; try discriminate.
    + destruct o as [[j b']|].
      * apply need_idle; auto. intros w Hw. eexists; eapply SExitForward; eauto.
      * eexists; eapply SExitNoJob; eauto.
    + eexists; eapply SExitJobs; eauto.
    + destruct (all_ended (workers s)) eqn:Hae.
      * eexists; eapply SCloseDone; eauto.
      * destruct (not_ended _ Hae) as (w & k & Hw & Hk).
        destruct k; try congruence; try (eapply busy_progress; eauto; exact I).
        eexists; eapply SWorkStop; eauto.
  - (* Rotate: at worker k's mutex *)
    destruct (Nat.lt_ge_cases k (length (workers s))); [|eexists; eapply SRotateEnd; eauto].
    destruct (Nat.eq_dec (holders_of k s) 0) as [Hf|Hf]; [eexists; eapply SRotateLock; eauto|].
    eapply lock_progress; eauto.
  - (* Rotate: inside worker k's critical section *)
    eexists; eapply SRotateClose; eauto. eapply (I_crc _ Hinv); eauto.
Qed.

(** * consequences *)
Inductive inevitably (P : pstate -> Prop) : pstate -> Prop :=
| inev_now s : P s -> inevitably P s
| inev_later s : (exists s', step s s') -> (forall s', step s s' -> inevitably P s') -> inevitably P s.

Lemma inv_inevitably_done s : Inv s -> inevitably (fun s => all_done s = true) s.
Proof.
  induction s as [s IH] using (well_founded_induction no_infinite_run). intros Hinv.
  destruct (all_done s) eqn:E; [apply inev_now; auto|].
  apply inev_later; [apply progress; auto|].
  intros s' Hs. apply IH; auto. eapply inv_step; eauto.
Qed.

Lemma result_is_request s i c b w b' : Inv s -> nth_error (callers s) i = Some c -> c_pc c = CW3 b ->
  nth_error (workers s) w = Some (KRespond i b') -> b' = b.
Proof.
  intros Hinv Hc Hp Hw. destruct (I_kr _ Hinv _ _ _ Hw) as (c' & Hc' & Hp'). congruence.
Qed.

(* a caller that is not inside Write has no job anywhere *)
Lemma idle_no_job s j c : Inv s -> nth_error (callers s) j = Some c ->
  (forall b, c_pc c <> CW3 b) ->
  sumf (resp j) (workers s) = 0 /\ sumf (inflight j) (workers s) = 0.
Proof.
  intros Hinv Hc Hp.
  assert (Hz : forall k, In k (workers s) -> wcount j k = 0).
  { intros k Hin. apply In_nth_error in Hin. destruct Hin as [w Hw].
    pose proof (I_hc _ Hinv j) as Hh. unfold hc, cval in Hh. rewrite Hc in Hh. unfold is_cw3 in Hh.
    destruct (c_pc c) eqn:E; try (pose proof (sumf_nth (wcount j) _ _ _ Hw); lia).
    exfalso; eapply Hp; eauto. }
  split; apply sumf_zero; intros k Hin; specialize (Hz _ Hin); destruct k; cbn in *; auto;
    destruct (_ =? _); auto; discriminate.
Qed.

(** * the mutex: at most one thread inside a worker's critical section *)
Lemma holders_sumf w s : holders_of w s =
  match nth_error (workers s) w with Some k => wcrit k | None => 0 end + sumf (ccrit w) (callers s).
Proof. reflexivity. Qed.

Lemma mutex_step s s' : (forall w, holders_of w s <= 1) -> step s s' -> forall w, holders_of w s' <= 1.
Proof.
  intros Hm Hstep w0. specialize (Hm w0). rewrite holders_sumf in *.
  inversion Hstep; subst; proj.
  all: try match goal with H : lock_free _ _ |- _ => unfold lock_free in H; rewrite holders_sumf in H end.
  all: repeat match goal with
       | H : nth_error (callers ?s) ?i = Some ?c |- context [sumf ?f (upd ?i ?c' (callers ?s))] =>
           pose proof (sumf_upd f i c' c _ H);
           let x := fresh "x" in set (x := sumf f (upd i c' (callers s))) in *; clearbody x
       end.
  all: try match goal with
       | H : nth_error (workers ?s) ?w = Some ?k |- context [nth_error (upd ?w ?k' (workers ?s)) ?w1] =>
           rewrite (nth_upd _ w1 _ _ _ H); destruct (Nat.eqb_spec w1 w); [subst w1; try rewrite H in *|]
       end.
  all: unfold ccrit in *; cbn [c_pc wcrit] in *.
  all: repeat match goal with H : c_pc _ = _ |- _ => rewrite H in * end.
  all: try lia.
  all: eqbs; try lia.
Qed.

Lemma mutex_reach scripts n s : reach (init scripts n) s -> forall w, holders_of w s <= 1.
Proof.
  intros Hr; induction Hr as [|s s' Hr IH Hs]; [|eapply mutex_step; eauto].
  intros w. rewrite holders_sumf. unfold init; cbn [workers callers].
  assert (sumf (ccrit w) (map (fun sc => mkc CIdle sc []) scripts) = 0) as ->.
  { apply sumf_zero. intros c Hin. apply in_map_iff in Hin. destruct Hin as (sc & <- & _). reflexivity. }
  destruct (nth_error (repeat KIdle n) w) eqn:E; [apply nth_repeat in E; subst; cbn; lia|lia].
Qed.

(** * after Close *)
Lemma closed_stable s s' : step s s' -> closed s = true -> closed s' = true.
Proof. intros Hstep Hc; inversion Hstep; subst; proj; auto. Qed.

Lemma all_ended_nth ws w k : all_ended ws = true -> nth_error ws w = Some k -> k = KEnd.
Proof.
  unfold all_ended. intros Ha Hn. rewrite forallb_forall in Ha.
  specialize (Ha k (nth_error_In _ _ Hn)). destruct k; try discriminate; auto.
Qed.

Lemma all_ended_stable s s' : step s s' -> all_ended (workers s) = true -> all_ended (workers s') = true.
Proof.
  intros Hstep Ha. inversion Hstep; subst; proj; auto.
  all: match goal with H : nth_error (workers _) _ = Some _ |- _ =>
         pose proof (all_ended_nth _ _ _ Ha H); discriminate end.
Qed.

Lemma all_ended_files s : Inv s -> all_ended (workers s) = true ->
  forall w, w < length (workers s) -> nth_error (files s) w = Some false.
Proof.
  intros Hinv Ha w Hw. destruct (I_files _ Hinv) as [_ Hf]. apply Hf.
  destruct (nth_error (workers s) w) as [k|] eqn:E; [|apply nth_error_None in E; lia].
  rewrite (all_ended_nth _ _ _ Ha E); auto.
Qed.

(* the step in which a Close returns *)
Lemma close_returns_when_ended s s' i c c' : step s s' ->
  nth_error (callers s) i = Some c -> c_pc c = CC2 ->
  nth_error (callers s') i = Some c' -> c_pc c' <> CC2 -> all_ended (workers s) = true.
Proof.
  intros Hstep Hc Hp Hc' Hp'. inversion Hstep; subst; proj; try congruence.
  all: try (match goal with H : nth_error (callers _) ?i0 = Some _ |- _ =>
         rewrite (nth_upd _ i _ _ _ H) in Hc'; destruct (Nat.eqb_spec i i0);
         [subst; rewrite H in Hc; inversion Hc; subst; congruence | congruence] end).
Qed.

(* a Write that starts when the writer is closed returns no responses, in its own first step *)
Lemma write_when_closed s s' i c b rest c' : step s s' -> closed s = true ->
  nth_error (callers s) i = Some c -> c_pc c = CIdle -> c_script c = CWrite b :: rest ->
  nth_error (callers s') i = Some c' -> c' <> c ->
  c' = mkc CIdle rest (c_results c ++ [None]).
Proof.
  intros Hstep Hcl Hc Hp Hs Hc' Hne. inversion Hstep; subst; proj; try congruence.
  all: try (match goal with H : nth_error (callers _) ?i0 = Some _ |- _ =>
         rewrite (nth_upd _ i _ _ _ H) in Hc'; destruct (Nat.eqb_spec i i0);
         [subst; rewrite H in Hc; inversion Hc; subst; try congruence | congruence] end).
Qed.

(** * order: the records of each Write are written once each, in order *)
Definition cres (cs : list caller) (j : nat) : list (option nat) :=
  match nth_error cs j with Some c => c_results c | None => [] end.
Definition exp_idx (r : option nat) : list nat := match r with Some b => seq 0 b | None => [] end.
Definition widx (j : nat) (l : list (nat * nat)) : list nat :=
  map snd (filter (fun p => fst p =? j) l).
Definition order_ok (s : pstate) : Prop :=
  forall j, widx j (written s) = flat_map exp_idx (cres (callers s) j) ++ seq 0 (sumf (inflight j) (workers s)).

Lemma widx_app j l1 l2 : widx j (l1 ++ l2) = widx j l1 ++ widx j l2.
Proof. unfold widx. rewrite filter_app, map_app; auto. Qed.

Lemma inflight_le_wcount j k : wcount j k = 0 -> inflight j k = 0.
Proof. destruct k; cbn; auto; destruct (_ =? _); auto; discriminate. Qed.

Lemma sole_inflight s w k j : Inv s -> nth_error (workers s) w = Some k -> wcount j k = 1 ->
  sumf (inflight j) (workers s) = inflight j k.
Proof.
  intros Hinv Hw Hk. destruct (holder_unique _ _ _ _ Hinv Hw Hk) as [_ Hu].
  pose proof (sumf_upd (inflight j) w KIdle k _ Hw) as E. cbn [inflight] in E.
  assert (Hz : sumf (inflight j) (upd w KIdle (workers s)) = 0).
  { apply sumf_zero. intros k' Hin. apply In_nth_error in Hin. destruct Hin as [w' Hw'].
    rewrite (nth_upd _ w' _ _ _ Hw) in Hw'. destruct (Nat.eqb_spec w' w).
    - inversion Hw'; subst; reflexivity.
    - apply inflight_le_wcount. eapply Hu; eauto. }
  lia.
Qed.

Lemma cres_upd cs i c c' j : nth_error cs i = Some c ->
  cres (upd i c' cs) j = if j =? i then c_results c' else cres cs j.
Proof. intros H; unfold cres; rewrite (nth_upd _ _ _ _ _ H). destruct (j =? i); auto. Qed.

Lemma order_step s s' : Inv s -> order_ok s -> step s s' -> order_ok s'.
Proof.
  intros Hinv Hord Hstep j0. specialize (Hord j0).
  inversion Hstep; subst; proj.
  all: try rewrite widx_app.
  all: try match goal with H : nth_error (callers _) ?i = Some ?c |- _ =>
         rewrite (cres_upd _ _ _ _ j0 H); destruct (Nat.eqb_spec j0 i);
         [subst j0; unfold cres in Hord; rewrite H in Hord|] end.
  all: cbn [c_results].
  all: try rewrite flat_map_app; cbn [flat_map exp_idx app]; try rewrite app_nil_r.
  (* steps that do not change the sums *)
  all: try (match goal with H : nth_error (workers _) ?w = Some ?k |- context [sumf ?f (upd ?w ?k' _)] =>
              let E := fresh in pose proof (sumf_upd f w k' k _ H) as E; cbn [inflight] in E;
              replace (sumf f (upd w k' (workers s))) with (sumf f (workers s)) by
                (try destruct (_ =? _); lia) end; exact Hord).
  all: try exact Hord.
  - (* a result is delivered to caller i: its in-flight records become its result *)
    match goal with H : nth_error (workers _) ?w = Some (KRespond i ?b') |- _ =>
      assert (E1 : wcount i (KRespond i b') = 1) by (cbn; rewrite Nat.eqb_refl; auto);
      pose proof (sole_inflight _ _ _ _ Hinv H E1) as E2; cbn in E2; rewrite Nat.eqb_refl in E2;
      pose proof (sumf_upd (inflight i) w KIdle _ _ H) as E3; cbn in E3; rewrite Nat.eqb_refl in E3 end.
    rewrite E2 in Hord. rewrite Hord.
    replace (sumf (inflight i) (upd w KIdle (workers s))) with 0 by lia.
    cbn [seq]. rewrite app_nil_r. reflexivity.
  - (* ... to another caller *)
    match goal with H : nth_error (workers _) ?w = Some (KRespond ?i ?b') |- _ =>
      pose proof (sumf_upd (inflight j0) w KIdle _ _ H) as E3; cbn in E3 end.
    destruct (Nat.eqb_spec i j0); [congruence|].
    replace (sumf (inflight j0) (upd w KIdle (workers s))) with (sumf (inflight j0) (workers s)) by lia.
    exact Hord.
  - (* one record is written *)
    match goal with H : nth_error (workers _) ?w = Some (KCrit ?j ?b (S ?n)) |- _ =>
      pose proof (sumf_upd (inflight j0) w (KBusy j b n) _ _ H) as E3; cbn [inflight] in E3;
      destruct (I_kc _ Hinv _ _ _ _ H) as (_ & Hle & _);
      destruct (Nat.eqb_spec j j0) as [->|Hne] end.
    + match goal with H : nth_error (workers _) ?w = Some (KCrit j0 ?b (S ?n)) |- _ =>
        assert (E1 : wcount j0 (KCrit j0 b (S n)) = 1) by (cbn; rewrite Nat.eqb_refl; auto);
        pose proof (sole_inflight _ _ _ _ Hinv H E1) as E2; cbn in E2; rewrite Nat.eqb_refl in E2 end.
      unfold widx at 2. cbn [filter fst]. rewrite Nat.eqb_refl. cbn [map snd].
      rewrite Hord, E2.
      replace (sumf (inflight j0) (upd w (KBusy j0 b n) (workers s))) with (S (b - S n)) by lia.
      rewrite seq_S, app_assoc. reflexivity.
    + unfold widx at 2. cbn [filter fst]. destruct (Nat.eqb_spec j j0); [congruence|]. cbn [map].
      rewrite app_nil_r.
      replace (sumf (inflight j0) (upd w (KBusy j b n) (workers s))) with (sumf (inflight j0) (workers s)) by lia.
      exact Hord.
Qed.

(** * the executable transition function is the step relation *)
Ltac break_match :=
  repeat match goal with
  | H : match ?x with _ => _ end = Some _ |- _ => destruct x eqn:?; try discriminate
  end.

Ltac bool_facts :=
  repeat match goal with
  | H : (_ && _) = true |- _ => apply andb_prop in H; destruct H
  | H : (_ <? _) = true |- _ => apply Nat.ltb_lt in H
  | H : (_ <=? _) = true |- _ => apply Nat.leb_le in H
  | H : (_ =? _) = true |- _ => apply Nat.eqb_eq in H; try subst
  | H : lock_freeb _ _ = true |- _ => apply Nat.eqb_eq in H
  end.

Lemma apply_tr_sound s t s' : apply_tr s t = Some s' -> step s s'.
Proof.
  destruct t; cbn [apply_tr]; intros H; break_match; bool_facts; inversion H; subst; clear H.
  all: try (econstructor; eauto; fail).
Qed.

Lemma apply_tr_complete s s' : step s s' -> exists t, apply_tr s t = Some s'.
Proof.
  intros Hstep. inversion Hstep; subst.
  all: repeat match goal with
       | H : lock_free _ _ |- _ => unfold lock_free in H
       | H : _ < _ |- _ => apply Nat.ltb_lt in H
       | H : _ <= _ |- _ => apply Nat.leb_le in H
       end.
  - exists (TWriteClosed i). cbn [apply_tr]. rewrite H, H0, H1, H2. reflexivity.
  - exists (TWriteStart i). cbn [apply_tr]. rewrite H, H0, H1, H2. reflexivity.
  - exists (TW2Closed i). cbn [apply_tr]. rewrite H, H0, H1. reflexivity.
  - exists (TW2Send i). cbn [apply_tr]. rewrite H, H0, H1. reflexivity.
  - exists (TResult i w). cbn [apply_tr]. rewrite H, H0, H1, Nat.eqb_refl. reflexivity.
  - exists (TRotStart i). cbn [apply_tr]. rewrite H, H0, H1. reflexivity.
  - exists (TRotLock i). cbn [apply_tr]. unfold lock_freeb. rewrite H, H0, H1, H2. reflexivity.
  - exists (TRotClose i). cbn [apply_tr]. rewrite H, H0, H1. reflexivity.
  - exists (TRotEnd i). cbn [apply_tr]. rewrite H, H0, H1. reflexivity.
  - exists (TCloseSigIdle i). cbn [apply_tr]. rewrite H, H0, H1, H2. reflexivity.
  - exists (TCloseSigHold i). cbn [apply_tr]. rewrite H, H0, H1, H2. reflexivity.
  - exists (TCloseAlready i). cbn [apply_tr]. rewrite H, H0, H1, H2. reflexivity.
  - exists (TCloseSeen i). cbn [apply_tr]. rewrite H, H0, H1. reflexivity.
  - exists (TCloseDone i). cbn [apply_tr]. rewrite H, H0, H1. reflexivity.
  - exists (TDispatch w). cbn [apply_tr]. rewrite H, H0. reflexivity.
  - exists TExitClose. cbn [apply_tr]. rewrite H. reflexivity.
  - exists (TExitForward w). cbn [apply_tr]. rewrite H, H0. reflexivity.
  - exists TExitNoJob. cbn [apply_tr]. rewrite H. reflexivity.
  - exists TExitJobs. cbn [apply_tr]. rewrite H. reflexivity.
  - exists (TWorkLock w). cbn [apply_tr]. unfold lock_freeb. rewrite H, H0. reflexivity.
  - exists (TWorkRecord w). cbn [apply_tr]. rewrite H. reflexivity.
  - exists (TWorkDone w). cbn [apply_tr]. rewrite H. reflexivity.
  - exists (TWorkStop w). cbn [apply_tr]. rewrite H, H0. reflexivity.
  - exists (TWorkCloseLock w). cbn [apply_tr]. unfold lock_freeb. rewrite H, H0. reflexivity.
  - exists (TWorkEnd w). cbn [apply_tr]. rewrite H. reflexivity.
Qed.

Lemma run_trs_reach s ts s' : run_trs s ts = Some s' -> reach s s'.
Proof.
  revert s; induction ts as [|t ts IH]; cbn; intros s H.
  - inversion H; constructor.
  - destruct (apply_tr s t) as [s1|] eqn:E; [|discriminate].
    apply apply_tr_sound in E. specialize (IH _ H).
    clear H. induction IH as [|sa sb Hr IHr Hs]; [econstructor; [constructor|exact E]|].
    econstructor; eauto.
Qed.

(* labels: an applicable label is in the finite list for the state's shape *)
Lemma apply_tr_label s t s' : apply_tr s t = Some s' ->
  In t (all_labels (length (callers s)) (length (workers s))).
Proof.
  intros H. unfold all_labels.
  assert (Hc : forall i c, nth_error (callers s) i = Some c -> In i (seq 0 (length (callers s)))).
  { intros i c Hi. apply in_seq. apply nth_some_lt in Hi. lia. }
  assert (Hw : forall w k, nth_error (workers s) w = Some k -> In w (seq 0 (length (workers s)))).
  { intros w k Hi. apply in_seq. apply nth_some_lt in Hi. lia. }
  destruct t; cbn [apply_tr] in H; break_match.
  all: try (apply in_or_app; left; apply in_flat_map; exists i; split; [eapply Hc; eauto|];
            try (cbn; tauto);
            apply in_or_app; right; apply in_map; eapply Hw; eauto).
  all: try (apply in_or_app; right; apply in_or_app; left; cbn; tauto).
  all: apply in_or_app; right; apply in_or_app; right; apply in_flat_map; exists w; (split; [eapply Hw; eauto|cbn; tauto]).
Qed.

Lemma succs_spec s t s' : In (t, s') (succs s) <-> apply_tr s t = Some s'.
Proof.
  unfold succs. rewrite in_flat_map. split.
  - intros (t0 & _ & Hin). destruct (apply_tr s t0) eqn:E; [|contradiction].
    destruct Hin as [Heq|[]]. inversion Heq; subst; auto.
  - intros H. exists t. split; [eapply apply_tr_label; eauto|]. rewrite H. left; auto.
Qed.

Theorem succs_is_step s s' : (exists t, In (t, s') (succs s)) <-> step s s'.
Proof.
  split.
  - intros (t & Hin). apply succs_spec in Hin. eapply apply_tr_sound; eauto.
  - intros H. destruct (apply_tr_complete _ _ H) as (t & Ht). exists t. apply succs_spec; auto.
Qed.

Lemma inv_reach_init scripts n s : 0 < n -> reach (init scripts n) s -> Inv s.
Proof. intros Hn Hr. eapply inv_reach; eauto. apply inv_init; auto. Qed.

Lemma order_reach scripts n s : 0 < n -> reach (init scripts n) s -> order_ok s.
Proof.
  intros Hn Hr. induction Hr as [|s s' Hr IH Hs].
  - intros j. unfold init, widx, cres; cbn [written callers workers filter map].
    rewrite sumf_repeat by reflexivity. rewrite nth_error_map.
    destruct (nth_error scripts j); reflexivity.
  - eapply order_step; eauto. eapply inv_reach_init; eauto.
Qed.

(** the witness run for the batch-contiguity refutation: Rotate between the two records of a batch *)
Definition split_run : list tr :=
  [TWriteStart 0; TW2Send 0; TDispatch 0; TWorkLock 0; TWorkRecord 0;
   TRotStart 1; TRotLock 1; TRotClose 1; TWorkLock 0; TWorkRecord 0].
Lemma split_run_log :
  option_map log (run_trs (init [[CWrite 2]; [CRotate]] 1) split_run) = Some [EvWrite 0 0 0; EvClose 0; EvWrite 0 0 1].
Proof. vm_compute. reflexivity. Qed.

(** * the statements of Properties/C09.v and C10.v *)
Lemma P_C09_records_of_every_write_are_written_exactly_once_in_order :
  forall scripts nworkers s, 0 < nworkers -> reach (init scripts nworkers) s ->
  forall j c, nth_error (callers s) j = Some c -> (forall b, c_pc c <> CW3 b) ->
    (* the indices of the record writes done for caller j, in the order they happened *)
    widx j (written s) = flat_map exp_idx (c_results c).
Proof.
  intros scripts n s Hn Hr j c Hc Hp.
  pose proof (order_reach _ _ _ Hn Hr j) as Ho.
  destruct (idle_no_job s j c (inv_reach_init _ _ _ Hn Hr) Hc Hp) as [_ Hz].
  unfold cres in Ho. rewrite Hc, Hz in Ho. cbn [seq] in Ho. rewrite app_nil_r in Ho. exact Ho.
Qed.

Lemma P_C09_in_flight_writes_are_a_prefix :
  forall scripts nworkers s, 0 < nworkers -> reach (init scripts nworkers) s ->
  forall j, widx j (written s) =
    flat_map exp_idx (cres (callers s) j) ++ seq 0 (sumf (inflight j) (workers s)).
Proof. intros scripts n s Hn Hr. exact (order_reach _ _ _ Hn Hr). Qed.

Lemma P_C09_every_job_is_finished_exactly_once :
  forall scripts nworkers s, 0 < nworkers -> reach (init scripts nworkers) s ->
  forall j c, nth_error (callers s) j = Some c -> (forall b, c_pc c <> CW3 b) ->
    countp j (processed s) = count_some (c_results c).
Proof.
  intros scripts n s Hn Hr j c Hc Hp.
  pose proof (inv_reach_init _ _ _ Hn Hr) as Hinv.
  pose proof (I_proc _ Hinv j) as Hpr. destruct (idle_no_job s j c Hinv Hc Hp) as [Hz _].
  unfold cval in Hpr. rewrite Hc, Hz in Hpr. rewrite Hpr. apply Nat.add_0_r.
Qed.

Lemma P_C09_responses_are_those_of_the_submitted_batch :
  forall scripts nworkers s, 0 < nworkers -> reach (init scripts nworkers) s ->
  forall i c b w b', nth_error (callers s) i = Some c -> c_pc c = CW3 b ->
    nth_error (workers s) w = Some (KRespond i b') -> b' = b.
Proof. intros scripts n s Hn Hr i c b w b'. apply result_is_request. eapply inv_reach_init; eauto. Qed.

Lemma P_C09_a_job_is_held_by_one_thread :
  forall scripts nworkers s, 0 < nworkers -> reach (init scripts nworkers) s ->
  forall j, hc j s <= 1.
Proof.
  intros scripts n s Hn Hr j. rewrite (I_hc _ (inv_reach_init _ _ _ Hn Hr) j). apply cw3_le1.
Qed.

Lemma P_C09_batch_in_one_file_refuted :
  exists scripts nworkers s, 0 < nworkers /\ reach (init scripts nworkers) s /\
    log s = [EvWrite 0 0 0; EvClose 0; EvWrite 0 0 1].
Proof.
  exists [[CWrite 2]; [CRotate]], 1.
  destruct (run_trs (init [[CWrite 2]; [CRotate]] 1) split_run) as [s|] eqn:E.
  - exists s. split; [auto|]. split; [eapply run_trs_reach; eauto|].
    pose proof split_run_log as H. rewrite E in H. inversion H; auto.
  - pose proof split_run_log as H. rewrite E in H. discriminate.
Qed.

Lemma P_C10_no_deadlock :
  forall scripts nworkers s, 0 < nworkers -> reach (init scripts nworkers) s ->
    all_done s = false -> exists s', step s s'.
Proof. intros scripts n s Hn Hr. apply progress. eapply inv_reach_init; eauto. Qed.

Lemma P_C10_every_call_returns_on_every_run :
  forall scripts nworkers s, 0 < nworkers -> reach (init scripts nworkers) s ->
    inevitably (fun s => all_done s = true) s.
Proof. intros scripts n s Hn Hr. apply inv_inevitably_done. eapply inv_reach_init; eauto. Qed.

Lemma P_C10_close_returns_only_when_every_file_is_closed :
  forall scripts nworkers s s' i c c', 0 < nworkers -> reach (init scripts nworkers) s -> step s s' ->
    nth_error (callers s) i = Some c -> c_pc c = CC2 ->
    nth_error (callers s') i = Some c' -> c_pc c' <> CC2 ->
    all_ended (workers s') = true /\
    forall w, w < length (workers s') -> nth_error (files s') w = Some false.
Proof.
  intros scripts n s s' i c c' Hn Hr Hs Hc Hp Hc' Hp'.
  pose proof (close_returns_when_ended _ _ _ _ _ Hs Hc Hp Hc' Hp') as Ha.
  pose proof (all_ended_stable _ _ Hs Ha) as Ha'. split; auto.
  apply all_ended_files; auto. eapply inv_step; eauto. eapply inv_reach_init; eauto.
Qed.

Lemma P_C10_after_close_nothing_reopens :
  forall scripts nworkers s s', 0 < nworkers -> reach (init scripts nworkers) s ->
    all_ended (workers s) = true -> reach s s' ->
    all_ended (workers s') = true /\ closed s' = true /\
    forall w, w < length (workers s') -> nth_error (files s') w = Some false.
Proof.
  intros scripts n s s' Hn Hr Ha Hr'.
  assert (Hinv : Inv s) by (eapply inv_reach_init; eauto).
  assert (Hcl : closed s = true).
  { rewrite (I_closed _ Hinv). pose proof (I_nw _ Hinv) as Hl. pose proof (I_jobs _ Hinv) as Hj.
    destruct (nth_error (workers s) 0) as [k|] eqn:E; [|apply nth_error_None in E; lia].
    pose proof (all_ended_nth _ _ _ Ha E); subst.
    pose proof (I_wend _ Hinv _ _ E eq_refl) as Hjc. rewrite Hjc in Hj.
    destruct (disp s); cbn in *; auto; discriminate. }
  induction Hr' as [|sa sb Hra IH Hstep].
  - repeat split; auto. apply all_ended_files; auto.
  - destruct IH as (Ha1 & Hc1 & _).
    assert (Hinvb : Inv sb).
    { eapply inv_step; [|exact Hstep]. eapply inv_reach; [exact Hinv|exact Hra]. }
    pose proof (all_ended_stable _ _ Hstep Ha1). repeat split; auto.
    + eapply closed_stable; eauto.
    + apply all_ended_files; auto.
Qed.
