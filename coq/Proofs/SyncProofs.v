(** SyncProofs.v — C08, third sentence, for the header parser and the end-of-record marker:
    the run under fail and the run under warn proceed in lock step until the first finding;
    fail returns an error exactly when warn produces a finding or an error. *)
Require Import Model.Bytes Model.FieldDef Model.Fields Model.Policy Model.Spill Model.Stream Model.HeaderParse Model.Digest Model.Record.
From Coq Require Import Lia Bool.
Local Open Scope N_scope.

(** findings only grow *)
Definition le (a b : list finding) : Prop := exists r, b = a ++ r.
Lemma le_refl a : le a a. Proof. exists []. rewrite app_nil_r. reflexivity. Qed.
Lemma le_trans a b c : le a b -> le b c -> le a c.
Proof. intros [r ->] [q ->]. exists (r ++ q). rewrite app_assoc. reflexivity. Qed.
Lemma le_app a l : le a (a ++ l). Proof. exists l. reflexivity. Qed.
Lemma le_grew a b c x : b = a ++ [x] -> le b c -> c <> a.
Proof.
  intros -> [r ->] E. rewrite <- app_assoc in E. rewrite <- (app_nil_r a) in E at 2.
  apply app_inv_head in E. discriminate.
Qed.

Lemma site_le {A} p e fs (k : list finding -> res A) :
  (forall f, le f (findings_of (k f))) -> le fs (findings_of (site p e fs k)).
Proof.
  intros Hk. destruct p; cbn [site findings_of]; [apply Hk| |apply le_refl].
  eapply le_trans; [apply le_app|apply Hk].
Qed.

(** the two runs of one computation: in step (same result, nothing found), or warn has found
    something and fail has stopped with an error *)
Definition insync {A} (rw rf : res A) (fnd : list finding) : Prop :=
  (findings_of rw = fnd /\ rf = rw) \/ (findings_of rw <> fnd /\ exists e, rf = Err e fnd).

Lemma insync_same {A} (r : res A) fnd : findings_of r = fnd -> insync r r fnd.
Proof. intros H. left. split; [exact H|reflexivity]. Qed.

Lemma site_insync {A} e fnd (kw kf : list finding -> res A) :
  (forall f, le f (findings_of (kw f))) -> insync (site Warn e fnd kw) (site Fail e fnd kf) fnd.
Proof.
  intros Hk. right. cbn [site]. split; [|eexists; reflexivity].
  eapply le_grew; [reflexivity|apply Hk].
Qed.

Section Sync.
Variable tbl : list fielddef.
Variable uni_lower : bytes -> bytes.
Variable mime_dec : bytes -> option bytes.
Notation parse_loop := (parse_loop tbl uni_lower mime_dec).
Notation parse_fields := (parse_fields tbl uni_lower mime_dec).
Notation parse_line := (parse_line tbl uni_lower mime_dec).

Lemma cont_loop_le p : forall fuel line nc s fnd, le fnd (findings_of (cont_loop fuel p line nc s fnd)).
Proof.
  induction fuel as [|f IH]; intros line nc s fnd; cbn [HeaderParse.cont_loop].
  - destruct (_ || _); apply le_refl.
  - destruct (_ || _); [|apply le_refl].
    destruct (read_line p s) as [[[l nc'] e] s'].
    destruct e; [apply IH| | |]; (destruct l; [apply le_refl|]); try apply le_refl; apply site_le; intros ?; apply IH.
Qed.

(* readLine under fail and under warn differ only in the look-ahead byte of a line with a bad end *)
Lemma read_line_warn_fail s :
  let '(lw, ncw, ew, sw) := read_line Warn s in
  let '(lf, ncf, ef, sf) := read_line Fail s in
  lw = lf /\ ew = ef /\ sw = sf /\ (ew <> RLSyntax -> ncw = ncf).
Proof.
  unfold read_line. destruct (read_bytes LF s) as [[raw e] s1].
  destruct e as [[|]|]; cbn [policy_gt_ignore andb]; try (repeat split; reflexivity).
  destruct (_ || _); cbn [andb]; repeat split; try reflexivity. intros Hc; contradiction Hc; reflexivity.
Qed.

Lemma cont_loop_sync : forall fuel line nc s fnd,
  insync (cont_loop fuel Warn line nc s fnd) (cont_loop fuel Fail line nc s fnd) fnd.
Proof.
  induction fuel as [|f IH]; intros line nc s fnd; cbn [HeaderParse.cont_loop].
  - destruct (_ || _); apply insync_same; reflexivity.
  - destruct (_ || _); [|apply insync_same; reflexivity].
    pose proof (read_line_warn_fail s) as Hr.
    destruct (read_line Warn s) as [[[lw ncw] ew] sw]. destruct (read_line Fail s) as [[[lf ncf] ef] sf].
    destruct Hr as (<- & <- & <- & Hnc).
    destruct ew.
    + rewrite <- (Hnc ltac:(discriminate)). apply IH.
    + destruct lw; [apply insync_same; reflexivity|]. apply site_insync. intros ?; apply cont_loop_le.
    + destruct lw; apply insync_same; reflexivity.
    + destruct lw; [apply insync_same; reflexivity|]. apply site_insync. intros ?; apply cont_loop_le.
Qed.


(** Parse, with its two nested continuations named (definitionally the same function) *)
Definition finish_body (p : policy) (f : nat) (eoh : bool) (nc2 : byte) (s2 : stream) (fsx : fields) (fnd3 : list finding)
  : res (fields * stream) :=
  if eoh then Ok (fsx, s2) fnd3
  else if nc2 =? CR then
    let '(l, e2, s3) := read_bytes LF s2 in
    match e2 with
    | None => if (length l =? 2)%nat then Ok (fsx, s3) fnd3 else Err (KMarker, []) fnd3
    | Some _ => Err (KMarker, []) fnd3
    end
  else if nc2 =? LF then
    let '(l, e2, s3) := read_bytes LF s2 in
    match e2 with
    | None => if (2 <? length l)%nat then Err (KMarker, []) fnd3 else Ok (fsx, s3) fnd3
    | Some _ => Err (KMarker, []) fnd3
    end
  else parse_loop f p fsx s2 fnd3.

Definition after_body (p : policy) (f : nat) (fs : fields) (line : bytes) (nc : byte) (s1 : stream) (eoh : bool) (fnd1 : list finding)
  : res (fields * stream) :=
  match cont_loop f p line nc s1 fnd1 with
  | Err k fnd2 => Err k fnd2
  | Ok (line2, nc2, s2) fnd2 =>
      match parse_line line2 fs with
      | Some fs' => finish_body p f eoh nc2 s2 fs' fnd2
      | None => site p syn fnd2 (finish_body p f eoh nc2 s2 fs)
      end
  end.

Lemma parse_loop_unfold p f fs s fnd :
  parse_loop (S f) p fs s fnd =
  let '(line, nc, e, s1) := read_line p s in
  match e with
  | RLNone => after_body p f fs line nc s1 false fnd
  | RLEOH => match line with [] => Ok (fs, s1) fnd | _ => site p syn fnd (after_body p f fs line nc s1 true) end
  | RLRead => Err (KRead, []) fnd
  | RLSyntax => site p syn fnd (after_body p f fs line nc s1 false)
  end.
Proof. cbn [HeaderParse.parse_loop]. destruct (read_line p s) as [[[line nc] e] s1]. reflexivity. Qed.

Lemma finish_body_le p f eoh nc2 s2 fsx fnd3 :
  (forall fs s fnd, le fnd (findings_of (parse_loop f p fs s fnd))) ->
  le fnd3 (findings_of (finish_body p f eoh nc2 s2 fsx fnd3)).
Proof.
  intros IH. unfold finish_body. destruct eoh; [apply le_refl|].
  destruct (nc2 =? CR).
  - destruct (read_bytes LF s2) as [[l e2] s3]. destruct e2; [apply le_refl|]. destruct (_ =? _)%nat; apply le_refl.
  - destruct (nc2 =? LF); [|apply IH].
    destruct (read_bytes LF s2) as [[l e2] s3]. destruct e2; [apply le_refl|]. destruct (_ <? _)%nat; apply le_refl.
Qed.

Lemma after_body_le p f fs line nc s1 eoh fnd1 :
  (forall fs s fnd, le fnd (findings_of (parse_loop f p fs s fnd))) ->
  le fnd1 (findings_of (after_body p f fs line nc s1 eoh fnd1)).
Proof.
  intros IH. unfold after_body. pose proof (cont_loop_le p f line nc s1 fnd1) as Hc.
  destruct (cont_loop f p line nc s1 fnd1) as [[[line2 nc2] s2] fnd2|k fnd2]; [|exact Hc].
  cbn [findings_of] in Hc. eapply le_trans; [exact Hc|].
  destruct (parse_line line2 fs); [apply finish_body_le; exact IH|apply site_le; intros ?; apply finish_body_le; exact IH].
Qed.

Lemma parse_loop_le p : forall fuel fs s fnd, le fnd (findings_of (parse_loop fuel p fs s fnd)).
Proof.
  induction fuel as [|f IH]; intros fs s fnd; [apply le_refl|]. rewrite parse_loop_unfold.
  destruct (read_line p s) as [[[line nc] e] s1].
  destruct e.
  - apply after_body_le; exact IH.
  - destruct line; [apply le_refl|apply site_le; intros ?; apply after_body_le; exact IH].
  - apply le_refl.
  - apply site_le; intros ?; apply after_body_le; exact IH.
Qed.

Lemma le_grew2 a b c : le a b -> b <> a -> le b c -> c <> a.
Proof.
  intros [r ->] Hne [q ->] E. rewrite <- app_assoc in E. rewrite <- (app_nil_r a) in E at 2.
  apply app_inv_head in E. apply app_eq_nil in E as [-> _]. apply Hne. apply app_nil_r.
Qed.

Lemma finish_body_sync f eoh nc2 s2 fsx fnd3 :
  (forall fs s fnd, insync (parse_loop f Warn fs s fnd) (parse_loop f Fail fs s fnd) fnd) ->
  insync (finish_body Warn f eoh nc2 s2 fsx fnd3) (finish_body Fail f eoh nc2 s2 fsx fnd3) fnd3.
Proof.
  intros IH. unfold finish_body. destruct eoh; [apply insync_same; reflexivity|].
  destruct (nc2 =? CR).
  - destruct (read_bytes LF s2) as [[l e2] s3]. destruct e2; [apply insync_same; reflexivity|]. destruct (_ =? _)%nat; apply insync_same; reflexivity.
  - destruct (nc2 =? LF); [|apply IH].
    destruct (read_bytes LF s2) as [[l e2] s3]. destruct e2; [apply insync_same; reflexivity|]. destruct (_ <? _)%nat; apply insync_same; reflexivity.
Qed.

Lemma after_body_sync f fs line nc s1 eoh fnd1 :
  (forall fs s fnd, insync (parse_loop f Warn fs s fnd) (parse_loop f Fail fs s fnd) fnd) ->
  insync (after_body Warn f fs line nc s1 eoh fnd1) (after_body Fail f fs line nc s1 eoh fnd1) fnd1.
Proof.
  intros IH. unfold after_body.
  pose proof (cont_loop_le Warn f line nc s1 fnd1) as Hle.
  destruct (cont_loop_sync f line nc s1 fnd1) as [[Hf ->]|[Hne [e ->]]].
  - (* in step *)
    destruct (cont_loop f Warn line nc s1 fnd1) as [[[line2 nc2] s2] fnd2|k fnd2]; cbn [findings_of] in Hf; subst;
      [|apply insync_same; reflexivity].
    destruct (parse_line line2 fs); [apply finish_body_sync; exact IH|].
    apply site_insync. intros ?. apply finish_body_le. intros; apply parse_loop_le.
  - (* warn has found something in a folded line, fail has stopped *)
    right. split; [|eexists; reflexivity].
    destruct (cont_loop f Warn line nc s1 fnd1) as [[[line2 nc2] s2] fnd2|k fnd2]; cbn [findings_of] in *; [|exact Hne].
    eapply le_grew2; [exact Hle|exact Hne|].
    destruct (parse_line line2 fs); [apply finish_body_le; intros; apply parse_loop_le|].
    apply site_le; intros ?; apply finish_body_le; intros; apply parse_loop_le.
Qed.

Theorem parse_loop_sync : forall fuel fs s fnd,
  insync (parse_loop fuel Warn fs s fnd) (parse_loop fuel Fail fs s fnd) fnd.
Proof.
  induction fuel as [|f IH]; intros fs s fnd; [apply insync_same; reflexivity|]. rewrite !parse_loop_unfold.
  pose proof (read_line_warn_fail s) as Hr.
  destruct (read_line Warn s) as [[[lw ncw] ew] sw]. destruct (read_line Fail s) as [[[lf ncf] ef] sf].
  destruct Hr as (<- & <- & <- & Hnc).
  destruct ew.
  - rewrite <- (Hnc ltac:(discriminate)). apply after_body_sync; exact IH.
  - destruct lw; [apply insync_same; reflexivity|]. apply site_insync. intros ?. apply after_body_le. intros; apply parse_loop_le.
  - apply insync_same; reflexivity.
  - apply site_insync. intros ?. apply after_body_le. intros; apply parse_loop_le.
Qed.

(** C08, third sentence, for the header parser: fail errs exactly when warn finds or errs *)
Theorem parse_fields_fail_iff_warn s :
  is_ok (parse_fields Fail s []) = false <->
  (findings_of (parse_fields Warn s []) <> [] \/ is_ok (parse_fields Warn s []) = false).
Proof.
  unfold HeaderParse.parse_fields.
  destruct (parse_loop_sync (S (S (length (sdata s)))) [] s []) as [[Hf ->]|[Hne [e ->]]].
  - split; [intros H; right; exact H|intros [H|H]; [contradiction|exact H]].
  - split; [intros _; left; exact Hne|reflexivity].
Qed.

End Sync.
