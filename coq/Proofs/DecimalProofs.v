(** strconv round trip: ParseInt (FormatInt z) = z on the int64 range (used by C18: GetInt after AddInt). *)
Require Import Model.Bytes.
From Coq Require Import Lia ZifyBool ZifyN ZifyNat.
Local Open Scope N_scope.
Ltac Zify.zify_post_hook ::= Z.div_mod_to_equations.

Lemma parse_digits_app x : forall y a,
  parse_digits (x ++ y) a =
  match parse_digits x a with Some a' => parse_digits y a' | None => None end.
Proof.
  induction x as [|c t IH]; intros y a; cbn [app parse_digits]; [reflexivity|].
  destruct (is_digit c); [apply IH|reflexivity].
Qed.

Lemma digits_acc fuel : forall n acc,
  digits_of_pos_fuel fuel n acc = digits_of_pos_fuel fuel n [] ++ acc.
Proof.
  induction fuel as [|f IH]; intros n acc; cbn [digits_of_pos_fuel]; [reflexivity|].
  destruct (n / 10 =? 0).
  - reflexivity.
  - rewrite (IH (n / 10) (_ :: acc)), (IH (n / 10) [_]). rewrite <- app_assoc. reflexivity.
Qed.

Lemma digit_byte d : d < 10 -> is_digit (48 + d) = true /\ 48 + d - 48 = d.
Proof. unfold is_digit. lia. Qed.

Lemma parse_digits_of_digits fuel : forall n, n < 2 ^ N.of_nat fuel ->
  parse_digits (digits_of_pos_fuel fuel n []) 0 = Some n.
Proof.
  induction fuel as [|f IH]; intros n Hn.
  - cbn in *. assert (n = 0) by lia. subst. reflexivity.
  - cbn [digits_of_pos_fuel].
    assert (Hd : n mod 10 < 10) by (apply N.mod_lt; lia).
    destruct (digit_byte _ Hd) as [D1 D2].
    destruct (n / 10 =? 0) eqn:E.
    + cbn [parse_digits]. rewrite D1, D2. f_equal. lia.
    + rewrite digits_acc, parse_digits_app, IH.
      * cbn [parse_digits]. rewrite D1, D2. f_equal. lia.
      * rewrite Nat2N.inj_succ, N.pow_succ_r' in Hn. lia.
Qed.

Lemma digits_nonempty f n acc : digits_of_pos_fuel (S f) n acc <> [].
Proof.
  cbn [digits_of_pos_fuel]. destruct (n / 10 =? 0); [discriminate|].
  rewrite digits_acc. intros H. apply app_eq_nil in H as [_ H]. discriminate.
Qed.

Lemma digits_all_digits fuel : forall n acc, forallb is_digit acc = true ->
  forallb is_digit (digits_of_pos_fuel fuel n acc) = true.
Proof.
  induction fuel as [|f IH]; intros n acc H; cbn [digits_of_pos_fuel]; [exact H|].
  assert (Hd : n mod 10 < 10) by (apply N.mod_lt; lia).
  destruct (digit_byte _ Hd) as [D1 _].
  destruct (n / 10 =? 0); [cbn [forallb]; rewrite D1; exact H|].
  apply IH. cbn [forallb]. rewrite D1. exact H.
Qed.

Lemma utoa_parse n : parse_udec (utoa n) = Some n.
Proof.
  unfold parse_udec, utoa.
  destruct (digits_of_pos_fuel (S (N.to_nat (N.log2 n))) n []) eqn:E.
  - exfalso. eapply digits_nonempty. exact E.
  - rewrite <- E. apply parse_digits_of_digits.
    rewrite Nat2N.inj_succ, N2Nat.id.
    destruct n as [|p]; [cbn; lia|]. apply N.log2_spec. lia.
Qed.

Lemma utoa_no_sign n : split_sign (utoa n) = (false, utoa n).
Proof.
  unfold split_sign. destruct (utoa n) as [|c t] eqn:E; [reflexivity|].
  assert (H : forallb is_digit (utoa n) = true) by (apply digits_all_digits; reflexivity).
  rewrite E in H. cbn in H. apply andb_true_iff in H as [H _].
  unfold is_digit in H.
  destruct (c =? 43) eqn:E1; [lia|]. destruct (c =? 45) eqn:E2; [lia|]. reflexivity.
Qed.

Theorem atoi_itoa z : in_int64 z = true -> atoi (itoa z) = Some z.
Proof.
  intros H. destruct z as [|p|p]; cbn [itoa].
  - reflexivity.
  - unfold atoi. rewrite utoa_no_sign, utoa_parse. cbn [Z.of_N]. rewrite H. reflexivity.
  - unfold atoi. cbn [split_sign]. change (45 =? 43) with false. change (45 =? 45) with true.
    cbn iota. rewrite utoa_parse. cbn [Z.of_N Z.opp]. rewrite H. reflexivity.
Qed.
