(** BuildProofs.v — C02 end to end: the record [build] returns carries a truthful Content-Length
    and digests computed over exactly the bytes that get serialized. *)
Require Import Model.Bytes Model.FieldDef Gen.FieldTable Model.Fields Model.Policy Model.Validate Model.Spill
               Model.Stream Model.HeaderParse Model.Digest Model.Record.
Require Import Proofs.BytesProofs Proofs.FieldsProofs Proofs.NormalizeProofs Proofs.DecimalProofs
               Proofs.GetSetProofs Proofs.ValidateProofs Proofs.RecordProofs.
From Coq Require Import Lia.
Local Open Scope N_scope.

(** decimal text of a length reads back as the length *)
Lemma atoi_value_itoa z : (0 <= z)%Z -> (z <= int64_max)%Z -> atoi_value (itoa z) = z.
Proof.
  intros H0 H1. destruct z as [|p|p]; cbn [itoa]; [reflexivity| |lia].
  unfold atoi_value. rewrite utoa_no_sign, utoa_parse. cbn [Z.of_N].
  unfold int64_min, int64_max in *.
  destruct (Z.pos p <? -9223372036854775808)%Z eqn:E1; [apply Z.ltb_lt in E1; lia|].
  destruct (9223372036854775807 <? Z.pos p)%Z eqn:E2; [apply Z.ltb_lt in E2; lia|]. reflexivity.
Qed.

(** results of [site]-structured code that are Ok come from the continuation *)
Lemma site_ok_inv {A} p e fs (k : list finding -> res A) a f :
  site p e fs k = Ok a f -> exists fs', k fs' = Ok a f.
Proof. destruct p; cbn; intros H; [eexists; exact H|eexists; exact H|discriminate]. Qed.

Section Build.
Variable uni_lower uni_upper : bytes -> bytes.
Variables time_ok ip_ok uri_ok wid_ok : bytes -> bool.
Variable mime_dec : bytes -> option bytes.
Variable H : alg -> bytes -> bytes.
Variables b32_decode b64_decode : bytes -> option bytes.
Variables http_req_ok http_resp_ok : bytes -> bool.
Notation tbl := field_table.
Notation req := required_fields.
Notation key := (normalize_name tbl uni_lower).
Notation m_get := (m_get tbl uni_lower).
Notation m_set := (m_set tbl uni_lower).
Notation m_has := (m_has tbl uni_lower).
Notation canonical := (canonical tbl uni_lower).
Notation validate_header := (validate_header tbl req uni_lower time_ok ip_ok uri_ok wid_ok).
Notation parse_block := (parse_block tbl uni_lower uni_upper mime_dec http_req_ok http_resp_ok).
Notation validate_digest := (validate_digest tbl uni_lower H b32_decode b64_decode).
Notation check_digest := (check_digest tbl uni_lower H b32_decode b64_decode).
Notation build := (build tbl req uni_lower uni_upper time_ok ip_ok uri_ok wid_ok mime_dec H b32_decode b64_decode http_req_ok http_resp_ok).
Notation cl_value := (cl_value tbl uni_lower).
Notation new_digest := (new_digest uni_lower uni_upper).

(* the three field names are distinct keys *)
Lemma keys_distinct :
  key n_content_length <> key n_block_digest /\ key n_content_length <> key n_payload_digest /\
  key n_block_digest <> key n_payload_digest /\ key n_record_id <> key n_content_length /\
  key n_segment_number <> key n_block_digest /\ key n_segment_number <> key n_payload_digest.
Proof. repeat split; vm_compute; discriminate. Qed.

Lemma has_set_other a b v hs : key a <> key b -> m_has a (m_set b v hs) = m_has a hs.
Proof.
  intros Hk. unfold Fields.m_has. rewrite !m_has_loop_spec, m_set_spec. unfold Fields.key, s_has.
  pose proof (s_values_set_other (key b) (key a) v hs Hk) as Hv. unfold s_values in Hv.
  assert (Hx : forall l, existsb (name_is (key a)) l = match filter (name_is (key a)) l with [] => false | _ => true end).
  { induction l as [|p t IH]; cbn; [reflexivity|]. destruct (name_is (key a) p); cbn; auto. }
  rewrite !Hx. 
  assert (Hm : forall l1 l2 : fields, map snd (filter (name_is (key a)) l1) = map snd (filter (name_is (key a)) l2) ->
                match filter (name_is (key a)) l1 with [] => false | _ => true end = match filter (name_is (key a)) l2 with [] => false | _ => true end).
  { intros l1 l2 Hmap. destruct (filter _ l1), (filter _ l2); cbn in Hmap; try discriminate; reflexivity. }
  apply Hm. exact Hv.
Qed.

Lemma emit_ok_inv {A} p es : forall fs (k : list finding -> res A) a f,
  emit p es fs k = Ok a f -> exists fs', k fs' = Ok a f.
Proof.
  induction es as [|e t IH]; intros fs k a f Hk; cbn [emit] in Hk; [eexists; exact Hk|].
  apply site_ok_inv in Hk as [fs1 Hk]. eapply IH; exact Hk.
Qed.

Lemma validate_header_keeps ps pu vid hs fs rt hs' f : canonical hs ->
  validate_header ps pu vid hs fs = Ok (rt, hs') f -> hs' = hs.
Proof.
  intros HC Hv. rewrite validate_header_unfold in Hv. unfold resolve_rt in Hv.
  assert (Hbody : forall rt0 fs0 rt1 h1 f1,
            (if policy_gt_ignore ps then body tbl req uni_lower time_ok ip_ok uri_ok wid_ok ps vid rt0 hs fs0 else Ok (rt0, hs) fs0)
            = Ok (rt1, h1) f1 -> h1 = hs).
  { intros rt0 fs0 rt1 h1 f1 Hb. destruct (policy_gt_ignore ps) eqn:Eg.
    - rewrite body_emit in Hb by assumption. apply emit_ok_inv in Hb as [fs' Hb]. inversion Hb; reflexivity.
    - inversion Hb; reflexivity. }
  destruct (type_field uni_lower hs).
  - apply site_ok_inv in Hv as [fs1 Hv].
    destruct (string_to_rt _ =? 0); [apply site_ok_inv in Hv as [fs2 Hv]|]; eapply Hbody; exact Hv.
  - destruct (string_to_rt _ =? 0); [apply site_ok_inv in Hv as [fs2 Hv]|]; eapply Hbody; exact Hv.
Qed.

(** canonical header sets stay canonical under Set *)
Lemma canonical_set n v hs : canonical hs -> canonical (m_set n v hs).
Proof.
  intros HC. rewrite m_set_spec. unfold Fields.key.
  destruct (set_one_value_at_first_position (key n) v hs) as (_ & HD & _).
  intros f Hin.
  destruct (name_is (key n) f) eqn:En.
  - apply name_is_eq in En. rewrite En. apply (normalize_idem tbl gen_table_ok).
  - apply HC.
    assert (Hf : In f (s_delete (key n) (s_set (key n) v hs))).
    { unfold s_delete. apply filter_In. split; [exact Hin|]. rewrite En. reflexivity. }
    rewrite HD in Hf. unfold s_delete in Hf. apply filter_In in Hf. tauto.
Qed.

Lemma skipn_plus {A} a : forall b (l : list A), skipn (a + b) l = skipn a (skipn b l).
Proof.
  intros b l. revert a; induction b as [|b IH] in l |- *; intros a.
  - rewrite Nat.add_0_r. reflexivity.
  - destruct l as [|x t]; [rewrite !skipn_nil; reflexivity|].
    rewrite Nat.add_succ_r. cbn [skipn]. apply IH.
Qed.

(** the HTTP header split is a split of the content *)
Lemma take_through_prefix d : forall s l, take_through d s = Some l -> l ++ skipn (length l) s = s.
Proof.
  induction s as [|c t IH]; intros l Hl; cbn [take_through] in Hl; [discriminate|].
  destruct (c =? d).
  - inversion Hl; subst. reflexivity.
  - destruct (take_through d t) as [l'|] eqn:E; [|discriminate]. inversion Hl; subst.
    cbn [length skipn app]. rewrite (IH l' eq_refl). reflexivity.
Qed.

Lemma http_header_fuel_prefix : forall fuel s hb found,
  http_header_fuel fuel s = (hb, found) -> hb ++ skipn (length hb) s = s.
Proof.
  induction fuel as [|f IH]; intros s hb found Hh; cbn [http_header_fuel] in Hh.
  - inversion Hh; subst. reflexivity.
  - destruct (take_through LF s) as [l|] eqn:E.
    + destruct (length l <? 3)%nat.
      * inversion Hh; subst. apply (take_through_prefix LF); exact E.
      * destruct (http_header_fuel f (skipn (length l) s)) as [r fnd] eqn:Er.
        inversion Hh; subst. rewrite app_length, <- app_assoc.
        rewrite <- (take_through_prefix LF _ _ E) at 2.
        f_equal. rewrite Nat.add_comm, skipn_plus. apply (IH _ _ _ Er).
    + inversion Hh; subst. rewrite skipn_all. apply app_nil_r.
Qed.

Notation digest_from_field := (digest_from_field tbl uni_lower uni_upper).

(** what parseBlock returns, when the warc-fields block repair is off *)
Lemma parse_block_shape o rt hs content fnd hs' blk bd pd fnd' bd0 pd0 :
  o_fix_wfblock o = false ->
  digest_from_field o hs n_block_digest = Some bd0 -> digest_from_field o hs n_payload_digest = Some pd0 ->
  parse_block o rt hs content fnd = Ok (hs', blk, bd, pd) fnd' ->
  bd = feed bd0 (raw_bytes blk) /\
  match bk blk with
  | BHttpReq | BHttpResp => pd = Some (feed pd0 (bb blk))
  | BGeneric => (rt =? 4) = true -> pd = Some (feed pd0 (raw_bytes blk))
  | _ => True
  end /\
  ((hs' = hs /\ raw_bytes blk = content) \/
   (hs' = m_set n_content_length (itoa (wrap64 (cl_value hs + 2))) hs /\ length (raw_bytes blk) = (length content + 2)%nat)).
Proof.
  intros Hfix E1 E2. unfold Record.parse_block. rewrite E1, E2, Hfix. unfold site.
  destruct (http_header content) as [hb found] eqn:Eh.
  pose proof (http_header_fuel_prefix _ _ _ _ Eh) as Hpre.
  repeat match goal with
         | |- context [match ?x with _ => _ end] =>
             match type of x with
             | bool => destruct x eqn:?
             | policy => destruct x eqn:?
             | list finding => destruct x eqn:?
             | res _ => destruct x eqn:?
             | prod _ _ => destruct x eqn:?
             end
         end;
    intros HH; inversion HH; subst; unfold raw_bytes; cbn [bk bh bb app];
    (split; [reflexivity|]); (split; [try reflexivity; try (intros; reflexivity); try (intros; discriminate)|]).
  all: try (left; split; [reflexivity|]; try reflexivity; exact Hpre).
  all: try (right; split; [reflexivity|]; pose proof (f_equal (@length byte) Hpre) as Hl; rewrite app_length in Hl; rewrite !app_length; cbn [length CRLF]; lia).
Qed.

Notation format := (format H).

(* the payload digest object ValidateDigest looks at *)
Definition payload_obj (rt : N) (b : rblock) (pd : option digest) : option digest :=
  match bk b with
  | BGeneric => if rt =? 4 then pd else None
  | BHttpReq | BHttpResp => pd
  | _ => None
  end.

(** ValidateDigest on a header with a truthful Content-Length and no declared digests, the
    add-missing-digest option on, the block cached (the builder's case): it writes the two
    digests and leaves the length alone *)
Lemma validate_digest_adds o rt hs b bd pd fnd hs5 fnd5 :
  o_add_digest o = true ->
  m_get n_content_length hs = itoa (Z.of_nat (length (raw_bytes b))) ->
  d_hash bd = [] -> (forall p, payload_obj rt b pd = Some p -> d_hash p = []) ->
  validate_digest o rt hs b bd pd true fnd = Ok hs5 fnd5 ->
  m_get n_content_length hs5 = m_get n_content_length hs /\
  m_get n_block_digest hs5 = format bd /\
  ((rt =? 32) = false -> m_has n_segment_number hs = false ->
   forall p, payload_obj rt b pd = Some p -> m_get n_payload_digest hs5 = format p).
Proof.
  intros Hadd Hcl Hbd Hpd. destruct keys_distinct as (K1 & K2 & K3 & K4 & K5 & K6).
  unfold Record.validate_digest. cbv zeta.
  rewrite Hcl, bytes_eqb_refl. cbn [negb]. rewrite Bool.andb_false_r.
  unfold Record.check_digest at 1. rewrite Hbd, Hadd, Bool.orb_true_r. cbn [andb].
  fold (payload_obj rt b pd).
  destruct ((rt =? 32) || m_has n_segment_number (m_set n_block_digest (format bd) hs)) eqn:Eseg.
  - intros HH; inversion HH; subst. repeat split.
    + rewrite get_set_other by exact K1. exact Hcl.
    + apply get_set_same.
    + intros Hrt Hseg. rewrite Hrt, (has_set_other _ _ _ _ K5), Hseg in Eseg. discriminate.
  - destruct (payload_obj rt b pd) as [p|] eqn:Ep.
    + assert (Hp : d_hash p = []) by (apply Hpd; reflexivity).
      unfold Record.check_digest. rewrite Hp, Hadd, Bool.orb_true_r. cbn [andb].
      intros HH; inversion HH; subst. repeat split.
      * rewrite get_set_other by exact K2. rewrite get_set_other by exact K1. exact Hcl.
      * rewrite get_set_other by exact K3. apply get_set_same.
      * intros _ _ p' Hp'. inversion Hp'; subst. apply get_set_same.
    + intros HH; inversion HH; subst. repeat split.
      * rewrite get_set_other by exact K1. exact Hcl.
      * apply get_set_same.
      * intros _ _ p' Hp'. discriminate.
Qed.

Lemma keys_distinct2 :
  key n_segment_number <> key n_content_length /\ key n_segment_number <> key n_record_id /\
  key n_block_digest <> key n_record_id /\ key n_payload_digest <> key n_record_id /\
  key n_block_digest <> key n_content_length /\ key n_payload_digest <> key n_content_length /\
  key n_content_length <> key n_record_id.
Proof. repeat split; vm_compute; discriminate. Qed.

(** * C02, end to end *)
Theorem build_truthful o vid rt0 hs content new_id r fnd hs_out :
  canonical hs ->
  m_has n_content_length hs = false -> m_has n_block_digest hs = false -> m_has n_payload_digest hs = false ->
  o_add_cl o = true -> o_add_digest o = true -> o_fix_wfblock o = false ->
  (forall d, new_digest (o_alg o) (o_enc o) = Some d -> d_hash d = []) ->
  (Z.of_nat (length content) + 2 <= int64_max)%Z ->
  build o vid rt0 hs content new_id = (Ok r fnd, hs_out) ->
  exists d0, new_digest (o_alg o) (o_enc o) = Some d0 /\
    m_get n_content_length (r_fields r) = itoa (Z.of_nat (length (raw_bytes (r_block r)))) /\
    m_get n_block_digest (r_fields r) = format (feed d0 (raw_bytes (r_block r))) /\
    ((bk (r_block r) = BHttpReq \/ bk (r_block r) = BHttpResp) -> (r_type r =? 32) = false ->
     m_has n_segment_number hs = false ->
     m_get n_payload_digest (r_fields r) = format (feed d0 (bb (r_block r)))).
Proof.
  intros HC Hcl Hbdf Hpdf Haddcl Hadddig Hfix Hfresh Hlen.
  destruct keys_distinct as (K1 & K2 & K3 & K4 & K5 & K6).
  destruct keys_distinct2 as (J1 & J2 & J3 & J4 & J5 & J6 & J7).
  unfold Record.build. cbv zeta. rewrite Haddcl.
  set (hs1 := if o_add_id o && negb (m_has n_record_id hs)
              then match id_value new_id with Some v => m_set n_record_id v hs | None => hs end else hs).
  assert (H1 : canonical hs1 /\ m_has n_content_length hs1 = false /\ m_has n_block_digest hs1 = false /\
               m_has n_payload_digest hs1 = false /\ m_has n_segment_number hs1 = m_has n_segment_number hs).
  { unfold hs1. destruct (o_add_id o && negb (m_has n_record_id hs)); [|tauto].
    destruct (id_value new_id); [|tauto].
    repeat split; [apply canonical_set; exact HC| | | |]; rewrite has_set_other; auto. }
  destruct H1 as (HC1 & Hcl1 & Hbd1 & Hpd1 & Hseg1).
  rewrite Hcl1. cbn [negb andb].
  set (hs2 := m_set n_content_length (itoa (Z.of_nat (length content))) hs1).
  assert (HC2 : canonical hs2) by (apply canonical_set; exact HC1).
  assert (Hcl2 : m_get n_content_length hs2 = itoa (Z.of_nat (length content))) by apply get_set_same.
  assert (Hhas2 : m_has n_content_length hs2 = true) by apply has_set_same.
  assert (Hbd2 : m_has n_block_digest hs2 = false) by (unfold hs2; rewrite has_set_other; auto).
  assert (Hpd2 : m_has n_payload_digest hs2 = false) by (unfold hs2; rewrite has_set_other; auto).
  assert (Hseg2 : m_has n_segment_number hs2 = m_has n_segment_number hs) by (unfold hs2; rewrite has_set_other; auto).
  destruct (validate_header (o_spec o) (o_unknown o) vid hs2 []) as [[rt hs3] fnd0|e fnd0] eqn:Ev; [|intros HH; discriminate].
  apply validate_header_keeps in Ev; [|exact HC2]. subst hs3.
  set (rtb := if rt0 =? 0 then rt else rt0).
  destruct (parse_block o rtb hs2 content fnd0) as [[[[hs4 blk] bd] pd] fnd1|e fnd1] eqn:Ep; [|intros HH; discriminate].
  assert (Hdf : digest_from_field o hs2 n_block_digest = new_digest (o_alg o) (o_enc o) /\
                digest_from_field o hs2 n_payload_digest = new_digest (o_alg o) (o_enc o)).
  { unfold Record.digest_from_field. rewrite Hbd2, Hpd2. split; reflexivity. }
  destruct Hdf as [Hdf1 Hdf2].
  destruct (new_digest (o_alg o) (o_enc o)) as [d0|] eqn:Ed0.
  2: { unfold Record.parse_block in Ep. rewrite Hdf1 in Ep. discriminate. }
  pose proof (Hfresh d0 eq_refl) as Hd0.
  destruct (parse_block_shape _ _ _ _ _ _ _ _ _ _ d0 d0 Hfix Hdf1 Hdf2 Ep) as (Hbd & Hpd & Hshape).
  assert (Hcl4 : m_get n_content_length hs4 = itoa (Z.of_nat (length (raw_bytes blk))) /\
                 m_has n_segment_number hs4 = m_has n_segment_number hs).
  { destruct Hshape as [[-> Hraw]|[-> Hraw]].
    - rewrite Hraw. split; [exact Hcl2|exact Hseg2].
    - split; [|rewrite has_set_other; auto].
      rewrite get_set_same. unfold Record.cl_value. rewrite Hhas2, Hcl2.
      rewrite atoi_value_itoa by lia. rewrite Hraw. f_equal.
      unfold wrap64, int64_max in *. rewrite Z.mod_small by lia. lia. }
  destruct Hcl4 as [Hcl4 Hseg4].
  destruct (validate_digest o rtb hs4 blk bd pd true fnd1) as [hs5 fnd2|e fnd2] eqn:Evd; [|intros HH; discriminate].
  intros HH. inversion HH; subst r fnd hs_out. cbn [r_fields r_block r_type].
  assert (Hpobj : forall p, payload_obj rtb blk pd = Some p -> d_hash p = []).
  { intros p Hp. unfold payload_obj in Hp. destruct (bk blk) eqn:Ek; try discriminate.
    - destruct (rtb =? 4) eqn:E4; [|discriminate]. rewrite (Hpd eq_refl) in Hp. inversion Hp; subst. exact Hd0.
    - rewrite Hpd in Hp. inversion Hp; subst. exact Hd0.
    - rewrite Hpd in Hp. inversion Hp; subst. exact Hd0. }
  assert (Hbdh : d_hash bd = []) by (rewrite Hbd; exact Hd0).
  destruct (validate_digest_adds o rtb hs4 blk bd pd fnd1 hs5 fnd2 Hadddig Hcl4 Hbdh Hpobj Evd) as (R1 & R2 & R3).
  exists d0. split; [reflexivity|]. split; [rewrite R1; exact Hcl4|]. split; [rewrite R2, Hbd; reflexivity|].
  intros Hk Hrt Hseg. apply R3; [exact Hrt|rewrite Hseg4; exact Hseg|].
  unfold payload_obj. destruct Hk as [Hk|Hk]; rewrite Hk in *; exact Hpd.
Qed.

End Build.

(** C03, payload clause: under fail a declared payload digest that disagrees with the payload is
    the error (after the length and the block digest have been found in order) *)
Section PayloadFail.
Variable tbl : list fielddef.
Variable uni_lower : bytes -> bytes.
Variable H : alg -> bytes -> bytes.
Variables b32_decode b64_decode : bytes -> option bytes.
Notation validate_digest := (validate_digest tbl uni_lower H b32_decode b64_decode).
Notation m_has := (m_has tbl uni_lower).
Notation disagrees := (disagrees H b32_decode b64_decode).
Notation length_defect := (length_defect tbl uni_lower).

Theorem validate_digest_fail_payload o rt hs b bd pd cached fnd p :
  o_spec o = Fail -> o_add_digest o = false ->
  length_defect hs b = false -> disagrees bd = false ->
  (rt =? 32) = false -> m_has n_segment_number hs = false ->
  payload_obj rt b pd = Some p -> disagrees p = true ->
  validate_digest o rt hs b bd pd cached fnd = Err (KDigest, n_payload_digest) fnd.
Proof.
  intros HS HA HL HB Hrt Hseg Hp HD. unfold Record.validate_digest. unfold RecordProofs.length_defect in HL.
  rewrite <- andb_assoc, HL, andb_false_r. cbv zeta.
  unfold Record.check_digest at 1. rewrite HA, HS. cbn [andb policy_gt_ignore].
  unfold RecordProofs.disagrees, declared in HB, HD.
  assert (Hk : (if (rt =? 32) || m_has n_segment_number hs then Ok hs fnd
                else match payload_obj rt b pd with
                     | None => Ok hs fnd
                     | Some p0 => check_digest tbl uni_lower H b32_decode b64_decode o n_payload_digest p0 cached hs fnd (fun hs3 _ fnd3 => Ok hs3 fnd3)
                     end) = Err (KDigest, n_payload_digest) fnd).
  { rewrite Hrt, Hseg, Hp. cbn [orb]. unfold Record.check_digest. rewrite HS.
    destruct (d_hash p); [discriminate|]. cbn [andb policy_gt_ignore] in *. rewrite HD. reflexivity. }
  unfold payload_obj in Hk.
  destruct (d_hash bd); [exact Hk|]. cbn [andb] in HB. rewrite HB. cbn [negb]. exact Hk.
Qed.

End PayloadFail.

(** * C07, block clause: a record returned clean and without findings under a spec policy above
    ignore carries a block of exactly the declared length - the block is never silently
    shortened (or lengthened) *)
Require Import Proofs.PolicyProofs.
Section DeclaredLength.
Variable uni_lower uni_upper : bytes -> bytes.
Variables time_ok ip_ok uri_ok wid_ok : bytes -> bool.
Variable mime_dec : bytes -> option bytes.
Variable H : alg -> bytes -> bytes.
Variables b32_decode b64_decode : bytes -> option bytes.
Variables http_req_ok http_resp_ok : bytes -> bool.
Notation tbl := field_table.
Notation req := required_fields.
Notation key := (normalize_name tbl uni_lower).
Notation m_get := (m_get tbl uni_lower).
Notation m_set := (m_set tbl uni_lower).
Notation m_has := (m_has tbl uni_lower).
Notation validate_digest := (validate_digest tbl uni_lower H b32_decode b64_decode).
Notation check_digest := (check_digest tbl uni_lower H b32_decode b64_decode).
Notation length_defect := (length_defect tbl uni_lower).
Notation parse_record := (parse_record tbl req uni_lower uni_upper time_ok ip_ok uri_ok wid_ok mime_dec H b32_decode b64_decode http_req_ok http_resp_ok).

Lemma app_eq_self {A} (a r : list A) : a ++ r = a -> r = [].
Proof. intros E. apply (f_equal (@length A)) in E. rewrite app_length in E. destruct r; [reflexivity|cbn in E; lia]. Qed.

Lemma vd_same_findings_no_length_defect o rt hs b bd pd cached fnd hs' :
  policy_gt_ignore (o_spec o) = true ->
  validate_digest o rt hs b bd pd cached fnd = Ok hs' fnd -> length_defect hs b = false.
Proof.
  intros Hgt Hv. destruct (length_defect hs b) eqn:EL; [|reflexivity]. exfalso.
  destruct (o_spec o) eqn:ES; [discriminate| |].
  - destruct (validate_digest_warn_reports tbl uni_lower H b32_decode b64_decode o rt hs b bd pd cached fnd ES)
      as (h2 & f2 & Hv2 & Hl & _).
    rewrite Hv in Hv2. inversion Hv2; subst. destruct (Hl EL) as [r Hr].
    symmetry in Hr. apply app_eq_self in Hr. discriminate.
  - rewrite (validate_digest_fail_length tbl uni_lower H b32_decode b64_decode o rt hs b bd pd cached fnd ES EL) in Hv.
    discriminate.
Qed.

(* check_digest writes digest fields only *)
Lemma check_digest_keeps o field d cached hs fnd k hs' fnd' (n : bytes) :
  key n <> key field ->
  (forall hs1 d1 f1, m_get n hs1 = m_get n hs -> m_has n hs1 = m_has n hs ->
      k hs1 d1 f1 = Ok hs' fnd' -> m_get n hs' = m_get n hs /\ m_has n hs' = m_has n hs) ->
  check_digest o field d cached hs fnd k = Ok hs' fnd' ->
  m_get n hs' = m_get n hs /\ m_has n hs' = m_has n hs.
Proof.
  intros Hk Hcont. unfold Record.check_digest.
  assert (Hset : forall v, m_get n (m_set field v hs) = m_get n hs /\ m_has n (m_set field v hs) = m_has n hs).
  { intros v. split; [apply get_set_other; exact Hk|apply has_set_other; exact Hk]. }
  destruct (d_hash d).
  - destruct (_ && _); [apply Hcont; apply Hset|apply Hcont; reflexivity].
  - destruct (_ && _); [|apply Hcont; reflexivity].
    destruct (o_spec o); try (intros; discriminate); [apply Hcont; reflexivity|].
    destruct (o_fix_digest o); [apply Hcont; apply Hset|apply Hcont; reflexivity].
Qed.

Lemma vd_keeps_length_field o rt hs b bd pd cached fnd hs' fnd' :
  length_defect hs b = false ->
  validate_digest o rt hs b bd pd cached fnd = Ok hs' fnd' ->
  m_get n_content_length hs' = m_get n_content_length hs /\ m_has n_content_length hs' = m_has n_content_length hs.
Proof.
  intros HL. destruct (keys_distinct uni_lower) as (K1 & K2 & _).
  unfold Record.validate_digest. cbv zeta. unfold RecordProofs.length_defect in HL.
  rewrite <- andb_assoc, HL, andb_false_r.
  apply check_digest_keeps; [exact K1|].
  intros hs1 d1 f1 Hg1 Hh1.
  destruct (_ || _); [intros HH; inversion HH; subst; split; assumption|].
  destruct (match bk b with BGeneric => _ | _ => _ end) as [p|].
  - intros Hc. rewrite <- Hg1, <- Hh1. revert Hc. apply check_digest_keeps; [exact K2|].
    intros hs2 d2 f2 Hg2 Hh2 HH. inversion HH; subst. split; assumption.
  - intros HH; inversion HH; subst; split; assumption.
Qed.

Lemma block_tail o vt vid rt hs1 content s3 fnd4 r s' :
  policy_gt_ignore (o_spec o) = true ->
  match Record.parse_block tbl uni_lower uni_upper mime_dec http_req_ok http_resp_ok o rt hs1 content fnd4 with
  | Ok (hs2, blk, bd, pd) fnd5 =>
      match validate_digest o rt hs2 blk bd pd (match bk blk with BWarcFields | BRevisit => true | _ => false end) fnd5 with
      | Ok hs3 fnd6 =>
          match trailer o s3 fnd6 with
          | Ok s4 fnd7 => URec (mkrec vt vid rt hs3 blk) None fnd7 s4
          | Err e7 fnd7 => URec (mkrec vt vid rt hs3 blk) (Some e7) fnd7 s3
          end
      | Err e6 fnd6 => URec (mkrec vt vid rt hs2 blk) (Some e6) fnd6 s3
      end
  | Err e5 fnd5 => URec (mkrec vt vid rt hs1 (mkblk BGeneric [] content)) (Some e5) fnd5 s3
  end = URec r None [] s' ->
  m_has n_content_length (r_fields r) = true ->
  m_get n_content_length (r_fields r) = itoa (Z.of_nat (length (raw_bytes (r_block r)))).
Proof.
  intros Hgt Hs' Hhas.
  destruct (Record.parse_block _ _ _ _ _ _ _ _ _ _ _) as [[[[hs2 blk] bd] pd] fnd5|e5 fnd5]; [|discriminate].
  destruct (validate_digest o rt hs2 blk bd pd _ fnd5) as [hs3 fnd6|e6 fnd6] eqn:Ev; [|discriminate].
  destruct (trailer o s3 fnd6) as [s4 fnd7|e7 fnd7] eqn:Et; [|discriminate].
  inversion Hs'; subst. cbn [r_fields r_block] in *.
  (* the marker check and the digest check added nothing *)
  assert (H6 : fnd6 = []).
  { unfold trailer in Et. destruct (peek 4 s3) as [buf ee]. destruct (bytes_eqb buf CRLFCRLF); [inversion Et; reflexivity|].
    destruct (o_spec o); cbn [site] in Et; try discriminate; inversion Et as [[E1 E2]]; try reflexivity.
    all: destruct fnd6; discriminate. }
  subst fnd6.
  assert (H5 : fnd5 = []).
  { destruct (o_spec o) eqn:ES; [discriminate| |].
    - revert Ev. unfold Record.validate_digest, Record.check_digest. rewrite ES. cbn [policy_gt_ignore andb orb].
      repeat match goal with
             | |- context [match ?x with _ => _ end] =>
                 match type of x with
                 | bytes => destruct x eqn:?
                 | bool => destruct x eqn:?
                 | bkind => destruct x eqn:?
                 | option digest => destruct x eqn:?
                 end
             end; intros HH; inversion HH as [[E1 E2]];
        repeat match goal with E : _ ++ _ = [] |- _ => apply app_eq_nil in E; destruct E end; subst; try reflexivity; try discriminate.
    - pose proof (validate_digest_quiet tbl uni_lower H b32_decode b64_decode o rt hs2 blk bd pd
                    (match bk blk with BWarcFields | BRevisit => true | _ => false end) fnd5) as Hq.
      assert (Hne : o_spec o <> Warn) by congruence. specialize (Hq Hne). rewrite Ev in Hq. cbn in Hq. congruence. }
  subst fnd5.
  pose proof (vd_same_findings_no_length_defect _ _ _ _ _ _ _ _ _ Hgt Ev) as HL.
  destruct (vd_keeps_length_field _ _ _ _ _ _ _ _ _ _ HL Ev) as [Hg Hh].
  rewrite Hg. rewrite Hh in Hhas. unfold RecordProofs.length_defect in HL. rewrite Hhas in HL. cbn [andb] in HL.
  apply negb_false_iff in HL. apply bytes_eqb_eq in HL. symmetry. exact HL.
Qed.

Theorem clean_record_has_declared_length o s r s' :
  policy_gt_ignore (o_spec o) = true ->
  parse_record o s [] = URec r None [] s' ->
  m_has n_content_length (r_fields r) = true ->
  m_get n_content_length (r_fields r) = itoa (Z.of_nat (length (raw_bytes (r_block r)))).
Proof.
  intros Hgt Hp Hhas. rewrite parse_record_stages in Hp.
  destruct (read_bytes LF (discard 5 s)) as [[l e] s1].
  destruct e as [[|]|]; try discriminate.
  assert (Hblock : forall vt vid rt hs1 s2 fnd4,
            stage_block tbl uni_lower uni_upper mime_dec H b32_decode b64_decode http_req_ok http_resp_ok o vt vid rt hs1 s2 fnd4
            = URec r None [] s' ->
            m_get n_content_length (r_fields r) = itoa (Z.of_nat (length (raw_bytes (r_block r))))).
  { intros vt vid rt hs1 s2 fnd4. unfold stage_block. cbv zeta. intros Hs.
    destruct (stail s2).
    - eapply block_tail; [exact Hgt|exact Hs|exact Hhas].
    - destruct ((cl_value tbl uni_lower hs1 <? 0)%Z || (Z.of_nat (length (sdata s2)) <? cl_value tbl uni_lower hs1)%Z)%bool; [discriminate|].
      eapply block_tail; [exact Hgt|exact Hs|exact Hhas]. }
  assert (Hfields : forall vt vid fnd2,
            stage_fields tbl req uni_lower uni_upper time_ok ip_ok uri_ok wid_ok mime_dec H b32_decode b64_decode http_req_ok http_resp_ok o vt vid s1 fnd2
            = URec r None [] s' ->
            m_get n_content_length (r_fields r) = itoa (Z.of_nat (length (raw_bytes (r_block r))))).
  { intros vt vid fnd2. unfold stage_fields.
    destruct (HeaderParse.parse_fields _ _ _ _ _ _) as [[hs s2] fnd3|e2 fnd3]; [|discriminate].
    destruct (Validate.validate_header _ _ _ _ _ _ _ _ _ _ _ _) as [[rt hs1] fnd4|e3 fnd4]; [|discriminate].
    apply Hblock. }
  assert (Hver : forall fnd1,
            stage_ver tbl req uni_lower uni_upper time_ok ip_ok uri_ok wid_ok mime_dec H b32_decode b64_decode http_req_ok http_resp_ok o l s1 fnd1
            = URec r None [] s' ->
            m_get n_content_length (r_fields r) = itoa (Z.of_nat (length (raw_bytes (r_block r))))).
  { intros fnd1. unfold stage_ver. cbv zeta. destruct (_ =? 0); [|apply Hfields].
    destruct (o_spec o); [apply Hfields|apply Hfields|discriminate]. }
  destruct (_ || _)%bool; [|eapply Hver; exact Hp].
  destruct (o_syntax o); [eapply Hver; exact Hp|eapply Hver; exact Hp|discriminate].
Qed.

End DeclaredLength.
