(** bytes.Trim / TrimRight facts *)
Require Import Model.Bytes.
From Coq Require Import Lia.
Local Open Scope N_scope.

Lemma trim_right_snoc_keep cut a c : cut c = false -> trim_right cut (a ++ [c]) = a ++ [c].
Proof.
  intros H. unfold trim_right. rewrite rev_app_distr. cbn. rewrite H. cbn.
  rewrite rev_involutive. reflexivity.
Qed.

Lemma trim_right_snoc_drop cut a c : cut c = true -> trim_right cut (a ++ [c]) = trim_right cut a.
Proof. intros H. unfold trim_right. rewrite rev_app_distr. cbn. rewrite H. reflexivity. Qed.

Lemma trim_right_nil cut : trim_right cut [] = [].
Proof. reflexivity. Qed.

Lemma trim_left_keep cut c t : cut c = false -> trim_left cut (c :: t) = c :: t.
Proof. intros H. cbn. rewrite H. reflexivity. Qed.

(* no leading / trailing blank *)
Definition edge_ok (cut : byte -> bool) (x : bytes) : bool :=
  match x with
  | [] => true
  | c :: _ => negb (cut c) && negb (cut (last x 0))
  end.

Lemma last_snoc {A} (l : list A) x d : last (l ++ [x]) d = x.
Proof. induction l as [|a t IH]; [reflexivity|]. cbn. destruct (t ++ [x]) eqn:E; [destruct t; discriminate|]. exact IH. Qed.

Lemma nonempty_snoc {A} (l : list A) : l <> [] -> exists a x, l = a ++ [x].
Proof.
  intros H. destruct (rev l) as [|x r] eqn:E.
  - apply (f_equal (@rev A)) in E. rewrite rev_involutive in E. contradiction.
  - exists (rev r), x. apply (f_equal (@rev A)) in E. rewrite rev_involutive in E. exact E.
Qed.

Lemma edge_ok_trim cut x : edge_ok cut x = true -> trim cut x = x.
Proof.
  destruct x as [|c t]; [reflexivity|]. cbn [edge_ok]. intros H.
  apply andb_true_iff in H as [H1 H2]. apply negb_true_iff in H1. apply negb_true_iff in H2.
  unfold trim. rewrite trim_left_keep by exact H1.
  destruct (nonempty_snoc (c :: t)) as (a & x & E); [discriminate|].
  rewrite E in *. rewrite last_snoc in H2. apply trim_right_snoc_keep. exact H2.
Qed.

Lemma edge_ok_last cut x c t : x = c :: t -> edge_ok cut x = true -> cut (last x 0) = false.
Proof. intros -> H. cbn [edge_ok] in H. apply andb_true_iff in H as [_ H]. apply negb_true_iff in H. exact H. Qed.

Lemma edge_ok_head cut c t : edge_ok cut (c :: t) = true -> cut c = false.
Proof. cbn [edge_ok]. intros H. apply andb_true_iff in H as [H _]. apply negb_true_iff in H. exact H. Qed.

(* trim_right over a kept suffix *)
Lemma trim_right_app_keep cut a b : b <> [] -> cut (last b 0) = false -> trim_right cut (a ++ b) = a ++ b.
Proof.
  intros Hb Hl. destruct (nonempty_snoc b Hb) as (b' & x & ->). rewrite last_snoc in Hl.
  rewrite app_assoc. apply trim_right_snoc_keep. exact Hl.
Qed.

Lemma trim_right_app_drop cut a b : forallb cut b = true -> trim_right cut (a ++ b) = trim_right cut a.
Proof.
  revert a. induction b as [|c t IH] using rev_ind; intros a H; [rewrite app_nil_r; reflexivity|].
  rewrite forallb_app in H. apply andb_true_iff in H as [H1 H2]. cbn in H2. rewrite andb_true_r in H2.
  rewrite app_assoc, trim_right_snoc_drop by exact H2. apply IH. exact H1.
Qed.
