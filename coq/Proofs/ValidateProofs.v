(** validateHeader implements the field-table acceptance predicate (C17), and its three
    policies tell one story (used by C08). *)
Require Import Model.Bytes Model.FieldDef Model.Fields Model.Policy Model.Validate.
Require Import Proofs.BytesProofs Proofs.FieldsProofs Proofs.NormalizeProofs.
From Coq Require Import Lia.
Local Open Scope N_scope.

(** ** sequences of check sites *)
Fixpoint emit {A} (p : policy) (es : list finding) (fs : list finding) (k : list finding -> res A) : res A :=
  match es with
  | [] => k fs
  | e :: t => site p e fs (fun fs' => emit p t fs' k)
  end.

Lemma emit_app {A} p a : forall b fs (k : list finding -> res A),
  emit p (a ++ b) fs k = emit p a fs (fun fs' => emit p b fs' k).
Proof.
  induction a as [|e t IH]; intros b fs k; cbn; [reflexivity|].
  destruct p; cbn; try reflexivity; apply IH.
Qed.

Lemma emit_ignore {A} es : forall fs (k : list finding -> res A), emit Ignore es fs k = k fs.
Proof. induction es as [|e t IH]; intros fs k; cbn; [reflexivity|apply IH]. Qed.

Lemma emit_warn {A} es : forall fs (k : list finding -> res A), emit Warn es fs k = k (fs ++ es).
Proof.
  induction es as [|e t IH]; intros fs k; cbn; [rewrite app_nil_r; reflexivity|].
  rewrite IH, <- app_assoc. reflexivity.
Qed.

Lemma emit_fail {A} es fs (k : list finding -> res A) :
  emit Fail es fs k = match es with [] => k fs | e :: _ => Err e fs end.
Proof. destruct es; reflexivity. Qed.

Section Proofs.
Variable tbl : list fielddef.
Variable req : list bytes.
Variable uni_lower : bytes -> bytes.
Variables time_ok ip_ok uri_ok wid_ok : bytes -> bool.

Notation normalize_name := (normalize_name tbl uni_lower).
Notation def_of := (def_of tbl uni_lower).
Notation validate_value := (validate_value time_ok ip_ok uri_ok wid_ok).
Notation vloop := (vloop tbl uni_lower time_ok ip_ok uri_ok wid_ok).
Notation validate_header := (validate_header tbl req uni_lower time_ok ip_ok uri_ok wid_ok).
Notation spec_accepts := (spec_accepts tbl req uni_lower time_ok ip_ok uri_ok wid_ok).
Notation spec_field_ok := (spec_field_ok tbl uni_lower time_ok ip_ok uri_ok wid_ok).
Notation wellformed := (wellformed time_ok ip_ok uri_ok wid_ok).

(* a header set as WarcFields stores it: every name already canonical *)
Definition canonical (hs : fields) : Prop := forall f, In f hs -> normalize_name (fst f) = fst f.

Lemma canonical_canon hs : canonical hs -> canon tbl uni_lower hs = hs.
Proof.
  unfold canon. induction hs as [|f t IH]; intros H; cbn; [reflexivity|].
  rewrite (H f) by (left; reflexivity). rewrite IH by (intros g Hg; apply H; right; exact Hg).
  destruct f; reflexivity.
Qed.

Lemma def_of_name n : fst (def_of n) = normalize_name n.
Proof. unfold Validate.def_of, Fields.normalize_name. destruct (normalize_def tbl uni_lower n); reflexivity. Qed.

(** ** the defects of one field occurrence *)
Definition fcheck (p : policy) (vid rt : N) (hs : fields) (f : field) : list finding :=
  let '(name, d) := def_of (fst f) in
  (match validate_value p vid rt d (snd f) with Some k => [(k, name)] | None => [] end) ++
  (if negb (fd_rep d) && (1 <? N.of_nat (length (s_values name hs))) then [(KDup, name)] else []).

Lemma vloop_emit p vid rt hs : canonical hs ->
  forall todo done fs, done ++ todo = hs ->
  vloop p vid rt done todo fs =
  emit p (flat_map (fcheck p vid rt hs) todo) fs (fun fs' => Ok hs fs').
Proof.
  intros HC. induction todo as [|[n v] t IH]; intros done fs Hd.
  - cbn. rewrite app_nil_r in Hd. subst. reflexivity.
  - cbn [Validate.vloop flat_map]. unfold fcheck at 1. cbn [fst snd].
    assert (Hn : normalize_name n = n).
    { apply (HC (n, v)). rewrite <- Hd. apply in_or_app. right. left. reflexivity. }
    pose proof (def_of_name n) as Hdn. destruct (def_of n) as [name d]. cbn [fst] in Hdn.
    rewrite Hn in Hdn. subst name.
    assert (Hcur : done ++ (n, v) :: t = hs) by exact Hd.
    rewrite Hcur.
    assert (Hga : m_getall tbl uni_lower n hs = s_values n hs).
    { unfold m_getall. rewrite Hn. apply m_getall_loop_spec. }
    rewrite Hga. rewrite emit_app.
    assert (Hnext : forall fs2, vloop p vid rt (done ++ [(n, v)]) t fs2 =
                                emit p (flat_map (fcheck p vid rt hs) t) fs2 (fun fs' => Ok hs fs')).
    { intros fs2. apply IH. rewrite <- app_assoc. exact Hd. }
    destruct (validate_value p vid rt d v) as [kd|]; cbn [emit].
    + f_equal. destruct p; cbn [site]; try reflexivity;
        destruct (negb (fd_rep d) && (1 <? N.of_nat (length (s_values n hs)))); cbn [emit site];
        rewrite ?Hnext; reflexivity.
    + destruct (negb (fd_rep d) && (1 <? N.of_nat (length (s_values n hs)))); cbn [emit];
        [destruct p; cbn [site]; rewrite ?Hnext; reflexivity | apply Hnext].
Qed.

(** ** the remaining checks *)
Definition missing_required (hs : fields) : list finding :=
  flat_map (fun f => if negb (m_has tbl uni_lower f hs) then [(KMissingReq, f)] else []) req.

Lemma required_loop_emit {A} p hs : forall rq fs (k : list finding -> res A),
  required_loop tbl uni_lower p hs rq fs k =
  emit p (flat_map (fun f => if negb (m_has tbl uni_lower f hs) then [(KMissingReq, f)] else []) rq) fs k.
Proof.
  induction rq as [|f t IH]; intros fs k; cbn [required_loop flat_map]; [reflexivity|].
  destruct (negb (m_has tbl uni_lower f hs)); cbn [app emit].
  - destruct p; cbn [site]; rewrite ?IH; reflexivity.
  - apply IH.
Qed.

Definition ct_defect (rt : N) (hs : fields) : list finding :=
  if negb (rt =? 128) && (0 <? content_length_of tbl uni_lower hs)%Z && negb (m_has tbl uni_lower n_content_type hs)
  then [(KMissingCT, n_content_type)] else [].
Definition concurrent_defect (rt : N) (hs : fields) : list finding :=
  if negb (N.land 193 rt =? 0) && m_has tbl uni_lower n_concurrent_to hs
  then [(KConcurrent, n_concurrent_to)] else [].

(** every defect validateHeader looks for, in the order it looks *)
Definition header_defects (vid rt : N) (hs : fields) : list finding :=
  flat_map (fcheck Fail vid rt hs) hs ++ missing_required hs ++ ct_defect rt hs ++ concurrent_defect rt hs.

Lemma validate_value_gt p vid rt d v : policy_gt_ignore p = true ->
  validate_value p vid rt d v = validate_value Fail vid rt d v.
Proof. unfold Validate.validate_value, check_legal. intros ->. reflexivity. Qed.

Lemma fcheck_gt p vid rt hs f : policy_gt_ignore p = true -> fcheck p vid rt hs f = fcheck Fail vid rt hs f.
Proof.
  intros H. unfold fcheck. destruct (def_of (fst f)) as [name d].
  rewrite (validate_value_gt p) by exact H. reflexivity.
Qed.

Lemma flat_map_ext_all {A B} (f g : A -> list B) l : (forall x, f x = g x) -> flat_map f l = flat_map g l.
Proof. intros H. induction l as [|x t IH]; cbn; [reflexivity|]. rewrite H, IH. reflexivity. Qed.

(** the body of validateHeader after the record type is known, as one sequence of sites *)
Definition body (p : policy) (vid rt : N) (hs : fields) (fs : list finding) : res (N * fields) :=
  match vloop p vid rt [] hs fs with
  | Err e fs1 => Err e fs1
  | Ok hs' fs1 =>
      required_loop tbl uni_lower p hs' req fs1 (fun fs2 =>
        let k3 fs3 :=
          if negb (N.land 193 rt =? 0) && m_has tbl uni_lower n_concurrent_to hs'
          then site p (KConcurrent, n_concurrent_to) fs3 (fun fs4 => Ok (rt, hs') fs4)
          else Ok (rt, hs') fs3 in
        if negb (rt =? 128) && (0 <? content_length_of tbl uni_lower hs')%Z && negb (m_has tbl uni_lower n_content_type hs')
        then site p (KMissingCT, n_content_type) fs2 k3 else k3 fs2)
  end.

Lemma body_emit p vid rt hs fs : canonical hs -> policy_gt_ignore p = true ->
  body p vid rt hs fs = emit p (header_defects vid rt hs) fs (fun fs' => Ok (rt, hs) fs').
Proof.
  intros HC Hp. unfold body, header_defects.
  rewrite (vloop_emit p vid rt hs HC hs [] fs eq_refl).
  rewrite (flat_map_ext_all _ _ hs (fun f => fcheck_gt p vid rt hs f Hp)).
  rewrite !emit_app.
  destruct p; [discriminate| |].
  - (* Warn *) rewrite !emit_warn. rewrite required_loop_emit. fold (missing_required hs). rewrite emit_warn.
    unfold ct_defect, concurrent_defect.
    destruct (negb (rt =? 128) && (0 <? content_length_of tbl uni_lower hs)%Z && negb (m_has tbl uni_lower n_content_type hs));
      destruct (negb (N.land 193 rt =? 0) && m_has tbl uni_lower n_concurrent_to hs); cbn [site emit app];
      rewrite ?app_nil_r, <- ?app_assoc; cbn [app]; reflexivity.
  - (* Fail *) rewrite emit_fail.
    destruct (flat_map (fcheck Fail vid rt hs) hs) as [|e es]; [|reflexivity].
    rewrite required_loop_emit. fold (missing_required hs). rewrite !emit_fail.
    destruct (missing_required hs) as [|e es]; [|reflexivity].
    unfold ct_defect, concurrent_defect.
    destruct (negb (rt =? 128) && (0 <? content_length_of tbl uni_lower hs)%Z && negb (m_has tbl uni_lower n_content_type hs));
      destruct (negb (N.land 193 rt =? 0) && m_has tbl uni_lower n_concurrent_to hs); reflexivity.
Qed.

(** ** the acceptance predicate of the property is "no defect" *)
Lemma app_nil_iff {A} (a b : list A) : a ++ b = [] <-> a = [] /\ b = [].
Proof. split; [apply app_eq_nil|]. intros [-> ->]. reflexivity. Qed.

Lemma validate_value_none_iff vid rt d v :
  validate_value Fail vid rt d v = None <->
  match fd_kind d with
  | PUnknown => true
  | k => permitted vid rt d && (negb (type_checked vid rt d) || wellformed k v)
  end = true.
Proof.
  unfold Validate.validate_value, check_legal, permitted, type_checked, Validate.wellformed. cbn [policy_gt_ignore andb].
  destruct (fd_kind d); try (split; reflexivity);
    destruct (rt =? 0); cbn [negb andb orb]; try (split; reflexivity);
    destruct (N.land vid (fd_spec d) =? 0); cbn [negb andb orb]; try (split; reflexivity);
    destruct (N.land rt (fd_rec d) =? 0); cbn [negb andb orb]; try (split; [discriminate|discriminate]);
    try (split; reflexivity);
    match goal with |- context [if ?c then None else _] => destruct c end;
    split; intros; try reflexivity; try discriminate.
Qed.

Lemma fcheck_nil_iff vid rt hs f : canonical hs -> In f hs ->
  fcheck Fail vid rt hs f = [] <-> spec_field_ok vid rt hs f = true.
Proof.
  intros HC Hin. unfold fcheck, Validate.spec_field_ok.
  destruct (def_of (fst f)) as [name d]. rewrite app_nil_iff, andb_true_iff.
  rewrite <- validate_value_none_iff.
  split; intros [H1 H2]; split.
  - destruct (validate_value Fail vid rt d (snd f)); [discriminate|reflexivity].
  - destruct (fd_rep d); cbn [negb andb orb] in *; [reflexivity|].
    destruct (1 <? N.of_nat (length (s_values name hs))) eqn:E; [discriminate|].
    apply N.ltb_ge in E. apply N.leb_le. exact E.
  - rewrite H1. reflexivity.
  - destruct (fd_rep d); cbn [negb andb orb] in *; [reflexivity|].
    apply N.leb_le in H2. destruct (1 <? N.of_nat (length (s_values name hs))) eqn:E; [|reflexivity].
    apply N.ltb_lt in E. lia.
Qed.

Lemma flat_map_nil_iff {A B} (f : A -> list B) l : flat_map f l = [] <-> forall x, In x l -> f x = [].
Proof.
  induction l as [|x t IH]; cbn; [split; [intros _ y []|reflexivity]|].
  rewrite app_nil_iff, IH. split.
  - intros [H1 H2] y [<-|Hy]; [exact H1|apply H2; exact Hy].
  - intros H. split; [apply H; left; reflexivity|intros y Hy; apply H; right; exact Hy].
Qed.

Lemma m_has_s_has f hs : m_has tbl uni_lower f hs = s_has (normalize_name f) hs.
Proof. unfold m_has. apply m_has_loop_spec. Qed.

Definition rest_accepts (vid rt : N) (hs : fields) : bool :=
  forallb (spec_field_ok vid rt hs) hs
  && forallb (fun f => s_has (normalize_name f) hs) req
  && ((rt =? 128) || negb (0 <? content_length_of tbl uni_lower hs)%Z || s_has (normalize_name n_content_type) hs)
  && ((N.land 193 rt =? 0) || negb (s_has (normalize_name n_concurrent_to) hs)).

Lemma defects_nil_iff vid rt hs : canonical hs ->
  header_defects vid rt hs = [] <-> rest_accepts vid rt hs = true.
Proof.
  intros HC. unfold header_defects, rest_accepts.
  rewrite !app_nil_iff, !andb_true_iff, forallb_forall, forallb_forall.
  assert (H1 : flat_map (fcheck Fail vid rt hs) hs = [] <-> (forall x, In x hs -> spec_field_ok vid rt hs x = true)).
  { rewrite flat_map_nil_iff. split; intros H x Hx; apply (fcheck_nil_iff vid rt hs x HC Hx); apply H; exact Hx. }
  assert (H2 : missing_required hs = [] <-> (forall x, In x req -> s_has (normalize_name x) hs = true)).
  { unfold missing_required. rewrite flat_map_nil_iff. split; intros H x Hx; specialize (H x Hx).
    - rewrite m_has_s_has in H. destruct (s_has (normalize_name x) hs); [reflexivity|discriminate].
    - rewrite m_has_s_has, H. reflexivity. }
  assert (H3 : ct_defect rt hs = [] <->
               (rt =? 128) || negb (0 <? content_length_of tbl uni_lower hs)%Z || s_has (normalize_name n_content_type) hs = true).
  { unfold ct_defect. rewrite m_has_s_has.
    destruct (rt =? 128); destruct (0 <? content_length_of tbl uni_lower hs)%Z;
      destruct (s_has (normalize_name n_content_type) hs); cbn; split; intros; congruence. }
  assert (H4 : concurrent_defect rt hs = [] <->
               (N.land 193 rt =? 0) || negb (s_has (normalize_name n_concurrent_to) hs) = true).
  { unfold concurrent_defect. rewrite m_has_s_has.
    destruct (N.land 193 rt =? 0); destruct (s_has (normalize_name n_concurrent_to) hs); cbn; split; intros; congruence. }
  rewrite H1, H2, H3, H4. tauto.
Qed.

(** ** validateHeader under each policy *)
Definition rt_of (hs : fields) : N := string_to_rt (lower uni_lower (type_field uni_lower hs)).

Lemma validate_header_unfold p_spec p_unk vid hs fs :
  validate_header p_spec p_unk vid hs fs =
  resolve_rt uni_lower p_spec p_unk hs fs (fun rt fs0 =>
    if policy_gt_ignore p_spec then body p_spec vid rt hs fs0 else Ok (rt, hs) fs0).
Proof. reflexivity. Qed.

(* strict spec policy: accepted exactly when the header set satisfies the table *)
Theorem strict_accepts_iff_spec p_unk vid hs : canonical hs ->
  is_ok (validate_header Fail p_unk vid hs []) = true <->
  spec_accepts vid hs = true /\ type_accepts uni_lower p_unk hs = true.
Proof.
  intros HC. rewrite validate_header_unfold. unfold resolve_rt, Validate.spec_accepts, type_accepts.
  rewrite (canonical_canon hs HC). fold (rt_of hs). cbn [policy_gt_ignore].
  destruct (type_field uni_lower hs) as [|c tf] eqn:ET.
  - cbn. split; [discriminate|]. intros [H _]. discriminate.
  - cbn [length N.of_nat negb N.eqb andb]. 
    replace (N.of_nat (S (length tf)) =? 0) with false by (symmetry; apply N.eqb_neq; lia).
    cbn [negb andb].
    fold (rest_accepts vid (rt_of hs) hs).
    destruct (rt_of hs =? 0) eqn:ER.
    + destruct p_unk; cbn [site is_ok negb].
      * rewrite body_emit, emit_fail by (try exact HC; reflexivity).
        rewrite <- defects_nil_iff by exact HC.
        destruct (header_defects vid (rt_of hs) hs); cbn; split; try tauto; try discriminate.
        intros [H _]; discriminate.
      * rewrite body_emit, emit_fail by (try exact HC; reflexivity).
        rewrite <- defects_nil_iff by exact HC.
        destruct (header_defects vid (rt_of hs) hs); cbn; split; try tauto; try discriminate.
        intros [H _]; discriminate.
      * split; [discriminate|]. intros [_ H]. discriminate.
    + rewrite body_emit, emit_fail by (try exact HC; reflexivity).
      rewrite <- defects_nil_iff by exact HC.
      assert (HT : match p_unk with Fail => negb false | _ => true end = true) by (destruct p_unk; reflexivity).
      rewrite HT.
      destruct (header_defects vid (rt_of hs) hs); cbn; split; try tauto; try discriminate.
      intros [H _]; discriminate.
Qed.

(** warn: the record is returned, and the findings are exactly the defects, in order *)
Definition type_findings (p_unk : policy) (hs : fields) : list finding :=
  (match type_field uni_lower hs with [] => [(KMissingType, [])] | _ => [] end) ++
  (if (rt_of hs =? 0) then match p_unk with Warn => [(KUnknownType, type_field uni_lower hs)] | _ => [] end else []).

Theorem warn_result p_unk vid hs : canonical hs -> p_unk <> Fail ->
  validate_header Warn p_unk vid hs [] =
  Ok (rt_of hs, hs) (type_findings p_unk hs ++ header_defects vid (rt_of hs) hs).
Proof.
  intros HC HU. rewrite validate_header_unfold. unfold resolve_rt, type_findings. fold (rt_of hs).
  cbn [policy_gt_ignore].
  destruct (type_field uni_lower hs) as [|c tf] eqn:ET; cbn [site app];
    destruct (rt_of hs =? 0); destruct p_unk; try congruence; cbn [site app];
    rewrite body_emit, emit_warn by (try exact HC; reflexivity); rewrite <- ?app_assoc; reflexivity.
Qed.

(* ignore: no spec finding at all *)
Theorem ignore_result p_unk vid hs : p_unk <> Fail ->
  validate_header Ignore p_unk vid hs [] =
  Ok (rt_of hs, hs) (if (rt_of hs =? 0) then match p_unk with Warn => [(KUnknownType, type_field uni_lower hs)] | _ => [] end else []).
Proof.
  intros HU. rewrite validate_header_unfold. unfold resolve_rt. fold (rt_of hs). cbn [policy_gt_ignore].
  destruct (type_field uni_lower hs) as [|c tf] eqn:ET; cbn [site];
    destruct (rt_of hs =? 0); destruct p_unk; try congruence; reflexivity.
Qed.

(* under warn exactly the header sets that strict rejects produce findings *)
Theorem warn_findings_iff_strict_rejects vid hs : canonical hs ->
  findings_of (validate_header Warn Warn vid hs []) = [] <->
  is_ok (validate_header Fail Fail vid hs []) = true.
Proof.
  intros HC. rewrite (warn_result Warn vid hs HC) by discriminate. cbn [findings_of].
  rewrite (strict_accepts_iff_spec Fail vid hs HC).
  unfold Validate.spec_accepts, type_accepts, type_findings. rewrite (canonical_canon hs HC). fold (rt_of hs).
  fold (rest_accepts vid (rt_of hs) hs). rewrite !app_nil_iff, (defects_nil_iff vid (rt_of hs) hs HC).
  destruct (type_field uni_lower hs) as [|c tf]; cbn [length N.of_nat].
  - cbn. split; [intros [[H _] _]; discriminate|intros [H _]; discriminate].
  - replace (N.of_nat (S (length tf)) =? 0) with false by (symmetry; apply N.eqb_neq; lia).
    cbn [negb andb]. destruct (rt_of hs =? 0); cbn [negb]; split.
    + intros [[_ H] _]. discriminate.
    + intros [_ H]. discriminate.
    + intros [_ H]. split; [exact H|reflexivity].
    + intros [H _]. split; [split; reflexivity|exact H].
Qed.

(* fail returns the first finding warn would report *)
Theorem fail_reports_first_warn_finding vid hs : canonical hs ->
  match validate_header Fail Fail vid hs [] with
  | Ok a fs => fs = [] /\ findings_of (validate_header Warn Warn vid hs []) = []
  | Err e fs => fs = [] /\ hd_error (findings_of (validate_header Warn Warn vid hs [])) = Some e
  end.
Proof.
  intros HC. rewrite (warn_result Warn vid hs HC) by discriminate. cbn [findings_of].
  rewrite validate_header_unfold. unfold resolve_rt, type_findings. fold (rt_of hs). cbn [policy_gt_ignore].
  destruct (type_field uni_lower hs) as [|c tf]; cbn [site app].
  - split; reflexivity.
  - destruct (rt_of hs =? 0); cbn [site app].
    + split; reflexivity.
    + rewrite body_emit, emit_fail by (try exact HC; reflexivity).
      destruct (header_defects vid (rt_of hs) hs); cbn; split; reflexivity.
Qed.

End Proofs.
