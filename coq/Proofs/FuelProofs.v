(** FuelProofs.v — the fuelled loops whose "out of fuel" branch returns an ordinary-looking value
    never reach that branch: with the fuel the model gives them the result does not depend on the
    fuel (the search for the record start, headerBytes of HTTP blocks). *)
Require Import Model.Bytes Model.FieldDef Model.Fields Model.Policy Model.Spill Model.Stream Model.HeaderParse Model.Digest Model.Record.
Require Import Proofs.TotalProofs.
From Coq Require Import Lia.
Local Open Scope N_scope.

Lemma find_start_plus p : forall fuel s off k,
  (length (sdata s) < fuel)%nat -> find_start (fuel + k) p s off = find_start fuel p s off.
Proof.
  induction fuel as [|f IH]; intros s off k Hl; [lia|].
  cbn [Nat.add find_start].
  destruct (peek 5 s) as [magic e] eqn:Ep.
  destruct e as [t|]; [reflexivity|].
  assert (Hd : (length (sdata (discard 1 s)) < f)%nat).
  { unfold peek in Ep. inversion Ep as [[Em Ee]].
    destruct (length (firstn 5 (sdata s)) <? 5)%nat eqn:E5; [discriminate|].
    apply Nat.ltb_ge in E5. rewrite firstn_length in E5.
    unfold discard. cbn [sdata]. rewrite skipn_length. lia. }
  destruct (bytes_eqb magic s_WARC); [reflexivity|].
  repeat match goal with
         | |- context [match ?x with _ => _ end] =>
             match type of x with
             | bytes => destruct x
             | list N => destruct x
             | list byte => destruct x
             | N => destruct x
             | byte => destruct x
             | positive => destruct x
             | policy => destruct x
             end
         end; try reflexivity; apply IH; exact Hd.
Qed.

Theorem find_start_enough_fuel p s off k :
  find_start (S (length (sdata s)) + k) p s off = find_start (S (length (sdata s))) p s off.
Proof. apply find_start_plus. lia. Qed.

Lemma http_header_fuel_irrelevant : forall fuel s,
  (length s < fuel)%nat -> http_header_fuel (S fuel) s = http_header_fuel fuel s.
Proof.
  induction fuel as [|f IH]; intros s Hl; [lia|].
  cbn [http_header_fuel]. destruct (take_through LF s) as [l|] eqn:E; [|reflexivity].
  destruct (length l <? 3)%nat; [reflexivity|].
  pose proof (take_through_len _ _ _ E) as Hlen.
  rewrite <- IH; [reflexivity|]. rewrite skipn_length. lia.
Qed.

Theorem http_header_enough_fuel s k :
  http_header_fuel (S (length s) + k) s = http_header s.
Proof.
  unfold http_header. induction k as [|k IH]; [rewrite Nat.add_0_r; reflexivity|].
  rewrite Nat.add_succ_r, http_header_fuel_irrelevant by lia. exact IH.
Qed.
