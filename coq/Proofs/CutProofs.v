(** CutProofs.v — C06: a header section that was cut is never taken for a complete one.
    Part 1: for ANY input, when the header parser returns successfully and leaves something
    unread, the input contains an empty line (a line end followed by CR LF or LF).
    Part 2: a proper prefix of the serialisation of well-formed fields has no empty line.
    Hence a cut header is either rejected, reported, or parsed with the stream exhausted - and
    an exhausted stream fails the end-of-record marker check. *)
Require Import Model.Bytes Model.FieldDef Model.Fields Model.Policy Model.Spill Model.Stream Model.HeaderParse.
Require Import Proofs.BytesProofs Proofs.TrimProofs Proofs.HeaderProofs Proofs.ParsedWfProofs.
From Coq Require Import Lia Bool.
Local Open Scope N_scope.

Definition hd0 (d : bytes) : byte := match d with c :: _ => c | [] => 0 end.
Definition after_lf (d rest : bytes) : Prop := exists pre, d = pre ++ [LF] ++ rest.
Definition blank_at (rest : bytes) : Prop := (exists t, rest = LF :: t) \/ (exists t, rest = CR :: LF :: t).
Definition has_blank (d : bytes) : Prop := exists rest, (after_lf d rest \/ rest = d) /\ blank_at rest.

Lemma after_lf_trans d r1 r2 : after_lf d r1 -> after_lf r1 r2 -> after_lf d r2.
Proof. intros [p1 ->] [p2 ->]. exists (p1 ++ [LF] ++ p2). rewrite <- !app_assoc. reflexivity. Qed.

(* where the stream is, relative to where it was *)
Definition moved (d cur : bytes) : Prop := cur = d \/ after_lf d cur \/ cur = [].
Lemma moved_trans d a b : moved d a -> moved a b -> moved d b.
Proof.
  intros [->|[Ha| ->]] [->|[Hb| ->]]; unfold moved; auto.
  - right. left. eapply after_lf_trans; eauto.
  - destruct Hb as [pre Hb]. destruct pre; discriminate.
Qed.

Lemma read_line_moves p s l nc e s1 : read_line p s = (l, nc, e, s1) ->
  ((e = RLEOH \/ e = RLRead) /\ sdata s1 = [] /\ nc = 0) \/
  ((e = RLNone \/ e = RLSyntax) /\ after_lf (sdata s) (sdata s1) /\ (e = RLNone \/ p <> Fail -> nc = hd0 (sdata s1))).
Proof.
  unfold read_line, read_bytes.
  destruct (take_through LF (sdata s)) as [raw|] eqn:E.
  - destruct (take_through_shape _ _ _ E) as (a & -> & Ha & Hs).
    assert (Haft : after_lf (sdata s) (skipn (length (a ++ [LF])) (sdata s))).
    { exists a. rewrite Hs at 1. rewrite <- app_assoc. reflexivity. }
    cbn [sdata stail].
    destruct p; cbn [policy_gt_ignore andb];
      repeat match goal with |- context [if ?c then _ else _] => destruct c end;
      intros HH; inversion HH; subst; right; cbn [sdata];
      (split; [auto|split; [exact Haft|]]); intros [Hc|Hc]; try discriminate; try congruence;
      unfold hd0; destruct (skipn _ (sdata s)); reflexivity.
  - destruct (stail s); intros HH; inversion HH; subst; left; cbn [sdata]; auto.
Qed.

Section Cut.
Variable tbl : list fielddef.
Variable uni_lower : bytes -> bytes.
Variable mime_dec : bytes -> option bytes.
Notation parse_loop := (parse_loop tbl uni_lower mime_dec).
Notation parse_fields := (parse_fields tbl uni_lower mime_dec).
Notation parse_line := (parse_line tbl uni_lower mime_dec).

Lemma cont_loop_moves p : forall fuel line nc s fnd line2 nc2 s2 fnd2,
  nc = hd0 (sdata s) ->
  cont_loop fuel p line nc s fnd = Ok (line2, nc2, s2) fnd2 ->
  moved (sdata s) (sdata s2) /\ nc2 = hd0 (sdata s2).
Proof.
  induction fuel as [|f IH]; intros line nc s fnd line2 nc2 s2 fnd2 Hnc; cbn [HeaderParse.cont_loop].
  - destruct (_ || _); intros HH; inversion HH; subst. split; [left; reflexivity|reflexivity].
  - destruct (_ || _); [|intros HH; inversion HH; subst; split; [left; reflexivity|reflexivity]].
    destruct (read_line p s) as [[[l nc'] e] s'] eqn:Er.
    assert (Hgo : forall fnd', (e = RLNone \/ p <> Fail) ->
              cont_loop f p (line ++ [SP] ++ l) nc' s' fnd' = Ok (line2, nc2, s2) fnd2 ->
              moved (sdata s) (sdata s2) /\ nc2 = hd0 (sdata s2)).
    { intros fnd' Hcase Hc. destruct (read_line_moves _ _ _ _ _ _ Er) as [(He & Hs' & Hn0)|(He & Haft & Hnc')].
      - (* the stream is exhausted: the loop stops *)
        assert (Hnc0 : nc' = hd0 (sdata s')) by (rewrite Hs', Hn0; reflexivity).
        destruct (IH _ _ _ _ _ _ _ _ Hnc0 Hc) as [Hm Hn]. split; [|exact Hn].
        eapply moved_trans; [right; right; exact Hs'|exact Hm].
      - assert (Hnc0 : nc' = hd0 (sdata s')) by (apply Hnc'; exact Hcase).
        destruct (IH _ _ _ _ _ _ _ _ Hnc0 Hc) as [Hm Hn]. split; [|exact Hn].
        eapply moved_trans; [right; left; exact Haft|exact Hm]. }
    destruct e.
    + apply Hgo. left; reflexivity.
    + destruct l; [intros HH; discriminate|]. destruct p; cbn [site]; try (intros HH; discriminate); apply Hgo; right; discriminate.
    + destruct l; intros HH; discriminate.
    + destruct l; [intros HH; discriminate|]. destruct p; cbn [site]; try (intros HH; discriminate); apply Hgo; right; discriminate.
Qed.

(* the empty-line branches of Parse *)
Lemma blank_cr d l s3 tl : hd0 d = CR -> read_bytes LF (mkst d tl) = (l, None, s3) -> length l = 2%nat -> blank_at d.
Proof.
  unfold read_bytes. cbn [sdata stail]. intros Hh. destruct (take_through LF d) as [raw|] eqn:E; [|intros HH; discriminate].
  intros HH; inversion HH; subst. intros Hl.
  destruct (take_through_shape _ _ _ E) as (a & -> & Ha & Hs).
  destruct a as [|c [|? ?]]; cbn in Hl; rewrite ?app_length in Hl; cbn in Hl; try lia. right.
  rewrite Hs in Hh. cbn in Hh. subst c. exists (skipn 2 d). rewrite Hs at 1. reflexivity.
Qed.
Lemma blank_lf d : hd0 d = LF -> blank_at d.
Proof. destruct d as [|c t]; cbn; [discriminate|]. intros ->. left. exists t. reflexivity. Qed.

Lemma has_blank_moved d cur : moved d cur -> cur <> [] -> blank_at cur -> has_blank d.
Proof.
  intros [->|[Ha| ->]] Hne Hb; [exists d; auto|exists cur; auto|contradiction Hne; reflexivity].
Qed.

Lemma parse_loop_blank p d0 : forall fuel fs s fnd fs' s' fnd',
  moved d0 (sdata s) ->
  parse_loop fuel p fs s fnd = Ok (fs', s') fnd' ->
  sdata s' = [] \/ has_blank d0.
Proof.
  induction fuel as [|f IH]; intros fs s fnd fs' s' fnd' Hm; cbn [HeaderParse.parse_loop]; [intros HH; discriminate|].
  destruct (read_line p s) as [[[line nc] e] s1] eqn:Er. cbv zeta.
  assert (Hafter : forall eoh fnd1,
      (eoh = true -> sdata s1 = [] /\ nc = 0) ->
      (eoh = false -> after_lf (sdata s) (sdata s1) /\ nc = hd0 (sdata s1)) ->
      match cont_loop f p line nc s1 fnd1 with
      | Err k fnd2 => Err k fnd2
      | Ok (line2, nc2, s2) fnd2 =>
          match parse_line line2 fs with
          | Some fs'' =>
              if eoh : bool then Ok (fs'', s2) fnd2
              else if nc2 =? CR then
                let '(l, e2, s3) := read_bytes LF s2 in
                match e2 with
                | None => if (length l =? 2)%nat then Ok (fs'', s3) fnd2 else Err (KMarker, []) fnd2
                | Some _ => Err (KMarker, []) fnd2
                end
              else if nc2 =? LF then
                let '(l, e2, s3) := read_bytes LF s2 in
                match e2 with
                | None => if (2 <? length l)%nat then Err (KMarker, []) fnd2 else Ok (fs'', s3) fnd2
                | Some _ => Err (KMarker, []) fnd2
                end
              else parse_loop f p fs'' s2 fnd2
          | None =>
              site p syn fnd2 (fun fnd3 =>
                if eoh then Ok (fs, s2) fnd3
                else if nc2 =? CR then
                  let '(l, e2, s3) := read_bytes LF s2 in
                  match e2 with
                  | None => if (length l =? 2)%nat then Ok (fs, s3) fnd3 else Err (KMarker, []) fnd3
                  | Some _ => Err (KMarker, []) fnd3
                  end
                else if nc2 =? LF then
                  let '(l, e2, s3) := read_bytes LF s2 in
                  match e2 with
                  | None => if (2 <? length l)%nat then Err (KMarker, []) fnd3 else Ok (fs, s3) fnd3
                  | Some _ => Err (KMarker, []) fnd3
                  end
                else parse_loop f p fs s2 fnd3)
          end
      end = Ok (fs', s') fnd' -> sdata s' = [] \/ has_blank d0).
  { intros eoh fnd1 Heoh Hneoh.
    destruct (cont_loop f p line nc s1 fnd1) as [[[line2 nc2] s2] fnd2|k fnd2] eqn:Ec; [|intros HH; discriminate].
    assert (Hnc1 : nc = hd0 (sdata s1)).
    { destruct eoh; [|apply Hneoh; reflexivity]. destruct (Heoh eq_refl) as [-> ->]. reflexivity. }
    destruct (cont_loop_moves _ _ _ _ _ _ _ _ _ _ Hnc1 Ec) as [Hm2 Hnc2].
    assert (Hm02 : eoh = false -> moved d0 (sdata s2)).
    { intros He. destruct (Hneoh He) as [Haft _]. eapply moved_trans; [exact Hm|].
      eapply moved_trans; [right; left; exact Haft|exact Hm2]. }
    assert (Hfin : forall fsx fnd3,
              (if eoh : bool then Ok (fsx, s2) fnd3
               else if nc2 =? CR then
                 let '(l, e2, s3) := read_bytes LF s2 in
                 match e2 with
                 | None => if (length l =? 2)%nat then Ok (fsx, s3) fnd3 else Err (KMarker, []) fnd3
                 | Some _ => Err (KMarker, []) fnd3
                 end
               else if nc2 =? LF then
                 let '(l, e2, s3) := read_bytes LF s2 in
                 match e2 with
                 | None => if (2 <? length l)%nat then Err (KMarker, []) fnd3 else Ok (fsx, s3) fnd3
                 | Some _ => Err (KMarker, []) fnd3
                 end
               else parse_loop f p fsx s2 fnd3) = Ok (fs', s') fnd' -> sdata s' = [] \/ has_blank d0).
    { intros fsx fnd3. destruct eoh.
      - intros HH; inversion HH; subst. left.
        destruct (Heoh eq_refl) as [Hs1e _].
        destruct Hm2 as [->|[[pre Hp]| ->]]; [exact Hs1e| |reflexivity].
        rewrite Hs1e in Hp. destruct pre; discriminate.
      - specialize (Hm02 eq_refl).
        destruct (nc2 =? CR) eqn:Ecr.
        + apply N.eqb_eq in Ecr. destruct s2 as [d2 t2]. cbn [sdata] in *.
          destruct (read_bytes LF (mkst d2 t2)) as [[l e2] s3] eqn:Erb. destruct e2; [intros HH; discriminate|].
          destruct (length l =? 2)%nat eqn:El; [|intros HH; discriminate]. apply Nat.eqb_eq in El.
          intros HH; inversion HH; subst. right.
          assert (Hb : blank_at d2) by (eapply blank_cr; eauto; congruence).
          eapply has_blank_moved; [exact Hm02| |exact Hb]. destruct Hb as [[t ->]|[t ->]]; discriminate.
        + destruct (nc2 =? LF) eqn:Elf; [|apply IH; exact Hm02].
          apply N.eqb_eq in Elf.
          destruct (read_bytes LF s2) as [[l e2] s3]. destruct e2; [intros HH; discriminate|].
          destruct (2 <? length l)%nat; [intros HH; discriminate|].
          intros HH; inversion HH; subst. right.
          assert (Hb : blank_at (sdata s2)) by (apply blank_lf; congruence).
          eapply has_blank_moved; [exact Hm02| |exact Hb]. destruct Hb as [[t ->]|[t ->]]; discriminate. }
    destruct (parse_line line2 fs); [apply Hfin|].
    destruct p; cbn [site]; [apply Hfin|apply Hfin|intros HH; discriminate]. }
  destruct (read_line_moves _ _ _ _ _ _ Er) as [(He & Hs1 & Hn0)|(He & Haft & Hnc)].
  - destruct He as [-> | ->].
    + destruct line; [intros HH; inversion HH; subst; left; exact Hs1|].
      destruct p; cbn [site]; try (intros HH; discriminate); apply (Hafter true); auto; discriminate.
    + intros HH; discriminate.
  - destruct He as [-> | ->].
    + apply (Hafter false); [discriminate|]. intros _. split; [exact Haft|apply Hnc; left; reflexivity].
    + destruct p; cbn [site]; try (intros HH; discriminate); apply (Hafter false); try discriminate;
        intros _; (split; [exact Haft|apply Hnc; right; discriminate]).
Qed.

End Cut.

(** * Part 2: the serialisation of well-formed fields has one empty line, its last *)
Section NoBlank.
Variable tbl : list fielddef.
Variable uni_lower : bytes -> bytes.
Notation wf_field := (wf_field tbl uni_lower).

Lemma split_at_lf a : no_byte LF a -> forall S' pre rest,
  a ++ [LF] ++ S' = pre ++ [LF] ++ rest ->
  (pre = a /\ rest = S') \/ (exists pre', pre = a ++ [LF] ++ pre' /\ S' = pre' ++ [LF] ++ rest).
Proof.
  induction a as [|c t IH]; intros Ha S' pre rest E.
  - destruct pre as [|p pre']; cbn [app] in E.
    + inversion E; subst. left; auto.
    + inversion E; subst. right. exists pre'. auto.
  - unfold no_byte in Ha. cbn [forallb] in Ha. apply andb_true_iff in Ha as [Hc Ht].
    destruct pre as [|p pre']; cbn [app] in E.
    + inversion E; subst. unfold LF in Hc. rewrite N.eqb_refl in Hc. discriminate.
    + inversion E; subst. destruct (IH Ht _ _ _ H1) as [[-> ->]|(p2 & -> & ->)]; [left; auto|right; exists p2; auto].
Qed.

Lemma write_field_shape f : wf_field f -> exists a, write_field f = a ++ [LF] /\ no_byte LF a /\
  (forall more, ~ blank_at (write_field f ++ more)).
Proof.
  intros Hwf. pose proof (write_field_start tbl uni_lower f) as Hstart.
  destruct Hwf as [Hnorm Hcol Hnlf Hvlf Hne Hve Henc]. destruct f as [n v]. cbn [fst snd] in *.
  exists (n ++ [58; 32] ++ v ++ [13]). unfold write_field. cbn [fst snd]. split; [|split].
  - unfold CRLF, LF. rewrite <- !app_assoc. reflexivity.
  - rewrite !no_byte_app. repeat split; try assumption; reflexivity.
  - intros more Hb. specialize (Hstart more (Build_wf_field tbl uni_lower (n, v) Hnorm Hcol Hnlf Hvlf Hne Hve Henc)).
    unfold write_field in *. cbn [fst snd] in *. unfold not_blank_start in Hstart.
    destruct ((n ++ [58; 32] ++ v ++ CRLF) ++ more) as [|c t]; [contradiction|].
    apply not_blank_cases in Hstart as (_ & _ & Hcr & Hlf).
    destruct Hb as [[t' E]|[t' E]]; inversion E; subst; [unfold LF in Hlf; rewrite N.eqb_refl in Hlf|unfold CR in Hcr; rewrite N.eqb_refl in Hcr]; discriminate.
Qed.

Lemma blank_at_start_serialize fs : (forall f, In f fs -> wf_field f) -> blank_at (serialize fs) -> fs = [].
Proof.
  intros Hwf Hb. destruct fs as [|f t]; [reflexivity|]. exfalso.
  destruct (write_field_shape f (Hwf f (or_introl eq_refl))) as (a & _ & _ & Hnb).
  unfold serialize, m_write in Hb. cbn [flat_map] in Hb. rewrite <- app_assoc in Hb. exact (Hnb _ Hb).
Qed.

Lemma only_blank_is_last : forall fs, (forall f, In f fs -> wf_field f) -> forall pre rest,
  serialize fs = pre ++ [LF] ++ rest -> blank_at rest -> rest = CRLF.
Proof.
  induction fs as [|f t IH]; intros Hwf pre rest E Hb.
  - unfold serialize, m_write, CRLF in E. cbn in E.
    destruct pre as [|p [|q pre']]; cbn in E; inversion E; subst; try (destruct pre'; discriminate).
    destruct Hb as [[? Hx]|[? Hx]]; discriminate.
  - destruct (write_field_shape f (Hwf f (or_introl eq_refl))) as (a & Ha & Hno & _).
    assert (Es : serialize (f :: t) = a ++ [LF] ++ serialize t).
    { unfold serialize, m_write. cbn [flat_map]. rewrite Ha, <- !app_assoc. reflexivity. }
    rewrite Es in E. destruct (split_at_lf a Hno _ _ _ E) as [[-> ->]|(p2 & -> & E2)].
    + assert (Ht : t = []) by (apply blank_at_start_serialize; [intros g Hg; apply Hwf; right; exact Hg|exact Hb]).
      subst t. reflexivity.
    + eapply IH; [intros g Hg; apply Hwf; right; exact Hg|exact E2|exact Hb].
Qed.

Theorem cut_header_has_no_blank fs x y : (forall f, In f fs -> wf_field f) ->
  serialize fs = x ++ y -> y <> [] -> ~ has_blank x.
Proof.
  intros Hwf E Hy (rest & [[pre Hx]| ->] & Hb).
  - assert (Hb' : blank_at (rest ++ y)).
    { destruct Hb as [[t ->]|[t ->]]; [left; exists (t ++ y)|right; exists (t ++ y)]; reflexivity. }
    assert (E' : serialize fs = pre ++ [LF] ++ (rest ++ y)) by (rewrite E, Hx, <- !app_assoc; reflexivity).
    pose proof (only_blank_is_last fs Hwf _ _ E' Hb') as Hr. unfold CRLF in Hr.
    destruct Hb as [[t ->]|[t ->]]; cbn in Hr; inversion Hr. destruct t; [|discriminate]. destruct y; [contradiction Hy; reflexivity|discriminate].
  - assert (Hb' : blank_at (x ++ y)).
    { destruct Hb as [[t ->]|[t ->]]; [left; exists (t ++ y)|right; exists (t ++ y)]; reflexivity. }
    rewrite <- E in Hb'. pose proof (blank_at_start_serialize fs Hwf Hb') as ->.
    unfold serialize, m_write, CRLF in E. cbn in E.
    destruct Hb as [[t ->]|[t ->]]; cbn in E; inversion E. destruct t; [|discriminate]. destruct y; [contradiction Hy; reflexivity|discriminate].
Qed.

End NoBlank.
