(** BuiltValidProofs.v — C01, the link between the builder and the reader: a header set the strict
    builder accepted stays accepted, with no finding, under every reader policy, also after the
    builder has added the digest fields. *)
Require Import Model.Bytes Model.FieldDef Gen.FieldTable Model.Fields Model.Policy Model.Validate Model.Spill
               Model.Stream Model.HeaderParse Model.Digest Model.Record.
Require Import Proofs.BytesProofs Proofs.FieldsProofs Proofs.NormalizeProofs Proofs.DecimalProofs
               Proofs.GetSetProofs Proofs.ValidateProofs Proofs.RecordProofs Proofs.BuildProofs
               Proofs.PolicyProofs Proofs.SyncProofs Proofs.MonoProofs Proofs.TrimProofs Proofs.HeaderProofs Proofs.RoundTripProofs.
From Coq Require Import Lia.
Local Open Scope N_scope.

Section BuiltValid.
Variable uni_lower uni_upper : bytes -> bytes.
Variables time_ok ip_ok uri_ok wid_ok : bytes -> bool.
Variable mime_dec : bytes -> option bytes.
Variable H : alg -> bytes -> bytes.
Variables b32_decode b64_decode : bytes -> option bytes.
Variables http_req_ok http_resp_ok : bytes -> bool.
Notation tbl := field_table.
Notation req := required_fields.
Notation parse_block := (parse_block tbl uni_lower uni_upper mime_dec http_req_ok http_resp_ok).
Notation validate_digest := (validate_digest tbl uni_lower H b32_decode b64_decode).
Notation check_digest := (check_digest tbl uni_lower H b32_decode b64_decode).
Notation build := (build tbl req uni_lower uni_upper time_ok ip_ok uri_ok wid_ok mime_dec H b32_decode b64_decode http_req_ok http_resp_ok).
Notation cl_value := (cl_value tbl uni_lower).
Notation new_digest := (new_digest uni_lower uni_upper).
Notation format := (format H).
Notation digest_from_field := (digest_from_field tbl uni_lower uni_upper).
Notation key := (normalize_name tbl uni_lower).
Notation m_get := (m_get tbl uni_lower).
Notation m_set := (m_set tbl uni_lower).
Notation m_has := (m_has tbl uni_lower).
Notation canonical := (canonical tbl uni_lower).
Notation validate_header := (validate_header tbl req uni_lower time_ok ip_ok uri_ok wid_ok).
Notation rest_accepts := (rest_accepts tbl req uni_lower time_ok ip_ok uri_ok wid_ok).
Notation spec_field_ok := (spec_field_ok tbl uni_lower time_ok ip_ok uri_ok wid_ok).
Notation header_defects := (header_defects tbl req uni_lower time_ok ip_ok uri_ok wid_ok).
Notation rt_of := (rt_of uni_lower).
Notation def_of := (def_of tbl uni_lower).

(** a record type is 0 (unknown) or one of the eight bits *)
Lemma string_to_rt_range lc : string_to_rt lc = 0 \/ N.land (string_to_rt lc) 255 <> 0.
Proof.
  unfold string_to_rt, rt_names. cbn [find fst snd].
  repeat match goal with |- context [if ?c then _ else _] => destruct c end;
    cbn [snd]; first [left; reflexivity | right; vm_compute; discriminate].
Qed.

(** ** a header set with no defect is accepted silently under every policy *)
Lemma accepted_any_policy ps pu vid hs : canonical hs ->
  type_field uni_lower hs <> [] -> rt_of hs <> 0 -> header_defects vid (rt_of hs) hs = [] ->
  validate_header ps pu vid hs [] = Ok (rt_of hs, hs) [].
Proof.
  intros HC HT HR HD. rewrite validate_header_unfold. unfold resolve_rt. fold (rt_of hs).
  destruct (type_field uni_lower hs) as [|c tf] eqn:ET; [congruence|].
  apply N.eqb_neq in HR. rewrite HR.
  destruct (policy_gt_ignore ps) eqn:Eg; [|reflexivity].
  rewrite body_emit by assumption. rewrite HD. reflexivity.
Qed.

(** what a strict acceptance says *)
Lemma strict_ok_inv vid hs rt hs' fnd : canonical hs ->
  validate_header Fail Fail vid hs [] = Ok (rt, hs') fnd ->
  rt = rt_of hs /\ hs' = hs /\ fnd = [] /\ type_field uni_lower hs <> [] /\ rt_of hs <> 0 /\
  header_defects vid (rt_of hs) hs = [].
Proof.
  intros HC Hv. rewrite validate_header_unfold in Hv. unfold resolve_rt in Hv. fold (rt_of hs) in Hv.
  destruct (type_field uni_lower hs) as [|c tf] eqn:ET; [discriminate|].
  destruct (rt_of hs =? 0) eqn:ER; [discriminate|].
  cbn [policy_gt_ignore] in Hv. rewrite body_emit in Hv by (try exact HC; reflexivity).
  rewrite emit_fail in Hv.
  destruct (header_defects vid (rt_of hs) hs) as [|e es] eqn:ED; [|discriminate].
  inversion Hv; subst. apply N.eqb_neq in ER. repeat split; try reflexivity; try assumption. discriminate.
Qed.

(** ** adding a digest field keeps a header set free of defects *)
Lemma s_values_app k l1 l2 : s_values k (l1 ++ l2) = s_values k l1 ++ s_values k l2.
Proof. unfold s_values. rewrite filter_app, map_app. reflexivity. Qed.

Lemma s_has_app k l1 l2 : s_has k (l1 ++ l2) = s_has k l1 || s_has k l2.
Proof. unfold s_has. apply existsb_app. Qed.

Lemma s_has_false_notin k l f : s_has k l = false -> In f l -> fst f <> k.
Proof.
  intros Hh Hin Hk. unfold s_has in Hh.
  assert (Ht : existsb (name_is k) l = true).
  { apply existsb_exists. exists f. split; [exact Hin|]. apply name_is_eq. exact Hk. }
  congruence.
Qed.

Lemma s_values_absent k l : s_has k l = false -> s_values k l = [].
Proof.
  unfold s_values, s_has. induction l as [|g t IH]; [reflexivity|]. cbn [existsb filter].
  intros Hs. apply orb_false_iff in Hs as [Hg Ht]. rewrite Hg. apply IH. exact Ht.
Qed.

Lemma type_field_app hs f : type_field uni_lower hs <> [] ->
  type_field uni_lower (hs ++ [f]) = type_field uni_lower hs.
Proof.
  unfold type_field. induction hs as [|g t IH]; cbn [app find]; [intros Hn; congruence|].
  destruct (bytes_eqb (lower uni_lower (fst g)) s_warc_type); [reflexivity|exact IH].
Qed.

Definition is_digest_name (n : bytes) : Prop := n = n_block_digest \/ n = n_payload_digest.

Lemma digest_def n : is_digest_name n ->
  exists d, def_of (key n) = (key n, d) /\ fd_kind d = PDigest /\ fd_rec d = 255 /\ fd_spec d = 3 /\
            key n <> key n_content_length /\ key n <> key n_content_type /\ key n <> key n_concurrent_to.
Proof.
  intros [->| ->]; eexists; (split; [vm_compute; reflexivity|]);
    repeat split; try reflexivity; vm_compute; discriminate.
Qed.

Lemma rest_accepts_add_digest vid rt n v hs :
  (vid = 1 \/ vid = 2) -> (rt = 0 \/ N.land rt 255 <> 0) ->
  canonical hs -> is_digest_name n -> m_has n hs = false ->
  rest_accepts vid rt hs = true -> rest_accepts vid rt (m_set n v hs) = true.
Proof.
  intros Hvid Hrt HC Hn Hno Hacc.
  destruct (digest_def n Hn) as (d & Hdef & Hkind & Hrec & Hspec & K1 & K2 & K3).
  assert (Hs : s_has (key n) hs = false) by (rewrite <- m_has_s_has; exact Hno).
  assert (Hset : m_set n v hs = hs ++ [(key n, v)]).
  { rewrite m_set_spec. unfold Fields.key.
    destruct (set_one_value_at_first_position (key n) v hs) as (_ & _ & H3 & _). apply H3. exact Hs. }
  unfold ValidateProofs.rest_accepts in *.
  apply andb_true_iff in Hacc as [Hacc H4]. apply andb_true_iff in Hacc as [Hacc H3].
  apply andb_true_iff in Hacc as [H1 H2].
  rewrite Hset. apply andb_true_iff; split; [apply andb_true_iff; split; [apply andb_true_iff; split|]|].
  - (* every field still passes *)
    rewrite forallb_forall in H1. apply forallb_forall. intros f Hf. apply in_app_or in Hf as [Hf|Hf].
    + specialize (H1 f Hf). unfold Validate.spec_field_ok in *.
      pose proof (def_of_name tbl uni_lower (fst f)) as Hdn.
      destruct (def_of (fst f)) as [name dd]. cbn [fst] in Hdn.
      rewrite (HC f Hf) in Hdn. subst name.
      rewrite s_values_app.
      assert (Hne : fst f <> key n) by (eapply s_has_false_notin; eassumption).
      assert (Hnil : s_values (fst f) [(key n, v)] = []).
      { unfold s_values. cbn [filter]. unfold name_is at 1. cbn [fst].
        destruct (bytes_eqb (key n) (fst f)) eqn:E; [|reflexivity].
        apply bytes_eqb_eq in E. congruence. }
      rewrite Hnil, app_nil_r. exact H1.
    + destruct Hf as [<-|[]]. unfold Validate.spec_field_ok. cbn [fst snd]. rewrite Hdef, Hkind.
      unfold permitted, type_checked, Validate.wellformed. rewrite Hrec, Hspec.
      rewrite s_values_app.
      assert (Hv0 : s_values (key n) hs = []) by (apply s_values_absent; exact Hs).
      rewrite Hv0. unfold s_values. cbn [app filter]. unfold name_is at 1. cbn [fst]. rewrite bytes_eqb_refl.
      cbn [map length N.of_nat]. rewrite orb_true_r, andb_true_r, orb_true_r, andb_true_r.
      destruct Hrt as [->|Hrt]; [reflexivity|].
      destruct (rt =? 0); [reflexivity|]. cbn [orb].
      assert (Hv : N.land vid 3 =? 0 = false) by (destruct Hvid as [->| ->]; reflexivity).
      rewrite Hv. cbn [orb]. apply N.eqb_neq in Hrt. rewrite Hrt. reflexivity.
  - apply forallb_forall. intros f Hf. rewrite s_has_app.
    assert (Hf2 : s_has (key f) hs = true) by (revert f Hf; apply forallb_forall; exact H2).
    rewrite Hf2. reflexivity.
  - replace (content_length_of tbl uni_lower (hs ++ [(key n, v)])) with (content_length_of tbl uni_lower hs).
    + rewrite s_has_app. destruct (rt =? 128); [reflexivity|].
      destruct (0 <? content_length_of tbl uni_lower hs)%Z; [|reflexivity].
      cbn [negb orb] in *. rewrite H3. reflexivity.
    + rewrite <- Hset. unfold content_length_of.
      rewrite (has_set_other uni_lower n_content_length n v hs) by (intros E; apply K1; symmetry; exact E).
      rewrite (get_set_other tbl uni_lower) by (intros E; apply K1; symmetry; exact E). reflexivity.
  - rewrite s_has_app. destruct (N.land 193 rt =? 0); [reflexivity|]. cbn [orb negb] in *.
    apply negb_true_iff in H4. rewrite H4. cbn [orb s_has existsb]. unfold name_is. cbn [fst].
    destruct (bytes_eqb (key n) (key n_concurrent_to)) eqn:E; [apply bytes_eqb_eq in E; congruence|reflexivity].
Qed.

Lemma canon_set n v hs : canonical hs -> canonical (m_set n v hs).
Proof. apply (canonical_set uni_lower uni_upper time_ok ip_ok uri_ok wid_ok mime_dec b32_decode b64_decode http_req_ok http_resp_ok). Qed.

Lemma rt_of_add_digest n v hs : is_digest_name n -> m_has n hs = false -> type_field uni_lower hs <> [] ->
  type_field uni_lower (m_set n v hs) = type_field uni_lower hs.
Proof.
  intros Hn Hno HT.
  assert (Hs : s_has (key n) hs = false) by (rewrite <- m_has_s_has; exact Hno).
  rewrite m_set_spec. unfold Fields.key.
  destruct (set_one_value_at_first_position (key n) v hs) as (_ & _ & H3 & _). rewrite (H3 Hs).
  apply type_field_app. exact HT.
Qed.

Lemma defects_add_digest vid n v hs :
  (vid = 1 \/ vid = 2) -> canonical hs -> is_digest_name n -> m_has n hs = false ->
  type_field uni_lower hs <> [] ->
  header_defects vid (rt_of hs) hs = [] ->
  canonical (m_set n v hs) /\ type_field uni_lower (m_set n v hs) <> [] /\ rt_of (m_set n v hs) = rt_of hs /\
  header_defects vid (rt_of (m_set n v hs)) (m_set n v hs) = [].
Proof.
  intros Hvid HC Hn Hno HT HD.
  assert (HC' : canonical (m_set n v hs)) by (apply canon_set; exact HC).
  assert (HT' : type_field uni_lower (m_set n v hs) = type_field uni_lower hs) by (apply rt_of_add_digest; assumption).
  assert (HR : rt_of (m_set n v hs) = rt_of hs) by (unfold ValidateProofs.rt_of; rewrite HT'; reflexivity).
  repeat split; [exact HC'|rewrite HT'; exact HT|exact HR|].
  rewrite HR. apply (defects_nil_iff tbl req uni_lower time_ok ip_ok uri_ok wid_ok vid (rt_of hs) _ HC').
  apply rest_accepts_add_digest; try assumption.
  - unfold ValidateProofs.rt_of. apply string_to_rt_range.
  - apply (defects_nil_iff tbl req uni_lower time_ok ip_ok uri_ok wid_ok vid (rt_of hs) _ HC). exact HD.
Qed.

(** what ValidateDigest does to the header of a record the builder is finishing: the length is
    truthful and no digest is declared, so it adds the block digest and, for the block kinds that
    have a payload, the payload digest - and finds nothing *)
Lemma validate_digest_shape o rt hs b bd pd fnd hs5 fnd5 :
  o_add_digest o = true ->
  m_get n_content_length hs = itoa (Z.of_nat (length (raw_bytes b))) ->
  d_hash bd = [] -> (forall p, payload_obj rt b pd = Some p -> d_hash p = []) ->
  validate_digest o rt hs b bd pd true fnd = Ok hs5 fnd5 ->
  fnd5 = fnd /\
  ((hs5 = m_set n_block_digest (format bd) hs /\
    (((rt =? 32) || m_has n_segment_number (m_set n_block_digest (format bd) hs)) = true \/ payload_obj rt b pd = None)) \/
   exists p, ((rt =? 32) || m_has n_segment_number (m_set n_block_digest (format bd) hs)) = false /\ payload_obj rt b pd = Some p /\
     hs5 = m_set n_payload_digest (format p) (m_set n_block_digest (format bd) hs)).
Proof.
  intros Hadd Hcl Hbd Hpd.
  unfold Record.validate_digest. cbv zeta.
  rewrite Hcl, bytes_eqb_refl. cbn [negb]. rewrite Bool.andb_false_r.
  unfold Record.check_digest at 1. rewrite Hbd, Hadd, Bool.orb_true_r. cbn [andb].
  fold (payload_obj rt b pd).
  destruct ((rt =? 32) || m_has n_segment_number (m_set n_block_digest (format bd) hs)) eqn:Eseg.
  - intros HH; inversion HH; subst. split; [reflexivity|left; split; [reflexivity|left; reflexivity]].
  - destruct (payload_obj rt b pd) as [p|] eqn:Ep.
    + assert (Hp : d_hash p = []) by (apply Hpd; reflexivity).
      unfold Record.check_digest. rewrite Hp, Hadd, Bool.orb_true_r. cbn [andb].
      intros HH; inversion HH; subst. split; [reflexivity|right; exists p; repeat split; reflexivity].
    + intros HH; inversion HH; subst. split; [reflexivity|left; split; [reflexivity|right; reflexivity]].
Qed.

Lemma type_field_app_other hs f : bytes_eqb (lower uni_lower (fst f)) s_warc_type = false ->
  type_field uni_lower (hs ++ [f]) = type_field uni_lower hs.
Proof.
  intros Hf. unfold type_field. induction hs as [|g t IH]; cbn [app find].
  - rewrite Hf. reflexivity.
  - destruct (bytes_eqb (lower uni_lower (fst g)) s_warc_type); [reflexivity|exact IH].
Qed.

Lemma type_field_set_absent n v hs : m_has n hs = false ->
  bytes_eqb (lower uni_lower (key n)) s_warc_type = false ->
  type_field uni_lower (m_set n v hs) = type_field uni_lower hs.
Proof.
  intros Hno Hn.
  assert (Hs : s_has (key n) hs = false) by (rewrite <- m_has_s_has; exact Hno).
  rewrite m_set_spec. unfold Fields.key.
  destruct (set_one_value_at_first_position (key n) v hs) as (_ & _ & H3 & _). rewrite (H3 Hs).
  apply type_field_app_other. exact Hn.
Qed.

(** with the syntax policy at fail (and the warc-fields block repair off), parseBlock leaves the
    header and the content alone *)
Lemma parse_block_strict_keeps o rt hs content fnd hs' blk bd pd fnd' :
  o_syntax o = Fail -> o_fix_wfblock o = false ->
  parse_block o rt hs content fnd = Ok (hs', blk, bd, pd) fnd' -> hs' = hs /\ raw_bytes blk = content.
Proof.
  intros Hsyn Hfix. unfold Record.parse_block. rewrite Hsyn, Hfix. unfold site.
  destruct (http_header content) as [hb found] eqn:Eh.
  pose proof (http_header_fuel_prefix _ _ _ _ Eh) as Hpre.
  repeat match goal with
         | |- context [match ?x with _ => _ end] =>
             match type of x with
             | bool => destruct x eqn:?
             | policy => destruct x eqn:?
             | list finding => destruct x eqn:?
             | res _ => destruct x eqn:?
             | prod _ _ => destruct x eqn:?
             | option _ => destruct x eqn:?
             end
         end;
    intros HH; inversion HH; subst; try discriminate; unfold raw_bytes; cbn [bk bh bb app];
    (split; [reflexivity|]); try reflexivity; try exact Hpre.
Qed.

(** * C01, header stage: the header of a record the strict builder returned is accepted, with no
    finding, by header validation under every policy pair *)
Theorem built_header_accepted_everywhere o vid rt0 hs content new_id r fnd hs_out ps pu :
  (vid = 1 \/ vid = 2) -> canonical hs ->
  m_has n_content_length hs = false -> m_has n_block_digest hs = false -> m_has n_payload_digest hs = false ->
  o_spec o = Fail -> o_unknown o = Fail -> o_syntax o = Fail ->
  o_add_cl o = true -> o_add_digest o = true -> o_fix_wfblock o = false ->
  (forall d, new_digest (o_alg o) (o_enc o) = Some d -> d_hash d = []) ->
  build o vid rt0 hs content new_id = (Ok r fnd, hs_out) ->
  validate_header ps pu vid (r_fields r) [] = Ok (rt_of (r_fields r), r_fields r) [] /\
  rt_of (r_fields r) = rt_of hs /\ rt_of hs <> 0.
Proof.
  intros Hvid HC Hcl Hbdf Hpdf Hspec Hunk Hsyn Haddcl Hadddig Hfix Hfresh.
  destruct (keys_distinct uni_lower) as (K1 & K2 & K3 & K4 & K5 & K6).
  destruct (keys_distinct2 uni_lower) as (J1 & J2 & J3 & J4 & J5 & J6 & J7).
  unfold Record.build. cbv zeta. rewrite Haddcl, Hspec, Hunk.
  set (hs1 := if o_add_id o && negb (m_has n_record_id hs)
              then match id_value new_id with Some v => m_set n_record_id v hs | None => hs end else hs).
  assert (H1 : canonical hs1 /\ m_has n_content_length hs1 = false /\ m_has n_block_digest hs1 = false /\
               m_has n_payload_digest hs1 = false /\ type_field uni_lower hs1 = type_field uni_lower hs).
  { unfold hs1. destruct (o_add_id o && negb (m_has n_record_id hs)) eqn:Eid; [|tauto].
    destruct (id_value new_id); [|tauto].
    apply andb_true_iff in Eid as [_ Eid]. apply negb_true_iff in Eid.
    repeat split; [apply canon_set; exact HC| | | |]; try (rewrite (has_set_other uni_lower); auto).
    apply type_field_set_absent; [exact Eid|vm_compute; reflexivity]. }
  destruct H1 as (HC1 & Hcl1 & Hbd1 & Hpd1 & HT1).
  rewrite Hcl1. cbn [negb andb].
  set (hs2 := m_set n_content_length (itoa (Z.of_nat (length content))) hs1).
  assert (HC2 : canonical hs2) by (apply canon_set; exact HC1).
  assert (Hcl2 : m_get n_content_length hs2 = itoa (Z.of_nat (length content))) by apply get_set_same.
  assert (Hbd2 : m_has n_block_digest hs2 = false) by (unfold hs2; rewrite (has_set_other uni_lower); auto).
  assert (Hpd2 : m_has n_payload_digest hs2 = false) by (unfold hs2; rewrite (has_set_other uni_lower); auto).
  assert (HT2 : type_field uni_lower hs2 = type_field uni_lower hs).
  { unfold hs2. rewrite type_field_set_absent; [exact HT1|exact Hcl1|vm_compute; reflexivity]. }
  destruct (validate_header Fail Fail vid hs2 []) as [[rt hs3] fnd0|e fnd0] eqn:Ev; [|intros HH; discriminate].
  apply strict_ok_inv in Ev; [|exact HC2]. destruct Ev as (-> & -> & -> & HTne & HRne & HD2).
  set (rtb := if rt0 =? 0 then rt_of hs2 else rt0).
  destruct (parse_block o rtb hs2 content []) as [[[[hs4 blk] bd] pd] fnd1|e fnd1] eqn:Ep; [|intros HH; discriminate].
  destruct (parse_block_strict_keeps _ _ _ _ _ _ _ _ _ _ Hsyn Hfix Ep) as [-> Hraw0].
  assert (Hdf : digest_from_field o hs2 n_block_digest = new_digest (o_alg o) (o_enc o) /\
                digest_from_field o hs2 n_payload_digest = new_digest (o_alg o) (o_enc o)).
  { unfold Record.digest_from_field. rewrite Hbd2, Hpd2. split; reflexivity. }
  destruct Hdf as [Hdf1 Hdf2].
  destruct (new_digest (o_alg o) (o_enc o)) as [d0|] eqn:Ed0.
  2: { unfold Record.parse_block in Ep. rewrite Hdf1 in Ep. discriminate. }
  pose proof (Hfresh d0 eq_refl) as Hd0.
  destruct (parse_block_shape uni_lower uni_upper time_ok ip_ok uri_ok wid_ok mime_dec H b32_decode b64_decode
              http_req_ok http_resp_ok _ _ _ _ _ _ _ _ _ _ d0 d0 Hfix Hdf1 Hdf2 Ep) as (Hbd & Hpd & _).
  assert (Hraw : m_get n_content_length hs2 = itoa (Z.of_nat (length (raw_bytes blk)))) by (rewrite Hraw0; exact Hcl2).
  destruct (validate_digest o rtb hs2 blk bd pd true fnd1) as [hs5 fnd2|e fnd2] eqn:Evd; [|intros HH; discriminate].
  intros HH. inversion HH; subst r fnd hs_out. cbn [r_fields].
  assert (Hpobj : forall p, payload_obj rtb blk pd = Some p -> d_hash p = []).
  { intros p Hp. unfold payload_obj in Hp. destruct (bk blk) eqn:Ek; try discriminate.
    - destruct (rtb =? 4) eqn:E4; [|discriminate]. rewrite (Hpd eq_refl) in Hp. inversion Hp; subst. exact Hd0.
    - rewrite Hpd in Hp. inversion Hp; subst. exact Hd0.
    - rewrite Hpd in Hp. inversion Hp; subst. exact Hd0. }
  assert (Hbdh : d_hash bd = []) by (rewrite Hbd; exact Hd0).
  destruct (validate_digest_shape o rtb hs2 blk bd pd fnd1 hs5 fnd2 Hadddig Hraw Hbdh Hpobj Evd) as (_ & Hshape5).
  assert (HB : is_digest_name n_block_digest) by (left; reflexivity).
  assert (HP : is_digest_name n_payload_digest) by (right; reflexivity).
  destruct (defects_add_digest vid n_block_digest (format bd) hs2 Hvid HC2 HB Hbd2 HTne HD2) as (HC3 & HT3 & HR3 & HD3).
  assert (Hrt2 : rt_of hs2 = rt_of hs) by (unfold ValidateProofs.rt_of; rewrite HT2; reflexivity).
  destruct Hshape5 as [[-> _]|(p & _ & _ & ->)].
  - split; [|split; [rewrite HR3; exact Hrt2|rewrite <- Hrt2; exact HRne]].
    apply accepted_any_policy; try assumption. rewrite HR3. exact HRne.
  - assert (Hpd3 : m_has n_payload_digest (m_set n_block_digest (format bd) hs2) = false)
      by (rewrite (has_set_other uni_lower); [exact Hpd2|intros E; apply K3; symmetry; exact E]).
    destruct (defects_add_digest vid n_payload_digest (format p) _ Hvid HC3 HP Hpd3 HT3 HD3) as (HC4 & HT4 & HR4 & HD4).
    split; [|split; [rewrite HR4, HR3; exact Hrt2|rewrite <- Hrt2; exact HRne]].
    apply accepted_any_policy; try assumption. rewrite HR4, HR3. exact HRne.
Qed.


(** ** block stage, for records without digest fields: what the strict builder's parseBlock made
    of the content, the reader's parseBlock makes of it again, under every syntax policy and
    without finding *)

Lemma parse_block_reader_agrees bo o rt hs content fnd blk bd pd fnd1 d1 :
  o_syntax bo = Fail -> (o_block bo = Fail \/ o_block o = Ignore) ->
  o_skip_parse o = o_skip_parse bo ->
  m_has n_block_digest hs = false -> m_has n_payload_digest hs = false ->
  new_digest (o_alg o) (o_enc o) = Some d1 ->
  parse_block bo rt hs content fnd = Ok (hs, blk, bd, pd) fnd1 ->
  exists bd' pd', parse_block o rt hs content [] = Ok (hs, blk, bd', pd') [] /\ d_fed bd' = d_fed d1 ++ raw_bytes blk /\ d_hash bd' = d_hash d1 /\
                  (forall p, pd' = Some p -> d_hash p = d_hash d1).
Proof.
  intros Hsyn Hblk Hskip Hnb Hnp Hd1.
  unfold Record.parse_block, Record.digest_from_field. rewrite Hnb, Hnp, Hd1, Hskip, Hsyn.
  destruct (new_digest (o_alg bo) (o_enc bo)) as [d0|]; [|intros HH; discriminate].
  cbv zeta.
  destruct (o_skip_parse bo).
  { intros HH; inversion HH; subst. eexists; eexists; split; [reflexivity|]. unfold raw_bytes; cbn [bh bb d_fed d_hash feed app].
    repeat split; try reflexivity. intros p Hp. destruct (rt =? 4); inversion Hp; reflexivity. }
  destruct (negb (N.land rt 206 =? 0) && _).
  - (* http *)
    destruct (length content <? 4)%nat; [intros HH; discriminate|].
    destruct (http_header content) as [hb found].
    destruct found; cbn [site]; [|intros HH; discriminate].
    cbn [negb andb].
    destruct (if has_prefix s_HTTP hb then http_resp_ok hb else http_req_ok hb) eqn:Eok.
    + intros HH; inversion HH; subst. eexists; eexists; split; [reflexivity|]. unfold raw_bytes; cbn [bh bb d_fed d_hash feed].
      repeat split; try reflexivity. intros p Hp; inversion Hp; reflexivity.
    + destruct Hblk as [Hb|Hb].
      * rewrite Hb. cbn [site]. intros HH; discriminate.
      * rewrite Hb. destruct (o_block bo); cbn [site]; intros HH; inversion HH; subst;
          eexists; eexists; (split; [reflexivity|]); unfold raw_bytes; cbn [bh bb d_fed d_hash feed];
          repeat split; try reflexivity; intros p Hp; inversion Hp; reflexivity.
  - destruct (rt =? 32).
    { intros HH; inversion HH; subst. eexists; eexists; split; [reflexivity|]. unfold raw_bytes; cbn [bh bb d_fed d_hash feed app].
      repeat split; try reflexivity. intros p Hp; discriminate. }
    destruct (has_prefix s_app_warcfields _).
    2: { intros HH; inversion HH; subst. eexists; eexists; split; [reflexivity|]. unfold raw_bytes; cbn [bh bb d_fed d_hash feed app].
         repeat split; try reflexivity. intros p Hp. destruct (rt =? 4); inversion Hp; reflexivity. }
    (* warc-fields: the inner parse under fail succeeded without finding, so it is the same under every policy *)
    pose proof (parse_fields_quiet field_table uni_lower mime_dec Fail (mkst content TEOF) [] ltac:(discriminate)) as Hq.
    destruct (HeaderParse.parse_fields field_table uni_lower mime_dec Fail (mkst content TEOF) []) as [[wf s'] bv|e bv] eqn:Ein;
      cbn [findings_of] in Hq; subst bv; [|intros HH; discriminate].
    rewrite (parse_fields_strict_ok_everywhere field_table uni_lower mime_dec (o_syntax o) _ _ Ein). cbn [findings_of].
    intros HH; inversion HH; subst. eexists; eexists; split; [reflexivity|]. unfold raw_bytes; cbn [bh bb d_fed d_hash feed app].
    repeat split; try reflexivity. intros p Hp; discriminate.
Qed.

(** ** decimal text is a clean header value *)
Lemma digit_facts c : is_digit c = true -> (c =? 10) = false /\ (c =? 61) = false /\ is_sphtcrlf c = false.
Proof.
  unfold is_digit, is_sphtcrlf. intros Hd. apply andb_true_iff in Hd as [H1 H2].
  apply N.leb_le in H1. apply N.leb_le in H2.
  repeat split; repeat (apply orb_false_iff; split); apply N.eqb_neq; lia.
Qed.

Lemma forallb_last {A} (P : A -> bool) (l : list A) d : forallb P l = true -> l <> [] -> P (last l d) = true.
Proof.
  induction l as [|a t IH]; intros Hf Hne; [congruence|]. cbn [forallb] in Hf. apply andb_true_iff in Hf as [Ha Ht].
  destruct t as [|b t']; [exact Ha|]. apply IH; [exact Ht|discriminate].
Qed.

Lemma no_byte_no_marker s : no_byte 61 s -> contains enc_marker s = false.
Proof.
  unfold no_byte, enc_marker. induction s as [|c t IH]; intros Hn; [reflexivity|].
  cbn [forallb] in Hn. apply andb_true_iff in Hn as [Hc Ht]. cbn [contains has_prefix].
  apply negb_true_iff in Hc. rewrite N.eqb_sym, Hc. cbn [andb orb]. apply IH. exact Ht.
Qed.

Lemma digits_clean d : forallb is_digit d = true -> d <> [] ->
  no_byte LF d /\ edge_ok is_sphtcrlf d = true /\ no_byte 61 d.
Proof.
  intros Hd Hne. repeat split.
  - unfold no_byte. apply forallb_forall. intros c Hc. rewrite forallb_forall in Hd.
    destruct (digit_facts c (Hd c Hc)) as (E & _ & _). unfold LF. rewrite E. reflexivity.
  - destruct d as [|c t]; [congruence|]. unfold edge_ok.
    assert (H1 : is_digit c = true) by (cbn [forallb] in Hd; apply andb_true_iff in Hd as [Hx _]; exact Hx).
    assert (H2 : is_digit (last (c :: t) 0) = true) by (apply forallb_last; [exact Hd|discriminate]).
    destruct (digit_facts _ H1) as (_ & _ & E1). destruct (digit_facts _ H2) as (_ & _ & E2). rewrite E1, E2. reflexivity.
  - unfold no_byte. apply forallb_forall. intros c Hc. rewrite forallb_forall in Hd.
    destruct (digit_facts c (Hd c Hc)) as (_ & E & _). rewrite E. reflexivity.
Qed.

Lemma itoa_digits z : (0 <= z)%Z -> forallb is_digit (itoa z) = true /\ itoa z <> [].
Proof.
  intros Hz. destruct z as [|p|p]; [split; [reflexivity|discriminate]| |lia].
  cbn [itoa]. unfold utoa. split; [apply digits_all_digits; reflexivity|apply digits_nonempty].
Qed.

Lemma content_length_field_wf z : (0 <= z)%Z -> wf_field tbl uni_lower (key n_content_length, itoa z).
Proof.
  intros Hz. destruct (itoa_digits z Hz) as [Hd Hne]. destruct (digits_clean _ Hd Hne) as (H1 & H2 & H3).
  constructor; cbn [fst snd].
  - apply (normalize_idem tbl gen_table_ok).
  - vm_compute. reflexivity.
  - vm_compute. reflexivity.
  - exact H1.
  - vm_compute. reflexivity.
  - exact H2.
  - apply no_byte_no_marker. apply no_byte_app. split; [vm_compute; reflexivity|].
    apply no_byte_app. split; [vm_compute; reflexivity|exact H3].
Qed.

(** length and digest verification leaves a record alone when its length is truthful, no digest
    is declared and none is to be added *)
Lemma validate_digest_noop o rt hs b bd pd cached fnd :
  o_add_digest o = false ->
  m_get n_content_length hs = itoa (Z.of_nat (length (raw_bytes b))) ->
  d_hash bd = [] -> (forall p, payload_obj rt b pd = Some p -> d_hash p = []) ->
  validate_digest o rt hs b bd pd cached fnd = Ok hs fnd.
Proof.
  intros Hadd Hcl Hbd Hpd. unfold Record.validate_digest. cbv zeta.
  rewrite Hcl, bytes_eqb_refl. cbn [negb]. rewrite Bool.andb_false_r.
  unfold Record.check_digest at 1. rewrite Hbd, Hadd. cbn [andb].
  destruct ((rt =? 32) || m_has n_segment_number hs); [reflexivity|].
  fold (payload_obj rt b pd).
  destruct (payload_obj rt b pd) as [p|] eqn:Ep; [|reflexivity].
  assert (Hp : d_hash p = []) by (apply Hpd; reflexivity).
  unfold Record.check_digest. rewrite Hp, Hadd. reflexivity.
Qed.

Notation valid_record := (valid_record tbl req uni_lower uni_upper time_ok ip_ok uri_ok wid_ok mime_dec H b32_decode b64_decode http_req_ok http_resp_ok).
Notation parse_record := (parse_record tbl req uni_lower uni_upper time_ok ip_ok uri_ok wid_ok mime_dec H b32_decode b64_decode http_req_ok http_resp_ok).

(** * C01, end to end, for records without digest fields: what the strict builder returns is a
    valid record for every reader policy, hence survives marshal-then-parse unchanged *)
Theorem built_record_is_valid_without_digests bo o vid rt0 hs content new_id r fnd hs_out d0 d1 :
  (vid = 1 \/ vid = 2) -> canonical hs -> (forall f, In f hs -> wf_field tbl uni_lower f) ->
  m_has n_content_length hs = false -> m_has n_block_digest hs = false -> m_has n_payload_digest hs = false ->
  m_has n_record_id hs = true ->                (* the id is among the given fields *)
  (rt0 = 0 \/ rt0 = rt_of hs) ->                (* the type given to the builder is the one its WARC-Type field names *)
  o_spec bo = Fail -> o_unknown bo = Fail -> o_syntax bo = Fail ->
  (o_block bo = Fail \/ o_block o = Ignore) ->
  o_add_cl bo = true -> o_add_digest bo = false -> o_add_digest o = false -> o_fix_wfblock bo = false ->
  o_skip_parse o = o_skip_parse bo ->
  new_digest (o_alg bo) (o_enc bo) = Some d0 -> d_hash d0 = [] ->
  new_digest (o_alg o) (o_enc o) = Some d1 -> d_hash d1 = [] ->
  (Z.of_nat (length content) <= int64_max)%Z ->
  build bo vid rt0 hs content new_id = (Ok r fnd, hs_out) ->
  exists bd pd, valid_record o r bd pd.
Proof.
  intros Hvid HC Hwf Hcl Hbdf Hpdf Hid Hrt Hspec Hunk Hsyn Hblk Haddcl Hadd Haddo Hfix Hskip Hd0 Hh0 Hd1 Hh1 Hlen.
  destruct (keys_distinct uni_lower) as (K1 & K2 & K3 & K4 & K5 & K6).
  unfold Record.build. cbv zeta. rewrite Haddcl, Hspec, Hunk, Hid. cbn [negb]. rewrite Bool.andb_false_r, Hcl. cbn [negb andb].
  set (hs2 := m_set n_content_length (itoa (Z.of_nat (length content))) hs).
  assert (HC2 : canonical hs2) by (apply canon_set; exact HC).
  assert (Hs : s_has (key n_content_length) hs = false) by (rewrite <- m_has_s_has; exact Hcl).
  assert (Hset : hs2 = hs ++ [(key n_content_length, itoa (Z.of_nat (length content)))]).
  { unfold hs2. rewrite m_set_spec. unfold Fields.key.
    destruct (set_one_value_at_first_position (key n_content_length) (itoa (Z.of_nat (length content))) hs) as (_ & _ & H3 & _). apply H3. exact Hs. }
  assert (Hcl2 : m_get n_content_length hs2 = itoa (Z.of_nat (length content))) by apply get_set_same.
  assert (Hhas2 : m_has n_content_length hs2 = true) by apply (has_set_same tbl uni_lower).
  assert (Hbd2 : m_has n_block_digest hs2 = false) by (unfold hs2; rewrite (has_set_other uni_lower); auto).
  assert (Hpd2 : m_has n_payload_digest hs2 = false) by (unfold hs2; rewrite (has_set_other uni_lower); auto).
  assert (HT2 : type_field uni_lower hs2 = type_field uni_lower hs).
  { unfold hs2. rewrite type_field_set_absent; [reflexivity|exact Hcl|vm_compute; reflexivity]. }
  destruct (validate_header Fail Fail vid hs2 []) as [[rt hs3] fnd0|e fnd0] eqn:Ev; [|intros HH; discriminate].
  apply strict_ok_inv in Ev; [|exact HC2]. destruct Ev as (-> & -> & -> & HTne & HRne & HD2).
  assert (Hrt2 : rt_of hs2 = rt_of hs) by (unfold ValidateProofs.rt_of; rewrite HT2; reflexivity).
  set (rtb := if rt0 =? 0 then rt_of hs2 else rt0).
  assert (Hrtb : rtb = rt_of hs2).
  { unfold rtb. destruct Hrt as [->| ->]; [reflexivity|]. rewrite <- Hrt2. destruct (rt_of hs2 =? 0); reflexivity. }
  destruct (parse_block bo rtb hs2 content []) as [[[[hs4 blk] bd] pd] fnd1|e fnd1] eqn:Ep; [|intros HH; discriminate].
  destruct (parse_block_strict_keeps _ _ _ _ _ _ _ _ _ _ Hsyn Hfix Ep) as [-> Hraw0].
  assert (Hdf : digest_from_field bo hs2 n_block_digest = Some d0 /\ digest_from_field bo hs2 n_payload_digest = Some d0).
  { unfold Record.digest_from_field. rewrite Hbd2, Hpd2, Hd0. split; reflexivity. }
  destruct Hdf as [Hdf1 Hdf2].
  destruct (parse_block_shape uni_lower uni_upper time_ok ip_ok uri_ok wid_ok mime_dec H b32_decode b64_decode
              http_req_ok http_resp_ok _ _ _ _ _ _ _ _ _ _ d0 d0 Hfix Hdf1 Hdf2 Ep) as (Hbd & Hpd & _).
  assert (Hraw : m_get n_content_length hs2 = itoa (Z.of_nat (length (raw_bytes blk)))) by (rewrite Hraw0; exact Hcl2).
  assert (Hbdh : d_hash bd = []) by (rewrite Hbd; exact Hh0).
  assert (Hpobj : forall p, payload_obj rtb blk pd = Some p -> d_hash p = []).
  { intros p Hp. unfold payload_obj in Hp. destruct (bk blk) eqn:Ek; try discriminate.
    - destruct (rtb =? 4) eqn:E4; [|discriminate]. rewrite (Hpd eq_refl) in Hp. inversion Hp; subst. exact Hh0.
    - rewrite Hpd in Hp. inversion Hp; subst. exact Hh0.
    - rewrite Hpd in Hp. inversion Hp; subst. exact Hh0. }
  rewrite (validate_digest_noop bo rtb hs2 blk bd pd true fnd1 Hadd Hraw Hbdh Hpobj).
  intros HH. inversion HH; subst r fnd hs_out. clear HH.
  destruct (parse_block_reader_agrees bo o rtb hs2 content [] blk bd pd fnd1 d1 Hsyn Hblk Hskip Hbd2 Hpd2 Hd1 Ep)
    as (bd' & pd' & Epr & _ & Hbh' & Hph').
  exists bd', pd'. constructor; cbn [r_vtxt r_vid r_type r_fields r_block].
  - destruct Hvid as [->| ->]; [left|right]; split; reflexivity.
  - intros f Hf. rewrite Hset in Hf. apply in_app_or in Hf as [Hf|[<-|[]]]; [apply Hwf; exact Hf|].
    apply content_length_field_wf. lia.
  - rewrite Hset. intros E. apply app_eq_nil in E as [_ E]. discriminate.
  - rewrite Hrtb. apply accepted_any_policy; assumption.
  - unfold Record.cl_value. rewrite Hhas2, Hcl2, atoi_value_itoa by lia. rewrite Hraw0. reflexivity.
  - rewrite Hraw0. exact Epr.
  - apply validate_digest_noop; [exact Haddo|exact Hraw|rewrite Hbh'; exact Hh1|].
    intros p Hp. rewrite (Hph' p); [exact Hh1|]. unfold payload_obj in Hp.
    destruct (bk blk); try discriminate; try exact Hp. destruct (rtb =? 4); [exact Hp|discriminate].
Qed.

Theorem built_record_round_trips_without_digests bo o vid rt0 hs content new_id r fnd hs_out d0 d1 rest tl :
  (vid = 1 \/ vid = 2) -> canonical hs -> (forall f, In f hs -> wf_field tbl uni_lower f) ->
  m_has n_content_length hs = false -> m_has n_block_digest hs = false -> m_has n_payload_digest hs = false ->
  m_has n_record_id hs = true -> (rt0 = 0 \/ rt0 = rt_of hs) ->
  o_spec bo = Fail -> o_unknown bo = Fail -> o_syntax bo = Fail ->
  (o_block bo = Fail \/ o_block o = Ignore) ->
  o_add_cl bo = true -> o_add_digest bo = false -> o_add_digest o = false -> o_fix_wfblock bo = false ->
  o_skip_parse o = o_skip_parse bo ->
  new_digest (o_alg bo) (o_enc bo) = Some d0 -> d_hash d0 = [] ->
  new_digest (o_alg o) (o_enc o) = Some d1 -> d_hash d1 = [] ->
  (Z.of_nat (length content) <= int64_max)%Z ->
  build bo vid rt0 hs content new_id = (Ok r fnd, hs_out) ->
  parse_record o (mkst (marshal r ++ rest) tl) [] = URec r None [] (mkst rest tl).
Proof.
  intros. destruct (built_record_is_valid_without_digests bo o vid rt0 hs content new_id r fnd hs_out d0 d1) as (bd & pd & Hv); try assumption.
  eapply marshal_then_parse. exact Hv.
Qed.

(** ** the same, when the reader's header set carries the digest fields the builder added *)
Definition reader_pd (rt : N) (blk : rblock) (dp : digest) : option digest :=
  match bk blk with
  | BHttpReq | BHttpResp => Some (feed dp (bb blk))
  | BGeneric => if rt =? 4 then Some (feed dp (raw_bytes blk)) else None
  | _ => None
  end.

Lemma parse_block_reader_agrees2 bo o rt hsb hsr content fnd blk bd pd fnd1 db dp :
  o_syntax bo = Fail -> (o_block bo = Fail \/ o_block o = Ignore) ->
  o_skip_parse o = o_skip_parse bo ->
  m_get n_content_type hsr = m_get n_content_type hsb ->
  digest_from_field o hsr n_block_digest = Some db -> digest_from_field o hsr n_payload_digest = Some dp ->
  parse_block bo rt hsb content fnd = Ok (hsb, blk, bd, pd) fnd1 ->
  parse_block o rt hsr content [] = Ok (hsr, blk, feed db (raw_bytes blk), reader_pd rt blk dp) [].
Proof.
  intros Hsyn Hblk Hskip Hct Hdb Hdp.
  unfold Record.parse_block. rewrite Hdb, Hdp, Hskip, Hsyn, Hct.
  destruct (digest_from_field bo hsb n_block_digest) as [d0|]; [|intros HH; discriminate].
  destruct (digest_from_field bo hsb n_payload_digest) as [d0p|]; [|intros HH; discriminate].
  cbv zeta. unfold reader_pd.
  destruct (o_skip_parse bo).
  { intros HH; inversion HH; subst. unfold raw_bytes; cbn [bk bh bb app]. reflexivity. }
  destruct (negb (N.land rt 206 =? 0) && _).
  - destruct (length content <? 4)%nat; [intros HH; discriminate|].
    destruct (http_header content) as [hb found].
    destruct found; cbn [site]; [|intros HH; discriminate].
    cbn [negb andb].
    destruct (has_prefix s_HTTP hb).
    all: match goal with |- context [if ?c then Ok _ _ else _] => destruct c eqn:Eok end.
    all: try (intros HH; inversion HH; subst; unfold raw_bytes; cbn [bk bh bb]; reflexivity).
    all: destruct Hblk as [Hb|Hb]; rewrite Hb; [cbn [site]; intros HH; discriminate|].
    all: destruct (o_block bo); cbn [site]; intros HH; inversion HH; subst; unfold raw_bytes; cbn [bk bh bb]; reflexivity.
  - destruct (rt =? 32).
    { intros HH; inversion HH; subst. unfold raw_bytes; cbn [bk bh bb app]. reflexivity. }
    destruct (has_prefix s_app_warcfields _).
    2: { intros HH; inversion HH; subst. unfold raw_bytes; cbn [bk bh bb app]. reflexivity. }
    pose proof (parse_fields_quiet field_table uni_lower mime_dec Fail (mkst content TEOF) [] ltac:(discriminate)) as Hq.
    destruct (HeaderParse.parse_fields field_table uni_lower mime_dec Fail (mkst content TEOF) []) as [[wf s'] bv|e bv] eqn:Ein;
      cbn [findings_of] in Hq; subst bv; [|intros HH; discriminate].
    rewrite (parse_fields_strict_ok_everywhere field_table uni_lower mime_dec (o_syntax o) _ _ Ein). cbn [findings_of].
    intros HH; inversion HH; subst. unfold raw_bytes; cbn [bk bh bb app]. reflexivity.
Qed.

(** ** records with digest fields.  What the round trip needs from the digest text codec (the
    base32 / base64 decoders are oracles): the text the builder writes for a digest is read back
    by newDigest, in whatever default encoding the reader has, as a digest with that declared
    hash which validates against the same bytes; and it is a clean header value. *)
Definition codec_ok (e : enc) (d0 : digest) : Prop := forall x,
  exists d1, new_digest (format (feed d0 x)) e = Some d1 /\ d_fed d1 = [] /\ d_hash d1 <> [] /\ dvalidate H b32_decode b64_decode (feed d1 x) = true.
Definition digest_text_clean (d0 : digest) : Prop :=
  forall x n, is_digest_name n -> wf_field tbl uni_lower (key n, format (feed d0 x)).

Lemma m_set_absent n v hs : m_has n hs = false -> m_set n v hs = hs ++ [(key n, v)].
Proof.
  intros Hno. assert (Hs : s_has (key n) hs = false) by (rewrite <- m_has_s_has; exact Hno).
  rewrite m_set_spec. unfold Fields.key.
  destruct (set_one_value_at_first_position (key n) v hs) as (_ & _ & H3 & _). apply H3. exact Hs.
Qed.

(* verification of declared, valid digests changes nothing and finds nothing *)
Lemma validate_digest_valid o rt hs b bd pd cached fnd :
  m_get n_content_length hs = itoa (Z.of_nat (length (raw_bytes b))) ->
  d_hash bd <> [] -> dvalidate H b32_decode b64_decode bd = true ->
  (((rt =? 32) || m_has n_segment_number hs) = true \/
   forall p, payload_obj rt b pd = Some p -> d_hash p <> [] /\ dvalidate H b32_decode b64_decode p = true) ->
  validate_digest o rt hs b bd pd cached fnd = Ok hs fnd.
Proof.
  intros Hcl Hbd Hbv Hpd. unfold Record.validate_digest. cbv zeta.
  rewrite Hcl, bytes_eqb_refl. cbn [negb]. rewrite Bool.andb_false_r.
  unfold Record.check_digest at 1. destruct (d_hash bd) as [|c t] eqn:Eh; [congruence|].
  rewrite Hbv. cbn [negb]. rewrite Bool.andb_false_r.
  destruct ((rt =? 32) || m_has n_segment_number hs) eqn:Eseg; [reflexivity|].
  destruct Hpd as [Hx|Hpd]; [discriminate|].
  fold (payload_obj rt b pd).
  destruct (payload_obj rt b pd) as [p|] eqn:Ep; [|reflexivity].
  destruct (Hpd p eq_refl) as [Hp1 Hp2].
  unfold Record.check_digest. destruct (d_hash p) as [|c' t'] eqn:Eh'; [congruence|].
  rewrite Hp2. cbn [negb]. rewrite Bool.andb_false_r. reflexivity.
Qed.

(** * C01, end to end, with the digest fields the builder adds *)
Theorem built_record_is_valid_with_digests bo o vid rt0 hs content new_id r fnd hs_out d0 d1 :
  (vid = 1 \/ vid = 2) -> canonical hs -> (forall f, In f hs -> wf_field tbl uni_lower f) ->
  m_has n_content_length hs = false -> m_has n_block_digest hs = false -> m_has n_payload_digest hs = false ->
  m_has n_record_id hs = true -> (rt0 = 0 \/ rt0 = rt_of hs) ->
  o_spec bo = Fail -> o_unknown bo = Fail -> o_syntax bo = Fail ->
  (o_block bo = Fail \/ o_block o = Ignore) ->
  o_add_cl bo = true -> o_add_digest bo = true -> o_fix_wfblock bo = false ->
  o_skip_parse o = o_skip_parse bo ->
  new_digest (o_alg bo) (o_enc bo) = Some d0 -> d_hash d0 = [] -> d_fed d0 = [] ->
  new_digest (o_alg o) (o_enc o) = Some d1 ->
  codec_ok (o_enc o) d0 -> digest_text_clean d0 ->
  (Z.of_nat (length content) + 2 <= int64_max)%Z ->
  build bo vid rt0 hs content new_id = (Ok r fnd, hs_out) ->
  exists bd pd, valid_record o r bd pd.
Proof.
  intros Hvid HC Hwf Hcl Hbdf Hpdf Hid Hrt Hspec Hunk Hsyn Hblk Haddcl Hadd Hfix Hskip Hd0 Hh0 Hf0 Hd1 Hcodec Hclean Hlen.
  destruct (keys_distinct uni_lower) as (K1 & K2 & K3 & K4 & K5 & K6).
  destruct (keys_distinct2 uni_lower) as (J1 & J2 & J3 & J4 & J5 & J6 & J7).
  assert (KT : key n_content_type <> key n_block_digest /\ key n_content_type <> key n_payload_digest) by (split; vm_compute; discriminate).
  destruct KT as [KT1 KT2].
  unfold Record.build. cbv zeta. rewrite Haddcl, Hspec, Hunk, Hid. cbn [negb]. rewrite Bool.andb_false_r, Hcl. cbn [negb andb].
  set (hs2 := m_set n_content_length (itoa (Z.of_nat (length content))) hs).
  assert (HC2 : canonical hs2) by (apply canon_set; exact HC).
  assert (Hset : hs2 = hs ++ [(key n_content_length, itoa (Z.of_nat (length content)))]) by (apply m_set_absent; exact Hcl).
  assert (Hcl2 : m_get n_content_length hs2 = itoa (Z.of_nat (length content))) by apply get_set_same.
  assert (Hhas2 : m_has n_content_length hs2 = true) by apply (has_set_same tbl uni_lower).
  assert (Hbd2 : m_has n_block_digest hs2 = false) by (unfold hs2; rewrite (has_set_other uni_lower); auto).
  assert (Hpd2 : m_has n_payload_digest hs2 = false) by (unfold hs2; rewrite (has_set_other uni_lower); auto).
  assert (HT2 : type_field uni_lower hs2 = type_field uni_lower hs).
  { unfold hs2. rewrite type_field_set_absent; [reflexivity|exact Hcl|vm_compute; reflexivity]. }
  assert (Hwf2 : forall f, In f hs2 -> wf_field tbl uni_lower f).
  { intros f Hf. rewrite Hset in Hf. apply in_app_or in Hf as [Hf|[<-|[]]]; [apply Hwf; exact Hf|].
    apply content_length_field_wf. lia. }
  destruct (validate_header Fail Fail vid hs2 []) as [[rt hs3] fnd0|e fnd0] eqn:Ev; [|intros HH; discriminate].
  apply strict_ok_inv in Ev; [|exact HC2]. destruct Ev as (-> & -> & -> & HTne & HRne & HD2).
  assert (Hrt2 : rt_of hs2 = rt_of hs) by (unfold ValidateProofs.rt_of; rewrite HT2; reflexivity).
  set (rtb := if rt0 =? 0 then rt_of hs2 else rt0).
  assert (Hrtb : rtb = rt_of hs2).
  { unfold rtb. destruct Hrt as [->| ->]; [reflexivity|]. rewrite <- Hrt2. destruct (rt_of hs2 =? 0); reflexivity. }
  destruct (parse_block bo rtb hs2 content []) as [[[[hs4 blk] bd] pd] fnd1|e fnd1] eqn:Ep; [|intros HH; discriminate].
  destruct (parse_block_strict_keeps _ _ _ _ _ _ _ _ _ _ Hsyn Hfix Ep) as [-> Hraw0].
  assert (Hdf : digest_from_field bo hs2 n_block_digest = Some d0 /\ digest_from_field bo hs2 n_payload_digest = Some d0).
  { unfold Record.digest_from_field. rewrite Hbd2, Hpd2, Hd0. split; reflexivity. }
  destruct Hdf as [Hdf1 Hdf2].
  destruct (parse_block_shape uni_lower uni_upper time_ok ip_ok uri_ok wid_ok mime_dec H b32_decode b64_decode
              http_req_ok http_resp_ok _ _ _ _ _ _ _ _ _ _ d0 d0 Hfix Hdf1 Hdf2 Ep) as (Hbd & Hpd & _).
  assert (Hraw : m_get n_content_length hs2 = itoa (Z.of_nat (length (raw_bytes blk)))) by (rewrite Hraw0; exact Hcl2).
  assert (Hbdh : d_hash bd = []) by (rewrite Hbd; exact Hh0).
  (* the payload digest object, when there is one, is the fresh digest fed the payload bytes *)
  assert (Hpobj : forall p, payload_obj rtb blk pd = Some p ->
            exists y, p = feed d0 y /\ reader_pd rtb blk d0 = Some (feed d0 y)).
  { intros p Hp. unfold payload_obj in Hp. unfold reader_pd. destruct (bk blk) eqn:Ek; try discriminate.
    - destruct (rtb =? 4) eqn:E4; [|discriminate]. rewrite (Hpd eq_refl) in Hp. inversion Hp; subst. eexists; split; reflexivity.
    - rewrite Hpd in Hp. inversion Hp; subst. eexists; split; reflexivity.
    - rewrite Hpd in Hp. inversion Hp; subst. eexists; split; reflexivity. }
  assert (Hpobj0 : forall p, payload_obj rtb blk pd = Some p -> d_hash p = []).
  { intros p Hp. destruct (Hpobj p Hp) as (y & -> & _). exact Hh0. }
  destruct (validate_digest bo rtb hs2 blk bd pd true fnd1) as [hs5 fnd2|e fnd2] eqn:Evd; [|intros HH; discriminate].
  intros HH. inversion HH; subst r fnd hs_out. clear HH.
  destruct (validate_digest_shape bo rtb hs2 blk bd pd fnd1 hs5 fnd2 Hadd Hraw Hbdh Hpobj0 Evd) as (_ & Hshape5).
  assert (HB : is_digest_name n_block_digest) by (left; reflexivity).
  assert (HP : is_digest_name n_payload_digest) by (right; reflexivity).
  set (hs3 := m_set n_block_digest (format bd) hs2) in *.
  destruct (defects_add_digest vid n_block_digest (format bd) hs2 Hvid HC2 HB Hbd2 HTne HD2) as (HC3 & HT3 & HR3 & HD3).
  fold hs3 in HC3, HT3, HR3, HD3.
  assert (Hset3 : hs3 = hs2 ++ [(key n_block_digest, format bd)]) by (apply m_set_absent; exact Hbd2).
  assert (Hwf3 : forall f, In f hs3 -> wf_field tbl uni_lower f).
  { intros f Hf. rewrite Hset3 in Hf. apply in_app_or in Hf as [Hf|[<-|[]]]; [apply Hwf2; exact Hf|].
    rewrite Hbd. apply Hclean. exact HB. }
  assert (Hcl3 : m_get n_content_length hs3 = itoa (Z.of_nat (length (raw_bytes blk))) /\ m_has n_content_length hs3 = true).
  { unfold hs3. rewrite (get_set_other tbl uni_lower), (has_set_other uni_lower) by exact K1. split; [exact Hraw|exact Hhas2]. }
  assert (Hpd3 : m_has n_payload_digest hs3 = false)
    by (unfold hs3; rewrite (has_set_other uni_lower); [exact Hpd2|intros E; apply K3; symmetry; exact E]).
  assert (Hct3 : m_get n_content_type hs3 = m_get n_content_type hs2) by (unfold hs3; apply (get_set_other tbl uni_lower); exact KT1).
  assert (Hbg3 : m_get n_block_digest hs3 = format bd /\ m_has n_block_digest hs3 = true)
    by (unfold hs3; split; [apply get_set_same|apply (has_set_same tbl uni_lower)]).
  (* what the reader makes of the declared block digest *)
  destruct (Hcodec (raw_bytes blk)) as (db & Hdb & Hdbf & Hdbh & Hdbv).
  assert (Hfmt : format bd = format (feed d0 (raw_bytes blk))) by (rewrite Hbd; reflexivity).
  assert (Edb : digest_from_field o hs3 n_block_digest = Some db).
  { unfold Record.digest_from_field. destruct Hbg3 as [-> ->]. rewrite Hfmt. exact Hdb. }
  assert (Hseg3 : m_has n_segment_number hs3 = m_has n_segment_number hs2)
    by (unfold hs3; apply (has_set_other uni_lower); exact K5).
  destruct Hshape5 as [[-> Hwhy]|(p & Hseg & Hp & ->)].
  - (* no payload digest was added: revisit / segment, or the block kind has no payload *)
    exists (feed db (raw_bytes blk)), (reader_pd rtb blk d1).
    assert (Edp : digest_from_field o hs3 n_payload_digest = Some d1).
    { unfold Record.digest_from_field. rewrite Hpd3. exact Hd1. }
    constructor; cbn [r_vtxt r_vid r_type r_fields r_block].
    + destruct Hvid as [->| ->]; [left|right]; split; reflexivity.
    + exact Hwf3.
    + rewrite Hset3. intros E. apply app_eq_nil in E as [_ E]. discriminate.
    + rewrite Hrtb, <- HR3. apply accepted_any_policy; try assumption. rewrite HR3. exact HRne.
    + unfold Record.cl_value. destruct Hcl3 as [-> ->]. rewrite atoi_value_itoa by (rewrite Hraw0; lia). reflexivity.
    + pose proof (parse_block_reader_agrees2 bo o rtb hs2 hs3 content [] blk bd pd fnd1 db d1 Hsyn Hblk Hskip Hct3 Edb Edp Ep) as Hr.
      rewrite <- Hraw0 in Hr. exact Hr.
    + apply validate_digest_valid.
      * destruct Hcl3 as [-> _]. reflexivity.
      * cbn [feed d_hash]. exact Hdbh.
      * exact Hdbv.
      * destruct Hwhy as [Hw|Hw]; [left; exact Hw|right].
        intros q Hq. exfalso. unfold payload_obj in Hw, Hq. unfold reader_pd in Hq.
        destruct (bk blk) eqn:Ek; try discriminate.
        -- destruct (rtb =? 4) eqn:E4; [|discriminate]. rewrite (Hpd eq_refl) in Hw. discriminate.
        -- rewrite Hpd in Hw. discriminate.
        -- rewrite Hpd in Hw. discriminate.
  - (* block digest and payload digest *)
    destruct (Hpobj p Hp) as (y & -> & Hrp).
    destruct (Hcodec y) as (dp & Hdp & Hdpf & Hdph & Hdpv).
    set (hs4 := m_set n_payload_digest (format (feed d0 y)) hs3).
    destruct (defects_add_digest vid n_payload_digest (format (feed d0 y)) hs3 Hvid HC3 HP Hpd3 HT3 HD3) as (HC4 & HT4 & HR4 & HD4).
    fold hs4 in HC4, HT4, HR4, HD4.
    assert (Hset4 : hs4 = hs3 ++ [(key n_payload_digest, format (feed d0 y))]) by (apply m_set_absent; exact Hpd3).
    assert (Hcl4 : m_get n_content_length hs4 = itoa (Z.of_nat (length (raw_bytes blk))) /\ m_has n_content_length hs4 = true).
    { unfold hs4. rewrite (get_set_other tbl uni_lower), (has_set_other uni_lower) by exact K2. exact Hcl3. }
    assert (Hct4 : m_get n_content_type hs4 = m_get n_content_type hs2).
    { unfold hs4. rewrite (get_set_other tbl uni_lower) by exact KT2. exact Hct3. }
    assert (Edb4 : digest_from_field o hs4 n_block_digest = Some db).
    { unfold Record.digest_from_field, hs4. rewrite (has_set_other uni_lower), (get_set_other tbl uni_lower) by exact K3. exact Edb. }
    assert (Edp4 : digest_from_field o hs4 n_payload_digest = Some dp).
    { unfold Record.digest_from_field, hs4. rewrite (has_set_same tbl uni_lower), get_set_same. exact Hdp. }
    assert (Hseg4 : m_has n_segment_number hs4 = m_has n_segment_number hs3)
      by (unfold hs4; apply (has_set_other uni_lower); exact K6).
    exists (feed db (raw_bytes blk)), (reader_pd rtb blk dp).
    constructor; cbn [r_vtxt r_vid r_type r_fields r_block].
    + destruct Hvid as [->| ->]; [left|right]; split; reflexivity.
    + intros f Hf. rewrite Hset4 in Hf. apply in_app_or in Hf as [Hf|[<-|[]]]; [apply Hwf3; exact Hf|].
      apply Hclean. exact HP.
    + rewrite Hset4. intros E. apply app_eq_nil in E as [_ E]. discriminate.
    + rewrite Hrtb, <- HR3, <- HR4. apply accepted_any_policy; try assumption. rewrite HR4, HR3. exact HRne.
    + unfold Record.cl_value. destruct Hcl4 as [-> ->]. rewrite atoi_value_itoa by (rewrite Hraw0; lia). reflexivity.
    + pose proof (parse_block_reader_agrees2 bo o rtb hs2 hs4 content [] blk bd pd fnd1 db dp Hsyn Hblk Hskip Hct4 Edb4 Edp4 Ep) as Hr.
      rewrite <- Hraw0 in Hr. exact Hr.
    + apply validate_digest_valid.
      * destruct Hcl4 as [-> _]. reflexivity.
      * cbn [feed d_hash]. exact Hdbh.
      * exact Hdbv.
      * right. intros q Hq.
        assert (Eq : q = feed dp y).
        { unfold payload_obj in Hq. unfold reader_pd in Hq, Hrp. destruct (bk blk) eqn:Ek; try discriminate.
          - destruct (rtb =? 4) eqn:E4; [|discriminate]. inversion Hrp as [Hy]. inversion Hq. 
            assert (Hyy : y = raw_bytes blk). { unfold feed in Hy. inversion Hy as [Hz]. rewrite Hf0 in Hz. exact (eq_sym Hz). }
            rewrite Hyy. reflexivity.
          - inversion Hrp as [Hy]. inversion Hq.
            assert (Hyy : y = bb blk). { unfold feed in Hy. inversion Hy as [Hz]. rewrite Hf0 in Hz. exact (eq_sym Hz). }
            rewrite Hyy. reflexivity.
          - inversion Hrp as [Hy]. inversion Hq.
            assert (Hyy : y = bb blk). { unfold feed in Hy. inversion Hy as [Hz]. rewrite Hf0 in Hz. exact (eq_sym Hz). }
            rewrite Hyy. reflexivity. }
        subst q. split; [cbn [feed d_hash]; exact Hdph|exact Hdpv].
Qed.

Theorem built_record_round_trips_with_digests bo o vid rt0 hs content new_id r fnd hs_out d0 d1 rest tl :
  (vid = 1 \/ vid = 2) -> canonical hs -> (forall f, In f hs -> wf_field tbl uni_lower f) ->
  m_has n_content_length hs = false -> m_has n_block_digest hs = false -> m_has n_payload_digest hs = false ->
  m_has n_record_id hs = true -> (rt0 = 0 \/ rt0 = rt_of hs) ->
  o_spec bo = Fail -> o_unknown bo = Fail -> o_syntax bo = Fail ->
  (o_block bo = Fail \/ o_block o = Ignore) ->
  o_add_cl bo = true -> o_add_digest bo = true -> o_fix_wfblock bo = false ->
  o_skip_parse o = o_skip_parse bo ->
  new_digest (o_alg bo) (o_enc bo) = Some d0 -> d_hash d0 = [] -> d_fed d0 = [] ->
  new_digest (o_alg o) (o_enc o) = Some d1 ->
  codec_ok (o_enc o) d0 -> digest_text_clean d0 ->
  (Z.of_nat (length content) + 2 <= int64_max)%Z ->
  build bo vid rt0 hs content new_id = (Ok r fnd, hs_out) ->
  parse_record o (mkst (marshal r ++ rest) tl) [] = URec r None [] (mkst rest tl).
Proof.
  intros. destruct (built_record_is_valid_with_digests bo o vid rt0 hs content new_id r fnd hs_out d0 d1) as (bd & pd & Hv); try assumption.
  eapply marshal_then_parse. exact Hv.
Qed.

End BuiltValid.
