(** Revisit creation and merge are mutually consistent (C20). *)
Require Import Model.Bytes Model.FieldDef Gen.FieldTable Model.Fields Model.Validate Model.Digest Model.Record Model.Revisit.
Require Import Proofs.BytesProofs Proofs.FieldsProofs Proofs.NormalizeProofs Proofs.GetSetProofs.
From Coq Require Import Lia.
Local Open Scope N_scope.

(** the field names involved are distinct canonical keys of the table read from /repo (finite check) *)
Definition names : list bytes :=
  [n_content_length; n_block_digest; n_payload_digest; n_warc_type; n_profile; n_refers_to; n_refers_to_uri;
   n_refers_to_date; n_truncated].
Definition idl (s : bytes) : bytes := s.
Definition keys_ok : bool :=
  forallb (fun a => forallb (fun b => bytes_eqb a b || negb (bytes_eqb (normalize_name field_table idl a) (normalize_name field_table idl b))) names) names.
Lemma keys_ok_true : keys_ok = true.
Proof. vm_compute. reflexivity. Qed.

(* the names are pure ASCII, so the Unicode oracle is never consulted *)
Lemma key_oracle_free ul a : In a names -> normalize_name field_table ul a = normalize_name field_table idl a.
Proof. unfold names. intros HI. repeat (destruct HI as [<-|HI]; [reflexivity|]). destruct HI. Qed.

Section Proofs.
Variable uni_lower uni_upper : bytes -> bytes.
Variable H : alg -> bytes -> bytes.
Variable profile_of : bytes -> profile_kind.
Notation key := (normalize_name field_table uni_lower).
Notation m_get := (m_get field_table uni_lower).
Notation m_set := (m_set field_table uni_lower).
Notation to_revisit := (to_revisit field_table uni_lower uni_upper H profile_of).
Notation merge := (merge field_table uni_lower).

Lemma key_neq a b : In a names -> In b names -> a <> b -> key a <> key b.
Proof.
  intros Ha Hb Hab. rewrite (key_oracle_free uni_lower a Ha), (key_oracle_free uni_lower b Hb).
  pose proof keys_ok_true as K. unfold keys_ok in K. rewrite forallb_forall in K.
  specialize (K a Ha). rewrite forallb_forall in K. specialize (K b Hb).
  apply orb_true_iff in K as [K|K].
  - apply bytes_eqb_eq in K. contradiction.
  - apply negb_true_iff in K. apply bytes_eqb_neq in K. exact K.
Qed.

Ltac in_names := unfold names; cbn [In]; tauto.
Ltac other := apply key_neq; [in_names|in_names|discriminate].
Ltac gso := repeat first [ rewrite get_set_other by other | rewrite get_delete_other by other ].

Notation m_delete := (m_delete field_table uni_lower).
Notation m_has := (m_has field_table uni_lower).

Lemma get_set_id_other a b v hs : In a names -> In b names -> a <> b ->
  m_get a (set_id field_table uni_lower b v hs) = m_get a hs.
Proof. intros Ha Hb Hn. unfold set_id. destruct (id_value v); [rewrite get_set_other by (apply key_neq; assumption)|]; reflexivity. Qed.
Lemma get_set_if_other a b v hs : In a names -> In b names -> a <> b ->
  m_get a (set_if field_table uni_lower b v hs) = m_get a hs.
Proof. intros Ha Hb Hn. unfold set_if. destruct v; [|rewrite get_set_other by (apply key_neq; assumption)]; reflexivity. Qed.

(** the derived revisit record: block = the original's protocol header, truthful length and
    block digest, type revisit in both places, the profile of the reference *)
Theorem revisit_truthful o r ref rev : to_revisit o r ref = Some rev ->
  exists head d,
    protocol_header (r_block r) = Some head /\ new_digest uni_lower uni_upper (o_alg o) (o_enc o) = Some d /\
    r_block rev = mkblk BRevisit [] head /\ r_type rev = 32 /\
    m_get n_content_length (r_fields rev) = itoa (Z.of_nat (length head)) /\
    m_get n_block_digest (r_fields rev) = format H (feed d head) /\
    m_get n_warc_type (r_fields rev) = s_revisit /\
    m_get n_profile (r_fields rev) = rf_profile ref.
Proof.
  unfold Revisit.to_revisit. intros HH.
  destruct (match profile_of (rf_profile ref) with PIdentical => _ | PNotModified => _ | PUnknownProfile => _ end) as [h1|]; [|discriminate].
  destruct (protocol_header (r_block r)) as [head|]; [|discriminate].
  destruct (new_digest uni_lower uni_upper (o_alg o) (o_enc o)) as [d|]; [|discriminate].
  inversion HH; subst; clear HH. exists head, d. cbn [r_block r_type r_fields].
  split; [reflexivity|]. split; [reflexivity|]. split; [reflexivity|]. split; [reflexivity|].
  split; [apply get_set_same|].
  split; [gso; apply get_set_same|].
  split.
  - gso. rewrite !get_set_if_other by (first [in_names|discriminate]).
    destruct (rf_id ref); [|rewrite get_set_id_other by (first [in_names|discriminate])]; gso; apply get_set_same.
  - gso. rewrite !get_set_if_other by (first [in_names|discriminate]).
    destruct (rf_id ref); [|rewrite get_set_id_other by (first [in_names|discriminate])]; apply get_set_same.
Qed.

(** merging a revisit with the record it was derived from: the original block, its type in both
    places, and the original's Content-Length *)
Theorem merge_restores o orig ref rev c m :
  to_revisit o orig ref = Some rev -> merge rev orig c = Some m ->
  raw_bytes (r_block m) = raw_bytes (r_block orig) /\
  r_type m = r_type orig /\
  m_get n_warc_type (r_fields m) = type_name (r_type orig) /\
  exists reflen, atoi (m_get n_content_length (r_fields orig)) = Some reflen /\
                 m_get n_content_length (r_fields m) = itoa reflen.
Proof.
  intros HR HM. destruct (revisit_truthful _ _ _ _ HR) as (head & d & HP & _ & HB & HT & _).
  unfold Revisit.merge in HM. rewrite HT, HB in HM. cbn [bk bb] in HM.
  destruct (bytes_eqb _ [49]); [discriminate|]. cbn [negb N.eqb Pos.eqb] in HM.
  unfold protocol_header in HP.
  destruct (bk (r_block orig)) eqn:EK; try discriminate;
    (destruct (m_has n_content_length (r_fields orig)); [|discriminate]);
    (destruct (atoi (m_get n_content_length (r_fields orig))) as [reflen|] eqn:EA; [|discriminate]);
    inversion HP; subst head; inversion HM; subst m; clear HM; cbn [r_block r_type r_fields bk bh bb raw_bytes];
    (split; [reflexivity|]); (split; [reflexivity|]);
    (split; [destruct c; gso; (destruct (m_has n_truncated (r_fields orig)); gso; apply get_set_same)|]);
    exists reflen; (split; [reflexivity|]);
    destruct c; gso; rewrite get_set_same; f_equal; lia.
Qed.

End Proofs.
