(** No temporary file or descriptor outlives Close (C15), on the ownership model. *)
Require Import Model.Bytes Model.Resources.
From Coq Require Import Arith Lia.
Local Open Scope nat_scope.

Lemma release_self r : release r [r] = [].
Proof. destruct r; cbn; rewrite Nat.eqb_refl; reflexivity. Qed.

Theorem builder_no_leak thr n id : close_all (builder_fill thr n id) = [].
Proof. unfold close_all, builder_fill. destruct (spilled thr n); cbn; rewrite ?Nat.eqb_refl; reflexivity. Qed.

Theorem unmarshal_no_leak thr n id fault : close_all (unmarshal_res thr n id fault) = [].
Proof. unfold close_all, unmarshal_res. destruct (spilled thr _); cbn; rewrite ?Nat.eqb_refl; reflexivity. Qed.

Theorem reader_no_leak id seek_fails : close_all (reader_open id seek_fails) = [].
Proof. unfold close_all, reader_open. destruct seek_fails; cbn; rewrite ?Nat.eqb_refl; reflexivity. Qed.

(* a buffer owns a temp file exactly from the moment its memory part is full (tie to Spill.v) *)
Require Import Model.Spill Proofs.SpillProofs.
Theorem spill_file_iff_memory_full ops max : 1 <= max ->
  let b := b_exec (new_buf max) ops in file b <> None -> length (mem b) = mmax b.
Proof.
  intros H b. destruct (spill_invariant ops (new_buf max) (inv_new max H)) as (_ & H2 & _). exact H2.
Qed.
