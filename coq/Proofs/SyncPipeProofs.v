(** SyncPipeProofs.v — C08, third sentence, for the whole parser pipeline under uniform levels. *)
Require Import Model.Bytes Model.FieldDef Model.Fields Model.Policy Model.Validate Model.Spill
               Model.Stream Model.HeaderParse Model.Digest Model.Record.
Require Import Proofs.NormalizeProofs Proofs.ValidateProofs Proofs.RecordProofs Proofs.PolicyProofs Proofs.SyncProofs.
From Coq Require Import Lia Bool.
Local Open Scope N_scope.

Lemma emit_le {A} p es : forall fs (k : list finding -> res A),
  (forall f, le f (findings_of (k f))) -> le fs (findings_of (emit p es fs k)).
Proof.
  induction es as [|e t IH]; intros fs k Hk; cbn [emit]; [apply Hk|].
  apply site_le. intros f. apply IH. exact Hk.
Qed.

Lemma emit_insync {A} es fs (kw kf : list finding -> res A) :
  (forall f, le f (findings_of (kw f))) -> (forall f, insync (kw f) (kf f) f) ->
  insync (emit Warn es fs kw) (emit Fail es fs kf) fs.
Proof.
  intros Hle Hk. rewrite emit_warn, emit_fail. destruct es as [|e t].
  - rewrite app_nil_r. apply Hk.
  - right. split; [|eexists; reflexivity]. eapply le_grew2; [apply (le_app fs (e :: t))| |apply Hle].
    intros E. rewrite <- (app_nil_r fs) in E at 2. apply app_inv_head in E. discriminate.
Qed.

Section Pipe.
Variable tbl : list fielddef.
Variable req : list bytes.
Variable uni_lower uni_upper : bytes -> bytes.
Variables time_ok ip_ok uri_ok wid_ok : bytes -> bool.
Variable mime_dec : bytes -> option bytes.
Variable H : alg -> bytes -> bytes.
Variables b32_decode b64_decode : bytes -> option bytes.
Variables http_req_ok http_resp_ok : bytes -> bool.
Notation validate_header := (validate_header tbl req uni_lower time_ok ip_ok uri_ok wid_ok).
Notation canonical := (canonical tbl uni_lower).
Notation body := (body tbl req uni_lower time_ok ip_ok uri_ok wid_ok).

Lemma validate_header_le ps pu vid hs fs : canonical hs ->
  le fs (findings_of (validate_header ps pu vid hs fs)).
Proof.
  intros HC. rewrite validate_header_unfold. unfold resolve_rt.
  assert (Hb : forall rt f, le f (findings_of (if policy_gt_ignore ps then body ps vid rt hs f else Ok (rt, hs) f))).
  { intros rt f. destruct (policy_gt_ignore ps) eqn:E; [|apply le_refl].
    rewrite body_emit by assumption. apply emit_le. intros ?; apply le_refl. }
  destruct (type_field uni_lower hs); [apply site_le; intros f1|];
    (destruct (_ =? 0); [apply site_le; intros f2; apply Hb|apply Hb]).
Qed.

Lemma validate_header_sync vid hs fs : canonical hs ->
  insync (validate_header Warn Warn vid hs fs) (validate_header Fail Fail vid hs fs) fs.
Proof.
  intros HC. rewrite !validate_header_unfold. unfold resolve_rt. cbn [policy_gt_ignore].
  assert (Hbl : forall rt f, le f (findings_of (body Warn vid rt hs f))).
  { intros rt f. rewrite body_emit by (try assumption; reflexivity). apply emit_le. intros ?; apply le_refl. }
  assert (Hb : forall rt f, insync (body Warn vid rt hs f) (body Fail vid rt hs f) f).
  { intros rt f. rewrite !body_emit by (try assumption; reflexivity).
    apply emit_insync; [intros ?; apply le_refl|intros ?; apply insync_same; reflexivity]. }
  assert (Hk1l : forall f, le f (findings_of (if string_to_rt (lower uni_lower (type_field uni_lower hs)) =? 0
                    then site Warn (KUnknownType, type_field uni_lower hs) f (fun f0 => body Warn vid (string_to_rt (lower uni_lower (type_field uni_lower hs))) hs f0)
                    else body Warn vid (string_to_rt (lower uni_lower (type_field uni_lower hs))) hs f))).
  { intros f. destruct (_ =? 0); [apply site_le; intros ?; apply Hbl|apply Hbl]. }
  destruct (type_field uni_lower hs) eqn:Et.
  - apply site_insync. intros f. apply Hk1l.
  - destruct (_ =? 0); [apply site_insync; intros ?; apply Hbl|apply Hb].
Qed.

(** all four policy axes at one level *)
Definition uni (o : opts) (p : policy) : opts :=
  mkopts p p p p (o_skip_parse o) (o_add_id o) (o_add_cl o) (o_add_digest o)
         (o_fix_cl o) (o_fix_digest o) (o_fix_syntax o) (o_fix_wfblock o) (o_alg o) (o_enc o).

Notation parse_block := (parse_block tbl uni_lower uni_upper mime_dec http_req_ok http_resp_ok).
Notation parse_fields := (parse_fields tbl uni_lower mime_dec).

Lemma parse_block_le o rt hs content fnd : le fnd (findings_of (parse_block o rt hs content fnd)).
Proof.
  unfold Record.parse_block.
  destruct (digest_from_field _ _ _ _ _ n_block_digest) as [bd|]; [|apply le_refl].
  destruct (digest_from_field _ _ _ _ _ n_payload_digest) as [pd|]; [|apply le_refl].
  cbv zeta.
  destruct (o_skip_parse o); [apply le_refl|].
  destruct (negb (N.land rt 206 =? 0) && _).
  - destruct (length content <? 4)%nat; [apply le_refl|].
    destruct (http_header content) as [hb found].
    assert (Hk1 : forall fnd1, le fnd1 (findings_of
      (if if has_prefix s_HTTP hb
          then http_resp_ok (if negb found && negb (o_fix_syntax o) then hb ++ CRLF else if negb found && o_fix_syntax o then hb ++ CRLF else hb)
          else http_req_ok (if negb found && negb (o_fix_syntax o) then hb ++ CRLF else if negb found && o_fix_syntax o then hb ++ CRLF else hb)
       then Ok (if negb found && o_fix_syntax o then m_set tbl uni_lower n_content_length (itoa (wrap64 (cl_value tbl uni_lower hs + 2))) hs else hs,
                mkblk (if has_prefix s_HTTP hb then BHttpResp else BHttpReq)
                      (if negb found && o_fix_syntax o then hb ++ CRLF else hb) (skipn (length hb) content),
                feed bd ((if negb found && o_fix_syntax o then hb ++ CRLF else hb) ++ skipn (length hb) content),
                Some (feed pd (skipn (length hb) content))) fnd1
       else site (o_block o) (KBlock, []) fnd1 (fun fnd2 =>
              Ok (if negb found && o_fix_syntax o then m_set tbl uni_lower n_content_length (itoa (wrap64 (cl_value tbl uni_lower hs + 2))) hs else hs,
                  mkblk (if has_prefix s_HTTP hb then BHttpResp else BHttpReq)
                        (if negb found && o_fix_syntax o then hb ++ CRLF else hb) (skipn (length hb) content),
                  feed bd ((if negb found && o_fix_syntax o then hb ++ CRLF else hb) ++ skipn (length hb) content),
                  Some (feed pd (skipn (length hb) content))) fnd2)))).
    { intros fnd1. destruct (if has_prefix s_HTTP hb then _ else _); [apply le_refl|apply site_le; intros ?; apply le_refl]. }
    destruct found; [apply Hk1|apply site_le; exact Hk1].
  - destruct (rt =? 32); [apply le_refl|].
    destruct (has_prefix s_app_warcfields _); [|apply le_refl].
    destruct (HeaderParse.parse_fields tbl uni_lower mime_dec (o_syntax o) (mkst content TEOF) []) as [[wf s'] bv|e bv]; cbn [findings_of].
    + destruct bv; [apply le_refl|]. destruct (o_block o); try apply le_refl. apply le_app.
    + destruct bv; [apply le_refl|]. destruct (o_block o); try apply le_refl. apply le_app.
Qed.

(** parseBlock with its continuations named *)
Definition http_done (o : opts) (hs : fields) (content : bytes) (bd pd : digest) (hb : bytes) (found : bool) (fnd2 : list finding)
  : res (fields * rblock * digest * option digest) :=
  let fixit := negb found && o_fix_syntax o in
  let hb' := if fixit then hb ++ CRLF else hb in
  Ok (if fixit then m_set tbl uni_lower n_content_length (itoa (wrap64 (cl_value tbl uni_lower hs + 2))) hs else hs,
      mkblk (if has_prefix s_HTTP hb then BHttpResp else BHttpReq) hb' (skipn (length hb) content),
      feed bd (hb' ++ skipn (length hb) content),
      Some (feed pd (skipn (length hb) content))) fnd2.
Definition http_okp (o : opts) (hb : bytes) (found : bool) : bool :=
  let hbp := if negb found && negb (o_fix_syntax o) then hb ++ CRLF else if negb found && o_fix_syntax o then hb ++ CRLF else hb in
  if has_prefix s_HTTP hb then http_resp_ok hbp else http_req_ok hbp.
Definition http_k1 (o : opts) (hs : fields) (content : bytes) (bd pd : digest) (hb : bytes) (found : bool) (fnd1 : list finding) :=
  if http_okp o hb found then http_done o hs content bd pd hb found fnd1
  else site (o_block o) (KBlock, []) fnd1 (http_done o hs content bd pd hb found).
Definition wf_k2 (o : opts) (hs : fields) (content : bytes) (bd : digest) (inner : res (fields * stream)) (fnd1 : list finding)
  : res (fields * rblock * digest * option digest) :=
  match inner with
  | Err e _ => Err e fnd1
  | Ok (wf, _) _ =>
      let content' := match findings_of inner with
                      | [] => content
                      | _ => if o_fix_wfblock o then m_write wf else content
                      end in
      Ok (hs, mkblk BWarcFields [] content', feed bd content', None) fnd1
  end.

Lemma parse_block_unfold o rt hs content fnd :
  parse_block o rt hs content fnd =
  match digest_from_field tbl uni_lower uni_upper o hs n_block_digest, digest_from_field tbl uni_lower uni_upper o hs n_payload_digest with
  | None, _ | _, None => Err (KOther, []) fnd
  | Some bd, Some pd =>
      let generic := Ok (hs, mkblk BGeneric [] content, feed bd content, if rt =? 4 then Some (feed pd content) else None) fnd in
      if o_skip_parse o then generic
      else if negb (N.land rt 206 =? 0) && has_prefix s_app_http (lower uni_lower (m_get tbl uni_lower n_content_type hs)) then
        if (length content <? 4)%nat then Err (KOther, []) fnd
        else let '(hb, found) := http_header content in
             if found then http_k1 o hs content bd pd hb found fnd
             else site (o_syntax o) (KSyntax, []) fnd (http_k1 o hs content bd pd hb found)
      else if rt =? 32 then Ok (hs, mkblk BRevisit [] content, feed bd content, None) fnd
      else if has_prefix s_app_warcfields (lower uni_lower (m_get tbl uni_lower n_content_type hs)) then
        let inner := parse_fields (o_syntax o) (mkst content TEOF) [] in
        match findings_of inner with
        | [] => wf_k2 o hs content bd inner fnd
        | bv => match o_block o with
                | Ignore => wf_k2 o hs content bd inner fnd
                | Warn => wf_k2 o hs content bd inner (fnd ++ map (fun _ => (KBlock, [])) bv)
                | Fail => Err (KBlock, []) fnd
                end
        end
      else generic
  end.
Proof.
  unfold Record.parse_block.
  destruct (digest_from_field _ _ _ _ _ n_block_digest) as [bd|]; [|reflexivity].
  destruct (digest_from_field _ _ _ _ _ n_payload_digest) as [pd|]; [|reflexivity].
  cbv zeta. destruct (o_skip_parse o); [reflexivity|].
  destruct (negb (N.land rt 206 =? 0) && _).
  - destruct (length content <? 4)%nat; [reflexivity|].
    destruct (http_header content) as [hb found]. reflexivity.
  - destruct (rt =? 32); [reflexivity|]. destruct (has_prefix s_app_warcfields _); [|reflexivity].
    unfold wf_k2.
    destruct (HeaderParse.parse_fields tbl uni_lower mime_dec (o_syntax o) (mkst content TEOF) []) as [[wf s'] bv|e bv];
      cbn [findings_of]; destruct bv; reflexivity.
Qed.

Lemma digest_from_field_uni o p hs n :
  digest_from_field tbl uni_lower uni_upper (uni o p) hs n = digest_from_field tbl uni_lower uni_upper o hs n.
Proof. reflexivity. Qed.

Lemma http_done_uni o p hs content bd pd hb found f :
  http_done (uni o p) hs content bd pd hb found f = http_done o hs content bd pd hb found f.
Proof. reflexivity. Qed.

Lemma http_k1_sync o hs content bd pd hb found fnd1 :
  insync (http_k1 (uni o Warn) hs content bd pd hb found fnd1) (http_k1 (uni o Fail) hs content bd pd hb found fnd1) fnd1.
Proof.
  unfold http_k1. change (http_okp (uni o Warn) hb found) with (http_okp o hb found).
  change (http_okp (uni o Fail) hb found) with (http_okp o hb found).
  destruct (http_okp o hb found).
  - rewrite !http_done_uni. apply insync_same. reflexivity.
  - cbn [o_block uni]. apply site_insync. intros f. rewrite http_done_uni. apply le_refl.
Qed.

Lemma http_k1_le o hs content bd pd hb found fnd1 : le fnd1 (findings_of (http_k1 o hs content bd pd hb found fnd1)).
Proof. unfold http_k1. destruct (http_okp o hb found); [apply le_refl|apply site_le; intros ?; apply le_refl]. Qed.

Theorem parse_block_sync o rt hs content fnd :
  insync (parse_block (uni o Warn) rt hs content fnd) (parse_block (uni o Fail) rt hs content fnd) fnd.
Proof.
  rewrite !parse_block_unfold, !digest_from_field_uni.
  destruct (digest_from_field tbl uni_lower uni_upper o hs n_block_digest) as [bd|]; [|apply insync_same; reflexivity].
  destruct (digest_from_field tbl uni_lower uni_upper o hs n_payload_digest) as [pd|]; [|apply insync_same; reflexivity].
  cbv zeta. cbn [o_skip_parse o_syntax o_block uni].
  destruct (o_skip_parse o); [apply insync_same; reflexivity|].
  destruct (negb (N.land rt 206 =? 0) && _).
  - destruct (length content <? 4)%nat; [apply insync_same; reflexivity|].
    destruct (http_header content) as [hb found].
    destruct found; [apply http_k1_sync|]. apply site_insync. intros f. apply http_k1_le.
  - destruct (rt =? 32); [apply insync_same; reflexivity|].
    destruct (has_prefix s_app_warcfields _); [|apply insync_same; reflexivity].
    (* the warc-fields block is parsed by the header parser under the same syntax policy *)
    pose proof (parse_loop_sync tbl uni_lower mime_dec (S (S (length content))) [] (mkst content TEOF) []) as Hin.
    unfold HeaderParse.parse_fields. cbn [sdata].
    destruct Hin as [[Hf Heq]|[Hne [e Heq]]]; rewrite Heq.
    + rewrite Hf. unfold wf_k2.
      destruct (HeaderParse.parse_loop tbl uni_lower mime_dec (S (S (length content))) Warn [] (mkst content TEOF) []) as [[wf s'] bv|e bv];
        cbn [findings_of] in *; subst; apply insync_same; reflexivity.
    + cbn [findings_of wf_k2]. right. split; [|eexists; reflexivity].
      destruct (HeaderParse.parse_loop tbl uni_lower mime_dec (S (S (length content))) Warn [] (mkst content TEOF) []) as [[wf s'] bv|e' bv];
        cbn [findings_of] in *; (destruct bv as [|b0 bt]; [contradiction Hne; reflexivity|]);
        unfold wf_k2; cbn [findings_of map]; intros E; rewrite <- (app_nil_r fnd) in E at 2; apply app_inv_head in E; discriminate.
Qed.

Notation check_digest := (check_digest tbl uni_lower H b32_decode b64_decode).
Notation validate_digest := (validate_digest tbl uni_lower H b32_decode b64_decode).

Lemma check_digest_le o field d cached hs fnd k :
  (forall hs' d' f, le f (findings_of (k hs' d' f))) -> le fnd (findings_of (check_digest o field d cached hs fnd k)).
Proof.
  intros Hk. unfold Record.check_digest. destruct (d_hash d).
  - destruct (_ && _); apply Hk.
  - destruct (_ && _); [|apply Hk]. destruct (o_spec o); [apply Hk| |apply le_refl].
    destruct (o_fix_digest o); (eapply le_trans; [apply le_app|apply Hk]).
Qed.

Lemma check_digest_sync o field d cached hs fnd kw kf :
  (forall hs' d' f, le f (findings_of (kw hs' d' f))) ->
  (forall hs' d' f, insync (kw hs' d' f) (kf hs' d' f) f) ->
  insync (check_digest (uni o Warn) field d cached hs fnd kw) (check_digest (uni o Fail) field d cached hs fnd kf) fnd.
Proof.
  intros Hle Hk. unfold Record.check_digest. cbn [o_spec o_add_digest o_fix_digest uni policy_gt_ignore].
  destruct (d_hash d).
  - destruct (_ && _); apply Hk.
  - cbn [andb]. destruct (negb _); [|apply Hk].
    right. split; [|eexists; reflexivity].
    destruct (o_fix_digest o); (eapply le_grew; [reflexivity|apply Hle]).
Qed.

Lemma validate_digest_le o rt hs b bd pd cached fnd : le fnd (findings_of (validate_digest o rt hs b bd pd cached fnd)).
Proof.
  unfold Record.validate_digest. cbv zeta.
  assert (Hk1 : forall hs1 fnd1, le fnd1 (findings_of
    (check_digest o n_block_digest bd cached hs1 fnd1 (fun hs2 bd2 fnd2 =>
      if (rt =? 32) || m_has tbl uni_lower n_segment_number hs2 then Ok hs2 fnd2
      else match match bk b with
                 | BGeneric => if rt =? 4 then pd else None
                 | BHttpReq | BHttpResp => pd
                 | _ => None
                 end with
           | None => Ok hs2 fnd2
           | Some p => check_digest o n_payload_digest p cached hs2 fnd2 (fun hs3 _ fnd3 => Ok hs3 fnd3)
           end)))).
  { intros hs1 fnd1. apply check_digest_le. intros hs2 bd2 fnd2.
    destruct (_ || _); [apply le_refl|].
    destruct (match bk b with BGeneric => _ | _ => _ end); [|apply le_refl].
    apply check_digest_le. intros ? ? ?; apply le_refl. }
  destruct (_ && _ && _); [|apply Hk1].
  destruct (o_spec o); [apply Hk1| |apply le_refl]. eapply le_trans; [apply le_app|apply Hk1].
Qed.

Theorem validate_digest_sync o rt hs b bd pd cached fnd :
  insync (validate_digest (uni o Warn) rt hs b bd pd cached fnd) (validate_digest (uni o Fail) rt hs b bd pd cached fnd) fnd.
Proof.
  unfold Record.validate_digest. cbv zeta. cbn [o_spec o_fix_cl uni policy_gt_ignore andb].
  set (kin := fun (oo : opts) (hs2 : fields) (bd2 : digest) (fnd2 : list finding) =>
      if (rt =? 32) || m_has tbl uni_lower n_segment_number hs2 then Ok hs2 fnd2
      else match match bk b with
                 | BGeneric => if rt =? 4 then pd else None
                 | BHttpReq | BHttpResp => pd
                 | _ => None
                 end with
           | None => Ok hs2 fnd2
           | Some p => check_digest oo n_payload_digest p cached hs2 fnd2 (fun hs3 _ fnd3 => Ok hs3 fnd3)
           end).
  assert (Hkin_le : forall oo hs2 bd2 f, le f (findings_of (kin oo hs2 bd2 f))).
  { intros oo hs2 bd2 f. unfold kin. destruct (_ || _); [apply le_refl|].
    destruct (match bk b with BGeneric => _ | _ => _ end); [|apply le_refl].
    apply check_digest_le. intros ? ? ?; apply le_refl. }
  assert (Hkin : forall hs2 bd2 f, insync (kin (uni o Warn) hs2 bd2 f) (kin (uni o Fail) hs2 bd2 f) f).
  { intros hs2 bd2 f. unfold kin. destruct (_ || _); [apply insync_same; reflexivity|].
    destruct (match bk b with BGeneric => _ | _ => _ end); [|apply insync_same; reflexivity].
    apply check_digest_sync; [intros ? ? ?; apply le_refl|intros ? ? ?; apply insync_same; reflexivity]. }
  assert (Hk1 : forall hs1 f, insync (check_digest (uni o Warn) n_block_digest bd cached hs1 f (kin (uni o Warn)))
                                     (check_digest (uni o Fail) n_block_digest bd cached hs1 f (kin (uni o Fail))) f).
  { intros hs1 f. apply check_digest_sync; [apply Hkin_le|apply Hkin]. }
  destruct (m_has tbl uni_lower n_content_length hs && negb _).
  - right. split; [|eexists; reflexivity].
    eapply le_grew; [reflexivity|]. apply check_digest_le. apply Hkin_le.
  - apply Hk1.
Qed.

Lemma trailer_le o s fnd : le fnd (findings_of (trailer o s fnd)).
Proof.
  unfold trailer. destruct (peek 4 s) as [buf e]. destruct (bytes_eqb buf CRLFCRLF); [apply le_refl|].
  apply site_le. intros ?; apply le_refl.
Qed.

Lemma trailer_sync o s fnd : insync (trailer (uni o Warn) s fnd) (trailer (uni o Fail) s fnd) fnd.
Proof.
  unfold trailer. destruct (peek 4 s) as [buf e]. destruct (bytes_eqb buf CRLFCRLF); [apply insync_same; reflexivity|].
  cbn [o_spec uni]. apply site_insync. intros ?; apply le_refl.
Qed.

(** * composition at the level of Unmarshal's result *)
Definition uerr (u : uresult) : bool :=
  match u with UNone _ _ => true | URec _ (Some _) _ _ => true | URec _ None _ _ => false end.
Definition usync (uw uf : uresult) (fnd : list finding) : Prop :=
  (ufindings uw = fnd /\ uf = uw) \/ (ufindings uw <> fnd /\ uerr uf = true /\ ufindings uf = fnd).
Lemma usync_same u fnd : ufindings u = fnd -> usync u u fnd.
Proof. intros E. left. split; [exact E|reflexivity]. Qed.

Definition ubind {A} (r : res A) (g : A -> list finding -> uresult) (e : finding -> list finding -> uresult) : uresult :=
  match r with Ok a f => g a f | Err x f => e x f end.
(* an error handler: it reports the error with the findings so far *)
Definition handler (e : finding -> list finding -> uresult) : Prop :=
  forall x f, ufindings (e x f) = f /\ uerr (e x f) = true.

Lemma ubind_le {A} (r : res A) g e fnd :
  le fnd (findings_of r) -> (forall a f, le f (ufindings (g a f))) -> handler e ->
  le fnd (ufindings (ubind r g e)).
Proof.
  intros Hr Hg He. destruct r as [a f|x f]; cbn [ubind findings_of] in *.
  - eapply le_trans; [exact Hr|apply Hg].
  - destruct (He x f) as [-> _]. exact Hr.
Qed.

Lemma ubind_sync {A} (rw rf : res A) gw gf e fnd :
  insync rw rf fnd -> le fnd (findings_of rw) ->
  (forall a f, le f (ufindings (gw a f))) -> (forall a f, usync (gw a f) (gf a f) f) -> handler e ->
  usync (ubind rw gw e) (ubind rf gf e) fnd.
Proof.
  intros Hs Hle Hgl Hg He. destruct Hs as [[Hf ->]|[Hne [x ->]]].
  - destruct rw as [a f|x f]; cbn [ubind findings_of] in *; subst.
    + apply Hg.
    + apply usync_same. apply He.
  - right. cbn [ubind]. destruct (He x fnd) as [E1 E2]. split; [|split; assumption].
    destruct rw as [a f|y f]; cbn [ubind findings_of] in *.
    + eapply le_grew2; [exact Hle|exact Hne|apply Hgl].
    + destruct (He y f) as [-> _]. exact Hne.
Qed.

Definition stage_trailer (o : opts) (vt : bytes) (vid rt : N) (blk : rblock) (s3 : stream) (hs3 : fields) (f6 : list finding) : uresult :=
  ubind (trailer o s3 f6) (fun s4 f7 => URec (mkrec vt vid rt hs3 blk) None f7 s4)
        (fun e7 f7 => URec (mkrec vt vid rt hs3 blk) (Some e7) f7 s3).
Definition stage_digest (o : opts) (vt : bytes) (vid rt : N) (s3 : stream) (x : fields * rblock * digest * option digest) (f5 : list finding) : uresult :=
  let '(hs2, blk, bd, pd) := x in
  ubind (validate_digest o rt hs2 blk bd pd (match bk blk with BWarcFields | BRevisit => true | _ => false end) f5)
        (stage_trailer o vt vid rt blk s3)
        (fun e6 f6 => URec (mkrec vt vid rt hs2 blk) (Some e6) f6 s3).
Definition stage_pblock (o : opts) (vt : bytes) (vid rt : N) (hs1 : fields) (content : bytes) (s3 : stream) (f4 : list finding) : uresult :=
  ubind (parse_block o rt hs1 content f4) (stage_digest o vt vid rt s3)
        (fun e5 f5 => URec (mkrec vt vid rt hs1 (mkblk BGeneric [] content)) (Some e5) f5 s3).

Lemma stage_trailer_le o vt vid rt blk s3 hs3 f6 : le f6 (ufindings (stage_trailer o vt vid rt blk s3 hs3 f6)).
Proof. unfold stage_trailer. apply ubind_le; [apply trailer_le|intros ? ?; apply le_refl|intros ? ?; split; reflexivity]. Qed.
Lemma stage_trailer_sync o vt vid rt blk s3 hs3 f6 :
  usync (stage_trailer (uni o Warn) vt vid rt blk s3 hs3 f6) (stage_trailer (uni o Fail) vt vid rt blk s3 hs3 f6) f6.
Proof.
  unfold stage_trailer. apply ubind_sync; [apply trailer_sync|apply trailer_le|intros ? ?; apply le_refl| |intros ? ?; split; reflexivity].
  intros a f. apply usync_same. reflexivity.
Qed.
Lemma stage_digest_le o vt vid rt s3 x f5 : le f5 (ufindings (stage_digest o vt vid rt s3 x f5)).
Proof.
  destruct x as [[[hs2 blk] bd] pd]. unfold stage_digest.
  apply ubind_le; [apply validate_digest_le|intros ? ?; apply stage_trailer_le|intros ? ?; split; reflexivity].
Qed.
Lemma stage_digest_sync o vt vid rt s3 x f5 :
  usync (stage_digest (uni o Warn) vt vid rt s3 x f5) (stage_digest (uni o Fail) vt vid rt s3 x f5) f5.
Proof.
  destruct x as [[[hs2 blk] bd] pd]. unfold stage_digest.
  apply ubind_sync; [apply validate_digest_sync|apply validate_digest_le|intros ? ?; apply stage_trailer_le
                    |intros ? ?; apply stage_trailer_sync|intros ? ?; split; reflexivity].
Qed.
Lemma stage_pblock_le o vt vid rt hs1 content s3 f4 : le f4 (ufindings (stage_pblock o vt vid rt hs1 content s3 f4)).
Proof.
  unfold stage_pblock. apply ubind_le; [apply parse_block_le|intros ? ?; apply stage_digest_le|intros ? ?; split; reflexivity].
Qed.
Lemma stage_pblock_sync o vt vid rt hs1 content s3 f4 :
  usync (stage_pblock (uni o Warn) vt vid rt hs1 content s3 f4) (stage_pblock (uni o Fail) vt vid rt hs1 content s3 f4) f4.
Proof.
  unfold stage_pblock. apply ubind_sync; [apply parse_block_sync|apply parse_block_le|intros ? ?; apply stage_digest_le
                                        |intros ? ?; apply stage_digest_sync|intros ? ?; split; reflexivity].
Qed.

(** the header parser returns canonical names *)
Hypothesis Htbl : table_ok tbl = true.
Definition okcanon (r : res (fields * stream)) : Prop :=
  match r with Ok (fs, _) _ => canonical fs | Err _ _ => True end.
Lemma site_okcanon p e fnd k : (forall f, okcanon (k f)) -> okcanon (site p e fnd k).
Proof. intros Hk. destruct p; cbn; auto. Qed.

Lemma parse_line_canonical line fs fs' : canonical fs -> parse_line tbl uni_lower mime_dec line fs = Some fs' -> canonical fs'.
Proof.
  intros HC. unfold HeaderParse.parse_line. destruct (decode_header mime_dec _) as [l|]; [|discriminate].
  destruct (index_byte COLON l); [|discriminate]. intros HH; inversion HH; subst. unfold m_add.
  intros f Hin. apply in_app_or in Hin as [Hin|[<-|[]]]; [apply HC; exact Hin|].
  cbn [fst]. apply (NormalizeProofs.normalize_idem tbl Htbl).
Qed.

Lemma finish_body_canon p f eoh nc2 s2 fsx fnd3 :
  (forall fs s fnd, canonical fs -> okcanon (HeaderParse.parse_loop tbl uni_lower mime_dec f p fs s fnd)) ->
  canonical fsx -> okcanon (finish_body tbl uni_lower mime_dec p f eoh nc2 s2 fsx fnd3).
Proof.
  intros IH HC. unfold finish_body. destruct eoh; [exact HC|].
  destruct (nc2 =? CR).
  - destruct (read_bytes LF s2) as [[l e2] s3]. destruct e2; [exact I|]. destruct (_ =? _)%nat; [exact HC|exact I].
  - destruct (nc2 =? LF); [|apply IH; exact HC].
    destruct (read_bytes LF s2) as [[l e2] s3]. destruct e2; [exact I|]. destruct (_ <? _)%nat; [exact I|exact HC].
Qed.

Lemma parse_loop_canon p : forall fuel fs s fnd, canonical fs ->
  okcanon (HeaderParse.parse_loop tbl uni_lower mime_dec fuel p fs s fnd).
Proof.
  induction fuel as [|f IH]; intros fs s fnd HC; [exact I|]. rewrite parse_loop_unfold.
  destruct (read_line p s) as [[[line nc] e] s1].
  assert (Hafter : forall eoh fnd1, okcanon (after_body tbl uni_lower mime_dec p f fs line nc s1 eoh fnd1)).
  { intros eoh fnd1. unfold after_body.
    destruct (cont_loop f p line nc s1 fnd1) as [[[line2 nc2] s2] fnd2|k fnd2]; [|exact I].
    destruct (HeaderParse.parse_line tbl uni_lower mime_dec line2 fs) as [fs'|] eqn:Ep.
    - apply finish_body_canon; [exact IH|eapply parse_line_canonical; eauto].
    - apply site_okcanon. intros ?. apply finish_body_canon; [exact IH|exact HC]. }
  destruct e.
  - apply Hafter.
  - destruct line; [exact HC|apply site_okcanon; intros ?; apply Hafter].
  - exact I.
  - apply site_okcanon; intros ?; apply Hafter.
Qed.

Lemma parse_fields_canonical p s fnd fs s' fnd' :
  parse_fields p s fnd = Ok (fs, s') fnd' -> canonical fs.
Proof.
  intros Hp. pose proof (parse_loop_canon p (S (S (length (sdata s)))) [] s fnd (fun f (Hf : In f []) => match Hf with end)) as Hc.
  unfold HeaderParse.parse_fields in Hp. rewrite Hp in Hc. exact Hc.
Qed.

Notation stage_block := (stage_block tbl uni_lower uni_upper mime_dec H b32_decode b64_decode http_req_ok http_resp_ok).
Notation stage_fields := (stage_fields tbl req uni_lower uni_upper time_ok ip_ok uri_ok wid_ok mime_dec H b32_decode b64_decode http_req_ok http_resp_ok).
Notation stage_ver := (stage_ver tbl req uni_lower uni_upper time_ok ip_ok uri_ok wid_ok mime_dec H b32_decode b64_decode http_req_ok http_resp_ok).
Notation parse_record := (parse_record tbl req uni_lower uni_upper time_ok ip_ok uri_ok wid_ok mime_dec H b32_decode b64_decode http_req_ok http_resp_ok).
Notation unmarshal_plain := (unmarshal_plain tbl req uni_lower uni_upper time_ok ip_ok uri_ok wid_ok mime_dec H b32_decode b64_decode http_req_ok http_resp_ok).

Lemma stage_block_pblock o vt vid rt hs1 s2 fnd4 :
  stage_block o vt vid rt hs1 s2 fnd4 =
  let len := cl_value tbl uni_lower hs1 in
  let avail := sdata s2 in
  let content := if (len <? 0)%Z || (Z.of_nat (length avail) <=? len)%Z then avail else firstn (Z.to_nat len) avail in
  let s3 := mkst (skipn (length content) avail) (stail s2) in
  let short := (len <? 0)%Z || (Z.of_nat (length avail) <? len)%Z in
  match stail s2, short with
  | TErr, true => URec (mkrec vt vid rt hs1 (mkblk BGeneric [] [])) (Some (KRead, [])) fnd4 s3
  | _, _ => stage_pblock o vt vid rt hs1 content s3 fnd4
  end.
Proof.
  unfold PolicyProofs.stage_block, stage_pblock, stage_digest, stage_trailer, ubind. cbv zeta.
  destruct (stail s2); [|destruct (_ || _)%bool; [reflexivity|]];
    (destruct (Record.parse_block _ _ _ _ _ _ _ _ _ _ _) as [[[[hs2 blk] bd] pd] f5|e5 f5]; [|reflexivity];
     destruct (Record.validate_digest _ _ _ _ _ _ _ _ _ _ _ _ _) as [hs3 f6|e6 f6]; [|reflexivity];
     destruct (trailer o _ f6); reflexivity).
Qed.

Lemma stage_block_le o vt vid rt hs1 s2 fnd4 : le fnd4 (ufindings (stage_block o vt vid rt hs1 s2 fnd4)).
Proof.
  rewrite stage_block_pblock. cbv zeta. destruct (stail s2); [apply stage_pblock_le|].
  destruct (_ || _)%bool; [apply le_refl|apply stage_pblock_le].
Qed.
Lemma stage_block_sync o vt vid rt hs1 s2 fnd4 :
  usync (stage_block (uni o Warn) vt vid rt hs1 s2 fnd4) (stage_block (uni o Fail) vt vid rt hs1 s2 fnd4) fnd4.
Proof.
  rewrite !stage_block_pblock. cbv zeta. destruct (stail s2); [apply stage_pblock_sync|].
  destruct (_ || _)%bool; [apply usync_same; reflexivity|apply stage_pblock_sync].
Qed.

Lemma stage_fields_le o vt vid s1 fnd2 : le fnd2 (ufindings (stage_fields o vt vid s1 fnd2)).
Proof.
  unfold PolicyProofs.stage_fields.
  pose proof (parse_loop_le tbl uni_lower mime_dec (o_syntax o) (S (S (length (sdata s1)))) [] s1 fnd2) as Hp.
  destruct (HeaderParse.parse_fields tbl uni_lower mime_dec (o_syntax o) s1 fnd2) as [[hs s2] fnd3|e2 fnd3] eqn:Ep;
    unfold HeaderParse.parse_fields in Ep; rewrite Ep in Hp; cbn [findings_of ufindings] in *; [|exact Hp].
  assert (HC : canonical hs) by (eapply parse_fields_canonical; unfold HeaderParse.parse_fields; exact Ep).
  pose proof (validate_header_le (o_spec o) (o_unknown o) vid hs fnd3 HC) as Hv.
  destruct (Validate.validate_header _ _ _ _ _ _ _ _ _ _ _ _) as [[rt hs1] fnd4|e3 fnd4]; cbn [findings_of ufindings] in *.
  - eapply le_trans; [exact Hp|]. eapply le_trans; [exact Hv|apply stage_block_le].
  - eapply le_trans; [exact Hp|exact Hv].
Qed.

Lemma stage_fields_sync o vt vid s1 fnd2 :
  usync (stage_fields (uni o Warn) vt vid s1 fnd2) (stage_fields (uni o Fail) vt vid s1 fnd2) fnd2.
Proof.
  unfold PolicyProofs.stage_fields. cbn [o_syntax o_spec o_unknown uni].
  change (match HeaderParse.parse_fields tbl uni_lower mime_dec Warn s1 fnd2 with
          | Ok (hs, s2) fnd3 => match validate_header Warn Warn vid hs fnd3 with
                                | Ok (rt, hs1) fnd4 => stage_block (uni o Warn) vt vid rt hs1 s2 fnd4
                                | Err e3 fnd4 => UNone e3 fnd4 end
          | Err e2 fnd3 => UNone e2 fnd3 end)
    with (ubind (HeaderParse.parse_fields tbl uni_lower mime_dec Warn s1 fnd2)
                (fun x fnd3 => let '(hs, s2) := x in
                   ubind (validate_header Warn Warn vid hs fnd3) (fun y fnd4 => let '(rt, hs1) := y in stage_block (uni o Warn) vt vid rt hs1 s2 fnd4) UNone)
                UNone).
  change (match HeaderParse.parse_fields tbl uni_lower mime_dec Fail s1 fnd2 with
          | Ok (hs, s2) fnd3 => match validate_header Fail Fail vid hs fnd3 with
                                | Ok (rt, hs1) fnd4 => stage_block (uni o Fail) vt vid rt hs1 s2 fnd4
                                | Err e3 fnd4 => UNone e3 fnd4 end
          | Err e2 fnd3 => UNone e2 fnd3 end)
    with (ubind (HeaderParse.parse_fields tbl uni_lower mime_dec Fail s1 fnd2)
                (fun x fnd3 => let '(hs, s2) := x in
                   ubind (validate_header Fail Fail vid hs fnd3) (fun y fnd4 => let '(rt, hs1) := y in stage_block (uni o Fail) vt vid rt hs1 s2 fnd4) UNone)
                UNone).
  assert (Hh : handler UNone) by (intros ? ?; split; reflexivity).
  destruct (parse_loop_sync tbl uni_lower mime_dec (S (S (length (sdata s1)))) [] s1 fnd2) as [[Hf Heq]|[Hne [e Heq]]];
    unfold HeaderParse.parse_fields; rewrite Heq.
  - destruct (HeaderParse.parse_loop tbl uni_lower mime_dec (S (S (length (sdata s1)))) Warn [] s1 fnd2) as [[hs s2] fnd3|e2 fnd3] eqn:Ep;
      cbn [findings_of ubind] in *; subst; [|apply usync_same; reflexivity].
    assert (HC : canonical hs) by (eapply (parse_fields_canonical Warn s1 fnd2); unfold HeaderParse.parse_fields; exact Ep).
    apply ubind_sync; [apply validate_header_sync; exact HC|apply validate_header_le; exact HC| | |exact Hh].
    + intros [rt hs1] f. apply stage_block_le.
    + intros [rt hs1] f. apply stage_block_sync.
  - right. cbn [ubind ufindings uerr]. split; [|split; reflexivity].
    pose proof (parse_loop_le tbl uni_lower mime_dec Warn (S (S (length (sdata s1)))) [] s1 fnd2) as Hp.
    destruct (HeaderParse.parse_loop tbl uni_lower mime_dec (S (S (length (sdata s1)))) Warn [] s1 fnd2) as [[hs s2] fnd3|e2 fnd3] eqn:Ep;
      cbn [findings_of ubind ufindings] in *; [|exact Hne].
    assert (HC : canonical hs) by (eapply (parse_fields_canonical Warn s1 fnd2); unfold HeaderParse.parse_fields; exact Ep).
    eapply le_grew2; [exact Hp|exact Hne|].
    apply ubind_le; [apply validate_header_le; exact HC|intros [rt hs1] f; apply stage_block_le|exact Hh].
Qed.

Lemma stage_ver_le o l s1 fnd1 : le fnd1 (ufindings (stage_ver o l s1 fnd1)).
Proof.
  unfold PolicyProofs.stage_ver. cbv zeta. destruct (_ =? 0); [|apply stage_fields_le].
  destruct (o_spec o); [apply stage_fields_le| |apply le_refl].
  eapply le_trans; [apply le_app|apply stage_fields_le].
Qed.
Lemma stage_ver_sync o l s1 fnd1 :
  usync (stage_ver (uni o Warn) l s1 fnd1) (stage_ver (uni o Fail) l s1 fnd1) fnd1.
Proof.
  unfold PolicyProofs.stage_ver. cbv zeta. cbn [o_spec uni]. destruct (_ =? 0); [|apply stage_fields_sync].
  right. cbn [uerr ufindings]. split; [|split; reflexivity].
  eapply le_grew; [reflexivity|apply stage_fields_le].
Qed.

Lemma parse_record_le o s fnd : le fnd (ufindings (parse_record o s fnd)).
Proof.
  rewrite parse_record_stages. destruct (read_bytes LF (discard 5 s)) as [[l e] s1].
  destruct e as [[|]|]; [apply le_refl|apply le_refl|].
  destruct (_ || _)%bool; [|apply stage_ver_le].
  destruct (o_syntax o); [apply stage_ver_le| |apply le_refl]. eapply le_trans; [apply le_app|apply stage_ver_le].
Qed.
Theorem parse_record_sync o s fnd :
  usync (parse_record (uni o Warn) s fnd) (parse_record (uni o Fail) s fnd) fnd.
Proof.
  rewrite !parse_record_stages. destruct (read_bytes LF (discard 5 s)) as [[l e] s1].
  destruct e as [[|]|]; [apply usync_same; reflexivity|apply usync_same; reflexivity|].
  cbn [o_syntax uni]. destruct (_ || _)%bool; [|apply stage_ver_sync].
  right. cbn [uerr ufindings]. split; [|split; reflexivity].
  eapply le_grew; [reflexivity|apply stage_ver_le].
Qed.

(* the search for the record start: under fail nothing is skipped *)
Ltac split_magic :=
  repeat match goal with
         | |- context [match ?x with _ => _ end] =>
             match type of x with
             | bytes => destruct x
             | list N => destruct x
             | list byte => destruct x
             | N => destruct x
             | byte => destruct x
             | positive => destruct x
             end
         end.

Lemma find_start_mono p : forall fuel s off,
  let '(_, off', _) := find_start fuel p s off in (off <= off')%nat.
Proof.
  induction fuel as [|f IH]; intros s off; cbn [find_start];
    destruct (peek 5 s) as [magic e]; destruct e; try lia;
    destruct (bytes_eqb magic s_WARC); try lia.
  - split_magic; destruct p; lia.
  - split_magic; destruct p; try lia.
    all: specialize (IH (discard 1 s) (S off)); destruct (find_start f _ (discard 1 s) (S off)) as [[? ?] ?]; lia.
Qed.

Lemma find_start_warn_fail f s off :
  let '(fw, offw, sw) := find_start (S f) Warn s off in
  let '(ff, offf, sf) := find_start (S f) Fail s off in
  (offw = off /\ fw = ff /\ sw = sf /\ offf = off) \/ (offw <> off /\ ff = FoundJunkFail /\ offf = off).
Proof.
  cbn [find_start]. destruct (peek 5 s) as [magic e]. destruct e; [left; repeat split; reflexivity|].
  destruct (bytes_eqb magic s_WARC); [left; repeat split; reflexivity|].
  pose proof (find_start_mono Warn f (discard 1 s) (S off)) as Hm.
  destruct (find_start f Warn (discard 1 s) (S off)) as [[fw offw] sw].
  split_magic; first [left; repeat split; reflexivity | right; repeat split; try reflexivity; lia].
Qed.

Lemma iff_from_usync uw uf : usync uw uf [] ->
  (uerr uf = true <-> (ufindings uw <> [] \/ uerr uw = true)).
Proof.
  intros [[Hfn ->]|(Hnf & He & _)].
  - split; [intros Hx; right; exact Hx|intros [Hx|Hx]; [contradiction|exact Hx]].
  - split; [intros _; left; exact Hnf|intros _; exact He].
Qed.

(** * C08, third sentence, for Unmarshal as a whole *)
Theorem unmarshal_fail_errs_iff_warn_finds_or_errs o s :
  uerr (snd (unmarshal_plain (uni o Fail) s)) = true <->
  (ufindings (snd (unmarshal_plain (uni o Warn) s)) <> [] \/ uerr (snd (unmarshal_plain (uni o Warn) s)) = true).
Proof.
  unfold Record.unmarshal_plain. cbn [o_syntax uni policy_gt_ignore andb].
  pose proof (find_start_warn_fail (length (sdata s)) s 0%nat) as Hf.
  destruct (find_start (S (length (sdata s))) Warn s 0) as [[fw offw] sw].
  destruct (find_start (S (length (sdata s))) Fail s 0) as [[ff offf] sf].
  destruct Hf as [(-> & <- & <- & ->)|(Hne & -> & ->)].
  - cbn [Nat.eqb negb]. destruct fw as [| |[|]|]; cbn [snd uerr ufindings]; try (split; [intros _; right; reflexivity|reflexivity]).
    apply iff_from_usync. apply parse_record_sync.
  - assert (E : (offw =? 0)%nat = false) by (apply Nat.eqb_neq; exact Hne). rewrite E. cbn [negb snd uerr].
    split; [intros _|reflexivity].
    destruct fw as [| |[|]|]; cbn [snd ufindings uerr]; try (right; reflexivity); try (left; discriminate).
    left. pose proof (parse_record_le (uni o Warn) sw [(KOffset, [])]) as [r Hr]. rewrite Hr. discriminate.
Qed.

(** * the builder *)
Definition rbind {A B} (r : res A) (g : A -> list finding -> res B) : res B :=
  match r with Ok a f => g a f | Err x f => Err x f end.
Lemma rbind_le {A B} (r : res A) (g : A -> list finding -> res B) fnd :
  le fnd (findings_of r) -> (forall a f, le f (findings_of (g a f))) -> le fnd (findings_of (rbind r g)).
Proof.
  intros Hr Hg. destruct r as [a f|x f]; cbn [rbind findings_of] in *; [eapply le_trans; [exact Hr|apply Hg]|exact Hr].
Qed.
Lemma rbind_sync {A B} (rw rf : res A) (gw gf : A -> list finding -> res B) fnd :
  insync rw rf fnd -> le fnd (findings_of rw) ->
  (forall a f, le f (findings_of (gw a f))) -> (forall a f, insync (gw a f) (gf a f) f) ->
  insync (rbind rw gw) (rbind rf gf) fnd.
Proof.
  intros Hs Hle Hgl Hg. destruct Hs as [[Hf ->]|[Hne [x ->]]].
  - destruct rw as [a f|x f]; cbn [rbind findings_of] in *; subst; [apply Hg|apply insync_same; reflexivity].
  - right. cbn [rbind]. split; [|eexists; reflexivity].
    destruct rw as [a f|y f]; cbn [rbind findings_of] in *; [|exact Hne].
    eapply le_grew2; [exact Hle|exact Hne|apply Hgl].
Qed.

Notation build := (build tbl req uni_lower uni_upper time_ok ip_ok uri_ok wid_ok mime_dec H b32_decode b64_decode http_req_ok http_resp_ok).

Lemma canonical_set_gen n v hs : canonical hs -> canonical (m_set tbl uni_lower n v hs).
Proof.
  intros HC. rewrite FieldsProofs.m_set_spec. unfold Fields.key.
  destruct (FieldsProofs.set_one_value_at_first_position (normalize_name tbl uni_lower n) v hs) as (_ & HD & _).
  intros f Hin.
  destruct (name_is (normalize_name tbl uni_lower n) f) eqn:En.
  - apply FieldsProofs.name_is_eq in En. rewrite En. apply (NormalizeProofs.normalize_idem tbl Htbl).
  - apply HC.
    assert (Hf : In f (s_delete (normalize_name tbl uni_lower n) (s_set (normalize_name tbl uni_lower n) v hs))).
    { unfold s_delete. apply filter_In. split; [exact Hin|]. rewrite En. reflexivity. }
    rewrite HD in Hf. unfold s_delete in Hf. apply filter_In in Hf. tauto.
Qed.

Theorem build_fail_errs_iff_warn_finds_or_errs o vid rt0 hs content new_id : canonical hs ->
  is_ok (fst (build (uni o Fail) vid rt0 hs content new_id)) = false <->
  (findings_of (fst (build (uni o Warn) vid rt0 hs content new_id)) <> [] \/
   is_ok (fst (build (uni o Warn) vid rt0 hs content new_id)) = false).
Proof.
  intros HC.
  assert (Hshape : forall oo, fst (build oo vid rt0 hs content new_id) =
    let hs1 := if o_add_id oo && negb (m_has tbl uni_lower n_record_id hs)
               then match id_value new_id with Some v => m_set tbl uni_lower n_record_id v hs | None => hs end else hs in
    let hs2 := if o_add_cl oo && negb (m_has tbl uni_lower n_content_length hs1)
               then m_set tbl uni_lower n_content_length (itoa (Z.of_nat (length content))) hs1 else hs1 in
    rbind (validate_header (o_spec oo) (o_unknown oo) vid hs2 []) (fun x fnd => let '(rt, hs3) := x in
      rbind (parse_block oo (if rt0 =? 0 then rt else rt0) hs3 content fnd) (fun y fnd1 => let '(hs4, blk, bd, pd) := y in
        rbind (validate_digest oo (if rt0 =? 0 then rt else rt0) hs4 blk bd pd true fnd1) (fun hs5 fnd2 =>
          Ok (mkrec (if vid =? 1 then [49;46;48] else [49;46;49]) vid (if rt0 =? 0 then rt else rt0) hs5 blk) fnd2)))).
  { intros oo. unfold Record.build, rbind. cbv zeta.
    destruct (Validate.validate_header _ _ _ _ _ _ _ _ _ _ _ _) as [[rt hs3] fnd|e fnd]; [|reflexivity].
    destruct (Record.parse_block _ _ _ _ _ _ _ _ _ _ _) as [[[[hs4 blk] bd] pd] fnd1|e fnd1]; [|reflexivity].
    destruct (Record.validate_digest _ _ _ _ _ _ _ _ _ _ _ _ _) as [hs5 fnd2|e fnd2]; reflexivity. }
  rewrite !Hshape. cbv zeta. cbn [o_add_id o_add_cl o_spec o_unknown uni].
  set (hs1 := if o_add_id o && negb (m_has tbl uni_lower n_record_id hs)
              then match id_value new_id with Some v => m_set tbl uni_lower n_record_id v hs | None => hs end else hs).
  set (hs2 := if o_add_cl o && negb (m_has tbl uni_lower n_content_length hs1)
              then m_set tbl uni_lower n_content_length (itoa (Z.of_nat (length content))) hs1 else hs1).
  assert (HC2 : canonical hs2).
  { unfold hs2, hs1. destruct (o_add_cl o && _); [apply canonical_set_gen|];
      (destruct (o_add_id o && _); [destruct (id_value new_id); [apply canonical_set_gen|]|]; exact HC). }
  assert (Hs : insync
    (rbind (validate_header Warn Warn vid hs2 []) (fun x fnd => let '(rt, hs3) := x in
      rbind (parse_block (uni o Warn) (if rt0 =? 0 then rt else rt0) hs3 content fnd) (fun y fnd1 => let '(hs4, blk, bd, pd) := y in
        rbind (validate_digest (uni o Warn) (if rt0 =? 0 then rt else rt0) hs4 blk bd pd true fnd1) (fun hs5 fnd2 =>
          Ok (mkrec (if vid =? 1 then [49;46;48] else [49;46;49]) vid (if rt0 =? 0 then rt else rt0) hs5 blk) fnd2))))
    (rbind (validate_header Fail Fail vid hs2 []) (fun x fnd => let '(rt, hs3) := x in
      rbind (parse_block (uni o Fail) (if rt0 =? 0 then rt else rt0) hs3 content fnd) (fun y fnd1 => let '(hs4, blk, bd, pd) := y in
        rbind (validate_digest (uni o Fail) (if rt0 =? 0 then rt else rt0) hs4 blk bd pd true fnd1) (fun hs5 fnd2 =>
          Ok (mkrec (if vid =? 1 then [49;46;48] else [49;46;49]) vid (if rt0 =? 0 then rt else rt0) hs5 blk) fnd2)))) []).
  { apply rbind_sync; [apply validate_header_sync; exact HC2|apply validate_header_le; exact HC2| |].
    - intros [rt hs3] f. apply rbind_le; [apply parse_block_le|]. intros [[[hs4 blk] bd] pd] f1.
      apply rbind_le; [apply validate_digest_le|intros ? ?; apply le_refl].
    - intros [rt hs3] f. apply rbind_sync; [apply parse_block_sync|apply parse_block_le| |].
      + intros [[[hs4 blk] bd] pd] f1. apply rbind_le; [apply validate_digest_le|intros ? ?; apply le_refl].
      + intros [[[hs4 blk] bd] pd] f1. apply rbind_sync; [apply validate_digest_sync|apply validate_digest_le| |].
        * intros ? ?; apply le_refl.
        * intros ? ?; apply insync_same; reflexivity. }
  destruct Hs as [[Hf ->]|[Hne [e ->]]].
  - split; [intros Hx; right; exact Hx|intros [Hx|Hx]; [contradiction|exact Hx]].
  - split; [intros _; left; exact Hne|reflexivity].
Qed.

End Pipe.
