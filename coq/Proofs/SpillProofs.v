(** The spill buffer refines a plain in-memory buffer (C14). *)
Require Import Model.Bytes Model.Spill.
From Coq Require Import Arith Lia.
Local Open Scope nat_scope.

Definition Inv (b : sbuf) : Prop :=
  length (mem b) <= mmax b /\ (file b <> None -> length (mem b) = mmax b) /\ 1 <= mmax b.

Definition absb (b : sbuf) : pbuf := mkp (mem b ++ fbytes b) (off b).

Lemma size_abs b : size b = length (mem b ++ fbytes b).
Proof. unfold size. rewrite app_length. reflexivity. Qed.

Lemma fbytes_none b : file b = None -> fbytes b = [].
Proof. unfold fbytes. intros ->. reflexivity. Qed.

Lemma inv_space_no_file b : Inv b -> length (mem b) < mmax b -> file b = None.
Proof.
  intros (H1 & H2 & H3) Hs. destruct (file b) eqn:E; [|reflexivity].
  assert (length (mem b) = mmax b) by (apply H2; discriminate). lia.
Qed.

(** ** reads *)
Lemma part_read_spec m o k : o < length m ->
  part_read m o k = (firstn k (skipn o m), length (firstn k (skipn o m)) <? k).
Proof.
  intros H. unfold part_read.
  destruct (length m =? 0) eqn:E1; [apply Nat.eqb_eq in E1; lia|].
  destruct (length m <=? o) eqn:E2; [apply Nat.leb_le in E2; lia|]. reflexivity.
Qed.

Lemma part_read_end m o k : length m <= o -> part_read m o k = ([], negb (k =? 0)).
Proof.
  intros H. unfold part_read. destruct (length m =? 0); [reflexivity|].
  destruct (length m <=? o) eqn:E2; [reflexivity|]. apply Nat.leb_gt in E2. lia.
Qed.

Lemma read_at_spec b o k : Inv b -> read_at b o k = p_read_at (mem b ++ fbytes b) o k.
Proof.
  intros HI. unfold read_at, p_read_at. rewrite size_abs.
  destruct (length (mem b ++ fbytes b) <=? o) eqn:E0; [reflexivity|].
  apply Nat.leb_gt in E0. rewrite app_length in E0.
  destruct (Nat.lt_ge_cases o (length (mem b))) as [Hlt|Hge].
  - (* the read starts in the memory part *)
    rewrite (part_read_spec _ _ _ Hlt).
    set (o1 := firstn k (skipn o (mem b))).
    assert (Hsk : skipn o (mem b ++ fbytes b) = skipn o (mem b) ++ fbytes b).
    { rewrite skipn_app. replace (o - length (mem b)) with 0 by lia. reflexivity. }
    rewrite Hsk, firstn_app. fold o1.
    assert (Hl1 : length o1 = Nat.min k (length (mem b) - o)).
    { unfold o1. rewrite firstn_length, skipn_length. reflexivity. }
    destruct (length o1 <? k) eqn:E1; cbn [andb].
    + apply Nat.ltb_lt in E1.
      assert (Hk : length (skipn o (mem b)) = length o1).
      { rewrite skipn_length. lia. }
      rewrite Hk.
      destruct (file b) as [fb|] eqn:EF; cbn [is_some].
      * unfold fbytes. rewrite EF. cbn [file_read].
        replace (o + length o1 - length (mem b)) with 0 by lia.
        destruct fb as [|c fb'].
        -- rewrite part_read_end by (cbn; lia). rewrite firstn_nil, app_nil_r.
           f_equal. destruct (k - length o1 =? 0) eqn:E3; [apply Nat.eqb_eq in E3; lia|].
           symmetry. apply Nat.ltb_lt. exact E1.
        -- rewrite part_read_spec by (cbn; lia). cbn [skipn]. f_equal.
           rewrite app_length.
           destruct (length (firstn (k - length o1) (c :: fb')) <? k - length o1) eqn:E4.
           ++ apply Nat.ltb_lt in E4. symmetry. apply Nat.ltb_lt. lia.
           ++ apply Nat.ltb_ge in E4. symmetry. apply Nat.ltb_ge. lia.
      * unfold fbytes. rewrite EF. rewrite firstn_nil, app_nil_r. f_equal.
        symmetry. apply Nat.ltb_lt. exact E1.
    + apply Nat.ltb_ge in E1.
      assert (Hk : length o1 = k) by (unfold o1 in *; rewrite firstn_length in *; lia).
      assert (Hz : firstn (k - length (skipn o (mem b))) (fbytes b) = []).
      { replace (k - length (skipn o (mem b))) with 0; [reflexivity|]. rewrite skipn_length. lia. }
      rewrite Hz, app_nil_r. f_equal. symmetry. apply Nat.ltb_ge. lia.
  - (* the read starts in the file part *)
    rewrite (part_read_end _ _ _ Hge). cbn [length].
    assert (Hsk : skipn o (mem b ++ fbytes b) = skipn (o - length (mem b)) (fbytes b)).
    { rewrite skipn_app, skipn_all2 by exact Hge. reflexivity. }
    rewrite Hsk.
    destruct (k =? 0) eqn:Ek; cbn [negb andb].
    + apply Nat.eqb_eq in Ek. subst k. reflexivity.
    + apply Nat.eqb_neq in Ek.
      replace (0 <? k) with true by (symmetry; apply Nat.ltb_lt; lia). cbn [andb].
      destruct (file b) as [fb|] eqn:EF; cbn [is_some].
      * unfold fbytes in *. rewrite EF in *. cbn [file_read].
        rewrite Nat.add_0_r, Nat.sub_0_r. rewrite part_read_spec by lia. reflexivity.
      * unfold fbytes in E0. rewrite EF in E0. cbn in E0. lia.
Qed.

Ltac fin :=
  unfold Inv; repeat split; cbn [mem file off mmax];
  rewrite ?app_length, ?firstn_length; try lia; try (intros; congruence); try (intros; lia).

(** ** writes *)
Lemma b_write_spec b d : Inv b ->
  let '(b', r) := b_write b d in
  r = (length d, ENil) /\ mem b' ++ fbytes b' = (mem b ++ fbytes b) ++ d /\ off b' = off b /\
  mmax b' = mmax b /\ Inv b'.
Proof.
  intros HI. pose proof HI as (H1 & H2 & H3). unfold b_write.
  destruct (length (mem b) <? mmax b) eqn:E.
  - apply Nat.ltb_lt in E. pose proof (inv_space_no_file _ HI E) as HF.
    set (n := Nat.min (length d) (mmax b - length (mem b))).
    destruct (length (mem b ++ firstn n d) <? mmax b) eqn:E2.
    + apply Nat.ltb_lt in E2. rewrite app_length, firstn_length in E2.
      assert (Hn : n = length d) by (unfold n in *; lia).
      cbn [mem file off mmax fbytes]. rewrite Hn, firstn_all, (fbytes_none _ HF), HF, !app_nil_r.
      fin.
    + apply Nat.ltb_ge in E2. rewrite app_length, firstn_length in E2.
      cbn [mem file off mmax]. unfold fbytes at 1. cbn [file].
      rewrite (fbytes_none _ HF), app_nil_r, <- app_assoc, firstn_skipn.
      unfold n in *; fin.
  - apply Nat.ltb_ge in E. cbn [mem file off mmax]. unfold fbytes at 1. cbn [file].
    unfold ensure_file, fbytes. rewrite app_assoc.
    destruct (file b); fin.
Qed.

Lemma b_readfrom_spec b d ewd serr : Inv b ->
  let '(b', r) := b_readfrom b d ewd serr in
  r = (length d, if serr then EOther else ENil) /\
  mem b' ++ fbytes b' = (mem b ++ fbytes b) ++ d /\ off b' = off b /\ mmax b' = mmax b /\ Inv b'.
Proof.
  intros HI. pose proof HI as (H1 & H2 & H3). unfold b_readfrom.
  destruct (length (mem b) <? mmax b) eqn:E.
  - apply Nat.ltb_lt in E. pose proof (inv_space_no_file _ HI E) as HF.
    set (space := mmax b - length (mem b)).
    destruct (length d <? space) eqn:E2.
    + apply Nat.ltb_lt in E2. cbn [mem file off mmax fbytes].
      rewrite (fbytes_none _ HF), HF, !app_nil_r.
      unfold space in *; fin.
    + apply Nat.ltb_ge in E2.
      destruct ((length d =? space) && ewd && negb (length d =? 0)) eqn:E3.
      * apply andb_true_iff in E3 as [E3 _]. apply andb_true_iff in E3 as [E3 _].
        apply Nat.eqb_eq in E3. cbn [mem file off mmax fbytes].
        rewrite (fbytes_none _ HF), HF, !app_nil_r.
        unfold space in *; fin.
      * cbn [mem file off mmax]. unfold fbytes at 1. cbn [file].
        rewrite (fbytes_none _ HF), app_nil_r, <- app_assoc, firstn_skipn.
        unfold space in *; fin.
  - apply Nat.ltb_ge in E. cbn [mem file off mmax]. unfold fbytes at 1. cbn [file].
    unfold ensure_file, fbytes. rewrite app_assoc.
    destruct (file b); fin.
Qed.

Ltac pfin :=
  unfold fbytes in *; cbn [file mem off mmax];
  repeat match goal with H : file _ = _ |- _ => rewrite H in * end;
  rewrite ?app_nil_r;
  f_equal; rewrite ?app_length, ?skipn_length; try reflexivity; try lia.

(** ** line reads *)
Lemma take_through_app d a : forall b,
  take_through d (a ++ b) =
  match take_through d a with
  | Some l => Some l
  | None => match take_through d b with Some l => Some (a ++ l) | None => None end
  end.
Proof.
  induction a as [|c t IH]; intros b; cbn.
  - destruct (take_through d b); reflexivity.
  - destruct (N.eqb c d); [reflexivity|]. rewrite IH.
    destruct (take_through d t); [reflexivity|]. destruct (take_through d b); reflexivity.
Qed.

Lemma b_readbytes_spec b d : Inv b ->
  let '(b', r) := b_readbytes b d in
  let '(p', o) := p_step (absb b) (BReadBytes d) in
  o = OData (fst r) (snd r) /\ absb b' = p' /\ mmax b' = mmax b /\ Inv b'.
Proof.
  intros HI. pose proof HI as (H1 & H2 & H3). unfold b_readbytes, p_step, absb. cbn [content poff].
  rewrite size_abs.
  destruct (length (mem b ++ fbytes b) <=? off b) eqn:E0.
  - apply Nat.leb_le in E0. rewrite skipn_all2 by exact E0. cbn. repeat split; assumption.
  - apply Nat.leb_gt in E0.
    assert (Hne : skipn (off b) (mem b ++ fbytes b) <> []).
    { intros HH. apply (f_equal (@length _)) in HH. rewrite skipn_length in HH. cbn in HH. lia. }
    destruct (skipn (off b) (mem b ++ fbytes b)) as [|r0 rest0] eqn:ER; [congruence|]. rewrite <- ER. clear Hne.
    rewrite app_length in E0.
    destruct (off b <? length (mem b)) eqn:E1.
    + apply Nat.ltb_lt in E1.
      assert (Hsk : skipn (off b) (mem b ++ fbytes b) = skipn (off b) (mem b) ++ fbytes b).
      { rewrite skipn_app. replace (off b - length (mem b)) with 0 by lia. reflexivity. }
      rewrite Hsk, take_through_app.
      destruct (take_through d (skipn (off b) (mem b))) as [l|] eqn:ET.
      * cbn [negb andb fst snd mem file mmax off]. repeat split; assumption.
      * destruct (length (mem b) <? mmax b) eqn:E2; cbn [negb andb].
        -- apply Nat.ltb_lt in E2. pose proof (inv_space_no_file _ HI E2) as HF.
           rewrite (fbytes_none _ HF). cbn [take_through fst snd mem file mmax off].
           repeat split; try assumption; pfin.
        -- apply Nat.ltb_ge in E2. rewrite Nat.sub_diag. cbn [skipn].
           destruct (take_through d (fbytes b)) as [l|] eqn:ET2;
             cbn [fst snd mem file mmax off]; repeat split; try assumption; pfin.
    + apply Nat.ltb_ge in E1. cbn [negb andb app].
      assert (Hsk : skipn (off b) (mem b ++ fbytes b) = skipn (off b - length (mem b)) (fbytes b)).
      { rewrite skipn_app, skipn_all2 by exact E1. reflexivity. }
      rewrite Hsk.
      destruct (take_through d (skipn (off b - length (mem b)) (fbytes b))) as [l|] eqn:ET2;
        cbn [fst snd mem file mmax off]; repeat split; assumption.
Qed.

(** ** slice views *)
Lemma v_step_spec b v o : Inv b -> v_step b v o = pv_step (mem b ++ fbytes b) v o.
Proof.
  intros HI. destruct o as [k|k|d| |]; cbn [v_step pv_step]; unfold v_read_at, p_view_read_at, v_rest, p_view_rest.
  - destruct (v_len v) as [L|]; [destruct (L <=? v_pos v)|]; rewrite ?read_at_spec by exact HI; reflexivity.
  - destruct (v_len v) as [L|]; [destruct (L <=? v_pos v)|]; rewrite ?read_at_spec by exact HI; reflexivity.
  - reflexivity.
  - reflexivity.
  - rewrite size_abs. reflexivity.
Qed.

Lemma v_run_spec b ops : Inv b -> forall v, v_run b v ops = pv_run (mem b ++ fbytes b) v ops.
Proof.
  intros HI. induction ops as [|o t IH]; intros v; cbn [v_run pv_run]; [reflexivity|].
  rewrite (v_step_spec _ _ _ HI). destruct (pv_step (mem b ++ fbytes b) v o) as [v' ob].
  rewrite IH. reflexivity.
Qed.

Ltac stepfin :=
  split; [reflexivity|]; split; [reflexivity|]; split; [first [reflexivity|assumption]|];
  first [assumption | (unfold Inv in *; cbn [mem file off mmax] in *; assumption)].

(** ** one step *)
Lemma b_step_spec b o : Inv b ->
  let '(b', ob) := b_step b o in
  let '(p', ob') := p_step (absb b) o in
  ob = ob' /\ absb b' = p' /\ mmax b' = mmax b /\ Inv b'.
Proof.
  intros HI. destruct o as [d|d ewd serr|k|k|d| | |o l sops]; cbn [b_step].
  - pose proof (b_write_spec b d HI) as H. destruct (b_write b d) as [b' [n e]].
    destruct H as (Hr & Hc & Ho & Hm & HI'). inversion Hr; subst.
    cbn [p_step absb content poff]. unfold absb. rewrite Hc, Ho. stepfin.
  - pose proof (b_readfrom_spec b d ewd serr HI) as H. destruct (b_readfrom b d ewd serr) as [b' [n e]].
    destruct H as (Hr & Hc & Ho & Hm & HI'). inversion Hr; subst.
    cbn [p_step absb content poff]. unfold absb. rewrite Hc, Ho. stepfin.
  - unfold b_read. rewrite (read_at_spec _ _ _ HI). cbn [p_step absb content poff].
    destruct (p_read_at (mem b ++ fbytes b) (off b) k) as [out e].
    unfold absb. cbn [mem file off mmax]. unfold fbytes. cbn [file]. stepfin.
  - unfold b_peek. rewrite (read_at_spec _ _ _ HI). cbn [p_step absb content poff].
    destruct (p_read_at (mem b ++ fbytes b) (off b) k) as [out e].
    stepfin.
  - pose proof (b_readbytes_spec b d HI) as H. destruct (b_readbytes b d) as [b' [out e]].
    cbn [fst snd] in H. destruct (p_step (absb b) (BReadBytes d)) as [p' ob'].
    destruct H as (-> & H). split; [reflexivity|exact H].
  - cbn [p_step absb content poff]. unfold absb. cbn [mem file off mmax]. unfold fbytes. cbn [file]. stepfin.
  - cbn [p_step absb content poff]. rewrite size_abs. stepfin.
  - cbn [p_step absb content poff]. rewrite (v_run_spec _ _ HI). stepfin.
Qed.

(** ** every history *)
Theorem spill_refines ops : forall b, Inv b -> b_run b ops = p_run (absb b) ops.
Proof.
  induction ops as [|o t IH]; intros b HI; cbn [b_run p_run]; [reflexivity|].
  pose proof (b_step_spec b o HI) as H.
  destruct (b_step b o) as [b' ob]. destruct (p_step (absb b) o) as [p' ob'].
  destruct H as (-> & <- & _ & HI'). rewrite (IH _ HI'). reflexivity.
Qed.

Lemma inv_new max : 1 <= max -> Inv (new_buf max).
Proof. intros H. unfold Inv, new_buf. cbn. repeat split; try lia. intros; congruence. Qed.

Corollary spill_refines_new max ops : 1 <= max ->
  b_run (new_buf max) ops = p_run (mkp [] 0) ops.
Proof. intros H. rewrite (spill_refines _ _ (inv_new _ H)). reflexivity. Qed.

(** the spill invariant holds in every reachable state: nothing is on disk while memory has room *)
Fixpoint b_exec (b : sbuf) (ops : list bop) : sbuf :=
  match ops with [] => b | o :: t => b_exec (fst (b_step b o)) t end.
Theorem spill_invariant ops : forall b, Inv b -> Inv (b_exec b ops).
Proof.
  induction ops as [|o t IH]; intros b HI; cbn [b_exec]; [exact HI|].
  apply IH. pose proof (b_step_spec b o HI) as H.
  destruct (b_step b o) as [b' ob]. destruct (p_step (absb b) o) as [p' ob'].
  cbn [fst]. apply H.
Qed.

(** ** the end-of-data convention of the specification is a legal io.Reader behaviour:
    no byte is lost or invented, EOF is never signalled before the last byte, and once the
    data is exhausted every further non-empty read signals EOF. *)
Lemma p_read_contract c o k :
  let '(out, eof) := p_read_at c o k in
  out = firstn k (skipn o c) /\
  (eof = true -> o + length out >= length c) /\
  (0 < k -> length c <= o -> out = [] /\ eof = true).
Proof.
  unfold p_read_at. destruct (length c <=? o) eqn:E.
  - apply Nat.leb_le in E. rewrite skipn_all2 by exact E. rewrite firstn_nil.
    repeat split; cbn; try lia. destruct k; [lia|reflexivity].
  - apply Nat.leb_gt in E. repeat split.
    + intros H. apply Nat.ltb_lt in H. rewrite firstn_length, skipn_length in *. lia.
    + lia.
    + lia.
Qed.
