(** CutHeaderProofs.v — C06: a cut inside the header section of a valid record is visible. *)
Require Import Model.Bytes Model.FieldDef Model.Fields Model.Policy Model.Validate Model.Spill
               Model.Stream Model.HeaderParse Model.Digest Model.Record.
Require Import Proofs.HeaderProofs Proofs.RecordProofs Proofs.RoundTripProofs Proofs.CutProofs.
From Coq Require Import Lia.
Local Open Scope N_scope.

Section CutHeader.
Variable tbl : list fielddef.
Variable req : list bytes.
Variable uni_lower uni_upper : bytes -> bytes.
Variables time_ok ip_ok uri_ok wid_ok : bytes -> bool.
Variable mime_dec : bytes -> option bytes.
Variable H : alg -> bytes -> bytes.
Variables b32_decode b64_decode : bytes -> option bytes.
Variables http_req_ok http_resp_ok : bytes -> bool.
Notation parse_record := (parse_record tbl req uni_lower uni_upper time_ok ip_ok uri_ok wid_ok mime_dec H b32_decode b64_decode http_req_ok http_resp_ok).
Notation parse_block := (parse_block tbl uni_lower uni_upper mime_dec http_req_ok http_resp_ok).
Notation validate_digest := (validate_digest tbl uni_lower H b32_decode b64_decode).
Notation validate_header := (validate_header tbl req uni_lower time_ok ip_ok uri_ok wid_ok).
Notation valid_record := (valid_record tbl req uni_lower uni_upper time_ok ip_ok uri_ok wid_ok mime_dec H b32_decode b64_decode http_req_ok http_resp_ok).

Theorem cut_in_header_is_visible o r bd pd x y :
  valid_record o r bd pd -> policy_gt_ignore (o_spec o) = true ->
  serialize (r_fields r) = x ++ y -> y <> [] ->
  ~ clean_and_silent (parse_record o (mkst (s_WARC ++ r_vtxt r ++ CRLF ++ x) TEOF) []).
Proof.
  intros [Hver Hwf Hne Hhdr Hlen Hblk Hdig] Hgt Hxy Hy.
  destruct r as [vt vid rt hs blk]. cbn [r_vtxt r_vid r_type r_fields r_block] in *.
  assert (Hv : vt = v10 \/ vt = v11) by (destruct Hver as [[? _]|[? _]]; auto).
  unfold Record.parse_record. cbv zeta.
  rewrite (version_line vt _ TEOF Hv).
  destruct (version_checks vt Hv) as [Hb Ht]. rewrite Hb, Ht.
  set (vidx := if bytes_eqb vt [49;46;48] then 1 else if bytes_eqb vt [49;46;49] then 2 else 0).
  assert (Hvid0 : (vidx =? 0) = false) by (unfold vidx; destruct Hv as [-> | ->]; reflexivity).
  rewrite Hvid0.
  intros (r' & s' & Hclean).
  destruct (HeaderParse.parse_fields tbl uni_lower mime_dec (o_syntax o) (mkst x TEOF) []) as [[fs' s2] fnd3|e2 fnd3] eqn:Ep;
    [|discriminate].
  (* the header parser succeeded on a header without an empty line: it has read everything *)
  assert (Hs2 : sdata s2 = []).
  { unfold HeaderParse.parse_fields in Ep.
    assert (Hm0 : moved x (sdata (mkst x TEOF))) by (left; reflexivity).
    destruct (parse_loop_blank tbl uni_lower mime_dec (o_syntax o) x _ _ _ _ _ _ _ Hm0 Ep) as [He|Hbl]; [exact He|].
    exfalso. exact (cut_header_has_no_blank tbl uni_lower hs x y Hwf Hxy Hy Hbl). }
  destruct (validate_header (o_spec o) (o_unknown o) vidx fs' fnd3) as [[rt1 hs1] fnd4|e3 fnd4]; [|discriminate].
  rewrite Hs2 in Hclean. cbn [length skipn] in Hclean.
  assert (Hfin : forall tl2,
    match parse_block o rt1 hs1 [] fnd4 with
    | Ok (hs2, b2, bd2, pd2) fnd5 =>
        match validate_digest o rt1 hs2 b2 bd2 pd2 (match bk b2 with BWarcFields | BRevisit => true | _ => false end) fnd5 with
        | Ok hs3 fnd6 =>
            match trailer o (mkst [] tl2) fnd6 with
            | Ok s4 fnd7 => URec (mkrec vt vidx rt1 hs3 b2) None fnd7 s4
            | Err e7 fnd7 => URec (mkrec vt vidx rt1 hs3 b2) (Some e7) fnd7 (mkst [] tl2)
            end
        | Err e6 fnd6 => URec (mkrec vt vidx rt1 hs2 b2) (Some e6) fnd6 (mkst [] tl2)
        end
    | Err e5 fnd5 => URec (mkrec vt vidx rt1 hs1 (mkblk BGeneric [] [])) (Some e5) fnd5 (mkst [] tl2)
    end = URec r' None [] s' -> False).
  { intros tl2 Htail.
    destruct (parse_block o rt1 hs1 [] fnd4) as [[[[hs2 b2] bd2] pd2] fnd5|e5 fnd5]; [|discriminate].
    destruct (validate_digest o rt1 hs2 b2 bd2 pd2 _ fnd5) as [hs3 fnd6|e6 fnd6]; [|discriminate].
    pose proof (trailer_incomplete o [] tl2 fnd6 ltac:(cbn; lia) Hgt) as Ht6.
    destruct (trailer o (mkst [] tl2) fnd6) as [s4 fnd7|e7 fnd7]; [|discriminate].
    inversion Htail; subst. destruct Ht6 as [e Ht6]. symmetry in Ht6. apply app_eq_nil in Ht6 as [_ Ht6]. discriminate. }
  destruct ((cl_value tbl uni_lower hs1 <? 0)%Z || (Z.of_nat 0 <=? cl_value tbl uni_lower hs1)%Z)%bool;
    [|destruct (Z.to_nat (cl_value tbl uni_lower hs1))]; cbn [firstn length skipn] in Hclean.
  all: destruct (stail s2); [exact (Hfin TEOF Hclean)|].
  all: destruct ((cl_value tbl uni_lower hs1 <? 0)%Z || (Z.of_nat 0 <? cl_value tbl uni_lower hs1)%Z)%bool; [discriminate|].
  all: exact (Hfin TErr Hclean).
Qed.

Notation unmarshal_plain := (unmarshal_plain tbl req uni_lower uni_upper time_ok ip_ok uri_ok wid_ok mime_dec H b32_decode b64_decode http_req_ok http_resp_ok).

Lemma cut_in_version_line o vt x y : vt = v10 \/ vt = v11 -> vt ++ CRLF = x ++ y -> y <> [] ->
  exists e, parse_record o (mkst (s_WARC ++ x) TEOF) [] = UNone e [].
Proof.
  intros Hv E Hy. unfold Record.parse_record. cbv zeta.
  assert (Hrb : read_bytes LF (discard 5 (mkst (s_WARC ++ x) TEOF)) = (x, Some TEOF, mkst [] TEOF)).
  { destruct Hv as [-> | ->]; unfold v10, v11, CRLF in E;
      destruct x as [|a [|b [|c [|d [|e x']]]]]; cbn in E; inversion E; subst; try reflexivity;
      match goal with Hn : [] = _ ++ y |- _ => symmetry in Hn; apply app_eq_nil in Hn as [_ Hn]; contradiction end. }
  rewrite Hrb. eexists; reflexivity.
Qed.

Lemma short_start o c : (length c < 5)%nat -> exists e, snd (unmarshal_plain o (mkst c TEOF)) = UNone e [].
Proof.
  intros Hl. unfold Record.unmarshal_plain. cbn [find_start]. unfold peek. cbn [sdata stail].
  rewrite firstn_all2 by lia. apply Nat.ltb_lt in Hl. rewrite Hl. cbn [snd]. eexists; reflexivity.
Qed.

Lemma find_start_warc fuel p Y tl off :
  find_start (S fuel) p (mkst (s_WARC ++ Y) tl) off = (FoundWarc, off, mkst (s_WARC ++ Y) tl).
Proof. reflexivity. Qed.

Lemma warc_start o c : unmarshal_plain o (mkst (s_WARC ++ c) TEOF) = (0%nat, parse_record o (mkst (s_WARC ++ c) TEOF) []).
Proof.
  unfold Record.unmarshal_plain. rewrite find_start_warc. cbn [Nat.eqb negb]. rewrite Bool.andb_false_r. reflexivity.
Qed.

(** every proper, non-empty prefix of a valid record is visible as such *)
Theorem every_cut_is_visible o r bd pd c y :
  valid_record o r bd pd -> policy_gt_ignore (o_spec o) = true ->
  marshal r = c ++ y -> y <> [] ->
  ~ clean_and_silent (snd (unmarshal_plain o (mkst c TEOF))).
Proof.
  intros Hvr Hgt E Hy (r' & s' & Hc).
  destruct (Nat.lt_ge_cases (length c) 5) as [Hs|Hl].
  { destruct (short_start o c Hs) as [e He]. rewrite He in Hc. discriminate. }
  pose proof Hvr as [Hver _ _ _ _ _ _].
  assert (Hv : r_vtxt r = v10 \/ r_vtxt r = v11) by (destruct Hver as [[? _]|[? _]]; auto).
  assert (Em : marshal r = s_WARC ++ (r_vtxt r ++ CRLF) ++ serialize (r_fields r) ++ (raw_bytes (r_block r) ++ CRLFCRLF)).
  { unfold marshal, serialize. rewrite <- !app_assoc. reflexivity. }
  rewrite Em in E.
  (* c starts with the magic bytes *)
  assert (H1 : exists c1, c = s_WARC ++ c1 /\
                 (r_vtxt r ++ CRLF) ++ serialize (r_fields r) ++ (raw_bytes (r_block r) ++ CRLFCRLF) = c1 ++ y).
  { apply app_eq_app in E as [l [[E1 E2]|[E1 E2]]].
    - assert (l = []).
      { apply (f_equal (@length byte)) in E1. rewrite app_length in E1. cbn [length s_WARC] in E1. destruct l; [reflexivity|cbn in E1; lia]. }
      subst l. rewrite app_nil_r in E1. cbn [app] in E2. exists []. rewrite app_nil_r. split; [symmetry; exact E1|symmetry; exact E2].
    - exists l. split; assumption. }
  destruct H1 as (c1 & -> & E1). rewrite warc_start in Hc. cbn [snd] in Hc.
  (* the version line *)
  assert (H2 : (exists l, l <> [] /\ r_vtxt r ++ CRLF = c1 ++ l) \/
               (exists c2, c1 = (r_vtxt r ++ CRLF) ++ c2 /\
                  serialize (r_fields r) ++ (raw_bytes (r_block r) ++ CRLFCRLF) = c2 ++ y)).
  { apply app_eq_app in E1 as [l [[Ea Eb]|[Ea Eb]]].
    - destruct l as [|b l'].
      + right. exists []. rewrite app_nil_r in *. cbn [app] in Eb. split; [symmetry; exact Ea|symmetry; exact Eb].
      + left. exists (b :: l'). split; [discriminate|exact Ea].
    - right. exists l. split; assumption. }
  destruct H2 as [(l & Hl0 & El)|(c2 & -> & E2)].
  { destruct (cut_in_version_line o _ _ _ Hv El Hl0) as [e He]. rewrite He in Hc. discriminate. }
  (* the header section *)
  assert (H3 : (exists l, l <> [] /\ serialize (r_fields r) = c2 ++ l) \/
               (exists c3, c2 = serialize (r_fields r) ++ c3 /\ raw_bytes (r_block r) ++ CRLFCRLF = c3 ++ y)).
  { apply app_eq_app in E2 as [l [[Ea Eb]|[Ea Eb]]].
    - destruct l as [|b l'].
      + right. exists []. rewrite app_nil_r in *. cbn [app] in Eb. split; [symmetry; exact Ea|symmetry; exact Eb].
      + left. exists (b :: l'). split; [discriminate|exact Ea].
    - right. exists l. split; assumption. }
  destruct H3 as [(l & Hl0 & El)|(c3 & -> & E3)].
  - apply (cut_in_header_is_visible o r bd pd c2 l Hvr Hgt El Hl0).
    exists r', s'. rewrite <- Hc. rewrite <- !app_assoc. reflexivity.
  - apply (cut_after_header_is_visible tbl req uni_lower uni_upper time_ok ip_ok uri_ok wid_ok mime_dec H b32_decode b64_decode
             http_req_ok http_resp_ok o r bd pd c3 y Hvr Hgt E3 Hy).
    exists r', s'. rewrite <- Hc. rewrite <- !app_assoc. reflexivity.
Qed.

End CutHeader.
