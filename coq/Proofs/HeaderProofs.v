(** Serialized header fields parse back to themselves with no finding (C19, C01). *)
Require Import Model.Bytes Model.FieldDef Model.Fields Model.Policy Model.Spill Model.Stream Model.HeaderParse.
Require Import Proofs.BytesProofs Proofs.TrimProofs.
From Coq Require Import Lia.
Local Open Scope N_scope.

Definition no_byte (c : byte) (x : bytes) : Prop := forallb (fun b => negb (b =? c)) x = true.

Lemma no_byte_app c a b : no_byte c (a ++ b) <-> no_byte c a /\ no_byte c b.
Proof. unfold no_byte. rewrite forallb_app, andb_true_iff. reflexivity. Qed.

Lemma take_through_no d a : forall b, no_byte d a -> take_through d (a ++ d :: b) = Some (a ++ [d]).
Proof.
  induction a as [|c t IH]; intros b H; cbn.
  - rewrite N.eqb_refl. reflexivity.
  - unfold no_byte in H. cbn in H. apply andb_true_iff in H as [H1 H2]. apply negb_true_iff in H1.
    rewrite H1, (IH b H2). reflexivity.
Qed.

Lemma index_byte_no c a : forall b, no_byte c a -> index_byte c (a ++ c :: b) = Some (length a).
Proof.
  induction a as [|x t IH]; intros b H; cbn.
  - rewrite N.eqb_refl. reflexivity.
  - unfold no_byte in H. cbn in H. apply andb_true_iff in H as [H1 H2]. apply negb_true_iff in H1.
    rewrite H1, (IH b H2). reflexivity.
Qed.

Lemma has_prefix_app_l a : forall sub b, has_prefix sub (a ++ b) = false -> has_prefix sub a = false.
Proof.
  induction a as [|c t IH]; intros [|s0 sr] b H; cbn in *; try reflexivity; try (destruct b; discriminate).
  destruct (s0 =? c); cbn in *; [apply (IH sr b); exact H|reflexivity].
Qed.

Lemma contains_app_l sub a : forall b, contains sub (a ++ b) = false -> contains sub a = false.
Proof.
  induction a as [|c t IH]; intros b H.
  - cbn [app] in H. cbn [contains]. rewrite orb_false_r.
    destruct b as [|y b']; cbn [contains] in H.
    + rewrite orb_false_r in H. exact H.
    + apply orb_false_iff in H as [H _]. apply (has_prefix_app_l [] sub (y :: b')). exact H.
  - cbn [app contains] in *. apply orb_false_iff in H as [H1 H2]. apply orb_false_iff. split.
    + apply (has_prefix_app_l (c :: t) sub b). exact H1.
    + apply (IH b). exact H2.
Qed.

Section Proofs.
Variable tbl : list fielddef.
Variable uni_lower : bytes -> bytes.
Variable mime_dec : bytes -> option bytes.
Notation normalize_name := (normalize_name tbl uni_lower).
Notation parse_line := (parse_line tbl uni_lower mime_dec).
Notation parse_loop := (parse_loop tbl uni_lower mime_dec).
Notation parse_fields := (parse_fields tbl uni_lower mime_dec).

(** a field as it can be written on one header line and read back unchanged *)
Record wf_field (f : field) : Prop := {
  wf_norm : normalize_name (fst f) = fst f;
  wf_ncolon : no_byte COLON (fst f);
  wf_nlf : no_byte LF (fst f);
  wf_vlf : no_byte LF (snd f);
  wf_nedge : edge_ok is_sphtcrlf (fst f) = true;
  wf_vedge : edge_ok is_sphtcrlf (snd f) = true;
  wf_noenc : contains enc_marker (fst f ++ [58; 32] ++ snd f) = false
}.

Definition line_of (n v : bytes) : bytes := n ++ 58 :: match v with [] => [] | _ => 32 :: v end.

Lemma head_not_blank n : edge_ok is_sphtcrlf n = true ->
  forall more, is_sphtcrlf (hd 0 (n ++ 58 :: more)) = false.
Proof. intros H more. destruct n as [|c t]; [reflexivity|]. cbn. apply (edge_ok_head _ _ _ H). Qed.

Lemma line_trim n v : edge_ok is_sphtcrlf n = true -> edge_ok is_sphtcrlf v = true ->
  trim is_sphtcrlf (n ++ [58; 32] ++ v ++ [13; 10]) = line_of n v.
Proof.
  intros Hn Hv. unfold trim.
  assert (HL : trim_left is_sphtcrlf (n ++ [58; 32] ++ v ++ [13; 10]) = n ++ [58; 32] ++ v ++ [13; 10]).
  { destruct n as [|c t]; [reflexivity|]. cbn [app]. apply trim_left_keep. apply (edge_ok_head _ _ _ Hn). }
  rewrite HL. unfold line_of. destruct v as [|c t].
  - cbn [app]. replace (n ++ [58; 32; 13; 10]) with ((n ++ [58]) ++ [32; 13; 10]) by (rewrite <- app_assoc; reflexivity).
    rewrite trim_right_app_drop by reflexivity. apply trim_right_snoc_keep. reflexivity.
  - replace (n ++ [58; 32] ++ (c :: t) ++ [13; 10]) with ((n ++ [58; 32] ++ (c :: t)) ++ [13; 10])
      by (rewrite <- !app_assoc; reflexivity).
    rewrite trim_right_app_drop by reflexivity.
    replace (n ++ [58; 32] ++ c :: t) with ((n ++ [58; 32]) ++ c :: t) by (rewrite <- app_assoc; reflexivity).
    rewrite trim_right_app_keep; [rewrite <- app_assoc; reflexivity|discriminate|].
    apply (edge_ok_last _ _ c t eq_refl Hv).
Qed.

Lemma line_trim_right n v : edge_ok is_sphtcrlf v = true -> trim_right is_sphtcrlf (line_of n v) = line_of n v.
Proof.
  intros Hv. unfold line_of. destruct v as [|c t].
  - replace (n ++ [58]) with (n ++ [58]) by reflexivity. apply trim_right_snoc_keep. reflexivity.
  - replace (n ++ 58 :: 32 :: c :: t) with ((n ++ [58; 32]) ++ c :: t) by (rewrite <- app_assoc; reflexivity).
    apply trim_right_app_keep; [discriminate|]. apply (edge_ok_last _ _ c t eq_refl Hv).
Qed.

Lemma parse_line_field f acc : wf_field f ->
  parse_line (line_of (fst f) (snd f)) acc = Some (acc ++ [f]).
Proof.
  intros [Hnorm Hcol Hnlf Hvlf Hne Hve Henc]. destruct f as [n v]. cbn [fst snd] in *.
  unfold HeaderParse.parse_line. rewrite (line_trim_right n v Hve).
  assert (Hc : contains enc_marker (line_of n v) = false).
  { unfold line_of. destruct v as [|c t].
    - apply (contains_app_l _ _ [32]). rewrite <- app_assoc. exact Henc.
    - exact Henc. }
  unfold decode_header. rewrite Hc.
  unfold line_of. rewrite (index_byte_no COLON n _ Hcol).
  rewrite firstn_app, firstn_all, Nat.sub_diag, firstn_O, app_nil_r.
  replace (skipn (S (length n)) (n ++ 58 :: match v with [] => [] | _ :: _ => 32 :: v end))
    with (match v with [] => [] | _ :: _ => 32 :: v end).
  2:{ rewrite skipn_app. replace (S (length n) - length n)%nat with 1%nat by lia.
      rewrite skipn_all2 by lia. reflexivity. }
  rewrite (edge_ok_trim _ _ Hne).
  unfold m_add. rewrite Hnorm. destruct v as [|c t]; [reflexivity|].
  assert (H32 : trim is_sphtcrlf (32 :: c :: t) = trim is_sphtcrlf (c :: t)) by reflexivity.
  rewrite H32, (edge_ok_trim _ _ Hve). reflexivity.
Qed.

(** reading one serialized field line followed by at least one more byte *)
Lemma read_line_field p f c more tl : wf_field f ->
  read_line p (mkst (write_field f ++ c :: more) tl) =
  (line_of (fst f) (snd f), c, RLNone, mkst (c :: more) tl).
Proof.
  intros [Hnorm Hcol Hnlf Hvlf Hne Hve Henc]. destruct f as [n v]. cbn [fst snd] in *.
  unfold read_line, read_bytes, write_field. cbn [fst snd sdata stail]. unfold CRLF.
  set (a := n ++ [58; 32] ++ v ++ [13]).
  assert (Hd : (n ++ [58; 32] ++ v ++ [13; 10]) ++ c :: more = a ++ LF :: c :: more).
  { unfold a, LF. repeat rewrite <- app_assoc. cbn [app]. repeat rewrite <- app_assoc. reflexivity. }
  rewrite Hd.
  assert (Hno : no_byte LF a).
  { unfold a. rewrite !no_byte_app. repeat split; try assumption; reflexivity. }
  rewrite (take_through_no LF a _ Hno).
  assert (Hsk : skipn (length (a ++ [LF])) (a ++ LF :: c :: more) = c :: more).
  { replace (a ++ LF :: c :: more) with ((a ++ [LF]) ++ c :: more) by (rewrite <- app_assoc; reflexivity).
    rewrite skipn_app, skipn_all, Nat.sub_diag. reflexivity. }
  rewrite Hsk.
  assert (Hraw : a ++ [LF] = n ++ [58; 32] ++ v ++ [13; 10]).
  { unfold a, LF. repeat rewrite <- app_assoc. cbn [app]. reflexivity. }
  assert (Hbad : ((length (a ++ [LF]) <? 2)%nat || negb (nth (length (a ++ [LF]) - 2) (a ++ [LF]) 0 =? CR)) = false).
  { unfold a. set (x := n ++ [58; 32] ++ v).
    replace ((n ++ [58; 32] ++ v ++ [13]) ++ [LF]) with (x ++ [13; 10]) by (unfold x, LF; repeat rewrite <- app_assoc; cbn [app]; reflexivity).
    rewrite app_length. cbn [length]. replace (length x + 2 - 2)%nat with (length x) by lia.
    rewrite app_nth2 by lia. rewrite Nat.sub_diag. cbn [nth]. unfold CR. rewrite N.eqb_refl. cbn [negb].
    rewrite orb_false_r. apply Nat.ltb_ge. lia. }
  rewrite Hbad, andb_false_r. rewrite Hraw, (line_trim n v Hne Hve).
  destruct p; reflexivity.
Qed.

Definition not_blank_start (s : bytes) : Prop :=
  match s with c :: _ => is_sphtcrlf c = false | [] => False end.

Lemma write_field_start f more : wf_field f -> not_blank_start (write_field f ++ more).
Proof.
  intros [_ _ _ _ Hne _ _]. destruct f as [n v]. unfold write_field. cbn [fst snd] in *.
  destruct n as [|c t]; cbn; [reflexivity|]. apply (edge_ok_head _ _ _ Hne).
Qed.

Lemma not_blank_cases c : is_sphtcrlf c = false -> (c =? SP) = false /\ (c =? HT) = false /\ (c =? CR) = false /\ (c =? LF) = false.
Proof.
  unfold is_sphtcrlf, SP, HT, CR, LF. intros H.
  apply orb_false_iff in H as [H H4]. apply orb_false_iff in H as [H H3]. apply orb_false_iff in H as [H1 H2].
  repeat split; assumption.
Qed.

Theorem parse_loop_serialize p rest tl : forall fs acc fuel fnd,
  (forall f, In f fs -> wf_field f) -> fs <> [] -> (length fs < fuel)%nat ->
  parse_loop fuel p acc (mkst (m_write fs ++ CRLF ++ rest) tl) fnd = Ok (acc ++ fs, mkst rest tl) fnd.
Proof.
  induction fs as [|f fs' IH]; intros acc fuel fnd Hwf Hne Hfuel; [congruence|].
  destruct fuel as [|fu]; [cbn in Hfuel; lia|].
  assert (Hf : wf_field f) by (apply Hwf; left; reflexivity).
  cbn [m_write flat_map]. fold (m_write fs'). rewrite <- app_assoc.
  destruct fs' as [|f2 fs''].
  - (* last field: the blank line follows *)
    cbn [m_write flat_map app]. unfold CRLF. cbn [app].
    cbn [HeaderParse.parse_loop]. rewrite (read_line_field p f _ _ tl Hf).
    destruct fu as [|fu']; cbn [cont_loop]; change (13 =? SP) with false; change (13 =? HT) with false; cbn [orb];
      rewrite (parse_line_field f acc Hf); change (13 =? CR) with true; cbn iota;
      unfold read_bytes; cbn [sdata stail take_through]; change (13 =? LF) with false; cbn iota;
      change (10 =? LF) with true; cbn iota; cbn [length skipn Nat.eqb]; reflexivity.
  - (* another field follows *)
    assert (Hf2 : wf_field f2) by (apply Hwf; right; left; reflexivity).
    pose proof (write_field_start f2 (m_write fs'' ++ CRLF ++ rest) Hf2) as Hstart.
    cbn [m_write flat_map] in *. fold (m_write fs'') in *. rewrite <- app_assoc.
    destruct (write_field f2 ++ m_write fs'' ++ CRLF ++ rest) as [|c more] eqn:Emore; [contradiction|].
    cbn [not_blank_start] in Hstart. destruct (not_blank_cases c Hstart) as (E1 & E2 & E3 & E4).
    cbn [HeaderParse.parse_loop]. rewrite (read_line_field p f _ _ tl Hf).
    assert (Hcont : forall k, cont_loop k p (line_of (fst f) (snd f)) c (mkst (c :: more) tl) fnd
                    = Ok (line_of (fst f) (snd f), c, mkst (c :: more) tl) fnd).
    { intros k. destruct k; cbn [cont_loop]; rewrite E1, E2; reflexivity. }
    rewrite Hcont, (parse_line_field f acc Hf), E3, E4.
    rewrite <- Emore.
    replace (write_field f2 ++ m_write fs'' ++ CRLF ++ rest) with (m_write (f2 :: fs'') ++ CRLF ++ rest)
      by (cbn [m_write flat_map]; rewrite <- app_assoc; reflexivity).
    rewrite IH.
    + rewrite <- app_assoc. reflexivity.
    + intros g Hg. apply Hwf. right. exact Hg.
    + discriminate.
    + cbn [length] in *. lia.
Qed.

Theorem parse_serialize p fs rest tl fnd :
  (forall f, In f fs -> wf_field f) -> fs <> [] ->
  parse_fields p (mkst (serialize fs ++ rest) tl) fnd = Ok (fs, mkst rest tl) fnd.
Proof.
  intros Hwf Hne. unfold HeaderParse.parse_fields, serialize. cbn [sdata]. rewrite <- app_assoc.
  rewrite (parse_loop_serialize p rest tl fs [] _ fnd Hwf Hne); [reflexivity|].
  rewrite !app_length. unfold CRLF. cbn [length].
  assert (length fs <= length (m_write fs))%nat.
  { clear. unfold m_write. induction fs as [|f t IH]; cbn [flat_map length]; [lia|].
    rewrite app_length. unfold write_field at 1. rewrite !app_length. cbn [length]. lia. }
  lia.
Qed.

End Proofs.
