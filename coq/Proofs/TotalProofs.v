(** The header parser terminates: the fuel it is given (length of the input + 2) is never
    exhausted, whatever the bytes, the tail condition and the policy (C05). *)
Require Import Model.Bytes Model.FieldDef Model.Fields Model.Policy Model.Spill Model.Stream Model.HeaderParse.
From Coq Require Import Lia.
Local Open Scope N_scope.

Definition nofuel {A} (r : res A) : Prop :=
  match r with Err (KFuel, _) _ => False | _ => True end.

Lemma take_through_len d s : forall l, take_through d s = Some l -> (0 < length l <= length s)%nat.
Proof.
  induction s as [|c t IH]; intros l H; cbn in H; [discriminate|].
  destruct (N.eqb c d).
  - inversion H; subst. cbn. lia.
  - destruct (take_through d t) as [l'|]; [|discriminate]. inversion H; subst.
    specialize (IH l' eq_refl). cbn. lia.
Qed.

Lemma read_bytes_shrinks d s : forall l e s', read_bytes d s = (l, e, s') ->
  (length (sdata s') <= length (sdata s))%nat /\
  (sdata s <> [] -> length (sdata s') < length (sdata s))%nat /\
  (sdata s = [] -> l = [] /\ e <> None).
Proof.
  intros l e s' Hrb. unfold read_bytes in Hrb. destruct (take_through d (sdata s)) as [x|] eqn:E.
  - inversion Hrb; subst. cbn [sdata]. rewrite skipn_length. pose proof (take_through_len _ _ _ E) as Hl.
    split; [lia|]. split; [lia|]. intros Hnil. rewrite Hnil in E. discriminate.
  - inversion Hrb; subst. cbn [sdata length]. split; [lia|]. split.
    + intros Hne. destruct (sdata s); [contradiction|cbn; lia].
    + intros Hnil. split; [exact Hnil|discriminate].
Qed.

Lemma trim_nil cut : trim cut [] = [].
Proof. reflexivity. Qed.

Lemma read_line_shrinks p s : forall l nc e s', read_line p s = (l, nc, e, s') ->
  (length (sdata s') <= length (sdata s))%nat /\
  (sdata s <> [] -> length (sdata s') < length (sdata s))%nat /\
  (sdata s = [] -> l = [] /\ (e = RLEOH \/ e = RLRead)).
Proof.
  intros l nc e s' Hrl. unfold read_line in Hrl.
  destruct (read_bytes LF s) as [[raw e0] s1] eqn:ER.
  pose proof (read_bytes_shrinks _ _ _ _ _ ER) as (A & B & C).
  destruct e0 as [[|]|].
  - inversion Hrl; subst. split; [exact A|]. split; [exact B|].
    intros Hnil. destruct (C Hnil) as [-> _]. split; [reflexivity|left; reflexivity].
  - inversion Hrl; subst. split; [exact A|]. split; [exact B|].
    intros Hnil. destruct (C Hnil) as [-> _]. split; [reflexivity|right; reflexivity].
  - assert (Hc : sdata s = [] -> False) by (intros Hnil; destruct (C Hnil) as [_ X]; congruence).
    destruct p; destruct (_ && _); inversion Hrl; subst; (split; [exact A|]); (split; [exact B|]);
      intros Hnil; destruct (Hc Hnil).
Qed.

Section Total.
Variable tbl : list fielddef.
Variable uni_lower : bytes -> bytes.
Variable mime_dec : bytes -> option bytes.
Notation parse_loop := (parse_loop tbl uni_lower mime_dec).
Notation parse_fields := (parse_fields tbl uni_lower mime_dec).

(* no fuel error, and what is left of the stream is not longer than [n] *)
Definition bounded (n : nat) (r : res (fields * stream)) : Prop :=
  match r with
  | Err (KFuel, _) _ => False
  | Ok (_, s') _ => (length (sdata s') <= n)%nat
  | _ => True
  end.

Lemma bounded_mono n m r : (n <= m)%nat -> bounded n r -> bounded m r.
Proof. intros H. destruct r as [[? ?] ?|[[] ?] ?]; cbn; try tauto; lia. Qed.

Lemma site_bounded n p fnd (k : list finding -> res (fields * stream)) :
  (forall f, bounded n (k f)) -> bounded n (site p syn fnd k).
Proof. intros H. destruct p; cbn; try apply H. exact I. Qed.

Lemma cont_loop_nofuel fuel : forall p line nc s fnd,
  (length (sdata s) < fuel)%nat ->
  nofuel (cont_loop fuel p line nc s fnd) /\
  (forall l2 nc2 s2 f2, cont_loop fuel p line nc s fnd = Ok (l2, nc2, s2) f2 ->
                        length (sdata s2) <= length (sdata s))%nat.
Proof.
  induction fuel as [|f IH]; intros p line nc s fnd Hf; [lia|].
  cbn [cont_loop]. destruct ((nc =? SP) || (nc =? HT)).
  2:{ split; [exact I|]. intros l2 nc2 s2 f2 HH. inversion HH; subst. lia. }
  destruct (read_line p s) as [[[l nc'] e] s'] eqn:ER.
  pose proof (read_line_shrinks _ _ _ _ _ _ ER) as (A & B & C).
  destruct (sdata s) as [|c0 t0] eqn:ES.
  - destruct (C eq_refl) as [-> [-> | ->]]; cbn; split; try exact I; intros; discriminate.
  - assert (Hlt : (length (sdata s') < f)%nat) by (specialize (B ltac:(discriminate)); cbn [length] in *; lia).
    assert (Hgo : forall ln fnd', nofuel (cont_loop f p ln nc' s' fnd') /\
                  (forall l2 nc2 s2 f2, cont_loop f p ln nc' s' fnd' = Ok (l2, nc2, s2) f2 ->
                                        length (sdata s2) <= length (c0 :: t0))%nat).
    { intros ln fnd'. destruct (IH p ln nc' s' fnd' Hlt) as [X Y]. split; [exact X|].
      intros l2 nc2 s2 f2 HH. specialize (Y _ _ _ _ HH). specialize (B ltac:(discriminate)). lia. }
    destruct e.
    + apply Hgo.
    + destruct l; [cbn; split; [exact I|intros; discriminate]|].
      destruct p; cbn [site]; try apply Hgo. cbn. split; [exact I|intros; discriminate].
    + destruct l; cbn; split; try exact I; intros; discriminate.
    + destruct l; [cbn; split; [exact I|intros; discriminate]|].
      destruct p; cbn [site]; try apply Hgo. cbn. split; [exact I|intros; discriminate].
Qed.

Lemma parse_loop_bounded fuel : forall p fs s fnd,
  (length (sdata s) < fuel)%nat -> bounded (length (sdata s)) (parse_loop fuel p fs s fnd).
Proof.
  induction fuel as [|f IH]; intros p fs s fnd Hf; [lia|].
  cbn [HeaderParse.parse_loop].
  destruct (read_line p s) as [[[line nc] e] s1] eqn:ER.
  pose proof (read_line_shrinks _ _ _ _ _ _ ER) as (A & B & C).
  destruct (sdata s) as [|c0 t0] eqn:ES.
  - destruct (C eq_refl) as [-> [-> | ->]]; cbn; [exact A|exact I].
  - assert (Hlt : (length (sdata s1) < f)%nat) by (specialize (B ltac:(discriminate)); cbn [length] in *; lia).
    assert (Hs1 : (length (sdata s1) <= length (c0 :: t0))%nat) by exact A.
    assert (Hcont : forall ln fnd1,
              nofuel (cont_loop f p ln nc s1 fnd1) /\
              (forall l2 nc2 s2 f2, cont_loop f p ln nc s1 fnd1 = Ok (l2, nc2, s2) f2 ->
                 length (sdata s2) < f /\ length (sdata s2) <= length (c0 :: t0))%nat).
    { intros ln fnd1. destruct (cont_loop_nofuel f p ln nc s1 fnd1 Hlt) as [X Y]. split; [exact X|].
      intros l2 nc2 s2 f2 HH. specialize (Y _ _ _ _ HH). lia. }
    destruct e; cbv zeta;
      repeat match goal with
             | |- bounded _ (site _ syn _ _) => apply site_bounded; intros ?
             | |- bounded _ (match ?l with [] => _ | _ :: _ => _ end) => destruct l
             | |- bounded _ (match cont_loop f p ?ln nc s1 ?fnd1 with _ => _ end) =>
                 let X := fresh "X" in let Y := fresh "Y" in let EC := fresh "EC" in
                 destruct (Hcont ln fnd1) as [X Y];
                 destruct (cont_loop f p ln nc s1 fnd1) as [[[? ?] ?] ?|[[] ?] ?] eqn:EC;
                 [destruct (Y _ _ _ _ eq_refl)|try exact I; try contradiction..]
             | |- bounded _ (match parse_line _ _ _ ?l ?x with _ => _ end) => destruct (parse_line tbl uni_lower mime_dec l x)
             | |- bounded _ (if ?c then _ else _) => destruct c
             | |- context [read_bytes ?d ?x] =>
                 let ERB := fresh "ERB" in
                 destruct (read_bytes d x) as [[? ?] ?] eqn:ERB;
                 pose proof (read_bytes_shrinks _ _ _ _ _ ERB) as (? & _ & _)
             | |- bounded _ (match ?e with Some _ => _ | None => _ end) => destruct e
             | |- bounded _ (Ok _ _) => cbn [bounded sdata length] in *; lia
             | |- bounded _ (Err (KMarker, _) _) => exact I
             | |- bounded _ (Err (KRead, _) _) => exact I
             | |- bounded _ (parse_loop f _ _ _ _) => eapply bounded_mono; [|apply IH; assumption]; assumption
             end.
Qed.

Theorem parse_fields_terminates p s fnd : bounded (length (sdata s)) (parse_fields p s fnd).
Proof. unfold HeaderParse.parse_fields. apply parse_loop_bounded. lia. Qed.

End Total.
