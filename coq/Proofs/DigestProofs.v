(** base16 round trip, case-insensitivity, encoded lengths (C02/C03). *)
Require Import Model.Bytes Model.Digest.
From Coq Require Import Lia ZifyBool ZifyN ZifyNat.
Local Open Scope N_scope.
Ltac Zify.zify_post_hook ::= Z.div_mod_to_equations.

Definition is_byte (b : N) : Prop := b < 256.

Lemma hexval_hexdigit n : n < 16 -> hexval (hexdigit n) = Some n.
Proof.
  intros H. unfold hexval, hexdigit, is_digit.
  destruct (n <? 10) eqn:E.
  - assert (E1 : (48 <=? 48 + n) && (48 + n <=? 57) = true) by lia. rewrite E1. f_equal. lia.
  - assert (E1 : (48 <=? 87 + n) && (87 + n <=? 57) = false) by lia. rewrite E1.
    assert (E2 : (97 <=? 87 + n) && (87 + n <=? 102) = true) by lia. rewrite E2. f_equal. lia.
Qed.

Theorem hex_decode_encode s : Forall is_byte s -> hex_decode (hex_encode s) = Some s.
Proof.
  induction 1 as [|b t Hb Ht IH]; [reflexivity|].
  unfold is_byte in Hb. cbn [hex_encode flat_map app hex_decode]. fold (hex_encode t).
  rewrite !hexval_hexdigit by lia. rewrite IH. f_equal. f_equal. lia.
Qed.

(* upper-case hex digits decode to the same value: base16 digests are case-insensitive *)
Lemma hexval_upper c : hexval (upper_byte c) = hexval c \/ hexval c = None.
Proof.
  unfold hexval, upper_byte, is_lower, is_digit.
  destruct ((97 <=? c) && (c <=? 122)) eqn:E; [|left; reflexivity].
  destruct ((97 <=? c) && (c <=? 102)) eqn:E1.
  - left. assert (A : (48 <=? c - 32) && (c - 32 <=? 57) = false) by lia.
    assert (B : (97 <=? c - 32) && (c - 32 <=? 102) = false) by lia.
    assert (C : (65 <=? c - 32) && (c - 32 <=? 70) = true) by lia.
    assert (D : (48 <=? c) && (c <=? 57) = false) by lia.
    rewrite A, B, C, D. f_equal. lia.
  - right. assert (D : (48 <=? c) && (c <=? 57) = false) by lia.
    assert (F : (65 <=? c) && (c <=? 70) = false) by lia. rewrite D, F. reflexivity.
Qed.

Lemma hexval_upper_digit n : n < 16 -> hexval (upper_byte (hexdigit n)) = Some n.
Proof.
  intros H. destruct (hexval_upper (hexdigit n)) as [E|E]; rewrite hexval_hexdigit in E by exact H; [exact E|discriminate].
Qed.

Theorem hex_decode_upper s : Forall is_byte s -> hex_decode (ascii_upper (hex_encode s)) = Some s.
Proof.
  induction 1 as [|b t Hb Ht IH]; [reflexivity|].
  unfold is_byte in Hb. cbn [hex_encode flat_map app ascii_upper map hex_decode]. fold (hex_encode t). fold (ascii_upper (hex_encode t)).
  rewrite !hexval_upper_digit by lia. rewrite IH. f_equal. f_equal. lia.
Qed.

Lemma hex_encode_length s : length (hex_encode s) = (2 * length s)%nat.
Proof. induction s as [|b t IH]; [reflexivity|]. cbn [hex_encode flat_map app length]. fold (hex_encode t). lia. Qed.
