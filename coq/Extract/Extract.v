(** Extraction of the executable model for the correspondence check (tie T-B).
    Only ExtrOcamlBasic is used: bool, option, unit, list, prod, sumbool are
    mapped to OCaml's; N, Z, positive, nat stay the extracted datatypes. *)
Require Extraction.
Require Import ExtrOcamlBasic.
Require Import Model.Bytes Model.FieldDef Gen.FieldTable Model.RefTable Model.Fields Model.Spill Model.Policy Model.Validate Model.Stream Model.HeaderParse Model.Digest Model.Block Model.Record Model.Writer Model.Revisit Model.Resources Model.Protocol.
Extraction Blacklist String List Bytes Char Int.
Extraction "model.ml"
  FieldTable.field_table FieldTable.required_fields RefTable.reference_table RefTable.reference_required
  Bytes.itoa Bytes.z_of_dec Bytes.atoi
  Fields.frun Fields.srun Fields.normalize_name Fields.m_write Fields.s_write
  Spill.b_run Spill.p_run Spill.new_buf
  Validate.validate_header Validate.spec_accepts Validate.type_accepts
  Fields.m_add HeaderParse.parse_fields HeaderParse.serialize
  Digest.new_digest Digest.format Digest.feed Digest.dvalidate Digest.update_digest Digest.detect_encoding
  Block.block_run Block.spec_run Block.fresh
  Fields.m_set Record.build Record.marshal Record.unmarshal_plain Record.unmarshal_gz Record.read_all_plain Record.read_all_gz Record.raw_bytes
  Writer.w_run Writer.w_close Writer.w_init Writer.fsize
  Revisit.create_ref Revisit.to_revisit Revisit.merge Revisit.revisit_ref
  Resources.builder_fill Resources.unmarshal_res Resources.reader_open Resources.close_all
  Protocol.init Protocol.succs Protocol.all_done.
