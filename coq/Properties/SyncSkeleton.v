(** SyncSkeleton.v — tie T-A for Model/Protocol.v.

    Gen/SyncSkeleton.v is regenerated on every run from /repo/warcfile.go by go/gen (syncskel): for
    each function, the channel operations, selects, mutex and WaitGroup operations, goroutine
    starts and calls between those functions, in source order, and nothing else.  Below is the
    skeleton Model/Protocol.v was written from, with the model rule each line stands for.  The
    theorem is closed by reflexivity: any edit that changes the synchronisation structure of
    warcfile.go breaks it, and the check then searches for a failing schedule.

      NewWarcFileWriter   dispatcher goroutine: outer select = DIdle {closing -> SCloseSignalIdle |
                          middleCh -> SWrite2Send}; inner select = DHold {closing -> SCloseSignalHold |
                          jobs<- -> SDispatch}; exit closure = SExitClose, SExitForward / SExitNoJob,
                          SExitJobs; one worker goroutine per writer
      worker              range jobs = KIdle (SDispatch / SExitForward, SWorkStop when jobs is closed);
                          loop of Write = KBusy/KCrit (SWorkLock, SWorkRecord); send responses =
                          KRespond (SWorkDone, SWriteResult); deferred Close + wg.Done = KClosing,
                          KClosingCrit (SWorkCloseLock, SWorkEnd)
      WarcFileWriter.Write  first select = SWriteClosed / SWriteStart; second select = CW2
                          (SWrite2Closed / SWrite2Send); recv result = CW3 (SWriteResult)
      WarcFileWriter.Close  select = SCloseSignalIdle/Hold then recv closed (CC1, SCloseSeen), or
                          SCloseAlready; wg.Wait = CC2 (SCloseDone)
      WarcFileWriter.Rotate loop of singleWarcFileWriter.Close = CR / CRC (SRotateLock, SRotateClose)
      singleWarcFileWriter.Write / .Close   lock ... deferred unlock around a body without blocking
                          operations: the inner write / writeRecord / createFile /
                          createWarcInfoRecord call only each other (a continuation segment goes
                          through the unlocked write), never the locking Write or Close *)
From Coq Require Import String List.
Import ListNotations.
Require Import Gen.SyncSkeleton.
Local Open Scope string_scope.

Definition reference_skeleton : list (string * string) :=
  [("NewWarcFileWriter",
    "(wg-add) (go (loop (select (case (recv closing) (close closed) (if (send jobs)) (close jobs) (return)) (case (recv middleCh) (select (case (recv closing) (close closed) (if (send jobs)) (close jobs) (return)) (case (send jobs))))))) (loop (go worker))");
   ("WarcFileWriter.Close",
    "(select (case (send closing) (recv closed)) (case (recv closed))) (wg-wait)");
   ("WarcFileWriter.Rotate",
    "(loop (call singleWarcFileWriter.Close))");
   ("WarcFileWriter.Write",
    "(select (case (recv closed) (return)) (default)) (select (case (recv closed) (return)) (case (send middleCh) (recv result) (return)))");
   ("singleWarcFileWriter.Close",
    "(lock writeLock) (defer-unlock writeLock)");
   ("singleWarcFileWriter.Write",
    "(lock writeLock) (defer-unlock writeLock) (call singleWarcFileWriter.write)");
   ("singleWarcFileWriter.createFile",
    "(if (call singleWarcFileWriter.createWarcInfoRecord))");
   ("singleWarcFileWriter.createWarcInfoRecord",
    "(call singleWarcFileWriter.writeRecord)");
   ("singleWarcFileWriter.write",
    "(if (call singleWarcFileWriter.createFile)) (call singleWarcFileWriter.writeRecord)");
   ("singleWarcFileWriter.writeRecord",
    "(if (call singleWarcFileWriter.write))");
   ("worker",
    "(defer (call singleWarcFileWriter.Close) (wg-done)) (range jobs (loop (call singleWarcFileWriter.Write)) (send responses))")].

Theorem sync_skeleton_is_the_modelled_one : sync_skeleton = reference_skeleton.
Proof. reflexivity. Qed.
Print Assumptions sync_skeleton_is_the_modelled_one.
