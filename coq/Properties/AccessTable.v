(** AccessTable.v - tie T-A for property C11: the shared-state access table regenerated from the
    current source (Gen/AccessTable.v) follows the disciplines of Model/Race.v. *)
Require Import Model.Race Gen.AccessTable.

Theorem C11_access_table_follows_the_disciplines :
  table_ok pkg_vars guarded_accesses shared_field_writes global_mutator_calls = true.
Proof. vm_compute. reflexivity. Qed.
Print Assumptions C11_access_table_follows_the_disciplines.
