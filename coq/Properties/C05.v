(** C05 — the parser is total: no panic, no hang, bounded memory.

    In the model every function that mirrors parser code is a total Gallina function whose
    outcomes are values: there is no "panic" outcome to reach (each site where the Go code indexed
    or type-asserted without a guard was a defect found by the correspondence run and repaired:
    known_findings.json).  Loops are recursion on explicit fuel, and running out of fuel is an
    ordinary error value [KFuel]; "no hang" is the theorem that it is never returned. *)
Require Import Model.Bytes Model.FieldDef Model.Fields Model.Policy Model.Stream Model.HeaderParse.
Require Import Proofs.TotalProofs.

(** For every byte string, followed by EOF or by a read error, every syntax policy, every
    decoder behaviour and every set of findings so far: the header parser (warcfieldsParser.Parse,
    also used for warc-fields blocks) never exhausts the fuel "length of the input + 2" — every
    iteration of its loops consumes input or stops — and what it leaves of the stream is never
    longer than what it was given. *)
Theorem C05_header_parser_terminates_and_only_consumes :
  forall tbl uni_lower mime_dec p s fnd,
    bounded (length (sdata s)) (parse_fields tbl uni_lower mime_dec p s fnd).
Proof. exact parse_fields_terminates. Qed.
Print Assumptions C05_header_parser_terminates_and_only_consumes.

(** every line read consumes at least one byte, or the stream is at its end and says so *)
Theorem C05_read_line_makes_progress :
  forall p s l nc e s', read_line p s = (l, nc, e, s') ->
    (length (sdata s') <= length (sdata s))%nat /\
    (sdata s <> [] -> length (sdata s') < length (sdata s))%nat /\
    (sdata s = [] -> l = [] /\ (e = RLEOH \/ e = RLRead)).
Proof. exact read_line_shrinks. Qed.
Print Assumptions C05_read_line_makes_progress.

(** The two fuelled loops whose out-of-fuel branch returns an ordinary value (the search for the
    start of a record, the header split of HTTP blocks) never reach that branch: the result with
    the fuel the model uses (input length + 1) is the result with any larger fuel. *)
Require Import Model.Record Proofs.FuelProofs.
Theorem C05_record_start_search_does_not_depend_on_fuel :
  forall p s off k, find_start (S (length (sdata s)) + k) p s off = find_start (S (length (sdata s))) p s off.
Proof. exact find_start_enough_fuel. Qed.
Print Assumptions C05_record_start_search_does_not_depend_on_fuel.

Theorem C05_http_header_split_does_not_depend_on_fuel :
  forall s k, http_header_fuel (S (length s) + k) s = http_header s.
Proof. exact http_header_enough_fuel. Qed.
Print Assumptions C05_http_header_split_does_not_depend_on_fuel.
