(** C12 — a killed writer leaves only complete final files and whole-record prefixes.

    Model: the file-system effect trace of Model/Writer.v ([w_effects]): create (in-progress
    name), append of ONE whole record (one gzip member), sync, close, rename to the final name,
    callback.  A kill leaves the effects of some prefix of the trace, plus possibly a prefix of
    the bytes of the append that was under way (an in-progress file then ends in one partial
    record: that is what "prefix of an append" means).  PARTIAL by nature: that the operating
    system keeps exactly the written bytes of a killed process, and that rename is atomic, is
    assumed; it is observed by the crash harness (snapshots at every effect point), not proved. *)
Require Import Model.Bytes Model.FieldDef Model.Fields Model.Record Model.Writer Proofs.WriterProofs.

(** In every trace the writer can produce, once a file has been renamed to its final name no
    record is ever appended to it again: whatever prefix of the trace a kill leaves, every file
    that carries its final name already holds all the records it will ever hold (and each append is
    one whole record), while appends only ever go to the one in-progress file. *)
Theorem C12_final_files_are_never_written_again :
  forall tbl uni_lower conf name_of scale zsize info_rec,
    (forall a b, name_of a = name_of b -> a = b) ->
    forall ops recs stf all,
      w_run tbl uni_lower conf name_of scale zsize info_rec w_init recs ops = (stf, all) ->
      forall pre n post, w_effects stf = pre ++ ERename n :: post -> forall e, ~ In (EAppend n e) post.
Proof.
  intros tbl ul conf name_of scale zsize info_rec Hinj ops recs stf all HR.
  assert (HE : EffInv stf).
  { apply (run_keeps tbl ul conf name_of Hinj scale zsize info_rec EffInv) with (ops := ops) (st := w_init) (recs := recs) (all := all).
    - intros st r st' resp r' HI HP HW. apply (eff_write tbl ul conf name_of Hinj scale zsize info_rec st r st' resp r' HI HP HW).
    - intros st HI HP. apply (eff_close conf name_of zsize); assumption.
    - apply inv_init.
    - apply eff_init.
    - exact HR. }
  exact (proj2 HE).
Qed.
Print Assumptions C12_final_files_are_never_written_again.

(** A record is acknowledged only after its append: the response of Write names the file whose
    LAST entry is that record (theorem C04_write_appends_at_the_reported_offset), so every record
    whose Write had returned is in the trace prefix any later kill leaves. *)
Theorem C12_acknowledged_records_are_already_appended :
  forall tbl uni_lower conf name_of scale zsize info_rec,
    (forall a b, name_of a = name_of b -> a = b) ->
    forall st r st' resp r', Inv conf name_of zsize st ->
      w_write tbl uni_lower conf name_of scale zsize info_rec st r = (st', resp, r') -> rs_err resp = false ->
      exists pre f before, w_files st' = pre ++ [f] /\ f_name f = rs_name resp /\ f_entries f = before ++ [marshal r'].
Proof.
  intros tbl ul conf name_of scale zsize info_rec Hinj st r st' resp r' HI HW HE.
  destruct (w_write_spec tbl ul conf name_of Hinj scale zsize info_rec st r st' resp r' HI HW) as [_ HS].
  destruct (HS HE) as (pre & f & before & A & B & _ & C & _). exists pre, f, before. repeat split; assumption.
Qed.
Print Assumptions C12_acknowledged_records_are_already_appended.

(** The same in terms of what is on disk: the whole records appended to file [n] by a trace.  If a
    kill leaves the effects [pre] of a trace [pre ++ post] and [n] has already been renamed to its
    final name in [pre], then [n] holds every record it will ever hold - it is complete - and an
    in-progress file holds whole records only, the append under way contributing at most a prefix
    of one record (an append is one effect of the trace). *)
Definition appended (n : bytes) (es : list effect) : list bytes :=
  flat_map (fun e => match e with EAppend m x => if bytes_eqb m n then [x] else [] | _ => [] end) es.

Lemma appended_none n l : (forall e, ~ In (EAppend n e) l) -> appended n l = [].
Proof.
  induction l as [|x t IH]; intros Hno; [reflexivity|]. unfold appended in *. cbn [flat_map].
  rewrite IH by (intros e Hin; apply (Hno e); right; exact Hin).
  destruct x as [m|m y|m|m|m|m s i]; try reflexivity.
  destruct (bytes_eqb m n) eqn:E; [|reflexivity].
  apply Proofs.BytesProofs.bytes_eqb_eq in E. subst m. exfalso. apply (Hno y). left. reflexivity.
Qed.

Theorem C12_a_final_file_holds_all_its_records_at_every_kill_point :
  forall tbl uni_lower conf name_of scale zsize info_rec,
    (forall a b, name_of a = name_of b -> a = b) ->
    forall ops recs stf all,
      w_run tbl uni_lower conf name_of scale zsize info_rec w_init recs ops = (stf, all) ->
      forall pre post n, w_effects stf = pre ++ post -> In (ERename n) pre ->
        appended n (w_effects stf) = appended n pre.
Proof.
  intros tbl ul conf name_of scale zsize info_rec Hinj ops recs stf all HR pre post n HE Hin.
  apply in_split in Hin as (p1 & p2 & ->).
  assert (Hno : forall e, ~ In (EAppend n e) (p2 ++ post)).
  { apply (C12_final_files_are_never_written_again tbl ul conf name_of scale zsize info_rec Hinj ops recs stf all HR p1 n (p2 ++ post)).
    rewrite HE, <- app_assoc. reflexivity. }
  rewrite HE. unfold appended at 1. rewrite flat_map_app. fold (appended n (p1 ++ ERename n :: p2)) (appended n post).
  rewrite (appended_none n post) by (intros e Hi; apply (Hno e); apply in_or_app; right; exact Hi).
  apply app_nil_r.
Qed.
Print Assumptions C12_a_final_file_holds_all_its_records_at_every_kill_point.
