(** C12 — a killed writer leaves only complete final files and whole-record prefixes.

    Model: the file-system effect trace of Model/Writer.v ([w_effects]): create (in-progress
    name), append of ONE whole record (one gzip member), sync, close, rename to the final name,
    callback.  A kill leaves the effects of some prefix of the trace, plus possibly a prefix of
    the bytes of the append that was under way (an in-progress file then ends in one partial
    record: that is what "prefix of an append" means).  PARTIAL by nature: that the operating
    system keeps exactly the written bytes of a killed process, and that rename is atomic, is
    assumed; it is observed by the crash harness (snapshots at every effect point), not proved. *)
Require Import Model.Bytes Model.FieldDef Model.Fields Model.Record Model.Writer Proofs.WriterProofs.

(** In every trace the writer can produce, once a file has been renamed to its final name no
    record is ever appended to it again: whatever prefix of the trace a kill leaves, every file
    that carries its final name already holds all the records it will ever hold (and each append is
    one whole record), while appends only ever go to the one in-progress file. *)
Theorem C12_final_files_are_never_written_again :
  forall tbl uni_lower conf name_of scale zsize info_rec,
    (forall a b, name_of a = name_of b -> a = b) ->
    forall ops recs stf all,
      w_run tbl uni_lower conf name_of scale zsize info_rec w_init recs ops = (stf, all) ->
      forall pre n post, w_effects stf = pre ++ ERename n :: post -> forall e, ~ In (EAppend n e) post.
Proof.
  intros tbl ul conf name_of scale zsize info_rec Hinj ops recs stf all HR.
  assert (HE : EffInv stf).
  { apply (run_keeps tbl ul conf name_of Hinj scale zsize info_rec EffInv) with (ops := ops) (st := w_init) (recs := recs) (all := all).
    - intros st r st' resp r' HI HP HW. apply (eff_write tbl ul conf name_of Hinj scale zsize info_rec st r st' resp r' HI HP HW).
    - intros st HI HP. apply (eff_close conf name_of zsize); assumption.
    - apply inv_init.
    - apply eff_init.
    - exact HR. }
  exact (proj2 HE).
Qed.
Print Assumptions C12_final_files_are_never_written_again.

(** A record is acknowledged only after its append: the response of Write names the file whose
    LAST entry is that record (theorem C04_write_appends_at_the_reported_offset), so every record
    whose Write had returned is in the trace prefix any later kill leaves. *)
Theorem C12_acknowledged_records_are_already_appended :
  forall tbl uni_lower conf name_of scale zsize info_rec,
    (forall a b, name_of a = name_of b -> a = b) ->
    forall st r st' resp r', Inv conf name_of zsize st ->
      w_write tbl uni_lower conf name_of scale zsize info_rec st r = (st', resp, r') -> rs_err resp = false ->
      exists pre f before, w_files st' = pre ++ [f] /\ f_name f = rs_name resp /\ f_entries f = before ++ [marshal r'].
Proof.
  intros tbl ul conf name_of scale zsize info_rec Hinj st r st' resp r' HI HW HE.
  destruct (w_write_spec tbl ul conf name_of Hinj scale zsize info_rec st r st' resp r' HI HW) as [_ HS].
  destruct (HS HE) as (pre & f & before & A & B & _ & C & _). exists pre, f, before. repeat split; assumption.
Qed.
Print Assumptions C12_acknowledged_records_are_already_appended.
