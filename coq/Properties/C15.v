(** C15 — no temporary file or descriptor outlives Close.

    PARTIAL / thin model.  The logic half is ownership: which object owns the temp file of which
    spill buffer and which Close releases it, on the success path and on every error exit
    (Model/Resources.v).  The theorems say that, for every content size, threshold and fault
    position, closing whatever an API call returned empties the ledger.  Whether the real code
    follows this ownership discipline on every path is what the correspondence harness observes
    (temp directory listing and /proc/self/fd after each step, faults injected at every position);
    the two defects it found (descriptor leak on an invalid reader offset) are repaired. *)
Require Import Model.Bytes Model.Resources Model.Spill Proofs.SpillProofs Proofs.ResourceProofs.
From Coq Require Import Arith.
Local Open Scope nat_scope.

Theorem C15_builder_and_built_record_release_the_spill_file :
  forall thr n id, close_all (builder_fill thr n id) = [].
Proof. exact builder_no_leak. Qed.
Print Assumptions C15_builder_and_built_record_release_the_spill_file.

Theorem C15_parsed_record_releases_the_spill_file_on_every_fault :
  forall thr n id fault, close_all (unmarshal_res thr n id fault) = [].
Proof. exact unmarshal_no_leak. Qed.
Print Assumptions C15_parsed_record_releases_the_spill_file_on_every_fault.

Theorem C15_reader_descriptor_is_released :
  forall id seek_fails, close_all (reader_open id seek_fails) = [].
Proof. exact reader_no_leak. Qed.
Print Assumptions C15_reader_descriptor_is_released.

(** a spill buffer holds a temp file only once its memory part is full (from C14's invariant) *)
Theorem C15_temp_file_only_when_memory_is_full :
  forall ops max, 1 <= max ->
    let b := b_exec (new_buf max) ops in file b <> None -> length (mem b) = mmax b.
Proof. exact spill_file_iff_memory_full. Qed.
Print Assumptions C15_temp_file_only_when_memory_is_full.
