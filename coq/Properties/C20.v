(** C20 — revisit creation and merge are mutually consistent.

    Model: Model/Revisit.v ([to_revisit], [create_ref], [revisit_ref], [merge]: ToRevisitRecord,
    CreateRevisitRef, RevisitRef, Merge of record.go and newRevisitBlock), over the field table
    regenerated from /repo.  [H] the hash functions, [profile_of] the classification of the four
    well-known profile URIs, [uni_lower]/[uni_upper] Unicode case mapping: any functions. *)
Require Import Model.Bytes Model.FieldDef Gen.FieldTable Model.Fields Model.Validate Model.Digest Model.Record Model.Revisit.
Require Import Proofs.RevisitProofs.
Local Open Scope N_scope.

(** For every record, revisit reference and option setting for which ToRevisitRecord succeeds:
    the block of the revisit record is exactly the original's protocol header, Content-Length is
    its length, WARC-Block-Digest is the configured digest of exactly those bytes, the record
    type is revisit in Type() and in the WARC-Type field, and the profile is the reference's. *)
Theorem C20_revisit_is_truthful :
  forall uni_lower uni_upper H profile_of o r ref rev,
    to_revisit field_table uni_lower uni_upper H profile_of o r ref = Some rev ->
    exists head d,
      protocol_header (r_block r) = Some head /\ new_digest uni_lower uni_upper (o_alg o) (o_enc o) = Some d /\
      r_block rev = mkblk BRevisit [] head /\ r_type rev = 32 /\
      m_get field_table uni_lower n_content_length (r_fields rev) = itoa (Z.of_nat (length head)) /\
      m_get field_table uni_lower n_block_digest (r_fields rev) = format H (feed d head) /\
      m_get field_table uni_lower n_warc_type (r_fields rev) = s_revisit /\
      m_get field_table uni_lower n_profile (r_fields rev) = rf_profile ref.
Proof. exact revisit_truthful. Qed.
Print Assumptions C20_revisit_is_truthful.

(** Merging that revisit with the original reproduces the original's full block bytes, carries the
    original's record type in Type() AND in the WARC-Type field (the defect "always response" was
    found here and repaired), and the original's Content-Length. *)
Theorem C20_merge_restores_the_original :
  forall uni_lower uni_upper H profile_of o orig ref rev cached m,
    to_revisit field_table uni_lower uni_upper H profile_of o orig ref = Some rev ->
    merge field_table uni_lower rev orig cached = Some m ->
    raw_bytes (r_block m) = raw_bytes (r_block orig) /\
    r_type m = r_type orig /\
    m_get field_table uni_lower n_warc_type (r_fields m) = type_name (r_type orig) /\
    exists reflen, atoi (m_get field_table uni_lower n_content_length (r_fields orig)) = Some reflen /\
                   m_get field_table uni_lower n_content_length (r_fields m) = itoa reflen.
Proof. exact merge_restores. Qed.
Print Assumptions C20_merge_restores_the_original.
