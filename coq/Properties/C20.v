(** C20 — revisit creation and merge are mutually consistent.

    Model: Model/Revisit.v ([to_revisit], [create_ref], [revisit_ref], [merge]: ToRevisitRecord,
    CreateRevisitRef, RevisitRef, Merge of record.go and newRevisitBlock), over the field table
    regenerated from /repo.  [H] the hash functions, [profile_of] the classification of the four
    well-known profile URIs, [uni_lower]/[uni_upper] Unicode case mapping: any functions. *)
Require Import Model.Bytes Model.FieldDef Gen.FieldTable Model.Fields Model.Validate Model.Digest Model.Record Model.Revisit.
Require Import Proofs.RevisitProofs.
Local Open Scope N_scope.

(** For every record, revisit reference and option setting for which ToRevisitRecord succeeds:
    the block of the revisit record is exactly the original's protocol header, Content-Length is
    its length, WARC-Block-Digest is the configured digest of exactly those bytes, the record
    type is revisit in Type() and in the WARC-Type field, and the profile is the reference's. *)
Theorem C20_revisit_is_truthful :
  forall uni_lower uni_upper H profile_of o r ref rev,
    to_revisit field_table uni_lower uni_upper H profile_of o r ref = Some rev ->
    exists head d,
      protocol_header (r_block r) = Some head /\ new_digest uni_lower uni_upper (o_alg o) (o_enc o) = Some d /\
      r_block rev = mkblk BRevisit [] head /\ r_type rev = 32 /\
      m_get field_table uni_lower n_content_length (r_fields rev) = itoa (Z.of_nat (length head)) /\
      m_get field_table uni_lower n_block_digest (r_fields rev) = format H (feed d head) /\
      m_get field_table uni_lower n_warc_type (r_fields rev) = s_revisit /\
      m_get field_table uni_lower n_profile (r_fields rev) = rf_profile ref.
Proof. exact revisit_truthful. Qed.
Print Assumptions C20_revisit_is_truthful.

(** Merging that revisit with the original reproduces the original's full block bytes, carries the
    original's record type in Type() AND in the WARC-Type field (the defect "always response" was
    found here and repaired), and the original's Content-Length. *)
Theorem C20_merge_restores_the_original :
  forall uni_lower uni_upper H profile_of o orig ref rev cached m,
    to_revisit field_table uni_lower uni_upper H profile_of o orig ref = Some rev ->
    merge field_table uni_lower rev orig cached = Some m ->
    raw_bytes (r_block m) = raw_bytes (r_block orig) /\
    r_type m = r_type orig /\
    m_get field_table uni_lower n_warc_type (r_fields m) = type_name (r_type orig) /\
    exists reflen, atoi (m_get field_table uni_lower n_content_length (r_fields orig)) = Some reflen /\
                   m_get field_table uni_lower n_content_length (r_fields m) = itoa reflen.
Proof. exact merge_restores. Qed.
Print Assumptions C20_merge_restores_the_original.

(** "... the original's payload digest and the reference fields of the RevisitRef": the revisit
    carries the original's payload digest (for a resource record without one, under the
    identical-payload profile, its block digest: the payload of a resource IS its block), the
    target id of the reference - in angle brackets whether or not it was given with them -, the
    target URI and date when the reference has them, and WARC-Truncated: length. *)
Require Import Model.Policy Proofs.RevisitRefProofs Proofs.TrimProofs.
Theorem C20_revisit_carries_payload_digest_and_reference :
  forall uni_lower uni_upper H profile_of o r ref rev,
    to_revisit field_table uni_lower uni_upper H profile_of o r ref = Some rev ->
    m_get field_table uni_lower n_payload_digest (r_fields rev) = expected_payload_digest uni_lower profile_of r ref /\
    (forall v, id_value (rf_id ref) = Some v -> m_get field_table uni_lower n_refers_to (r_fields rev) = v) /\
    (rf_uri ref <> [] -> m_get field_table uni_lower n_refers_to_uri (r_fields rev) = rf_uri ref) /\
    (rf_date ref <> [] -> m_get field_table uni_lower n_refers_to_date (r_fields rev) = rf_date ref) /\
    m_get field_table uni_lower n_truncated (r_fields rev) = s_length.
Proof. intros ul uu H pf. exact (revisit_carries_reference ul uu H pf). Qed.
Print Assumptions C20_revisit_carries_payload_digest_and_reference.

(** RevisitRef() of the derived revisit is the reference it was made from (a complete reference:
    id without angle brackets at its ends, URI and date present - what CreateRevisitRef returns
    for a record that has them) *)
Theorem C20_revisit_ref_reads_back_the_reference :
  forall uni_lower uni_upper H profile_of o r ref rev,
    to_revisit field_table uni_lower uni_upper H profile_of o r ref = Some rev ->
    rf_id ref <> [] -> edge_ok is_angle (rf_id ref) = true -> rf_uri ref <> [] -> rf_date ref <> [] ->
    revisit_ref field_table uni_lower rev = Some ref.
Proof. intros ul uu H pf. exact (revisit_ref_reads_back ul uu H pf). Qed.
Print Assumptions C20_revisit_ref_reads_back_the_reference.

From Coq Require Import String.
Local Open Scope string_scope.
(** non-vacuity: a response record, the identical-payload profile, a complete reference *)
Definition ex20_rec : record :=
  mkrec (bs "1.1") 2 2 [(bs "WARC-Type", bs "response"); (bs "WARC-Payload-Digest", bs "sha1:AAAA"); (bs "Content-Length", bs "7")]
        (mkblk BHttpResp (bs "H") (bs "payload")).
Definition ex20_ref : revref := mkref (bs "p") (bs "urn:uuid:1") (bs "http://a/") (bs "2020-01-01T00:00:00Z").
Definition ex20_opts := mkopts Fail Fail Fail Fail false true true true true true false false (bs "sha1") Base16.
Example C20_hypotheses_are_satisfiable :
  (exists rev, to_revisit field_table (fun s => s) (fun s => s) (fun _ _ => []) (fun _ => PIdentical) ex20_opts ex20_rec ex20_ref = Some rev) /\
  rf_id ex20_ref <> [] /\ edge_ok is_angle (rf_id ex20_ref) = true /\ rf_uri ex20_ref <> [] /\ rf_date ex20_ref <> [].
Proof. split; [eexists; vm_compute; reflexivity|]. repeat split; try discriminate. Qed.
