(** C11 — supported concurrent use is free of data races.

    PARTIAL.  Two halves are machine-checked, the bridge between them is not:

    (1) Model/Race.v, for EVERY trace of plain accesses and synchronisation events: if each
        location is either never written in the trace (written only before it is shared) or
        only accessed by threads holding one exclusive sync object, then no two conflicting
        accesses are unordered by happens-before - there is no data race.
    (2) Gen/AccessTable.v is regenerated on every run from the library's current source: every
        package-level variable with whether any function other than init mutates it; every
        function that touches a lock-guarded field of singleWarcFileWriter, whether it takes
        writeLock and who calls it; plain writes to fields of the shared WarcFileWriter and
        PatternNameGenerator outside constructors; calls that change process-wide state of
        dependencies.  The theorem below says the table follows the disciplines of (1): all
        package state is immutable after init or a sync object, no guarded access is reachable
        without the lock, shared objects are immutable after construction (Serial is atomic),
        process-wide mutators are called from init only.

    Not proved: that every execution of the Go code is a trace that (2) describes - the
    translator resolves types syntactically (no alias analysis), dependencies' internals and the
    Go memory model are taken as given.  That bridge is observed: the workloads of the property
    run under the Go race detector (harness domain race, a fresh process per case). *)
Require Import Model.Race Proofs.RaceProofs.
From Coq Require Import List.
Import ListNotations.

Theorem C11_guarded_accesses_are_ordered_by_happens_before :
  forall tr l s i j ei ej t1 w1 t2 w2,
    exclusive tr s -> guarded tr l s -> i < j ->
    nth_error tr i = Some ei -> nth_error tr j = Some ej ->
    access_of ei = Some (t1, l, w1) -> access_of ej = Some (t2, l, w2) -> t1 <> t2 ->
    hb tr i j.
Proof. exact guarded_accesses_are_ordered. Qed.
Print Assumptions C11_guarded_accesses_are_ordered_by_happens_before.

Theorem C11_disciplined_traces_have_no_data_race :
  forall tr, (forall l, read_only tr l \/ exists s, exclusive tr s /\ guarded tr l s) -> ~ race tr.
Proof. exact disciplined_trace_has_no_race. Qed.
Print Assumptions C11_disciplined_traces_have_no_data_race.

(* the theorem about the generated table is in Properties/AccessTable.v, so that a change of the
   source that breaks it leaves the trace theorems checked *)

(** the definitions bite: the same two writes without the mutex are a race; with it the
    hypotheses of the theorem are met *)
Theorem C11_unsynchronised_writes_are_a_race : race [Write 1 7; Write 2 7].
Proof. exact unlocked_trace_races. Qed.
Theorem C11_mutex_trace_meets_the_hypotheses : exclusive locked_trace 0 /\ guarded locked_trace 7 0.
Proof. exact locked_trace_disciplined. Qed.
