(** C08 — error-policy coherence: ignore, warn and fail tell one story.

    Proved here for the two validation stages whose sites all go through the one policy switch
    [site] or repeat it literally: header validation and length/digest verification.  The header
    parser, parseBlock and the end-of-record check are covered by the correspondence run and by
    the executable statement (uniform levels and axis-by-axis monotonicity evaluated on the
    implementation for every generated input); their coherence lemmas are not yet mechanised
    (PARTIAL, see DESIGN.md). *)
Require Import Model.Bytes Model.FieldDef Gen.FieldTable Model.Fields Model.Policy Model.Validate Model.Digest Model.Record.
Require Import Proofs.ValidateProofs Proofs.RecordProofs.
Local Open Scope N_scope.

Section C08.
Variable uni_lower : bytes -> bytes.
Variables time_ok ip_ok uri_ok wid_ok : bytes -> bool.
Notation validate := (validate_header field_table required_fields uni_lower time_ok ip_ok uri_ok wid_ok).

(** header validation, uniform levels: fail returns exactly the first finding warn reports, and a
    nil error under fail comes with an empty validation *)
Theorem C08_header_fail_is_first_warn_finding : forall vid hs, canonical field_table uni_lower hs ->
  match validate Fail Fail vid hs [] with
  | Ok a fs => fs = [] /\ findings_of (validate Warn Warn vid hs []) = []
  | Err e fs => fs = [] /\ hd_error (findings_of (validate Warn Warn vid hs [])) = Some e
  end.
Proof. exact (fail_reports_first_warn_finding field_table required_fields uni_lower time_ok ip_ok uri_ok wid_ok). Qed.

(** under ignore header validation produces no finding *)
Theorem C08_header_ignore_no_findings : forall vid hs,
  findings_of (validate Ignore Ignore vid hs []) = [].
Proof.
  intros vid hs. rewrite (ignore_result field_table required_fields uni_lower time_ok ip_ok uri_ok wid_ok Ignore vid hs) by discriminate.
  cbn. destruct (rt_of uni_lower hs =? 0); reflexivity.
Qed.

(** warn never turns a header defect into an error *)
Theorem C08_header_warn_never_errors : forall vid hs, canonical field_table uni_lower hs ->
  is_ok (validate Warn Warn vid hs []) = true.
Proof.
  intros vid hs HC. rewrite (warn_result field_table required_fields uni_lower time_ok ip_ok uri_ok wid_ok Warn vid hs HC) by discriminate.
  reflexivity.
Qed.
End C08.
Print Assumptions C08_header_fail_is_first_warn_finding.
Print Assumptions C08_header_ignore_no_findings.
Print Assumptions C08_header_warn_never_errors.

(** length/digest verification: ignore reports nothing; warn always returns the record and lists
    the defects; fail turns the first of them into the error *)
Theorem C08_digest_verification_coherent :
  forall tbl uni_lower H b32 b64 o rt hs b bd pd cached fnd,
    (o_spec o = Ignore -> exists hs', validate_digest tbl uni_lower H b32 b64 o rt hs b bd pd cached fnd = Ok hs' fnd) /\
    (o_spec o = Warn -> exists hs' fnd', validate_digest tbl uni_lower H b32 b64 o rt hs b bd pd cached fnd = Ok hs' fnd') /\
    (o_spec o = Fail -> length_defect tbl uni_lower hs b = true ->
       validate_digest tbl uni_lower H b32 b64 o rt hs b bd pd cached fnd = Err (KLength, []) fnd) /\
    (o_spec o = Fail -> length_defect tbl uni_lower hs b = false -> disagrees H b32 b64 bd = true ->
       validate_digest tbl uni_lower H b32 b64 o rt hs b bd pd cached fnd = Err (KDigest, n_block_digest) fnd).
Proof.
  intros. repeat split.
  - apply validate_digest_ignore.
  - intros HS. destruct (validate_digest_warn_reports tbl uni_lower H b32 b64 o rt hs b bd pd cached fnd HS) as (hs' & fnd' & E & _).
    exists hs', fnd'. exact E.
  - apply validate_digest_fail_length.
  - apply validate_digest_fail_block.
Qed.
Print Assumptions C08_digest_verification_coherent.
