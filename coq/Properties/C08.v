(** C08 — error-policy coherence: ignore, warn and fail tell one story.

    All four sentences are decided for the whole parser on plain streams (search for the record
    start, version line, header parser, header validation, parseBlock, length/digest
    verification, end-of-record marker) and for the whole builder, for every input and option
    setting.  Sentences 1 and 2 ("under ignore no validation finding is produced; under fail a
    nil error comes with an empty validation"): with no axis at warn - uniform ignore, uniform
    fail and every mix of the two - no stage adds a finding ([C08_no_axis_at_warn_*]).  Sentence 3
    ("fail returns an error exactly when warn produces at least one finding or an error"): the
    run under fail and the run under warn proceed in lock step until the first finding, stage by
    stage ([C08_parser_fail_errs_exactly_when_warn_finds_or_errs], [C08_builder_...];
    Proofs/SyncProofs.v, Proofs/SyncPipeProofs.v).  Sentence 4 (axis-by-axis monotonicity of
    rejection): proved for all four axes at once when the warc-fields block repair is off or the
    syntax level is the same in both settings ([C08_parser_rejection_is_monotone],
    [C08_builder_rejection_is_monotone]; Proofs/MonoProofs.v, Proofs/MonoPipeProofs.v), and
    REFUTED in the remaining case ([C08_axis_monotonicity_refuted_by_block_repair]): the block
    is only repaired when the syntax policy makes its problems visible, so a record that
    declares the digest of the repaired block is rejected under syntax=ignore, accepted under
    warn and rejected under fail.  The attempt to prove the sentence produced this witness; the
    implementation behaves the same (known finding wfblock-repair-nonmonotone).  Per-record
    gzip streams are covered at the level of items (a member is what its payload decompresses
    to, whole or cut; the compressed bytes themselves are not modelled): the member wrapper
    keeps all four sentences ([C08_gzip_*], Proofs/GzPolicyProofs.v).  The implementation is
    run under all axis settings for every generated input, plain and gzip. *)
Require Import Model.Bytes Model.FieldDef Gen.FieldTable Model.Fields Model.Policy Model.Validate Model.Digest Model.Record.
Require Import Model.Stream Proofs.NormalizeProofs Proofs.ValidateProofs Proofs.RecordProofs Proofs.PolicyProofs Proofs.SyncPipeProofs.
Local Open Scope N_scope.

Section C08.
Variable uni_lower : bytes -> bytes.
Variables time_ok ip_ok uri_ok wid_ok : bytes -> bool.
Notation validate := (validate_header field_table required_fields uni_lower time_ok ip_ok uri_ok wid_ok).

(** header validation, uniform levels: fail returns exactly the first finding warn reports, and a
    nil error under fail comes with an empty validation *)
Theorem C08_header_fail_is_first_warn_finding : forall vid hs, canonical field_table uni_lower hs ->
  match validate Fail Fail vid hs [] with
  | Ok a fs => fs = [] /\ findings_of (validate Warn Warn vid hs []) = []
  | Err e fs => fs = [] /\ hd_error (findings_of (validate Warn Warn vid hs [])) = Some e
  end.
Proof. exact (fail_reports_first_warn_finding field_table required_fields uni_lower time_ok ip_ok uri_ok wid_ok). Qed.

(** under ignore header validation produces no finding *)
Theorem C08_header_ignore_no_findings : forall vid hs,
  findings_of (validate Ignore Ignore vid hs []) = [].
Proof.
  intros vid hs. rewrite (ignore_result field_table required_fields uni_lower time_ok ip_ok uri_ok wid_ok Ignore vid hs) by discriminate.
  cbn. destruct (rt_of uni_lower hs =? 0); reflexivity.
Qed.

(** warn never turns a header defect into an error *)
Theorem C08_header_warn_never_errors : forall vid hs, canonical field_table uni_lower hs ->
  is_ok (validate Warn Warn vid hs []) = true.
Proof.
  intros vid hs HC. rewrite (warn_result field_table required_fields uni_lower time_ok ip_ok uri_ok wid_ok Warn vid hs HC) by discriminate.
  reflexivity.
Qed.
End C08.
Print Assumptions C08_header_fail_is_first_warn_finding.
Print Assumptions C08_header_ignore_no_findings.
Print Assumptions C08_header_warn_never_errors.

(** length/digest verification: ignore reports nothing; warn always returns the record and lists
    the defects; fail turns the first of them into the error *)
Theorem C08_digest_verification_coherent :
  forall tbl uni_lower H b32 b64 o rt hs b bd pd cached fnd,
    (o_spec o = Ignore -> exists hs', validate_digest tbl uni_lower H b32 b64 o rt hs b bd pd cached fnd = Ok hs' fnd) /\
    (o_spec o = Warn -> exists hs' fnd', validate_digest tbl uni_lower H b32 b64 o rt hs b bd pd cached fnd = Ok hs' fnd') /\
    (o_spec o = Fail -> length_defect tbl uni_lower hs b = true ->
       validate_digest tbl uni_lower H b32 b64 o rt hs b bd pd cached fnd = Err (KLength, []) fnd) /\
    (o_spec o = Fail -> length_defect tbl uni_lower hs b = false -> disagrees H b32 b64 bd = true ->
       validate_digest tbl uni_lower H b32 b64 o rt hs b bd pd cached fnd = Err (KDigest, n_block_digest) fnd).
Proof.
  intros. repeat split.
  - apply validate_digest_ignore.
  - intros HS. destruct (validate_digest_warn_reports tbl uni_lower H b32 b64 o rt hs b bd pd cached fnd HS) as (hs' & fnd' & E & _).
    exists hs', fnd'. exact E.
  - apply validate_digest_fail_length.
  - apply validate_digest_fail_block.
Qed.
Print Assumptions C08_digest_verification_coherent.

(** sentences 1 and 2 for the whole parser and the whole builder *)
Theorem C08_no_axis_at_warn_parser_adds_no_finding :
  forall uni_lower uni_upper time_ok ip_ok uri_ok wid_ok mime_dec H b32 b64 http_req_ok http_resp_ok o s,
    no_warn o ->
    ufindings (snd (unmarshal_plain field_table required_fields uni_lower uni_upper time_ok ip_ok uri_ok wid_ok
                                    mime_dec H b32 b64 http_req_ok http_resp_ok o s)) = [].
Proof. intros. apply unmarshal_plain_quiet; assumption. Qed.
Print Assumptions C08_no_axis_at_warn_parser_adds_no_finding.

Theorem C08_no_axis_at_warn_builder_adds_no_finding :
  forall uni_lower uni_upper time_ok ip_ok uri_ok wid_ok mime_dec H b32 b64 http_req_ok http_resp_ok o vid rt hs content new_id,
    no_warn o ->
    findings_of (fst (build field_table required_fields uni_lower uni_upper time_ok ip_ok uri_ok wid_ok
                            mime_dec H b32 b64 http_req_ok http_resp_ok o vid rt hs content new_id)) = [].
Proof. intros. apply build_quiet; assumption. Qed.
Print Assumptions C08_no_axis_at_warn_builder_adds_no_finding.

(** the two uniform levels are instances *)
Definition uniform (p : policy) (o : opts) : Prop :=
  o_syntax o = p /\ o_spec o = p /\ o_unknown o = p /\ o_block o = p.
Theorem C08_uniform_ignore_and_uniform_fail_are_covered :
  forall o, uniform Ignore o \/ uniform Fail o -> no_warn o.
Proof. intros o [(H1 & H2 & H3 & H4)|(H1 & H2 & H3 & H4)]; unfold no_warn; rewrite H1, H2, H3, H4; repeat split; discriminate. Qed.

(** sentence 3, uniform levels, the whole parser and the whole builder *)
Theorem C08_parser_fail_errs_exactly_when_warn_finds_or_errs :
  forall uni_lower uni_upper time_ok ip_ok uri_ok wid_ok mime_dec H b32 b64 http_req_ok http_resp_ok o s,
    let run p := snd (unmarshal_plain field_table required_fields uni_lower uni_upper time_ok ip_ok uri_ok wid_ok
                                      mime_dec H b32 b64 http_req_ok http_resp_ok (uni o p) s) in
    uerr (run Fail) = true <-> (ufindings (run Warn) <> [] \/ uerr (run Warn) = true).
Proof. intros. apply unmarshal_fail_errs_iff_warn_finds_or_errs. exact gen_table_ok. Qed.
Print Assumptions C08_parser_fail_errs_exactly_when_warn_finds_or_errs.

Theorem C08_builder_fail_errs_exactly_when_warn_finds_or_errs :
  forall uni_lower uni_upper time_ok ip_ok uri_ok wid_ok mime_dec H b32 b64 http_req_ok http_resp_ok o vid rt hs content new_id,
    canonical field_table uni_lower hs ->
    let run p := fst (build field_table required_fields uni_lower uni_upper time_ok ip_ok uri_ok wid_ok
                            mime_dec H b32 b64 http_req_ok http_resp_ok (uni o p) vid rt hs content new_id) in
    is_ok (run Fail) = false <-> (findings_of (run Warn) <> [] \/ is_ok (run Warn) = false).
Proof. intros. apply build_fail_errs_iff_warn_finds_or_errs; [exact gen_table_ok|assumption]. Qed.
Print Assumptions C08_builder_fail_errs_exactly_when_warn_finds_or_errs.

(** the last sentence, stage theorems: rejected under a lenient level, rejected under every
    stricter one *)
Require Import Model.HeaderParse Proofs.MonoProofs.
Theorem C08_header_parser_rejection_is_monotone :
  forall uni_lower mime_dec p q s, stricter p q ->
    is_ok (parse_fields field_table uni_lower mime_dec p s []) = false ->
    is_ok (parse_fields field_table uni_lower mime_dec q s []) = false.
Proof. intros. eapply parse_fields_rejection_is_monotone; eassumption. Qed.
Print Assumptions C08_header_parser_rejection_is_monotone.

Theorem C08_header_validation_rejection_is_monotone :
  forall uni_lower time_ok ip_ok uri_ok wid_ok ps pu ps' pu' vid hs fs fs',
    canonical field_table uni_lower hs -> stricter ps ps' -> stricter pu pu' ->
    is_ok (validate_header field_table required_fields uni_lower time_ok ip_ok uri_ok wid_ok ps pu vid hs fs) = false ->
    is_ok (validate_header field_table required_fields uni_lower time_ok ip_ok uri_ok wid_ok ps' pu' vid hs fs') = false.
Proof. intros. eapply validate_header_rejection_is_monotone; eassumption. Qed.
Print Assumptions C08_header_validation_rejection_is_monotone.

(** accepted by the header parser under fail: the same fields under every policy *)
Theorem C08_header_parser_strict_acceptance_is_policy_independent :
  forall uni_lower mime_dec p s b,
    parse_fields field_table uni_lower mime_dec Fail s [] = Ok b [] ->
    parse_fields field_table uni_lower mime_dec p s [] = Ok b [].
Proof. intros. apply parse_fields_strict_ok_everywhere; assumption. Qed.
Print Assumptions C08_header_parser_strict_acceptance_is_policy_independent.

(** the last sentence is false of the whole parser when the warc-fields block repair is on *)
From Coq Require Import String.
Definition r_id (s : bytes) := s.
Definition r_yes (s : bytes) := true.
Definition r_h (a : alg) (s : bytes) : bytes := s.      (* any injective "hash" will do *)
Definition r_nodec (s : bytes) : option bytes := None.
(* spec and unknown-type at fail, block policy ignore, all additions and repairs off except the
   warc-fields block repair; only the syntax axis varies *)
Definition r_opts (syn : policy) := mkopts syn Fail Fail Ignore false false false false false false false true (bs "sha1") Base16.
Definition r_crlf : bytes := [13;10].
(* the block "x:  y" LF has a bare line feed; repaired it reads "X: y" CR LF - the same length -
   and the record declares the digest of that repaired block *)
Definition r_stream : bytes :=
  (bs "WARC/1.1" ++ r_crlf ++ bs "WARC-Type: warcinfo" ++ r_crlf ++
   bs "WARC-Record-ID: <urn:uuid:e9a0cecc-0221-11e7-adb1-0242ac120008>" ++ r_crlf ++
   bs "WARC-Date: 2017-03-06T04:03:53Z" ++ r_crlf ++ bs "Content-Type: application/warc-fields" ++ r_crlf ++
   bs "Content-Length: 6" ++ r_crlf ++ bs "WARC-Block-Digest: sha1:583a20790d0a" ++ r_crlf ++ r_crlf ++
   bs "x:  y" ++ [10] ++ r_crlf ++ r_crlf)%list.
Definition r_run (syn : policy) :=
  parse_record field_table required_fields r_id r_id r_yes r_yes r_yes r_yes r_nodec r_h r_nodec r_nodec r_yes r_yes
               (r_opts syn) (mkst r_stream TEOF) [].
Theorem C08_axis_monotonicity_refuted_by_block_repair :
  uerr (r_run Ignore) = true /\ uerr (r_run Warn) = false /\ ufindings (r_run Warn) = [] /\ uerr (r_run Fail) = true.
Proof. vm_compute. repeat split; reflexivity. Qed.
Print Assumptions C08_axis_monotonicity_refuted_by_block_repair.

(** the last sentence for the whole parser (plain streams) and the whole builder.  Every option
    flag held fixed ([relevel4 o py ps pu pb] is [o] with the syntax, spec, unknown-type and block
    axes at py, ps, pu, pb), an input rejected under one setting is rejected under every setting
    at least as strict on each axis - in particular axis by axis - provided the syntax level is
    the same in both settings or the warc-fields block repair is off.  With that repair on and
    the syntax level varying the sentence is false ([C08_axis_monotonicity_refuted_by_block_repair]
    above), so the side condition is exactly what the code satisfies.  Proof: every stage is
    blind to the findings it is handed, so the pipeline is a function of the erased values, on
    which each policy-dependent stage is monotone (Proofs/MonoPipeProofs.v). *)
Require Import Proofs.MonoPipeProofs.
Theorem C08_parser_rejection_is_monotone :
  forall uni_lower uni_upper time_ok ip_ok uri_ok wid_ok mime_dec H b32 b64 http_req_ok http_resp_ok
         o py ps pu pb py' ps' pu' pb' s,
    stricter py py' -> stricter ps ps' -> stricter pu pu' -> stricter pb pb' ->
    (py = py' \/ o_fix_wfblock o = false) ->
    let run oo := snd (unmarshal_plain field_table required_fields uni_lower uni_upper time_ok ip_ok uri_ok wid_ok
                                       mime_dec H b32 b64 http_req_ok http_resp_ok oo s) in
    uerr (run (relevel4 o py ps pu pb)) = true -> uerr (run (relevel4 o py' ps' pu' pb')) = true.
Proof. intros. eapply unmarshal_rejection_is_monotone4; try eassumption. exact gen_table_ok. Qed.
Print Assumptions C08_parser_rejection_is_monotone.

Theorem C08_builder_rejection_is_monotone :
  forall uni_lower uni_upper time_ok ip_ok uri_ok wid_ok mime_dec H b32 b64 http_req_ok http_resp_ok
         o py ps pu pb py' ps' pu' pb' vid rt hs content new_id,
    stricter py py' -> stricter ps ps' -> stricter pu pu' -> stricter pb pb' ->
    (py = py' \/ o_fix_wfblock o = false) -> canonical field_table uni_lower hs ->
    let run oo := fst (build field_table required_fields uni_lower uni_upper time_ok ip_ok uri_ok wid_ok
                             mime_dec H b32 b64 http_req_ok http_resp_ok oo vid rt hs content new_id) in
    is_ok (run (relevel4 o py ps pu pb)) = false -> is_ok (run (relevel4 o py' ps' pu' pb')) = false.
Proof. intros. eapply build_rejection_is_monotone4; try eassumption. exact gen_table_ok. Qed.
Print Assumptions C08_builder_rejection_is_monotone.

Definition r_stream2 : bytes :=
  (bs "WARC/1.1" ++ r_crlf ++ bs "WARC-Type: resource" ++ r_crlf ++
   bs "WARC-Record-ID: <urn:uuid:e9a0cecc-0221-11e7-adb1-0242ac120008>" ++ r_crlf ++
   bs "WARC-Date: 2017-03-06T04:03:53Z" ++ r_crlf ++ bs "Content-Type: text/plain" ++ r_crlf ++
   bs "Content-Length: 4" ++ r_crlf ++ r_crlf ++ bs "abcdef" ++ r_crlf ++ r_crlf)%list.
Definition r_run_at (spec : policy) :=
  snd (unmarshal_plain field_table required_fields r_id r_id r_yes r_yes r_yes r_yes r_nodec r_h r_nodec r_nodec r_yes r_yes
               (relevel4 (r_opts Warn) Warn spec Warn Warn) (mkst r_stream2 TEOF)).
(** non-vacuity: a record with a wrong declared length is accepted with the spec axis at warn
    and rejected with it at fail *)
Example C08_monotone_example :
  uerr (r_run_at Warn) = false /\ uerr (r_run_at Fail) = true.
Proof. vm_compute. split; reflexivity. Qed.

(** per-record gzip streams (a stream is a list of items: junk bytes, members given by what their
    payload decompresses to - whole, or cut with io.ErrUnexpectedEOF after a decodable prefix -
    and members cut inside the gzip header; Model/Record.v [unmarshal_gz]): the member wrapper
    around the record parser keeps all four sentences *)
Require Import Proofs.GzPolicyProofs.
Theorem C08_gzip_no_axis_at_warn_adds_no_finding :
  forall uni_lower uni_upper time_ok ip_ok uri_ok wid_ok mime_dec H b32 b64 http_req_ok http_resp_ok o items,
    no_warn o ->
    ufindings (gres (unmarshal_gz field_table required_fields uni_lower uni_upper time_ok ip_ok uri_ok wid_ok
                                  mime_dec H b32 b64 http_req_ok http_resp_ok o items)) = [].
Proof. intros. apply unmarshal_gz_quiet; assumption. Qed.
Print Assumptions C08_gzip_no_axis_at_warn_adds_no_finding.

Theorem C08_gzip_fail_errs_exactly_when_warn_finds_or_errs :
  forall uni_lower uni_upper time_ok ip_ok uri_ok wid_ok mime_dec H b32 b64 http_req_ok http_resp_ok o items,
    (forall j rest, items = GJunk j :: rest -> j <> []) ->      (* a junk item is at least one byte *)
    let run p := gres (unmarshal_gz field_table required_fields uni_lower uni_upper time_ok ip_ok uri_ok wid_ok
                                    mime_dec H b32 b64 http_req_ok http_resp_ok (uni o p) items) in
    uerr (run Fail) = true <-> (ufindings (run Warn) <> [] \/ uerr (run Warn) = true).
Proof. intros. apply unmarshal_gz_fail_errs_iff_warn_finds_or_errs; [exact gen_table_ok|assumption]. Qed.
Print Assumptions C08_gzip_fail_errs_exactly_when_warn_finds_or_errs.

Theorem C08_gzip_rejection_is_monotone :
  forall uni_lower uni_upper time_ok ip_ok uri_ok wid_ok mime_dec H b32 b64 http_req_ok http_resp_ok
         o py ps pu pb py' ps' pu' pb' items,
    stricter py py' -> stricter ps ps' -> stricter pu pu' -> stricter pb pb' ->
    (py = py' \/ o_fix_wfblock o = false) ->
    let run oo := gres (unmarshal_gz field_table required_fields uni_lower uni_upper time_ok ip_ok uri_ok wid_ok
                                     mime_dec H b32 b64 http_req_ok http_resp_ok oo items) in
    uerr (run (relevel4 o py ps pu pb)) = true -> uerr (run (relevel4 o py' ps' pu' pb')) = true.
Proof. intros. eapply unmarshal_gz_rejection_is_monotone; try eassumption. exact gen_table_ok. Qed.
Print Assumptions C08_gzip_rejection_is_monotone.
