(** C16 — block accessors give the same answers in any call order.

    Model: Model/Block.v [block_step] — the content-access state machine shared by genericBlock,
    httpRequestBlock and httpResponseBlock (source position, installed digesting reader, frozen
    digest strings, bytes fed), for a seekable (cached) or one-shot source.  Spec: [spec_step], a
    function of the COMPLETE block only.  [fmt_block]/[fmt_payload] stand for format() of the two
    digests (any functions). *)
Require Import Model.Bytes Model.Block Proofs.BlockProofs.

(** For every block (any protocol header, any payload, cached or not), every sequence of
    RawBytes / PayloadBytes (each returned reader drained fully, partly or not at all before the
    next call) / BlockDigest / PayloadDigest / Size / Cache / IsCached, of any length:
    - digests and size are always those of the complete block,
    - every reader obtained from a cached block yields the block from its first byte,
    - a further content access on an uncached block is the explicit error,
    - Cache succeeds exactly when the content is still available, and makes the block cached. *)
Theorem C16_accessors_answer_from_the_complete_block :
  forall fmt_block fmt_payload head body cached ops,
    block_run fmt_block fmt_payload (fresh head body cached) ops
    = spec_run fmt_block fmt_payload (mksb head body cached false) ops.
Proof.
  intros. apply accessors_refine. apply fresh_rel.
Qed.
Print Assumptions C16_accessors_answer_from_the_complete_block.

(** read off the specification: whatever happened before, digest and size describe the whole block *)
Theorem C16_digests_and_size_describe_the_complete_block :
  forall fmt_block fmt_payload s,
    snd (spec_step fmt_block fmt_payload s ABlockDigest) = RStr (fmt_block (s_head s ++ s_body s)) /\
    snd (spec_step fmt_block fmt_payload s APayloadDigest) = RStr (fmt_payload (s_body s)) /\
    snd (spec_step fmt_block fmt_payload s ASize) = RNum (length (s_head s) + length (s_body s)).
Proof. intros. repeat split. Qed.
Print Assumptions C16_digests_and_size_describe_the_complete_block.

Theorem C16_cached_readers_start_at_the_first_byte :
  forall fmt_block fmt_payload s, s_cached s = true ->
    snd (spec_step fmt_block fmt_payload s (ARaw None)) = RData (s_head s ++ s_body s) /\
    snd (spec_step fmt_block fmt_payload s (APayload None)) = RData (s_body s).
Proof. intros ? ? s H. cbn. rewrite H. split; reflexivity. Qed.
Print Assumptions C16_cached_readers_start_at_the_first_byte.

Theorem C16_uncached_reaccess_is_an_explicit_error :
  forall fmt_block fmt_payload s d, s_cached s = false -> s_used s = true ->
    snd (spec_step fmt_block fmt_payload s (ARaw d)) = RErr /\
    snd (spec_step fmt_block fmt_payload s (APayload d)) = RErr.
Proof. intros ? ? s d H1 H2. cbn. rewrite H1, H2. split; reflexivity. Qed.
Print Assumptions C16_uncached_reaccess_is_an_explicit_error.

(** non-vacuity: an uncached HTTP block, reader partly drained, then digests, then re-access *)
Example C16_example :
  block_run (fun x => 0%N :: x) (fun x => 1%N :: x) (fresh [72; 13; 10]%N [1; 2; 3; 4]%N false)
            [ARaw (Some 4%nat); ASize; ABlockDigest; APayload None; ACache]
  = [RData [72; 13; 10; 1]%N; RNum 7%nat; RStr [0; 72; 13; 10; 1; 2; 3; 4]%N; RErr; RErr].
Proof. vm_compute. reflexivity. Qed.
