(** C03 — length and digest verification is sound and complete.

    Model: Model/Record.v [validate_digest] (ValidateDigest of record.go, the same function on
    the builder and the parser path) and Model/Digest.v [dvalidate].  A declared digest
    "disagrees" when it has a value that does not decode (in the detected encoding) to the hash
    of the bytes fed; a declared length disagrees when its text is not the decimal size of the
    block.  [length_defect], [disagrees]: Proofs/RecordProofs.v. *)
Require Import Model.Bytes Model.FieldDef Model.Fields Model.Policy Model.Digest Model.Record.
Require Import Proofs.DigestProofs Proofs.RecordProofs.
Local Open Scope N_scope.

Section C03.
Variable tbl : list fielddef.
Variable uni_lower : bytes -> bytes.
Variable H : alg -> bytes -> bytes.
Variables b32_decode b64_decode : bytes -> option bytes.
Notation validate := (validate_digest tbl uni_lower H b32_decode b64_decode).
Notation length_defect := (length_defect tbl uni_lower).
Notation disagrees := (disagrees H b32_decode b64_decode).

(** completeness under fail: a wrong length is an error ... *)
Theorem C03_fail_reports_wrong_length : forall o rt hs b bd pd cached fnd,
  o_spec o = Fail -> length_defect hs b = true ->
  validate o rt hs b bd pd cached fnd = Err (KLength, []) fnd.
Proof. exact (validate_digest_fail_length tbl uni_lower H b32_decode b64_decode). Qed.

(** ... and so is a disagreeing block digest *)
Theorem C03_fail_reports_wrong_block_digest : forall o rt hs b bd pd cached fnd,
  o_spec o = Fail -> length_defect hs b = false -> disagrees bd = true ->
  validate o rt hs b bd pd cached fnd = Err (KDigest, n_block_digest) fnd.
Proof. exact (validate_digest_fail_block tbl uni_lower H b32_decode b64_decode). Qed.

(** under warn the same defects are findings and the record is still returned *)
Theorem C03_warn_reports_and_returns : forall o rt hs b bd pd cached fnd,
  o_spec o = Warn ->
  exists hs' fnd', validate o rt hs b bd pd cached fnd = Ok hs' fnd' /\
    (length_defect hs b = true -> exists r, fnd' = fnd ++ (KLength, []) :: r) /\
    (length_defect hs b = false -> disagrees bd = true -> exists r, fnd' = fnd ++ (KDigest, n_block_digest) :: r).
Proof. exact (validate_digest_warn_reports tbl uni_lower H b32_decode b64_decode). Qed.

(** soundness: correct declared values are never reported, under any policy *)
Theorem C03_correct_values_are_never_reported : forall o rt hs b bd pd cached fnd,
  length_defect hs b = false -> disagrees bd = false ->
  (forall p, pd = Some p -> disagrees p = false) ->
  exists hs', validate o rt hs b bd pd cached fnd = Ok hs' fnd.
Proof. exact (validate_digest_clean tbl uni_lower H b32_decode b64_decode). Qed.

(** under ignore nothing is reported at all *)
Theorem C03_ignore_reports_nothing : forall o rt hs b bd pd cached fnd,
  o_spec o = Ignore -> exists hs', validate o rt hs b bd pd cached fnd = Ok hs' fnd.
Proof. exact (validate_digest_ignore tbl uni_lower H b32_decode b64_decode). Qed.
End C03.

Print Assumptions C03_fail_reports_wrong_length.
Print Assumptions C03_fail_reports_wrong_block_digest.
Print Assumptions C03_warn_reports_and_returns.
Print Assumptions C03_correct_values_are_never_reported.
Print Assumptions C03_ignore_reports_nothing.

(** a base16 digest agrees in either letter case (newDigest lower-cases it; the decoder accepts both) *)
Theorem C03_base16_case_insensitive :
  forall s, Forall is_byte s -> hex_decode (ascii_upper (hex_encode s)) = hex_decode (hex_encode s).
Proof. intros s Hs. rewrite hex_decode_upper, hex_decode_encode by exact Hs. reflexivity. Qed.
Print Assumptions C03_base16_case_insensitive.

(** the payload clause: under fail, once the length and the block digest are in order, a declared
    payload digest that disagrees with the payload (the bytes after the HTTP header; the whole
    block of a resource record) is the error *)
Require Import Proofs.BuildProofs.
Theorem C03_fail_reports_wrong_payload_digest :
  forall tbl uni_lower H b32_decode b64_decode o rt hs b bd pd cached fnd p,
    o_spec o = Fail -> o_add_digest o = false ->
    length_defect tbl uni_lower hs b = false -> disagrees H b32_decode b64_decode bd = false ->
    (rt =? 32)%N = false -> m_has tbl uni_lower n_segment_number hs = false ->
    payload_obj rt b pd = Some p -> disagrees H b32_decode b64_decode p = true ->
    validate_digest tbl uni_lower H b32_decode b64_decode o rt hs b bd pd cached fnd
    = Err (KDigest, n_payload_digest) fnd.
Proof. exact validate_digest_fail_payload. Qed.
Print Assumptions C03_fail_reports_wrong_payload_digest.

(** the last sentence: with the repair options on under warn, the header values afterwards equal
    the true length and digests of the block.  [true_digest_text d] is "algorithm:encoding(hash
    of exactly the bytes d was fed)", in d's algorithm and encoding. *)
Require Import Gen.FieldTable Model.Validate Proofs.RepairProofs.
Theorem C03_repaired_text_is_the_digest_of_the_fed_bytes :
  forall H d, true_digest_text H d = (d_name d ++ [COLON] ++ encode (d_enc d) (H (d_alg d) (d_fed d)))%list.
Proof. reflexivity. Qed.

Theorem C03_warn_repairs_length_and_block_digest :
  forall uni_lower H b32_decode b64_decode o rt hs b bd pd cached fnd hs' fnd',
    o_spec o = Warn -> o_fix_cl o = true -> o_fix_digest o = true ->
    validate_digest field_table uni_lower H b32_decode b64_decode o rt hs b bd pd cached fnd = Ok hs' fnd' ->
    (m_has field_table uni_lower n_content_length hs = true ->
     m_get field_table uni_lower n_content_length hs' = itoa (Z.of_nat (List.length (raw_bytes b)))) /\
    (disagrees H b32_decode b64_decode bd = true ->
     m_get field_table uni_lower n_block_digest hs' = true_digest_text H bd).
Proof. intros. eapply validate_digest_warn_repairs; eassumption. Qed.
Print Assumptions C03_warn_repairs_length_and_block_digest.

Theorem C03_warn_repairs_payload_digest :
  forall uni_lower H b32_decode b64_decode o rt hs b bd pd cached fnd hs' fnd' p,
    o_spec o = Warn -> o_fix_cl o = true -> o_fix_digest o = true ->
    (rt =? 32)%N = false -> m_has field_table uni_lower n_segment_number hs = false ->
    payload_obj rt b pd = Some p -> disagrees H b32_decode b64_decode p = true ->
    validate_digest field_table uni_lower H b32_decode b64_decode o rt hs b bd pd cached fnd = Ok hs' fnd' ->
    m_get field_table uni_lower n_payload_digest hs' = true_digest_text H p.
Proof. intros. eapply validate_digest_warn_repairs_payload; eassumption. Qed.
Print Assumptions C03_warn_repairs_payload_digest.

(** "... and a record whose declared values are correct is never reported, in any supported
    algorithm, in base16/base32/base64 and in either letter case": the text of the true digest of
    the bytes [x] - hex in lower or upper case, base32 in upper or lower case, base64 - is read by
    newDigest, for every supported algorithm and whatever default encoding the reader has, as a
    digest of that algorithm which does not disagree with [x]; with
    [C03_correct_values_are_never_reported] such a record is never reported.  The hash function
    is any function returning [alg_size] bytes; the base32 / base64 decoders are oracles assumed
    to invert the modelled encoders on the hash values that occur. *)
Require Import Proofs.CodecProofs Proofs.Codec3264Proofs Proofs.DigestCaseProofs.
Theorem C03_true_digest_is_accepted_in_every_encoding_and_case :
  forall uni_lower uni_upper H b32 b64 al x e,
    (forall a y, List.length (H a y) = alg_size a /\ Forall is_byte (H a y)) ->
    (forall a y, b32 (b32_encode (H a y)) = Some (H a y)) ->
    (forall a y, b64 (b64_encode (H a y)) = Some (H a y)) ->
    forall t, In t [hex_encode (H al x); ascii_upper (hex_encode (H al x));
                    b32_encode (H al x); ascii_lower (b32_encode (H al x)); b64_encode (H al x)] ->
      exists d, new_digest uni_lower uni_upper (alg_name al ++ [COLON] ++ t)%list e = Some d /\ d_alg d = al /\
                disagrees H b32 b64 (feed d x) = false.
Proof.
  intros ul uu H b32 b64 al x e Hsz H32 H64 t Hin.
  assert (Hacc : accepted ul uu H b32 b64 al x t e).
  { cbn [In] in Hin. destruct Hin as [<-|[<-|[<-|[<-|[<-|[]]]]]].
    - apply lower_hex_accepted; assumption.
    - apply upper_hex_accepted; assumption.
    - apply upper_b32_accepted; assumption.
    - apply lower_b32_accepted; assumption.
    - apply b64_accepted; assumption. }
  destruct Hacc as (d & Hn & Ha & _ & Hv). exists d. split; [exact Hn|]. split; [exact Ha|].
  unfold disagrees. rewrite Hv. apply Bool.andb_false_r.
Qed.
Print Assumptions C03_true_digest_is_accepted_in_every_encoding_and_case.
