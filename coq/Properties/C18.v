(** C18 — WarcFields is an ordered, case-insensitive multimap.

    Model: Model/Fields.v ([fstep]: the methods of warcfields.go as written, [normalize_name] over the
    field table regenerated from /repo).  Spec: the reference ordered multimap [sstep] keyed by
    canonical name.  [uni_lower] is the oracle for strings.ToLower on non-ASCII names; every
    theorem holds for every such function. *)
Require Import Model.Bytes Model.FieldDef Gen.FieldTable Model.Fields.
Require Import Proofs.BytesProofs Proofs.FieldsProofs Proofs.NormalizeProofs Proofs.DecimalProofs.
From Coq Require Import Sorted.

(** Every operation sequence, of any length, from any starting content: all observations and the
    final content are those of the reference multimap.  (The model has no panic outcome at all:
    each method is a total function, matching the repaired Set.) *)
Theorem C18_fields_refine_multimap :
  forall (uni_lower : bytes -> bytes) (ops : list fop) (l : fields),
    frun field_table uni_lower l ops = srun field_table uni_lower l ops.
Proof. exact (fields_refine field_table). Qed.
Print Assumptions C18_fields_refine_multimap.

Theorem C18_normalize_idempotent :
  forall uni_lower n, normalize_name field_table uni_lower (normalize_name field_table uni_lower n) = normalize_name field_table uni_lower n.
Proof. exact (normalize_idem field_table gen_table_ok). Qed.
Print Assumptions C18_normalize_idempotent.

(** names in any letter case: for RFC 7230 token names and for every known WARC field *)
Theorem C18_normalize_case_insensitive :
  forall uni_lower a b,
    all_ascii a = true -> all_ascii b = true -> ascii_lower a = ascii_lower b ->
    (forallb is_tchar a = true \/ lookup_def field_table (ascii_lower a) <> None) ->
    normalize_name field_table uni_lower a = normalize_name field_table uni_lower b.
Proof. exact (normalize_case_insensitive field_table). Qed.
Print Assumptions C18_normalize_case_insensitive.

(** Set leaves exactly one value at the position of the first occurrence; nothing else moves *)
Theorem C18_set_one_value_at_first_position :
  forall k v l,
    s_values k (s_set k v l) = [v] /\
    s_delete k (s_set k v l) = s_delete k l /\
    (s_has k l = false -> s_set k v l = l ++ [(k, v)]) /\
    (s_has k l = true -> exists pre old post,
        l = pre ++ (k, old) :: post /\ s_has k pre = false /\
        s_set k v l = pre ++ (k, v) :: s_delete k post).
Proof. exact set_one_value_at_first_position. Qed.
Print Assumptions C18_set_one_value_at_first_position.

(** Delete removes all occurrences and nothing else *)
Theorem C18_delete_removes_all :
  forall k l,
    s_has k (s_delete k l) = false /\ s_values k (s_delete k l) = [] /\
    forall k', k' <> k -> filter (name_is k') (s_delete k l) = filter (name_is k') l.
Proof.
  intros k l. split; [apply s_has_delete|]. split; [apply s_values_delete|].
  intros k' H. apply filter_other_delete. exact H.
Qed.
Print Assumptions C18_delete_removes_all.

(** Sort: the result is ordered by name, has the same length, and for every name the
    sub-sequence of its fields is unchanged (stability; this also fixes the multiset) *)
Theorem C18_sort_stable_by_name :
  forall l, Sorted name_le (s_sort l) /\ length (s_sort l) = length l /\
            forall k, filter (name_is k) (s_sort l) = filter (name_is k) l.
Proof.
  intros l. split; [apply sort_sorted|]. split; [apply sort_length|]. intros k. apply sort_stable.
Qed.
Print Assumptions C18_sort_stable_by_name.

(** serialization lists the pairs as "Name: value CRLF" *)
Theorem C18_serialization :
  forall l, m_write l = concat (map (fun p => fst p ++ [58; 32] ++ snd p ++ [13; 10]) l).
Proof. exact m_write_spec. Qed.
Print Assumptions C18_serialization.

(** GetInt/GetInt64 read back what AddInt/AddInt64 wrote *)
Theorem C18_itoa_atoi : forall z, in_int64 z = true -> atoi (itoa z) = Some z.
Proof. exact atoi_itoa. Qed.
Print Assumptions C18_itoa_atoi.

(** non-vacuity: a concrete history with colliding names, repeats, Set, Delete, Sort *)
Example C18_nontrivial_history :
  let ops := [FAdd [98] [49]; FAdd [65] [50]; FAdd [97] [51]; FAdd [66] [52]; FSet [97] [57];
              FSort; FDelete [98]; FGetAll [97]] in
  fst (frun field_table (fun s => s) [] ops) = [ONone; ONone; ONone; ONone; ONone; ONone; ONone; OList [[57]]].
Proof. vm_compute. reflexivity. Qed.
