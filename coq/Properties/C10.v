(** C10 — Write, Rotate and Close always return.

    For every number of callers with every finite script of Write / Rotate / Close calls, every
    number of workers >= 1 and every interleaving: no reachable state with an unfinished call is
    stuck, no run is infinite, hence on every run all calls have returned after finitely many
    steps.  When a Close returns all workers have ended and every worker's file is closed, and
    stays closed; a Write that starts when the writer is closed returns no responses in its first
    own step.

    What the model cannot exhibit: the Go scheduler's fairness (a runnable goroutine eventually
    runs) and the assumption that user hooks and the file system calls inside a critical section
    return.  A continuation segment is written through the unlocked inner write; the translator
    (Gen/SyncSkeleton.v) checks that no call path re-enters the locking Write. *)
Require Import Model.Bytes Model.Protocol Proofs.ProtocolProofs.
From Coq Require Import Arith.
Local Open Scope nat_scope.

Theorem C10_no_deadlock :
  forall scripts nworkers s, 0 < nworkers -> reach (init scripts nworkers) s ->
    all_done s = false -> exists s', step s s'.
Proof. exact P_C10_no_deadlock. Qed.
Print Assumptions C10_no_deadlock.

Theorem C10_no_infinite_run : well_founded (fun s' s => step s s').
Proof. exact no_infinite_run. Qed.
Print Assumptions C10_no_infinite_run.

Theorem C10_every_call_returns_on_every_run :
  forall scripts nworkers s, 0 < nworkers -> reach (init scripts nworkers) s ->
    inevitably (fun s => all_done s = true) s.
Proof. exact P_C10_every_call_returns_on_every_run. Qed.
Print Assumptions C10_every_call_returns_on_every_run.

Theorem C10_close_returns_only_when_every_file_is_closed :
  forall scripts nworkers s s' i c c', 0 < nworkers -> reach (init scripts nworkers) s -> step s s' ->
    nth_error (callers s) i = Some c -> c_pc c = CC2 ->
    nth_error (callers s') i = Some c' -> c_pc c' <> CC2 ->
    all_ended (workers s') = true /\
    forall w, w < length (workers s') -> nth_error (files s') w = Some false.
Proof. exact P_C10_close_returns_only_when_every_file_is_closed. Qed.
Print Assumptions C10_close_returns_only_when_every_file_is_closed.

Theorem C10_after_close_nothing_reopens :
  forall scripts nworkers s s', 0 < nworkers -> reach (init scripts nworkers) s ->
    all_ended (workers s) = true -> reach s s' ->
    all_ended (workers s') = true /\ closed s' = true /\
    forall w, w < length (workers s') -> nth_error (files s') w = Some false.
Proof. exact P_C10_after_close_nothing_reopens. Qed.
Print Assumptions C10_after_close_nothing_reopens.

Theorem C10_write_on_a_closed_writer_returns_no_responses :
  forall s s' i c b rest c', step s s' -> closed s = true ->
    nth_error (callers s) i = Some c -> c_pc c = CIdle -> c_script c = CWrite b :: rest ->
    nth_error (callers s') i = Some c' -> c' <> c ->
    c' = mkc CIdle rest (c_results c ++ [None]).
Proof. exact write_when_closed. Qed.
Print Assumptions C10_write_on_a_closed_writer_returns_no_responses.

(** non-vacuity: a state with Close racing a Write in flight is reachable and not stuck *)
Example C10_close_races_write :
  exists s, run_trs (init [[CWrite 1]; [CClose]; [CWrite 2]] 2)
              [TWriteStart 0; TW2Send 0; TWriteStart 2; TCloseSigHold 1; TExitClose; TW2Closed 2] = Some s /\
            all_done s = false.
Proof. eexists; split; [vm_compute; reflexivity|reflexivity]. Qed.
