(** SerialTable.v - tie T-A for property C13 ("names are unique" with callers sharing a generator):
    every use of a generator's Serial field in the current source (Gen/AccessTable.serial_accesses,
    regenerated on every run) goes through sync/atomic, every modification is one atomic add -
    the step of Model/Serial.run_add, for which names are distinct under every schedule
    (C13_names_distinct_under_every_schedule). *)
Require Import Model.Serial Gen.AccessTable.

Theorem C13_serial_is_taken_by_one_atomic_add : serial_discipline serial_accesses = true.
Proof. vm_compute. reflexivity. Qed.
Print Assumptions C13_serial_is_taken_by_one_atomic_add.
