(** C02 — built records carry truthful Content-Length, digests and record ids.

    Model: Model/Record.v [build] (recordBuilder.Build: add id / length, validateHeader,
    parseBlock, ValidateDigest), Model/Digest.v.  The content fed to the builder is the
    concatenation of its feeds (Write/WriteString/ReadFrom in any chunking across any spill
    threshold): that the spill buffer returns exactly those bytes is theorem C14. *)
Require Import Model.Bytes Model.FieldDef Model.Fields Model.Policy Model.Digest Model.Record.
Require Import Proofs.DigestProofs Proofs.RecordProofs.
Local Open Scope N_scope.

(** The digests ValidateDigest formats have been fed exactly the serialized block (and, for HTTP
    and resource blocks, exactly the payload): for every option setting, record type, header set
    and content, whichever block kind parseBlock selects and whatever repairs it applies. *)
Theorem C02_digests_are_computed_over_the_serialized_bytes :
  forall tbl uni_lower uni_upper mime_dec http_req_ok http_resp_ok o rt hs content fnd hs' blk bd pd fnd',
    parse_block tbl uni_lower uni_upper mime_dec http_req_ok http_resp_ok o rt hs content fnd
      = Ok (hs', blk, bd, pd) fnd' ->
    d_fed bd = raw_bytes blk /\ (forall p, pd = Some p -> d_fed p = bb blk).
Proof. exact parse_block_feeds_the_block. Qed.
Print Assumptions C02_digests_are_computed_over_the_serialized_bytes.

(** the text of a digest field is "algorithm:encoding(hash of the bytes fed)" *)
Theorem C02_format_is_hash_of_fed_bytes :
  forall H d, format H d = d_name d ++ [COLON] ++ encode (d_enc d) (H (d_alg d) (d_fed d)).
Proof. reflexivity. Qed.
Print Assumptions C02_format_is_hash_of_fed_bytes.

(** base16 text decodes back to the hash, in either letter case *)
Theorem C02_base16_round_trip :
  forall s, Forall is_byte s ->
    hex_decode (hex_encode s) = Some s /\ hex_decode (ascii_upper (hex_encode s)) = Some s /\
    length (hex_encode s) = (2 * length s)%nat.
Proof. intros s Hs. repeat split; [apply hex_decode_encode|apply hex_decode_upper|apply hex_encode_length]; exact Hs. Qed.
Print Assumptions C02_base16_round_trip.

(** generated record ids: the builder wraps the generator's URN in angle brackets *)
Theorem C02_record_id_is_bracketed :
  forall v c t, v = c :: t -> c <> 60%N -> last v 0%N <> 62%N -> id_value v = Some (60%N :: v ++ [62%N]).
Proof.
  intros v c t -> Hc Hl. unfold id_value.
  destruct (c =? 60) eqn:E; [apply N.eqb_eq in E; contradiction|]. cbn [negb andb].
  match goal with |- context [negb ?x] => assert (Hx : x = false) by (apply N.eqb_neq; exact Hl); rewrite Hx end.
  reflexivity.
Qed.
Print Assumptions C02_record_id_is_bracketed.

(** * end to end: the record Build returns *)
Require Import Gen.FieldTable Model.Validate Proofs.ValidateProofs Proofs.BuildProofs.

Theorem C02_built_record_is_truthful :
  forall uni_lower uni_upper time_ok ip_ok uri_ok wid_ok mime_dec H b32 b64 http_req_ok http_resp_ok
         o vid rt0 hs content new_id r fnd hs_out,
    canonical field_table uni_lower hs ->
    (* the length and the digests are left to the builder's add-missing options *)
    m_has field_table uni_lower n_content_length hs = false ->
    m_has field_table uni_lower n_block_digest hs = false ->
    m_has field_table uni_lower n_payload_digest hs = false ->
    o_add_cl o = true -> o_add_digest o = true ->
    o_fix_wfblock o = false ->            (* with it on: known finding stale-length-after-wfblock-repair *)
    (forall d, new_digest uni_lower uni_upper (o_alg o) (o_enc o) = Some d -> d_hash d = []) ->
    (Z.of_nat (length content) + 2 <= int64_max)%Z ->
    build field_table required_fields uni_lower uni_upper time_ok ip_ok uri_ok wid_ok mime_dec H b32 b64
          http_req_ok http_resp_ok o vid rt0 hs content new_id = (Ok r fnd, hs_out) ->
    exists d0, new_digest uni_lower uni_upper (o_alg o) (o_enc o) = Some d0 /\
      m_get field_table uni_lower n_content_length (r_fields r) = itoa (Z.of_nat (length (raw_bytes (r_block r)))) /\
      m_get field_table uni_lower n_block_digest (r_fields r) = format H (feed d0 (raw_bytes (r_block r))) /\
      ((bk (r_block r) = BHttpReq \/ bk (r_block r) = BHttpResp) -> (r_type r =? 32) = false ->
       m_has field_table uni_lower n_segment_number hs = false ->
       m_get field_table uni_lower n_payload_digest (r_fields r) = format H (feed d0 (bb (r_block r)))).
Proof. intros. eapply build_truthful; eassumption. Qed.
Print Assumptions C02_built_record_is_truthful.

(** non-vacuity: an HTTP response fed to a builder with the default add-missing options; the
    hypotheses hold and Build succeeds *)
From Coq Require Import String.
Local Open Scope N_scope.
Definition c2_id (s : bytes) := s.
Definition c2_yes (s : bytes) := true.
Definition c2_h (a : alg) (s : bytes) : bytes := s.
Definition c2_nodec (s : bytes) : option bytes := None.
Definition c2_opts := mkopts Warn Warn Warn Warn false true true true true true false false (bs "sha1") Base32.
Definition c2_hs : fields :=
  [(bs "WARC-Type", bs "response"); (bs "WARC-Date", bs "2017-03-06T04:03:53Z");
   (bs "WARC-Target-URI", bs "http://example.com/a"); (bs "Content-Type", bs "application/http;msgtype=response")]%string.
Definition c2_content : bytes := bs "HTTP/1.1 200 OK
Content-Type: text/plain

hello"%string.
Definition c2_build := build field_table required_fields c2_id c2_id c2_yes c2_yes c2_yes c2_yes c2_nodec c2_h c2_nodec c2_nodec
                             c2_yes c2_yes c2_opts 2 2 c2_hs c2_content (bs "urn:uuid:e9a0cecc-0221-11e7-adb1-0242ac120008").
Example C02_hypotheses_are_satisfiable :
  canonical field_table c2_id c2_hs /\
  m_has field_table c2_id n_content_length c2_hs = false /\
  (forall d, new_digest c2_id c2_id (o_alg c2_opts) (o_enc c2_opts) = Some d -> d_hash d = []) /\
  is_ok (fst c2_build) = true /\
  match fst c2_build with Ok r _ => bk (r_block r) = BHttpResp | _ => False end.
Proof.
  split; [|split; [|split; [|split]]].
  - intros f [<-|[<-|[<-|[<-|[]]]]]; vm_compute; reflexivity.
  - vm_compute; reflexivity.
  - intros d Hd. vm_compute in Hd. inversion Hd. reflexivity.
  - vm_compute; reflexivity.
  - vm_compute; reflexivity.
Qed.
