(** C02 — built records carry truthful Content-Length, digests and record ids.

    Model: Model/Record.v [build] (recordBuilder.Build: add id / length, validateHeader,
    parseBlock, ValidateDigest), Model/Digest.v.  The content fed to the builder is the
    concatenation of its feeds (Write/WriteString/ReadFrom in any chunking across any spill
    threshold): that the spill buffer returns exactly those bytes is theorem C14. *)
Require Import Model.Bytes Model.FieldDef Model.Fields Model.Policy Model.Digest Model.Record.
Require Import Proofs.DigestProofs Proofs.RecordProofs.
Local Open Scope N_scope.

(** The digests ValidateDigest formats have been fed exactly the serialized block (and, for HTTP
    and resource blocks, exactly the payload): for every option setting, record type, header set
    and content, whichever block kind parseBlock selects and whatever repairs it applies. *)
Theorem C02_digests_are_computed_over_the_serialized_bytes :
  forall tbl uni_lower uni_upper mime_dec http_req_ok http_resp_ok o rt hs content fnd hs' blk bd pd fnd',
    parse_block tbl uni_lower uni_upper mime_dec http_req_ok http_resp_ok o rt hs content fnd
      = Ok (hs', blk, bd, pd) fnd' ->
    d_fed bd = raw_bytes blk /\ (forall p, pd = Some p -> d_fed p = bb blk).
Proof. exact parse_block_feeds_the_block. Qed.
Print Assumptions C02_digests_are_computed_over_the_serialized_bytes.

(** the text of a digest field is "algorithm:encoding(hash of the bytes fed)" *)
Theorem C02_format_is_hash_of_fed_bytes :
  forall H d, format H d = d_name d ++ [COLON] ++ encode (d_enc d) (H (d_alg d) (d_fed d)).
Proof. reflexivity. Qed.
Print Assumptions C02_format_is_hash_of_fed_bytes.

(** base16 text decodes back to the hash, in either letter case *)
Theorem C02_base16_round_trip :
  forall s, Forall is_byte s ->
    hex_decode (hex_encode s) = Some s /\ hex_decode (ascii_upper (hex_encode s)) = Some s /\
    length (hex_encode s) = (2 * length s)%nat.
Proof. intros s Hs. repeat split; [apply hex_decode_encode|apply hex_decode_upper|apply hex_encode_length]; exact Hs. Qed.
Print Assumptions C02_base16_round_trip.

(** generated record ids: the builder wraps the generator's URN in angle brackets *)
Theorem C02_record_id_is_bracketed :
  forall v c t, v = c :: t -> c <> 60%N -> last v 0%N <> 62%N -> id_value v = Some (60%N :: v ++ [62%N]).
Proof.
  intros v c t -> Hc Hl. unfold id_value.
  destruct (c =? 60) eqn:E; [apply N.eqb_eq in E; contradiction|]. cbn [negb andb].
  match goal with |- context [negb ?x] => assert (Hx : x = false) by (apply N.eqb_neq; exact Hl); rewrite Hx end.
  reflexivity.
Qed.
Print Assumptions C02_record_id_is_bracketed.
