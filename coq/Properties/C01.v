(** C01 — write-then-read round trip is lossless.

    PARTIAL.  The serialized form is [marshal r] = "WARC/" version CRLF, header lines, CRLF,
    block, CRLF CRLF (Model/Record.v, defaultMarshaler.writeRecord).  Mechanised stage by stage:
    the header section parses back to exactly the fields with no finding under every policy
    (theorem below, unbounded field lists, any remainder of the stream); block framing by
    Content-Length is insensitive to block content (delimiter-imitating bytes); the end-of-record
    marker is accepted; digests are computed over exactly the serialized block (C02) and a record
    without length/digest defects passes verification untouched (C03).  Not yet mechanised: the
    composition of these stages into one statement about [parse_record (marshal r ++ rest)].
    That composition is evaluated on the implementation (domain rt: build, marshal, plain or
    gzip, parse under another policy, compare, marshal again) and the model of each stage is
    tied to the code by the build and unm correspondence runs. *)
Require Import Model.Bytes Model.FieldDef Gen.FieldTable Model.Fields Model.Policy Model.Stream Model.HeaderParse Model.Digest Model.Record.
Require Import Proofs.HeaderProofs Proofs.RecordProofs.

Theorem C01_header_section_round_trips :
  forall uni_lower mime_dec p fs rest tl fnd,
    (forall f, In f fs -> wf_field field_table uni_lower f) -> fs <> [] ->
    parse_fields field_table uni_lower mime_dec p (mkst (serialize fs ++ rest) tl) fnd
    = Ok (fs, mkst rest tl) fnd.
Proof. exact (parse_serialize field_table). Qed.
Print Assumptions C01_header_section_round_trips.

(** framing: the block is the next Content-Length bytes, whatever they look like *)
Theorem C01_block_framing_ignores_block_content :
  forall (block rest : bytes), firstn (length block) (block ++ CRLFCRLF ++ rest) = block /\
                               skipn (length block) (block ++ CRLFCRLF ++ rest) = CRLFCRLF ++ rest.
Proof.
  intros. split.
  - rewrite firstn_app, firstn_all, Nat.sub_diag, firstn_O, app_nil_r. reflexivity.
  - rewrite skipn_app, skipn_all, Nat.sub_diag. reflexivity.
Qed.
Print Assumptions C01_block_framing_ignores_block_content.

Theorem C01_marker_is_accepted_and_consumed :
  forall o rest tl fnd, trailer o (mkst (CRLFCRLF ++ rest) tl) fnd = Ok (mkst rest tl) fnd.
Proof. exact trailer_ok. Qed.
Print Assumptions C01_marker_is_accepted_and_consumed.

(** the marshaler writes the stages in this order *)
Theorem C01_marshal_layout :
  forall r, marshal r = s_WARC ++ r_vtxt r ++ CRLF ++ serialize (r_fields r) ++ raw_bytes (r_block r) ++ CRLFCRLF.
Proof. intros r. unfold marshal, serialize. rewrite <- !app_assoc. reflexivity. Qed.
Print Assumptions C01_marshal_layout.
