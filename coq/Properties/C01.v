(** C01 — write-then-read round trip is lossless.

    The serialized form is [marshal r] = "WARC/" version CRLF, header lines, CRLF, block,
    CRLF CRLF (Model/Record.v, defaultMarshaler.writeRecord).  Reader side
    ([C01_marshal_then_parse_returns_the_record]): for every valid record (known version, well
    formed header that validates with no finding, truthful Content-Length, block that parses to
    itself, digests absent or valid - under the reader's own options), any following bytes and
    any stream tail, parsing the marshalled form returns exactly that record, no finding, and
    leaves exactly the following bytes; the stage theorems (header section round trip for
    unbounded field lists, framing insensitive to block content, end-of-record marker, layout)
    are kept below.  Builder side, end to end ([C01_strictly_built_record_round_trips]): whatever
    the strict builder returns - for clean header fields, ANY content, the length and digest
    fields left to its add-missing options - is such a valid record for EVERY reader policy,
    hence is read back from its serialization as exactly that record with no error and no
    finding.  The theorem states what it needs from the digest text codec as a contract
    ([codec_ok], [digest_text_clean]); the contract is proved for base16 and every supported
    algorithm ([C01_base16_meets_the_codec_contract]); without digest fields no contract is
    needed ([C01_strictly_built_record_round_trips_without_digests]).  Hypotheses the proof
    forced and the check now respects: the record type given to the builder is 0 or the one
    its WARC-Type field names (a defect found this way, repaired); the block policy is the one
    axis with a side condition (the builder rejects block problems or the reader ignores them).
    The contract is also proved for base32 and base64 ([C01_base32_and_base64_meet_the_codec_contract])
    under one assumption on the oracle decoders (they invert the modelled encoders on hash values).
    Not mechanised: the base32 / base64 decoders themselves (oracles), the byte equality
    of re-marshalling (it follows from record equality by [marshal] being a function, the
    statement about the implementation is evaluated), and the gzip container.  These are
    evaluated on the implementation (domain rt: build, marshal, plain or gzip, parse under
    another policy, compare, marshal again). *)
Require Import Model.Bytes Model.FieldDef Gen.FieldTable Model.Fields Model.Policy Model.Stream Model.HeaderParse Model.Digest Model.Record.
Require Import Model.Validate Proofs.HeaderProofs Proofs.RecordProofs Proofs.RoundTripProofs.

Theorem C01_header_section_round_trips :
  forall uni_lower mime_dec p fs rest tl fnd,
    (forall f, In f fs -> wf_field field_table uni_lower f) -> fs <> [] ->
    parse_fields field_table uni_lower mime_dec p (mkst (serialize fs ++ rest) tl) fnd
    = Ok (fs, mkst rest tl) fnd.
Proof. exact (parse_serialize field_table). Qed.
Print Assumptions C01_header_section_round_trips.

(** framing: the block is the next Content-Length bytes, whatever they look like *)
Theorem C01_block_framing_ignores_block_content :
  forall (block rest : bytes), firstn (length block) (block ++ CRLFCRLF ++ rest) = block /\
                               skipn (length block) (block ++ CRLFCRLF ++ rest) = CRLFCRLF ++ rest.
Proof.
  intros. split.
  - rewrite firstn_app, firstn_all, Nat.sub_diag, firstn_O, app_nil_r. reflexivity.
  - rewrite skipn_app, skipn_all, Nat.sub_diag. reflexivity.
Qed.
Print Assumptions C01_block_framing_ignores_block_content.

Theorem C01_marker_is_accepted_and_consumed :
  forall o rest tl fnd, trailer o (mkst (CRLFCRLF ++ rest) tl) fnd = Ok (mkst rest tl) fnd.
Proof. exact trailer_ok. Qed.
Print Assumptions C01_marker_is_accepted_and_consumed.

(** the marshaler writes the stages in this order *)
Theorem C01_marshal_layout :
  forall r, marshal r = s_WARC ++ r_vtxt r ++ CRLF ++ serialize (r_fields r) ++ raw_bytes (r_block r) ++ CRLFCRLF.
Proof. intros r. unfold marshal, serialize. rewrite <- !app_assoc. reflexivity. Qed.
Print Assumptions C01_marshal_layout.

(** the composition *)
Theorem C01_marshal_then_parse_returns_the_record :
  forall uni_lower uni_upper time_ok ip_ok uri_ok wid_ok mime_dec H b32 b64 http_req_ok http_resp_ok o r bd pd rest tl,
    valid_record field_table required_fields uni_lower uni_upper time_ok ip_ok uri_ok wid_ok mime_dec H b32 b64
                 http_req_ok http_resp_ok o r bd pd ->
    parse_record field_table required_fields uni_lower uni_upper time_ok ip_ok uri_ok wid_ok mime_dec H b32 b64
                 http_req_ok http_resp_ok o (mkst (marshal r ++ rest) tl) []
    = URec r None [] (mkst rest tl).
Proof. exact (marshal_then_parse field_table required_fields). Qed.
Print Assumptions C01_marshal_then_parse_returns_the_record.

From Coq Require Import String.
Local Open Scope N_scope.
(** non-vacuity: a strict reader, a resource record whose block imitates the record delimiter and
    the start of another record *)
Definition ex_idb (s : bytes) := s.
Definition ex_yes (s : bytes) := true.
Definition ex_noh (a : alg) (s : bytes) : bytes := [].
Definition ex_nodec (s : bytes) : option bytes := None.
Definition ex_opts := mkopts Fail Fail Fail Fail false false false false false false false false (bs "sha1") Base32.
Definition ex_fields : fields :=
  [(bs "WARC-Type", bs "resource"); (bs "WARC-Record-ID", bs "<urn:uuid:e9a0cecc-0221-11e7-adb1-0242ac120008>");
   (bs "WARC-Date", bs "2017-03-06T04:03:53Z"); (bs "WARC-Target-URI", bs "http://example.com/a");
   (bs "Content-Type", bs "text/plain"); (bs "Content-Length", bs "13")]%string.
Definition ex_block := mkblk BGeneric [] (List.app (bs "a") (List.app [13;10;13;10] (bs "WARC/1.1"))).
Definition ex_record := mkrec v11 2 4 ex_fields ex_block.
Definition ex_digest := {| d_alg := SHA1; d_name := bs "sha1"; d_hash := []; d_enc := Base32; d_fed := raw_bytes ex_block |}.

Example C01_a_valid_record :
  valid_record field_table required_fields ex_idb ex_idb ex_yes ex_yes ex_yes ex_yes ex_nodec ex_noh ex_nodec ex_nodec
               ex_yes ex_yes ex_opts ex_record ex_digest (Some ex_digest).
Proof.
  constructor.
  - right; split; reflexivity.
  - intros f [<-|[<-|[<-|[<-|[<-|[<-|[]]]]]]]; constructor; vm_compute; reflexivity.
  - discriminate.
  - vm_compute; reflexivity.
  - vm_compute; reflexivity.
  - vm_compute; reflexivity.
  - vm_compute; reflexivity.
Qed.

(** the builder side of the link, header stage: whatever the strict builder returned (length and
    digests left to its add-missing options), its final header - the digest fields it added
    included - is accepted with no finding by header validation under every pair of spec /
    unknown-type policies, and resolves to the same known record type as the fields given *)
Require Import Proofs.ValidateProofs Proofs.BuiltValidProofs.
Theorem C01_strictly_built_header_is_accepted_under_every_policy :
  forall uni_lower uni_upper time_ok ip_ok uri_ok wid_ok mime_dec H b32 b64 http_req_ok http_resp_ok
         o vid rt0 hs content new_id r fnd hs_out ps pu,
    (vid = 1 \/ vid = 2) -> canonical field_table uni_lower hs ->
    m_has field_table uni_lower n_content_length hs = false ->
    m_has field_table uni_lower n_block_digest hs = false ->
    m_has field_table uni_lower n_payload_digest hs = false ->
    o_spec o = Fail -> o_unknown o = Fail -> o_syntax o = Fail ->
    o_add_cl o = true -> o_add_digest o = true -> o_fix_wfblock o = false ->
    (forall d, new_digest uni_lower uni_upper (o_alg o) (o_enc o) = Some d -> d_hash d = []) ->
    build field_table required_fields uni_lower uni_upper time_ok ip_ok uri_ok wid_ok mime_dec H b32 b64
          http_req_ok http_resp_ok o vid rt0 hs content new_id = (Ok r fnd, hs_out) ->
    validate_header field_table required_fields uni_lower time_ok ip_ok uri_ok wid_ok ps pu vid (r_fields r) []
      = Ok (rt_of uni_lower (r_fields r), r_fields r) [] /\
    rt_of uni_lower (r_fields r) = rt_of uni_lower hs /\ rt_of uni_lower hs <> 0.
Proof. intros. eapply built_header_accepted_everywhere; eassumption. Qed.
Print Assumptions C01_strictly_built_header_is_accepted_under_every_policy.

(** non-vacuity: a strict builder with the add-missing options on accepts this response *)
Definition exb_opts := mkopts Fail Fail Fail Fail false true true true true true false false (bs "sha1") Base32.
Definition exb_hs : fields :=
  [(bs "WARC-Type", bs "response"); (bs "WARC-Date", bs "2017-03-06T04:03:53Z");
   (bs "WARC-Target-URI", bs "http://example.com/a"); (bs "Content-Type", bs "application/http;msgtype=response")]%string.
Definition exb_content : bytes := List.app (bs "HTTP/1.1 200 OK") (List.app [13;10] (List.app (bs "Content-Type: text/plain") (List.app [13;10;13;10] (bs "hello")))).
Definition exb_h (a : alg) (s : bytes) : bytes := s.
Definition exb_build := build field_table required_fields ex_idb ex_idb ex_yes ex_yes ex_yes ex_yes ex_nodec exb_h ex_nodec ex_nodec
                              ex_yes ex_yes exb_opts 2 2 exb_hs exb_content (bs "urn:uuid:e9a0cecc-0221-11e7-adb1-0242ac120008").
Example C01_strict_builder_hypotheses_are_satisfiable :
  canonical field_table ex_idb exb_hs /\
  m_has field_table ex_idb n_content_length exb_hs = false /\
  (forall d, new_digest ex_idb ex_idb (o_alg exb_opts) (o_enc exb_opts) = Some d -> d_hash d = []) /\
  is_ok (fst exb_build) = true /\
  match fst exb_build with Ok r _ => N.of_nat (List.length (r_fields r)) = 8 | _ => False end.
Proof.
  split; [|split; [|split; [|split]]].
  - intros f [<-|[<-|[<-|[<-|[]]]]]; vm_compute; reflexivity.
  - vm_compute; reflexivity.
  - intros d Hd. vm_compute in Hd. inversion Hd. reflexivity.
  - vm_compute; reflexivity.
  - vm_compute; reflexivity.
Qed.

(** the link, end to end, for records without digest fields (the builder's and the reader's
    add-missing-digest option off): whatever the strict builder returns for clean header fields
    and ANY content is read back from its serialization as exactly that record - version, type,
    ordered fields, block - with no error and no finding, under EVERY reader policy, followed by
    anything.  The block policy is the one axis that needs a side condition: the builder rejects
    block problems (fail) or the reader ignores them. *)
Theorem C01_strictly_built_record_round_trips_without_digests :
  forall uni_lower uni_upper time_ok ip_ok uri_ok wid_ok mime_dec H b32 b64 http_req_ok http_resp_ok
         bo o vid rt0 hs content new_id r fnd hs_out d0 d1 rest tl,
    (vid = 1 \/ vid = 2) -> canonical field_table uni_lower hs ->
    (forall f, In f hs -> wf_field field_table uni_lower f) ->
    m_has field_table uni_lower n_content_length hs = false ->
    m_has field_table uni_lower n_block_digest hs = false ->
    m_has field_table uni_lower n_payload_digest hs = false ->
    m_has field_table uni_lower n_record_id hs = true ->
    (rt0 = 0 \/ rt0 = rt_of uni_lower hs) ->
    o_spec bo = Fail -> o_unknown bo = Fail -> o_syntax bo = Fail ->
    (o_block bo = Fail \/ o_block o = Ignore) ->
    o_add_cl bo = true -> o_add_digest bo = false -> o_add_digest o = false -> o_fix_wfblock bo = false ->
    o_skip_parse o = o_skip_parse bo ->
    new_digest uni_lower uni_upper (o_alg bo) (o_enc bo) = Some d0 -> d_hash d0 = [] ->
    new_digest uni_lower uni_upper (o_alg o) (o_enc o) = Some d1 -> d_hash d1 = [] ->
    (Z.of_nat (List.length content) <= int64_max)%Z ->
    build field_table required_fields uni_lower uni_upper time_ok ip_ok uri_ok wid_ok mime_dec H b32 b64
          http_req_ok http_resp_ok bo vid rt0 hs content new_id = (Ok r fnd, hs_out) ->
    parse_record field_table required_fields uni_lower uni_upper time_ok ip_ok uri_ok wid_ok mime_dec H b32 b64
                 http_req_ok http_resp_ok o (mkst (marshal r ++ rest) tl) []
    = URec r None [] (mkst rest tl).
Proof. intros. eapply built_record_round_trips_without_digests; eassumption. Qed.
Print Assumptions C01_strictly_built_record_round_trips_without_digests.

(** non-vacuity: a strict builder without digests accepts this response, whose payload imitates
    the end-of-record marker and the start of another record *)
Definition exn_opts := mkopts Fail Fail Fail Fail false true true false true true false false (bs "sha1") Base32.
Definition exn_hs : fields :=
  [(bs "WARC-Type", bs "response"); (bs "WARC-Record-ID", bs "<urn:uuid:e9a0cecc-0221-11e7-adb1-0242ac120008>");
   (bs "WARC-Date", bs "2017-03-06T04:03:53Z");
   (bs "WARC-Target-URI", bs "http://example.com/a"); (bs "Content-Type", bs "application/http;msgtype=response")]%string.
Definition exn_content : bytes :=
  List.app (bs "HTTP/1.1 200 OK") (List.app [13;10] (List.app (bs "Content-Type: text/plain") (List.app [13;10;13;10]
    (List.app (bs "a") (List.app [13;10;13;10] (bs "WARC/1.1")))))).
Definition exn_build := build field_table required_fields ex_idb ex_idb ex_yes ex_yes ex_yes ex_yes ex_nodec exb_h ex_nodec ex_nodec
                              ex_yes ex_yes exn_opts 2 2 exn_hs exn_content [].
Example C01_no_digest_hypotheses_are_satisfiable :
  canonical field_table ex_idb exn_hs /\
  (forall f, In f exn_hs -> wf_field field_table ex_idb f) /\
  m_has field_table ex_idb n_record_id exn_hs = true /\
  2 = rt_of ex_idb exn_hs /\
  (exists d, new_digest ex_idb ex_idb (o_alg exn_opts) (o_enc exn_opts) = Some d /\ d_hash d = []) /\
  is_ok (fst exn_build) = true.
Proof.
  split; [|split; [|split; [|split; [|split]]]].
  - intros f [<-|[<-|[<-|[<-|[<-|[]]]]]]; vm_compute; reflexivity.
  - intros f [<-|[<-|[<-|[<-|[<-|[]]]]]]; constructor; vm_compute; reflexivity.
  - vm_compute; reflexivity.
  - vm_compute; reflexivity.
  - eexists. split; vm_compute; reflexivity.
  - vm_compute; reflexivity.
Qed.

(** the link, end to end, WITH the digest fields the builder adds (its add-missing options on).
    The one thing the round trip needs beyond the stages above is stated as a contract on the
    digest text codec: the text the builder writes for a digest ("algorithm:encoded hash") is read
    back by newDigest, under whatever default encoding the reader has, as a digest whose declared
    hash validates against the same bytes ([codec_ok]), and it is a clean header value
    ([digest_text_clean]).  Given that, whatever the strict builder returns is read back from
    its serialization as exactly that record, no error, no finding, under every reader policy. *)
Require Import Proofs.DigestProofs Proofs.CodecProofs.
Theorem C01_strictly_built_record_round_trips :
  forall uni_lower uni_upper time_ok ip_ok uri_ok wid_ok mime_dec H b32 b64 http_req_ok http_resp_ok
         bo o vid rt0 hs content new_id r fnd hs_out d0 d1 rest tl,
    (vid = 1 \/ vid = 2) -> canonical field_table uni_lower hs ->
    (forall f, In f hs -> wf_field field_table uni_lower f) ->
    m_has field_table uni_lower n_content_length hs = false ->
    m_has field_table uni_lower n_block_digest hs = false ->
    m_has field_table uni_lower n_payload_digest hs = false ->
    m_has field_table uni_lower n_record_id hs = true ->
    (rt0 = 0 \/ rt0 = rt_of uni_lower hs) ->
    o_spec bo = Fail -> o_unknown bo = Fail -> o_syntax bo = Fail ->
    (o_block bo = Fail \/ o_block o = Ignore) ->
    o_add_cl bo = true -> o_add_digest bo = true -> o_fix_wfblock bo = false ->
    o_skip_parse o = o_skip_parse bo ->
    new_digest uni_lower uni_upper (o_alg bo) (o_enc bo) = Some d0 -> d_hash d0 = [] -> d_fed d0 = [] ->
    new_digest uni_lower uni_upper (o_alg o) (o_enc o) = Some d1 ->
    codec_ok uni_lower uni_upper H b32 b64 (o_enc o) d0 -> digest_text_clean uni_lower H d0 ->
    (Z.of_nat (List.length content) + 2 <= int64_max)%Z ->
    build field_table required_fields uni_lower uni_upper time_ok ip_ok uri_ok wid_ok mime_dec H b32 b64
          http_req_ok http_resp_ok bo vid rt0 hs content new_id = (Ok r fnd, hs_out) ->
    parse_record field_table required_fields uni_lower uni_upper time_ok ip_ok uri_ok wid_ok mime_dec H b32 b64
                 http_req_ok http_resp_ok o (mkst (marshal r ++ rest) tl) []
    = URec r None [] (mkst rest tl).
Proof. intros. eapply built_record_round_trips_with_digests; eassumption. Qed.
Print Assumptions C01_strictly_built_record_round_trips.

(** base16 meets the contract for every supported algorithm, whatever the hash function is, as
    long as it returns [alg_size] bytes *)
Theorem C01_base16_meets_the_codec_contract :
  forall uni_lower uni_upper H b32 b64 al e,
    (forall a x, List.length (H a x) = alg_size a /\ Forall is_byte (H a x)) ->
    codec_ok uni_lower uni_upper H b32 b64 e (fresh16 al) /\ digest_text_clean uni_lower H (fresh16 al).
Proof. intros. split; [apply codec_ok_base16; assumption|apply digest_text_clean_base16; assumption]. Qed.
Print Assumptions C01_base16_meets_the_codec_contract.

(** base32 and base64 meet the contract too, for every supported algorithm: the encoders are the
    modelled ones (lengths by which newDigest recognises the encoding, md5's trailing '=',
    alphabets that case mapping and header parsing leave alone are proved of them); of the
    decoders of the Go standard library, which are oracles, it is assumed that they invert the
    encoders on the hash values that occur *)
Require Import Proofs.Codec3264Proofs.
Theorem C01_base32_and_base64_meet_the_codec_contract :
  forall uni_lower uni_upper H b32 b64 al e,
    (forall a x, List.length (H a x) = alg_size a /\ Forall is_byte (H a x)) ->
    (forall a x, b32 (b32_encode (H a x)) = Some (H a x)) ->
    (forall a x, b64 (b64_encode (H a x)) = Some (H a x)) ->
    (codec_ok uni_lower uni_upper H b32 b64 e (fresh_enc al Base32) /\ digest_text_clean uni_lower H (fresh_enc al Base32)) /\
    (codec_ok uni_lower uni_upper H b32 b64 e (fresh_enc al Base64) /\ digest_text_clean uni_lower H (fresh_enc al Base64)).
Proof.
  intros ul uu H b32 b64 al e Hsz H32 H64. split; split.
  - apply codec_ok_base32; assumption.
  - exact (digest_text_clean_base32 ul uu H al).
  - apply codec_ok_base64; assumption.
  - exact (digest_text_clean_base64 ul uu H al).
Qed.
Print Assumptions C01_base32_and_base64_meet_the_codec_contract.

(** non-vacuity of the three hypotheses (a constant hash and table decoders), and the digest the
    options "sha1" / Base32 and "sha256" / Base64 start from is the one the theorem speaks of *)
Definition ex32_h (a : alg) (_ : bytes) : bytes := repeat 7 (alg_size a).
Definition ex32_table (encode : bytes -> bytes) (s : bytes) : option bytes :=
  find (fun h => bytes_eqb (encode h) s) [ex32_h MD5 []; ex32_h SHA1 []; ex32_h SHA256 []; ex32_h SHA512 []].
Example C01_base32_base64_hypotheses_are_satisfiable :
  (forall a x, List.length (ex32_h a x) = alg_size a /\ Forall is_byte (ex32_h a x)) /\
  (forall a x, ex32_table b32_encode (b32_encode (ex32_h a x)) = Some (ex32_h a x)) /\
  (forall a x, ex32_table b64_encode (b64_encode (ex32_h a x)) = Some (ex32_h a x)) /\
  new_digest (fun s => s) (fun s => s) (bs "sha1") Base32 = Some (fresh_enc SHA1 Base32) /\
  new_digest (fun s => s) (fun s => s) (bs "sha256") Base64 = Some (fresh_enc SHA256 Base64).
Proof.
  split; [|split; [|split; [|split]]].
  - intros a x. split; [destruct a; reflexivity|]. unfold ex32_h. apply Forall_forall. intros b Hb.
    apply repeat_spec in Hb. subst b. reflexivity.
  - intros a x. destruct a; vm_compute; reflexivity.
  - intros a x. destruct a; vm_compute; reflexivity.
  - vm_compute. reflexivity.
  - vm_compute. reflexivity.
Qed.

(** non-vacuity: the default-style configuration (sha1, base16) on the response above *)
Definition exd_opts := mkopts Fail Fail Fail Fail false true true true true true false false (bs "sha1") Base16.
Definition exd_build := build field_table required_fields ex_idb ex_idb ex_yes ex_yes ex_yes ex_yes ex_nodec exb_h ex_nodec ex_nodec
                              ex_yes ex_yes exd_opts 2 2 exn_hs exn_content [].
Example C01_with_digest_hypotheses_are_satisfiable :
  new_digest ex_idb ex_idb (o_alg exd_opts) (o_enc exd_opts) = Some (fresh16 SHA1) /\
  is_ok (fst exd_build) = true /\
  match fst exd_build with Ok r _ => N.of_nat (List.length (r_fields r)) = 8 | _ => False end.
Proof. repeat split; vm_compute; reflexivity. Qed.

(** through the per-record gzip container (item level: a whole member whose payload is the
    serialized record; the compressed bytes are not modelled): the same record comes back *)
Require Import Proofs.GzPolicyProofs.
Theorem C01_gzip_member_round_trip :
  forall uni_lower uni_upper time_ok ip_ok uri_ok wid_ok mime_dec H b32 b64 http_req_ok http_resp_ok o r bd pd csize rest,
    valid_record field_table required_fields uni_lower uni_upper time_ok ip_ok uri_ok wid_ok mime_dec H b32 b64
                 http_req_ok http_resp_ok o r bd pd ->
    gres (unmarshal_gz field_table required_fields uni_lower uni_upper time_ok ip_ok uri_ok wid_ok mime_dec H b32 b64
                       http_req_ok http_resp_ok o (GMember (marshal r) true csize :: rest))
    = URec r None [] (mkst [] TEOF).
Proof. intros. eapply gzip_member_round_trip; eassumption. Qed.
Print Assumptions C01_gzip_member_round_trip.
