(** C19 — header text is a fixpoint after one parse (no field smuggling).

    Model: Model/HeaderParse.v ([parse_fields]: readLine / parseLine / Parse of
    warcfieldsparser.go over a byte stream with an EOF or read-error tail; [serialize]:
    WarcFields.Write plus the blank line).  [mime_dec] is the oracle for
    mime.WordDecoder.DecodeHeader on lines containing "=?"; lines without "=?" take Go's
    identity fast path, which is modelled. *)
Require Import Model.Bytes Model.FieldDef Gen.FieldTable Model.Fields Model.Policy Model.Spill Model.Stream Model.HeaderParse.
Require Import Proofs.TrimProofs Proofs.NormalizeProofs Proofs.HeaderProofs Proofs.ParsedWfProofs.
From Coq Require Import String.
Local Open Scope N_scope.

(** Field sets whose names are canonical and colon-free, whose names and values are free of LF
    and of leading/trailing SP/HT/CR/LF, and whose lines contain no "=?" survive
    serialize-then-parse unchanged: under every syntax policy, whatever follows in the stream,
    whatever the decoder does, with NO finding added and nothing consumed beyond the blank line.
    This is the second sentence of the property; the hypotheses on the values are exactly the
    two recorded known findings (edge blanks are trimmed, encoded-words are decoded). *)
Theorem C19_clean_fields_survive_serialize_then_parse :
  forall uni_lower mime_dec p fs rest tl fnd,
    (forall f, In f fs -> wf_field field_table uni_lower f) -> fs <> [] ->
    parse_fields field_table uni_lower mime_dec p (mkst (serialize fs ++ rest) tl) fnd
    = Ok (fs, mkst rest tl) fnd.
Proof. exact (parse_serialize field_table). Qed.
Print Assumptions C19_clean_fields_survive_serialize_then_parse.

(** every API-built pair (Add name value) with a token name and a clean value is such a field *)
Theorem C19_added_token_fields_are_clean :
  forall uni_lower n v,
    all_ascii n = true ->
    let k := normalize_name field_table uni_lower n in
    no_byte COLON k -> no_byte LF k -> edge_ok is_sphtcrlf k = true ->
    no_byte LF v -> edge_ok is_sphtcrlf v = true ->
    contains enc_marker (k ++ [58; 32] ++ v) = false ->
    wf_field field_table uni_lower (k, v).
Proof.
  intros uni_lower n v Ha k H1 H2 H3 H4 H5 H6. constructor; cbn [fst snd]; try assumption.
  apply (normalize_idem field_table gen_table_ok).
Qed.
Print Assumptions C19_added_token_fields_are_clean.

(** The unrestricted first sentence is FALSE of the faithful model (known finding, recorded in
    known_findings.json): with Go's decoder, which maps the encoded-word below to "x\r\nEvil: 1",
    the accepted header line  X: =?utf-8?q?x=0D=0AEvil:_1?=  parses to ONE field whose value
    contains CR LF; written out and parsed again it is TWO fields. *)
Definition evil_line : bytes := bs "X: =?utf-8?q?x=0D=0AEvil:_1?="%string.
Definition evil_decoded : bytes := [88; 58; 32; 120; 13; 10; 69; 118; 105; 108; 58; 32; 49].
Definition go_dec (l : bytes) : option bytes := if bytes_eqb l evil_line then Some evil_decoded else Some l.
Definition first_parse :=
  parse_fields field_table (fun s => s) go_dec Warn (mkst (evil_line ++ [13; 10; 13; 10]) TEOF) [].
Theorem C19_fixpoint_refuted :
  exists fs, first_parse = Ok (fs, mkst [] TEOF) [] /\ List.length fs = 1%nat /\
    exists fs2, parse_fields field_table (fun s => s) go_dec Warn (mkst (serialize fs) TEOF) []
                = Ok (fs2, mkst [] TEOF) [] /\ List.length fs2 = 2%nat.
Proof.
  eexists. split; [vm_compute; reflexivity|]. split; [reflexivity|].
  eexists. split; [vm_compute; reflexivity|reflexivity].
Qed.
Print Assumptions C19_fixpoint_refuted.

(** non-vacuity of the positive theorem *)
Example C19_example :
  let fs := [(bs "WARC-Type", bs "response"); (bs "X-Note", bs "a: b\rc"); (bs "Empty", [])]%string in
  (forall f, In f fs -> wf_field field_table (fun s => s) f) /\
  parse_fields field_table (fun s => s) (fun _ => None) Fail (mkst (serialize fs ++ [1; 2; 3]) TErr) []
  = Ok (fs, mkst [1; 2; 3] TErr) [].
Proof.
  split; [|vm_compute; reflexivity].
  intros f [<-|[<-|[<-|[]]]]; constructor; vm_compute; reflexivity.
Qed.

(** The full first sentence, for input without encoded-words: whatever header section the parser
    accepts (any policy, any line ends, folded lines, junk lines under lenient policies), the
    fields it returns are well formed, so serialising them and parsing again - under any policy,
    followed by anything - returns exactly the same fields and adds no finding. *)
Lemma gen_table_tchar : forallb (fun d => forallb is_tchar (fd_name d)) field_table = true.
Proof. vm_compute. reflexivity. Qed.

Theorem C19_parsed_fields_are_clean :
  forall uni_lower mime_dec p s fnd fs s' fnd',
    contains enc_marker (sdata s) = false ->
    parse_fields field_table uni_lower mime_dec p s fnd = Ok (fs, s') fnd' ->
    forall f, In f fs -> wf_field field_table uni_lower f.
Proof. intros uni_lower mime_dec. exact (parsed_fields_are_wf field_table uni_lower mime_dec gen_table_ok gen_table_tchar). Qed.
Print Assumptions C19_parsed_fields_are_clean.

Theorem C19_one_parse_reaches_the_fixpoint :
  forall uni_lower mime_dec p q s fnd fs s' fnd' rest tl fnd2,
    contains enc_marker (sdata s) = false ->
    parse_fields field_table uni_lower mime_dec p s fnd = Ok (fs, s') fnd' -> fs <> [] ->
    parse_fields field_table uni_lower mime_dec q (mkst (serialize fs ++ rest) tl) fnd2 = Ok (fs, mkst rest tl) fnd2.
Proof. intros uni_lower mime_dec. exact (parse_is_a_fixpoint field_table uni_lower mime_dec gen_table_ok gen_table_tchar). Qed.
Print Assumptions C19_one_parse_reaches_the_fixpoint.
