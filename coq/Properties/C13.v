(** C13 — rotation, naming and warcinfo invariants of written files.

    Model: Model/Writer.v.  A record is one entry of one file by construction of the file model
    (an entry is never split); the theorems below are about which file it goes to and what else is
    in that file. *)
Require Import Model.Bytes Model.FieldDef Model.Fields Model.Validate Model.Record Model.Writer Proofs.WriterProofs.
Require Import Model.Serial Proofs.SerialProofs.
Local Open Scope Z_scope.

(** With a warcinfo generator every file begins with exactly the warcinfo record built for its own
    name, and every other record in it has been stamped with that record's id — in every state
    reachable by Write (single, batched, repeated objects) and Rotate. *)
Theorem C13_every_file_begins_with_its_warcinfo :
  forall tbl uni_lower conf name_of scale zsize info_rec,
    (forall a b, name_of a = name_of b -> a = b) -> c_warcinfo conf = true ->
    forall ops recs stf all,
      w_run tbl uni_lower conf name_of scale zsize info_rec w_init recs ops = (stf, all) ->
      Forall (file_ok tbl uni_lower info_rec) (w_files stf).
Proof.
  intros tbl ul conf name_of scale zsize info_rec Hinj HW ops recs stf all HR.
  apply (run_keeps tbl ul conf name_of Hinj scale zsize info_rec (InfoInv tbl ul info_rec)) with (ops := ops) (st := w_init) (recs := recs) (all := all).
  - intros st r st' resp r' HI HP HWr. apply (info_write tbl ul conf name_of Hinj scale zsize info_rec st r st' resp r' HW HI HP HWr).
  - intros st HI HP. apply info_close. exact HP.
  - apply inv_init.
  - split; [constructor|intros n HH; discriminate].
  - exact HR.
Qed.
Print Assumptions C13_every_file_begins_with_its_warcinfo.

(** The fit rule: a record with a declared length is appended to a file that already holds data
    only if the current size plus the (ratio-scaled when compressing) declared length fits the
    limit; otherwise a fresh file is started (the serial grows). *)
Theorem C13_fit_rule :
  forall tbl uni_lower conf name_of scale zsize info_rec,
    (forall a b, name_of a = name_of b -> a = b) ->
    forall st r st' resp r' size,
      w_write tbl uni_lower conf name_of scale zsize info_rec st r = (st', resp, r') -> rs_err resp = false ->
      w_serial st' = w_serial st -> 0 < c_max conf -> w_cur st <> None ->
      atoi (m_get tbl uni_lower n_content_length (r_fields r)) = Some size ->
      m_get tbl uni_lower n_content_length (r_fields r) <> [] ->
      Inv conf name_of zsize st ->
      w_size st <= 0 \/ w_size st + (if c_compress conf then scale size else size) <= c_max conf.
Proof. intros tbl ul conf name_of scale zsize info_rec Hinj. exact (fit_rule tbl ul conf name_of Hinj scale zsize info_rec). Qed.
Print Assumptions C13_fit_rule.

(** Names are those of the generator, one per file, never reused (for an injective generator); at
    most the last file is in progress, all others carry their final name. *)
Theorem C13_names_and_in_progress_state :
  forall tbl uni_lower conf name_of scale zsize info_rec,
    (forall a b, name_of a = name_of b -> a = b) ->
    forall ops recs stf all,
      w_run tbl uni_lower conf name_of scale zsize info_rec w_init recs ops = (stf, all) ->
      Inv conf name_of zsize stf.
Proof.
  intros tbl ul conf name_of scale zsize info_rec Hinj ops recs stf all HR.
  exact (proj1 (w_run_spec tbl ul conf name_of Hinj scale zsize info_rec ops w_init recs stf all (inv_init conf name_of zsize) HR)).
Qed.
Print Assumptions C13_names_and_in_progress_state.

(** The after-creation callback receives the final name, the true size of the file and the
    warcinfo id in use. *)
Theorem C13_callback_arguments :
  forall conf name_of zsize st n, Inv conf name_of zsize st -> w_cur st = Some n ->
    exists pre f, w_files st = pre ++ [f] /\ f_name f = n /\
      w_effects (w_close st) = w_effects st ++ [EClose n; ERename n; ECallback n (fsize conf zsize f) (w_info st)].
Proof. intros conf name_of zsize. exact (w_close_callback conf name_of zsize). Qed.
Print Assumptions C13_callback_arguments.

(** Callers sharing one generator (several goroutines, several writers): when the serial is taken
    by one atomic add - which Properties/SerialTable.v checks of the current source - the serials
    handed out under EVERY schedule of any number of calls are c+1, c+2, ... without repetition,
    so the names are pairwise different for every generator whose pattern is injective in the
    serial.  Stated for an unbounded counter; the int32 counter of the code is the next theorem. *)
Theorem C13_names_distinct_under_every_schedule :
  forall (N : Type) (name_of : Z -> N) c sched,
    (forall a b, name_of a = name_of b -> a = b) ->
    NoDup (map (fun r => name_of (snd r)) (run_add c sched)) /\
    map snd (run_add c sched) = map (fun i => (c + 1 + Z.of_nat i)%Z) (seq 0 (length sched)) /\
    map fst (run_add c sched) = sched.
Proof.
  intros N name_of c sched Hinj. split; [exact (names_distinct_under_every_schedule name_of c sched Hinj)|].
  split; [exact (run_add_values c sched)|exact (run_add_threads c sched)].
Qed.
Print Assumptions C13_names_distinct_under_every_schedule.

(** The discipline is needed: with an atomic load followed by an atomic store of the successor
    (no data race) two callers can be handed the same serial. *)
Theorem C13_load_then_store_refuted :
  exists sched, ~ NoDup (map snd (run_ls 0%Z (fun _ => None) sched)).
Proof. exact load_then_store_hands_out_a_serial_twice. Qed.
Print Assumptions C13_load_then_store_refuted.

(** The counter as it is in the code (an int32 that wraps): from any start value, the serials handed
    out under every schedule of at most 2^32 calls are pairwise different.  (Beyond 2^32 names
    from one generator the serial, and with it the name, repeats: a limit of the code, outside
    what the property is read to demand.) *)
Theorem C13_int32_serials_distinct_within_2_32_calls :
  forall c sched, (Z.of_nat (length sched) <= 4294967296)%Z -> NoDup (map snd (run_add32 c sched)).
Proof. exact int32_serials_distinct_within_2_32_calls. Qed.
Print Assumptions C13_int32_serials_distinct_within_2_32_calls.

(** the wrap is the one of Go's int32 (the harness starts generators just below MaxInt32 and at
    MinInt32 and checks the same sequence on the implementation) *)
Example C13_int32_wrap_example :
  map snd (run_add32 2147483646%Z [0; 1; 0]%nat) = [2147483647; -2147483648; -2147483647]%Z /\
  map snd (run_add32 (-2147483648)%Z [2; 2]%nat) = [-2147483647; -2147483646]%Z.
Proof. split; vm_compute; reflexivity. Qed.
