(** C13 — rotation, naming and warcinfo invariants of written files.

    Model: Model/Writer.v.  A record is one entry of one file by construction of the file model
    (an entry is never split); the theorems below are about which file it goes to and what else is
    in that file. *)
Require Import Model.Bytes Model.FieldDef Model.Fields Model.Validate Model.Record Model.Writer Proofs.WriterProofs.
Local Open Scope Z_scope.

(** With a warcinfo generator every file begins with exactly the warcinfo record built for its own
    name, and every other record in it has been stamped with that record's id — in every state
    reachable by Write (single, batched, repeated objects) and Rotate. *)
Theorem C13_every_file_begins_with_its_warcinfo :
  forall tbl uni_lower conf name_of scale zsize info_rec,
    (forall a b, name_of a = name_of b -> a = b) -> c_warcinfo conf = true ->
    forall ops recs stf all,
      w_run tbl uni_lower conf name_of scale zsize info_rec w_init recs ops = (stf, all) ->
      Forall (file_ok tbl uni_lower info_rec) (w_files stf).
Proof.
  intros tbl ul conf name_of scale zsize info_rec Hinj HW ops recs stf all HR.
  apply (run_keeps tbl ul conf name_of Hinj scale zsize info_rec (InfoInv tbl ul info_rec)) with (ops := ops) (st := w_init) (recs := recs) (all := all).
  - intros st r st' resp r' HI HP HWr. apply (info_write tbl ul conf name_of Hinj scale zsize info_rec st r st' resp r' HW HI HP HWr).
  - intros st HI HP. apply info_close. exact HP.
  - apply inv_init.
  - split; [constructor|intros n HH; discriminate].
  - exact HR.
Qed.
Print Assumptions C13_every_file_begins_with_its_warcinfo.

(** The fit rule: a record with a declared length is appended to a file that already holds data
    only if the current size plus the (ratio-scaled when compressing) declared length fits the
    limit; otherwise a fresh file is started (the serial grows). *)
Theorem C13_fit_rule :
  forall tbl uni_lower conf name_of scale zsize info_rec,
    (forall a b, name_of a = name_of b -> a = b) ->
    forall st r st' resp r' size,
      w_write tbl uni_lower conf name_of scale zsize info_rec st r = (st', resp, r') -> rs_err resp = false ->
      w_serial st' = w_serial st -> 0 < c_max conf -> w_cur st <> None ->
      atoi (m_get tbl uni_lower n_content_length (r_fields r)) = Some size ->
      m_get tbl uni_lower n_content_length (r_fields r) <> [] ->
      Inv conf name_of zsize st ->
      w_size st <= 0 \/ w_size st + (if c_compress conf then scale size else size) <= c_max conf.
Proof. intros tbl ul conf name_of scale zsize info_rec Hinj. exact (fit_rule tbl ul conf name_of Hinj scale zsize info_rec). Qed.
Print Assumptions C13_fit_rule.

(** Names are those of the generator, one per file, never reused (for an injective generator); at
    most the last file is in progress, all others carry their final name. *)
Theorem C13_names_and_in_progress_state :
  forall tbl uni_lower conf name_of scale zsize info_rec,
    (forall a b, name_of a = name_of b -> a = b) ->
    forall ops recs stf all,
      w_run tbl uni_lower conf name_of scale zsize info_rec w_init recs ops = (stf, all) ->
      Inv conf name_of zsize stf.
Proof.
  intros tbl ul conf name_of scale zsize info_rec Hinj ops recs stf all HR.
  exact (proj1 (w_run_spec tbl ul conf name_of Hinj scale zsize info_rec ops w_init recs stf all (inv_init conf name_of zsize) HR)).
Qed.
Print Assumptions C13_names_and_in_progress_state.

(** The after-creation callback receives the final name, the true size of the file and the
    warcinfo id in use. *)
Theorem C13_callback_arguments :
  forall conf name_of zsize st n, Inv conf name_of zsize st -> w_cur st = Some n ->
    exists pre f, w_files st = pre ++ [f] /\ f_name f = n /\
      w_effects (w_close st) = w_effects st ++ [EClose n; ERename n; ECallback n (fsize conf zsize f) (w_info st)].
Proof. intros conf name_of zsize. exact (w_close_callback conf name_of zsize). Qed.
Print Assumptions C13_callback_arguments.
