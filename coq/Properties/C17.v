(** C17 — header validation implements the WARC field table.

    Model: Model/Validate.v [validate_header] (resolveRecordType, the loop over the fields with the
    p* checkers and checkLegal, the duplicate test, required fields, Content-Type rule, illegal
    WARC-Concurrent-To), over the field table REGENERATED from /repo (Gen/FieldTable.v).
    Spec: [spec_accepts], the property's sentence as a predicate.  Oracles (any functions):
    time.Parse, net.ParseIP, whatwg-url Parse for URIs and for bracketed ids, Unicode lower-casing.
    Header sets are those WarcFields can hold: every name canonical ([canonical]). *)
Require Import Model.Bytes Model.FieldDef Gen.FieldTable Model.RefTable Model.Fields Model.Policy Model.Validate.
Require Import Proofs.NormalizeProofs Proofs.ValidateProofs.
From Coq Require Import String.
Local Open Scope N_scope.

(** tie T-A: the table read from the source on this run IS the reference table (same rows in the
    same order; a reordering of rows would also be a change of behaviour for duplicate names). *)
Theorem C17_table_is_reference :
  field_table = reference_table /\ required_fields = reference_required.
Proof. split; reflexivity. Qed.
Print Assumptions C17_table_is_reference.

Section C17.
Variable uni_lower : bytes -> bytes.
Variables time_ok ip_ok uri_ok wid_ok : bytes -> bool.
Notation validate := (validate_header field_table required_fields uni_lower time_ok ip_ok uri_ok wid_ok).
Notation accepts := (spec_accepts reference_table reference_required uni_lower time_ok ip_ok uri_ok wid_ok).
Notation canonical := (canonical field_table uni_lower).

(** Under strict spec policy a header set is accepted exactly when the property's conditions hold
    (for every setting of the unknown-record-type axis). *)
Theorem C17_strict_accepts_iff_spec : forall p_unk vid hs, canonical hs ->
  is_ok (validate Fail p_unk vid hs []) = true <->
  accepts vid hs = true /\ type_accepts uni_lower p_unk hs = true.
Proof.
  intros p_unk vid hs HC. destruct C17_table_is_reference as [<- <-].
  exact (strict_accepts_iff_spec field_table required_fields uni_lower time_ok ip_ok uri_ok wid_ok p_unk vid hs HC).
Qed.

(** Under warn the record is returned and the findings are exactly the defects (one per invalid or
    illegal field occurrence, one per occurrence of an over-repeated field, one per missing
    mandatory field, Content-Type, WARC-Concurrent-To), after the record-type findings. *)
Theorem C17_warn_returns_record_with_all_defects : forall p_unk vid hs, canonical hs -> p_unk <> Fail ->
  validate Warn p_unk vid hs [] =
  Ok (rt_of uni_lower hs, hs)
     (type_findings uni_lower p_unk hs ++
      header_defects field_table required_fields uni_lower time_ok ip_ok uri_ok wid_ok vid (rt_of uni_lower hs) hs).
Proof. exact (warn_result field_table required_fields uni_lower time_ok ip_ok uri_ok wid_ok). Qed.

(** Under warn exactly the header sets that strict rejects produce findings. *)
Theorem C17_warn_findings_iff_strict_rejects : forall vid hs, canonical hs ->
  findings_of (validate Warn Warn vid hs []) = [] <-> is_ok (validate Fail Fail vid hs []) = true.
Proof. exact (warn_findings_iff_strict_rejects field_table required_fields uni_lower time_ok ip_ok uri_ok wid_ok). Qed.

(** a defect-free header set has an empty defect list and vice versa (so "at least one finding per
    defect": the findings ARE the defects) *)
Theorem C17_no_defect_iff_accepted : forall vid rt hs, canonical hs ->
  header_defects field_table required_fields uni_lower time_ok ip_ok uri_ok wid_ok vid rt hs = [] <->
  rest_accepts field_table required_fields uni_lower time_ok ip_ok uri_ok wid_ok vid rt hs = true.
Proof. exact (defects_nil_iff field_table required_fields uni_lower time_ok ip_ok uri_ok wid_ok). Qed.

(** under ignore validation produces no spec finding and changes nothing *)
Theorem C17_ignore_no_findings : forall p_unk vid hs, p_unk <> Fail ->
  validate Ignore p_unk vid hs [] =
  Ok (rt_of uni_lower hs, hs)
     (if (rt_of uni_lower hs =? 0) then match p_unk with Warn => [(KUnknownType, type_field uni_lower hs)] | _ => [] end else []).
Proof. exact (ignore_result field_table required_fields uni_lower time_ok ip_ok uri_ok wid_ok). Qed.
End C17.

Print Assumptions C17_strict_accepts_iff_spec.
Print Assumptions C17_warn_returns_record_with_all_defects.
Print Assumptions C17_warn_findings_iff_strict_rejects.
Print Assumptions C17_no_defect_iff_accepted.
Print Assumptions C17_ignore_no_findings.

(** non-vacuity: a concrete canonical, accepted response header; and a rejected one *)
Definition ex_ok (s : bytes) := true.
Definition ex_hs : fields :=
  [ (bs "WARC-Type", bs "response"); (bs "WARC-Record-ID", bs "<urn:uuid:1>");
    (bs "WARC-Date", bs "2020-01-02T03:04:05Z"); (bs "Content-Length", bs "12");
    (bs "Content-Type", bs "text/plain") ]%string.
Example C17_example_accepted :
  is_ok (validate_header field_table required_fields (fun s => s) ex_ok ex_ok ex_ok ex_ok Fail Fail 2 ex_hs []) = true
  /\ canon field_table (fun s => s) ex_hs = ex_hs.
Proof. vm_compute. split; reflexivity. Qed.
Example C17_example_rejected :
  is_ok (validate_header field_table required_fields (fun s => s) ex_ok ex_ok ex_ok ex_ok Fail Fail 2
           (ex_hs ++ [(bs "WARC-Filename", bs "x"); (bs "Content-Length", bs "-1")]%string) []) = false.
Proof. vm_compute. reflexivity. Qed.

(** "... and the record is still returned", for the parser as a whole (Proofs/WarnReturnsProofs.v):
    with the spec policy at warn (the unknown-type policy not at fail) the parser withholds a record
    only when the version line or the header section cannot be read - end of input, read error, or
    a syntax error that the syntax policy rejects.  Whenever they can be read, a record comes back,
    whatever header validation, block parsing, length and digest verification or the end-of-record
    marker find (their complaints are findings, or an error attached to the returned record). *)
Require Import Model.Stream Model.HeaderParse Model.Digest Model.Record Proofs.WarnReturnsProofs.
Theorem C17_parser_under_warn_still_returns_the_record :
  forall uni_lower uni_upper time_ok ip_ok uri_ok wid_ok mime_dec H b32 b64 http_req_ok http_resp_ok o s fnd,
    o_spec o = Warn -> o_unknown o <> Fail ->
    header_readable field_table uni_lower mime_dec o s ->
    is_rec (parse_record field_table required_fields uni_lower uni_upper time_ok ip_ok uri_ok wid_ok mime_dec H b32 b64
                         http_req_ok http_resp_ok o s fnd).
Proof.
  intros ul uu tk ik uk wk md H b32 b64 hq hr o s fnd.
  exact (warn_returns_a_record field_table required_fields ul uu tk ik uk wk md H b32 b64 hq hr gen_table_ok o s fnd).
Qed.
Print Assumptions C17_parser_under_warn_still_returns_the_record.

(** non-vacuity: a record whose header strict rejects (mandatory fields missing, a negative
    Content-Length): readable, withheld under strict, returned with findings under warn *)
Definition exw_stream : stream :=
  mkst (bs "WARC/1.1" ++ [13;10] ++ bs "WARC-Type: response" ++ [13;10] ++ bs "Content-Length: -1" ++ [13;10;13;10])%list TEOF.
Definition exw_opts (p : policy) := mkopts Warn p Warn Warn false false false false false false false false (bs "sha1") Base16.
Definition exw_parse (p : policy) :=
  parse_record field_table required_fields (fun s => s) (fun s => s) ex_ok ex_ok ex_ok ex_ok (fun _ => None) (fun _ _ => []) (fun _ => None) (fun _ => None)
               ex_ok ex_ok (exw_opts p) exw_stream [].
Example C17_warn_parser_example :
  header_readable field_table (fun s => s) (fun _ => None) (exw_opts Warn) exw_stream /\
  match exw_parse Fail with UNone _ _ => True | URec _ _ _ _ => False end /\
  match exw_parse Warn with URec r _ f _ => r_type r = 2 /\ f <> [] | UNone _ _ => False end.
Proof.
  split.
  - unfold header_readable. do 4 eexists. exists [], []. split; [vm_compute; reflexivity|].
    split; [left; vm_compute; reflexivity|vm_compute; reflexivity].
  - split; vm_compute; [exact I|split; [reflexivity|discriminate]].
Qed.
