(** C07 — validation observes, it does not destroy what was archived.

    Model: [validate_header] (Model/Validate.v) and [validate_digest] (Model/Record.v). *)
Require Import Model.Bytes Model.FieldDef Gen.FieldTable Model.Fields Model.Policy Model.Validate Model.Digest Model.Record.
Require Import Proofs.ValidateProofs Proofs.RecordProofs.
Local Open Scope N_scope.

(** Header validation returns the header fields exactly as it received them, under warn and
    under ignore, whatever is wrong with them (the defect "an invalid value is replaced by the
    empty string" was found here and repaired). *)
Theorem C07_header_validation_keeps_every_field :
  forall uni_lower time_ok ip_ok uri_ok wid_ok p p_unk vid hs, canonical field_table uni_lower hs ->
    p <> Fail -> p_unk <> Fail ->
    exists rt fnd, validate_header field_table required_fields uni_lower time_ok ip_ok uri_ok wid_ok p p_unk vid hs [] = Ok (rt, hs) fnd.
Proof.
  intros uni_lower time_ok ip_ok uri_ok wid_ok p p_unk vid hs HC Hp Hu. destruct p; [| |congruence].
  - eexists; eexists. apply ignore_result. exact Hu.
  - eexists; eexists. apply warn_result; assumption.
Qed.
Print Assumptions C07_header_validation_keeps_every_field.

(** With the add-missing and repair options off, length and digest verification never changes a
    header field, under any policy and whatever it finds. *)
Theorem C07_digest_verification_changes_nothing_with_repairs_off :
  forall tbl uni_lower H b32 b64 o rt hs b bd pd cached fnd hs' fnd',
    o_add_digest o = false -> o_fix_cl o = false -> o_fix_digest o = false ->
    validate_digest tbl uni_lower H b32 b64 o rt hs b bd pd cached fnd = Ok hs' fnd' -> hs' = hs.
Proof. exact validate_digest_repairs_off. Qed.
Print Assumptions C07_digest_verification_changes_nothing_with_repairs_off.

(** the block clause: a record that the parser returns clean (no error) and without any finding,
    under a spec policy above ignore, has a block of exactly the declared length: the block is
    never silently empty or shortened (with the spec policy at ignore the check is off and a stream
    that ends early goes unnoticed: known finding short-stream-under-ignore) *)
Require Import Gen.FieldTable Model.Stream Proofs.BuildProofs.
Theorem C07_clean_record_carries_a_block_of_the_declared_length :
  forall uni_lower uni_upper time_ok ip_ok uri_ok wid_ok mime_dec H b32 b64 http_req_ok http_resp_ok o s r s',
    policy_gt_ignore (o_spec o) = true ->
    parse_record field_table required_fields uni_lower uni_upper time_ok ip_ok uri_ok wid_ok mime_dec H b32 b64
                 http_req_ok http_resp_ok o s [] = URec r None [] s' ->
    m_has field_table uni_lower n_content_length (r_fields r) = true ->
    m_get field_table uni_lower n_content_length (r_fields r) = itoa (Z.of_nat (length (raw_bytes (r_block r)))).
Proof. intros. eapply clean_record_has_declared_length; eassumption. Qed.
Print Assumptions C07_clean_record_carries_a_block_of_the_declared_length.

(** the first sentence for the whole parser on plain streams: with the add-missing and repair
    options off, ANY two policy settings that both return a record without error return the same
    record - version, type, header fields with their values, block bytes - and leave the same
    rest of the stream.  Only the findings differ.  (Both agree with the all-ignore run, which
    cannot be the one that errs because rejection is monotone, C08.) *)
Require Import Model.Policy Proofs.NormalizeProofs Proofs.MonoPipeProofs Proofs.SameRecordProofs.
Theorem C07_two_policy_settings_return_the_same_record :
  forall uni_lower uni_upper time_ok ip_ok uri_ok wid_ok mime_dec H b32 b64 http_req_ok http_resp_ok
         o pyA psA puA pbA pyB psB puB pbB s r1 g1 s1 r2 g2 s2,
    o_add_digest o = false -> o_fix_cl o = false -> o_fix_digest o = false -> o_fix_wfblock o = false ->
    parse_record field_table required_fields uni_lower uni_upper time_ok ip_ok uri_ok wid_ok mime_dec H b32 b64
                 http_req_ok http_resp_ok (relevel4 o pyA psA puA pbA) s [] = URec r1 None g1 s1 ->
    parse_record field_table required_fields uni_lower uni_upper time_ok ip_ok uri_ok wid_ok mime_dec H b32 b64
                 http_req_ok http_resp_ok (relevel4 o pyB psB puB pbB) s [] = URec r2 None g2 s2 ->
    r1 = r2 /\ s1 = s2.
Proof. intros. eapply same_record_under_any_two_settings; try eassumption. exact gen_table_ok. Qed.
Print Assumptions C07_two_policy_settings_return_the_same_record.

(** "... with repair options on, only the documented repairs (Content-Length, block and payload
    digest fields ...) may differ": under every option setting (add-missing and repair options on
    or off), every policy and whatever it finds, length and digest verification leaves the value of
    every header field other than Content-Length, WARC-Block-Digest and WARC-Payload-Digest as it
    was (Proofs/RepairScopeProofs.v).  (The missing HTTP header terminator is a repair of the block,
    made by parseBlock; it touches no header field.) *)
Require Import Proofs.RepairScopeProofs.
Theorem C07_repairs_touch_only_the_length_and_digest_fields :
  forall uni_lower H b32 b64 o rt hs b bd pd cached fnd hs' fnd',
    validate_digest field_table uni_lower H b32 b64 o rt hs b bd pd cached fnd = Ok hs' fnd' ->
    forall a, normalize_name field_table uni_lower a <> normalize_name field_table uni_lower n_content_length ->
              normalize_name field_table uni_lower a <> normalize_name field_table uni_lower n_block_digest ->
              normalize_name field_table uni_lower a <> normalize_name field_table uni_lower n_payload_digest ->
              m_get field_table uni_lower a hs' = m_get field_table uni_lower a hs.
Proof.
  intros ul H b32 b64 o rt hs b bd pd cached fnd hs' fnd' E a H1 H2 H3.
  apply (validate_digest_scope field_table ul H b32 b64 o rt hs b bd pd cached fnd hs' fnd' E a).
  unfold repairable. tauto.
Qed.
Print Assumptions C07_repairs_touch_only_the_length_and_digest_fields.

(** non-vacuity: the other fields of the table are such names (shown for five of them) *)
From Coq Require Import String.
Example C07_other_fields_exist :
  Forall (fun a => normalize_name field_table (fun s => s) a <> normalize_name field_table (fun s => s) n_content_length /\
                   normalize_name field_table (fun s => s) a <> normalize_name field_table (fun s => s) n_block_digest /\
                   normalize_name field_table (fun s => s) a <> normalize_name field_table (fun s => s) n_payload_digest)
         [bs "WARC-Date"; bs "WARC-Type"; bs "WARC-Record-ID"; bs "Content-Type"; bs "X-Unknown"]%string.
Proof. repeat constructor; vm_compute; discriminate. Qed.
