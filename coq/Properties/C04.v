(** C04 — writer and reader agree on record positions.

    Model: Model/Writer.v (singleWarcFileWriter over an abstract file system: a file is the list
    of records appended to it, each one gzip member when compression is on; [esize] is the size of
    an entry in the file: the member size [zsize] or the plain length).  [name_of] is the name
    generator (assumed injective), [scale] the float64 ratio scaling, [info_rec] the warcinfo
    record built for a file name: any functions.  What a reader returns at an offset is the
    subject of C01 (the record parses back from its serialized bytes whatever follows). *)
Require Import Model.Bytes Model.FieldDef Model.Fields Model.Record Model.Writer Proofs.WriterProofs.
Local Open Scope Z_scope.

(** For every sequence of Write (single and batched, also of the same record object again) and
    Rotate calls, every size limit, compression setting and warcinfo configuration: every response
    without error names a file that, in the end, contains the serialized record as exactly one
    entry, starting at exactly the reported offset (= the total size of the entries before it), and
    BytesWritten is the uncompressed serialized length. *)
Theorem C04_offsets_are_positions :
  forall tbl uni_lower conf name_of scale zsize info_rec,
    (forall a b, name_of a = name_of b -> a = b) ->
    forall ops recs stf all,
      w_run tbl uni_lower conf name_of scale zsize info_rec w_init recs ops = (stf, all) ->
      Forall (Forall (fun resp =>
        rs_err resp = false ->
        exists e, located conf zsize (w_files stf) (rs_name resp) (rs_off resp) e /\
                  rs_n resp = Z.of_nat (length e))) all.
Proof.
  intros tbl ul conf name_of scale zsize info_rec Hinj ops recs stf all HR.
  destruct (w_run_spec tbl ul conf name_of Hinj scale zsize info_rec ops w_init recs stf all (inv_init conf name_of zsize) HR) as (_ & HF & _).
  exact HF.
Qed.
Print Assumptions C04_offsets_are_positions.

(** one Write: the record is appended as the last entry of the current file, at the offset that
    is the size of that file so far; sequential offsets therefore add up *)
Theorem C04_write_appends_at_the_reported_offset :
  forall tbl uni_lower conf name_of scale zsize info_rec,
    (forall a b, name_of a = name_of b -> a = b) ->
    forall st r st' resp r', Inv conf name_of zsize st ->
      w_write tbl uni_lower conf name_of scale zsize info_rec st r = (st', resp, r') ->
      Inv conf name_of zsize st' /\
      (rs_err resp = false ->
       exists pre f before,
         w_files st' = pre ++ [f] /\ f_name f = rs_name resp /\ w_cur st' = Some (rs_name resp) /\
         f_entries f = before ++ [marshal r'] /\ rs_off resp = sizes conf zsize before /\
         rs_n resp = Z.of_nat (length (marshal r')) /\ r' = stamp tbl uni_lower (w_info st') r).
Proof. intros tbl ul conf name_of scale zsize info_rec Hinj. exact (w_write_spec tbl ul conf name_of Hinj scale zsize info_rec). Qed.
Print Assumptions C04_write_appends_at_the_reported_offset.

(** the last sentence, for plain streams: whatever offset Unmarshal reports for a record - also
    after skipping junk between records - is a position from which a fresh reader returns that
    same record: same record, same error state, same rest of the stream, reported at offset 0 of
    the stream opened there (only the finding about the skipped bytes is gone) *)
Require Import Model.Bytes Model.Policy Model.Stream Model.Record Gen.FieldTable Proofs.NormalizeProofs Proofs.OffsetProofs.
Theorem C04_a_reported_offset_is_a_record_position :
  forall uni_lower uni_upper time_ok ip_ok uri_ok wid_ok mime_dec H b32 b64 http_req_ok http_resp_ok o s off r e fnd s',
    unmarshal_plain field_table required_fields uni_lower uni_upper time_ok ip_ok uri_ok wid_ok mime_dec H b32 b64
                    http_req_ok http_resp_ok o s = (off, URec r e fnd s') ->
    exists fnd', unmarshal_plain field_table required_fields uni_lower uni_upper time_ok ip_ok uri_ok wid_ok mime_dec H b32 b64
                                 http_req_ok http_resp_ok o (discard off s) = (0%nat, URec r e fnd' s').
Proof. intros. eapply reported_offset_is_a_record_position; [exact gen_table_ok|eassumption]. Qed.
Print Assumptions C04_a_reported_offset_is_a_record_position.

(** Writer and reader put together (uncompressed files; Proofs/WriterReadProofs.v): a Write that
    reports no error, followed by any further Writes and Rotates - in the end a reader placed at
    the reported offset of the named file returns exactly the (stamped) record Write handed back,
    without error or finding, and stands at the entry that follows, provided that record is valid
    for the reader's options ([valid_record], the hypothesis of C01's reader theorem, which the
    records of the strict builder meet: C01_strictly_built_record_round_trips).  For compressed
    files the member boundaries are positions of the container, which is not modelled: evaluated
    on the implementation. *)
Require Import Model.HeaderParse Model.Digest Model.Validate Proofs.RoundTripProofs Proofs.WriterReadProofs.
Theorem C04_a_reader_at_the_reported_offset_returns_the_record :
  forall uni_lower conf name_of scale zsize info_rec,
    (forall a b, name_of a = name_of b -> a = b) ->
    forall uni_upper time_ok ip_ok uri_ok wid_ok mime_dec H b32 b64 http_req_ok http_resp_ok o bd pd tl
           st r st1 resp r' recs ops stf all,
      c_compress conf = false -> Inv conf name_of zsize st ->
      w_write field_table uni_lower conf name_of scale zsize info_rec st r = (st1, resp, r') -> rs_err resp = false ->
      w_run field_table uni_lower conf name_of scale zsize info_rec st1 recs ops = (stf, all) ->
      valid_record field_table required_fields uni_lower uni_upper time_ok ip_ok uri_ok wid_ok mime_dec H b32 b64
                   http_req_ok http_resp_ok o r' bd pd ->
      r' = stamp field_table uni_lower (w_info st1) r /\
      exists f after, In f (w_files stf) /\ f_name f = rs_name resp /\ (0 <= rs_off resp)%Z /\
        parse_record field_table required_fields uni_lower uni_upper time_ok ip_ok uri_ok wid_ok mime_dec H b32 b64
                     http_req_ok http_resp_ok o
                     (mkst (skipn (Z.to_nat (rs_off resp)) (concat (f_entries f))) tl) []
        = URec r' None [] (mkst (concat after) tl).
Proof.
  intros ul conf name_of scale zsize info_rec Hinj uu tk ik uk wk md H b32 b64 hq hr o bd pd tl st r st1 resp r' recs ops stf all.
  exact (reader_at_reported_offset field_table ul conf name_of Hinj scale zsize info_rec uu tk ik uk wk md H b32 b64 hq hr o bd pd tl
           st r st1 resp r' recs ops stf all).
Qed.
Print Assumptions C04_a_reader_at_the_reported_offset_returns_the_record.

(** non-vacuity: the valid record of C01's example, written as second record of a fresh writer
    without warcinfo; the response carries no error, the record comes back unstamped, the offset
    is the length of the first entry *)
Require Properties.C01.
Definition exw_conf := mkconf 0%Z false false false.
Definition exw_name (n : nat) : bytes := [N.of_nat n].
Definition exw_write st := w_write field_table C01.ex_idb exw_conf exw_name (fun z => z) (fun _ => 0%Z) (fun _ => C01.ex_record) st C01.ex_record.
Example C04_reader_hypotheses_are_satisfiable :
  (forall a b, exw_name a = exw_name b -> a = b) /\
  Inv exw_conf exw_name (fun _ => 0%Z) w_init /\
  let '(st1, _, _) := exw_write w_init in
  let '(_, resp, r') := exw_write st1 in
  rs_err resp = false /\ r' = C01.ex_record /\ rs_off resp = Z.of_nat (length (marshal C01.ex_record)) /\ (0 < rs_off resp)%Z.
Proof.
  split; [intros a b E; injection E; apply Nnat.Nat2N.inj|]. split; [apply inv_init|].
  vm_compute. repeat split.
Qed.
