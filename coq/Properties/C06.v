(** C06 — truncated files: complete records survive and the cut is visible.

    PARTIAL.  Mechanised: (1) what follows a complete header section never influences how it is
    parsed (C19/C01 theorem [parse_serialize] holds for every rest of the stream and every tail
    condition, in particular for a truncated remainder); (2) a stream that ends inside or right
    before the end-of-record marker is reported by the marker check under warn and fail;
    (3) the parser never consumes more than it was given (C05); (4) the whole-file half
    "complete records survive": for every sequence of valid records followed by ANY remainder (the
    prefix of a cut record, junk, nothing) and any stream tail, sequential reading returns
    exactly those records, clean, at their offsets, and then continues on the remainder
    ([C06_complete_records_before_the_cut_survive]); (5) the visibility half for every cut that
    falls after the header section - inside the block or inside the end-of-record marker: the
    partial record is never returned clean and without a finding under a spec policy of warn or
    fail ([C06_cut_inside_block_or_marker_is_visible]); (6) the same for EVERY cut position of a
    valid record - magic bytes, version line, header section, block, marker
    ([C06_every_cut_of_a_record_is_visible]): reading the non-empty proper prefix never yields a
    record that is clean and without findings.  The header case rests on two lemmas: for any
    input, a successful header parse that leaves input unread has seen an empty line; a proper
    prefix of the serialisation of well-formed fields contains none.  (7) For per-record gzip
    files, at the level of abstraction of the model (the decompressor is an oracle: a file is a
    list of members, each given by what it decompresses to and whether it is whole): whole
    members holding valid records are returned as those records at their compressed offsets
    whatever follows, and a member that was cut anywhere is never returned as a clean record
    ([C06_gzip_*]).  What the model cannot exhibit: the decompressor itself.  Both
    are evaluated on the implementation for every cut position by the executable statement
    (domain trunc; a cut that leaves fewer than 5 bytes is visible as end-of-file reported
    before the end of the data) and tied to the model by the sequential-reading correspondence
    (domain unm, including cut gzip members). *)
Require Import Model.Bytes Model.FieldDef Gen.FieldTable Model.Fields Model.Policy Model.Stream Model.HeaderParse Model.Digest Model.Record.
Require Import Proofs.HeaderProofs Proofs.RecordProofs Proofs.RoundTripProofs Proofs.CutHeaderProofs Proofs.GzProofs.

Theorem C06_complete_header_section_survives_any_remainder :
  forall uni_lower mime_dec p fs rest tl fnd,
    (forall f, In f fs -> wf_field field_table uni_lower f) -> fs <> [] ->
    parse_fields field_table uni_lower mime_dec p (mkst (serialize fs ++ rest) tl) fnd
    = Ok (fs, mkst rest tl) fnd.
Proof. exact (parse_serialize field_table). Qed.
Print Assumptions C06_complete_header_section_survives_any_remainder.

Theorem C06_cut_at_the_end_of_record_marker_is_reported :
  forall o s fnd, (length (sdata s) < 4)%nat ->
    exists s', trailer o s fnd = site (o_spec o) (KTrailer, []) fnd (fun f => Ok s' f).
Proof. exact trailer_short. Qed.
Print Assumptions C06_cut_at_the_end_of_record_marker_is_reported.

Theorem C06_complete_marker_is_accepted :
  forall o rest tl fnd, trailer o (mkst (CRLFCRLF ++ rest) tl) fnd = Ok (mkst rest tl) fnd.
Proof. exact trailer_ok. Qed.
Print Assumptions C06_complete_marker_is_accepted.

Theorem C06_complete_records_before_the_cut_survive :
  forall uni_lower uni_upper time_ok ip_ok uri_ok wid_ok mime_dec H b32 b64 http_req_ok http_resp_ok o rs rest tl k base,
    (forall r, In r rs -> exists bd pd,
        valid_record field_table required_fields uni_lower uni_upper time_ok ip_ok uri_ok wid_ok mime_dec H b32 b64
                     http_req_ok http_resp_ok o r bd pd) ->
    read_all_plain field_table required_fields uni_lower uni_upper time_ok ip_ok uri_ok wid_ok mime_dec H b32 b64
                   http_req_ok http_resp_ok (length rs + k) o (mkst (flat_map marshal rs ++ rest) tl) base
    = expected rs rest tl base
      ++ read_all_plain field_table required_fields uni_lower uni_upper time_ok ip_ok uri_ok wid_ok mime_dec H b32 b64
                        http_req_ok http_resp_ok k o (mkst rest tl) (base + length (flat_map marshal rs)).
Proof.
  intros. apply (complete_records_survive field_table required_fields); assumption.
Qed.
Print Assumptions C06_complete_records_before_the_cut_survive.

Theorem C06_cut_inside_block_or_marker_is_visible :
  forall uni_lower uni_upper time_ok ip_ok uri_ok wid_ok mime_dec H b32 b64 http_req_ok http_resp_ok o r bd pd x y,
    valid_record field_table required_fields uni_lower uni_upper time_ok ip_ok uri_ok wid_ok mime_dec H b32 b64
                 http_req_ok http_resp_ok o r bd pd ->
    policy_gt_ignore (o_spec o) = true ->
    (* x: what is left of the block and the marker; y: what the cut removed, not empty *)
    raw_bytes (r_block r) ++ CRLFCRLF = x ++ y -> y <> [] ->
    ~ clean_and_silent
        (parse_record field_table required_fields uni_lower uni_upper time_ok ip_ok uri_ok wid_ok mime_dec H b32 b64
                      http_req_ok http_resp_ok o
                      (mkst (s_WARC ++ r_vtxt r ++ CRLF ++ serialize (r_fields r) ++ x) TEOF) []).
Proof. intros. eapply (cut_after_header_is_visible field_table required_fields); eassumption. Qed.
Print Assumptions C06_cut_inside_block_or_marker_is_visible.

Theorem C06_every_cut_of_a_record_is_visible :
  forall uni_lower uni_upper time_ok ip_ok uri_ok wid_ok mime_dec H b32 b64 http_req_ok http_resp_ok o r bd pd c y,
    valid_record field_table required_fields uni_lower uni_upper time_ok ip_ok uri_ok wid_ok mime_dec H b32 b64
                 http_req_ok http_resp_ok o r bd pd ->
    policy_gt_ignore (o_spec o) = true ->
    marshal r = c ++ y -> y <> [] ->            (* c: what the cut left of the record, y: what it removed *)
    ~ clean_and_silent
        (snd (unmarshal_plain field_table required_fields uni_lower uni_upper time_ok ip_ok uri_ok wid_ok mime_dec H b32 b64
                              http_req_ok http_resp_ok o (mkst c TEOF))).
Proof. intros. eapply (every_cut_is_visible field_table required_fields); eassumption. Qed.
Print Assumptions C06_every_cut_of_a_record_is_visible.

Theorem C06_gzip_whole_members_before_the_cut_survive :
  forall uni_lower uni_upper time_ok ip_ok uri_ok wid_ok mime_dec H b32 b64 http_req_ok http_resp_ok o rs rest k base,
    (forall r cs, In (r, cs) rs -> exists bd pd,
        valid_record field_table required_fields uni_lower uni_upper time_ok ip_ok uri_ok wid_ok mime_dec H b32 b64
                     http_req_ok http_resp_ok o r bd pd) ->
    read_all_gz field_table required_fields uni_lower uni_upper time_ok ip_ok uri_ok wid_ok mime_dec H b32 b64
                http_req_ok http_resp_ok (length rs + k) o (members rs ++ rest) base
    = expected_gz rs base
      ++ read_all_gz field_table required_fields uni_lower uni_upper time_ok ip_ok uri_ok wid_ok mime_dec H b32 b64
                     http_req_ok http_resp_ok k o rest (base + total_csize rs).
Proof. intros. apply (whole_members_survive field_table required_fields); assumption. Qed.
Print Assumptions C06_gzip_whole_members_before_the_cut_survive.

Theorem C06_gzip_cut_member_is_never_a_clean_record :
  forall uni_lower uni_upper time_ok ip_ok uri_ok wid_ok mime_dec H b32 b64 http_req_ok http_resp_ok o payload csize rest,
    let '(_, u, _, _) := unmarshal_gz field_table required_fields uni_lower uni_upper time_ok ip_ok uri_ok wid_ok mime_dec H b32 b64
                                      http_req_ok http_resp_ok o (GMember payload false csize :: rest) in
    is_clean u = false.
Proof. intros. apply (cut_member_is_not_clean field_table required_fields). Qed.
Print Assumptions C06_gzip_cut_member_is_never_a_clean_record.
