(** C14 — the spill buffer behaves exactly like an in-memory buffer.

    Model: Model/Spill.v [b_step] (memory part, temp-file part, threshold, two-part reads, nil file
    buffer, slice views).  Spec: [p_step], a plain byte list with a read offset. *)
Require Import Model.Bytes Model.Spill Proofs.SpillProofs.
From Coq Require Import Arith.
Local Open Scope nat_scope.

(** Every history of Write / WriteString / ReadFrom / Read / Peek / ReadBytes / ReadString /
    Seek(0) / Size / slice views (with their own reads, peeks, line reads, seeks and sizes),
    of any length, in any interleaving, for every memory threshold >= 1 and every data:
    all returned bytes, counts, sizes and end-of-data signals are those of the plain buffer. *)
Theorem C14_spill_refines_plain_buffer :
  forall (max : nat) (ops : list bop), 1 <= max ->
    b_run (new_buf max) ops = p_run (mkp [] 0) ops.
Proof. exact spill_refines_new. Qed.
Print Assumptions C14_spill_refines_plain_buffer.

(** ... and from any state satisfying the spill invariant (nothing on disk while memory has room) *)
Theorem C14_spill_refines_from_any_state :
  forall ops b, Inv b -> b_run b ops = p_run (absb b) ops.
Proof. exact spill_refines. Qed.
Print Assumptions C14_spill_refines_from_any_state.

Theorem C14_spill_invariant_reachable :
  forall ops max, 1 <= max -> Inv (b_exec (new_buf max) ops).
Proof. intros ops max H. apply spill_invariant. apply inv_new. exact H. Qed.
Print Assumptions C14_spill_invariant_reachable.

(** the plain buffer's end-of-data convention is a legal io.Reader: exactly the requested bytes
    while available, EOF never before the last byte, EOF on every non-empty read at the end *)
Theorem C14_end_of_data_contract :
  forall c o k,
    let '(out, eof) := p_read_at c o k in
    out = firstn k (skipn o c) /\
    (eof = true -> o + length out >= length c) /\
    (0 < k -> length c <= o -> out = [] /\ eof = true).
Proof. exact p_read_contract. Qed.
Print Assumptions C14_end_of_data_contract.

(** non-vacuity: threshold 3 inside a 5-byte write; a peek window and a line crossing the boundary *)
Example C14_nontrivial_history :
  b_run (new_buf 3) [BWrite [97; 98; 10; 99; 100]%N; BPeek 4; BReadBytes 10%N; BRead 5; BSize;
                     BSlice 1 (Some 3) [SSize; SReadBytes 10%N; SRead 9]]
  = [ON 5 ENil; OData [97; 98; 10; 99]%N false; OData [97; 98; 10]%N false; OData [99; 100]%N true; OSize 5;
     OSlice [OSize 3; OData [98; 10]%N false; OData [99]%N false]].
Proof. vm_compute. reflexivity. Qed.
