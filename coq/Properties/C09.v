(** C09 — concurrent writing never loses, duplicates, tears or misplaces records.

    The statement has a protocol half and a file half.

    Protocol half (Model/Protocol.v, this file): for every number of callers, every script of
    Write / Rotate / Close calls, every number of workers and EVERY interleaving (all reachable
    states of the transition system), the record writes performed on behalf of a caller are
    exactly, in order, records 0..b-1 of each of its Writes that returned b responses, and none
    for a Write that returned no responses; a job is finished by exactly one worker, once; the
    responses returned are those of the job submitted; at most one thread is inside a worker's
    file critical section.

    File half: what one critical section does to the worker's file (offsets, whole records,
    rotation, warcinfo) is the sequential writer model, Properties/C04.v, C12.v, C13.v; the mutex
    theorem below is what makes every worker's file history a sequential run of that model.

    REFUTED part: "the records of one Write call lie contiguously in one file".  The faithful model
    has a run in which a concurrent Rotate closes the worker's file between the two records of a
    batch ([C09_batch_in_one_file_refuted]); the size-triggered variant is
    [Properties/C13.v].  The implementation shows both (known finding batch-split-across-files). *)
Require Import Model.Bytes Model.Protocol Proofs.ProtocolProofs.
From Coq Require Import Arith.
Local Open Scope nat_scope.

Theorem C09_records_of_every_write_are_written_exactly_once_in_order :
  forall scripts nworkers s, 0 < nworkers -> reach (init scripts nworkers) s ->
  forall j c, nth_error (callers s) j = Some c -> (forall b, c_pc c <> CW3 b) ->
    (* the indices of the record writes done for caller j, in the order they happened *)
    widx j (written s) = flat_map exp_idx (c_results c).
Proof. exact P_C09_records_of_every_write_are_written_exactly_once_in_order. Qed.
Print Assumptions C09_records_of_every_write_are_written_exactly_once_in_order.

(** while a Write is in flight the same holds with the in-flight prefix added *)
Theorem C09_in_flight_writes_are_a_prefix :
  forall scripts nworkers s, 0 < nworkers -> reach (init scripts nworkers) s ->
  forall j, widx j (written s) =
    flat_map exp_idx (cres (callers s) j) ++ seq 0 (sumf (inflight j) (workers s)).
Proof. exact P_C09_in_flight_writes_are_a_prefix. Qed.
Print Assumptions C09_in_flight_writes_are_a_prefix.

Theorem C09_every_job_is_finished_exactly_once :
  forall scripts nworkers s, 0 < nworkers -> reach (init scripts nworkers) s ->
  forall j c, nth_error (callers s) j = Some c -> (forall b, c_pc c <> CW3 b) ->
    countp j (processed s) = count_some (c_results c).
Proof. exact P_C09_every_job_is_finished_exactly_once. Qed.
Print Assumptions C09_every_job_is_finished_exactly_once.

Theorem C09_responses_are_those_of_the_submitted_batch :
  forall scripts nworkers s, 0 < nworkers -> reach (init scripts nworkers) s ->
  forall i c b w b', nth_error (callers s) i = Some c -> c_pc c = CW3 b ->
    nth_error (workers s) w = Some (KRespond i b') -> b' = b.
Proof. exact P_C09_responses_are_those_of_the_submitted_batch. Qed.
Print Assumptions C09_responses_are_those_of_the_submitted_batch.

Theorem C09_one_thread_in_a_file_critical_section :
  forall scripts nworkers s, reach (init scripts nworkers) s -> forall w, holders_of w s <= 1.
Proof. exact mutex_reach. Qed.
Print Assumptions C09_one_thread_in_a_file_critical_section.

(** a job is at one place at a time: the dispatcher or exactly one worker *)
Theorem C09_a_job_is_held_by_one_thread :
  forall scripts nworkers s, 0 < nworkers -> reach (init scripts nworkers) s ->
  forall j, hc j s <= 1.
Proof. exact P_C09_a_job_is_held_by_one_thread. Qed.
Print Assumptions C09_a_job_is_held_by_one_thread.

Theorem C09_batch_in_one_file_refuted :
  exists scripts nworkers s, 0 < nworkers /\ reach (init scripts nworkers) s /\
    log s = [EvWrite 0 0 0; EvClose 0; EvWrite 0 0 1].
Proof. exact P_C09_batch_in_one_file_refuted. Qed.
Print Assumptions C09_batch_in_one_file_refuted.

(** the executable transition function the correspondence check runs is the relation the
    theorems are about *)
Theorem C09_executable_successors_are_the_steps :
  forall s s', (exists t, In (t, s') (succs s)) <-> step s s'.
Proof. exact succs_is_step. Qed.
Print Assumptions C09_executable_successors_are_the_steps.
