(** Block.v — the content-access state machine of genericBlock / httpRequestBlock /
    httpResponseBlock (block.go, httpblock.go) and the constant blocks (warcFieldsBlock,
    revisitBlock); property C16 (accessors give the same answers in any call order).

    A block is its protocol header [b_head] (empty for a generic block; it was fed to the block
    digest when the block was created) and its payload [b_body], read from a source that is
    either seekable ("cached": a spill buffer or a slice of one) or a one-shot stream.
    A reader returned by RawBytes/PayloadBytes is drained by the caller to some extent BEFORE the
    next accessor call (the property's "fully, partly or not at all"); [drain = None] is "to the
    end".  Digests are modelled by the bytes fed so far; their text is [fmt fed]. *)
Require Import Model.Bytes.
From Coq Require Import Arith.
Local Open Scope nat_scope.

Section Block.
(* text of a digest over the given bytes: format() of digest.go (algorithm, encoding, hash) *)
Variable fmt_block fmt_payload : bytes -> bytes.

Record ablock := mkab {
  b_head : bytes; b_body : bytes;
  b_cached : bool;          (* the source implements io.Seeker *)
  b_pos : nat;              (* read position of the source *)
  b_filter : bool;          (* filterReader != nil *)
  b_dstr : option (bytes * bytes);   (* blockDigestString / payloadDigestString once computed *)
  b_fed : bytes             (* payload bytes that went through the digesting reader *)
}.

Inductive aop :=
| ARaw (drain : option nat) | APayload (drain : option nat)
| ABlockDigest | APayloadDigest | ASize | ACache | AIsCached.
Inductive aobs :=
| RData (d : bytes) | RErr | RStr (s : bytes) | RNum (n : nat) | RBool (b : bool) | RUnit.

Definition take (d : option nat) (s : bytes) : bytes :=
  match d with Some k => firstn k s | None => s end.

(* read everything that is left through the digesting reader and freeze the digest strings *)
Definition finish (b : ablock) : ablock :=
  let rest := skipn (b_pos b) (b_body b) in
  let fed := b_fed b ++ rest in
  mkab (b_head b) (b_body b) (b_cached b) (length (b_body b)) true
       (Some (fmt_block (b_head b ++ fed), fmt_payload fed)) fed.
Definition ensure_digest (b : ablock) : ablock :=
  match b_dstr b with Some _ => b | None => finish b end.

(** PayloadBytes followed by the caller draining [d] of the returned reader; [pre] is what a
    MultiReader puts in front (the protocol header for RawBytes) *)
Definition access (b : ablock) (pre : bytes) (d : option nat) : ablock * aobs :=
  if negb (b_filter b) then
    (* first access: the digesting reader over the source *)
    let want := take d (pre ++ skipn (b_pos b) (b_body b)) in
    let got := skipn (length pre) want in     (* the part that came from the source *)
    (mkab (b_head b) (b_body b) (b_cached b) (b_pos b + length got) true (b_dstr b) (b_fed b ++ got),
     RData want)
  else
    let b1 := ensure_digest b in
    if negb (b_cached b1) then (b1, RErr)
    else
      let want := take d (pre ++ b_body b1) in
      let got := skipn (length pre) want in
      (mkab (b_head b1) (b_body b1) true (length got) true (b_dstr b1) (b_fed b1), RData want).

Definition block_step (b : ablock) (o : aop) : ablock * aobs :=
  match o with
  | APayload d => access b [] d
  | ARaw d => access b (b_head b) d
  | ABlockDigest =>
      let b1 := ensure_digest b in
      (b1, RStr (match b_dstr b1 with Some (x, _) => x | None => [] end))
  | APayloadDigest =>
      let b1 := ensure_digest b in
      (b1, RStr (match b_dstr b1 with Some (_, y) => y | None => [] end))
  | ASize => let b1 := ensure_digest b in (b1, RNum (length (b_head b1) + length (b_fed b1)))
  | AIsCached => (b, RBool (b_cached b))
  | ACache =>
      if b_cached b then (b, RUnit)
      else
        let '(b1, r) := access b [] None in
        match r with
        | RErr => (b1, RErr)
        | _ =>
            (* the reader was copied into a fresh spill buffer, which becomes the source *)
            let b2 := ensure_digest b1 in
            (mkab (b_head b2) (b_body b2) true 0 true (b_dstr b2) (b_fed b2), RUnit)
        end
  end.

Fixpoint block_run (b : ablock) (ops : list aop) : list aobs :=
  match ops with
  | [] => []
  | o :: t => let '(b', r) := block_step b o in r :: block_run b' t
  end.

Definition fresh (head body : bytes) (cached : bool) : ablock :=
  mkab head body cached 0 false None [].

(** * Specification: what the property promises, as a function of the complete block *)
Record sblock := mksb { s_head : bytes; s_body : bytes; s_cached : bool; s_used : bool }.

Definition spec_step (s : sblock) (o : aop) : sblock * aobs :=
  let reader pre d :=
    if s_cached s then (mksb (s_head s) (s_body s) true true, RData (take d (pre ++ s_body s)))
    else if s_used s then (s, RErr)
    else (mksb (s_head s) (s_body s) false true, RData (take d (pre ++ s_body s))) in
  let used := mksb (s_head s) (s_body s) (s_cached s) true in
  match o with
  | APayload d => reader [] d
  | ARaw d => reader (s_head s) d
  | ABlockDigest => (used, RStr (fmt_block (s_head s ++ s_body s)))
  | APayloadDigest => (used, RStr (fmt_payload (s_body s)))
  | ASize => (used, RNum (length (s_head s) + length (s_body s)))
  | AIsCached => (s, RBool (s_cached s))
  | ACache => if s_cached s then (s, RUnit)
              else if s_used s then (s, RErr)
              else (mksb (s_head s) (s_body s) true true, RUnit)
  end.

Fixpoint spec_run (s : sblock) (ops : list aop) : list aobs :=
  match ops with
  | [] => []
  | o :: t => let '(s', r) := spec_step s o in r :: spec_run s' t
  end.

End Block.
