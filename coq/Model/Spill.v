(** Spill.v — the memory/disk spill buffer (internal/diskbuffer) as executable functions,
    and the plain in-memory byte buffer it must behave like (property C14).

    State: the memory part (at most [mmax] bytes), the temp-file part ([None] = the nil
    *fileBuffer) and the read offset.  Every method follows diskbuffer.go / membuffer.go /
    filebuffer.go / slice.go: which part a byte lands in, when the file is created, the
    two-part reads with their EOF signalling, the nil-receiver behaviour of fileBuffer.
    Abstractions (covered by the correspondence run only, see DESIGN.md): the growth of the
    backing array, the 100-byte chunking of line reads from the file part and the chunk sizes in
    which ReadFrom pulls from its source do not influence any result and are not modelled. *)
Require Import Model.Bytes.
From Coq Require Import Arith.
Local Open Scope nat_scope.

Record sbuf := mkbuf {
  mem  : bytes;          (* memBuf.buf[:memBuf.len] *)
  file : option bytes;   (* fileBuf: None = nil pointer, Some f = temp file holding f *)
  mmax : nat;            (* memBuf.max (>= 1) *)
  off  : nat             (* read offset *)
}.

Inductive errc := ENil | EEOF | EOther.

Definition fbytes (b : sbuf) : bytes := match file b with Some f => f | None => [] end.
Definition size (b : sbuf) : nat := length (mem b) + length (fbytes b).
Definition is_some {A} (o : option A) : bool := match o with Some _ => true | None => false end.

Definition new_buf (max : nat) : sbuf := mkbuf [] None max 0.

(** memBuffer.read / fileBuffer.read: (bytes copied, io.EOF?) for a request of [k] bytes at [o] *)
Definition part_read (m : bytes) (o k : nat) : bytes * bool :=
  if (length m =? 0) || (length m <=? o) then ([], negb (k =? 0))
  else let out := firstn k (skipn o m) in (out, length out <? k).
Definition file_read (f : option bytes) (o k : nat) : bytes * bool :=
  match f with
  | None => ([], negb (k =? 0))            (* nil receiver: empty() is true *)
  | Some fb => part_read fb o k            (* os.File.ReadAt: EOF iff fewer than k bytes *)
  end.

(** buffer.ReadAtOffset (also the body of Read and Peek) *)
Definition read_at (b : sbuf) (o k : nat) : bytes * bool :=
  if size b <=? o then ([], negb (k =? 0))
  else
    let '(o1, e1) := part_read (mem b) o k in
    if e1 && (length o1 <? k) && is_some (file b) then
      let '(o2, e2) := file_read (file b) (o + length o1 - length (mem b)) (k - length o1) in
      (o1 ++ o2, e2)
    else (o1, e1).

(** buffer.write *)
Definition ensure_file (f : option bytes) : bytes := match f with Some x => x | None => [] end.
Definition b_write (b : sbuf) (d : bytes) : sbuf * (nat * errc) :=
  if length (mem b) <? mmax b then
    let n := Nat.min (length d) (mmax b - length (mem b)) in
    let m' := mem b ++ firstn n d in
    if length m' <? mmax b then (mkbuf m' (file b) (mmax b) (off b), (n, ENil))
    else (* memory is full now: the temp file is created and takes the rest *)
      (mkbuf m' (Some (skipn n d)) (mmax b) (off b), (length d, ENil))
  else (mkbuf (mem b) (Some (ensure_file (file b) ++ d)) (mmax b) (off b), (length d, ENil)).

(** buffer.ReadFrom.  The source delivers [d] in total and then ends with io.EOF ([serr] =
    false) or another error ([serr] = true); [ewd]: the final condition is returned together
    with the last data (Read returns (n>0, err)) rather than by a further call. *)
Definition b_readfrom (b : sbuf) (d : bytes) (ewd serr : bool) : sbuf * (nat * errc) :=
  let res := (length d, if serr then EOther else ENil) in
  if length (mem b) <? mmax b then
    let space := mmax b - length (mem b) in
    if length d <? space then (mkbuf (mem b ++ d) (file b) (mmax b) (off b), res)
    else if (length d =? space) && ewd && negb (length d =? 0) then
      (* memBuf.readFrom returned with the error while filling the last byte: no file yet *)
      (mkbuf (mem b ++ d) (file b) (mmax b) (off b), res)
    else
      (mkbuf (mem b ++ firstn space d) (Some (skipn space d)) (mmax b) (off b), res)
  else (mkbuf (mem b) (Some (ensure_file (file b) ++ d)) (mmax b) (off b), res).

Definition b_read (b : sbuf) (k : nat) : sbuf * (bytes * bool) :=
  let '(out, e) := read_at b (off b) k in
  (mkbuf (mem b) (file b) (mmax b) (off b + length out), (out, e)).
Definition b_peek (b : sbuf) (k : nat) : bytes * bool := read_at b (off b) k.

(* the prefix of s up to and including the first [d] *)
Fixpoint take_through (d : byte) (s : bytes) : option bytes :=
  match s with
  | [] => None
  | c :: t => if N.eqb c d then Some [c]
              else match take_through d t with Some l => Some (c :: l) | None => None end
  end.

(** buffer.ReadBytes *)
Definition b_readbytes (b : sbuf) (d : byte) : sbuf * (bytes * bool) :=
  if size b <=? off b then (b, ([], true))
  else
    let m := mem b in
    let '(line1, found, err, off1) :=
      if off b <? length m then
        match take_through d (skipn (off b) m) with
        | Some l => (l, true, false, off b + length l)
        | None => (skipn (off b) m, false, length m <? mmax b, length m)
        end
      else ([], false, false, off b) in
    if negb err && negb found then
      let frest := skipn (off1 - length m) (fbytes b) in
      match take_through d frest with
      | Some l => (mkbuf m (file b) (mmax b) (off1 + length l), (line1 ++ l, false))
      | None => (mkbuf m (file b) (mmax b) (off1 + length frest), (line1 ++ frest, true))
      end
    else (mkbuf m (file b) (mmax b) off1, (line1, err)).

(** read-only slice views (slice.go) *)
Record sview := mkview { v_off : nat; v_len : option nat (* None: to the end *); v_pos : nat }.

Definition v_read_at (b : sbuf) (v : sview) (o k : nat) : bytes * bool :=
  match v_len v with
  | Some L => if L <=? o then ([], true) else read_at b (v_off v + o) (Nat.min k (L - o))
  | None => read_at b (v_off v + o) k
  end.

Definition v_rest (b : sbuf) (v : sview) : bytes :=
  let r := skipn (v_off v + v_pos v) (mem b ++ fbytes b) in
  match v_len v with Some L => firstn (L - v_pos v) r | None => r end.

Inductive sop := SRead (k : nat) | SPeek (k : nat) | SReadBytes (d : byte) | SSeek0 | SSize.
Inductive bobs :=
| ON (n : nat) (e : errc) | OData (d : bytes) (eof : bool) | OSize (n : nat) | OUnit
| OSlice (l : list bobs).

Definition v_step (b : sbuf) (v : sview) (o : sop) : sview * bobs :=
  match o with
  | SRead k => let '(out, e) := v_read_at b v (v_pos v) k in
               (mkview (v_off v) (v_len v) (v_pos v + length out), OData out e)
  | SPeek k => let '(out, e) := v_read_at b v (v_pos v) k in (v, OData out e)
  | SReadBytes d =>
      let at_end := match v_len v with Some L => L <=? v_pos v | None => false end in
      if at_end then (v, OData [] true)
      else match take_through d (v_rest b v) with
           | Some l => (mkview (v_off v) (v_len v) (v_pos v + length l), OData l false)
           | None => (mkview (v_off v) (v_len v) (v_pos v + length (v_rest b v)), OData (v_rest b v) true)
           end
  | SSeek0 => (mkview (v_off v) (v_len v) 0, OUnit)
  | SSize => (v, OSize (match v_len v with
                        | Some L => Nat.min L (size b - v_off v)
                        | None => size b - v_off v end))
  end.

Fixpoint v_run (b : sbuf) (v : sview) (ops : list sop) : list bobs :=
  match ops with
  | [] => []
  | o :: t => let '(v', ob) := v_step b v o in ob :: v_run b v' t
  end.

Inductive bop :=
| BWrite (d : bytes) | BReadFrom (d : bytes) (ewd serr : bool)
| BRead (k : nat) | BPeek (k : nat) | BReadBytes (d : byte) | BSeek0 | BSize
| BSlice (o : nat) (l : option nat) (sops : list sop).

Definition b_step (b : sbuf) (o : bop) : sbuf * bobs :=
  match o with
  | BWrite d => let '(b', (n, e)) := b_write b d in (b', ON n e)
  | BReadFrom d ewd serr => let '(b', (n, e)) := b_readfrom b d ewd serr in (b', ON n e)
  | BRead k => let '(b', (out, e)) := b_read b k in (b', OData out e)
  | BPeek k => let '(out, e) := b_peek b k in (b, OData out e)
  | BReadBytes d => let '(b', (out, e)) := b_readbytes b d in (b', OData out e)
  | BSeek0 => (mkbuf (mem b) (file b) (mmax b) 0, OUnit)
  | BSize => (b, OSize (size b))
  | BSlice o l sops => (b, OSlice (v_run b (mkview o l 0) sops))
  end.

Fixpoint b_run (b : sbuf) (ops : list bop) : list bobs :=
  match ops with
  | [] => []
  | o :: t => let '(b', ob) := b_step b o in ob :: b_run b' t
  end.

(** * Specification: a plain in-memory byte buffer (content, read offset).
    End-of-data convention of this buffer (documented io.Reader/bufio behaviour): a read or
    peek of k bytes reports EOF exactly when fewer than k bytes were left; a line read
    reports EOF exactly when no delimiter was left. *)
Record pbuf := mkp { content : bytes; poff : nat }.

Definition p_read_at (c : bytes) (o k : nat) : bytes * bool :=
  if length c <=? o then ([], negb (k =? 0))
  else let out := firstn k (skipn o c) in (out, length out <? k).

Definition p_view_read_at (c : bytes) (v : sview) (o k : nat) : bytes * bool :=
  match v_len v with
  | Some L => if L <=? o then ([], true) else p_read_at c (v_off v + o) (Nat.min k (L - o))
  | None => p_read_at c (v_off v + o) k
  end.
Definition p_view_rest (c : bytes) (v : sview) : bytes :=
  let r := skipn (v_off v + v_pos v) c in
  match v_len v with Some L => firstn (L - v_pos v) r | None => r end.

Definition pv_step (c : bytes) (v : sview) (o : sop) : sview * bobs :=
  match o with
  | SRead k => let '(out, e) := p_view_read_at c v (v_pos v) k in
               (mkview (v_off v) (v_len v) (v_pos v + length out), OData out e)
  | SPeek k => let '(out, e) := p_view_read_at c v (v_pos v) k in (v, OData out e)
  | SReadBytes d =>
      let at_end := match v_len v with Some L => L <=? v_pos v | None => false end in
      if at_end then (v, OData [] true)
      else match take_through d (p_view_rest c v) with
           | Some l => (mkview (v_off v) (v_len v) (v_pos v + length l), OData l false)
           | None => (mkview (v_off v) (v_len v) (v_pos v + length (p_view_rest c v)), OData (p_view_rest c v) true)
           end
  | SSeek0 => (mkview (v_off v) (v_len v) 0, OUnit)
  | SSize => (v, OSize (match v_len v with
                        | Some L => Nat.min L (length c - v_off v)
                        | None => length c - v_off v end))
  end.
Fixpoint pv_run (c : bytes) (v : sview) (ops : list sop) : list bobs :=
  match ops with
  | [] => []
  | o :: t => let '(v', ob) := pv_step c v o in ob :: pv_run c v' t
  end.

Definition p_step (p : pbuf) (o : bop) : pbuf * bobs :=
  match o with
  | BWrite d => (mkp (content p ++ d) (poff p), ON (length d) ENil)
  | BReadFrom d _ serr => (mkp (content p ++ d) (poff p), ON (length d) (if serr then EOther else ENil))
  | BRead k => let '(out, e) := p_read_at (content p) (poff p) k in
               (mkp (content p) (poff p + length out), OData out e)
  | BPeek k => let '(out, e) := p_read_at (content p) (poff p) k in (p, OData out e)
  | BReadBytes d =>
      let rest := skipn (poff p) (content p) in
      match rest with
      | [] => (p, OData [] true)
      | _ => match take_through d rest with
             | Some l => (mkp (content p) (poff p + length l), OData l false)
             | None => (mkp (content p) (poff p + length rest), OData rest true)
             end
      end
  | BSeek0 => (mkp (content p) 0, OUnit)
  | BSize => (p, OSize (length (content p)))
  | BSlice o l sops => (p, OSlice (pv_run (content p) (mkview o l 0) sops))
  end.

Fixpoint p_run (p : pbuf) (ops : list bop) : list bobs :=
  match ops with
  | [] => []
  | o :: t => let '(p', ob) := p_step p o in ob :: p_run p' t
  end.
