(** Revisit.v — ToRevisitRecord, CreateRevisitRef, RevisitRef, Merge (record.go) and
    newRevisitBlock (revisitblock.go); property C20. *)
Require Import Model.Bytes Model.FieldDef Model.Fields Model.Validate Model.Digest Model.Record.
Local Open Scope N_scope.

Record revref := mkref { rf_profile : bytes; rf_id : bytes; rf_uri : bytes; rf_date : bytes }.

Inductive profile_kind := PIdentical | PNotModified | PUnknownProfile.

Definition n_warc_type : bytes := [87;65;82;67;45;84;121;112;101].
Definition n_profile : bytes := [87;65;82;67;45;80;114;111;102;105;108;101].
Definition n_refers_to : bytes := [87;65;82;67;45;82;101;102;101;114;115;45;84;111].
Definition n_refers_to_uri : bytes :=
  [87;65;82;67;45;82;101;102;101;114;115;45;84;111;45;84;97;114;103;101;116;45;85;82;73].
Definition n_refers_to_date : bytes := [87;65;82;67;45;82;101;102;101;114;115;45;84;111;45;68;97;116;101].
Definition n_truncated : bytes := [87;65;82;67;45;84;114;117;110;99;97;116;101;100].
Definition n_target_uri : bytes := [87;65;82;67;45;84;97;114;103;101;116;45;85;82;73].
Definition n_date : bytes := [87;65;82;67;45;68;97;116;101].
Definition s_length : bytes := [108;101;110;103;116;104].
Definition s_revisit : bytes := [114;101;118;105;115;105;116].

Definition type_name (rt : N) : bytes :=
  match find (fun p => N.eqb (snd p) rt) rt_names with
  | Some p => fst p
  | None => [117;110;107;110;111;119;110]     (* "unknown" *)
  end.

Section Revisit.
Variable tbl : list fielddef.
Variable uni_lower uni_upper : bytes -> bytes.
Variable H : alg -> bytes -> bytes.
Variable profile_of : bytes -> profile_kind.   (* which of the four well-known profile URIs *)

Notation m_get := (m_get tbl uni_lower).
Notation m_has := (m_has tbl uni_lower).
Notation m_set := (m_set tbl uni_lower).
Notation m_delete := (m_delete tbl uni_lower).

Definition set_id (n v : bytes) (hs : fields) : fields :=
  match id_value v with Some v' => m_set n v' hs | None => hs end.
Definition set_if (n v : bytes) (hs : fields) : fields :=
  match v with [] => hs | _ => m_set n v hs end.

(* the protocol header a revisit keeps: only HTTP blocks have one *)
Definition protocol_header (b : rblock) : option bytes :=
  match bk b with
  | BHttpReq | BHttpResp => Some (bh b)
  | BGeneric => Some []
  | _ => None
  end.

(** CreateRevisitRef *)
Definition create_ref (r : record) (profile : bytes) : option revref :=
  if r_type r =? 32 then None
  else Some (mkref profile (trim is_angle (m_get n_record_id (r_fields r)))
                   (m_get n_target_uri (r_fields r)) (m_get n_date (r_fields r))).

(** ToRevisitRecord *)
Definition to_revisit (o : opts) (r : record) (ref : revref) : option record :=
  let h := r_fields r in
  let h1 :=
    match profile_of (rf_profile ref) with
    | PIdentical =>
        let h' := if negb (m_has n_payload_digest h) && (r_type r =? 4) && m_has n_block_digest h
                  then m_set n_payload_digest (m_get n_block_digest h) h else h in
        if m_has n_payload_digest h' then Some h' else None
    | PNotModified => Some h
    | PUnknownProfile => None
    end in
  match h1, protocol_header (r_block r), new_digest uni_lower uni_upper (o_alg o) (o_enc o) with
  | Some h1, Some head, Some d =>
      let h2 := m_set n_warc_type s_revisit h1 in
      let h3 := m_set n_profile (rf_profile ref) h2 in
      let h4 := match rf_id ref with [] => h3 | _ => set_id n_refers_to (rf_id ref) h3 end in
      let h5 := set_if n_refers_to_uri (rf_uri ref) h4 in
      let h6 := set_if n_refers_to_date (rf_date ref) h5 in
      let h7 := m_set n_truncated s_length h6 in
      let h8 := m_set n_block_digest (format H (feed d head)) h7 in
      let h9 := m_set n_content_length (itoa (Z.of_nat (length head))) h8 in
      Some (mkrec (r_vtxt r) (r_vid r) 32 h9 (mkblk BRevisit [] head))
  | _, _, _ => None
  end.

(** RevisitRef *)
Definition revisit_ref (r : record) : option revref :=
  if r_type r =? 32 then
    Some (mkref (m_get n_profile (r_fields r)) (trim is_angle (m_get n_refers_to (r_fields r)))
                (m_get n_refers_to_uri (r_fields r)) (m_get n_refers_to_date (r_fields r)))
  else None.

(** Merge (a revisit record with the record it refers to); [orig_cached]: Block().IsCached() *)
Definition merge (rev orig : record) (orig_cached : bool) : option record :=
  if bytes_eqb (m_get n_segment_number (r_fields rev)) [49] then None
  else if negb (r_type rev =? 32) then None
  else
    let h1 := m_set n_warc_type (type_name (r_type orig)) (r_fields rev) in
    let h2 := m_delete n_profile (m_delete n_refers_to_date (m_delete n_refers_to_uri (m_delete n_refers_to h1))) in
    let h3 := if m_has n_truncated (r_fields orig) then m_set n_truncated (m_get n_truncated (r_fields orig)) h2
              else m_delete n_truncated h2 in
    match bk (r_block rev), bk (r_block orig) with
    | BRevisit, (BHttpReq | BHttpResp) =>
        if m_has n_content_length (r_fields orig) then
          match atoi (m_get n_content_length (r_fields orig)) with
          | None => None
          | Some reflen =>
              let head := bb (r_block rev) in
              let size := (Z.of_nat (length head) + reflen - Z.of_nat (length (bh (r_block orig))))%Z in
              let h4 := m_set n_content_length (itoa size) h3 in
              let h5 := if orig_cached then m_set n_block_digest (m_get n_block_digest (r_fields orig)) h4
                        else m_delete n_block_digest h4 in
              Some (mkrec (r_vtxt rev) (r_vid rev) (r_type orig) h5
                          (mkblk (bk (r_block orig)) head (bb (r_block orig))))
          end
        else None
    | _, _ => None
    end.

End Revisit.
