(** Digest.v — digest.go: algorithm names, base16/32/64 encodings, encoding detection,
    newDigest / format / validate.  The hash functions themselves are an oracle
    [H : alg -> bytes -> bytes]; the base32/base64 DEcoders of the Go standard library are
    oracles too (their leniency about line breaks and trailing bits is not re-implemented);
    the ENcoders and base16 in both directions are modelled. *)
Require Import Model.Bytes.
From Coq Require Import Arith.
Local Open Scope N_scope.

Inductive alg := MD5 | SHA1 | SHA256 | SHA512.
Inductive enc := EUnknown | Base16 | Base32 | Base64.

Definition alg_size (a : alg) : nat :=
  match a with MD5 => 16 | SHA1 => 20 | SHA256 => 32 | SHA512 => 64 end%nat.
Definition alg_name (a : alg) : bytes :=
  match a with
  | MD5 => [109;100;53] | SHA1 => [115;104;97;49]
  | SHA256 => [115;104;97;50;53;54] | SHA512 => [115;104;97;53;49;50]
  end.

(** ** base16 *)
Definition hexdigit (n : N) : byte := if n <? 10 then 48 + n else 87 + n.
Definition hex_encode (s : bytes) : bytes :=
  flat_map (fun b => [hexdigit (b / 16); hexdigit (b mod 16)]) s.
Definition hexval (c : byte) : option N :=
  if is_digit c then Some (c - 48)
  else if (97 <=? c) && (c <=? 102) then Some (c - 87)
  else if (65 <=? c) && (c <=? 70) then Some (c - 55)
  else None.
Fixpoint hex_decode (s : bytes) : option bytes :=
  match s with
  | [] => Some []
  | a :: b :: t =>
      match hexval a, hexval b, hex_decode t with
      | Some x, Some y, Some r => Some ((x * 16 + y) :: r)
      | _, _, _ => None
      end
  | [_] => None
  end.

(** ** base32 / base64 encoders (RFC 4648, with padding) *)
Definition b32char (n : N) : byte := if n <? 26 then 65 + n else 24 + n.      (* A-Z 2-7 *)
Definition b64char (n : N) : byte :=
  if n <? 26 then 65 + n else if n <? 52 then 71 + n else if n <? 62 then n - 4
  else if n =? 62 then 43 else 47.

(* value of up to k bytes, big endian, padded with zero bytes on the right *)
Fixpoint be_value (k : nat) (s : bytes) : N :=
  match k with
  | O => 0
  | S k' => match s with
            | [] => 256 ^ N.of_nat k' * 0 + be_value k' []
            | b :: t => b * 256 ^ N.of_nat k' + be_value k' t
            end
  end.
(* the [cnt] most significant [bits]-bit digits of a [total]-bit value *)
Fixpoint digits_msb (bits total : N) (cnt : nat) (v : N) : list N :=
  match cnt with
  | O => []
  | S c => let sh := total - bits in (v / 2 ^ sh) mod 2 ^ bits :: digits_msb bits sh c v
  end.
Definition pad (n : nat) : bytes := repeat 61 n.

Fixpoint b32_encode_fuel (fuel : nat) (s : bytes) : bytes :=
  match fuel with
  | O => []
  | S f =>
      match s with
      | [] => []
      | _ =>
          let g := firstn 5 s in
          let n := length g in
          let chars := match n with 1 => 2 | 2 => 4 | 3 => 5 | 4 => 7 | _ => 8 end%nat in
          map b32char (digits_msb 5 40 chars (be_value 5 g)) ++ pad (8 - chars) ++ b32_encode_fuel f (skipn 5 s)
      end
  end.
Definition b32_encode (s : bytes) : bytes := b32_encode_fuel (S (length s)) s.

Fixpoint b64_encode_fuel (fuel : nat) (s : bytes) : bytes :=
  match fuel with
  | O => []
  | S f =>
      match s with
      | [] => []
      | _ =>
          let g := firstn 3 s in
          let n := length g in
          let chars := match n with 1 => 2 | 2 => 3 | _ => 4 end%nat in
          map b64char (digits_msb 6 24 chars (be_value 3 g)) ++ pad (4 - chars) ++ b64_encode_fuel f (skipn 3 s)
      end
  end.
Definition b64_encode (s : bytes) : bytes := b64_encode_fuel (S (length s)) s.

Definition b32_len (n : nat) : nat := ((n + 4) / 5 * 8)%nat.
Definition b64_len (n : nat) : nat := ((n + 2) / 3 * 4)%nat.

Section Digest.
Variable H : alg -> bytes -> bytes.                   (* the hash functions *)
Variables b32_decode b64_decode : bytes -> option bytes.   (* encoding/base32, base64 StdEncoding.DecodeString *)
Variables uni_lower uni_upper : bytes -> bytes.       (* strings.ToLower/ToUpper on non-ASCII *)

Definition to_lower (s : bytes) : bytes := if all_ascii s then ascii_lower s else uni_lower s.
Definition to_upper (s : bytes) : bytes := if all_ascii s then ascii_upper s else uni_upper s.

Definition encode (e : enc) (h : bytes) : bytes :=
  match e with
  | Base16 => hex_encode h
  | Base32 => b32_encode h
  | Base64 => b64_encode h
  | EUnknown => h
  end.
Definition decode (e : enc) (s : bytes) : option bytes :=
  match e with
  | Base16 => hex_decode s
  | Base32 => b32_decode s
  | Base64 => b64_decode s
  | EUnknown => Some s
  end.

(* normalizeAlgorithmName *)
Definition s_sha_1 : bytes := [115;104;97;45;49].
Definition s_sha_256 : bytes := [115;104;97;45;50;53;54].
Definition s_sha_512 : bytes := [115;104;97;45;53;49;50].
Definition normalize_alg (a : bytes) : bytes :=
  let l := to_lower a in
  if bytes_eqb l s_sha_1 then alg_name SHA1
  else if bytes_eqb l s_sha_256 then alg_name SHA256
  else if bytes_eqb l s_sha_512 then alg_name SHA512
  else l.
Definition alg_of_name (n : bytes) : option alg :=
  if bytes_eqb n (alg_name MD5) then Some MD5
  else if bytes_eqb n (alg_name SHA1) then Some SHA1
  else if bytes_eqb n (alg_name SHA256) then Some SHA256
  else if bytes_eqb n (alg_name SHA512) then Some SHA512
  else match n with [] => Some SHA1 | _ => None end.     (* "" selects sha1 *)

(* detectEncoding *)
Definition detect_encoding (algname : bytes) (h : bytes) (default : enc) : enc :=
  let md5case := bytes_eqb algname (alg_name MD5) && (length h =? 32)%nat in
  if md5case then (if has_suffix [61] h then Base32 else Base16)
  else
    let alen := (if bytes_eqb algname (alg_name MD5) then 16
                 else if bytes_eqb algname (alg_name SHA1) then 20
                 else if bytes_eqb algname (alg_name SHA256) then 32
                 else if bytes_eqb algname (alg_name SHA512) then 64 else 0)%nat in
    if (length h =? alen * 2)%nat then Base16
    else if (length h =? b32_len alen)%nat then Base32
    else if (length h =? b64_len alen)%nat then Base64
    else default.

Record digest := mkdig {
  d_alg : alg; d_name : bytes; d_hash : bytes; d_enc : enc; d_fed : bytes
}.

(* strings.SplitN(s, ":", 2) *)
Definition split_colon (s : bytes) : bytes * option bytes :=
  match index_byte COLON s with
  | Some i => (firstn i s, Some (skipn (S i) s))
  | None => (s, None)
  end.

(* newDigest: None = "unsupported digest algorithm" *)
Definition new_digest (s : bytes) (default : enc) : option digest :=
  let '(a, oh) := split_colon s in
  let name := normalize_alg a in
  let h := match oh with Some x => x | None => [] end in
  let e := detect_encoding name h default in
  let h' := match e with Base16 => to_lower h | Base32 => to_upper h | _ => h end in
  match alg_of_name name with
  | Some al => Some (mkdig al (match name with [] => alg_name SHA1 | _ => name end) h' e [])
  | None => None
  end.

Definition feed (d : digest) (x : bytes) : digest :=
  mkdig (d_alg d) (d_name d) (d_hash d) (d_enc d) (d_fed d ++ x).
Definition dsum (d : digest) : bytes := H (d_alg d) (d_fed d).
Definition format (d : digest) : bytes := d_name d ++ [COLON] ++ encode (d_enc d) (dsum d).
(* validate: true = the declared value decodes to the computed hash *)
Definition dvalidate (d : digest) : bool :=
  match decode (d_enc d) (d_hash d) with
  | Some x => bytes_eqb x (dsum d)
  | None => false
  end.
Definition update_digest (d : digest) : digest :=
  mkdig (d_alg d) (d_name d) (encode (d_enc d) (dsum d)) (d_enc d) (d_fed d).

End Digest.
