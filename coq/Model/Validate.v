(** Validate.v — validateHeader / resolveRecordType / checkLegal and the p* value checkers of
    headerfielddef.go, over the field table regenerated from /repo; and the WARC field-table
    acceptance predicate they must implement (property C17). *)
Require Import Model.Bytes Model.FieldDef Model.Fields Model.Policy.
Local Open Scope N_scope.

Section Validate.
Variable tbl : list fielddef.      (* fieldDefs *)
Variable req : list bytes.         (* requiredFields *)
Variable uni_lower : bytes -> bytes.
(* oracles: time.Parse(RFC3339), net.ParseIP, whatwg-url Parser.Parse, url.Parse of a WARC id *)
Variables time_ok ip_ok uri_ok wid_ok : bytes -> bool.

Notation lower := (lower uni_lower).
Notation normalize_def := (normalize_def tbl uni_lower).
Notation normalize_name := (normalize_name tbl uni_lower).
Notation m_has := (m_has tbl uni_lower).
Notation m_getall := (m_getall tbl uni_lower).
Notation m_getint := (m_getint tbl uni_lower).

Definition bsl (l : list N) : bytes := l.
Definition s_warc_type : bytes := [119;97;114;99;45;116;121;112;101].   (* "warc-type" *)
Definition n_content_length : bytes := [67;111;110;116;101;110;116;45;76;101;110;103;116;104].
Definition n_content_type : bytes := [67;111;110;116;101;110;116;45;84;121;112;101].
Definition n_concurrent_to : bytes := [87;65;82;67;45;67;111;110;99;117;114;114;101;110;116;45;84;111].

(* stringToRecordType on the lower-cased value *)
Definition rt_names : list (bytes * N) :=
  [ ([119;97;114;99;105;110;102;111], 1); ([114;101;115;112;111;110;115;101], 2);
    ([114;101;115;111;117;114;99;101], 4); ([114;101;113;117;101;115;116], 8);
    ([109;101;116;97;100;97;116;97], 16); ([114;101;118;105;115;105;116], 32);
    ([99;111;110;118;101;114;115;105;111;110], 64);
    ([99;111;110;116;105;110;117;97;116;105;111;110], 128) ].
Definition string_to_rt (lc : bytes) : N :=
  match find (fun p => bytes_eqb (fst p) lc) rt_names with Some p => snd p | None => 0 end.

Definition type_field (hs : fields) : bytes :=
  match find (fun f => bytes_eqb (lower (fst f)) s_warc_type) hs with
  | Some f => snd f
  | None => []
  end.

(** resolveRecordType *)
Definition resolve_rt {A} (p_spec p_unk : policy) (hs : fields) (fs : list finding)
           (k : N -> list finding -> res A) : res A :=
  let tf := type_field hs in
  let k1 fs1 :=
    let rt := string_to_rt (lower tf) in
    if rt =? 0 then site p_unk (KUnknownType, tf) fs1 (k rt) else k rt fs1 in
  match tf with
  | [] => site p_spec (KMissingType, []) fs k1
  | _ => k1 fs
  end.

(** checkLegal: (shouldValidate, illegal) *)
Definition check_legal (p_spec : policy) (vid rt : N) (d : fielddef) : bool * bool :=
  if rt =? 0 then (false, false)
  else if policy_gt_ignore p_spec && (N.land vid (fd_spec d) =? 0) then (false, false)
  else if policy_gt_ignore p_spec && (N.land rt (fd_rec d) =? 0) then (false, true)
  else (true, false).

(* strconv.ParseUint(s, 10, bits): digits only, value below 2^bits *)
Definition uint_ok (bits : N) (s : bytes) : bool :=
  match parse_udec s with Some n => n <? 2 ^ bits | None => false end.

(* "<" inner ">" *)
Definition unbracket (v : bytes) : option bytes :=
  match v with
  | 60 :: t => match rev t with 62 :: r => Some (rev r) | _ => None end
  | _ => None
  end.

Definition unknown_def : fielddef := mkdef [] PUnknown true 255 3.
Definition def_of (name : bytes) : bytes * fielddef :=
  let '(n, od) := normalize_def name in (n, match od with Some d => d | None => unknown_def end).

(** the p* validation functions: None = accepted, Some k = rejected with an error of kind k *)
Definition validate_value (p_spec : policy) (vid rt : N) (d : fielddef) (v : bytes) : option fkind :=
  match fd_kind d with
  | PUnknown => None
  | k =>
      let '(sv, ill) := check_legal p_spec vid rt d in
      if ill then Some KIllegal
      else if negb sv then None
      else
        let good :=
          match k with
          | PURI => uri_ok v
          | PIp => ip_ok v
          | PTime => time_ok v
          | PWarcId => match unbracket v with Some t => wid_ok t | None => false end
          | PInt => uint_ok 31 v
          | PLong => uint_ok 63 v
          | _ => true
          end in
        if good then None else Some KValue
  end.

(** the loop over the header fields of validateHeader.  [done] are the fields already visited
    (names rewritten to canonical form), [todo] the remaining ones. *)
Fixpoint vloop (p : policy) (vid rt : N) (done todo : fields) (fs : list finding) : res fields :=
  match todo with
  | [] => Ok done fs
  | (n, v) :: t =>
      let '(name, d) := def_of n in
      let cur := done ++ (name, v) :: t in
      let next fs2 := vloop p vid rt (done ++ [(name, v)]) t fs2 in
      let k1 fs1 :=
        if negb (fd_rep d) && (1 <? N.of_nat (length (m_getall name cur)))
        then site p (KDup, name) fs1 next else next fs1 in
      match validate_value p vid rt d v with
      | Some kd => site p (kd, name) fs k1
      | None => k1 fs
      end
  end.

Fixpoint required_loop {A} (p : policy) (hs : fields) (req : list bytes) (fs : list finding)
         (k : list finding -> res A) : res A :=
  match req with
  | [] => k fs
  | f :: t => if negb (m_has f hs) then site p (KMissingReq, f) fs (fun fs1 => required_loop p hs t fs1 k)
              else required_loop p hs t fs k
  end.

(* contentLength, _ := wf.GetInt64(ContentLength): the error is dropped *)
Definition content_length_of (hs : fields) : Z :=
  if m_has n_content_length hs then atoi_value (m_get tbl uni_lower n_content_length hs) else 0%Z.

(** validateHeader: (record type, header fields afterwards) *)
Definition validate_header (p_spec p_unk : policy) (vid : N) (hs : fields) (fs : list finding)
  : res (N * fields) :=
  resolve_rt p_spec p_unk hs fs (fun rt fs0 =>
    if policy_gt_ignore p_spec then
      match vloop p_spec vid rt [] hs fs0 with
      | Err e fs1 => Err e fs1
      | Ok hs' fs1 =>
          required_loop p_spec hs' req fs1 (fun fs2 =>
            let k3 fs3 :=
              if negb (N.land 193 rt =? 0) && m_has n_concurrent_to hs'
              then site p_spec (KConcurrent, n_concurrent_to) fs3 (fun fs4 => Ok (rt, hs') fs4)
              else Ok (rt, hs') fs3 in
            if negb (rt =? 128) && (0 <? content_length_of hs')%Z && negb (m_has n_content_type hs')
            then site p_spec (KMissingCT, n_content_type) fs2 k3 else k3 fs2)
      end
    else Ok (rt, hs) fs0).

(** * Specification: the property's sentence as a predicate on a header set *)
Definition permitted (vid rt : N) (d : fielddef) : bool :=
  (rt =? 0) || (N.land vid (fd_spec d) =? 0) || negb (N.land rt (fd_rec d) =? 0).
Definition type_checked (vid rt : N) (d : fielddef) : bool :=
  negb (rt =? 0) && negb (N.land vid (fd_spec d) =? 0).
Definition wellformed (k : vkind) (v : bytes) : bool :=
  match k with
  | PURI => uri_ok v
  | PIp => ip_ok v
  | PTime => time_ok v
  | PWarcId => match unbracket v with Some t => wid_ok t | None => false end
  | PInt => uint_ok 31 v
  | PLong => uint_ok 63 v
  | _ => true
  end.

Definition spec_field_ok (vid rt : N) (hs : fields) (f : field) : bool :=
  let '(name, d) := def_of (fst f) in
  match fd_kind d with
  | PUnknown => true
  | k => permitted vid rt d && (negb (type_checked vid rt d) || wellformed k (snd f))
  end
  && (fd_rep d || (N.of_nat (length (s_values name hs)) <=? 1)).

Definition canon (hs : fields) : fields := map (fun f => (normalize_name (fst f), snd f)) hs.

Definition spec_accepts (vid : N) (hs : fields) : bool :=
  let hs' := canon hs in
  let rt := string_to_rt (lower (type_field hs)) in
  negb (N.of_nat (length (type_field hs)) =? 0)
  && forallb (spec_field_ok vid rt hs') hs'
  && forallb (fun f => s_has (normalize_name f) hs') req
  && ((rt =? 128) || negb (0 <? content_length_of hs')%Z || s_has (normalize_name n_content_type) hs')
  && ((N.land 193 rt =? 0) || negb (s_has (normalize_name n_concurrent_to) hs')).

Definition type_accepts (p_unk : policy) (hs : fields) : bool :=
  match p_unk with Fail => negb (string_to_rt (lower (type_field hs)) =? 0) | _ => true end.

End Validate.
