(** Serial.v - the serial number of a file-name generator shared by concurrent callers
    (PatternNameGenerator.NewWarcfileName, warcfile.go).  The only state the callers share is the
    counter; a schedule is the order in which their atomic steps take effect (thread ids).

    [run_add]: every caller takes its serial with ONE atomic read-modify-write
    (atomic.AddInt32(&g.Serial, 1)) - the code as it is.
    [run_ls]: every caller takes it with an atomic load followed by an atomic store of the
    successor - each access atomic, the pair not (what the discipline of [serial_discipline]
    excludes).
    [run_add] has an unbounded counter, [run_add32] below the int32 of the code. *)
From Coq Require Import List ZArith Bool String.
Import ListNotations.
Local Open Scope Z_scope.

Fixpoint run_add (c : Z) (sched : list nat) : list (nat * Z) :=
  match sched with
  | [] => []
  | t :: rest => (t, c + 1) :: run_add (c + 1) rest
  end.

Definition upd (p : nat -> option Z) (t : nat) (v : option Z) : nat -> option Z :=
  fun u => if Nat.eqb u t then v else p u.

Fixpoint run_ls (c : Z) (p : nat -> option Z) (sched : list nat) : list (nat * Z) :=
  match sched with
  | [] => []
  | t :: rest =>
      match p t with
      | None => run_ls c (upd p t (Some c)) rest                      (* the load *)
      | Some v => (t, v + 1) :: run_ls (v + 1) (upd p t None) rest    (* the store; the call returns v+1 *)
      end
  end.

(** What the source may do with the field (rows of Gen/AccessTable.serial_accesses): the serial is
    only ever touched through sync/atomic, every modification is an atomic add, and there is one. *)
Definition is_add (k : string) : bool := String.eqb k "atomic.AddInt32".
Definition is_load (k : string) : bool := String.eqb k "atomic.LoadInt32".
Definition serial_discipline (t : list (string * string)) : bool :=
  forallb (fun r => is_add (snd r) || is_load (snd r)) t && existsb (fun r => is_add (snd r)) t.

(** The counter as it is in the code: an int32 that wraps. *)
Definition wrap32 (z : Z) : Z := (z + 2147483648) mod 4294967296 - 2147483648.

Fixpoint run_add32 (c : Z) (sched : list nat) : list (nat * Z) :=
  match sched with
  | [] => []
  | t :: rest => (t, wrap32 (c + 1)) :: run_add32 (wrap32 (c + 1)) rest
  end.
