(** Protocol.v — the concurrency protocol of WarcFileWriter (warcfile.go): callers of Write /
    Rotate / Close, the dispatcher goroutine ("the middle layer") and the worker goroutines,
    synchronising through the unbuffered channels middleCh, jobs, responses and closing, the
    close-broadcast channels closed and jobs, the per-worker mutex and the WaitGroup.
    Properties C09 (records are processed exactly once) and C10 (every call returns).

    Interleaving semantics: a state is the program counters of all threads plus the shared
    flags; a transition is one thread's step, or the rendezvous of a sender and a receiver on an
    unbuffered channel.  Each critical section (write one record / close the file) contains no
    blocking operation (a continuation segment is written through the unlocked inner write), so
    its body is one step; what it does to the files
    is Model/Writer.v.  The mutex itself is explicit: a thread enters a critical section only when
    nobody is inside one for the same worker.  A job is identified by the caller that issued it (a caller has at most one
    Write in flight). *)
Require Import Model.Bytes.
From Coq Require Import Arith.
Local Open Scope nat_scope.

Inductive cop := CWrite (batch : nat) | CRotate | CClose.

Inductive cpc :=
| CIdle                 (* not inside a call *)
| CW2 (b : nat)         (* Write: past the first closed-check, at the select {closed | middleCh<-job} *)
| CW3 (b : nat)         (* Write: job handed to the dispatcher, waiting on its result channel *)
| CC1                   (* Close: closing signalled, waiting for closed *)
| CC2                   (* Close: waiting for the workers (WaitGroup) *)
| CR (k : nat)          (* Rotate: about to lock worker k's mutex (or done when k is past the last) *)
| CRC (k : nat).        (* Rotate: holds worker k's mutex; closes its file, unlocks *)

(* the outcome of a finished Write: Some b = b responses, None = nil (writer closed) *)
Record caller := mkc { c_pc : cpc; c_script : list cop; c_results : list (option nat) }.

Inductive dstate :=
| DIdle                          (* select {closing | middleCh} *)
| DHold (j b : nat)              (* holds the job of caller j; select {closing | jobs<-job} *)
| DX0 (o : option (nat * nat))   (* exit: about to close(closed) *)
| DX1 (o : option (nat * nat))   (* closed is closed; a held job is still to be forwarded *)
| DX2                            (* about to close(jobs) *)
| DEnd.

Inductive kstate :=
| KIdle                          (* range jobs *)
| KBusy (j b left : nat)         (* has caller j's job of b records, left remain; about to lock its mutex *)
| KCrit (j b left : nat)         (* holds its mutex: writes one record, unlocks *)
| KRespond (j b : nat)           (* responses<-res *)
| KClosing                       (* jobs closed: about to lock its mutex for the final close *)
| KClosingCrit                   (* holds its mutex: closes the file, unlocks, wg.Done *)
| KEnd.

(* file-level events: worker w wrote record idx of caller j's batch; worker w's file was closed *)
Inductive ev := EvWrite (w j idx : nat) | EvClose (w : nat).

Record pstate := mkp {
  callers : list caller;
  disp : dstate;
  workers : list kstate;
  closed : bool;
  jobs_closed : bool;
  processed : list (nat * nat);    (* (caller, batch size) of every job a worker has finished *)
  written : list (nat * nat);      (* (caller, index in its batch) of every record write, in order *)
  files : list bool;               (* per worker: a file is open *)
  log : list ev                    (* file-level events in order *)
}.

Fixpoint upd {A} (i : nat) (x : A) (l : list A) : list A :=
  match l, i with
  | [], _ => []
  | _ :: t, O => x :: t
  | a :: t, S k => a :: upd k x t
  end.

Definition set_caller (s : pstate) (i : nat) (c : caller) : pstate :=
  mkp (upd i c (callers s)) (disp s) (workers s) (closed s) (jobs_closed s) (processed s) (written s) (files s) (log s).
Definition set_worker (s : pstate) (w : nat) (k : kstate) : pstate :=
  mkp (callers s) (disp s) (upd w k (workers s)) (closed s) (jobs_closed s) (processed s) (written s) (files s) (log s).
Definition set_disp (s : pstate) (d : dstate) : pstate :=
  mkp (callers s) d (workers s) (closed s) (jobs_closed s) (processed s) (written s) (files s) (log s).

Definition all_ended (ws : list kstate) : bool :=
  forallb (fun k => match k with KEnd => true | _ => false end) ws.

(** sync.Mutex of worker w: held by the worker inside its critical section or by a Rotate caller *)
Definition wcrit (k : kstate) : nat := match k with KCrit _ _ _ | KClosingCrit => 1 | _ => 0 end.
Definition ccrit (w : nat) (c : caller) : nat := match c_pc c with CRC k => if k =? w then 1 else 0 | _ => 0 end.
Definition holders_of (w : nat) (s : pstate) : nat :=
  match nth_error (workers s) w with Some k => wcrit k | None => 0 end
  + fold_right (fun c n => ccrit w c + n) 0 (callers s).
Definition lock_free (s : pstate) (w : nat) : Prop := holders_of w s = 0.

(** one transition *)
Inductive step : pstate -> pstate -> Prop :=
(* Write *)
| SWriteClosed s i c b rest : nth_error (callers s) i = Some c -> c_pc c = CIdle -> c_script c = CWrite b :: rest ->
    closed s = true ->
    step s (set_caller s i (mkc CIdle rest (c_results c ++ [None])))
| SWriteStart s i c b rest : nth_error (callers s) i = Some c -> c_pc c = CIdle -> c_script c = CWrite b :: rest ->
    closed s = false ->
    step s (set_caller s i (mkc (CW2 b) rest (c_results c)))
| SWrite2Closed s i c b : nth_error (callers s) i = Some c -> c_pc c = CW2 b -> closed s = true ->
    step s (set_caller s i (mkc CIdle (c_script c) (c_results c ++ [None])))
| SWrite2Send s i c b : nth_error (callers s) i = Some c -> c_pc c = CW2 b -> disp s = DIdle ->
    step s (set_disp (set_caller s i (mkc (CW3 b) (c_script c) (c_results c))) (DHold i b))
| SWriteResult s i c b w b' : nth_error (callers s) i = Some c -> c_pc c = CW3 b ->
    nth_error (workers s) w = Some (KRespond i b') ->
    step s (set_worker (set_caller s i (mkc CIdle (c_script c) (c_results c ++ [Some b']))) w KIdle)
(* Rotate *)
| SRotateStart s i c rest : nth_error (callers s) i = Some c -> c_pc c = CIdle -> c_script c = CRotate :: rest ->
    step s (set_caller s i (mkc (CR 0) rest (c_results c)))
| SRotateLock s i c k : nth_error (callers s) i = Some c -> c_pc c = CR k -> k < length (workers s) ->
    lock_free s k ->
    step s (set_caller s i (mkc (CRC k) (c_script c) (c_results c)))
| SRotateClose s i c k : nth_error (callers s) i = Some c -> c_pc c = CRC k -> k < length (workers s) ->
    step s (mkp (upd i (mkc (CR (S k)) (c_script c) (c_results c)) (callers s)) (disp s) (workers s)
                (closed s) (jobs_closed s) (processed s) (written s) (upd k false (files s)) (log s ++ [EvClose k]))
| SRotateEnd s i c k : nth_error (callers s) i = Some c -> c_pc c = CR k -> length (workers s) <= k ->
    step s (set_caller s i (mkc CIdle (c_script c) (c_results c)))
(* Close *)
| SCloseSignalIdle s i c rest : nth_error (callers s) i = Some c -> c_pc c = CIdle -> c_script c = CClose :: rest ->
    disp s = DIdle ->
    step s (set_disp (set_caller s i (mkc CC1 rest (c_results c))) (DX0 None))
| SCloseSignalHold s i c rest j b : nth_error (callers s) i = Some c -> c_pc c = CIdle -> c_script c = CClose :: rest ->
    disp s = DHold j b ->
    step s (set_disp (set_caller s i (mkc CC1 rest (c_results c))) (DX0 (Some (j, b))))
| SCloseAlready s i c rest : nth_error (callers s) i = Some c -> c_pc c = CIdle -> c_script c = CClose :: rest ->
    closed s = true ->
    step s (set_caller s i (mkc CC2 rest (c_results c)))
| SCloseSeen s i c : nth_error (callers s) i = Some c -> c_pc c = CC1 -> closed s = true ->
    step s (set_caller s i (mkc CC2 (c_script c) (c_results c)))
| SCloseDone s i c : nth_error (callers s) i = Some c -> c_pc c = CC2 -> all_ended (workers s) = true ->
    step s (set_caller s i (mkc CIdle (c_script c) (c_results c)))
(* dispatcher *)
| SDispatch s j b w : disp s = DHold j b -> nth_error (workers s) w = Some KIdle ->
    step s (set_disp (set_worker s w (KBusy j b b)) DIdle)
| SExitClose s o : disp s = DX0 o ->
    step s (mkp (callers s) (DX1 o) (workers s) true (jobs_closed s) (processed s) (written s) (files s) (log s))
| SExitForward s j b w : disp s = DX1 (Some (j, b)) -> nth_error (workers s) w = Some KIdle ->
    step s (set_disp (set_worker s w (KBusy j b b)) DX2)
| SExitNoJob s : disp s = DX1 None -> step s (set_disp s DX2)
| SExitJobs s : disp s = DX2 ->
    step s (mkp (callers s) DEnd (workers s) (closed s) true (processed s) (written s) (files s) (log s))
(* workers *)
| SWorkLock s w j b n : nth_error (workers s) w = Some (KBusy j b (S n)) -> lock_free s w ->
    step s (set_worker s w (KCrit j b (S n)))
| SWorkRecord s w j b n : nth_error (workers s) w = Some (KCrit j b (S n)) ->
    (* write one record (Model/Writer.v says where: it opens a file when none is open); unlock *)
    step s (mkp (callers s) (disp s) (upd w (KBusy j b n) (workers s)) (closed s) (jobs_closed s)
                (processed s) (written s ++ [(j, b - S n)]) (upd w true (files s)) (log s ++ [EvWrite w j (b - S n)]))
| SWorkDone s w j b : nth_error (workers s) w = Some (KBusy j b 0) ->
    (* all records of the job are written: the responses are complete *)
    step s (mkp (callers s) (disp s) (upd w (KRespond j b) (workers s)) (closed s) (jobs_closed s)
                (processed s ++ [(j, b)]) (written s) (files s) (log s))
| SWorkStop s w : nth_error (workers s) w = Some KIdle -> jobs_closed s = true ->
    step s (set_worker s w KClosing)
| SWorkCloseLock s w : nth_error (workers s) w = Some KClosing -> lock_free s w ->
    step s (set_worker s w KClosingCrit)
| SWorkEnd s w : nth_error (workers s) w = Some KClosingCrit ->
    step s (mkp (callers s) (disp s) (upd w KEnd (workers s)) (closed s) (jobs_closed s)
                (processed s) (written s) (upd w false (files s)) (log s ++ [EvClose w])).

Inductive reach (s0 : pstate) : pstate -> Prop :=
| reach_refl : reach s0 s0
| reach_step s s' : reach s0 s -> step s s' -> reach s0 s'.

Definition init (scripts : list (list cop)) (nworkers : nat) : pstate :=
  mkp (map (fun sc => mkc CIdle sc []) scripts) DIdle (repeat KIdle nworkers) false false [] [] (repeat false nworkers) [].

Definition caller_done (c : caller) : bool :=
  match c_pc c, c_script c with CIdle, [] => true | _, _ => false end.
Definition all_done (s : pstate) : bool := forallb caller_done (callers s).

(** * executable transitions: one label per rule of [step] *)
Inductive tr :=
| TWriteClosed (i : nat) | TWriteStart (i : nat) | TW2Closed (i : nat) | TW2Send (i : nat) | TResult (i w : nat)
| TRotStart (i : nat) | TRotLock (i : nat) | TRotClose (i : nat) | TRotEnd (i : nat)
| TCloseSigIdle (i : nat) | TCloseSigHold (i : nat) | TCloseAlready (i : nat) | TCloseSeen (i : nat) | TCloseDone (i : nat)
| TDispatch (w : nat) | TExitClose | TExitForward (w : nat) | TExitNoJob | TExitJobs
| TWorkLock (w : nat) | TWorkRecord (w : nat) | TWorkDone (w : nat) | TWorkStop (w : nat) | TWorkCloseLock (w : nat) | TWorkEnd (w : nat).

Definition lock_freeb (s : pstate) (w : nat) : bool := holders_of w s =? 0.

Definition apply_tr (s : pstate) (t : tr) : option pstate :=
  match t with
  | TWriteClosed i =>
      match nth_error (callers s) i with
      | Some c => match c_pc c, c_script c with
                  | CIdle, CWrite b :: rest =>
                      if closed s then Some (set_caller s i (mkc CIdle rest (c_results c ++ [None]))) else None
                  | _, _ => None end
      | None => None end
  | TWriteStart i =>
      match nth_error (callers s) i with
      | Some c => match c_pc c, c_script c with
                  | CIdle, CWrite b :: rest =>
                      if closed s then None else Some (set_caller s i (mkc (CW2 b) rest (c_results c)))
                  | _, _ => None end
      | None => None end
  | TW2Closed i =>
      match nth_error (callers s) i with
      | Some c => match c_pc c with
                  | CW2 b => if closed s then Some (set_caller s i (mkc CIdle (c_script c) (c_results c ++ [None]))) else None
                  | _ => None end
      | None => None end
  | TW2Send i =>
      match nth_error (callers s) i with
      | Some c => match c_pc c, disp s with
                  | CW2 b, DIdle => Some (set_disp (set_caller s i (mkc (CW3 b) (c_script c) (c_results c))) (DHold i b))
                  | _, _ => None end
      | None => None end
  | TResult i w =>
      match nth_error (callers s) i, nth_error (workers s) w with
      | Some c, Some (KRespond i' b') =>
          match c_pc c with
          | CW3 b => if i' =? i then
                       Some (set_worker (set_caller s i (mkc CIdle (c_script c) (c_results c ++ [Some b']))) w KIdle)
                     else None
          | _ => None end
      | _, _ => None end
  | TRotStart i =>
      match nth_error (callers s) i with
      | Some c => match c_pc c, c_script c with
                  | CIdle, CRotate :: rest => Some (set_caller s i (mkc (CR 0) rest (c_results c)))
                  | _, _ => None end
      | None => None end
  | TRotLock i =>
      match nth_error (callers s) i with
      | Some c => match c_pc c with
                  | CR k => if (k <? length (workers s)) && lock_freeb s k
                            then Some (set_caller s i (mkc (CRC k) (c_script c) (c_results c))) else None
                  | _ => None end
      | None => None end
  | TRotClose i =>
      match nth_error (callers s) i with
      | Some c => match c_pc c with
                  | CRC k => if k <? length (workers s)
                             then Some (mkp (upd i (mkc (CR (S k)) (c_script c) (c_results c)) (callers s)) (disp s) (workers s)
                                            (closed s) (jobs_closed s) (processed s) (written s) (upd k false (files s))
                                            (log s ++ [EvClose k]))
                             else None
                  | _ => None end
      | None => None end
  | TRotEnd i =>
      match nth_error (callers s) i with
      | Some c => match c_pc c with
                  | CR k => if length (workers s) <=? k
                            then Some (set_caller s i (mkc CIdle (c_script c) (c_results c))) else None
                  | _ => None end
      | None => None end
  | TCloseSigIdle i =>
      match nth_error (callers s) i with
      | Some c => match c_pc c, c_script c, disp s with
                  | CIdle, CClose :: rest, DIdle => Some (set_disp (set_caller s i (mkc CC1 rest (c_results c))) (DX0 None))
                  | _, _, _ => None end
      | None => None end
  | TCloseSigHold i =>
      match nth_error (callers s) i with
      | Some c => match c_pc c, c_script c, disp s with
                  | CIdle, CClose :: rest, DHold j b =>
                      Some (set_disp (set_caller s i (mkc CC1 rest (c_results c))) (DX0 (Some (j, b))))
                  | _, _, _ => None end
      | None => None end
  | TCloseAlready i =>
      match nth_error (callers s) i with
      | Some c => match c_pc c, c_script c with
                  | CIdle, CClose :: rest => if closed s then Some (set_caller s i (mkc CC2 rest (c_results c))) else None
                  | _, _ => None end
      | None => None end
  | TCloseSeen i =>
      match nth_error (callers s) i with
      | Some c => match c_pc c with
                  | CC1 => if closed s then Some (set_caller s i (mkc CC2 (c_script c) (c_results c))) else None
                  | _ => None end
      | None => None end
  | TCloseDone i =>
      match nth_error (callers s) i with
      | Some c => match c_pc c with
                  | CC2 => if all_ended (workers s) then Some (set_caller s i (mkc CIdle (c_script c) (c_results c))) else None
                  | _ => None end
      | None => None end
  | TDispatch w =>
      match disp s, nth_error (workers s) w with
      | DHold j b, Some KIdle => Some (set_disp (set_worker s w (KBusy j b b)) DIdle)
      | _, _ => None end
  | TExitClose =>
      match disp s with
      | DX0 o => Some (mkp (callers s) (DX1 o) (workers s) true (jobs_closed s) (processed s) (written s) (files s) (log s))
      | _ => None end
  | TExitForward w =>
      match disp s, nth_error (workers s) w with
      | DX1 (Some (j, b)), Some KIdle => Some (set_disp (set_worker s w (KBusy j b b)) DX2)
      | _, _ => None end
  | TExitNoJob => match disp s with DX1 None => Some (set_disp s DX2) | _ => None end
  | TExitJobs =>
      match disp s with
      | DX2 => Some (mkp (callers s) DEnd (workers s) (closed s) true (processed s) (written s) (files s) (log s))
      | _ => None end
  | TWorkLock w =>
      match nth_error (workers s) w with
      | Some (KBusy j b (S n)) => if lock_freeb s w then Some (set_worker s w (KCrit j b (S n))) else None
      | _ => None end
  | TWorkRecord w =>
      match nth_error (workers s) w with
      | Some (KCrit j b (S n)) =>
          Some (mkp (callers s) (disp s) (upd w (KBusy j b n) (workers s)) (closed s) (jobs_closed s)
                    (processed s) (written s ++ [(j, b - S n)]) (upd w true (files s)) (log s ++ [EvWrite w j (b - S n)]))
      | _ => None end
  | TWorkDone w =>
      match nth_error (workers s) w with
      | Some (KBusy j b 0) =>
          Some (mkp (callers s) (disp s) (upd w (KRespond j b) (workers s)) (closed s) (jobs_closed s)
                    (processed s ++ [(j, b)]) (written s) (files s) (log s))
      | _ => None end
  | TWorkStop w =>
      match nth_error (workers s) w with
      | Some KIdle => if jobs_closed s then Some (set_worker s w KClosing) else None
      | _ => None end
  | TWorkCloseLock w =>
      match nth_error (workers s) w with
      | Some KClosing => if lock_freeb s w then Some (set_worker s w KClosingCrit) else None
      | _ => None end
  | TWorkEnd w =>
      match nth_error (workers s) w with
      | Some KClosingCrit =>
          Some (mkp (callers s) (disp s) (upd w KEnd (workers s)) (closed s) (jobs_closed s)
                    (processed s) (written s) (upd w false (files s)) (log s ++ [EvClose w]))
      | _ => None end
  end.

(* every label that could apply in a state with nc callers and nw workers *)
Definition all_labels (nc nw : nat) : list tr :=
  flat_map (fun i => [TWriteClosed i; TWriteStart i; TW2Closed i; TW2Send i; TRotStart i; TRotLock i; TRotClose i;
                      TRotEnd i; TCloseSigIdle i; TCloseSigHold i; TCloseAlready i; TCloseSeen i; TCloseDone i]
                     ++ map (TResult i) (seq 0 nw)) (seq 0 nc)
  ++ [TExitClose; TExitNoJob; TExitJobs]
  ++ flat_map (fun w => [TDispatch w; TExitForward w; TWorkLock w; TWorkRecord w; TWorkDone w; TWorkStop w;
                         TWorkCloseLock w; TWorkEnd w]) (seq 0 nw).

Definition succs (s : pstate) : list (tr * pstate) :=
  flat_map (fun t => match apply_tr s t with Some s' => [(t, s')] | None => [] end)
           (all_labels (length (callers s)) (length (workers s))).

Fixpoint run_trs (s : pstate) (ts : list tr) : option pstate :=
  match ts with
  | [] => Some s
  | t :: ts' => match apply_tr s t with Some s' => run_trs s' ts' | None => None end
  end.
