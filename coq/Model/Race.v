(** Race.v — data races and the disciplines that exclude them (property C11).

    An execution is a trace of events, each performed by a thread:
      - plain accesses (read / write) to a memory location;
      - synchronisation events on a sync object: [Acq] (mutex Lock, channel receive, start of a
        forked goroutine, WaitGroup.Wait, atomic load ...) and [Rel] (mutex Unlock, channel send
        or close, the go statement, WaitGroup.Done, atomic store ...).
    Happens-before is the Go memory model's: program order, and every release of a sync object
    happens before every later acquire of the same object, closed under transitivity.  A data race
    is a pair of conflicting plain accesses (same location, different threads, at least one
    write) not ordered by happens-before.

    The disciplines: a location is [guarded] by a sync object when every access to it is made by a
    thread that currently holds the object (acquired it and has not released it since); the
    object is [exclusive] in the trace when no two threads hold it at once (a sync.Mutex is; the
    job token handed from caller to dispatcher to worker over unbuffered channels is, by the
    protocol invariant of Model/Protocol.v).  A location is [read_only] when the trace has no
    write to it (written only before it is shared: package init, constructors). *)
From Coq Require Import List Arith Lia Bool.
Import ListNotations.
Local Open Scope nat_scope.

Definition thread := nat.
Definition loc := nat.
Definition sync := nat.

Inductive event :=
| Read (t : thread) (l : loc)
| Write (t : thread) (l : loc)
| Acq (t : thread) (s : sync)
| Rel (t : thread) (s : sync).

Definition tid (e : event) : thread :=
  match e with Read t _ | Write t _ | Acq t _ | Rel t _ => t end.

Definition trace := list event.

Definition access_of (e : event) : option (thread * loc * bool) :=
  match e with Read t l => Some (t, l, false) | Write t l => Some (t, l, true) | _ => None end.

(** happens-before between positions of a trace *)
Inductive hb (tr : trace) : nat -> nat -> Prop :=
| hb_po i j ei ej : i < j -> nth_error tr i = Some ei -> nth_error tr j = Some ej -> tid ei = tid ej -> hb tr i j
| hb_sync i j t t' s : i < j -> nth_error tr i = Some (Rel t s) -> nth_error tr j = Some (Acq t' s) -> hb tr i j
| hb_trans i j k : hb tr i j -> hb tr j k -> hb tr i k.

Definition conflict (e1 e2 : event) : Prop :=
  match access_of e1, access_of e2 with
  | Some (t1, l1, w1), Some (t2, l2, w2) => t1 <> t2 /\ l1 = l2 /\ (w1 = true \/ w2 = true)
  | _, _ => False
  end.

Definition race (tr : trace) : Prop :=
  exists i j ei ej, i < j /\ nth_error tr i = Some ei /\ nth_error tr j = Some ej /\
    conflict ei ej /\ ~ hb tr i j.

(** thread t holds s just before position i: it acquired s at some a < i and has not released it in (a, i) *)
Definition holds (tr : trace) (t : thread) (s : sync) (i : nat) : Prop :=
  exists a, a < i /\ nth_error tr a = Some (Acq t s) /\
    forall r, a < r -> r < i -> nth_error tr r <> Some (Rel t s).

(** no two threads hold s at once; an acquire is only possible when nobody else holds it *)
Definition exclusive (tr : trace) (s : sync) : Prop :=
  forall a t, nth_error tr a = Some (Acq t s) -> forall t', t' <> t -> ~ holds tr t' s a.

Definition guarded (tr : trace) (l : loc) (s : sync) : Prop :=
  forall i e t w, nth_error tr i = Some e -> access_of e = Some (t, l, w) -> holds tr t s i.

Definition read_only (tr : trace) (l : loc) : Prop :=
  forall i t, nth_error tr i <> Some (Write t l).

(** * executable access-table check (the tables are generated from the source, Gen/AccessTable.v) *)
From Coq Require Import String.

Definition str_eqb (a b : string) : bool := if string_dec a b then true else false.

(* package-level variables: (package, name, kind, mutated outside init) *)
Definition pkg_vars_ok (vars : list (string * string * string * bool)) : bool :=
  forallb (fun v => match v with (_, _, kind, mutated) => negb mutated || str_eqb kind "sync" end) vars.

(* functions that touch lock-guarded fields, or call a function that does without taking the lock:
   (function, fields, takes the lock itself, callers).  A function is unprotected when it does not
   take the lock and is an entry point (no callers in the package) or has an unprotected caller
   or a caller outside the table; least fixpoint, computed by iteration. *)
Definition grow := (string * list string * bool * list string)%type.
Definition in_tbl (tbl : list grow) (f : string) : bool :=
  existsb (fun r : grow => match r with (g, _, _, _) => str_eqb g f end) tbl.
Definition unprot_step (tbl : list grow) (u : list string) : list string :=
  flat_map (fun r : grow => match r with (f, _, locks, callers) =>
    if locks then []
    else if match callers with [] => true | _ => false end then [f]
    else if existsb (fun c => negb (in_tbl tbl c) || existsb (str_eqb c) u) callers then [f] else []
    end) tbl.
Fixpoint iter_unprot (n : nat) (tbl : list grow) (u : list string) : list string :=
  match n with O => u | S n' => iter_unprot n' tbl (unprot_step tbl u) end.
Definition unprotected (tbl : list grow) : list string := iter_unprot (S (List.length tbl)) tbl [].
Definition guarded_ok (tbl : list grow) : bool :=
  match unprotected tbl with [] => true | _ => false end.

Definition table_ok (vars : list (string * string * string * bool)) (tbl : list grow)
  (field_writes : list (string * string)) (mutator_calls : list (string * string * bool)) : bool :=
  pkg_vars_ok vars && guarded_ok tbl
  && match field_writes with [] => true | _ => false end
  && forallb (fun c => match c with (_, _, in_init) => in_init end) mutator_calls.
