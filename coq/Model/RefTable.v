(** RefTable.v — the WARC header field table as transcribed BY HAND at the pinned commit
    (headerfielddef.go: fieldDefs, requiredFields).  It is the reference against which the table
    regenerated from /repo on every run is compared (tie T-A, Properties/C17.v: table_is_reference),
    and the table the executable specification of C17 is evaluated with.
    Columns: canonical name, value kind, repeatable, allowed record types (bit set), WARC versions
    defining the field (bit set: 1 = 1.0, 2 = 1.1; 0 = extension field, never type-checked).
    Limit: this is the pinned table, not ISO 28500 itself (not available offline). *)
From Coq Require Import List NArith String.
Import ListNotations.
Require Import Model.Bytes Model.FieldDef.
Local Open Scope N_scope.
Local Open Scope string_scope.

Definition reference_table : list fielddef := [
  mkdef (bs "") PUnknown true 255 3;
  mkdef (bs "Content-Length") PLong false 255 3;
  mkdef (bs "Content-Type") PString false 255 3;
  mkdef (bs "WARC-Block-Digest") PDigest false 255 3;
  mkdef (bs "WARC-Concurrent-To") PWarcId true 62 3;
  mkdef (bs "WARC-Date") PTime false 255 3;
  mkdef (bs "WARC-Filename") PString false 1 3;
  mkdef (bs "WARC-IP-Address") PIp false 62 3;
  mkdef (bs "WARC-Identified-Payload-Type") PString false 255 3;
  mkdef (bs "WARC-Payload-Digest") PDigest false 255 3;
  mkdef (bs "WARC-Profile") PURI false 32 3;
  mkdef (bs "WARC-Record-ID") PWarcId false 255 3;
  mkdef (bs "WARC-Refers-To") PWarcId false 112 3;
  mkdef (bs "WARC-Refers-To-Date") PTime false 32 2;
  mkdef (bs "WARC-Refers-To-Target-URI") PURI false 32 2;
  mkdef (bs "WARC-Segment-Number") PInt false 255 3;
  mkdef (bs "WARC-Segment-Origin-ID") PWarcId false 128 3;
  mkdef (bs "WARC-Segment-Total-Length") PLong false 128 3;
  mkdef (bs "WARC-Target-URI") PURI false 255 3;
  mkdef (bs "WARC-Truncated") PTruncReason false 255 3;
  mkdef (bs "WARC-Type") PWarcType false 255 3;
  mkdef (bs "WARC-Warcinfo-ID") PWarcId false 254 3;
  mkdef (bs "WARC-Page-ID") PString false 254 0;
  mkdef (bs "WARC-Resource-Type") PString false 254 0;
  mkdef (bs "WARC-JSON-Metadata") PString false 254 0
].

Definition reference_required : list bytes := [(bs "WARC-Record-ID"); (bs "Content-Length"); (bs "WARC-Date"); (bs "WARC-Type")].
