(** Resources.v — who owns which temporary spill file / descriptor, and which Close releases it
    (diskbuffer.go, filebuffer.go, block.go, httpblock.go, recordbuilder.go, unmarshaler.go,
    warcfile.go); property C15.

    A spill buffer owns a temp file (one directory entry + one descriptor) from the moment its
    memory part is full ([file <> None] in Model/Spill.v) until its Close.  The ledger is the list
    of live buffers that own a file, plus the descriptors of file readers.  Each API step below
    says which buffers it creates, which it closes, and what it hands to the caller; [fault]
    parameters are injected I/O errors. *)
Require Import Model.Bytes Model.Spill.
From Coq Require Import Arith.
Local Open Scope nat_scope.

(* does a buffer that received [n] bytes with memory threshold [thr] own a temp file? *)
Definition spilled (thr n : nat) : bool := thr <=? n.

(* live resources: temp files of spill buffers (by buffer id) and reader descriptors *)
Inductive rsrc := RTemp (id : nat) | RFd (id : nat).
Definition ledger := list rsrc.

Fixpoint release (r : rsrc) (l : ledger) : ledger :=
  match l with
  | [] => []
  | x :: t => match r, x with
              | RTemp a, RTemp b => if a =? b then t else x :: release r t
              | RFd a, RFd b => if a =? b then t else x :: release r t
              | _, _ => x :: release r t
              end
  end.
Definition release_all (rs : list rsrc) (l : ledger) : ledger := fold_right release l rs.

(* what the caller holds after an API call: the closers it can (and must) call *)
Record held := mkheld { h_closes : list rsrc }.

(** NewRecordBuilder + Write n bytes; then either builder.Close, or Build (ok or failing) followed
    by record.Close (and builder.Close after a failed Build): all release the builder's buffer. *)
Definition builder_fill (thr n id : nat) : ledger * held :=
  if spilled thr n then ([RTemp id], mkheld [RTemp id]) else ([], mkheld [RTemp id]).

(** Unmarshal: the block is copied into a fresh spill buffer by Cache (ValidateDigest under
    warn/fail, or Unmarshal itself); a read fault after [k] content bytes stops the copy but the
    partly filled buffer is stored in the block, and the record's closer (installed before the
    block is parsed) closes the block. *)
Definition unmarshal_res (thr n id : nat) (fault : option nat) : ledger * held :=
  let copied := match fault with Some k => Nat.min k n | None => n end in
  if spilled thr copied then ([RTemp id], mkheld [RTemp id]) else ([], mkheld [RTemp id]).

(** NewWarcFileReader: the descriptor is handed to the reader, or closed again when the seek fails *)
Definition reader_open (id : nat) (seek_fails : bool) : ledger * held :=
  if seek_fails then ([], mkheld []) else ([RFd id], mkheld [RFd id]).

(** closing everything that was returned *)
Definition close_all (st : ledger * held) : ledger := release_all (h_closes (snd st)) (fst st).
