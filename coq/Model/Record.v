(** Record.v — records, blocks, parseBlock, ValidateDigest, the record builder, the marshaler
    and the unmarshaler (record.go, recordbuilder.go, marshaler.go, unmarshaler.go,
    httpblock.go, warcfieldsblock.go, revisitblock.go, countingreader.go).
    Properties C01, C02, C03, C05, C06, C07, C08, C20. *)
Require Import Model.Bytes Model.FieldDef Model.Fields Model.Policy Model.Validate Model.Spill
               Model.Stream Model.HeaderParse Model.Digest.
Local Open Scope N_scope.

Record opts := mkopts {
  o_syntax : policy; o_spec : policy; o_unknown : policy; o_block : policy;
  o_skip_parse : bool;
  o_add_id : bool; o_add_cl : bool; o_add_digest : bool;
  o_fix_cl : bool; o_fix_digest : bool; o_fix_syntax : bool; o_fix_wfblock : bool;
  o_alg : bytes;            (* defaultDigestAlgorithm *)
  o_enc : enc               (* defaultDigestEncoding *)
}.

Inductive bkind := BGeneric | BHttpReq | BHttpResp | BWarcFields | BRevisit.
(* a block as a caller can read it: RawBytes = b_head ++ b_body *)
Record rblock := mkblk { bk : bkind; bh : bytes; bb : bytes }.
Definition raw_bytes (b : rblock) : bytes := bh b ++ bb b.

Record record := mkrec {
  r_vtxt : bytes;      (* version text after "WARC/" *)
  r_vid : N;           (* 1 = 1.0, 2 = 1.1, 0 = other *)
  r_type : N;
  r_fields : fields;
  r_block : rblock
}.

(* field names *)
Definition n_block_digest : bytes := [87;65;82;67;45;66;108;111;99;107;45;68;105;103;101;115;116].
Definition n_payload_digest : bytes := [87;65;82;67;45;80;97;121;108;111;97;100;45;68;105;103;101;115;116].
Definition n_segment_number : bytes := [87;65;82;67;45;83;101;103;109;101;110;116;45;78;117;109;98;101;114].
Definition n_record_id : bytes := [87;65;82;67;45;82;101;99;111;114;100;45;73;68].
Definition s_app_http : bytes := [97;112;112;108;105;99;97;116;105;111;110;47;104;116;116;112].
Definition s_app_warcfields : bytes :=
  [97;112;112;108;105;99;97;116;105;111;110;47;119;97;114;99;45;102;105;101;108;100;115].
Definition s_HTTP : bytes := [72;84;84;80].
Definition s_WARC : bytes := [87;65;82;67;47].
Definition CRLFCRLF : bytes := [13;10;13;10].

Section Record.
Variable tbl : list fielddef.
Variable req : list bytes.
Variable uni_lower uni_upper : bytes -> bytes.
Variables time_ok ip_ok uri_ok wid_ok : bytes -> bool.
Variable mime_dec : bytes -> option bytes.
Variable H : alg -> bytes -> bytes.
Variables b32_decode b64_decode : bytes -> option bytes.
Variables http_req_ok http_resp_ok : bytes -> bool.   (* net/http ReadRequest / ReadResponse succeed *)

Notation m_get := (m_get tbl uni_lower).
Notation m_has := (m_has tbl uni_lower).
Notation m_set := (m_set tbl uni_lower).
Notation new_digest := (new_digest uni_lower uni_upper).
Notation format := (format H).
Notation dvalidate := (dvalidate H b32_decode b64_decode).
Notation update_digest := (update_digest H).
Notation parse_fields := (parse_fields tbl uni_lower mime_dec).
Notation validate_header := (validate_header tbl req uni_lower time_ok ip_ok uri_ok wid_ok).

Definition cl_value (hs : fields) : Z :=
  if m_has n_content_length hs then atoi_value (m_get n_content_length hs) else 0%Z.

(* newDigestFromField *)
Definition digest_from_field (o : opts) (hs : fields) (name : bytes) : option digest :=
  if m_has name hs then new_digest (m_get name hs) (o_enc o) else new_digest (o_alg o) (o_enc o).

(** headerBytes (httpblock.go): lines up to and including the first line shorter than 3 bytes *)
Fixpoint http_header_fuel (fuel : nat) (s : bytes) : bytes * bool :=
  match fuel with
  | O => ([], false)
  | S f =>
      match take_through LF s with
      | None => (s, false)                       (* ReadBytes hit the end: separator missing *)
      | Some l => if (length l <? 3)%nat then (l, true)
                  else let '(r, found) := http_header_fuel f (skipn (length l) s) in (l ++ r, found)
      end
  end.
Definition http_header (s : bytes) : bytes * bool := http_header_fuel (S (length s)) s.

(** parseBlock.  [content]: the bytes the block reader delivers; [builder]: the source is the
    builder's spill buffer (seekable) rather than the parser's stream.
    Result: header fields (newHttpBlock may bump Content-Length), the block, the block digest
    and the payload digest object (None: the block kind has none). *)
Definition parse_block (o : opts) (rt : N) (hs : fields) (content : bytes) (fnd : list finding)
  : res (fields * rblock * digest * option digest) :=
  match digest_from_field o hs n_block_digest, digest_from_field o hs n_payload_digest with
  | None, _ | _, None => Err (KOther, []) fnd
  | Some bd, Some pd =>
      let ct := lower uni_lower (m_get n_content_type hs) in
      let generic := Ok (hs, mkblk BGeneric [] content, feed bd content,
                         if rt =? 4 then Some (feed pd content) (* resource: the payload is the block *) else None) fnd in
      if o_skip_parse o then generic
      else if negb (N.land rt 206 =? 0) && has_prefix s_app_http ct then
        (* newHttpBlock *)
        if (length content <? 4)%nat then Err (KOther, []) fnd
        else
          let '(hb, found) := http_header content in
          let k1 fnd1 :=
            let fixit := negb found && o_fix_syntax o in
            let hb' := if fixit then hb ++ CRLF else hb in
            let hs' := if fixit then m_set n_content_length (itoa (wrap64 (cl_value hs + 2))) hs else hs in   (* int64 addition *)
            let payload := skipn (length hb) content in
            let isresp := has_prefix s_HTTP hb in
            let hbp := if negb found && negb (o_fix_syntax o) then hb ++ CRLF else hb' in
            let blk := mkblk (if isresp then BHttpResp else BHttpReq) hb' payload in
            let okp := if isresp then http_resp_ok hbp else http_req_ok hbp in
            let done fnd2 := Ok (hs', blk, feed bd (hb' ++ payload), Some (feed pd payload)) fnd2 in
            if okp then done fnd1 else site (o_block o) (KBlock, []) fnd1 done in
          if found then k1 fnd else site (o_syntax o) (KSyntax, []) fnd k1
      else if rt =? 32 then
        Ok (hs, mkblk BRevisit [] content, feed bd content, None) fnd
      else if has_prefix s_app_warcfields ct then
        (* newWarcFieldsBlock: the block is parsed with its own validation *)
        let inner := parse_fields (o_syntax o) (mkst content TEOF) [] in
        let bv := findings_of inner in
        let k2 fnd1 :=
          match inner with
          | Err e _ => Err e fnd1                (* fatal error from the block's parser, passed on *)
          | Ok (wf, _) _ =>
              let content' := match bv with
                              | [] => content
                              | _ => if o_fix_wfblock o then m_write wf else content
                              end in
              Ok (hs, mkblk BWarcFields [] content', feed bd content', None) fnd1
          end in
        match bv with
        | [] => k2 fnd
        | _ => match o_block o with
               | Ignore => k2 fnd
               | Warn => k2 (fnd ++ map (fun _ => (KBlock, [])) bv)
               | Fail => Err (KBlock, []) fnd
               end
        end
      else generic
  end.

(** ValidateDigest.  [cached]: the block is seekable when the spec policy is ignore (builder). *)
Definition check_digest (o : opts) (field : bytes) (d : digest) (cached : bool) (hs : fields) (fnd : list finding)
           (k : fields -> digest -> list finding -> res fields) : res fields :=
  match d_hash d with
  | [] => if o_add_digest o && (policy_gt_ignore (o_spec o) || cached)
          then k (m_set field (format d) hs) d fnd else k hs d fnd
  | _ =>
      if policy_gt_ignore (o_spec o) && negb (dvalidate d) then
        match o_spec o with
        | Warn => if o_fix_digest o
                  then let d' := update_digest d in k (m_set field (format d') hs) d' (fnd ++ [(KDigest, field)])
                  else k hs d (fnd ++ [(KDigest, field)])
        | Fail => Err (KDigest, field) fnd
        | Ignore => k hs d fnd
        end
      else k hs d fnd
  end.

Definition validate_digest (o : opts) (rt : N) (hs : fields) (b : rblock) (bd : digest) (pd : option digest)
           (cached : bool) (fnd : list finding) : res fields :=
  let size := itoa (Z.of_nat (length (raw_bytes b))) in
  let k1 hs1 fnd1 :=
    check_digest o n_block_digest bd cached hs1 fnd1 (fun hs2 bd2 fnd2 =>
      if (rt =? 32) || m_has n_segment_number hs2 then Ok hs2 fnd2
      else
        let pdo := match bk b with
                   | BGeneric => if rt =? 4 then pd else None
                   | BHttpReq | BHttpResp => pd
                   | _ => None
                   end in
        match pdo with
        | None => Ok hs2 fnd2
        | Some p => check_digest o n_payload_digest p cached hs2 fnd2 (fun hs3 _ fnd3 => Ok hs3 fnd3)
        end) in
  if policy_gt_ignore (o_spec o) && m_has n_content_length hs && negb (bytes_eqb size (m_get n_content_length hs)) then
    match o_spec o with
    | Warn => k1 (if o_fix_cl o then m_set n_content_length size hs else hs) (fnd ++ [(KLength, [])])
    | Fail => Err (KLength, []) fnd
    | Ignore => k1 hs fnd
    end
  else k1 hs fnd.

(** recordBuilder.Build.  [hs]: the header fields added so far (SetRecordType included);
    [content]: everything written to the builder; [new_id]: what recordIdFunc returns. *)
Definition build (o : opts) (vid : N) (rt0 : N) (hs : fields) (content : bytes) (new_id : bytes)
  : res record * fields :=
  let hs1 := if o_add_id o && negb (m_has n_record_id hs)
             then match id_value new_id with Some v => m_set n_record_id v hs | None => hs end else hs in
  let hs2 := if o_add_cl o && negb (m_has n_content_length hs1)
             then m_set n_content_length (itoa (Z.of_nat (length content))) hs1 else hs1 in
  let vtxt := if vid =? 1 then [49;46;48] else [49;46;49] in
  match validate_header (o_spec o) (o_unknown o) vid hs2 [] with
  | Err e fnd => (Err e fnd, hs2)
  | Ok (rt, hs3) fnd =>
      (* the builder keeps the record type it was given; when none was given (0) it takes the
         type header validation resolved from the WARC-Type field *)
      let rtb := if rt0 =? 0 then rt else rt0 in
      match parse_block o rtb hs3 content fnd with
      | Err e fnd1 => (Err e fnd1, hs3)
      | Ok (hs4, blk, bd, pd) fnd1 =>
          match validate_digest o rtb hs4 blk bd pd true fnd1 with
          | Err e fnd2 => (Err e fnd2, hs4)
          | Ok hs5 fnd2 => (Ok (mkrec vtxt vid rtb hs5 blk) fnd2, hs5)
          end
      end
  end.

(** defaultMarshaler.writeRecord *)
Definition marshal (r : record) : bytes :=
  s_WARC ++ r_vtxt r ++ CRLF ++ m_write (r_fields r) ++ CRLF ++ raw_bytes (r_block r) ++ CRLFCRLF.

(** * Unmarshal *)

(* the search for the start of a record; returns the offset and the stream at the magic bytes *)
Inductive found := FoundWarc | FoundGzip | FoundEnd (e : tailk) | FoundJunkFail.
Fixpoint find_start (fuel : nat) (p : policy) (s : stream) (off : nat) : found * nat * stream :=
  let '(magic, e) := peek 5 s in
  match e with
  | Some t => (FoundEnd t, off, s)
  | None =>
      if bytes_eqb magic s_WARC then (FoundWarc, off, s)
      else match magic with
           | 31 :: 139 :: _ => (FoundGzip, off, s)
           | _ =>
               match p with
               | Fail => (FoundJunkFail, off, s)
               | _ => match fuel with
                      | O => (FoundEnd TEOF, off, s)
                      | S f => find_start f p (discard 1 s) (S off)
                      end
               end
           end
  end.

(* the end-of-record marker *)
Definition trailer (o : opts) (s : stream) (fnd : list finding) : res stream :=
  let '(buf, _) := peek 4 s in
  if bytes_eqb buf CRLFCRLF then Ok (discard 4 s) fnd
  else
    let s' := match buf with
              | [] => s
              | [10] => discard 1 s
              | [10; 10] => discard 2 s
              | [_; _; _; _] => s
              | _ => discard (length buf) s
              end in
    site (o_spec o) (KTrailer, []) fnd (fun fnd' => Ok s' fnd').

(** everything after the magic bytes have been located, on the stream [s] that starts with
    "WARC/" (the plain stream itself, or the payload of one gzip member) *)
Inductive uresult :=
| UNone (e : finding) (fnd : list finding)                  (* no record returned *)
| URec (r : record) (e : option finding) (fnd : list finding) (rest : stream).

Definition parse_record (o : opts) (s : stream) (fnd : list finding) : uresult :=
  let s0 := discard 5 s in
  let '(l, e, s1) := read_bytes LF s0 in
  match e with
  | Some TEOF => UNone (KEOH, []) fnd
  | Some TErr => UNone (KRead, []) fnd
  | None =>
      let badcr := (length l <? 2)%nat || negb (nth (length l - 2) l 0 =? CR) in
      let after_cr fnd1 :=
        let vt := trim is_sphtcrlf l in
        let vid := if bytes_eqb vt [49;46;48] then 1 else if bytes_eqb vt [49;46;49] then 2 else 0 in
        let after_ver fnd2 :=
          match parse_fields (o_syntax o) s1 fnd2 with
          | Err e2 fnd3 => UNone e2 fnd3
          | Ok (hs, s2) fnd3 =>
              match validate_header (o_spec o) (o_unknown o) vid hs fnd3 with
              | Err e3 fnd4 => UNone e3 fnd4
              | Ok (rt, hs1) fnd4 =>
                  let len := cl_value hs1 in
                  let avail := sdata s2 in
                  let content := if (len <? 0)%Z || (Z.of_nat (length avail) <=? len)%Z
                                 then avail else firstn (Z.to_nat len) avail in
                  let s3 := mkst (skipn (length content) avail) (stail s2) in
                  let short := (len <? 0)%Z || (Z.of_nat (length avail) <? len)%Z in
                  match stail s2, short with
                  | TErr, true => URec (mkrec vt vid rt hs1 (mkblk BGeneric [] [])) (Some (KRead, [])) fnd4 s3
                  | _, _ =>
                      match parse_block o rt hs1 content fnd4 with
                      | Err e5 fnd5 => URec (mkrec vt vid rt hs1 (mkblk BGeneric [] content)) (Some e5) fnd5 s3
                      | Ok (hs2, blk, bd, pd) fnd5 =>
                          match validate_digest o rt hs2 blk bd pd (match bk blk with BWarcFields | BRevisit => true | _ => false end) fnd5 with
                          | Err e6 fnd6 => URec (mkrec vt vid rt hs2 blk) (Some e6) fnd6 s3
                          | Ok hs3 fnd6 =>
                              match trailer o s3 fnd6 with
                              | Err e7 fnd7 => URec (mkrec vt vid rt hs3 blk) (Some e7) fnd7 s3
                              | Ok s4 fnd7 => URec (mkrec vt vid rt hs3 blk) None fnd7 s4
                              end
                          end
                      end
                  end
              end
          end in
        if (vid =? 0) then
          match o_spec o with
          | Warn => after_ver (fnd1 ++ [(KVersion, [])])
          | Fail => UNone (KVersion, []) fnd1
          | Ignore => after_ver fnd1
          end
        else after_ver fnd1 in
      if badcr then
        match o_syntax o with
        | Warn => after_cr (fnd ++ [(KSyntax, [])])
        | Fail => UNone (KSyntax, []) fnd
        | Ignore => after_cr fnd
        end
      else after_cr fnd
  end.

(** Unmarshal on a plain (uncompressed) stream: (offset, result) *)
Definition unmarshal_plain (o : opts) (s : stream) : nat * uresult :=
  let '(f, off, s1) := find_start (S (length (sdata s))) (o_syntax o) s 0 in
  let fnd0 := if policy_gt_ignore (o_syntax o) && negb (off =? 0)%nat then [(KOffset, [])] else [] in
  match f with
  | FoundEnd TEOF => (off, UNone (KEOH, []) [])
  | FoundEnd TErr => (off, UNone (KRead, []) [])
  | FoundJunkFail => (off, UNone (KSyntax, []) [])
  | FoundGzip => (off, UNone (KOther, []) fnd0)          (* not part of the plain model *)
  | FoundWarc => (off, parse_record o s1 fnd0)
  end.

(** Unmarshal on a per-record-gzip stream.  The compressed bytes are not modelled: a stream is
    a list of items, junk bytes (containing neither "WARC/" nor the gzip magic) and members
    given by what their payload decompresses to ([complete] = the member, including its
    checksum trailer, is whole; otherwise the payload is the decodable prefix of a cut member
    and reading past it yields io.ErrUnexpectedEOF).  [csize]: compressed size, for offsets. *)
Inductive gitem :=
| GJunk (b : bytes)
| GMember (payload : bytes) (complete : bool) (csize : nat)
| GBadMember (csize : nat).          (* cut inside the 10-byte gzip header: NewReader fails *)

Definition gz_size (i : gitem) : nat :=
  match i with GJunk b => length b | GMember _ _ c => c | GBadMember c => c end.

(* (offset of the record relative to the start, result, bytes consumed, remaining items) *)
Definition unmarshal_gz (o : opts) (items : list gitem) : nat * uresult * nat * list gitem :=
  let member (off : nat) (rest : list gitem) (payload : bytes) (complete : bool) (csize : nat) :=
    let fnd0 := if policy_gt_ignore (o_syntax o) && negb (off =? 0)%nat then [(KOffset, [])] else [] in
    let inner := mkst payload (if complete then TEOF else TErr) in
    let '(m5, e5) := peek 5 inner in
    let r :=
      match e5 with
      | Some TEOF =>
          (* io.ReadFull of the 5 magic bytes: io.EOF when the member is empty,
             io.ErrUnexpectedEOF when it ends after 1 to 4 bytes *)
          match m5 with [] => UNone (KEOH, []) fnd0 | _ => UNone (KRead, []) fnd0 end
      | Some TErr => UNone (KRead, []) fnd0
      | None =>
          if bytes_eqb m5 s_WARC then
            match parse_record o inner fnd0 with
            | URec rc None fnd s' => if complete then URec rc None fnd s' else URec rc (Some (KRead, [])) fnd s'
            | other => other
            end
          else UNone (KSyntax, []) fnd0
      end in
    (off, r, (off + csize)%nat, rest) in
  match items with
  | [] => (0%nat, UNone (KEOH, []) [], 0%nat, [])
  | GMember payload complete csize :: rest => member 0%nat rest payload complete csize
  | GBadMember csize :: rest => (0%nat, UNone (KRead, []) [], csize, rest)
  | GJunk j :: rest =>
      match o_syntax o, rest with
      | Fail, [] => if (length j <? 5)%nat then (0%nat, UNone (KEOH, []) [], length j, [])
                    else (0%nat, UNone (KSyntax, []) [], 0%nat, rest)
      | _, [] => ((length j - 4)%nat, UNone (KEOH, []) [], length j, [])
      | Fail, _ => (0%nat, UNone (KSyntax, []) [], 0%nat, rest)
      | _, GMember payload complete csize :: rest' => member (length j) rest' payload complete csize
      | _, GBadMember csize :: rest' =>
          (length j, UNone (KRead, []) (if policy_gt_ignore (o_syntax o) then [(KOffset, [])] else []),
           (length j + csize)%nat, rest')
      | _, GJunk _ :: _ => (0%nat, UNone (KOther, []) [], 0%nat, rest)   (* not generated *)
      end
  end.

(** WarcFileReader.Next repeated until the first error: (absolute offset, result) per call *)
Definition is_clean (u : uresult) : bool := match u with URec _ None _ _ => true | _ => false end.

Fixpoint read_all_plain (fuel : nat) (o : opts) (s : stream) (base : nat) : list (nat * uresult) :=
  match fuel with
  | O => []
  | S f =>
      let '(off, u) := unmarshal_plain o s in
      match u with
      | URec _ None _ s' =>
          (base + off, u)%nat :: read_all_plain f o s' (base + (length (sdata s) - length (sdata s')))%nat
      | _ => [((base + off)%nat, u)]
      end
  end.

Fixpoint read_all_gz (fuel : nat) (o : opts) (items : list gitem) (base : nat) : list (nat * uresult) :=
  match fuel with
  | O => []
  | S f =>
      let '(off, u, used, rest) := unmarshal_gz o items in
      match u with
      | URec _ None _ _ => ((base + off)%nat, u) :: read_all_gz f o rest (base + used)%nat
      | _ => [((base + off)%nat, u)]
      end
  end.

End Record.
