(** HeaderParse.v — warcfieldsParser (warcfieldsparser.go): readLine, parseLine, Parse, and the
    serializer WarcFields.Write; property C19 (header text is a fixpoint after one parse). *)
Require Import Model.Bytes Model.FieldDef Model.Fields Model.Policy Model.Spill Model.Stream.
Local Open Scope N_scope.

Section HeaderParse.
Variable tbl : list fielddef.
Variable uni_lower : bytes -> bytes.
(* mime.WordDecoder.DecodeHeader on a line that contains "=?" (None = error); lines without
   "=?" are returned unchanged by Go's fast path, which is modelled *)
Variable mime_dec : bytes -> option bytes.

Definition enc_marker : bytes := [61; 63].   (* "=?" *)
Definition decode_header (line : bytes) : option bytes :=
  if contains enc_marker line then mime_dec line else Some line.

Inductive rl_err := RLNone | RLEOH | RLRead | RLSyntax.

(** readLine: (trimmed line, next character or 0, error, rest of the stream) *)
Definition read_line (p : policy) (s : stream) : bytes * byte * rl_err * stream :=
  let '(raw, e, s1) := read_bytes LF s in
  match e with
  | Some TEOF => (trim is_sphtcrlf raw, 0, RLEOH, s1)
  | Some TErr => (trim is_sphtcrlf raw, 0, RLRead, s1)
  | None =>
      let badcr := policy_gt_ignore p &&
                   ((length raw <? 2)%nat || negb (nth (length raw - 2) raw 0 =? CR)) in
      match p, badcr with
      | Fail, true => (trim is_sphtcrlf raw, 0, RLSyntax, s1)
      | _, _ =>
          let nc := match sdata s1 with c :: _ => c | [] => 0 end in
          (trim is_sphtcrlf raw, nc, if badcr then RLSyntax else RLNone, s1)
      end
  end.

(** parseLine *)
Definition parse_line (line : bytes) (fs : fields) : option fields :=
  let line := trim_right is_sphtcrlf line in
  match decode_header line with
  | None => None
  | Some l =>
      match index_byte COLON l with
      | None => None
      | Some i => Some (m_add tbl uni_lower (trim is_sphtcrlf (firstn i l)) (trim is_sphtcrlf (skipn (S i) l)) fs)
      end
  end.

Definition syn : finding := (KSyntax, []).

(** the continuation loop of Parse ("for nc == sp || nc == ht") *)
Fixpoint cont_loop (fuel : nat) (p : policy) (line : bytes) (nc : byte) (s : stream) (fnd : list finding)
  : res (bytes * byte * stream) :=
  if (nc =? SP) || (nc =? HT) then
    match fuel with
    | O => Err (KFuel, []) fnd
    | S f =>
        let '(l, nc', e, s') := read_line p s in
        let go fnd' := cont_loop f p (line ++ [SP] ++ l) nc' s' fnd' in
        match e with
        | RLNone => go fnd
        | _ =>
            match l with
            | [] => Err (match e with RLEOH => KEOH | RLRead => KRead | _ => KSyntax end, []) fnd
            | _ => match e with
                   | RLRead => Err (KRead, []) fnd
                   | _ => site p syn fnd go
                   end
            end
        end
    end
  else Ok (line, nc, s) fnd.

(** Parse *)
Fixpoint parse_loop (fuel : nat) (p : policy) (fs : fields) (s : stream) (fnd : list finding)
  : res (fields * stream) :=
  match fuel with
  | O => Err (KFuel, []) fnd
  | S f =>
      let '(line, nc, e, s1) := read_line p s in
      (* what follows once the first physical line of a field has been accepted *)
      let after (eoh : bool) (fnd1 : list finding) : res (fields * stream) :=
        match cont_loop f p line nc s1 fnd1 with
        | Err k fnd2 => Err k fnd2
        | Ok (line2, nc2, s2) fnd2 =>
            let finish (fs' : fields) (fnd3 : list finding) : res (fields * stream) :=
              if eoh then Ok (fs', s2) fnd3
              else if nc2 =? CR then
                let '(l, e2, s3) := read_bytes LF s2 in
                match e2 with
                | None => if (length l =? 2)%nat then Ok (fs', s3) fnd3 else Err (KMarker, []) fnd3
                | Some _ => Err (KMarker, []) fnd3
                end
              else if nc2 =? LF then
                let '(l, e2, s3) := read_bytes LF s2 in
                match e2 with
                | None => if (2 <? length l)%nat then Err (KMarker, []) fnd3 else Ok (fs', s3) fnd3
                | Some _ => Err (KMarker, []) fnd3
                end
              else parse_loop f p fs' s2 fnd3 in
            match parse_line line2 fs with
            | Some fs' => finish fs' fnd2
            | None => site p syn fnd2 (finish fs)
            end
        end in
      match e with
      | RLNone => after false fnd
      | RLEOH => match line with
                 | [] => Ok (fs, s1) fnd
                 | _ => site p syn fnd (after true)
                 end
      | RLRead => Err (KRead, []) fnd
      | RLSyntax => site p syn fnd (after false)
      end
  end.

Definition parse_fields (p : policy) (s : stream) (fnd : list finding) : res (fields * stream) :=
  parse_loop (S (S (length (sdata s)))) p [] s fnd.

(** WarcFields.Write followed by the blank line the marshaler adds *)
Definition serialize (fs : fields) : bytes := m_write fs ++ CRLF.

End HeaderParse.
