(** Policy.v — error policies and the result type of validating functions. *)
Require Import Model.Bytes.

Inductive policy := Ignore | Warn | Fail.
Definition policy_gt_ignore (p : policy) : bool := match p with Ignore => false | _ => true end.

(* coarse kind of a validation finding / error *)
Inductive fkind :=
| KMissingType | KUnknownType | KIllegal | KValue | KDup | KMissingReq | KMissingCT | KConcurrent
| KSyntax | KLength | KDigest | KTrailer | KBlock | KVersion | KOffset
| KEOH | KMarker | KRead | KFuel | KOther.
Definition finding := (fkind * bytes)%type.

Inductive res (A : Type) :=
| Ok (a : A) (fs : list finding)      (* value and the findings accumulated so far *)
| Err (e : finding) (fs : list finding).
Arguments Ok {A}. Arguments Err {A}.

(* one check site: the switch on the policy that follows every detected defect *)
Definition site {A} (p : policy) (e : finding) (fs : list finding) (k : list finding -> res A) : res A :=
  match p with
  | Ignore => k fs
  | Warn => k (fs ++ [e])
  | Fail => Err e fs
  end.

Definition findings_of {A} (r : res A) : list finding :=
  match r with Ok _ fs => fs | Err _ fs => fs end.
Definition is_ok {A} (r : res A) : bool := match r with Ok _ _ => true | Err _ _ => false end.
