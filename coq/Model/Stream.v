(** Stream.v — what the parser sees of a *bufio.Reader: the bytes still to come and the condition
    that follows them (io.EOF, or a read error such as io.ErrUnexpectedEOF from a cut gzip member).
    The condition is persistent: once the data is exhausted every read reports it.
    bufio's internal chunking is not observable through Peek / ReadBytes / ReadFull / Discard. *)
Require Import Model.Bytes Model.Spill.
Local Open Scope N_scope.

Inductive tailk := TEOF | TErr.
Record stream := mkst { sdata : bytes; stail : tailk }.

(* ReadBytes(delim): the line through the delimiter, or everything left plus the tail condition *)
Definition read_bytes (d : byte) (s : stream) : bytes * option tailk * stream :=
  match take_through d (sdata s) with
  | Some l => (l, None, mkst (skipn (length l) (sdata s)) (stail s))
  | None => (sdata s, Some (stail s), mkst [] (stail s))
  end.

(* Peek(n): n bytes, or fewer plus the tail condition *)
Definition peek (n : nat) (s : stream) : bytes * option tailk :=
  let p := firstn n (sdata s) in
  (p, if (length p <? n)%nat then Some (stail s) else None).

Definition discard (n : nat) (s : stream) : stream := mkst (skipn n (sdata s)) (stail s).
