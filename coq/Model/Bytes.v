(** Bytes.v — byte strings and the small text functions of Go's standard
    library that gowarc's logic uses (ASCII case mapping, bytes.Trim,
    strconv.Itoa / ParseInt base 10, lexicographic comparison). *)
From Coq Require Export List NArith ZArith Bool.
From Coq Require Import String Ascii.
Export ListNotations.
Open Scope N_scope.

Definition byte := N.
Definition bytes := list byte.

Definition bytes_of_string (s : string) : bytes :=
  List.map (fun a => N_of_ascii a) (list_ascii_of_string s).
Definition bs := bytes_of_string.

Fixpoint bytes_eqb (a b : bytes) : bool :=
  match a, b with
  | [], [] => true
  | x :: a', y :: b' => (x =? y) && bytes_eqb a' b'
  | _, _ => false
  end.

(* strict lexicographic byte order: Go's string "<" *)
Fixpoint bytes_ltb (a b : bytes) : bool :=
  match a, b with
  | _, [] => false
  | [], _ :: _ => true
  | x :: a', y :: b' => if x <? y then true else if y <? x then false else bytes_ltb a' b'
  end.

Definition is_upper (c : byte) : bool := (65 <=? c) && (c <=? 90).
Definition is_lower (c : byte) : bool := (97 <=? c) && (c <=? 122).
Definition is_digit (c : byte) : bool := (48 <=? c) && (c <=? 57).
Definition lower_byte (c : byte) : byte := if is_upper c then c + 32 else c.
Definition upper_byte (c : byte) : byte := if is_lower c then c - 32 else c.
Definition ascii_lower (s : bytes) : bytes := map lower_byte s.
Definition ascii_upper (s : bytes) : bytes := map upper_byte s.
Definition is_ascii (c : byte) : bool := c <? 128.
Definition all_ascii (s : bytes) : bool := forallb is_ascii s.

(* bytes.Trim / TrimLeft / TrimRight with a cut-set predicate *)
Fixpoint trim_left (cut : byte -> bool) (s : bytes) : bytes :=
  match s with
  | c :: t => if cut c then trim_left cut t else s
  | [] => []
  end.
Definition trim_right (cut : byte -> bool) (s : bytes) : bytes :=
  rev (trim_left cut (rev s)).
Definition trim (cut : byte -> bool) (s : bytes) : bytes :=
  trim_right cut (trim_left cut s).

(* " \t\r\n" *)
Definition is_sphtcrlf (c : byte) : bool :=
  (c =? 32) || (c =? 9) || (c =? 13) || (c =? 10).
Definition is_angle (c : byte) : bool := (c =? 60) || (c =? 62).

Definition CR : byte := 13.
Definition LF : byte := 10.
Definition SP : byte := 32.
Definition HT : byte := 9.
Definition COLON : byte := 58.
Definition CRLF : bytes := [13; 10].

Fixpoint has_prefix (p s : bytes) : bool :=
  match p, s with
  | [], _ => true
  | x :: p', y :: s' => (x =? y) && has_prefix p' s'
  | _ :: _, [] => false
  end.
Definition has_suffix (p s : bytes) : bool := has_prefix (rev p) (rev s).

(* does s contain sub as a contiguous substring *)
Fixpoint contains (sub s : bytes) : bool :=
  has_prefix sub s || match s with [] => false | _ :: t => contains sub t end.

(* index of the first occurrence of byte c *)
Fixpoint index_byte (c : byte) (s : bytes) : option nat :=
  match s with
  | [] => None
  | x :: t => if x =? c then Some 0%nat
              else match index_byte c t with Some i => Some (S i) | None => None end
  end.

(** decimal *)
Fixpoint digits_of_pos_fuel (fuel : nat) (n : N) (acc : bytes) : bytes :=
  match fuel with
  | O => acc
  | S f => let acc' := (48 + n mod 10) :: acc in
           if n / 10 =? 0 then acc' else digits_of_pos_fuel f (n / 10) acc'
  end.
Definition utoa (n : N) : bytes := digits_of_pos_fuel (S (N.to_nat (N.log2 n))) n [].
(* strconv.Itoa / FormatInt base 10 *)
Definition itoa (z : Z) : bytes :=
  match z with
  | Z0 => [48]
  | Zpos p => utoa (Npos p)
  | Zneg p => 45 :: utoa (Npos p)
  end.

Fixpoint parse_digits (s : bytes) (acc : N) : option N :=
  match s with
  | [] => Some acc
  | c :: t => if is_digit c then parse_digits t (acc * 10 + (c - 48)) else None
  end.
(* digits only, at least one: strconv.ParseUint(s,10,_) without the range check *)
Definition parse_udec (s : bytes) : option N :=
  match s with [] => None | _ => parse_digits s 0 end.

Definition int64_min : Z := (- 9223372036854775808)%Z.
Definition int64_max : Z := 9223372036854775807%Z.
Definition in_int64 (z : Z) : bool := (int64_min <=? z)%Z && (z <=? int64_max)%Z.
(* int64 arithmetic wraps around *)
Definition wrap64 (z : Z) : Z := ((z + 9223372036854775808) mod 18446744073709551616 - 9223372036854775808)%Z.

(* strconv.ParseInt(s, 10, 64) == strconv.Atoi on 64-bit: optional sign, then
   decimal digits (no underscores in base 10), range-checked *)
Definition split_sign (s : bytes) : bool * bytes :=
  match s with
  | c :: t => if c =? 43 then (false, t) else if c =? 45 then (true, t) else (false, s)
  | [] => (false, s)
  end.
Definition atoi (s : bytes) : option Z :=
  let '(neg, body) := split_sign s in
  match parse_udec body with
  | None => None
  | Some n => let z := if neg then (- Z.of_N n)%Z else Z.of_N n in
              if in_int64 z then Some z else None
  end.

(* the VALUE strconv.ParseInt(s,10,64) returns when its error is ignored: 0 on a syntax error,
   the nearest int64 on a range error *)
Definition atoi_value (s : bytes) : Z :=
  let '(neg, body) := split_sign s in
  match parse_udec body with
  | None => 0%Z
  | Some n => let z := if neg then (- Z.of_N n)%Z else Z.of_N n in
              if (z <? int64_min)%Z then int64_min else if (int64_max <? z)%Z then int64_max else z
  end.

(* for the driver: unbounded signed decimal *)
Definition z_of_dec (s : bytes) : Z :=
  match s with
  | 45 :: t => match parse_digits t 0 with Some n => (- Z.of_N n)%Z | None => 0%Z end
  | _ => match parse_digits s 0 with Some n => Z.of_N n | None => 0%Z end
  end.
