(** Writer.v — singleWarcFileWriter (warcfile.go): Write, createFile, createWarcInfoRecord,
    writeRecord, close/Rotate, over an abstract file system (a file is the list of the records
    appended to it, each a gzip member when compression is on).  Properties C04, C13 and, through
    the effect trace, C12. *)
Require Import Model.Bytes Model.FieldDef Model.Fields Model.Validate Model.Record.
Local Open Scope Z_scope.

Record wconf := mkconf {
  c_max : Z;                 (* maxFileSize; <= 0: unlimited *)
  c_compress : bool;
  c_warcinfo : bool;         (* a warcinfo generator is configured *)
  c_flush : bool
}.

Record wfile := mkfile {
  f_name : bytes;            (* final name (the open suffix is not part of it) *)
  f_entries : list bytes;    (* the records appended so far, as serialized (uncompressed) bytes *)
  f_open : bool              (* still under its in-progress name *)
}.

(* file-system effects, in the order they happen (C12) *)
Inductive effect :=
| ECreate (name : bytes)                 (* O_CREATE|O_EXCL of name + open suffix *)
| EAppend (name : bytes) (rec : bytes)   (* one whole record (one gzip member) appended *)
| ESync (name : bytes)
| EClose (name : bytes)
| ERename (name : bytes)                 (* name + open suffix -> name *)
| ECallback (name : bytes) (size : Z) (info : bytes).

Record wstate := mkw {
  w_cur : option bytes;      (* currentFile / currentFileName *)
  w_size : Z;                (* currentFileSize *)
  w_info : bytes;            (* currentWarcInfoId *)
  w_serial : nat;            (* how many names were generated *)
  w_files : list wfile;
  w_effects : list effect    (* newest last *)
}.

Record response := mkresp { rs_name : bytes; rs_off : Z; rs_n : Z; rs_err : bool }.

Definition n_warcinfo_id : bytes := [87;65;82;67;45;87;97;114;99;105;110;102;111;45;73;68]%N.

Section Writer.
Variable tbl : list fielddef.
Variable uni_lower : bytes -> bytes.
Variable conf : wconf.
Variable name_of : nat -> bytes.      (* n-th name the generator hands out, compression suffix included *)
Variable scale : Z -> Z.              (* int64(float64(size) * expectedCompressionRatio) *)
Variable zsize : bytes -> Z.          (* size of the gzip member written for these bytes *)
Variable info_rec : bytes -> record.  (* the warcinfo record built for a file name *)

Definition esize (e : bytes) : Z := if c_compress conf then zsize e else Z.of_nat (length e).
Definition fsize (f : wfile) : Z := fold_right (fun e acc => esize e + acc) 0 (f_entries f).

Definition find_file (n : bytes) (fs : list wfile) : option wfile :=
  find (fun f => bytes_eqb (f_name f) n) fs.
Fixpoint append_to (n : bytes) (e : bytes) (fs : list wfile) : list wfile :=
  match fs with
  | [] => []
  | f :: t => if bytes_eqb (f_name f) n then mkfile (f_name f) (f_entries f ++ [e]) (f_open f) :: t
              else f :: append_to n e t
  end.
Fixpoint finalize (n : bytes) (fs : list wfile) : list wfile :=
  match fs with
  | [] => []
  | f :: t => if bytes_eqb (f_name f) n then mkfile (f_name f) (f_entries f) false :: t
              else f :: finalize n t
  end.

(* writeRecord: stamp the record with the current warcinfo id, marshal, append *)
Definition stamp (info : bytes) (r : record) : record :=
  match info with
  | [] => r
  | _ => match id_value info with
         | Some v => mkrec (r_vtxt r) (r_vid r) (r_type r) (m_set tbl uni_lower n_warcinfo_id v (r_fields r)) (r_block r)
         | None => r
         end
  end.

(* close: close, rename, callback *)
Definition w_close (st : wstate) : wstate :=
  match w_cur st with
  | None => st
  | Some n =>
      mkw None (w_size st) (w_info st) (w_serial st) (finalize n (w_files st))
          (w_effects st ++ [EClose n; ERename n; ECallback n (w_size st) (w_info st)])
  end.

Definition sync_eff (n : bytes) : list effect := if c_flush conf then [ESync n] else [].

(* createFile (+ createWarcInfoRecord); None: the name is already taken (O_EXCL fails) *)
Definition w_create (st : wstate) : option wstate :=
  let n := name_of (w_serial st) in
  match find_file n (w_files st) with
  | Some _ => None
  | None =>
      let files := w_files st ++ [mkfile n [] true] in
      let eff := w_effects st ++ [ECreate n] in
      if c_warcinfo conf then
        let ir := info_rec n in
        let bytes := marshal ir in
        Some (mkw (Some n) (esize bytes) (trim is_angle (m_get tbl uni_lower n_record_id (r_fields ir)))
                  (S (w_serial st)) (append_to n bytes files) (eff ++ [EAppend n bytes] ++ sync_eff n))
      else Some (mkw (Some n) 0 (w_info st) (S (w_serial st)) files eff)
  end.

(** singleWarcFileWriter.Write: new state, response, and the record as the caller sees it afterwards *)
Definition w_write (st : wstate) (r : record) : wstate * response * record :=
  let fail st' := (st', mkresp [] 0 0 true, r) in
  (* does the record fit the current file? *)
  let st1 :=
    match w_cur st with
    | Some _ =>
        if 0 <? c_max conf then
          match m_get tbl uni_lower n_content_length (r_fields r) with
          | [] => Some st
          | s => match atoi s with
                 | None => None
                 | Some size =>
                     let size' := if c_compress conf then scale size else size in
                     if (0 <? w_size st) && (c_max conf <? w_size st + size') then Some (w_close st) else Some st
                 end
          end
        else Some st
    | None => Some st
    end in
  match st1 with
  | None => fail st
  | Some st1 =>
      let st2 := match w_cur st1 with Some _ => Some st1 | None => w_create st1 end in
      match st2 with
      | None => fail st1
      | Some st2 =>
          match w_cur st2 with
          | None => fail st2
          | Some n =>
              let r' := stamp (w_info st2) r in
              let bytes := marshal r' in
              (mkw (Some n) (w_size st2 + esize bytes) (w_info st2) (w_serial st2) (append_to n bytes (w_files st2))
                   (w_effects st2 ++ [EAppend n bytes] ++ sync_eff n),
               mkresp n (w_size st2) (Z.of_nat (length bytes)) false, r')
          end
      end
  end.

(** operations on a writer with one worker *)
Inductive wop := WWrite (idxs : list nat) | WRotate.

(* the records the client holds (their headers change when they are written) *)
Fixpoint set_nth {A} (i : nat) (x : A) (l : list A) : list A :=
  match l, i with
  | [], _ => []
  | _ :: t, O => x :: t
  | a :: t, S j => a :: set_nth j x t
  end.

Fixpoint write_batch (st : wstate) (recs : list record) (idxs : list nat) : wstate * list record * list response :=
  match idxs with
  | [] => (st, recs, [])
  | i :: t =>
      match nth_error recs i with
      | None => write_batch st recs t
      | Some r =>
          let '(st', resp, r') := w_write st r in
          let '(st'', recs', resps) := write_batch st' (set_nth i r' recs) t in
          (st'', recs', resp :: resps)
      end
  end.

Definition w_step (st : wstate) (recs : list record) (o : wop) : wstate * list record * list response :=
  match o with
  | WWrite idxs => write_batch st recs idxs
  | WRotate => (w_close st, recs, [])
  end.

Fixpoint w_run (st : wstate) (recs : list record) (ops : list wop) : wstate * list (list response) :=
  match ops with
  | [] => (st, [])
  | o :: t => let '(st', recs', resps) := w_step st recs o in
              let '(stf, all) := w_run st' recs' t in (stf, resps :: all)
  end.

Definition w_init : wstate := mkw None 0 [] 0 [] [].

End Writer.
