(** FieldDef.v — the shape of gowarc's header field table (headerfielddef.go).
    The table itself is regenerated from /repo on every run into Gen/FieldTable.v. *)
Require Import Model.Bytes.

Inductive vkind :=
  PUnknown | PString | PURI | PIp | PTime | PWarcType | PWarcId | PInt | PLong
| PDigest | PTruncReason.

Definition vkind_eqb (a b : vkind) : bool :=
  match a, b with
  | PUnknown, PUnknown | PString, PString | PURI, PURI | PIp, PIp | PTime, PTime
  | PWarcType, PWarcType | PWarcId, PWarcId | PInt, PInt | PLong, PLong
  | PDigest, PDigest | PTruncReason, PTruncReason => true
  | _, _ => false
  end.

Record fielddef := mkdef {
  fd_name : bytes;      (* canonical spelling *)
  fd_kind : vkind;      (* which p* validation function *)
  fd_rep  : bool;       (* repeatable *)
  fd_rec  : N;          (* bit set of record types the field is allowed in *)
  fd_spec : N           (* bit set of WARC versions that define the field *)
}.

(* record type bits (record.go) *)
Definition RT_Warcinfo : N := 1.   Definition RT_Response : N := 2.
Definition RT_Resource : N := 4.   Definition RT_Request : N := 8.
Definition RT_Metadata : N := 16.  Definition RT_Revisit : N := 32.
Definition RT_Conversion : N := 64. Definition RT_Continuation : N := 128.
