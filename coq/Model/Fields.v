(** Fields.v — WarcFields (warcfields.go) and normalizeName (headerfielddef.go)
    as executable functions, and the reference ordered multimap they are
    supposed to implement (property C18). *)
Require Import Model.Bytes Model.FieldDef.
Open Scope N_scope.

Section Fields.
(* the header field table (headerfielddef.go: fieldDefs), regenerated from /repo into Gen/FieldTable.v *)
Variable tbl : list fielddef.
(* strings.ToLower on input that is not pure ASCII (Unicode case folding and
   replacement of invalid UTF-8) is an oracle; the ASCII case is modelled. *)
Variable uni_lower : bytes -> bytes.

Definition lower (s : bytes) : bytes := if all_ascii s then ascii_lower s else uni_lower s.

(* lcHdrNameToDef: a Go map filled in table order, so the last row wins *)
Definition lookup_def (lc : bytes) : option fielddef :=
  find (fun d => bytes_eqb (ascii_lower (fd_name d)) lc) (rev tbl).

(* RFC 7230 tchar, textproto.validHeaderFieldByte *)
Definition is_tchar (c : byte) : bool :=
  is_digit c || is_lower c || is_upper c ||
  existsb (N.eqb c) [33; 35; 36; 37; 38; 39; 42; 43; 45; 46; 94; 95; 96; 124; 126].

Definition cstep (upper : bool) (c : byte) : byte :=
  if upper && is_lower c then c - 32
  else if negb upper && is_upper c then c + 32 else c.
Fixpoint canon_loop (upper : bool) (s : bytes) : bytes :=
  match s with
  | [] => []
  | c :: t => let c' := cstep upper c in c' :: canon_loop (c' =? 45) t
  end.
(* textproto.CanonicalMIMEHeaderKey: names with a byte outside tchar are returned unchanged *)
Definition canonical_mime (s : bytes) : bytes :=
  if forallb is_tchar s then canon_loop true s else s.

Definition normalize_def (name : bytes) : bytes * option fielddef :=
  match lookup_def (lower name) with
  | Some d => (fd_name d, Some d)
  | None => (canonical_mime name, lookup_def [])
  end.
Definition normalize_name (name : bytes) : bytes := fst (normalize_def name).

Definition field := (bytes * bytes)%type.
Definition fields := list field.

Inductive fop :=
| FAdd (n v : bytes) | FAddInt (n : bytes) (z : Z) | FAddId (n v : bytes)
| FAddTime (n s : bytes)   (* s: the RFC3339 text time.Format produced *)
| FSet (n v : bytes) | FSetInt (n : bytes) (z : Z) | FSetId (n v : bytes) | FSetTime (n s : bytes)
| FDelete (n : bytes) | FSort
| FGet (n : bytes) | FGetAll (n : bytes) | FGetInt (n : bytes) | FGetId (n : bytes)
| FHas (n : bytes) | FWrite.

Inductive fobs :=
| ONone | OStr (s : bytes) | OList (l : list bytes) | OInt (r : option Z) | OBool (b : bool).

Definition name_is (k : bytes) (p : field) : bool := bytes_eqb (fst p) k.

(** * The model: the methods as written in warcfields.go *)

Definition m_get (n : bytes) (l : fields) : bytes :=
  let k := normalize_name n in
  match find (name_is k) l with Some p => snd p | None => [] end.

Fixpoint m_getall_loop (k : bytes) (l : fields) : list bytes :=
  match l with
  | [] => []
  | p :: t => if bytes_eqb (fst p) k then snd p :: m_getall_loop k t else m_getall_loop k t
  end.
Definition m_getall (n : bytes) (l : fields) : list bytes := m_getall_loop (normalize_name n) l.

Fixpoint m_has_loop (k : bytes) (l : fields) : bool :=
  match l with
  | [] => false
  | p :: t => if bytes_eqb (fst p) k then true else m_has_loop k t
  end.
Definition m_has (n : bytes) (l : fields) : bool := m_has_loop (normalize_name n) l.

Definition m_add (n v : bytes) (l : fields) : fields := l ++ [(normalize_name n, v)].

(* AddId/SetId: wrap in <> unless the value starts with '<' or ends with '>' *)
Definition id_value (v : bytes) : option bytes :=
  match v with
  | [] => None
  | c :: _ => if negb (c =? 60) && negb (last v 0 =? 62) then Some (60 :: v ++ [62]) else Some v
  end.

(* Set: one pass; the first field with the name gets the value, later ones are dropped *)
Fixpoint m_set_loop (k v : bytes) (is_set : bool) (l : fields) : fields * bool :=
  match l with
  | [] => ([], is_set)
  | p :: t =>
      if bytes_eqb (fst p) k then
        if is_set then m_set_loop k v true t
        else let '(r, s) := m_set_loop k v true t in ((fst p, v) :: r, s)
      else let '(r, s) := m_set_loop k v is_set t in (p :: r, s)
  end.
Definition m_set (n v : bytes) (l : fields) : fields :=
  let k := normalize_name n in
  let '(r, s) := m_set_loop k v false l in
  if s then r else r ++ [(k, v)].

Fixpoint m_delete_loop (k : bytes) (l : fields) : fields :=
  match l with
  | [] => []
  | p :: t => if negb (bytes_eqb (fst p) k) then p :: m_delete_loop k t else m_delete_loop k t
  end.
Definition m_delete (n : bytes) (l : fields) : fields := m_delete_loop (normalize_name n) l.

(* sort.SliceStable by Name: any stable sort; insertion sort is the reference *)
Fixpoint insert_stable (p : field) (l : fields) : fields :=
  match l with
  | [] => [p]
  | q :: t => if bytes_ltb (fst q) (fst p) then q :: insert_stable p t else p :: l
  end.
Definition m_sort (l : fields) : fields := fold_right insert_stable [] l.

Definition write_field (p : field) : bytes := fst p ++ [58; 32] ++ snd p ++ CRLF.
Definition m_write (l : fields) : bytes := flat_map write_field l.

Definition m_getint (n : bytes) (l : fields) : option Z :=
  if m_has n l then atoi (m_get n l) else None.

Definition fstep (l : fields) (o : fop) : fields * fobs :=
  match o with
  | FAdd n v => (m_add n v l, ONone)
  | FAddInt n z => (m_add n (itoa z) l, ONone)
  | FAddId n v => (match id_value v with Some v' => m_add n v' l | None => l end, ONone)
  | FAddTime n s => (m_add n s l, ONone)
  | FSet n v => (m_set n v l, ONone)
  | FSetInt n z => (m_set n (itoa z) l, ONone)
  | FSetId n v => (match id_value v with Some v' => m_set n v' l | None => l end, ONone)
  | FSetTime n s => (m_set n s l, ONone)
  | FDelete n => (m_delete n l, ONone)
  | FSort => (m_sort l, ONone)
  | FGet n => (l, OStr (m_get n l))
  | FGetAll n => (l, OList (m_getall n l))
  | FGetInt n => (l, OInt (m_getint n l))
  | FGetId n => (l, OStr (trim is_angle (m_get n l)))
  | FHas n => (l, OBool (m_has n l))
  | FWrite => (l, OStr (m_write l))
  end.

Fixpoint frun (l : fields) (ops : list fop) : list fobs * fields :=
  match ops with
  | [] => ([], l)
  | o :: t => let '(l', ob) := fstep l o in
              let '(obs, lf) := frun l' t in (ob :: obs, lf)
  end.

(** * The specification: a reference ordered multimap keyed by canonical name *)

Definition key := normalize_name.
Definition s_values (k : bytes) (l : fields) : list bytes := map snd (filter (name_is k) l).
Definition s_get (k : bytes) (l : fields) : bytes := hd [] (s_values k l).
Definition s_has (k : bytes) (l : fields) : bool := existsb (name_is k) l.
Definition s_add (k v : bytes) (l : fields) : fields := l ++ [(k, v)].
Definition s_delete (k : bytes) (l : fields) : fields := filter (fun p => negb (name_is k p)) l.
(* exactly one value, at the position of the first occurrence; appended if absent *)
Fixpoint s_set_first (k v : bytes) (l : fields) : option fields :=
  match l with
  | [] => None
  | p :: t => if name_is k p then Some ((k, v) :: s_delete k t)
              else match s_set_first k v t with Some r => Some (p :: r) | None => None end
  end.
Definition s_set (k v : bytes) (l : fields) : fields :=
  match s_set_first k v l with Some r => r | None => s_add k v l end.
Definition s_sort (l : fields) : fields := fold_right insert_stable [] l.
Definition s_write (l : fields) : bytes :=
  concat (map (fun p => fst p ++ [58; 32] ++ snd p ++ [13; 10]) l).

Definition sstep (l : fields) (o : fop) : fields * fobs :=
  match o with
  | FAdd n v => (s_add (key n) v l, ONone)
  | FAddInt n z => (s_add (key n) (itoa z) l, ONone)
  | FAddId n v => (match id_value v with Some v' => s_add (key n) v' l | None => l end, ONone)
  | FAddTime n s => (s_add (key n) s l, ONone)
  | FSet n v => (s_set (key n) v l, ONone)
  | FSetInt n z => (s_set (key n) (itoa z) l, ONone)
  | FSetId n v => (match id_value v with Some v' => s_set (key n) v' l | None => l end, ONone)
  | FSetTime n s => (s_set (key n) s l, ONone)
  | FDelete n => (s_delete (key n) l, ONone)
  | FSort => (s_sort l, ONone)
  | FGet n => (l, OStr (s_get (key n) l))
  | FGetAll n => (l, OList (s_values (key n) l))
  | FGetInt n => (l, OInt (if s_has (key n) l then atoi (s_get (key n) l) else None))
  | FGetId n => (l, OStr (trim is_angle (s_get (key n) l)))
  | FHas n => (l, OBool (s_has (key n) l))
  | FWrite => (l, OStr (s_write l))
  end.

Fixpoint srun (l : fields) (ops : list fop) : list fobs * fields :=
  match ops with
  | [] => ([], l)
  | o :: t => let '(l', ob) := sstep l o in
              let '(obs, lf) := srun l' t in (ob :: obs, lf)
  end.

End Fields.
