package main

// Domain "wcont" (C13, C04): the sequential file writer with a marshaler that hands back a
// continuation segment for every third record.  No model run (the writer model has no segmenting
// marshaler); the executable statements are about what the caller is told: the after-creation
// callback gets the final name and the true size, names carry the compression suffix exactly when
// compressed, and the record found at a reported file and offset is the record that was written.

import (
	"bufio"
	"bytes"
	"fmt"
	"math/rand"
	"os"
	"path/filepath"
	"strings"

	gowarc "github.com/nlnwa/gowarc/v2"
)

func init() { domains["wcont"] = &domain{gen: genWcont, run: runWcont} }

func genWcont(r *rand.Rand, n int, tier string, out *bufio.Writer) {
	for i := 0; i < n; i++ {
		nrec := 2 + r.Intn(6)
		base := pick(r, []int{0, 10, 100, 400})
		unit := int64(330 + base)
		max := pick(r, []int64{0, unit, 2 * unit, 3*unit + 50, 5 * unit, 1 << 30})
		var sb strings.Builder
		fmt.Fprintf(&sb, "wcont %d %d %d %d", r.Intn(2), max, r.Intn(2), nrec)
		for j := 0; j < nrec; j++ {
			fmt.Fprintf(&sb, " %s", hx(genData(r, base+r.Intn(40))))
		}
		fmt.Fprintln(out, sb.String())
	}
}

func runWcont(toks []string) (string, string) {
	t := &tokens{t: toks}
	compress, max, info, nrec := t.nextInt() == 1, t.nextInt64(), t.nextInt() == 1, t.nextInt()
	dir, err := os.MkdirTemp("", "verif-wcont-")
	if err != nil {
		panic(err)
	}
	defer os.RemoveAll(dir)
	tmp, out := filepath.Join(dir, "tmp"), filepath.Join(dir, "out")
	os.Mkdir(tmp, 0o755)
	os.Mkdir(out, 0o755)
	build := func(rt gowarc.RecordType, id string, body []byte, extra ...[2]string) gowarc.WarcRecord {
		rb := gowarc.NewRecordBuilder(rt, gowarc.WithBufferTmpDir(tmp), gowarc.WithRecordIdFunc(func() (string, error) { return id, nil }))
		rb.AddWarcHeader("WARC-Date", "2021-05-06T07:08:09Z")
		rb.AddWarcHeader("Content-Type", "application/octet-stream")
		for _, e := range extra {
			rb.AddWarcHeader(e[0], e[1])
		}
		rb.Write(body)
		rec, _, err := rb.Build()
		if err != nil {
			return nil
		}
		return rec
	}
	var recs, conts []gowarc.WarcRecord
	for i := 0; i < nrec; i++ {
		rec := build(gowarc.Resource, recID(i), t.nextHex(), [2]string{"WARC-Target-URI", "http://example.com/" + fmt.Sprint(i)})
		if rec == nil {
			return "BUILDERR", "OK"
		}
		defer rec.Close()
		recs = append(recs, rec)
	}
	for i := 0; i < nrec; i += 3 {
		c := build(gowarc.Continuation, fmt.Sprintf("urn:uuid:cccccccc-0000-0000-0000-%012d", i), []byte("continued"),
			[2]string{"WARC-Segment-Number", "2"}, [2]string{"WARC-Segment-Origin-ID", "<" + recID(i) + ">"})
		if c == nil {
			return "BUILDERR", "OK"
		}
		defer c.Close()
		conts = append(conts, c)
	}
	gowarc.VerifSetNow(fixedNow)
	var callbacks []cbEntry
	infoCount := 0
	sm := &splitMarshaler{inner: gowarc.NewMarshaler(), conts: conts, recs: recs}
	opts := []gowarc.WarcFileWriterOption{
		gowarc.WithMaxFileSize(max), gowarc.WithCompression(compress), gowarc.WithExpectedCompressionRatio(1),
		gowarc.WithFileNameGenerator(&gowarc.PatternNameGenerator{Directory: out, Prefix: "v", Pattern: "%{prefix}s-%04{serial}d.%{ext}s", Extension: "warc"}),
		gowarc.WithMaxConcurrentWriters(1),
		gowarc.WithMarshaler(sm),
		gowarc.WithAfterFileCreationHook(func(name string, size int64, infoId string) error {
			callbacks = append(callbacks, cbEntry{name, size, infoId})
			return nil
		}),
		gowarc.WithRecordOptions(gowarc.WithBufferTmpDir(tmp), gowarc.WithRecordIdFunc(func() (string, error) {
			infoCount++
			return infoID(infoCount), nil
		})),
	}
	if len(toks)%3 == 0 {
		opts = append(opts, gowarc.WithSegmentation()) // the marshaler is told how large a record may get
	}
	if info {
		opts = append(opts, gowarc.WithWarcInfoFunc(func(rb gowarc.WarcRecordBuilder) error {
			_, err := rb.WriteString("software: verif\r\n")
			return err
		}))
	}
	w := gowarc.NewWarcFileWriter(opts...)
	type ack struct {
		resp gowarc.WriteResponse
		id   string
	}
	var acks []ack
	// a record the writer cannot place (its declared length is no number): it fails, its neighbours do not
	var bad gowarc.WarcRecord
	if max > 0 && len(toks)%2 == 0 {
		rb := gowarc.NewRecordBuilder(gowarc.Resource, gowarc.WithNoValidation(), gowarc.WithAddMissingContentLength(false), gowarc.WithBufferTmpDir(tmp))
		rb.AddWarcHeader("WARC-Record-ID", "<urn:uuid:bbbbbbbb-0000-0000-0000-000000000000>")
		rb.AddWarcHeader("WARC-Date", "2021-05-06T07:08:09Z")
		rb.AddWarcHeader("Content-Type", "text/plain")
		rb.AddWarcHeader("Content-Length", "x1")
		rb.WriteString("b")
		bad, _, _ = rb.Build()
		if bad != nil {
			defer bad.Close()
		}
	}
	for i := 0; i < len(recs); i++ {
		batch := []gowarc.WarcRecord{recs[i]}
		if bad != nil && i+1 < len(recs) && i%2 == 0 {
			batch = []gowarc.WarcRecord{recs[i], bad, recs[i+1]}
			i++
		}
		resps := w.Write(batch...)
		if len(resps) != len(batch) {
			return "", fmt.Sprintf("FAIL:lost-or-duplicated+wrong-position:%d responses for a batch of %d", len(resps), len(batch))
		}
		for bi, rs := range resps {
			if rs.Err == nil {
				acks = append(acks, ack{rs, batch[bi].WarcHeader().Get("WARC-Record-ID")})
			} else if batch[bi] != bad {
				return "", "FAIL:lost-or-duplicated+wrong-position:a good record next to a failing one was not written: " + rs.Err.Error()
			}
		}
	}
	w.Close()
	ents, _ := os.ReadDir(out)
	files := map[string][]byte{}
	var obs []string
	for _, e := range ents {
		b, _ := os.ReadFile(filepath.Join(out, e.Name()))
		files[e.Name()] = b
		obs = append(obs, fmt.Sprintf("%s=%d", e.Name(), len(b)))
		if compress != strings.HasSuffix(e.Name(), ".gz") || strings.HasSuffix(e.Name(), ".open") {
			return strings.Join(obs, ","), "FAIL:bad-name:" + e.Name()
		}
		rd, err := gowarc.NewWarcFileReaderFromStream(bytes.NewReader(b), 0, gowarc.WithStrictValidation(), gowarc.WithBufferTmpDir(tmp))
		if err != nil {
			return strings.Join(obs, ","), "FAIL:unreadable-file:" + err.Error()
		}
		for {
			rec, _, v, err := rd.Next()
			if err != nil {
				if classify(err) != "eoh" {
					rd.Close()
					return strings.Join(obs, ","), "FAIL:unreadable-file:" + e.Name() + ": " + err.Error()
				}
				break
			}
			if !v.Valid() {
				rd.Close()
				return strings.Join(obs, ","), "FAIL:unreadable-file:" + e.Name() + " has findings " + kinds(v)
			}
			rec.Close()
		}
		rd.Close()
	}
	observation := strings.Join(obs, ",")
	if sm.warcinfoMax > 0 {
		// every file begins with exactly one, whole, warcinfo record: the writer never offers it for segmentation
		return observation, fmt.Sprintf("FAIL:warcinfo-rule:the warcinfo record was handed to the marshaler with a size limit of %d (it would be split)", sm.warcinfoMax)
	}
	if len(callbacks) != len(files) {
		return observation, fmt.Sprintf("FAIL:callback-args:%d callbacks for %d files", len(callbacks), len(files))
	}
	for _, c := range callbacks {
		b, ok := files[filepath.Base(c.name)]
		if !ok {
			return observation, "FAIL:callback-args:callback for " + c.name + " which is not a file in the end"
		}
		if int64(len(b)) != c.size {
			return observation, fmt.Sprintf("FAIL:callback-args:callback(%s, %d) but the file has %d bytes", filepath.Base(c.name), c.size, len(b))
		}
	}
	for _, a := range acks {
		if got := recordIDAt(files[a.resp.FileName], a.resp.FileOffset); got != a.id {
			return observation, fmt.Sprintf("FAIL:misplaced+wrong-position:the record acknowledged at %s@%d is %s there, %s was written", a.resp.FileName, a.resp.FileOffset, got, a.id)
		}
	}
	return observation, "OK"
}
