package main

// Domain "unm": sequential reading of plain and per-record-gzip streams with WarcFileReader
// (model tie for Unmarshal; C05 no panic / no hang / progress).

import (
	"bufio"
	"bytes"
	"fmt"
	"io"
	"math/rand"
	"os"
	"runtime"
	"strconv"
	"strings"

	gowarc "github.com/nlnwa/gowarc/v2"
)

func init() { domains["unm"] = &domain{gen: genUnm, run: runUnm} }

// serializeRecord writes a record by hand (independent of gowarc's marshaler).
func serializeRecord(version string, fields [][2]string, body []byte, le string) []byte {
	var b bytes.Buffer
	b.WriteString("WARC/" + version + le)
	for _, f := range fields {
		b.WriteString(f[0] + ": " + f[1] + le)
	}
	b.WriteString(le)
	b.Write(body)
	b.WriteString("\r\n\r\n")
	return b.Bytes()
}

// fullFields completes a generated record spec with the mandatory fields.
func fullFields(r *rand.Rand, g genRecord, declareDigest bool) [][2]string {
	return fullFieldsOdd(r, g, declareDigest, true)
}

// fullFieldsOdd: odd=false leaves out the unsupported digest spellings (for records that must be clean)
func fullFieldsOdd(r *rand.Rand, g genRecord, declareDigest bool, odd bool) [][2]string {
	f := [][2]string{{"WARC-Type", typeNames[g.rt]}, {"WARC-Record-ID", fmt.Sprintf("<urn:uuid:%08x-0000-0000-0000-000000000000>", r.Uint32())}}
	f = append(f, g.fields...)
	has := map[string]bool{}
	for _, x := range f {
		has[strings.ToLower(x[0])] = true
	}
	if !has["content-length"] {
		f = append(f, [2]string{"Content-Length", strconv.Itoa(len(g.body))})
	}
	if declareDigest && !has["warc-block-digest"] {
		f = append(f, [2]string{"WARC-Block-Digest", refDigest(pick(r, algs), 1+r.Intn(3), g.body)})
	}
	// declared digests in spellings the library does not support (unknown algorithm, no colon, empty)
	if odd && !has["warc-payload-digest"] && r.Intn(14) == 0 {
		f = append(f, [2]string{"WARC-Payload-Digest", pick(r, []string{"crc32:deadbeef", "sha3:00", "nocolon", "md5:", ":", "sha1:" + strings.Repeat("A", 56), "md5:" + strings.Repeat("ab", 40), "sha1:" + strings.Repeat("QUJD", 12)})})
	}
	if odd && !declareDigest && !has["warc-block-digest"] && r.Intn(20) == 0 {
		f = append(f, [2]string{"WARC-Block-Digest", pick(r, []string{"crc32:deadbeef", "whirlpool:00", "nocolon", "sha1:" + strings.Repeat("A", 48), "sha256:" + strings.Repeat("B", 104)})})
	}
	return f
}

// oddVersion: mostly 1.1 / 1.0, sometimes a version text the library does not know, in every shape
func oddVersion(r *rand.Rand) string {
	if r.Intn(15) == 0 {
		return pick(r, []string{"1", "1.", ".1", "2.0", "1.1.1", "", "x", "1.x", "0.18", "10", "1 .1", "-1.1", "1..1"})
	}
	return pick(r, []string{"1.1", "1.1", "1.0"})
}

func mutateStream(r *rand.Rand, b []byte) []byte {
	switch r.Intn(12) {
	case 0: // flip one byte
		if len(b) > 0 {
			i := r.Intn(len(b))
			c := byte(r.Intn(256))
			if c == 0x1f {
				c = 'x'
			}
			b[i] = c
		}
	case 1: // truncate
		b = b[:r.Intn(len(b)+1)]
	case 2: // drop the last trailer (or part of it)
		k := 1 + r.Intn(4)
		if len(b) >= k {
			b = b[:len(b)-k]
		}
	case 3: // junk in front
		b = append([]byte(pick(r, []string{"\n", "  ", "junk\r\n", "\r\n\r\n", "WARC", "ARC/1.1"})), b...)
	}
	return b
}

func genPlainStream(r *rand.Rand) []byte {
	var out []byte
	for i, k := 0, 1+r.Intn(3); i < k; i++ {
		g := genRecordSpec(r)
		fields := fullFields(r, g, r.Intn(3) == 0)
		if r.Intn(8) == 0 { // wrong declared length
			for j := range fields {
				if fields[j][0] == "Content-Length" {
					fields[j][1] = strconv.Itoa(len(g.body) + pick(r, []int{-3, -1, 1, 2, 7}))
					if strings.HasPrefix(fields[j][1], "-") && r.Intn(2) == 0 {
						fields[j][1] = "0"
					}
				}
			}
		}
		if r.Intn(25) == 0 { // hostile declared length, far beyond the data
			for j := range fields {
				if fields[j][0] == "Content-Length" {
					fields[j][1] = pick(r, []string{"9223372036854775807", "4611686018427387904", "268435456", "99999999999"})
				}
			}
		}
		if r.Intn(150) == 0 { // one field many times over: what is reported must stay proportional to the input
			k := pick(r, []int{300, 1200})
			for j := 0; j < k; j++ {
				fields = append(fields, [2]string{"Content-Type", "text/plain"})
			}
		}
		version := pick(r, []string{"1.1", "1.1", "1.0", "0.9", "1.1 ", "", oddVersion(r), oddVersion(r)})
		le := "\r\n"
		if r.Intn(10) == 0 {
			le = "\n"
		}
		rec := serializeRecord(version, fields, g.body, le)
		if i > 0 && r.Intn(6) == 0 {
			out = append(out, pick(r, []string{"\r\n", "xx", "\n\n\n"})...)
		}
		out = append(out, rec...)
	}
	return mutateStream(r, out)
}

func genUnm(r *rand.Rand, n int, tier string, out *bufio.Writer) {
	for i := 0; i < n; i++ {
		o := genOpts(r)
		if i%3 != 2 {
			data := genPlainStream(r)
			tail := 0
			if r.Intn(10) == 0 {
				tail = 1
			}
			fmt.Fprintf(out, "unm %s p %d %d %s\n", o, tail, pick(r, []int{0, 0, 1, 5, 100, -3, -100, -1000000}), hx(data))
			continue
		}
		// per-record gzip
		var sb strings.Builder
		k := 1 + r.Intn(3)
		nitems := 0
		for j := 0; j < k; j++ {
			if r.Intn(6) == 0 {
				fmt.Fprintf(&sb, " j %s", hxs(pick(r, []string{"xx", "\n", "junk!"})))
				nitems++
			}
			g := genRecordSpec(r)
			payload := serializeRecord(oddVersion(r), fullFields(r, g, r.Intn(3) == 0), g.body, "\r\n")
			if r.Intn(10) == 0 {
				payload = mutateStream(r, payload)
			}
			z := gzipMember(payload)
			if j == k-1 && r.Intn(3) == 0 { // the last member is cut
				cut := r.Intn(len(z))
				prefix, ok := decodablePrefix(z[:cut])
				if !ok {
					if cut < 5 {
						continue // fewer than 5 bytes: Peek fails, nothing to model
					}
					fmt.Fprintf(&sb, " x %d %d %s", cut, cut, hx(payload))
				} else {
					fmt.Fprintf(&sb, " m %s %d %s %d", hx(payload), cut, hx(prefix), cut)
				}
			} else {
				fmt.Fprintf(&sb, " m %s -1 h %d", hx(payload), len(z))
			}
			nitems++
		}
		fmt.Fprintf(out, "unm %s g %d%s\n", o, nitems, sb.String())
	}
}

type countingSrc struct {
	r io.Reader
}

func readStream(o ropts, data []byte, bad bool, chunk int) string {
	dir, err := os.MkdirTemp("", "verif-unm-")
	if err != nil {
		panic(err)
	}
	defer os.RemoveAll(dir)
	src := &tailReader{data: data, chunk: chunk, bad: bad}
	var obs []string
	wf, err := gowarc.NewWarcFileReaderFromStream(src, 0, o.options(dir, nil)...)
	if err != nil {
		return "OPENERR"
	}
	defer wf.Close()
	last := int64(-1)
	type keptV struct {
		v *gowarc.Validation
		k string
	}
	var kept []keptV
	for i := 0; i < 40; i++ {
		rec, off, v, err := wf.Next()
		kept = append(kept, keptV{v, kinds(v)})
		switch {
		case err == nil && rec != nil:
			shown := showRecord(rec, v)
			obs = append(obs, fmt.Sprintf("off=%d:rec;%s", off, shown))
			rec.Close()
			// C04: the reported offset is a position from which a fresh reader returns this record
			if !bad && off >= 0 && off <= int64(len(data)) {
				if wf2, err2 := gowarc.NewWarcFileReaderFromStream(bytes.NewReader(data), off, o.options(dir, nil)...); err2 == nil {
					rec2, off2, v2, err3 := wf2.Next()
					same := err3 == nil && rec2 != nil && off2 == off
					if same {
						// (findings about skipped junk belong to the first reader's position, not to the record)
						s2 := showRecord(rec2, v2)
						strip := func(x string) string { return strings.Replace(strings.Replace(x, ";f=off,", ";f=", 1), ";f=off;", ";f=;", 1) }
						same = strip(s2) == strip(shown)
					}
					if rec2 != nil {
						rec2.Close()
					}
					wf2.Close()
					if !same {
						obs = append(obs, fmt.Sprintf("REOPEN-MISMATCH@%d", off))
					}
				}
			}
		case rec != nil:
			obs = append(obs, fmt.Sprintf("off=%d:recerr:%s;f=%s", off, classify(err), kinds(v)))
			rec.Close()
		default:
			obs = append(obs, fmt.Sprintf("off=%d:none:%s;f=%s", off, classify(err), kinds(v)))
			// C04 / C06: the offset that comes with io.EOF never lies beyond the stream
			if !bad && classify(err) == "eoh" && off > int64(len(data)) {
				obs = append(obs, fmt.Sprintf("EOF-OFFSET@%d/%d", off, len(data)))
			}
		}
		if err != nil {
			break
		}
		if off < last {
			obs = append(obs, "NOPROGRESS")
			break
		}
		last = off
	}
	// C04: a reader opened at offset 0 on a seekable stream that was used before starts at the first byte
	if !bad && len(obs) > 0 && strings.Contains(obs[0], ":rec;") {
		shared := bytes.NewReader(data)
		first := func() string {
			r, err := gowarc.NewWarcFileReaderFromStream(shared, 0, o.options(dir, nil)...)
			if err != nil {
				return "openerr"
			}
			defer r.Close()
			rec, off, v, err := r.Next()
			if err != nil || rec == nil {
				return fmt.Sprintf("off=%d:none:%s", off, classify(err))
			}
			defer rec.Close()
			return fmt.Sprintf("off=%d:rec;%s", off, showRecord(rec, v))
		}
		if a, b := first(), first(); a != b {
			obs = append(obs, "REUSED-STREAM-MISMATCH")
		}
	}
	// the findings handed out with an earlier record are the caller's: later calls must not change them
	for i, kv := range kept {
		if kv.v != nil && kinds(kv.v) != kv.k {
			obs = append(obs, fmt.Sprintf("VALIDATION-MUTATED@%d", i))
		}
	}
	return strings.Join(obs, "|")
}

func runUnm(toks []string) (string, string) {
	t := &tokens{t: toks}
	o := readOpts(t)
	var data []byte
	bad, chunk := false, 0
	abnormal := false
	if t.next() == "p" {
		bad = t.nextInt() == 1
		abnormal = bad
		chunk = t.nextInt()
		data = t.nextHex()
	} else {
		n := t.nextInt()
		var items []gitem
		for i := 0; i < n; i++ {
			switch t.next() {
			case "j":
				items = append(items, gitem{kind: "j", data: t.nextHex()})
			case "m":
				p, cut := t.nextHex(), t.nextInt()
				t.next()
				t.next()
				items = append(items, gitem{kind: "m", data: p, cut: cut})
				if cut >= 0 {
					abnormal = true
				}
			case "x":
				cut := t.nextInt()
				t.next()
				items = append(items, gitem{kind: "m", data: t.nextHex(), cut: cut})
				abnormal = true
			}
		}
		data = materialize(items)
		if len(data)%3 == 1 {
			chunk = -4096 // the last bytes arrive together with io.EOF
		}
	}
	if tooManyHangs() {
		return "SKIPPED", "-"
	}
	var ms0, ms1 runtime.MemStats
	runtime.ReadMemStats(&ms0)
	done := make(chan string, 1)
	go func() {
		var obs string
		if p := catch(func() { obs = readStream(o, data, bad, chunk) }); p != "" {
			obs = "PANIC " + p
		} else if chunk != 0 && !bad {
			// C04/C05: records, offsets and findings do not depend on how the source delivers its
			// bytes (chunk sizes; last bytes together with io.EOF or followed by it)
			var plain string
			if p := catch(func() { plain = readStream(o, data, false, 0) }); p == "" && plain != obs {
				obs += "|DELIVERY:" + plain
			}
		}
		done <- obs
	}()
	select {
	case obs := <-done:
		runtime.ReadMemStats(&ms1)
		if alloc := ms1.TotalAlloc - ms0.TotalAlloc; alloc > 48<<20+uint64(200*len(data)) && !strings.HasPrefix(obs, "PANIC") {
			return obs, fmt.Sprintf("FAIL:memory:reading a %d byte stream allocated %d bytes", len(data), alloc)
		}
		if strings.HasPrefix(obs, "PANIC") {
			return "PANIC", "FAIL:panic:reader panicked: " + obs
		}
		if abnormal {
			// only the coarse outcome of the record that hits the read error is compared
			parts := strings.Split(obs, "|")
			last := parts[len(parts)-1]
			if !strings.Contains(last, ":rec;") {
				parts[len(parts)-1] = last[:strings.Index(last, ":")] + ":cut"
				obs = strings.Join(parts, "|")
			}
		}
		if i := strings.Index(obs, "|REOPEN-MISMATCH"); i >= 0 {
			return strings.Replace(obs, obs[i:i+strings.Index(obs[i+1:]+"|", "|")+1], "", 1), "FAIL:reopen-mismatch:a fresh reader opened at a reported offset does not return the record reported there: " + obs[i+1:i+40]
		}
		if i := strings.Index(obs, "|REUSED-STREAM-MISMATCH"); i >= 0 {
			return strings.Replace(obs, "|REUSED-STREAM-MISMATCH", "", 1), "FAIL:reopen-mismatch:a reader opened at offset 0 on a seekable stream that was read before does not start at the first byte"
		}
		if i := strings.Index(obs, "|VALIDATION-MUTATED"); i >= 0 {
			return obs[:i], "FAIL:delivery-dependent:the findings returned with an earlier record changed when a later record was read: " + obs[i+1:]
		}
		if i := strings.Index(obs, "|DELIVERY:"); i >= 0 {
			return obs[:i], "FAIL:delivery-dependent:reading the same bytes from a source that delivers them differently gives different results; from a plain reader: " + obs[i+10:]
		}
		if i := strings.Index(obs, "|EOF-OFFSET"); i >= 0 {
			return obs[:i], "FAIL:eof-offset:end of file is reported at an offset that is not the end of the stream: " + obs[i+1:]
		}
		if strings.Contains(obs, "NOPROGRESS") {
			return obs, "FAIL:no-progress:Next returned a record without consuming input"
		}
		return obs, "OK"
	case <-timeAfter(5):
		noteHang()
		return "TIMEOUT", "FAIL:hang:reading a finite stream until the first error did not terminate within 5s"
	}
}
