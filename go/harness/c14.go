package main

// Domain "spill" (property C14): operation histories on internal/diskbuffer.

import (
	"bufio"
	"errors"
	"fmt"
	"io"
	"math/rand"
	"os"
	"strings"

	"github.com/nlnwa/gowarc/v2/internal/diskbuffer"
)

func init() { domains["spill"] = &domain{gen: genSpill, run: runSpill} }

var errSource = errors.New("injected source error")

// chunkSource delivers data in chunks of at most c bytes; the final condition (io.EOF or
// errSource) comes together with the last data when ewd is set, otherwise on a further call.
type chunkSource struct {
	data []byte
	c    int
	ewd  bool
	serr bool
}

func (s *chunkSource) fin() error {
	if s.serr {
		return errSource
	}
	return io.EOF
}
func (s *chunkSource) Read(p []byte) (int, error) {
	if len(s.data) == 0 {
		return 0, s.fin()
	}
	n := len(p)
	if s.c > 0 && n > s.c {
		n = s.c
	}
	if n > len(s.data) {
		n = len(s.data)
	}
	copy(p, s.data[:n])
	s.data = s.data[n:]
	if len(s.data) == 0 && s.ewd {
		return n, s.fin()
	}
	return n, nil
}

var spillAlphabet = []byte("ab\n\n\r:x\x00")

func genData(r *rand.Rand, max int) []byte {
	n := r.Intn(max + 1)
	b := make([]byte, n)
	for i := range b {
		b[i] = spillAlphabet[r.Intn(len(spillAlphabet))]
	}
	return b
}

func genReadOp(r *rand.Rand, sb *strings.Builder, total int, inSlice bool) {
	switch x := r.Intn(100); {
	case x < 35:
		fmt.Fprintf(sb, " r %d", pick(r, []int{0, 1, 2, 3, 5, total, total + 1, r.Intn(total + 2), 150}))
	case x < 55:
		fmt.Fprintf(sb, " pk %d", pick(r, []int{0, 1, 2, 4, 5, total, total + 1, r.Intn(total + 2), 130}))
	case x < 70:
		fmt.Fprintf(sb, " rb %d", pick(r, []int{10, 10, 0, 'a', 'x', 'q'}))
	case x < 78:
		fmt.Fprintf(sb, " rs %d", pick(r, []int{10, 0, 'b'}))
	case x < 86:
		sb.WriteString(" sk")
	default:
		sb.WriteString(" sz")
	}
}

func genSpillCase(r *rand.Rand, big bool) string {
	var ops strings.Builder
	nops := 0
	total := 0
	nw := 1 + r.Intn(4)
	maxd := 12
	if big {
		maxd = 260 // line reads cross the 100-byte chunks of the file part
	}
	large := r.Intn(9) == 0 // the memory part has to grow (it starts at max(512, hint) bytes)
	if large {
		maxd = 1300
	}
	var datas [][]byte
	for i := 0; i < nw; i++ {
		datas = append(datas, genData(r, maxd))
		total += len(datas[i])
	}
	mmax := 1 + r.Intn(total+2)
	if r.Intn(8) == 0 {
		mmax = 4096
	}
	hint := pick(r, []int{0, 1, 64, mmax, mmax + 5, 100000})
	if large {
		mmax = pick(r, []int{1500, 2048, 4096, total + 1})
		hint = pick(r, []int{0, 512, 600})
	}
	for _, d := range datas {
		switch r.Intn(3) {
		case 0:
			fmt.Fprintf(&ops, " w %s", hx(d))
		case 1:
			fmt.Fprintf(&ops, " ws %s", hx(d))
		default:
			serr := 0
			if r.Intn(12) == 0 {
				serr = 1
			}
			fmt.Fprintf(&ops, " rf %s %d %d %d", hx(d), pick(r, []int{0, 1, 2, 3, 7, 512, len(d)/2 + 1}), r.Intn(2), serr)
		}
		nops++
		if r.Intn(6) == 0 { // an occasional read between the writes
			genReadOp(r, &ops, total, false)
			nops++
		}
	}
	nr := r.Intn(9)
	for i := 0; i < nr; i++ {
		if r.Intn(5) == 0 {
			off := r.Intn(total + 1)
			ln := pick(r, []int{-1, 0, 1, 2, 3, total, r.Intn(total + 2)})
			k := 1 + r.Intn(5)
			fmt.Fprintf(&ops, " sl %d %d %d", off, ln, k)
			for j := 0; j < k; j++ {
				genReadOp(r, &ops, total, true)
			}
		} else {
			genReadOp(r, &ops, total, false)
		}
		nops++
	}
	return fmt.Sprintf("spill %d %d %d%s", mmax, hint, nops, ops.String())
}

func genSpill(r *rand.Rand, n int, tier string, out *bufio.Writer) {
	for i := 0; i < n; i++ {
		fmt.Fprintln(out, genSpillCase(r, i%5 == 0))
	}
}

type lineReader interface {
	Read(p []byte) (int, error)
	ReadBytes(delim byte) ([]byte, error)
	ReadString(delim byte) (string, error)
	Peek(n int) ([]byte, error)
	Seek(offset int64, whence int) (int64, error)
	Size() int64
}

func eofFlag(err error) string {
	switch {
	case err == nil:
		return "0"
	case err == io.EOF:
		return "1"
	default:
		return "E"
	}
}

func runReadOp(op string, t *tokens, b lineReader) string {
	switch op {
	case "r":
		k := t.nextInt()
		p := make([]byte, k)
		n, err := b.Read(p)
		if n < 0 || n > k {
			return fmt.Sprintf("BADCOUNT:%d", n)
		}
		return "d:" + hx(p[:n]) + ":" + eofFlag(err)
	case "pk":
		k := t.nextInt()
		p, err := b.Peek(k)
		return "d:" + hx(p) + ":" + eofFlag(err)
	case "rb":
		d := byte(t.nextInt())
		l, err := b.ReadBytes(d)
		return "d:" + hx(l) + ":" + eofFlag(err)
	case "rs":
		d := byte(t.nextInt())
		l, err := b.ReadString(d)
		return "d:" + hxs(l) + ":" + eofFlag(err)
	case "sk":
		if _, err := b.Seek(0, io.SeekStart); err != nil {
			return "SEEKERR"
		}
		return "-"
	case "sz":
		return fmt.Sprintf("z:%d", b.Size())
	}
	panic("HARNESS: unknown read op " + op)
}

func errClass(err error) string {
	switch {
	case err == nil:
		return "nil"
	case err == io.EOF:
		return "eof"
	default:
		return "err"
	}
}

func runSpill(toks []string) (string, string) {
	t := &tokens{t: toks}
	mmax, hint, nops := t.nextInt(), t.nextInt(), t.nextInt()
	dir, err := os.MkdirTemp("", "verif-spill-")
	if err != nil {
		panic(err)
	}
	defer os.RemoveAll(dir)
	b := diskbuffer.New(diskbuffer.WithMaxMemBytes(int64(mmax)), diskbuffer.WithMemBufferSizeHint(int64(hint)), diskbuffer.WithTmpDir(dir))
	defer b.Close()
	var obs []string
	for i := 0; i < nops; i++ {
		var o string
		op := t.next()
		p := catch(func() {
			switch op {
			case "w":
				n, err := b.Write(t.nextHex())
				o = fmt.Sprintf("n:%d:%s", n, errClass(err))
			case "ws":
				n, err := b.WriteString(t.nextStr())
				o = fmt.Sprintf("n:%d:%s", n, errClass(err))
			case "rf":
				d, c, ewd, serr := t.nextHex(), t.nextInt(), t.nextInt(), t.nextInt()
				n, err := b.ReadFrom(&chunkSource{data: d, c: c, ewd: ewd == 1, serr: serr == 1})
				o = fmt.Sprintf("n:%d:%s", n, errClass(err))
			case "sl":
				off, ln, k := t.nextInt(), t.nextInt(), t.nextInt()
				s := b.Slice(int64(off), int64(ln))
				var so []string
				for j := 0; j < k; j++ {
					so = append(so, runReadOp(t.next(), t, s))
				}
				o = "[" + strings.Join(so, ",") + "]"
			default:
				o = runReadOp(op, t, b)
			}
		})
		if p != "" {
			if strings.HasPrefix(p, "HARNESS") {
				panic(p)
			}
			obs = append(obs, "PANIC")
			return strings.Join(obs, ";"), "-"
		}
		obs = append(obs, o)
	}
	return strings.Join(obs, ";"), "-"
}
