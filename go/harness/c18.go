package main

// Domain "fields" (property C18): operation sequences on gowarc.WarcFields.

import (
	"bufio"
	"fmt"
	"math/rand"
	"strings"
	"time"

	gowarc "github.com/nlnwa/gowarc/v2"
)

func init() { domains["fields"] = &domain{gen: genFields, run: runFields} }

var knownNames = []string{
	"Content-Length", "Content-Type", "WARC-Block-Digest", "WARC-Concurrent-To", "WARC-Date",
	"WARC-Filename", "WARC-IP-Address", "WARC-Identified-Payload-Type", "WARC-Payload-Digest",
	"WARC-Profile", "WARC-Record-ID", "WARC-Refers-To", "WARC-Refers-To-Date",
	"WARC-Refers-To-Target-URI", "WARC-Segment-Number", "WARC-Segment-Origin-ID",
	"WARC-Segment-Total-Length", "WARC-Target-URI", "WARC-Truncated", "WARC-Type",
	"WARC-Warcinfo-ID", "WARC-Page-ID", "WARC-Resource-Type", "WARC-JSON-Metadata",
}
var unknownNames = []string{"x-foo", "x-foo-bar", "a", "b", "zz-top", "x_y.z", "name1", "a-", "-a", "9-lives"}
var oddNames = []string{"", "a b", "Crawl Operator", "user@host", "q(1)", "na:me", "x(y)", "é", "warc-Key", "content‐type", "\xff\xfe", "WARC-TYPEİ"}

func genName(r *rand.Rand, pool []string) string {
	switch x := r.Intn(20); {
	case x < 2:
		// names that are no header tokens are their own canonical form, letter case included
		return randCase(r, pick(r, oddNames))
	case x < 3:
		return randCase(r, pick(r, knownNames))
	default:
		return randCase(r, pick(r, pool))
	}
}

var valuePool = []string{"a%20b", "100%", "%s%d", "", "v", "value", "<x>", "<x", "x>", "<", ">", "<<y>>", "0", "7", "-3", "+5", "007", "12a",
	"9223372036854775807", "9223372036854775808", "-9223372036854775808", "-9223372036854775809", " lead", "trail ",
	"a: b", "=?utf-8?q?x?=", "\t", "text/plain", "2020-01-02T03:04:05Z", "\xc3\xa9t\xc3\xa9", "\x00\x01"}

func genValue(r *rand.Rand) string {
	if r.Intn(4) == 0 {
		n := r.Intn(6)
		b := make([]byte, n)
		for i := range b {
			c := byte(r.Intn(256))
			if c == '\r' || c == '\n' {
				c = 'x'
			}
			b[i] = c
		}
		return string(b)
	}
	return pick(r, valuePool)
}

func genFieldsCase(r *rand.Rand, maxLen int) string {
	// a small pool per case so that names collide often
	pool := []string{}
	for i, k := 0, 2+r.Intn(4); i < k; i++ {
		if r.Intn(2) == 0 {
			pool = append(pool, pick(r, knownNames))
		} else {
			pool = append(pool, pick(r, unknownNames))
		}
	}
	n := 1 + r.Intn(maxLen)
	var sb strings.Builder
	fmt.Fprintf(&sb, "fields %d", n)
	ints := []int64{0, 1, -1, 42, 1 << 31, -(1 << 31), 1<<63 - 1, -1 << 63, 1000000}
	for i := 0; i < n; i++ {
		name := hxs(genName(r, pool))
		switch x := r.Intn(100); {
		case x < 30:
			fmt.Fprintf(&sb, " add %s %s", name, hxs(genValue(r)))
		case x < 34:
			fmt.Fprintf(&sb, " addint %s %d", name, pick(r, ints))
		case x < 38:
			fmt.Fprintf(&sb, " addid %s %s", name, hxs(genValue(r)))
		case x < 41:
			sec := r.Int63n(4102444800)
			fmt.Fprintf(&sb, " addtime %s %d %s", name, sec, hxs(time.Unix(sec, 0).UTC().Format(time.RFC3339)))
		case x < 55:
			fmt.Fprintf(&sb, " set %s %s", name, hxs(genValue(r)))
		case x < 58:
			fmt.Fprintf(&sb, " setint %s %d", name, pick(r, ints))
		case x < 61:
			fmt.Fprintf(&sb, " setid %s %s", name, hxs(genValue(r)))
		case x < 63:
			sec := r.Int63n(4102444800)
			fmt.Fprintf(&sb, " settime %s %d %s", name, sec, hxs(time.Unix(sec, 0).UTC().Format(time.RFC3339)))
		case x < 70:
			fmt.Fprintf(&sb, " delete %s", name)
		case x < 75:
			sb.WriteString(" sort")
		case x < 80:
			fmt.Fprintf(&sb, " get %s", name)
		case x < 85:
			fmt.Fprintf(&sb, " getall %s", name)
		case x < 89:
			fmt.Fprintf(&sb, " getint %s", name)
		case x < 92:
			fmt.Fprintf(&sb, " getid %s", name)
		case x < 96:
			fmt.Fprintf(&sb, " has %s", name)
		default:
			sb.WriteString(" write")
		}
	}
	return sb.String()
}

func genFields(r *rand.Rand, n int, tier string, out *bufio.Writer) {
	for i := 0; i < n; i++ {
		maxLen := 12
		if i%4 == 0 {
			maxLen = 60 // long histories: many repeats, sorts over > 12 entries
		}
		fmt.Fprintln(out, genFieldsCase(r, maxLen))
	}
}

// failAfter is a writer that accepts n bytes and then fails.
type failAfter struct{ n int }

func (f *failAfter) Write(p []byte) (int, error) {
	if len(p) <= f.n {
		f.n -= len(p)
		return len(p), nil
	}
	k := f.n
	f.n = 0
	return k, errInjected
}

func showFields(wf *gowarc.WarcFields) string {
	// a serialization that fails half way (the destination breaks) leaves no trace in later ones
	if wf != nil && len(*wf) > 0 {
		wf.Write(&failAfter{n: len(*wf) % 5})
	}
	// the final state is observed through the public String(): "Name: value\r\n" per field
	return hxs(wf.String())
}

func runFields(toks []string) (string, string) {
	t := &tokens{t: toks}
	n := t.nextInt()
	wf := &gowarc.WarcFields{}
	var obs []string
	for i := 0; i < n; i++ {
		var o string
		op := t.next()
		p := catch(func() {
			switch op {
			case "add":
				nm, v := t.nextStr(), t.nextStr()
				wf.Add(nm, v)
				o = "-"
			case "addint":
				nm, v := t.nextStr(), t.nextInt64()
				if i%2 == 0 {
					wf.AddInt64(nm, v)
				} else {
					wf.AddInt(nm, int(v))
				}
				o = "-"
			case "addid":
				nm, v := t.nextStr(), t.nextStr()
				wf.AddId(nm, v)
				o = "-"
			case "addtime":
				nm, sec := t.nextStr(), t.nextInt64()
				t.next()
				wf.AddTime(nm, time.Unix(sec, 0))
				o = "-"
			case "set":
				nm, v := t.nextStr(), t.nextStr()
				wf.Set(nm, v)
				o = "-"
			case "setint":
				nm, v := t.nextStr(), t.nextInt64()
				if i%2 == 0 {
					wf.SetInt64(nm, v)
				} else {
					wf.SetInt(nm, int(v))
				}
				o = "-"
			case "setid":
				nm, v := t.nextStr(), t.nextStr()
				wf.SetId(nm, v)
				o = "-"
			case "settime":
				nm, sec := t.nextStr(), t.nextInt64()
				t.next()
				wf.SetTime(nm, time.Unix(sec, 0))
				o = "-"
			case "delete":
				wf.Delete(t.nextStr())
				o = "-"
			case "sort":
				wf.Sort()
				o = "-"
			case "get":
				o = "s:" + hxs(wf.Get(t.nextStr()))
			case "getall":
				var hs []string
				for _, v := range wf.GetAll(t.nextStr()) {
					hs = append(hs, hxs(v))
				}
				o = "l:" + strings.Join(hs, ",")
			case "getint":
				nm := t.nextStr()
				var v int64
				var err error
				if i%2 == 0 {
					v, err = wf.GetInt64(nm)
				} else {
					var vi int
					vi, err = wf.GetInt(nm)
					v = int64(vi)
				}
				if err != nil {
					o = "i:err"
				} else {
					o = fmt.Sprintf("i:%d", v)
				}
			case "getid":
				o = "s:" + hxs(wf.GetId(t.nextStr()))
			case "has":
				if wf.Has(t.nextStr()) {
					o = "b:1"
				} else {
					o = "b:0"
				}
			case "write":
				var sb strings.Builder
				wf.Write(&failAfter{n: 3}) // a failed write first: the next one is complete and only itself
				if _, err := wf.Write(&sb); err != nil {
					o = "s:ERR"
				} else {
					o = "s:" + hxs(sb.String())
				}
			default:
				panic("HARNESS: unknown op " + op)
			}
		})
		if p != "" {
			if strings.HasPrefix(p, "HARNESS") {
				panic(p)
			}
			obs = append(obs, "PANIC")
			return strings.Join(obs, ";") + "|PANIC", "-"
		}
		obs = append(obs, o)
	}
	fin := ""
	if p := catch(func() { fin = showFields(wf) }); p != "" {
		fin = "PANIC"
	}
	return strings.Join(obs, ";") + "|" + fin, "-"
}
