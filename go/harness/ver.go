package main

// Domain "ver" (property C03): declared Content-Length / block digest / payload digest that agree or
// disagree with the actual bytes must be reported exactly when they disagree (spec policy warn/fail),
// on the builder and on the parser path; repairs leave truthful values.

import (
	"bufio"
	"bytes"
	"crypto/md5"
	"crypto/sha1"
	"crypto/sha256"
	"crypto/sha512"
	"encoding/base32"
	"encoding/base64"
	"encoding/hex"
	"fmt"
	"math/rand"
	"os"
	"strconv"
	"strings"

	gowarc "github.com/nlnwa/gowarc/v2"
)

func init() { domains["ver"] = &domain{gen: genVer, run: runVer} }

func rawSum(alg string, data []byte) []byte {
	switch alg {
	case "md5":
		s := md5.Sum(data)
		return s[:]
	case "sha1":
		s := sha1.Sum(data)
		return s[:]
	case "sha256":
		s := sha256.Sum256(data)
		return s[:]
	case "sha512":
		s := sha512.Sum512(data)
		return s[:]
	}
	return nil
}

// digestAgrees: does the declared "alg:value" denote the digest of data, in ANY of the three
// encodings and either letter case?  (standard library only; the reference for "disagrees")
func digestAgrees(declared string, data []byte) bool {
	i := strings.Index(declared, ":")
	if i < 0 {
		return false
	}
	alg := strings.ToLower(declared[:i])
	alg = strings.Replace(alg, "sha-", "sha", 1)
	sum := rawSum(alg, data)
	if sum == nil {
		return false
	}
	v := declared[i+1:]
	if b, err := hex.DecodeString(v); err == nil && bytes.Equal(b, sum) {
		return true
	}
	if b, err := base32.StdEncoding.DecodeString(strings.ToUpper(v)); err == nil && bytes.Equal(b, sum) {
		return true
	}
	if b, err := base64.StdEncoding.DecodeString(v); err == nil && bytes.Equal(b, sum) {
		return true
	}
	return false
}

// a spelling of the digest of data: algorithm x encoding x letter case x name style, possibly corrupted
func spellDigest(r *rand.Rand, data []byte, corrupt bool) string {
	alg, enc := pick(r, algs), 1+r.Intn(3)
	d := refDigest(alg, enc, data)
	name, val := d[:len(alg)], d[len(alg)+1:]
	if enc != 3 && r.Intn(2) == 0 {
		val = swapCase(val)
	}
	switch r.Intn(4) {
	case 0:
		name = strings.ToUpper(name)
	case 1:
		if alg != "md5" {
			name = name[:3] + "-" + name[3:]
		}
	}
	if corrupt {
		b := []byte(val)
		i := r.Intn(len(b))
		old := b[i]
		for b[i] == old || b[i] == '=' {
			b[i] = "0123456789abcdefABCDEFGHIJKLMNOPQRSTUVWXYZ+/"[r.Intn(44)]
		}
		val = string(b)
	}
	return name + ":" + val
}

func genVer(r *rand.Rand, n int, tier string, out *bufio.Writer) {
	for i := 0; i < n; i++ {
		o := genOpts(r)
		o.spec = 1 + r.Intn(2)
		o.skip = 0
		o.syntax = r.Intn(2) // a syntax failure is not the subject here
		o.unknown, o.block = 0, 0
		path := pick(r, []string{"b", "p"})
		kind := pick(r, []string{"g", "g", "h", "h", "w", "v"})
		rt := 4
		body := string(genData(r, 60))
		head := ""
		switch kind {
		case "g":
			rt = pick(r, []int{4, 4, 16, 64})
		case "h":
			rt = pick(r, []int{2, 8})
			head = pick(r, httpBodies[:1])
			if rt == 8 {
				head = httpBodies[2]
			}
			head = head[:strings.Index(head, "\r\n\r\n")+4]
		case "w":
			rt = 1
			body = "software: x\r\nformat: WARC\r\n"
		case "v":
			rt = 32
			body = "HTTP/1.1 200 OK\r\nX: y\r\n\r\n"
		}
		block := head + body
		cl := "none"
		if r.Intn(3) != 0 || path == "p" || o.addCL == 0 {
			cl = strconv.Itoa(len(block))
		}
		bd, pd := "none", "none"
		which := r.Intn(6) // 0: all correct, 1: wrong length, 2: wrong block digest, 3: wrong payload digest, 4/5: correct digests
		if which != 1 && r.Intn(4) != 0 {
			bd = spellDigest(r, []byte(block), which == 2)
		}
		if (kind == "h" || (kind == "g" && rt == 4)) && which != 1 && r.Intn(3) != 0 {
			pd = spellDigest(r, []byte(body), which == 3)
		}
		if which == 1 {
			d := pick(r, []int{-5, -1, 1, 2, 9})
			if len(block)+d < 0 {
				d = 1
			}
			cl = strconv.Itoa(len(block) + d)
		}
		fmt.Fprintf(out, "ver %s %s %d %s %s %s %s %s\n", o, path, rt, kind, hxs(block), cl, hxs(bd), hxs(pd))
	}
}

func runVer(toks []string) (string, string) {
	t := &tokens{t: toks}
	o := readOpts(t)
	path, rt, kind, block, cl, bd, pd := t.next(), t.nextInt(), t.next(), t.nextStr(), t.next(), t.nextStr(), t.nextStr()
	dir, err := os.MkdirTemp("", "verif-ver-")
	if err != nil {
		panic(err)
	}
	defer os.RemoveAll(dir)
	ctype := map[string]string{"g": "application/octet-stream", "h": "application/http", "w": "application/warc-fields", "v": "application/http"}[kind]
	fields := [][2]string{{"WARC-Date", "2021-05-06T07:08:09Z"}, {"Content-Type", ctype}, {"WARC-Record-ID", "<urn:uuid:1>"}}
	if rt == 32 {
		fields = append(fields, [2]string{"WARC-Profile", gowarc.ProfileServerNotModifiedV1_1})
	}
	if rt&(2|4|8|16|32|64) != 0 {
		fields = append(fields, [2]string{"WARC-Target-URI", "http://example.com/"})
	}
	if cl != "none" {
		fields = append(fields, [2]string{"Content-Length", cl})
	}
	if bd != "none" {
		fields = append(fields, [2]string{"WARC-Block-Digest", bd})
	}
	if pd != "none" {
		fields = append(fields, [2]string{"WARC-Payload-Digest", pd})
	}
	if len(block)%3 == 0 { // what a record says about truncation does not excuse a wrong length or digest
		fields = append(fields, [2]string{"WARC-Truncated", []string{"length", "time", "disconnect", "unspecified"}[len(block)%4]})
	}
	payload := block
	if kind == "h" {
		payload = block[strings.Index(block, "\r\n\r\n")+4:]
	}
	// On the parser path a declared length that is shorter than the generated block is not a
	// disagreement when the bytes that follow it happen to be the end-of-record marker: the stream
	// then IS a well-formed record of the declared length followed by other bytes (what follows is
	// the business of the next read).  Such inputs say nothing about this property.
	if n, err := strconv.Atoi(cl); path == "p" && err == nil && n >= 0 && n < len(block) {
		if tail := block + "\r\n\r\n"; tail[n:n+4] == "\r\n\r\n" {
			return "ambiguous", "OK"
		}
	}
	// expectations
	wantLen := cl != "none" && cl != strconv.Itoa(len(block))
	wantBlock := bd != "none" && !digestAgrees(bd, []byte(block)) && !wantLen
	wantPayload := pd != "none" && rt != 32 && (kind == "h" || (kind == "g" && rt == 4)) && !digestAgrees(pd, []byte(payload)) && !wantLen
	var rec gowarc.WarcRecord
	var v *gowarc.Validation
	var rerr error
	if p := catch(func() {
		if path == "b" {
			rec, v, rerr = buildRecord(o, rt, fields, [][2]string{{"w", block}}, dir)
		} else {
			wire := serializeRecord("1.1", append([][2]string{{"WARC-Type", typeNames[rt]}}, fields...), []byte(block), "\r\n")
			u := gowarc.NewUnmarshaler(o.options(dir, nil)...)
			rec, _, v, rerr = u.Unmarshal(bufio.NewReader(bytes.NewReader(wire)))
		}
	}); p != "" {
		return "PANIC", "FAIL:panic:" + p
	}
	if rec != nil {
		defer rec.Close()
	}
	ks := kinds(v)
	obs := fmt.Sprintf("%s;f=%s", classify(rerr), ks)
	has := func(k string) bool {
		return strings.Contains(","+ks+",", ","+k+",") || (rerr != nil && classify(rerr) == k)
	}
	gotLen := has("len") || has("trl")
	nDig := strings.Count(","+ks+",", ",dig,")
	if rerr != nil && classify(rerr) == "dig" {
		nDig++
	}
	wantAny := wantLen || wantBlock || wantPayload
	gotAny := rerr != nil || (v != nil && !v.Valid())
	resourceMix := kind == "g" && rt == 4 && pd != "none"
	kindOf := func(k string) string {
		if resourceMix {
			return "resource-payload-digest"
		}
		return k
	}
	switch {
	case wantAny && !gotAny:
		return obs, fmt.Sprintf("FAIL:%s:a disagreeing declared value was not reported (length %v, block digest %v, payload digest %v)", kindOf("unreported"), wantLen, wantBlock, wantPayload)
	case !wantAny && gotAny:
		return obs, "FAIL:" + kindOf("false-report") + ":correct declared values were reported: " + obs
	case wantLen && !gotLen && path == "b":
		return obs, "FAIL:unreported:wrong Content-Length reported as something else: " + obs
	case o.spec == 1 && !wantLen && rerr == nil:
		exp := 0
		if wantBlock {
			exp++
		}
		if wantPayload {
			exp++
		}
		if nDig != exp {
			return obs, fmt.Sprintf("FAIL:%s:%d digest findings for %d disagreeing digests: %s", kindOf("unreported"), nDig, exp, obs)
		}
	}
	// repairs under warn: afterwards the header tells the truth
	if o.spec == 1 && rerr == nil && rec != nil && path == "b" {
		got, _ := readBlock(rec)
		h := rec.WarcHeader()
		if o.fixCL == 1 && h.Has("Content-Length") && h.Get("Content-Length") != strconv.Itoa(len(got)) {
			return obs, "FAIL:repair-untruthful:Content-Length after repair is " + h.Get("Content-Length")
		}
		if o.fixDig == 1 && h.Has("WARC-Block-Digest") && strings.Contains(h.Get("WARC-Block-Digest"), ":") &&
			len(h.Get("WARC-Block-Digest")) > 8 && !digestAgrees(h.Get("WARC-Block-Digest"), []byte(got)) {
			return obs, "FAIL:repair-untruthful:WARC-Block-Digest after repair does not match the block"
		}
		if o.fixDig == 1 && kind == "h" && h.Has("WARC-Payload-Digest") && !digestAgrees(h.Get("WARC-Payload-Digest"), []byte(got[len(got)-len(payload):])) {
			return obs, "FAIL:repair-untruthful:WARC-Payload-Digest after repair does not match the payload"
		}
	}
	return obs, "OK"
}
