package main

// Domain "race" (property C11): client programs that use the library the supported way from
// several goroutines.  Run with a harness built with -race (GORACE=halt_on_error=1): a data race
// kills the process with the race report on stderr, which the runner turns into the verdict.

import (
	"bufio"
	"bytes"
	"fmt"
	"math/rand"
	"os"
	"path/filepath"
	"sync"

	gowarc "github.com/nlnwa/gowarc/v2"
)

func init() { domains["race"] = &domain{gen: genRace, run: runRace} }

var raceWorkloads = []string{"builders", "parsers", "shared-writer", "shared-writer-rotate", "shared-generator", "distinct-writers", "mixed"}

func genRace(r *rand.Rand, n int, tier string, out *bufio.Writer) {
	for i := 0; i < n; i++ {
		fmt.Fprintf(out, "race %s %d %d %d %d\n", raceWorkloads[i%len(raceWorkloads)], 2+r.Intn(4), 1+r.Intn(3), r.Intn(2), r.Intn(2))
	}
}

func buildOne(tmp string, i int, custom bool) (gowarc.WarcRecord, error) {
	opts := []gowarc.WarcRecordOption{gowarc.WithBufferTmpDir(tmp)}
	if custom {
		opts = append(opts, gowarc.WithBufferMaxMemBytes(16), gowarc.WithStrictValidation())
	}
	// the three block kinds take different paths through the marshaler
	var rb gowarc.WarcRecordBuilder
	switch i % 3 {
	case 0:
		rb = gowarc.NewRecordBuilder(gowarc.Response, opts...)
		rb.AddWarcHeader("Content-Type", "application/http")
		rb.WriteString(fmt.Sprintf("HTTP/1.1 200 OK\r\nContent-Type: text/plain\r\n\r\nbody %d with some more bytes to spill", i))
	case 1:
		rb = gowarc.NewRecordBuilder(gowarc.Resource, opts...)
		rb.AddWarcHeader("Content-Type", "text/plain")
		rb.WriteString(fmt.Sprintf("plain resource %d with some more bytes to spill into the file part", i))
	default:
		rb = gowarc.NewRecordBuilder(gowarc.Metadata, opts...)
		rb.AddWarcHeader("Content-Type", "application/warc-fields")
		rb.WriteString(fmt.Sprintf("via: http://example.com/%d\r\nhopsFromSeed: LLL\r\n", i))
	}
	rb.AddWarcHeader("WARC-Date", "2021-05-06T07:08:09Z")
	rb.AddWarcHeader("WARC-Target-URI", fmt.Sprintf("http://example.com/%d", i))
	rec, _, err := rb.Build()
	return rec, err
}

func runRace(toks []string) (string, string) {
	t := &tokens{t: toks}
	wl, ngo, workers, compress, custom := t.next(), t.nextInt(), t.nextInt(), t.nextInt() == 1, t.nextInt() == 1
	dir, err := os.MkdirTemp("", "verif-race-")
	if err != nil {
		panic(err)
	}
	defer os.RemoveAll(dir)
	tmp, out := filepath.Join(dir, "tmp"), filepath.Join(dir, "out")
	os.Mkdir(tmp, 0o755)
	os.Mkdir(out, 0o755)
	var wg sync.WaitGroup
	run := func(f func(g int)) {
		for g := 0; g < ngo; g++ {
			wg.Add(1)
			go func(g int) { defer wg.Done(); f(g) }(g)
		}
		wg.Wait()
	}
	wopts := func(gen gowarc.WarcFileNameGenerator) []gowarc.WarcFileWriterOption {
		o := []gowarc.WarcFileWriterOption{gowarc.WithCompression(compress), gowarc.WithMaxConcurrentWriters(workers), gowarc.WithMaxFileSize(2000)}
		if gen != nil {
			o = append(o, gowarc.WithFileNameGenerator(gen))
		}
		if custom {
			o = append(o, gowarc.WithWarcInfoFunc(func(rb gowarc.WarcRecordBuilder) error { _, e := rb.WriteString("software: verif\r\n"); return e }),
				gowarc.WithRecordOptions(gowarc.WithBufferTmpDir(tmp)))
		}
		return o
	}
	switch wl {
	case "builders":
		// every goroutine owns its builders, records and marshaler
		run(func(g int) {
			for i := 0; i < 6; i++ {
				rec, err := buildOne(tmp, g*100+i, custom)
				if err != nil {
					continue
				}
				var b bytes.Buffer
				gowarc.NewMarshaler().Marshal(&b, rec, 0)
				rec.Block().BlockDigest()
				rec.Close()
			}
		})
	case "parsers":
		rec, _ := buildOne(tmp, 1, false)
		var b bytes.Buffer
		gowarc.NewMarshaler().Marshal(&b, rec, 0)
		rec.Close()
		wire := b.Bytes()
		path := filepath.Join(dir, "f.warc")
		os.WriteFile(path, bytes.Repeat(wire, 3), 0o644)
		run(func(g int) {
			for i := 0; i < 12; i++ { // read to the end and close, again and again: pooled buffers change hands
				u := gowarc.NewUnmarshaler(gowarc.WithBufferTmpDir(tmp))
				r2, _, _, err := u.Unmarshal(bufio.NewReader(bytes.NewReader(wire)))
				if err == nil {
					readBlock(r2)
					r2.Close()
				}
				rd, err := gowarc.NewWarcFileReader(path, 0, gowarc.WithBufferTmpDir(tmp))
				if err == nil {
					for {
						r3, _, _, err := rd.Next()
						if err != nil {
							break
						}
						r3.Close()
					}
					rd.Close()
				}
			}
		})
	case "shared-writer", "shared-writer-rotate", "mixed":
		// the default name generator, in the current directory "out"
		sgen := &gowarc.PatternNameGenerator{Directory: out}
		if custom {
			sgen.Params = map[string]interface{}{"job": "verif"}
			sgen.Pattern = "%{job}s-%{prefix}s%{ts}s-%04{serial}d-%{hostOrIp}s.%{ext}s"
		}
		w := gowarc.NewWarcFileWriter(wopts(sgen)...)
		recs := make([][]gowarc.WarcRecord, ngo)
		for g := 0; g < ngo; g++ {
			for i := 0; i < 5; i++ {
				r, _ := buildOne(tmp, g*100+i, false)
				recs[g] = append(recs[g], r)
			}
		}
		run(func(g int) {
			var kept [][]gowarc.WriteResponse // what Write returned is the caller's, also later
			defer func() {
				n := 0
				for _, rs := range kept {
					for _, x := range rs {
						n += len(x.FileName) + int(x.FileOffset) + int(x.BytesWritten)
					}
				}
				_ = n
			}()
			for i, r := range recs[g] {
				if custom && g == 1 {
					_ = w.String() // describing the writer is part of using it
				}
				kept = append(kept, w.Write(r))
				for _, rs := range kept {
					for _, x := range rs {
						_ = x.FileName
					}
				}
				if wl != "shared-writer" && i%2 == 1 && g == 0 {
					w.Rotate()
				}
				if wl == "mixed" {
					if r2, err := buildOne(tmp, 1000+g*10+i, custom); err == nil {
						r2.Close()
					}
				}
			}
		})
		if wl == "shared-writer-rotate" && workers >= 2 {
			// the files vanish before Close: every worker that holds one fails to finalise it
			if es, err := os.ReadDir(out); err == nil {
				for _, e := range es {
					os.Remove(filepath.Join(out, e.Name()))
				}
			}
		}
		w.Close()
		for _, rs := range recs {
			for _, r := range rs {
				r.Close()
			}
		}
	case "shared-generator":
		// two file writers share one name generator
		gen := &gowarc.PatternNameGenerator{Directory: out}
		if custom { // custom pattern parameters are part of the shared generator
			gen.Params = map[string]interface{}{"job": "verif", "n": 7}
			gen.Pattern = "%{job}s-%{prefix}s%{ts}s-%04{serial}d-%{hostOrIp}s.%{ext}s"
		}
		w1 := gowarc.NewWarcFileWriter(wopts(gen)...)
		w2 := gowarc.NewWarcFileWriter(wopts(gen)...)
		var recs []gowarc.WarcRecord
		for i := 0; i < 2*ngo; i++ {
			r, _ := buildOne(tmp, i, false)
			recs = append(recs, r)
		}
		run(func(g int) {
			w1.Write(recs[2*g])
			w2.Write(recs[2*g+1])
		})
		w1.Close()
		w2.Close()
		for _, r := range recs {
			r.Close()
		}
	case "distinct-writers":
		// every goroutine has its own writer and generator; first files are created concurrently
		var recs []gowarc.WarcRecord
		var ws []*gowarc.WarcFileWriter
		for g := 0; g < ngo; g++ {
			r, _ := buildOne(tmp, g, false)
			recs = append(recs, r)
			ws = append(ws, gowarc.NewWarcFileWriter(wopts(&gowarc.PatternNameGenerator{Directory: out, Prefix: fmt.Sprintf("w%d-", g)})...))
		}
		run(func(g int) {
			ws[g].Write(recs[g])
			ws[g].Close()
		})
		for _, r := range recs {
			r.Close()
		}
	}
	return "done", "OK"
}
