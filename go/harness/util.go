package main

import (
	"encoding/hex"
	"fmt"
	"math/rand"
	"strconv"
	"strings"
	"time"
)

func hx(b []byte) string    { return "h" + hex.EncodeToString(b) }
func hxs(s string) string   { return "h" + hex.EncodeToString([]byte(s)) }
func unhx(t string) []byte {
	if len(t) == 0 || t[0] != 'h' {
		panic("expected hex token, got " + t)
	}
	b, err := hex.DecodeString(t[1:])
	if err != nil {
		panic("bad hex token " + t)
	}
	return b
}
func unhxs(t string) string { return string(unhx(t)) }

type tokens struct {
	t []string
	i int
}

func (t *tokens) next() string {
	if t.i >= len(t.t) {
		panic("unexpected end of case line")
	}
	s := t.t[t.i]
	t.i++
	return s
}
func (t *tokens) nextInt() int {
	n, err := strconv.Atoi(t.next())
	if err != nil {
		panic(err)
	}
	return n
}
func (t *tokens) nextInt64() int64 {
	n, err := strconv.ParseInt(t.next(), 10, 64)
	if err != nil {
		panic(err)
	}
	return n
}
func (t *tokens) nextHex() []byte   { return unhx(t.next()) }
func (t *tokens) nextStr() string   { return string(unhx(t.next())) }
func (t *tokens) done() bool        { return t.i >= len(t.t) }

func pick[T any](r *rand.Rand, xs []T) T { return xs[r.Intn(len(xs))] }

// randCase returns s with every ASCII letter randomly upper- or lower-cased.
func randCase(r *rand.Rand, s string) string {
	b := []byte(s)
	for i, c := range b {
		if c >= 'a' && c <= 'z' && r.Intn(2) == 0 {
			b[i] = c - 32
		} else if c >= 'A' && c <= 'Z' && r.Intn(2) == 0 {
			b[i] = c + 32
		}
	}
	return string(b)
}

// catch runs f and reports a panic as a string.
func catch(f func()) (p string) {
	defer func() {
		if e := recover(); e != nil {
			p = strings.ReplaceAll(fmt.Sprint(e), "\n", " ")
			if p == "" {
				p = "panic"
			}
		}
	}()
	f()
	return ""
}

func timeAfter(sec int) <-chan time.Time { return time.After(time.Duration(sec) * time.Second) }

// After a few hangs the remaining cases of a run are skipped: every hung goroutine keeps
// spinning and the verdict is already decided.
var hangs int

func noteHang()          { hangs++ }
func tooManyHangs() bool { return hangs >= 3 }
