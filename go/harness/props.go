package main

// Domains "trunc" (C06), "pol" (C07), "coh" (C08): executable statements evaluated on the
// implementation (no model output; the model is tied through unm / build / hparse).

import (
	"bufio"
	"bytes"
	"fmt"
	"math/rand"
	"os"
	"strconv"
	"strings"

	gowarc "github.com/nlnwa/gowarc/v2"
)

func init() {
	domains["trunc"] = &domain{gen: genTrunc, run: runTrunc}
	domains["pol"] = &domain{gen: genPol, run: runPol}
	domains["coh"] = &domain{gen: genCoh, run: runCoh}
}

// ---------- well-formed files ----------
func wellFormedRecord(r *rand.Rand) []byte { return wellFormedRecordAt(r, 0) }

// wellFormedRecordAt: the record will start at offset off of the (uncompressed) stream
func wellFormedRecordAt(r *rand.Rand, off int) []byte {
	g := genValidRecord(r)
	if g.rt == 0 {
		g.rt = 4
		g.fields = g.fields[:2]
	}
	var clean [][2]string
	for _, f := range g.fields {
		if f[1] == strings.Trim(f[1], " \t") && !strings.Contains(f[1], "=?") {
			clean = append(clean, f)
		}
	}
	g.fields = clean
	fields := fullFieldsOdd(r, g, r.Intn(2) == 0, false)
	if g.rt == 32 { // the block of a revisit is an http header; declare a truthful digest only
		fields = fullFieldsOdd(r, g, false, false)
	}
	if r.Intn(8) == 0 && len(fields) > 2 {
		// a header line that ends exactly where a 4096-byte read buffer ends
		k := 1 + r.Intn(len(fields)-1)
		before := off%4096 + len("WARC/1.1\r\n")
		for _, f := range fields[:k] {
			before += len(f[0]) + 2 + len(f[1]) + 2
		}
		if n := 4096 - before - len("X-Pad: ") - 2; n > 0 {
			pad := [2]string{"X-Pad", strings.Repeat("p", n)}
			fields = append(fields[:k:k], append([][2]string{pad}, fields[k:]...)...)
		}
	}
	return serializeRecord(pick(r, []string{"1.1", "1.0"}), fields, g.body, "\r\n")
}

const companionID = "<urn:uuid:c0ffee00-0000-0000-0000-000000000001>"

var companionRecord = serializeRecord("1.1", [][2]string{{"WARC-Type", "resource"}, {"WARC-Record-ID", companionID},
	{"WARC-Date", "2021-05-06T07:08:09Z"}, {"WARC-Target-URI", "http://example.com/companion"}, {"Content-Type", "text/plain"},
	{"Content-Length", "9"}}, []byte("companion"), "\r\n")

type wfile struct {
	gz    bool
	recs  [][]byte // serialized records (uncompressed)
	parts [][]byte // what is in the file for each record (compressed member or the record itself)
}

func (w wfile) bytes() []byte { return bytes.Join(w.parts, nil) }

func genWFile(r *rand.Rand) wfile {
	w := wfile{gz: r.Intn(2) == 0}
	off := 0
	for k := 1 + r.Intn(3); k > 0; k-- {
		rec := wellFormedRecordAt(r, off)
		if !w.gz {
			off += len(rec)
		}
		w.recs = append(w.recs, rec)
		if w.gz {
			w.parts = append(w.parts, gzipMember(rec))
		} else {
			w.parts = append(w.parts, rec)
		}
	}
	return w
}

func fmtWFile(w wfile) string {
	var sb strings.Builder
	g := 0
	if w.gz {
		g = 1
	}
	fmt.Fprintf(&sb, "%d %d", g, len(w.recs))
	for _, rec := range w.recs {
		fmt.Fprintf(&sb, " %s", hx(rec))
	}
	return sb.String()
}

func readWFile(t *tokens) wfile {
	w := wfile{gz: t.nextInt() == 1}
	for n := t.nextInt(); n > 0; n-- {
		rec := t.nextHex()
		w.recs = append(w.recs, rec)
		if w.gz {
			w.parts = append(w.parts, gzipMember(rec))
		} else {
			w.parts = append(w.parts, rec)
		}
	}
	return w
}

type readResult struct {
	off   int64
	clean bool   // record returned, no error, no finding
	rec   bool   // a record was returned
	err   string // error class ("nil" if none)
	nf    int
	show  string
}

func readAll(o ropts, data []byte, dir string) (res []readResult, panicked string) {
	panicked = catch(func() {
		// a second reader on another stream is open all the while: readers do not share what they hold
		comp, cerr := gowarc.NewWarcFileReaderFromStream(bytes.NewReader(companionRecord), 0, gowarc.WithBufferTmpDir(dir))
		if cerr == nil {
			defer comp.Close()
			defer func() {
				rec, off, _, err := comp.Next()
				id := ""
				if rec != nil {
					id = rec.WarcHeader().Get("WARC-Record-ID")
					rec.Close()
				}
				if err != nil || off != 0 || id != companionID {
					panic(fmt.Sprintf("a second reader, open at the same time on another stream, did not return its own record: id %q offset %d err %v", id, off, err))
				}
			}()
		}
		wf, err := gowarc.NewWarcFileReaderFromStream(bytes.NewReader(data), 0, o.options(dir, nil)...)
		if err != nil {
			return
		}
		defer wf.Close()
		var kept []*gowarc.Validation
		defer func() {
			// a caller that collects the sequence first looks at the findings afterwards
			for i, v := range kept {
				if v != nil && i < len(res) && len(*v) != res[i].nf {
					res[i].nf = len(*v)
					res[i].clean = res[i].rec && res[i].err == "nil" && res[i].nf == 0
				}
			}
		}()
		for i := 0; i < 40; i++ {
			rec, off, v, err := wf.Next()
			kept = append(kept, v)
			rr := readResult{off: off, rec: rec != nil, err: classify(err)}
			if v != nil {
				rr.nf = len(*v)
			}
			if rec != nil {
				if err == nil { // a record returned together with an error is only closed
					rr.show = showRecord(rec, v)
					if strings.Contains(rr.show, ";b=ERR;") {
						rr.err = "blockread"
					}
				}
				rec.Close()
			}
			rr.clean = rec != nil && err == nil && rr.nf == 0 && rr.err == "nil"
			res = append(res, rr)
			if err != nil {
				break
			}
		}
	})
	return
}

// ---------- C06 ----------
func genTrunc(r *rand.Rand, n int, tier string, out *bufio.Writer) {
	for i := 0; i < n; i++ {
		o := genOpts(r)
		o.syntax, o.spec, o.unknown = 1+r.Intn(2), 1+r.Intn(2), 1+r.Intn(2)
		if o.syntax == 2 {
			o.spec, o.unknown = 2, 2
		} else {
			o.spec, o.unknown = 1, 1
		}
		o.skip = 0
		ncuts := 50
		if tier == "thorough" {
			ncuts = -1 // every cut position
		}
		fmt.Fprintf(out, "trunc %s %d %d %s\n", o, ncuts, r.Int63(), fmtWFile(genWFile(r)))
	}
}

func runTrunc(toks []string) (string, string) {
	t := &tokens{t: toks}
	o := readOpts(t)
	ncuts, seed := t.nextInt(), t.nextInt64()
	w := readWFile(t)
	file := w.bytes()
	dir, err := os.MkdirTemp("", "verif-trunc-")
	if err != nil {
		panic(err)
	}
	defer os.RemoveAll(dir)
	full, p := readAll(o, file, dir)
	if p != "" {
		return "PANIC", "FAIL:panic:" + p
	}
	// the complete file must read cleanly (otherwise the case says nothing about truncation)
	if len(full) != len(w.recs)+1 {
		return fmt.Sprintf("full:%d", len(full)), "FAIL:wellformed-file-not-clean:the complete file does not read as its records followed by EOF"
	}
	var ends []int
	pos := 0
	for i, part := range w.parts {
		pos += len(part)
		ends = append(ends, pos)
		if !full[i].clean {
			return "full-unclean", "FAIL:wellformed-file-not-clean:record " + strconv.Itoa(i) + " of the complete file is not clean: " + full[i].err
		}
	}
	// cut positions: all, or a seeded sample plus the neighbourhood of every record boundary
	cuts := map[int]bool{}
	if ncuts < 0 {
		for k := 0; k <= len(file); k++ {
			cuts[k] = true
		}
	} else {
		rr := rand.New(rand.NewSource(seed))
		for i := 0; i < ncuts; i++ {
			cuts[rr.Intn(len(file)+1)] = true
		}
		for _, e := range append([]int{0}, ends...) {
			for d := -6; d <= 12; d++ {
				if e+d >= 0 && e+d <= len(file) {
					cuts[e+d] = true
				}
			}
		}
	}
	checked := 0
	for k := range cuts {
		res, p := readAll(o, file[:k], dir)
		checked++
		if p != "" {
			return fmt.Sprintf("cut=%d", k), "FAIL:panic:reading the prefix panicked: " + p
		}
		whole := 0
		for _, e := range ends {
			if e <= k {
				whole++
			}
		}
		if len(res) < whole+1 {
			return fmt.Sprintf("cut=%d", k), fmt.Sprintf("FAIL:complete-record-lost:cut at %d: %d records lie inside the prefix, only %d results", k, whole, len(res))
		}
		for i := 0; i < whole; i++ {
			if !res[i].clean || res[i].show != full[i].show || res[i].off != full[i].off {
				return fmt.Sprintf("cut=%d", k), fmt.Sprintf("FAIL:complete-record-lost:cut at %d: record %d inside the prefix is not returned unaltered and clean (%s)", k, i, res[i].err)
			}
		}
		last := res[whole]
		if last.clean {
			return fmt.Sprintf("cut=%d", k), fmt.Sprintf("FAIL:partial-record-clean:cut at %d: a clean record is returned beyond the %d complete ones", k, whole)
		}
		atBoundary := k == 0 || (whole > 0 && ends[whole-1] == k)
		if !atBoundary {
			visible := (last.err != "nil" && last.err != "eoh") || last.nf > 0 || (last.err == "eoh" && last.off < int64(k))
			if !visible {
				return fmt.Sprintf("cut=%d", k), fmt.Sprintf("FAIL:truncation-invisible:cut at %d (inside record %d): err=%s findings=%d eof-offset=%d", k, whole, last.err, last.nf, last.off)
			}
		}
	}
	return fmt.Sprintf("cuts=%d", checked), "OK"
}

// ---------- C07 ----------
func damagedStream(r *rand.Rand) []byte {
	g := genRecordSpec(r)
	fields := fullFields(r, g, r.Intn(2) == 0)
	switch r.Intn(8) {
	case 0:
		fields = append(fields, [2]string{"WARC-Date", "not-a-date"})
	case 1:
		fields = append(fields, [2]string{"WARC-Filename", "illegal-here"})
	case 2:
		fields = append(fields, [2]string{"WARC-IP-Address", "999.9.9.9"}, [2]string{"WARC-Segment-Number", "-1"})
	case 3:
		for j := range fields {
			if fields[j][0] == "Content-Length" {
				fields[j][1] = strconv.Itoa(len(g.body) + pick(r, []int{-2, 3}))
				if len(g.body) < 2 {
					fields[j][1] = "5"
				}
			}
		}
	case 4:
		fields = append(fields, [2]string{"WARC-Block-Digest", "sha1:AAAAAAAAAAAAAAAAAAAAAAAAAAAAAAAA"})
	case 6: // an encoded-word whose charset the decoder does not know; an address with a zone
		fields = append(fields, [2]string{"X-Enc", "=?windows-1252?Q?caf=E9?="}, [2]string{"WARC-IP-Address", "fe80::1%eth0"})
	case 5: // a valid but non-canonical spelling of the length
		for j := range fields {
			if fields[j][0] == "Content-Length" {
				fields[j][1] = "00" + fields[j][1]
			}
		}
	}
	if r.Intn(6) == 0 {
		// a folded header field; the line before the fold may end in blanks
		fields = append(fields, [2]string{pick(r, []string{"X-Folded", "WARC-Filename", "Content-Type"}),
			pick(r, []string{"text/plain; \r\n charset=utf-8", "a\t\r\n\tb \r\n c", "one\r\n two", "x  \r\n  y"})})
	}
	if r.Intn(250) == 0 {
		// a field folded over three long lines: longer than 8192 bytes once unfolded
		fields = append(fields, [2]string{"X-Long-Folded", strings.Repeat("a", 3000) + "\r\n " + strings.Repeat("b", 3000) + "\r\n\t" + strings.Repeat("c", 3000)})
	}
	version := "1.1"
	if r.Intn(12) == 0 { // versions the library does not know, in every shape
		version = pick(r, []string{"1", "1.", ".1", "2.0", "1.1.1", "", "x", "1.x", "0.18", "10", "1 .1", "-1.1"})
	}
	rec := serializeRecord(version, fields, g.body, pick(r, []string{"\r\n", "\r\n", "\r\n", "\n"}))
	if r.Intn(4) == 0 {
		// exactly one line of the header section (version line, a field line, or the empty line that
		// ends the section) has a bare LF; every other line ends in CRLF
		var b bytes.Buffer
		bad := r.Intn(len(fields) + 2)
		if r.Intn(3) == 0 {
			bad = len(fields) + 1
		}
		le := func(i int) string {
			if i == bad {
				return "\n"
			}
			return "\r\n"
		}
		b.WriteString("WARC/1.1" + le(0))
		for i, f := range fields {
			b.WriteString(f[0] + ": " + f[1] + le(i+1))
		}
		b.WriteString(le(len(fields) + 1))
		b.Write(g.body)
		b.WriteString("\r\n\r\n")
		rec = b.Bytes()
	}
	if r.Intn(3) == 0 {
		rec = append(rec, wellFormedRecord(r)...)
	}
	return rec
}

func genPol(r *rand.Rand, n int, tier string, out *bufio.Writer) {
	for i := 0; i < n; i++ {
		a, b := genOpts(r), genOpts(r)
		repairs := r.Intn(2)
		for _, o := range []*ropts{&a, &b} {
			o.skip = 0
			o.addID, o.addCL, o.addDig, o.fixCL, o.fixDig, o.fixSyn, o.fixWF = repairs, repairs, repairs, repairs, repairs, repairs, 0
			o.alg, o.enc = "sha1", 2
		}
		b.thr = a.thr
		if r.Intn(2) == 0 {
			a.syntax, a.spec, a.unknown, a.block = 0, 0, 0, 0
		}
		gz := r.Intn(2)
		fmt.Fprintf(out, "pol %s %s %d %s\n", a, b, gz, hx(damagedStream(r)))
	}
}

func runPol(toks []string) (string, string) {
	t := &tokens{t: toks}
	a, b := readOpts(t), readOpts(t)
	gz := t.nextInt() == 1
	data := t.nextHex()
	plain := data
	if gz {
		data = gzipMember(data)
	}
	dir, err := os.MkdirTemp("", "verif-pol-")
	if err != nil {
		panic(err)
	}
	defer os.RemoveAll(dir)
	type one struct {
		rec      gowarc.WarcRecord
		err      error
		hdr, blk string
		blkErr   error
		decl     string
		spec     int
		nf       int
	}
	get := func(o ropts) (res one, p string) {
		p = catch(func() {
			u := gowarc.NewUnmarshaler(o.options(dir, nil)...)
			rec, _, v, err := u.Unmarshal(bufio.NewReader(bytes.NewReader(data)))
			res.rec, res.err, res.spec = rec, err, o.spec
			if v != nil {
				res.nf = len(*v)
			}
			if rec != nil && err == nil {
				res.hdr = rec.WarcHeader().String()
				res.decl = rec.WarcHeader().Get("Content-Length")
				res.blk, res.blkErr = readBlock(rec)
			}
		})
		return
	}
	ra, pa := get(a)
	rb, pb := get(b)
	if ra.rec != nil {
		defer ra.rec.Close()
	}
	if rb.rec != nil {
		defer rb.rec.Close()
	}
	if pa != "" || pb != "" {
		return "PANIC", "FAIL:panic:" + pa + pb
	}
	obs := fmt.Sprintf("%s/%s", classify(ra.err), classify(rb.err))
	// every returned record delivers its complete declared block or an explicit error
	for _, x := range []one{ra, rb} {
		if x.rec == nil || x.err != nil {
			continue
		}
		if x.blkErr != nil {
			continue // explicit error
		}
		if n, e := strconv.Atoi(x.decl); e == nil && n >= 0 && len(x.blk) < n && x.nf == 0 {
			kind := "block-shortened"
			// recorded known finding: under the ignore policy a record whose stream ends before the
			// declared length is returned without any signal
			he := bytes.Index(plain, []byte("\r\n\r\n"))
			if he2 := bytes.Index(plain, []byte("\n\n")); he < 0 || (he2 >= 0 && he2 < he) {
				he = he2
			}
			if x.spec == 0 && he >= 0 && len(plain)-he-2 < n+2 {
				kind = "short-stream-under-ignore"
			}
			return obs, fmt.Sprintf("FAIL:%s:declared Content-Length %d but the returned record delivers %d bytes without error", kind, n, len(x.blk))
		}
	}
	if ra.rec == nil || rb.rec == nil || ra.err != nil || rb.err != nil {
		return obs, "OK"
	}
	repairs := a.fixCL == 1
	if !repairs {
		if ra.hdr != rb.hdr {
			return obs, "FAIL:policy-changes-header:header fields differ between two policies with repairs off"
		}
		if ra.blk != rb.blk {
			return obs, "FAIL:policy-changes-block:block bytes differ between two policies with repairs off"
		}
		return obs, "OK"
	}
	// repairs on: only Content-Length, block digest, payload digest and an appended CRLF may differ
	strip := func(h string) string {
		var keep []string
		for _, l := range strings.Split(h, "\r\n") {
			ll := strings.ToLower(l)
			if strings.HasPrefix(ll, "content-length:") || strings.HasPrefix(ll, "warc-block-digest:") || strings.HasPrefix(ll, "warc-payload-digest:") {
				continue
			}
			keep = append(keep, l)
		}
		return strings.Join(keep, "\r\n")
	}
	if strip(ra.hdr) != strip(rb.hdr) {
		return obs, "FAIL:policy-changes-header:fields other than the documented repairs differ"
	}
	if ra.blk != rb.blk && !strings.Contains(string(data), "HTTP") && !strings.Contains(string(data), "GET") && !strings.Contains(string(data), "POST") {
		return obs, "FAIL:policy-changes-block:block bytes differ beyond the documented repairs"
	}
	return obs, "OK"
}

// ---------- C08 ----------
// repairSensitive: a warc-fields block with syntax problems whose repaired form has the same
// length, and the digest of the repaired form (what a record declares after it was repaired once)
func repairSensitive(r *rand.Rand) (block, repaired []byte) {
	for k := 1 + r.Intn(3); k > 0; k-- {
		name := pick(r, []string{"x", "ab", "software", "q"})
		val := pick(r, []string{"y", "1", "two words", "v=1"})
		block = append(block, (name + ":  " + val + "\n")...)
		repaired = append(repaired, (strings.ToUpper(name[:1]) + name[1:] + ": " + val + "\r\n")...)
	}
	return
}

func genCoh(r *rand.Rand, n int, tier string, out *bufio.Writer) {
	for i := 0; i < n; i++ {
		o := genOpts(r)
		if r.Intn(12) == 0 {
			// repair-sensitive input: acceptance depends on whether the block gets repaired
			o.fixWF, o.spec, o.skip = 1, 1+r.Intn(2), 0
			blk, rep := repairSensitive(r)
			dig := refDigest(pick(r, algs), 1+r.Intn(3), rep)
			if r.Intn(2) == 0 {
				fields := [][2]string{{"WARC-Type", pick(r, []string{"warcinfo", "metadata"})}, {"WARC-Record-ID", "<urn:uuid:00000000-0000-0000-0000-00000000aaaa>"},
					{"WARC-Date", "2021-05-06T07:08:09Z"}, {"Content-Type", "application/warc-fields"},
					{"Content-Length", strconv.Itoa(len(blk))}, {"WARC-Block-Digest", dig}}
				fmt.Fprintf(out, "coh %s p 0 %s\n", o, hx(serializeRecord("1.1", fields, blk, "\r\n")))
			} else {
				g := genRecord{rt: pick(r, []int{1, 16}), body: blk, fields: [][2]string{{"WARC-Date", "2021-05-06T07:08:09Z"},
					{"Content-Type", "application/warc-fields"}, {"WARC-Block-Digest", dig}}}
				fmt.Fprintf(out, "coh %s b %s\n", o, strings.TrimPrefix(fmtBuildCase(ropts{}, g, splitFeeds(r, g.body)), "build "+ropts{}.String()+" "))
			}
			continue
		}
		if r.Intn(2) == 0 {
			data := damagedStream(r)
			if r.Intn(3) == 0 {
				data = mutateStream(r, data)
			}
			fmt.Fprintf(out, "coh %s p %d %s\n", o, r.Intn(2), hx(data))
		} else {
			g := genRecordSpec(r)
			addDeclared(r, &g, o)
			fmt.Fprintf(out, "coh %s b %s\n", o, strings.TrimPrefix(fmtBuildCase(ropts{}, g, splitFeeds(r, g.body)), "build "+ropts{}.String()+" "))
		}
	}
}

func runCoh(toks []string) (string, string) {
	t := &tokens{t: toks}
	base := readOpts(t)
	dir, err := os.MkdirTemp("", "verif-coh-")
	if err != nil {
		panic(err)
	}
	defer os.RemoveAll(dir)
	var run func(o ropts) (isErr bool, nf int, p string)
	wfBlock := false // the record has a warc-fields block
	if t.next() == "p" {
		gz := t.nextInt() == 1
		data := t.nextHex()
		wfBlock = strings.Contains(strings.ToLower(string(data)), "application/warc-fields")
		if gz {
			data = gzipMember(data)
		}
		run = func(o ropts) (bool, int, string) {
			var rerr error
			nf := 0
			p := catch(func() {
				u := gowarc.NewUnmarshaler(o.options(dir, nil)...)
				rec, _, v, err := u.Unmarshal(bufio.NewReader(bytes.NewReader(data)))
				rerr = err
				if v != nil {
					nf = len(*v)
				}
				if rec != nil {
					rec.Close()
				}
			})
			return rerr != nil, nf, p
		}
	} else {
		rt, nfl := t.nextInt(), t.nextInt()
		var fields [][2]string
		for i := 0; i < nfl; i++ {
			fields = append(fields, [2]string{t.nextStr(), t.nextStr()})
			if strings.Contains(strings.ToLower(fields[i][1]), "application/warc-fields") {
				wfBlock = true
			}
		}
		var feeds [][2]string
		for k := t.nextInt(); k > 0; k-- {
			feeds = append(feeds, [2]string{t.next(), t.nextStr()})
		}
		run = func(o ropts) (bool, int, string) {
			var rerr error
			nf := 0
			p := catch(func() {
				rec, v, err := buildRecord(o, rt, fields, feeds, dir)
				rerr = err
				if v != nil {
					nf = len(*v)
				}
				if rec != nil {
					rec.Close()
				}
			})
			return rerr != nil, nf, p
		}
	}
	uni := func(l int) ropts { o := base; o.syntax, o.spec, o.unknown, o.block = l, l, l, l; return o }
	e0, n0, p0 := run(uni(0))
	e1, n1, p1 := run(uni(1))
	e2, n2, p2 := run(uni(2))
	if p0+p1+p2 != "" {
		return "PANIC", "FAIL:panic:" + p0 + p1 + p2
	}
	obs := fmt.Sprintf("i:%v,%d;w:%v,%d;f:%v,%d", e0, n0, e1, n1, e2, n2)
	switch {
	case n0 != 0:
		return obs, fmt.Sprintf("FAIL:policy-incoherent:%d findings under ignore", n0)
	case !e2 && n2 != 0:
		return obs, fmt.Sprintf("FAIL:policy-incoherent:nil error with %d findings under fail", n2)
	case e2 != (e1 || n1 > 0):
		return obs, fmt.Sprintf("FAIL:policy-incoherent:fail returns error=%v but warn has error=%v and %d findings", e2, e1, n1)
	case e0 && !e1, e1 && !e2, e0 && !e2:
		return obs, "FAIL:policy-incoherent:rejected under a lenient uniform level but accepted under a stricter one"
	}
	// axis by axis: with the other axes as in the case, rejection is monotone in the level of one axis
	for axis := 0; axis < 4; axis++ {
		var errs [3]bool
		for l := 0; l < 3; l++ {
			o := base
			switch axis {
			case 0:
				o.syntax = l
			case 1:
				o.spec = l
			case 2:
				o.unknown = l
			default:
				o.block = l
			}
			e, _, p := run(o)
			if p != "" {
				return "PANIC", "FAIL:panic:" + p
			}
			errs[l] = e
		}
		if axis == 0 && base.fixWF == 1 && wfBlock && errs[0] && !errs[1] && errs[2] {
			// known finding: a warc-fields block is only repaired when the syntax policy makes its
			// problems visible, so warn accepts (after the repair) what ignore rejects
			return obs, fmt.Sprintf("FAIL:wfblock-repair-nonmonotone:axis 0 with the warc-fields block repair on: %v", errs)
		}
		if (errs[0] && !errs[1]) || (errs[1] && !errs[2]) || (errs[0] && !errs[2]) {
			return obs, fmt.Sprintf("FAIL:policy-incoherent:axis %d: rejected under a lenient level but accepted under a stricter one %v", axis, errs)
		}
	}
	return obs, "OK"
}
