package main

// Domain "rt" (property C01): build -> marshal (plain / gzip) -> unmarshal under another policy
// -> compare -> marshal again.

import (
	"bufio"
	"bytes"
	"fmt"
	"math/rand"
	"os"
	"strings"

	gowarc "github.com/nlnwa/gowarc/v2"
)

func init() { domains["rt"] = &domain{gen: genRt, run: runRt} }

var cleanValues = []string{"a%20b", "100%", "%s %d%v", "%%", " lead", "trail\t", "=?utf-8?q?x?=", "v", "two words", "a: b", "<urn:uuid:1>", "12", "caf\xc3\xa9", "x=y; z", "tab\tinside", "\xc2\xa0nbsp\xc2\xa0", "\xe3\x80\x80wide", "v\xe2\x80\x80", "a\x0bb", "\x0cff", "\x85x"}

func genValidRecord(r *rand.Rand) genRecord {
	g := genRecord{rt: pick(r, typeNums)}
	ctype := "application/octet-stream"
	var body string
	switch x := r.Intn(10); {
	case x < 4:
		body = pick(r, genericBodies) + string(genData(r, pick(r, []int{0, 10, 300})))
	case x < 7:
		body = pick(r, httpBodies[:4]) + string(genData(r, pick(r, []int{0, 10, 300})))
		ctype = "application/http"
		g.rt = pick(r, []int{2, 8})
	case x < 9:
		body = pick(r, wfBodies[:2])
		ctype = "application/warc-fields"
		g.rt = pick(r, []int{1, 16})
	default:
		body = ""
	}
	lateType := ""
	if r.Intn(12) == 0 {
		if r.Intn(3) == 0 && g.rt&(1|2|4|8|16|64) != 0 {
			lateType = typeNames[g.rt] // NewRecordBuilder(0) followed by AddWarcHeader(WARC-Type, a known type)
		}
		g.rt = 0 // unknown record type
	}
	g.body = []byte(body)
	// a date given as text: canonical mostly, sometimes with a fraction or a numeric offset
	g.fields = append(g.fields, [2]string{"WARC-Date", pick(r, []string{"2021-05-06T07:08:09Z", "2021-05-06T07:08:09Z", "2021-05-06T07:08:09Z",
		"2021-05-06T07:08:09.123Z", "2021-05-06T09:08:09+02:00", "2021-05-06T07:08:09.000000001Z"})})
	g.fields = append(g.fields, [2]string{"Content-Type", ctype})
	if g.rt == 0 {
		if lateType != "" {
			g.fields = append(g.fields, [2]string{"WARC-Type", lateType})
		} else {
			g.fields = append(g.fields, [2]string{"WARC-Type", "myowntype"})
		}
	}
	if g.rt == 32 {
		g.fields = append(g.fields, [2]string{"WARC-Profile", gowarc.ProfileIdenticalPayloadDigestV1_1}, [2]string{"WARC-Payload-Digest", "sha1:AAAAAAAAAAAAAAAAAAAAAAAAAAAAAAAA"})
	}
	if g.rt == 128 {
		g.fields = append(g.fields, [2]string{"WARC-Segment-Number", "2"}, [2]string{"WARC-Segment-Origin-ID", "<urn:uuid:1>"})
	}
	if g.rt&(2|4|8|16|32|64) != 0 && r.Intn(2) == 0 {
		g.fields = append(g.fields, [2]string{"WARC-Target-URI", pick(r, []string{"http://example.com/", "http://example.com/a%20b?q=%41%s"})})
	}
	if r.Intn(120) == 0 { // a header line longer than a bufio buffer, blanks all along
		g.fields = append(g.fields, [2]string{pick(r, unknownNames), longValue(r)})
	}
	for k := r.Intn(3); k > 0; k-- {
		g.fields = append(g.fields, [2]string{randCase(r, pick(r, unknownNames)), pick(r, cleanValues)})
	}
	return g
}

// longValue: more than 4096 bytes with a blank at every other position
func longValue(r *rand.Rand) string {
	return strings.Repeat(pick(r, []string{"x ", "y\t"}), 2050+r.Intn(60)) + "z"
}

func genRt(r *rand.Rand, n int, tier string, out *bufio.Writer) {
	for i := 0; i < n; i++ {
		ob, ord := genOpts(r), genOpts(r)
		ob.skip = 0
		if r.Intn(3) != 0 {
			ord.syntax, ord.spec, ord.unknown = 2, 2, 2 // strict reading
		}
		// the reader runs with the builder's add-missing / repair flags (DESIGN.md section 4, reading of C01)
		ord.addID, ord.addCL, ord.addDig, ord.fixCL, ord.fixDig, ord.fixSyn, ord.fixWF = ob.addID, ob.addCL, ob.addDig, ob.fixCL, ob.fixDig, ob.fixSyn, ob.fixWF
		nrec := pick(r, []int{1, 1, 2, 3, 5})
		var sb strings.Builder
		for j := 0; j < nrec; j++ {
			g := genValidRecord(r)
			if g.rt == 0 {
				ob.unknown = r.Intn(2)
				ord.unknown = ob.unknown
			}
			if total := len(g.body); total > 0 && r.Intn(2) == 0 {
				ob.thr = pick(r, []int{1, total/2 + 1, total, total + 1})
				ord.thr = pick(r, []int{1, total/2 + 1, total, total + 1})
			}
			sb.WriteString(" " + strings.TrimPrefix(fmtBuildCase(ropts{}, g, splitFeeds(r, g.body)), "build "+ropts{}.String()+" "))
		}
		fmt.Fprintf(out, "rt %s %s %d %d%s\n", ob, ord, r.Intn(2), nrec, sb.String())
	}
}

func readBlockAgain(r gowarc.WarcRecord) (string, error) { return readBlock(r) }

func marshalRecord(rec gowarc.WarcRecord) ([]byte, error) {
	var b bytes.Buffer
	_, _, err := gowarc.NewMarshaler().Marshal(&b, rec, 0)
	return b.Bytes(), err
}

type rtSpec struct {
	rt     int
	fields [][2]string
	feeds  [][2]string
}

func runRt(toks []string) (string, string) {
	t := &tokens{t: toks}
	ob, ord := readOpts(t), readOpts(t)
	gz := t.nextInt() == 1
	nrec := t.nextInt()
	edge, enc := false, false
	var specs []rtSpec
	for k := 0; k < nrec; k++ {
		sp := rtSpec{rt: t.nextInt()}
		nf := t.nextInt()
		for i := 0; i < nf; i++ {
			f := [2]string{t.nextStr(), t.nextStr()}
			sp.fields = append(sp.fields, f)
			if f[1] != strings.Trim(f[1], " \t") {
				edge = true
			}
			if strings.Contains(f[1], "=?") {
				enc = true
			}
		}
		nfeeds := t.nextInt()
		for i := 0; i < nfeeds; i++ {
			sp.feeds = append(sp.feeds, [2]string{t.next(), t.nextStr()})
		}
		specs = append(specs, sp)
	}
	dir, err := os.MkdirTemp("", "verif-rt-")
	if err != nil {
		panic(err)
	}
	defer os.RemoveAll(dir)
	if enc {
		return "n/a", "OK" // values with MIME encoded-words are outside the property
	}
	known := func(kind string) string {
		if edge {
			return "trimmed-value"
		}
		return kind
	}
	verdict := "OK"
	obs := "n/a"
	p := catch(func() {
		strict := ob
		strict.syntax, strict.spec = 2, 2
		var recs []gowarc.WarcRecord
		var wires [][]byte
		var stream []byte
		defer func() {
			for _, rc := range recs {
				rc.Close()
			}
		}()
		for _, sp := range specs {
			// (1) the record must be acceptable to the strict builder (same add/fix flags, same unknown-type axis)
			rs, vs, errs := buildRecord(strict, sp.rt, sp.fields, sp.feeds, dir)
			if rs != nil {
				rs.Close()
			}
			if errs != nil || (vs != nil && !vs.Valid()) {
				continue
			}
			// (2) built under whatever policy
			rec, _, errb := buildRecord(ob, sp.rt, sp.fields, sp.feeds, dir)
			if rec != nil {
				recs = append(recs, rec)
			}
			if errb != nil {
				verdict = "FAIL:policy-incoherent:accepted by the strict builder but rejected under a more lenient policy: " + errb.Error()
				return
			}
			if len(toks)%2 == 0 {
				continue // all records are built first and serialized afterwards, while all are alive
			}
			wire, errm := marshalRecord(rec)
			if errm != nil {
				verdict = "FAIL:roundtrip-lossy:marshal failed: " + errm.Error()
				return
			}
			wires = append(wires, wire)
			if gz {
				stream = append(stream, gzipMember(wire)...)
			} else {
				stream = append(stream, wire...)
			}
		}
		if len(recs) == 0 {
			return
		}
		if len(toks)%2 == 0 {
			for _, rec := range recs {
				wire, errm := marshalRecord(rec)
				if errm != nil {
					verdict = "FAIL:roundtrip-lossy:marshal failed: " + errm.Error()
					return
				}
				wires = append(wires, wire)
				if gz {
					stream = append(stream, gzipMember(wire)...)
				} else {
					stream = append(stream, wire...)
				}
			}
		}
		wf, errn := gowarc.NewWarcFileReaderFromStream(bytes.NewReader(stream), 0, ord.options(dir, nil)...)
		if errn != nil {
			verdict = "FAIL:roundtrip-lossy:cannot open the stream"
			return
		}
		defer wf.Close()
		var all []string
		var kept []gowarc.WarcRecord
		var keptBlocks []string
		for i, rec := range recs {
			back, _, v, erru := wf.Next()
			if erru != nil {
				verdict = fmt.Sprintf("FAIL:%s:record %d of %d: parsing the serialized record fails: %v", known("roundtrip-lossy"), i+1, len(recs), erru)
				return
			}
			all = append(all, showRecord(back, v))
			if !v.Valid() {
				verdict = fmt.Sprintf("FAIL:%s:record %d: findings %s", known("roundtrip-lossy"), i+1, kinds(v))
				back.Close()
				return
			}
			orig, _ := readBlock(rec)
			got, errr := readBlock(back)
			switch {
			case errr != nil:
				verdict = "FAIL:roundtrip-lossy:block of the parsed record cannot be read: " + errr.Error()
			case back.Version().String() != rec.Version().String():
				verdict = "FAIL:roundtrip-lossy:version differs"
			case back.Type() != rec.Type():
				verdict = fmt.Sprintf("FAIL:roundtrip-lossy:record type %v became %v", rec.Type(), back.Type())
			case back.WarcHeader().String() != rec.WarcHeader().String() || fieldPairs(back.WarcHeader()) != fieldPairs(rec.WarcHeader()):
				verdict = "FAIL:" + known("roundtrip-lossy") + ":header fields differ"
			case got != orig:
				verdict = "FAIL:roundtrip-lossy:block bytes differ"
			default:
				wire2, err2 := marshalRecord(back)
				if err2 != nil || !bytes.Equal(wire2, wires[i]) {
					verdict = "FAIL:" + known("remarshal-differs") + ":serializing the parsed record does not reproduce the bytes"
				}
			}
			if len(toks)%3 == 0 {
				kept = append(kept, back) // parsed records held across later Next calls
				keptBlocks = append(keptBlocks, got)
			} else {
				back.Close()
			}
			if verdict != "OK" {
				return
			}
		}
		for i, b := range kept {
			// what was read from a record does not change when later records are parsed
			if again, err := readBlockAgain(b); err == nil && again != keptBlocks[i] {
				verdict = "FAIL:roundtrip-lossy:the block of an earlier parsed record changed when later records were parsed"
			}
			b.Close()
		}
		if verdict != "OK" {
			return
		}
		if _, _, _, erre := wf.Next(); erre == nil || erre.Error() != "EOF" {
			verdict = "FAIL:roundtrip-lossy:no clean end of file after the last record"
		}
		obs = "ok;" + strings.Join(all, "|")
	})
	if p != "" {
		return "PANIC", "FAIL:panic:" + p
	}
	return obs, verdict
}
