package main

// Domain "res" (property C15): after Close no temporary spill file and no descriptor remains.
// Each case is a scenario; the observation is the number of temp files and open descriptors
// after every step, relative to the start.

import (
	"bufio"
	"bytes"
	"errors"
	"fmt"
	"io"
	"math/rand"
	"os"
	"path/filepath"
	"runtime"
	"strings"
	"time"

	gowarc "github.com/nlnwa/gowarc/v2"
)

func init() { domains["res"] = &domain{gen: genRes, run: runRes} }

func countFds() int {
	ents, err := os.ReadDir("/proc/self/fd")
	if err != nil {
		return -1
	}
	return len(ents)
}
func countTemp(dir string) int {
	ents, _ := os.ReadDir(dir)
	return len(ents)
}

// faultReader fails with a non-EOF error after n bytes
type faultReader struct {
	data []byte
	n    int
}

func (f *faultReader) Read(p []byte) (int, error) {
	if f.n <= 0 {
		return 0, errInjected
	}
	k := len(p)
	if k > f.n {
		k = f.n
	}
	if k > len(f.data) {
		k = len(f.data)
	}
	if k == 0 {
		return 0, io.EOF
	}
	copy(p, f.data[:k])
	f.data = f.data[k:]
	f.n -= k
	return k, nil
}

type failWriter struct{ after int }

func (w *failWriter) Write(p []byte) (int, error) {
	if w.after <= 0 {
		return 0, errors.New("injected write error")
	}
	n := len(p)
	if n > w.after {
		n = w.after
	}
	w.after -= n
	if n < len(p) {
		return n, errors.New("injected write error")
	}
	return n, nil
}

var resScenarios = []string{"builder-close", "build-close", "build-fail", "build-fail-idfunc", "parse-close", "parse-fault", "parse-fault", "parse-fault", "revisit-merge", "revisit-built-merge", "revisit-built-merge", "reader", "reader-badoffset", "reader-directory", "reader-missing", "reader-beyond", "marshal-fail"}

func genRes(r *rand.Rand, n int, tier string, out *bufio.Writer) {
	for i := 0; i < n; i++ {
		thr := pick(r, []int{1, 16, 64, 200})
		kind := pick(r, []string{"g", "h"})
		size := pick(r, []int{0, 1, thr - 1, thr, thr + 1, 2 * thr, 3*thr + 7})
		if size < 0 {
			size = 0
		}
		sc := pick(r, resScenarios)
		fault := r.Intn(600)
		fmt.Fprintf(out, "res %s %s %d %d %d %d\n", sc, kind, thr, size, fault, r.Intn(3))
	}
}

func resContent(kind string, size int) []byte {
	body := bytes.Repeat([]byte("x"), size)
	if kind == "h" {
		return append([]byte("HTTP/1.1 200 OK\r\nContent-Type: text/plain\r\n\r\n"), body...)
	}
	return body
}

func runRes(toks []string) (string, string) {
	t := &tokens{t: toks}
	sc, kind, thr, size, fault, spec := t.next(), t.next(), t.nextInt(), t.nextInt(), t.nextInt(), t.nextInt()
	dir, err := os.MkdirTemp("", "verif-res-")
	if err != nil {
		panic(err)
	}
	defer os.RemoveAll(dir)
	tmp := filepath.Join(dir, "tmp")
	os.Mkdir(tmp, 0o755)
	content := resContent(kind, size)
	ctype := "application/octet-stream"
	rt := gowarc.Resource
	if kind == "h" {
		ctype = "application/http"
		rt = gowarc.Response
	}
	opts := []gowarc.WarcRecordOption{gowarc.WithBufferTmpDir(tmp), gowarc.WithBufferMaxMemBytes(int64(thr)), gowarc.VerifPolicies(1, spec, 1, 0)}
	newBuilder := func(extra ...gowarc.WarcRecordOption) gowarc.WarcRecordBuilder {
		rb := gowarc.NewRecordBuilder(rt, append(opts, extra...)...)
		rb.AddWarcHeader("WARC-Date", "2021-05-06T07:08:09Z")
		rb.AddWarcHeader("Content-Type", ctype)
		rb.AddWarcHeader("WARC-Target-URI", "http://example.com/")
		if len(content) > thr && fault%2 == 0 {
			// the content arrives in pieces, one of them ending exactly where the memory part is full
			rb.Write(content[:thr])
			rb.Write(content[thr:])
		} else {
			rb.Write(content)
		}
		return rb
	}
	// descriptors leaked by an earlier case are closed by the garbage collector's finalizers at an
	// arbitrary later time: flush them before the baseline is taken
	runtime.GC()
	time.Sleep(2 * time.Millisecond)
	runtime.GC()
	fd0 := countFds()
	var steps []string
	mark := func(name string) {
		steps = append(steps, fmt.Sprintf("%s:t%d,f%d", name, countTemp(tmp), countFds()-fd0))
	}
	p := catch(func() {
		switch sc {
		case "builder-close":
			rb := newBuilder()
			mark("filled")
			rb.Close()
		case "build-close":
			rb := newBuilder()
			rec, _, err := rb.Build()
			mark("built")
			if rec != nil {
				rec.Close()
			}
			_ = err
		case "build-fail":
			rb := newBuilder(gowarc.WithStrictValidation())
			rb.AddWarcHeader("WARC-Date", "not a date") // duplicate and invalid: strict Build fails
			rec, _, _ := rb.Build()
			mark("failed")
			if rec != nil {
				rec.Close()
			}
			rb.Close()
		case "build-fail-idfunc":
			// Build fails before a record exists: only the builder can be closed
			rb := newBuilder(gowarc.WithRecordIdFunc(func() (string, error) { return "", errInjected }))
			rec, _, _ := rb.Build()
			mark("failed")
			if rec != nil {
				rec.Close()
			}
			rb.Close()
		case "parse-close", "parse-fault", "marshal-fail", "revisit-merge", "revisit-built-merge":
			rb := newBuilder()
			orig, _, err := rb.Build()
			if err != nil {
				if orig != nil {
					orig.Close()
				}
				return
			}
			var wire bytes.Buffer
			gowarc.NewMarshaler().Marshal(&wire, orig, 0)
			switch sc {
			case "parse-close":
				orig.Close()
				rec, _, _, _ := gowarc.NewUnmarshaler(opts...).Unmarshal(bufio.NewReader(&wire))
				mark("parsed")
				if rec != nil {
					rec.Close()
				}
			case "parse-fault":
				orig.Close()
				data := wire.Bytes()
				pos := fault % (len(data) + 1)
				if fault%2 == 0 { // a fault late in the content or in the end-of-record marker
					pos = len(data) - 1 - (fault/2)%(size+5)
					if pos < 0 {
						pos = 0
					}
				}
				rec, _, _, _ := gowarc.NewUnmarshaler(opts...).Unmarshal(bufio.NewReaderSize(&faultReader{data: data, n: pos}, 16))
				mark("parsed")
				if rec != nil {
					rec.Close()
				}
			case "marshal-fail":
				gowarc.NewMarshaler().Marshal(&failWriter{after: fault % (wire.Len() + 1)}, orig, 0)
				mark("marshaled")
				orig.Close()
			case "revisit-built-merge":
				// a revisit record that comes from a builder of its own (its block spills like any
				// other content) or from the parser, merged with the record it refers to
				if kind != "h" {
					orig.Close()
					return
				}
				head := []byte("HTTP/1.1 200 OK\r\nContent-Type: text/plain\r\n\r\n")
				rb2 := gowarc.NewRecordBuilder(gowarc.Revisit, opts...)
				rb2.AddWarcHeader("WARC-Date", "2021-05-06T07:08:10Z")
				rb2.AddWarcHeader("Content-Type", "application/http")
				rb2.AddWarcHeader("WARC-Target-URI", "http://example.com/")
				rb2.AddWarcHeader("WARC-Profile", gowarc.ProfileServerNotModifiedV1_1)
				rb2.AddWarcHeader("WARC-Refers-To", "<"+orig.RecordId()+">")
				rb2.Write(head)
				rev, _, err := rb2.Build()
				mark("revisit")
				if err == nil && rev != nil {
					if fault%2 == 1 {
						// the same through the parser
						var w2 bytes.Buffer
						gowarc.NewMarshaler().Marshal(&w2, rev, 0)
						rev.Close()
						rev, _, _, err = gowarc.NewUnmarshaler(opts...).Unmarshal(bufio.NewReader(&w2))
					}
					if err == nil && rev != nil {
						merged, _ := rev.Merge(orig)
						mark("merged")
						if merged != nil {
							merged.Close()
						}
					}
				}
				if rev != nil {
					rev.Close()
				}
				orig.Close()
			case "revisit-merge":
				if kind != "h" {
					orig.Close()
					return
				}
				ref, _ := orig.CreateRevisitRef(gowarc.ProfileServerNotModifiedV1_1)
				rev, err := orig.ToRevisitRecord(ref)
				mark("revisit")
				if err == nil {
					merged, _ := rev.Merge(orig)
					mark("merged")
					if merged != nil {
						merged.Close()
					}
					rev.Close()
				}
				orig.Close()
			}
		case "reader", "reader-badoffset", "reader-directory", "reader-missing", "reader-beyond":
			path := filepath.Join(dir, "f.warc")
			rb := newBuilder()
			orig, _, _ := rb.Build()
			f, _ := os.Create(path)
			gowarc.NewMarshaler().Marshal(f, orig, 0)
			f.Close()
			orig.Close()
			off := int64(0)
			switch sc {
			case "reader-badoffset":
				off = -1
			case "reader-directory": // every way the construction can fail
				path = tmp
			case "reader-missing":
				path = filepath.Join(dir, "nosuchfile.warc")
			case "reader-beyond":
				off = 1 << 40
			}
			rd, err := gowarc.NewWarcFileReader(path, off, opts...)
			mark("opened")
			if err == nil {
				rec, _, _, _ := rd.Next()
				mark("read")
				if rec != nil {
					rec.Close()
				}
				rd.Close()
			}
		}
	})
	if p != "" {
		return "PANIC", "FAIL:panic:" + p
	}
	mark("closed")
	obs := strings.Join(steps, ";")
	last := steps[len(steps)-1]
	var lt, lf int
	fmt.Sscanf(last, "closed:t%d,f%d", &lt, &lf)
	if lf < 0 {
		lf = 0 // a descriptor from before the baseline was finalized meanwhile
		steps[len(steps)-1] = fmt.Sprintf("closed:t%d,f0", lt)
		obs = strings.Join(steps, ";")
	}
	if lt > 0 || lf > 0 {
		return obs, "FAIL:leak:after everything returned was closed: " + last + " (temp files, descriptors above the start)"
	}
	return obs, "OK"
}
